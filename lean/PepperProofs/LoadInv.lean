import PepperProofs.Comp
import PepperModel.FixSpec
import PepperProofs.Finish
/-!
# What a successful `Comp.load` establishes (discharges the decidable hypotheses of C12 / C16 / C03)

`CompWF.WF` (C01) is the structural invariant of the component tables.  The executable checks the other
properties assume (`FixSpec.wfB`, `Finish.constLenB`, `Finish.wfCompB`, `Des.CompOk`) need three more
facts, collected in `WFX`: every item reference carries the *kind* (`isSup`) of the entry it names, and the
`base_seqs` of a structure is the concatenation of its strands' `base_seqs`.  `addStmt` preserves `WFX`
(`addStmt_WFX`), so every loaded component satisfies `WF ∧ WFX ∧ CodesInv` (`load_inv_all`), and from those
the executable checks follow (`wfB_of_inv`, `constLen_of_WF`, `wfComp_of_WF`).

Hypotheses on the source (both needed: a user sequence named `_Anon0` makes `registerAnon` skip the
compiler's own `_Anon0`, after which lengths no longer add up; a quoted letter outside the table ends up in a
constraint string): `StmtNamesOk src` (the statement part of `UserNamesOk`) and, for `wfB` only, `CodesOk`.
-/
set_option linter.unusedSimpArgs false
set_option linter.unusedVariables false
namespace Pepper.LoadInv
open Pepper Pepper.Comp Pepper.Constraint

/-- the statement part of `UserNamesOk`: names the statements define or mention are user names -/
def StmtNamesOk (src : Src) : Bool := src.stmts.all stmtNamesOk

theorem stmtNamesOk_of_user {src : Src} (h : UserNamesOk src = true) : StmtNamesOk src = true := by
  simp only [UserNamesOk, Bool.and_eq_true] at h
  exact h.1

/-! ### the additional invariant -/

/-- the item names an entry of the table and carries its kind -/
def KindOk (l : List SeqE) (i : ItemRef) : Prop := ∃ ie, findE l i.name = some ie ∧ i.isSup = ie.isSup

/-- `base_seqs` of the strand of that name -/
def strandBases (ts : List StrandE) (n : String) : List BaseRef :=
  match findT ts n with
  | some t => t.bases
  | none => []

structure WFX (s : St) : Prop where
  seqKinds : ∀ e ∈ s.seqs, ∀ i ∈ e.items, KindOk s.seqs i
  strandKinds : ∀ t ∈ s.strands, ∀ i ∈ t.items, KindOk s.seqs i
  structBases : ∀ e ∈ s.structs, e.bases = e.strands.flatMap (strandBases s.strands)

theorem KindOk.mono {l l' : List SeqE} (h : Ext l l') {i : ItemRef} (hi : KindOk l i) : KindOk l' i := by
  obtain ⟨ie, h1, h2⟩ := hi
  exact ⟨ie, h _ _ h1, h2⟩

theorem KindOk_map {f : SeqE → SeqE} (hf : FlagOnly f) {l : List SeqE} {i : ItemRef} (hi : KindOk l i) :
    KindOk (l.map f) i := by
  obtain ⟨ie, h1, h2⟩ := hi
  refine ⟨f ie, ?_, by rw [h2, (hf ie).2.1]⟩
  rw [findE_map f (fun e => (hf e).1), h1]; rfl

theorem mem_itemsOfView_kind {e : SeqE} {st : Bool} {i : ItemRef} (h : i ∈ itemsOfView e st) :
    ∃ j ∈ e.items, i.name = j.name ∧ i.isSup = j.isSup := by
  cases st with
  | false => exact ⟨i, by simpa [itemsOfView] using h, rfl, rfl⟩
  | true =>
    simp only [itemsOfView, if_true, List.mem_map, List.mem_reverse] at h
    obtain ⟨j, hj, rfl⟩ := h
    exact ⟨j, hj, rfl, rfl⟩

theorem cleanConst_kind {s : St} (hk : ∀ e ∈ s.seqs, ∀ i ∈ e.items, KindOk s.seqs i) {items : List SrcItem}
    {cs : List CItem} (h : cleanConst s items = .ok cs) : ∀ i bs, CItem.obj i bs ∈ cs → KindOk s.seqs i := by
  induction items generalizing cs with
  | nil => simp [cleanConst] at h; subst h; simp
  | cons it r ih =>
    cases it with
    | nuc text =>
      obtain ⟨rest, hr, rfl⟩ := cleanConst_nuc h
      intro i bs hm
      simp only [List.mem_cons, reduceCtorEq, false_or] at hm
      exact ih hr i bs hm
    | ref n st =>
      obtain ⟨e, rest, he, hr, rfl⟩ := cleanConst_ref h
      intro i bs hm
      simp only [List.mem_cons, CItem.obj.injEq] at hm
      rcases hm with ⟨rfl, rfl⟩ | hm
      · have hn := (findE_some he).2
        exact ⟨e, by simpa [hn] using he, rfl⟩
      · exact ih hr i bs hm
    | domains n st =>
      obtain ⟨e, objs, rest, he, hs, hobjs, hr, rfl⟩ := cleanConst_domains h
      intro i bs hm
      rcases List.mem_append.mp hm with hm | hm
      · have hmap := mapM_ok_inv hobjs
        have : Except.ok (CItem.obj i bs) ∈ objs.map (Except.ok (ε := Comp.Err)) := List.mem_map.mpr ⟨_, hm, rfl⟩
        rw [← hmap] at this
        obtain ⟨i0, hi0, hf⟩ := List.mem_map.mp this
        obtain ⟨j, hj, hjn, hjs⟩ := mem_itemsOfView_kind hi0
        obtain ⟨ie, hie, hsup⟩ := hk e (findE_some he).1 j hj
        rw [findSeq_eq, hjn, hie] at hf
        simp only [pure, Except.pure, Except.ok.injEq, CItem.obj.injEq] at hf
        obtain ⟨rfl, _⟩ := hf
        exact ⟨ie, by rw [hjn]; exact hie, by rw [hjs]; exact hsup⟩
      · exact ih hr i bs hm

/-- `region_nf` together with: the object items of the normal form are object items of the cleaned list -/
theorem region_nf2 {s : St} {a : Nat} (hent : ∀ e ∈ s.seqs, EntryWF s.seqs e) {items : List SrcItem}
    {len : Option Nat} {cs : List CItem} {b : Built}
    (hc : cleanConst s items = .ok cs) (hb : buildSuper a cs len = .ok b) :
    ∃ sg, RegionNF s a items len cs b sg ∧ ∀ i bs, CItem.obj i bs ∈ sgItems sg → CItem.obj i bs ∈ cs := by
  obtain ⟨sg, nf, hobj, hnuc, hshape⟩ := buildSuper_nf hb
  refine ⟨sg, ⟨hc, hb, nf, fun i bs h => cleanConst_ok hent hc i bs (hobj i bs h), ?_, hshape⟩, hobj⟩
  intro p hp
  rcases hnuc p hp with h | ⟨w, x, hw, rfl⟩
  · obtain ⟨t, ht, rfl⟩ := cleanConst_nucs hc p h
    exact ⟨t, ht, Or.inl rfl⟩
  · obtain ⟨t, ht, rfl⟩ := cleanConst_nucs hc w hw
    exact ⟨t, ht, Or.inr ⟨x, rfl⟩⟩

theorem mem_refsFrom {k : Nat} {cs : List CItem} {i : ItemRef} (h : i ∈ refsFrom k cs) :
    (∃ bs, CItem.obj i bs ∈ cs) ∨ ∃ e ∈ anonsFrom k cs, i = e.ref := by
  induction cs generalizing k with
  | nil => simp [refsFrom] at h
  | cons c r ih =>
    cases c with
    | obj j bs =>
      simp only [refsFrom, List.mem_cons] at h
      rcases h with rfl | h
      · exact Or.inl ⟨bs, by simp⟩
      · rcases ih h with ⟨bs', hb⟩ | ⟨e, he, hi⟩
        · exact Or.inl ⟨bs', List.mem_cons_of_mem _ hb⟩
        · exact Or.inr ⟨e, by simpa [anonsFrom] using he, hi⟩
    | nuc p =>
      simp only [refsFrom, List.mem_cons] at h
      rcases h with rfl | h
      · exact Or.inr ⟨mkAnon k (fixedSum p) (expand 0 p), by simp [anonsFrom], rfl⟩
      · rcases ih h with ⟨bs', hb⟩ | ⟨e, he, hi⟩
        · exact Or.inl ⟨bs', List.mem_cons_of_mem _ hb⟩
        · exact Or.inr ⟨e, by simp [anonsFrom, he], hi⟩

/-- the items of a freshly built object carry the kinds of the entries they name in the final table -/
theorem built_kinds {s : St} {a : Nat} {items : List SrcItem} {len : Option Nat} {cs : List CItem} {b : Built}
    {sg : Segs} {x : List SeqE} (R : RegionNF s a items len cs b sg)
    (hsub : ∀ i bs, CItem.obj i bs ∈ sgItems sg → CItem.obj i bs ∈ cs) (F : RegionFinal s a b sg x)
    (hk : ∀ i bs, CItem.obj i bs ∈ cs → KindOk s.seqs i) :
    ∀ i ∈ b.items, KindOk (s.seqs ++ x ++ sgAnons sg) i := by
  intro i hi
  rw [R.nf.items] at hi
  simp only [sgRefs, List.mem_flatMap] at hi
  obtain ⟨y, hy, hi⟩ := hi
  rcases mem_refsFrom hi with ⟨bs, hb⟩ | ⟨e, he, rfl⟩
  · have hext : Ext s.seqs (s.seqs ++ x ++ sgAnons sg) := by
      rw [List.append_assoc]; exact Ext.append _ _
    refine (hk i bs (hsub i bs ?_)).mono hext
    simp only [sgItems, List.mem_flatMap]; exact ⟨y, hy, hb⟩
  · exact ⟨e, (F.segs y hy).anons e he, rfl⟩

/-! ### `strandBases` under the updates of the strand table -/

theorem flatMap_congr_mem {α β} {l : List α} {f g : α → List β} (h : ∀ a ∈ l, f a = g a) : l.flatMap f = l.flatMap g := by
  induction l with
  | nil => rfl
  | cons a r ih => simp only [List.flatMap_cons, h a (by simp), ih (fun b hb => h b (by simp [hb]))]

theorem strandBases_append {ts : List StrandE} {n : String} (h : (findT ts n).isSome = true) (x : List StrandE) :
    strandBases (ts ++ x) n = strandBases ts n := by
  unfold strandBases
  rw [findT_append]
  cases hh : findT ts n with
  | none => simp [hh] at h
  | some o => rfl

theorem strandBases_map (g : StrandE → StrandE) (hg : ∀ o, (g o).name = o.name ∧ (g o).bases = o.bases)
    (ts : List StrandE) (n : String) : strandBases (ts.map g) n = strandBases ts n := by
  unfold strandBases
  rw [findT_map g (fun o => (hg o).1)]
  cases findT ts n with
  | none => rfl
  | some o => simp [(hg o).2]

theorem filterMap_bases {ts : List StrandE} {strands : List String}
    (h : ∀ n ∈ strands, (findT ts n).isSome = true) :
    (strands.filterMap (findT ts)).flatMap (·.bases) = strands.flatMap (strandBases ts) := by
  induction strands with
  | nil => rfl
  | cons n r ih =>
    have hn := h n (by simp)
    cases hf : findT ts n with
    | none => simp [hf] at hn
    | some o =>
      simp only [List.filterMap_cons, hf, List.flatMap_cons]
      rw [ih (fun m hm => h m (by simp [hm]))]
      simp [strandBases, hf]

/-! ### preservation -/

theorem WFX_init (name pfx : String) (params : List String) : WFX { name := name, pfx := pfx, params := params } :=
  ⟨by simp, by simp, by simp⟩

theorem flagFn_props (strands : List String) (o : StrandE) :
    ((fun (o : StrandE) => if strands.contains o.name then { o with inStructure := true } else o) o).name = o.name ∧
    ((fun (o : StrandE) => if strands.contains o.name then { o with inStructure := true } else o) o).bases = o.bases ∧
    ((fun (o : StrandE) => if strands.contains o.name then { o with inStructure := true } else o) o).items = o.items := by
  simp only; split <;> simp

theorem addStmt_WFX {s : St} {a : Nat} {stmt : Stmt} {s' : St} {a' : Nat} (hw : WF s a) (hx : WFX s)
    (hok : stmtNamesOk stmt = true) (h : addStmt s a stmt = .ok (s', a')) : WFX s' := by
  cases stmt with
  | seq name items len =>
    simp only [stmtNamesOk, Bool.and_eq_true] at hok
    by_cases hb : ∃ text, items = [.nuc text]
    · obtain ⟨text, rfl⟩ := hb
      obtain ⟨hf, l, c, hr, rfl, rfl⟩ := addStmt_seq_base h
      refine ⟨?_, ?_, hx.structBases⟩
      · intro e he i hi
        simp only [List.mem_append, List.mem_singleton] at he
        rcases he with he | rfl
        · exact (hx.seqKinds e he i hi).mono (Ext.append _ _)
        · simp at hi
      · intro t ht i hi
        exact (hx.strandKinds t ht i hi).mono (Ext.append _ _)
    · obtain ⟨hf, cs, b, hc, hbd, rfl, rfl⟩ := addStmt_seq_sup (fun t ht => hb ⟨t, ht⟩) h
      obtain ⟨sg, R, hsub⟩ := region_nf2 hw.seqs.entries hc hbd
      rw [(WF_seq_sup hw hok.1 hf R).1]
      have hnd0 : ((s.seqs ++ [supEntry name b]).map (·.name)).Nodup := nodup_snoc hw.seqs.nodup hf
      have F := region_final hw.seqs R [supEntry name b]
        (by intro e he; simp only [List.mem_singleton] at he; subst he; exact hok.1) hnd0
      have hext : Ext s.seqs (s.seqs ++ [supEntry name b] ++ sgAnons sg) := by
        rw [List.append_assoc]; exact Ext.append _ _
      refine ⟨?_, ?_, hx.structBases⟩
      · intro e he i hi
        simp only [List.mem_append, List.mem_singleton] at he
        rcases he with (he | rfl) | he
        · exact (hx.seqKinds e he i hi).mono hext
        · exact built_kinds R hsub F (cleanConst_kind hx.seqKinds hc) i hi
        · rw [(F.anons e he).2.2.1] at hi; simp at hi
      · intro t ht i hi
        exact (hx.strandKinds t ht i hi).mono hext
  | strand dummy name items len =>
    obtain ⟨hf, cs, b, hc, hbd, _, rfl, rfl⟩ := addStmt_strand h
    obtain ⟨sg, R, hsub⟩ := region_nf2 hw.seqs.entries hc hbd
    rw [(WF_strand (dummy := dummy) hw hf R).1]
    have F := region_final hw.seqs R [] (by simp) (by simpa using hw.seqs.nodup)
    have hbk := built_kinds R hsub F (cleanConst_kind hx.seqKinds hc)
    simp only [List.append_nil] at hbk
    have hanons := F.anons
    simp only [List.append_nil] at hanons
    refine ⟨?_, ?_, ?_⟩
    · intro e he i hi
      obtain ⟨e0, he0, rfl⟩ := List.mem_map.mp he
      rw [(markFn_flagOnly b.bases e0).2.2.2.2.1] at hi
      apply KindOk_map (markFn_flagOnly _)
      rcases List.mem_append.mp he0 with he0 | he0
      · exact (hx.seqKinds e0 he0 i hi).mono (Ext.append _ _)
      · rw [(hanons e0 he0).2.2.1] at hi; simp at hi
    · intro t ht i hi
      apply KindOk_map (markFn_flagOnly _)
      rcases List.mem_append.mp ht with ht | ht
      · exact (hx.strandKinds t ht i hi).mono (Ext.append _ _)
      · simp only [List.mem_singleton] at ht
        subst ht
        exact hbk i hi
    · intro e he
      rw [hx.structBases e he]
      apply flatMap_congr_mem
      intro n hn
      exact (strandBases_append ((hw.structs e he).found n hn) _).symm
  | struct opt name strands domain text =>
    obtain ⟨hf, objs, dp, full, optv, hobjs, hdp, hfull, hsz, _, rfl, rfl⟩ := addStmt_struct h
    obtain ⟨hfound, hobjeq⟩ := strands_mapM hobjs
    have hg := flagFn_props strands
    refine ⟨hx.seqKinds, ?_, ?_⟩
    · intro t ht i hi
      obtain ⟨t0, ht0, rfl⟩ := List.mem_map.mp ht
      rw [(hg t0).2.2] at hi
      exact hx.strandKinds t0 ht0 i hi
    · intro e he
      simp only
      rcases List.mem_append.mp he with he | he
      · rw [hx.structBases e he]
        apply flatMap_congr_mem
        intro n _
        exact (strandBases_map _ (fun o => ⟨(hg o).1, (hg o).2.1⟩) _ n).symm
      · simp only [List.mem_singleton] at he
        subst he
        simp only
        rw [hobjeq, filterMap_bases hfound]
        apply flatMap_congr_mem
        intro n _
        exact (strandBases_map _ (fun o => ⟨(hg o).1, (hg o).2.1⟩) _ n).symm
  | kinetic low high ins outs =>
    obtain ⟨_, lo, hi, _, _, rfl, rfl⟩ := addStmt_kinetic h
    exact ⟨hx.seqKinds, hx.strandKinds, hx.structBases⟩

/-! ### the prefix is never touched -/

theorem registerAnon_pfx (s : St) (b : Built) : (registerAnon s b).pfx = s.pfx := by
  unfold registerAnon
  generalize b.items = its
  induction its generalizing s with
  | nil => rfl
  | cons i r ih =>
    simp only [List.foldl_cons]
    rw [ih]
    split
    · rfl
    · split <;> rfl

theorem addStmt_pfx {s : St} {a : Nat} {stmt : Stmt} {s' : St} {a' : Nat} (h : addStmt s a stmt = .ok (s', a')) :
    s'.pfx = s.pfx := by
  cases stmt with
  | seq name items len =>
    by_cases hb : ∃ text, items = [.nuc text]
    · obtain ⟨text, rfl⟩ := hb
      obtain ⟨_, l, c, _, rfl, _⟩ := addStmt_seq_base h
      rfl
    · obtain ⟨_, cs, b, _, _, rfl, _⟩ := addStmt_seq_sup (fun t ht => hb ⟨t, ht⟩) h
      rw [registerAnon_pfx]
  | strand dummy name items len =>
    obtain ⟨_, cs, b, _, _, _, rfl, _⟩ := addStmt_strand h
    show (registerAnon _ b).pfx = s.pfx
    rw [registerAnon_pfx]
  | struct opt name strands domain text =>
    obtain ⟨_, objs, dp, full, optv, _, _, _, _, _, rfl, _⟩ := addStmt_struct h
    rfl
  | kinetic low high ins outs =>
    obtain ⟨_, lo, hi, _, _, rfl, _⟩ := addStmt_kinetic h
    rfl

/-! ### the statement loop -/

theorem addStmts_inv : ∀ (stmts : List Stmt) {s : St} {a : Nat} {s' : St} {a' : Nat}, WF s a → WFX s →
    (∀ x ∈ stmts, stmtNamesOk x = true) → addStmts s a stmts = .ok (s', a') →
    WF s' a' ∧ WFX s' ∧ s'.pfx = s.pfx := by
  intro stmts
  induction stmts with
  | nil =>
    intro s a s' a' hw hx _ h
    simp only [addStmts, Except.ok.injEq, Prod.mk.injEq] at h
    obtain ⟨rfl, rfl⟩ := h
    exact ⟨hw, hx, rfl⟩
  | cons x r ih =>
    intro s a s' a' hw hx hn h
    simp only [addStmts] at h
    cases h1 : addStmt s a x with
    | error e => simp [h1] at h
    | ok v =>
      obtain ⟨s2, a2⟩ := v
      simp only [h1] at h
      have hok := hn x (by simp)
      obtain ⟨g1, g2, g3⟩ := ih (addStmt_WF hw hok h1).1 (addStmt_WFX hw hx hok h1)
        (fun y hy => hn y (by simp [hy])) h
      exact ⟨g1, g2, g3.trans (addStmt_pfx h1)⟩

theorem addStmts_codes {tbl : CodeTable} : ∀ (stmts : List Stmt) {s : St} {a : Nat} {s' : St} {a' : Nat}, WF s a →
    CodesInv tbl s → (∀ x ∈ stmts, stmtNamesOk x = true) → (∀ x ∈ stmts, stmtCodesOk tbl x = true) →
    addStmts s a stmts = .ok (s', a') → CodesInv tbl s' := by
  intro stmts
  induction stmts with
  | nil =>
    intro s a s' a' _ hc _ _ h
    simp only [addStmts, Except.ok.injEq, Prod.mk.injEq] at h
    rw [← h.1]; exact hc
  | cons x r ih =>
    intro s a s' a' hw hc hn hco h
    simp only [addStmts] at h
    cases h1 : addStmt s a x with
    | error e => simp [h1] at h
    | ok v =>
      obtain ⟨s2, a2⟩ := v
      simp only [h1] at h
      exact ih (addStmt_WF hw (hn x (by simp)) h1).1
        (addStmt_codes hw hc (hn x (by simp)) (hco x (by simp)) h1)
        (fun y hy => hn y (by simp [hy])) (fun y hy => hco y (by simp [hy])) h

/-! ### `add_IO` -/

theorem mapM_ok_mem_right {α β ε} {f : α → Except ε β} {l : List α} {r : List β} (h : l.mapM f = .ok r) :
    ∀ y ∈ r, ∃ x ∈ l, f x = .ok y := by
  intro y hy
  have hm := mapM_ok_inv h
  have : Except.ok y ∈ r.map (Except.ok (ε := ε)) := List.mem_map.mpr ⟨y, hy, rfl⟩
  rw [← hm] at this
  obtain ⟨x, hx, hf⟩ := List.mem_map.mp this
  exact ⟨x, hx, hf⟩

theorem mapM_ok_map {α β ε γ} {f : α → Except ε β} {l : List α} {r : List β} (h : l.mapM f = .ok r)
    (g : β → γ) (k : α → γ) (hgk : ∀ x y, f x = .ok y → g y = k x) : r.map g = l.map k := by
  induction l generalizing r with
  | nil => simp [List.mapM_nil, pure, Except.pure] at h; subst h; rfl
  | cons x t ih =>
    rw [List.mapM_cons] at h
    cases hx : f x with
    | error e => simp [hx, bind, Except.bind] at h
    | ok y =>
      cases ht : t.mapM f with
      | error e => simp [hx, ht, bind, Except.bind] at h
      | ok ys =>
        simp [hx, ht, bind, Except.bind, pure, Except.pure] at h
        subst h
        simp [hgk x y hx, ih ht]

/-- `add_IO`, one port -/
def portOf (s : St) (p : Comp.Port) : Except Comp.Err (ItemRef × Option String) := do
  match s.findSeq p.seq with
  | none => throw Comp.Err.undefinedSeq
  | some e =>
    match p.struct with
    | some sn => if (s.findStruct sn).isNone then throw Comp.Err.undefinedStruct
    | none => pure ()
    pure ((⟨e.name, p.star, e.len, e.isSup⟩ : ItemRef), p.struct)

theorem addIO_eq (s : St) (inputs outputs : List Comp.Port) :
    addIO s inputs outputs = (do
      let ins ← inputs.mapM (portOf s)
      let outs ← outputs.mapM (portOf s)
      pure { s with inputSeqs := ins.map (·.1), inputStructs := ins.map (·.2),
                    outputSeqs := outs.map (·.1), outputStructs := outs.map (·.2) }) := rfl

/-- a port item names an entry of the table and carries its name, length and kind -/
def PortItemOk (l : List SeqE) (i : ItemRef) : Prop :=
  ∃ e, findE l i.name = some e ∧ i.len = e.len ∧ i.isSup = e.isSup

theorem portOf_spec {s : St} {p : Comp.Port} {r : ItemRef × Option String} (h : portOf s p = .ok r) :
    r.1.name = p.seq ∧ PortItemOk s.seqs r.1 := by
  unfold portOf at h
  cases he : s.findSeq p.seq with
  | none => rw [he] at h; cases h
  | some e =>
    rw [he] at h
    have hname : e.name = p.seq := (findE_some he).2
    have hfe : findE s.seqs e.name = some e := by rw [hname]; exact he
    cases hs : p.struct with
    | none =>
      simp only [hs, pure, Except.pure, Except.ok.injEq] at h
      subst h
      exact ⟨hname, e, hfe, rfl, rfl⟩
    | some sn =>
      simp only [hs, bind, Except.bind, pure, Except.pure] at h
      split at h
      · cases h
      · simp only [Except.ok.injEq] at h
        subst h
        exact ⟨hname, e, hfe, rfl, rfl⟩

theorem addIO_ports {s st : St} {ins outs : List Comp.Port} (h : addIO s ins outs = .ok st) :
    (∀ i ∈ st.inputSeqs ++ st.outputSeqs, PortItemOk s.seqs i) ∧
    (st.inputSeqs ++ st.outputSeqs).map (·.name) = (ins ++ outs).map (·.seq) := by
  rw [addIO_eq] at h
  cases hi : ins.mapM (portOf s) with
  | error e => rw [hi] at h; cases h
  | ok vi =>
    rw [hi] at h
    cases ho : outs.mapM (portOf s) with
    | error e => rw [ho] at h; cases h
    | ok vo =>
      rw [ho] at h
      simp only [bind, Except.bind, pure, Except.pure, Except.ok.injEq] at h
      subst h
      refine ⟨?_, ?_⟩
      · intro i hm
        simp only [List.mem_append, List.mem_map] at hm
        rcases hm with ⟨r, hr, rfl⟩ | ⟨r, hr, rfl⟩
        · obtain ⟨p, _, hp⟩ := mapM_ok_mem_right hi r hr
          exact (portOf_spec hp).2
        · obtain ⟨p, _, hp⟩ := mapM_ok_mem_right ho r hr
          exact (portOf_spec hp).2
      · simp only [List.map_append, List.map_map]
        rw [mapM_ok_map hi ((fun (x : ItemRef) => x.name) ∘ fun (x : ItemRef × Option String) => x.1) (·.seq)
            (fun x y hxy => (portOf_spec hxy).1),
          mapM_ok_map ho ((fun (x : ItemRef) => x.name) ∘ fun (x : ItemRef × Option String) => x.1) (·.seq)
            (fun x y hxy => (portOf_spec hxy).1)]

/-! ### a loaded component -/

/-- everything later proofs use about a loaded component -/
structure CompInv (st : St) (a : Nat) : Prop where
  wf : WF st a
  wfx : WFX st
  ports : ∀ i ∈ st.inputSeqs ++ st.outputSeqs, PortItemOk st.seqs i

theorem load_inv_all {src : Src} {n : Nat} {pfx : String} {a : Nat} {st : St} {a' : Nat}
    (h : load src n pfx a = .ok (st, a')) (hn : StmtNamesOk src = true) :
    CompInv st a' ∧ st.pfx = pfx ∧
      (st.inputSeqs ++ st.outputSeqs).map (·.name) = (src.inputs ++ src.outputs).map (·.seq) := by
  obtain ⟨s, hadd, hio⟩ := load_inv h
  simp only [StmtNamesOk, List.all_eq_true] at hn
  obtain ⟨hw, hx, hp⟩ := addStmts_inv src.stmts (WF_init src.name pfx src.params a) (WFX_init _ _ _) hn hadd
  obtain ⟨⟨hsp, hss, hst, hsu, hsk⟩, _⟩ := addIO_inv hio
  obtain ⟨hports, hnames⟩ := addIO_ports hio
  refine ⟨⟨⟨by rw [hss]; exact hw.seqs, by rw [hst, hss]; exact hw.strands, by rw [hst]; exact hw.strandNames,
      by rw [hsu, hst]; exact hw.structs, by rw [hsu]; exact hw.structNames⟩,
    ⟨by rw [hss]; exact hx.seqKinds, by rw [hst, hss]; exact hx.strandKinds, by rw [hsu, hst]; exact hx.structBases⟩,
    by rw [hss]; exact hports⟩, by rw [hsp, hp], hnames⟩

/-- the port items of a loaded component name entries of its table (no hypothesis on the source) -/
theorem load_ports {src : Src} {n : Nat} {pfx : String} {a : Nat} {st : St} {a' : Nat}
    (h : load src n pfx a = .ok (st, a')) : ∀ i ∈ st.inputSeqs ++ st.outputSeqs, PortItemOk st.seqs i := by
  obtain ⟨s, hadd, hio⟩ := load_inv h
  obtain ⟨⟨_, hss, _, _, _⟩, _⟩ := addIO_inv hio
  rw [hss]
  exact (addIO_ports hio).1

/-- the port list of a loaded component carries the sequence names of the declaration, in order -/
theorem load_port_names {src : Src} {n : Nat} {pfx : String} {a : Nat} {st : St} {a' : Nat}
    (h : load src n pfx a = .ok (st, a')) :
    (st.inputSeqs ++ st.outputSeqs).map (·.name) = (src.inputs ++ src.outputs).map (·.seq) := by
  obtain ⟨s, hadd, hio⟩ := load_inv h
  exact (addIO_ports hio).2

theorem load_codes {tbl : CodeTable} {src : Src} {n : Nat} {pfx : String} {a : Nat} {st : St} {a' : Nat}
    (h : load src n pfx a = .ok (st, a')) (hn : StmtNamesOk src = true) (hc : CodesOk tbl src = true) :
    CodesInv tbl st := by
  obtain ⟨s, hadd, hio⟩ := load_inv h
  simp only [StmtNamesOk, List.all_eq_true] at hn
  simp only [CodesOk, List.all_eq_true] at hc
  have := addStmts_codes (tbl := tbl) src.stmts (WF_init src.name pfx src.params a) (by intro e he; simp at he) hn hc hadd
  obtain ⟨⟨_, hss, _, _, _⟩, _⟩ := addIO_inv hio
  intro e he
  rw [hss] at he
  exact this e he

/-! ### the invariant implies `FixSpec.wfB` -/

theorem basesOfItem_eq (st : St) (i : ItemRef) : FixSpec.basesOfItem st i = viewBases st.seqs i := by
  unfold FixSpec.basesOfItem viewBases
  rw [findSeq_eq]
  cases findE st.seqs i.name <;> rfl

theorem idxOf_mem {s : St} (hn : (s.seqs.map (·.name)).Nodup) {e : SeqE} (he : e ∈ s.seqs) :
    ∃ h : FixSpec.idxOf s e.name < s.seqs.length, s.seqs[FixSpec.idxOf s e.name] = e := by
  have hex : ∃ x ∈ s.seqs, (x.name == e.name) = true := ⟨e, he, by simp⟩
  have hlt : FixSpec.idxOf s e.name < s.seqs.length := List.findIdx_lt_length_of_exists hex
  refine ⟨hlt, ?_⟩
  have hp := List.findIdx_getElem (w := hlt)
  have hp' : (s.seqs[FixSpec.idxOf s e.name]).name = e.name := by
    simp only [beq_iff_eq] at hp; exact hp
  exact nodup_name_eq hn (List.getElem_mem _) he hp'

/-- a super-sequence named by an item of an entry stands before that entry -/
theorem idx_lt_of_item {s : St} {a : Nat} (hw : WFSeqs a s.seqs) {e : SeqE} (he : e ∈ s.seqs) {i : ItemRef}
    (hi : i ∈ e.items) {ie : SeqE} (hf : findE s.seqs i.name = some ie) (hs : ie.isSup = true) :
    FixSpec.idxOf s i.name < FixSpec.idxOf s e.name := by
  obtain ⟨hiel, hien⟩ := findE_some hf
  rw [← hien]
  obtain ⟨h1, g1⟩ := idxOf_mem hw.nodup hiel
  obtain ⟨h2, g2⟩ := idxOf_mem hw.nodup he
  rcases Nat.lt_trichotomy (FixSpec.idxOf s ie.name) (FixSpec.idxOf s e.name) with hlt | heq | hgt
  · exact hlt
  · exfalso
    have : ie = e := by
      rw [← g1, ← g2]
      simp only [heq]
    subst this
    exact hw.irrefl ie he i hi hien.symm
  · exfalso
    have := List.pairwise_iff_getElem.mp hw.order (FixSpec.idxOf s e.name) (FixSpec.idxOf s ie.name) h2 h1 hgt
    rw [g1, g2] at this
    exact this hs i hi hien.symm

theorem itemOK_of {s : St} {i : ItemRef} {bound : Nat} (h1 : ItemOk s.seqs i) (h2 : KindOk s.seqs i)
    (hb : ∀ ie, findE s.seqs i.name = some ie → ie.isSup = true → FixSpec.idxOf s i.name < bound) :
    FixSpec.itemOK s bound i = true := by
  obtain ⟨ie, hf, hl⟩ := h1
  obtain ⟨ie', hf', hk⟩ := h2
  rw [hf] at hf'
  cases hf'
  unfold FixSpec.itemOK
  rw [findSeq_eq, hf]
  simp only [Bool.and_eq_true, beq_iff_eq, Bool.or_eq_true, Bool.not_eq_true', decide_eq_true_eq]
  refine ⟨⟨hl.symm, hk.symm⟩, ?_⟩
  cases hs : ie.isSup with
  | false => left; rfl
  | true => right; exact hb ie hf hs

theorem flatMap_viewBases_lens {l : List SeqE} (hent : ∀ e ∈ l, EntryWF l e) {its : List ItemRef}
    (hi : ∀ i ∈ its, ItemOk l i) :
    ((its.flatMap (viewBases l)).map (·.len)).sum = (its.map (·.len)).sum := by
  induction its with
  | nil => rfl
  | cons i r ih =>
    obtain ⟨ie, h1, h2⟩ := hi i (by simp)
    simp only [List.flatMap_cons, List.map_append, List.sum_append, List.map_cons, List.sum_cons]
    rw [ih (fun j hj => hi j (by simp [hj]))]
    congr 1
    simp only [viewBases, h1]
    rw [view_lens (hent ie (findE_some h1).1), h2]

theorem flatMap_basesOfItem (st : St) (its : List ItemRef) :
    its.flatMap (FixSpec.basesOfItem st) = its.flatMap (viewBases st.seqs) :=
  flatMap_congr_mem (fun i _ => basesOfItem_eq st i)

/-- `WF` (+ kinds, + alphabet) implies the executable well-formedness check of C12 -/
theorem wfB_of_inv {t : CodeTable} {s : St} {a : Nat} (hw : WF s a) (hx : WFX s) (hc : CodesInv t s) :
    FixSpec.wfB t s = true := by
  simp only [FixSpec.wfB, FixSpec.shapeB, Bool.and_eq_true, decide_eq_true_eq, List.all_eq_true]
  refine ⟨⟨⟨⟨hw.seqs.nodup, ?_⟩, ?_⟩, ?_⟩, ?_⟩
  · intro e he
    have hent := hw.seqs.entries e he
    cases hs : e.isSup with
    | false =>
      obtain ⟨b1, _, _⟩ := hent.base hs
      simp only [FixSpec.seqOK, hs, Bool.and_eq_true, beq_iff_eq, Bool.false_eq_true, if_false, decide_eq_true_eq]
      exact ⟨hent.lenB.symm, b1⟩
    | true =>
      obtain ⟨s1, s2, s3, _⟩ := hent.sup hs
      simp only [FixSpec.seqOK, hs, Bool.and_eq_true, beq_iff_eq, if_true, decide_eq_true_eq, List.all_eq_true]
      refine ⟨hent.lenB.symm, ⟨?_, ?_⟩, s3⟩
      · intro i hi
        exact itemOK_of (s1 i hi) (hx.seqKinds e he i hi) (fun ie hf hsup => idx_lt_of_item hw.seqs he hi hf hsup)
      · rw [flatMap_basesOfItem]; exact s2
  · intro t' ht
    have hst := hw.strands t' ht
    simp only [FixSpec.strandOK, Bool.and_eq_true, beq_iff_eq, decide_eq_true_eq, List.all_eq_true]
    refine ⟨⟨⟨?_, ?_⟩, hst.len⟩, ?_⟩
    · intro i hi
      refine itemOK_of (hst.items i hi) (hx.strandKinds t' ht i hi) (fun ie hf _ => ?_)
      obtain ⟨hiel, hien⟩ := findE_some hf
      rw [← hien]
      exact (idxOf_mem hw.seqs.nodup hiel).1
    · rw [flatMap_basesOfItem]; exact hst.bases
    · rw [hst.bases, flatMap_viewBases_lens hw.seqs.entries hst.items, hst.len]
  · intro x hx'
    simp only [FixSpec.structOK, List.all_eq_true]
    intro n hn
    rw [findStrand_eq]
    exact (hw.structs x hx').found n hn
  · intro e he
    simp only [FixSpec.constOK, Bool.and_eq_true, Bool.or_eq_true, beq_iff_eq]
    refine ⟨hc e he, ?_⟩
    cases hs : e.isSup with
    | true => left; rfl
    | false => right; exact ((hw.seqs.entries e he).base hs).2.1

/-! ### … and the checks of C16 / C06 / C17 -/

theorem constLen_of_WF {s : St} {a : Nat} (hw : WF s a) : Finish.constLenB s = true := by
  simp only [Finish.constLenB, List.all_eq_true, beq_iff_eq]
  intro e he
  simp only [St.baseSeqs, List.mem_filter, Bool.not_eq_true'] at he
  exact ((hw.seqs.entries e he.1).base he.2).2.1

theorem wfComp_of_WF {s : St} {a : Nat} (hw : WF s a) : Finish.wfCompB s = true := by
  simp only [Finish.wfCompB, Bool.and_eq_true, decide_eq_true_eq, List.all_eq_true]
  refine ⟨⟨nodup_names_filter hw.seqs.nodup _, ?_⟩, hw.strandNames⟩
  intro e he
  simp only [St.baseSeqs, List.mem_filter, Bool.not_eq_true'] at he
  exact ((hw.seqs.entries e he.1).base he.2).1

/-! ### the component-level theorems -/

/-- **1.** a loaded component passes the well-formedness check of C12 -/
theorem load_wfB {t : CodeTable} {src : Src} {n : Nat} {pfx : String} {a : Nat} {st : St} {a' : Nat}
    (h : load src n pfx a = .ok (st, a')) (hn : StmtNamesOk src = true) (hc : CodesOk t src = true) :
    FixSpec.wfB t st = true := by
  obtain ⟨ci, _, _⟩ := load_inv_all h hn
  exact wfB_of_inv ci.wf ci.wfx (load_codes h hn hc)

/-- **2.** every atomic sequence's constraint string has the recorded length -/
theorem load_constLen {src : Src} {n : Nat} {pfx : String} {a : Nat} {st : St} {a' : Nat}
    (h : load src n pfx a = .ok (st, a')) (hn : StmtNamesOk src = true) : Finish.constLenB st = true :=
  constLen_of_WF (load_inv_all h hn).1.wf

/-- **3.** a loaded component passes the well-formedness check of `finish` -/
theorem load_finish_wf {src : Src} {n : Nat} {pfx : String} {a : Nat} {st : St} {a' : Nat}
    (h : load src n pfx a = .ok (st, a')) (hn : StmtNamesOk src = true) : Finish.wfB (.comp st) = true := by
  simp only [Finish.wfB, Finish.compsOf, List.all_cons, List.all_nil, Bool.and_true]
  exact wfComp_of_WF (load_inv_all h hn).1.wf

end Pepper.LoadInv
