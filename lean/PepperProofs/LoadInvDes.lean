import PepperProofs.LoadInvSys
import PepperProofs.Des
/-!
# `Des.BlocksOk` for whatever `load` / `loadFile` returns (C03, missing link M1), and M2 for one component

Component level: `compOk_of_inv` (`Des.CompOk` from the table invariant), `comp_blocksOk`.
Tree level: `Loaded.blocksOk` under the name hypotheses `SysNamesOk` on every system source (instance names
and signal names contain no `-`, no signal has the name of an instance of the same system, the signals of a
declaration are pairwise distinct) and `PortsDistinct` on every component source (the sequences of a
declaration are pairwise distinct).  Each hypothesis is needed for the name clauses of `BlocksOk`; the
counterexamples are listed at `SysNamesOk`.
-/
set_option linter.unusedSimpArgs false
set_option linter.unusedVariables false
namespace Pepper.LoadInv
open Pepper Pepper.Comp Pepper.Sys Pepper.Des

/-! ### every `base_seqs` member is an atomic entry of the table, with its length -/

def BaseOk (l : List SeqE) (b : BaseRef) : Prop := ∃ be ∈ l, be.isSup = false ∧ be.name = b.name ∧ be.len = b.len

theorem mem_basesOfView {e : SeqE} {r : Bool} {b : BaseRef} (h : b ∈ basesOfView e r) :
    ∃ b' ∈ e.bases, b'.name = b.name ∧ b'.len = b.len := by
  cases r with
  | false => exact ⟨b, by simpa [basesOfView] using h, rfl, rfl⟩
  | true =>
    simp only [basesOfView, if_true, List.mem_map, List.mem_reverse] at h
    obtain ⟨b', hb', rfl⟩ := h
    exact ⟨b', hb', rfl, rfl⟩

theorem entry_bases_ok {s : St} {a : Nat} (hw : WFSeqs a s.seqs) :
    ∀ n, ∀ e ∈ s.seqs, FixSpec.idxOf s e.name < n → ∀ b ∈ e.bases, BaseOk s.seqs b := by
  intro n
  induction n with
  | zero => intro e _ h; omega
  | succ n ih =>
    intro e he hidx b hb
    have hent := hw.entries e he
    cases hs : e.isSup with
    | false =>
      rw [(hent.base hs).1] at hb
      simp only [List.mem_singleton] at hb
      subst hb
      exact ⟨e, he, hs, rfl, rfl⟩
    | true =>
      obtain ⟨s1, s2, _, _⟩ := hent.sup hs
      rw [s2] at hb
      obtain ⟨i, hi, hbi⟩ := List.mem_flatMap.mp hb
      obtain ⟨ie, hf, _⟩ := s1 i hi
      simp only [viewBases, hf] at hbi
      obtain ⟨b', hb', hn, hl⟩ := mem_basesOfView hbi
      obtain ⟨hiel, hien⟩ := findE_some hf
      have hb'ok : BaseOk s.seqs b' := by
        cases hsi : ie.isSup with
        | false =>
          rw [((hw.entries ie hiel).base hsi).1] at hb'
          simp only [List.mem_singleton] at hb'
          subst hb'
          exact ⟨ie, hiel, hsi, rfl, rfl⟩
        | true =>
          have hlt := idx_lt_of_item hw he hi hf hsi
          rw [← hien] at hlt
          exact ih ie hiel (by omega) b' hb'
      obtain ⟨be, h1, h2, h3, h4⟩ := hb'ok
      exact ⟨be, h1, h2, h3.trans hn, h4.trans hl⟩

theorem seq_bases_ok {s : St} {a : Nat} (hw : WFSeqs a s.seqs) {e : SeqE} (he : e ∈ s.seqs) :
    ∀ b ∈ e.bases, BaseOk s.seqs b :=
  entry_bases_ok hw _ e he (Nat.lt_succ_self _)

theorem view_bases_ok {s : St} {a : Nat} (hw : WFSeqs a s.seqs) {i : ItemRef} (hi : ItemOk s.seqs i) :
    ∀ b ∈ viewBases s.seqs i, BaseOk s.seqs b := by
  intro b hb
  obtain ⟨ie, hf, _⟩ := hi
  simp only [viewBases, hf] at hb
  obtain ⟨b', hb', hn, hl⟩ := mem_basesOfView hb
  obtain ⟨be, h1, h2, h3, h4⟩ := seq_bases_ok hw (findE_some hf).1 b' hb'
  exact ⟨be, h1, h2, h3.trans hn, h4.trans hl⟩

theorem strand_bases_ok {s : St} {a : Nat} (hw : WF s a) {t : StrandE} (ht : t ∈ s.strands) :
    ∀ b ∈ t.bases, BaseOk s.seqs b := by
  intro b hb
  have hst := hw.strands t ht
  rw [hst.bases] at hb
  obtain ⟨i, hi, hbi⟩ := List.mem_flatMap.mp hb
  exact view_bases_ok hw.seqs (hst.items i hi) b hbi

theorem struct_bases_ok {s : St} {a : Nat} (hw : WF s a) (hx : WFX s) {e : StructE} (he : e ∈ s.structs) :
    ∀ b ∈ e.bases, BaseOk s.seqs b := by
  intro b hb
  rw [hx.structBases e he] at hb
  obtain ⟨n, hn, hbn⟩ := List.mem_flatMap.mp hb
  unfold strandBases at hbn
  cases hf : findT s.strands n with
  | none => simp [hf] at hbn
  | some t =>
    simp only [hf] at hbn
    exact strand_bases_ok hw (findT_some hf).1 b hbn

/-- an atomic entry of non-zero length is a `sequence` line of the component's document -/
theorem base_line {s : St} {a : Nat} (hw : WF s a) {be : SeqE} (h1 : be ∈ s.seqs) (h2 : be.isSup = false)
    (h3 : be.len ≠ 0) :
    (s.pfx ++ be.name, be.const) ∈ seqLines (compDoc s) ∧ be.const.length = be.len := by
  refine ⟨?_, ((hw.seqs.entries be h1).base h2).2.1⟩
  rw [seqLines_compDoc]
  refine List.mem_map.mpr ⟨be, ?_, rfl⟩
  simp only [St.baseSeqs, List.mem_filter, Bool.not_eq_true', bne_iff_ne, ne_eq]
  exact ⟨⟨h1, h2⟩, h3⟩

theorem resolves_of_baseOk {s : St} {a : Nat} (hw : WF s a) {b : BaseRef} (hb : BaseOk s.seqs b) (h0 : b.len ≠ 0) :
    Resolves (seqLines (compDoc s)) (s.pfx ++ b.name) b.len := by
  obtain ⟨be, h1, h2, h3, h4⟩ := hb
  obtain ⟨g1, g2⟩ := base_line hw h1 h2 (by rw [h4]; exact h0)
  exact ⟨_, g1, by rw [h3], by rw [g2, h4]⟩

/-- the component clause of `BlocksOk` -/
theorem compOk_of_inv {s : St} {a : Nat} (hw : WF s a) (hx : WFX s) : CompOk s := by
  refine ⟨fun e he => ⟨fun n hn => ?_, ?_⟩, fun e he b hb h0 => ?_⟩
  · rw [findStrand_eq]; exact (hw.structs e he).found n hn
  · rw [hx.structBases e he]
    apply flatMap_congr_mem
    intro n _
    unfold strandBases
    rw [findStrand_eq]
    cases findT s.strands n <;> rfl
  · exact resolves_of_baseOk hw (struct_bases_ok hw hx he b hb) h0

end Pepper.LoadInv
