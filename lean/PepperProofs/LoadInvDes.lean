import PepperProofs.LoadInvSys
import PepperProofs.Des
/-!
# `Des.BlocksOk` for whatever `load` / `loadFile` returns (C03, missing link M1), and M2 for one component

Component level: `compOk_of_inv` (`Des.CompOk` from the table invariant), `comp_blocksOk`.
Tree level: `Loaded.blocksOk` under the name hypotheses `SysNamesOk` on every system source (instance names
and signal names contain no `-`, no signal has the name of an instance of the same system, the signals of a
declaration are pairwise distinct) and `PortsDistinct` on every component source (the sequences of a
declaration are pairwise distinct).  Each hypothesis is needed for the name clauses of `BlocksOk`; the
counterexamples are listed at `SysNamesOk`.
-/
set_option linter.unusedSimpArgs false
set_option linter.unusedVariables false
namespace Pepper.LoadInv
open Pepper Pepper.Comp Pepper.Sys Pepper.Des

/-! ### every `base_seqs` member is an atomic entry of the table, with its length -/

def BaseOk (l : List SeqE) (b : BaseRef) : Prop := ∃ be ∈ l, be.isSup = false ∧ be.name = b.name ∧ be.len = b.len

theorem mem_basesOfView {e : SeqE} {r : Bool} {b : BaseRef} (h : b ∈ basesOfView e r) :
    ∃ b' ∈ e.bases, b'.name = b.name ∧ b'.len = b.len := by
  cases r with
  | false => exact ⟨b, by simpa [basesOfView] using h, rfl, rfl⟩
  | true =>
    simp only [basesOfView, if_true, List.mem_map, List.mem_reverse] at h
    obtain ⟨b', hb', rfl⟩ := h
    exact ⟨b', hb', rfl, rfl⟩

theorem entry_bases_ok {s : St} {a : Nat} (hw : WFSeqs a s.seqs) :
    ∀ n, ∀ e ∈ s.seqs, FixSpec.idxOf s e.name < n → ∀ b ∈ e.bases, BaseOk s.seqs b := by
  intro n
  induction n with
  | zero => intro e _ h; omega
  | succ n ih =>
    intro e he hidx b hb
    have hent := hw.entries e he
    cases hs : e.isSup with
    | false =>
      rw [(hent.base hs).1] at hb
      simp only [List.mem_singleton] at hb
      subst hb
      exact ⟨e, he, hs, rfl, rfl⟩
    | true =>
      obtain ⟨s1, s2, _, _⟩ := hent.sup hs
      rw [s2] at hb
      obtain ⟨i, hi, hbi⟩ := List.mem_flatMap.mp hb
      obtain ⟨ie, hf, _⟩ := s1 i hi
      simp only [viewBases, hf] at hbi
      obtain ⟨b', hb', hn, hl⟩ := mem_basesOfView hbi
      obtain ⟨hiel, hien⟩ := findE_some hf
      have hb'ok : BaseOk s.seqs b' := by
        cases hsi : ie.isSup with
        | false =>
          rw [((hw.entries ie hiel).base hsi).1] at hb'
          simp only [List.mem_singleton] at hb'
          subst hb'
          exact ⟨ie, hiel, hsi, rfl, rfl⟩
        | true =>
          have hlt := idx_lt_of_item hw he hi hf hsi
          rw [← hien] at hlt
          exact ih ie hiel (by omega) b' hb'
      obtain ⟨be, h1, h2, h3, h4⟩ := hb'ok
      exact ⟨be, h1, h2, h3.trans hn, h4.trans hl⟩

theorem seq_bases_ok {s : St} {a : Nat} (hw : WFSeqs a s.seqs) {e : SeqE} (he : e ∈ s.seqs) :
    ∀ b ∈ e.bases, BaseOk s.seqs b :=
  entry_bases_ok hw _ e he (Nat.lt_succ_self _)

theorem view_bases_ok {s : St} {a : Nat} (hw : WFSeqs a s.seqs) {i : ItemRef} (hi : ItemOk s.seqs i) :
    ∀ b ∈ viewBases s.seqs i, BaseOk s.seqs b := by
  intro b hb
  obtain ⟨ie, hf, _⟩ := hi
  simp only [viewBases, hf] at hb
  obtain ⟨b', hb', hn, hl⟩ := mem_basesOfView hb
  obtain ⟨be, h1, h2, h3, h4⟩ := seq_bases_ok hw (findE_some hf).1 b' hb'
  exact ⟨be, h1, h2, h3.trans hn, h4.trans hl⟩

theorem strand_bases_ok {s : St} {a : Nat} (hw : WF s a) {t : StrandE} (ht : t ∈ s.strands) :
    ∀ b ∈ t.bases, BaseOk s.seqs b := by
  intro b hb
  have hst := hw.strands t ht
  rw [hst.bases] at hb
  obtain ⟨i, hi, hbi⟩ := List.mem_flatMap.mp hb
  exact view_bases_ok hw.seqs (hst.items i hi) b hbi

theorem struct_bases_ok {s : St} {a : Nat} (hw : WF s a) (hx : WFX s) {e : StructE} (he : e ∈ s.structs) :
    ∀ b ∈ e.bases, BaseOk s.seqs b := by
  intro b hb
  rw [hx.structBases e he] at hb
  obtain ⟨n, hn, hbn⟩ := List.mem_flatMap.mp hb
  unfold strandBases at hbn
  cases hf : findT s.strands n with
  | none => simp [hf] at hbn
  | some t =>
    simp only [hf] at hbn
    exact strand_bases_ok hw (findT_some hf).1 b hbn

/-- an atomic entry of non-zero length is a `sequence` line of the component's document -/
theorem base_line {s : St} {a : Nat} (hw : WF s a) {be : SeqE} (h1 : be ∈ s.seqs) (h2 : be.isSup = false)
    (h3 : be.len ≠ 0) :
    (s.pfx ++ be.name, be.const) ∈ seqLines (compDoc s) ∧ be.const.length = be.len := by
  refine ⟨?_, ((hw.seqs.entries be h1).base h2).2.1⟩
  rw [seqLines_compDoc]
  refine List.mem_map.mpr ⟨be, ?_, rfl⟩
  simp only [St.baseSeqs, List.mem_filter, Bool.not_eq_true', bne_iff_ne, ne_eq]
  exact ⟨⟨h1, h2⟩, h3⟩

theorem resolves_of_baseOk {s : St} {a : Nat} (hw : WF s a) {b : BaseRef} (hb : BaseOk s.seqs b) (h0 : b.len ≠ 0) :
    Resolves (seqLines (compDoc s)) (s.pfx ++ b.name) b.len := by
  obtain ⟨be, h1, h2, h3, h4⟩ := hb
  obtain ⟨g1, g2⟩ := base_line hw h1 h2 (by rw [h4]; exact h0)
  exact ⟨_, g1, by rw [h3], by rw [g2, h4]⟩

/-- the component clause of `BlocksOk` -/
theorem compOk_of_inv {s : St} {a : Nat} (hw : WF s a) (hx : WFX s) : CompOk s := by
  refine ⟨fun e he => ⟨fun n hn => ?_, ?_⟩, fun e he b hb h0 => ?_⟩
  · rw [findStrand_eq]; exact (hw.structs e he).found n hn
  · rw [hx.structBases e he]
    apply flatMap_congr_mem
    intro n _
    unfold strandBases
    rw [findStrand_eq]
    cases findT s.strands n <;> rfl
  · exact resolves_of_baseOk hw (struct_bases_ok hw hx he b hb) h0

/-! ### names: prefixes and dashes -/

def NoDash (n : String) : Prop := '-' ∉ n.toList

instance (n : String) : Decidable (NoDash n) := by unfold NoDash; infer_instance

/-- `x` starts with `p` -/
def HasPfx (p x : String) : Prop := ∃ r : String, x = p ++ r

theorem HasPfx.trans_append {p q x : String} (h : HasPfx (p ++ q) x) : HasPfx p x := by
  obtain ⟨r, rfl⟩ := h
  exact ⟨q ++ r, by rw [String.append_assoc]⟩

theorem dash_split_list {c1 c2 r1 r2 : List Char} (h1 : '-' ∉ c1) (h2 : '-' ∉ c2)
    (h : c1 ++ '-' :: r1 = c2 ++ '-' :: r2) : c1 = c2 := by
  induction c1 generalizing c2 with
  | nil =>
    cases c2 with
    | nil => rfl
    | cons y t =>
      simp only [List.nil_append, List.cons_append, List.cons.injEq] at h
      exact absurd (h.1 ▸ List.mem_cons_self) h2
  | cons x s ih =>
    cases c2 with
    | nil =>
      simp only [List.nil_append, List.cons_append, List.cons.injEq] at h
      exact absurd (h.1 ▸ List.mem_cons_self) h1
    | cons y t =>
      simp only [List.cons_append, List.cons.injEq] at h
      rw [h.1, ih (fun hm => h1 (List.mem_cons_of_mem _ hm)) (fun hm => h2 (List.mem_cons_of_mem _ hm)) h.2]

theorem dash_toList : "-".toList = ['-'] := rfl

/-- `a-r = b-r'` with `a`, `b` dash-free: `a = b` and `r = r'` -/
theorem dash_split {a b r r' : String} (ha : NoDash a) (hb : NoDash b) (h : a ++ "-" ++ r = b ++ "-" ++ r') :
    a = b ∧ r = r' := by
  have h' := congrArg String.toList h
  simp only [String.toList_append, dash_toList, List.append_assoc, List.singleton_append] at h'
  have hab : a = b := String.toList_inj.1 (dash_split_list ha hb h')
  subst hab
  refine ⟨rfl, ?_⟩
  rw [String.append_assoc, String.append_assoc] at h
  exact (String.append_right_inj _).1 ((String.append_right_inj _).1 h)

theorem dash_ne {a b r : String} (hb : NoDash b) : a ++ "-" ++ r ≠ b := by
  intro h
  apply hb
  rw [← h]
  simp [String.toList_append, dash_toList]

/-- names under sibling prefixes `p ++ c1 ++ "-"`, `p ++ c2 ++ "-"` (dash-free instance names) coincide only
    when `c1 = c2` -/
theorem sibling_pfx {p c1 c2 x : String} (h1 : NoDash c1) (h2 : NoDash c2) (hx1 : HasPfx (p ++ c1 ++ "-") x)
    (hx2 : HasPfx (p ++ c2 ++ "-") x) : c1 = c2 := by
  obtain ⟨r1, rfl⟩ := hx1
  obtain ⟨r2, h⟩ := hx2
  rw [String.append_assoc, String.append_assoc, String.append_assoc, String.append_assoc,
    String.append_right_inj, ← String.append_assoc, ← String.append_assoc] at h
  exact (dash_split h1 h2 h).1

/-- a name `p ++ (b ++ t)` with `b` dash-free and `t` empty or starting with a dash carries the prefix
    `p ++ c ++ "-"` only if `c = b` -/
theorem pfx_dash_eq {p c b t x : String} (hc : NoDash c) (hb : NoDash b) (hx : HasPfx (p ++ c ++ "-") (p ++ b ++ "-" ++ t)) :
    c = b := by
  obtain ⟨r, h⟩ := hx
  rw [String.append_assoc, String.append_assoc, String.append_assoc, String.append_assoc,
    String.append_right_inj, ← String.append_assoc, ← String.append_assoc] at h
  exact (dash_split hb hc h).1.symm

theorem pfx_dash_ne {p c b : String} (hb : NoDash b) : ¬ HasPfx (p ++ c ++ "-") (p ++ b) := by
  rintro ⟨r, h⟩
  rw [String.append_assoc, String.append_assoc, String.append_right_inj, ← String.append_assoc] at h
  exact dash_ne hb h.symm

/-! ### the blocks of a tree -/

theorem blocksComps_eq (comps : List (String × Inst)) :
    blocksComps comps = comps.flatMap (fun c => blocksInst c.2) := by
  induction comps with
  | nil => rfl
  | cons c r ih =>
    obtain ⟨n, i⟩ := c
    simp only [blocksComps, List.flatMap_cons, ih]

def sigBlock (pfx : String) (lens : List (String × Nat)) (x : String × List SigEntry) : Block :=
  Block.signal pfx x.1 ((lens.lookup x.1).getD 0) x.2

theorem blocksInst_sys (p n pfx : String) (t : List (String × String)) (sg : List (String × List SigEntry))
    (l : List (String × Nat)) (c : List (String × Inst)) (i o : List SigRef) :
    blocksInst (.sys (.mk p n pfx t sg l c i o)) =
      c.flatMap (fun x => blocksInst x.2) ++ sg.map (sigBlock pfx l) := by
  simp only [blocksInst, blocksSys, blocksComps_eq]
  rfl

theorem blocksInst_comp (st : Comp.St) : blocksInst (.comp st) = [Block.comp st] := by
  simp only [blocksInst]

/-! ### hypotheses on the sources -/

/-- name hypotheses on a system source, needed for the name clauses of `BlocksOk`:
* instance names contain no `-` — otherwise instance `a` with sequence `b-c` and instance `a-b` with sequence
  `c` both emit `a-b-c`;
* signal names contain no `-` — otherwise signal `b-x` of system `a` and sequence `x` of its instance `b`
  both emit `a-b-x`;
* no signal has the name of an instance of the same system — otherwise, with a signal `S` bound to port `x` of
  instance `C` and a sub-system instance `S` that has an instance `C` with a structure `x`, the connector
  structure `S-C-x` and the structure `x` of `S-C-` coincide (also: signal `S`'s auxiliary `S-_WC` and a
  sequence `_WC` of a component instance `S`);
* the signals of the declaration are pairwise distinct — otherwise a signal of the enclosing system bound to
  two ports of that name in different orientations emits the connector structure `S-C-x` twice (since repair F17
  a repeated binding in the same orientation is written once; the hypothesis is stronger than needed there). -/
def SysNamesOk (s : SSrc) : Bool :=
  (instNames s.stmts).all (fun n => decide (NoDash n)) &&
  (sigNames s.stmts).all (fun n => decide (NoDash n) && !(instNames s.stmts).contains n) &&
  decide (((s.inputs ++ s.outputs).map (·.name)).Nodup)

/-- the sequences of a component's declaration are pairwise distinct (otherwise a signal bound to two ports of
    the same sequence, once plainly and once starred, emits the connector structure `S-C-x` twice; since repair F17
    a repeated binding in the same orientation is written once — `examples/David_CRN/Oscillator.sys` — so the
    hypothesis is stronger than needed for that case; `BlocksOk` itself holds there, see `tables_ok`) -/
def PortsDistinct (c : Comp.Src) : Bool := decide (((c.inputs ++ c.outputs).map (·.seq)).Nodup)

abbrev PD (c : Comp.Src) : Prop := StmtNamesOk c = true ∧ PortsDistinct c = true
abbrev QD (s : SSrc) : Prop := SysNamesOk s = true

theorem SysNamesOk.inst {s : SSrc} (h : SysNamesOk s = true) : ∀ n ∈ instNames s.stmts, NoDash n := by
  simp only [SysNamesOk, Bool.and_eq_true, List.all_eq_true, decide_eq_true_eq] at h
  exact h.1.1

theorem SysNamesOk.sig {s : SSrc} (h : SysNamesOk s = true) :
    ∀ n ∈ sigNames s.stmts, NoDash n ∧ n ∉ instNames s.stmts := by
  simp only [SysNamesOk, Bool.and_eq_true, List.all_eq_true, decide_eq_true_eq, Bool.not_eq_true',
    List.contains_eq_mem, decide_eq_false_iff_not] at h
  exact h.1.2

theorem SysNamesOk.io {s : SSrc} (h : SysNamesOk s = true) : ((s.inputs ++ s.outputs).map (·.name)).Nodup := by
  simp only [SysNamesOk, Bool.and_eq_true, decide_eq_true_eq] at h
  exact h.2

/-! ### name lists of a tree: distinct, and under the tree's prefix -/

theorem names_ok (N : Block → List String)
    (hcomp : ∀ {c : Comp.Src} {n : Nat} {pfx : String} {a : Nat} {st : Comp.St} {a' : Nat}, PD c →
      Comp.load c n pfx a = .ok (st, a') → (N (.comp st)).Nodup ∧ ∀ x ∈ N (.comp st), HasPfx pfx x)
    (hsig : ∀ {s : SSrc} {pfx : String} {sg : List (String × List SigEntry)} {lens : List (String × Nat)}
      {comps : List (String × Inst)}, QD s → SysInv (instNames s.stmts) (sigNames s.stmts) sg lens comps →
      (∀ c ∈ comps, Loaded PD QD (pfx ++ c.1 ++ "-") c.2) →
      (sg.flatMap (fun x => N (sigBlock pfx lens x))).Nodup ∧
      (∀ x ∈ sg.flatMap (fun x => N (sigBlock pfx lens x)), HasPfx pfx x) ∧
      ∀ x ∈ sg.flatMap (fun x => N (sigBlock pfx lens x)), ∀ c ∈ comps, ¬ HasPfx (pfx ++ c.1 ++ "-") x)
    {pfx : String} {inst : Inst} (hL : Loaded PD QD pfx inst) :
    ((blocksInst inst).flatMap N).Nodup ∧ ∀ x ∈ (blocksInst inst).flatMap N, HasPfx pfx x := by
  induction hL with
  | comp hP hload =>
    simp only [blocksInst_comp, List.flatMap_cons, List.flatMap_nil, List.append_nil]
    exact hcomp hP hload
  | sys hQ hsub hinv hio ih =>
    rename_i s path name pfx tm sg lens comps
    obtain ⟨g1, g2, g3⟩ := hsig hQ hinv hsub
    have hdash : ∀ c ∈ comps, NoDash c.1 := fun c hc => SysNamesOk.inst hQ _ (hinv.compNames c hc)
    rw [blocksInst_sys, List.flatMap_append, List.flatMap_assoc, List.flatMap_map]
    have hpart : ∀ x ∈ comps.flatMap (fun c => (blocksInst c.2).flatMap N), ∃ c ∈ comps, HasPfx (pfx ++ c.1 ++ "-") x := by
      intro x hx
      obtain ⟨c, hc, hxc⟩ := List.mem_flatMap.mp hx
      exact ⟨c, hc, (ih c hc).2 x hxc⟩
    refine ⟨?_, ?_⟩
    · rw [List.nodup_append]
      refine ⟨?_, g1, ?_⟩
      · unfold List.Nodup
        rw [List.pairwise_flatMap]
        refine ⟨fun c hc => (ih c hc).1, ?_⟩
        have hp : comps.Pairwise (fun a b => a.1 ≠ b.1) := List.pairwise_map.mp hinv.compNodup
        refine List.Pairwise.imp_of_mem ?_ hp
        intro a b ha hb hne x hx y hy hxy
        subst hxy
        exact hne (sibling_pfx (hdash a ha) (hdash b hb) ((ih a ha).2 x hx) ((ih b hb).2 x hy))
      · intro x hx y hy hxy
        subst hxy
        obtain ⟨c, hc, hpx⟩ := hpart x hx
        exact g3 x hy c hc hpx
    · intro x hx
      rcases List.mem_append.mp hx with hx | hx
      · obtain ⟨c, hc, hpx⟩ := hpart x hx
        exact hpx.trans_append.trans_append
      · exact g2 x hx

/-! ### the three name lists -/

theorem nodup_map_inj_on {α β} {f : α → β} {l : List α} (hf : ∀ a ∈ l, ∀ b ∈ l, f a = f b → a = b) (h : l.Nodup) :
    (l.map f).Nodup := by
  induction l with
  | nil => simp
  | cons a r ih =>
    rw [List.nodup_cons] at h
    rw [List.map_cons, List.nodup_cons]
    refine ⟨?_, ih (fun x hx y hy => hf x (List.mem_cons_of_mem _ hx) y (List.mem_cons_of_mem _ hy)) h.2⟩
    intro hm
    obtain ⟨b, hb, e⟩ := List.mem_map.1 hm
    have := hf b (List.mem_cons_of_mem _ hb) a List.mem_cons_self e
    subst this
    exact h.1 hb

theorem nodup_pfx_map {l : List String} (h : l.Nodup) (p : String) : (l.map (p ++ ·)).Nodup :=
  nodup_map_inj_on (fun a _ b _ e => (String.append_right_inj p).1 e) h

theorem wcName_eq (pfx sg : String) : wcName pfx sg = pfx ++ (sg ++ "-" ++ "_WC") := by
  simp only [wcName, String.append_assoc]; rfl

theorem self_eq (pfx sg : String) : pfx ++ sg ++ "-_Self" = pfx ++ (sg ++ "-" ++ "_Self") := by
  simp only [String.append_assoc]; rfl

theorem portItems_fst (pfx : String) (e : SigEntry) : (portItems pfx e).1 = e.comp ++ "-" ++ portName e.port := by
  unfold portItems portName
  cases e.port with
  | seq i b => simp only; split <;> rfl
  | sig n => rfl

/-- sequence names -/
def seqN (b : Block) : List String := (seqLines (blockDoc b)).map (·.1)
/-- structure names (= names of the assignment lines) -/
def asgN (b : Block) : List String := (assignLines (blockDoc b)).map (·.1)
/-- strand names -/
def strN (b : Block) : List String := (blockDesign b).strands.map (·.1)

theorem seqN_comp (st : Comp.St) :
    seqN (.comp st) = ((st.baseSeqs.filter (·.len != 0)).map (·.name)).map (st.pfx ++ ·) := by
  simp only [seqN, blockDoc, seqLines_compDoc, List.map_map]; rfl

theorem seqN_sig (pfx : String) (lens : List (String × Nat)) (x : String × List SigEntry) :
    seqN (sigBlock pfx lens x) = [pfx ++ x.1, pfx ++ (x.1 ++ "-" ++ "_WC")] := by
  simp only [seqN, sigBlock, blockDoc, seqLines_signalDoc, List.map_cons, List.map_nil, wcName_eq]

theorem asgN_comp (st : Comp.St) : asgN (.comp st) = (st.structs.map (·.name)).map (st.pfx ++ ·) := by
  simp only [asgN, blockDoc, assignLines_compDoc, List.map_map]; rfl

/-- the part of a connector structure's name after the signal -/
def entryTail (e : SigEntry) : String := e.comp ++ "-" ++ portName e.port

theorem asgN_sig (pfx : String) (lens : List (String × Nat)) (x : String × List SigEntry) :
    asgN (sigBlock pfx lens x) =
      ("_Self" :: (dedupEntries x.2).map (fun e => entryTail e ++ rcSuffix x.2 e)).map
        (fun t => pfx ++ (x.1 ++ "-" ++ t)) := by
  simp only [asgN, sigBlock, blockDoc, assignLines_signalDoc, List.map_cons, List.map_map, self_eq]
  congr 1
  apply List.map_congr_left
  intro e _
  simp only [Function.comp, portItems_fst, entryTail, String.append_assoc]

theorem strN_comp (st : Comp.St) : strN (.comp st) = (st.strands.map (·.name)).map (st.pfx ++ ·) := by
  simp only [strN, blockDesign, compDesign, List.map_map]; rfl

theorem strN_sig (pfx : String) (lens : List (String × Nat)) (x : String × List SigEntry) :
    strN (sigBlock pfx lens x) = [] := rfl

theorem hasPfx_map (p : String) (l : List String) : ∀ x ∈ l.map (p ++ ·), HasPfx p x := by
  intro x hx
  obtain ⟨r, _, rfl⟩ := List.mem_map.mp hx
  exact ⟨r, rfl⟩

theorem seq_names_ok {pfx : String} {inst : Inst} (hL : Loaded PD QD pfx inst) :
    ((blocksInst inst).flatMap seqN).Nodup ∧ ∀ x ∈ (blocksInst inst).flatMap seqN, HasPfx pfx x := by
  refine names_ok seqN ?_ ?_ hL
  · intro c n pfx a st a' hP hload
    obtain ⟨ci, hp, _⟩ := load_inv_all hload hP.1
    rw [seqN_comp, hp]
    exact ⟨nodup_pfx_map (nodup_names_filter (nodup_names_filter ci.wf.seqs.nodup _) _) _, hasPfx_map _ _⟩
  · intro s pfx sg lens comps hQ hinv hsub
    have hsd : ∀ x ∈ sg, NoDash x.1 ∧ x.1 ∉ instNames s.stmts := fun x hx => SysNamesOk.sig hQ _ (hinv.sigIn x hx)
    simp only [seqN_sig]
    refine ⟨?_, ?_, ?_⟩
    · unfold List.Nodup
      rw [List.pairwise_flatMap]
      refine ⟨?_, ?_⟩
      · intro x hx
        simp only [List.pairwise_cons, List.mem_singleton, forall_eq, List.not_mem_nil, false_imp_iff, implies_true,
          List.Pairwise.nil, and_true, ne_eq]
        rw [String.append_right_inj]
        exact fun h => dash_ne (hsd x hx).1 h.symm
      · have hp : sg.Pairwise (fun a b => a.1 ≠ b.1) := List.pairwise_map.mp hinv.sigNodup
        refine List.Pairwise.imp_of_mem ?_ hp
        intro a b ha hb hne x hx y hy hxy
        subst hxy
        simp only [List.mem_cons, List.not_mem_nil, or_false] at hx hy
        rcases hx with rfl | rfl <;> rcases hy with hy | hy
        · exact hne ((String.append_right_inj _).1 hy)
        · exact dash_ne (hsd a ha).1 ((String.append_right_inj _).1 hy).symm
        · exact dash_ne (hsd b hb).1 ((String.append_right_inj _).1 hy)
        · exact hne (dash_split (hsd a ha).1 (hsd b hb).1 ((String.append_right_inj _).1 hy)).1
    · intro x hx
      obtain ⟨y, _, hxy⟩ := List.mem_flatMap.mp hx
      simp only [List.mem_cons, List.not_mem_nil, or_false] at hxy
      rcases hxy with rfl | rfl <;> exact ⟨_, rfl⟩
    · intro x hx c hc hpx
      obtain ⟨y, hy, hxy⟩ := List.mem_flatMap.mp hx
      have hcd : NoDash c.1 := SysNamesOk.inst hQ _ (hinv.compNames c hc)
      simp only [List.mem_cons, List.not_mem_nil, or_false] at hxy
      rcases hxy with rfl | rfl
      · exact pfx_dash_ne (hsd y hy).1 hpx
      · rw [← String.append_assoc, ← String.append_assoc] at hpx
        have := pfx_dash_eq (x := "") hcd (hsd y hy).1 hpx
        exact (hsd y hy).2 (this ▸ hinv.compNames c hc)

theorem str_names_ok {pfx : String} {inst : Inst} (hL : Loaded PD QD pfx inst) :
    ((blocksInst inst).flatMap strN).Nodup ∧ ∀ x ∈ (blocksInst inst).flatMap strN, HasPfx pfx x := by
  refine names_ok strN ?_ ?_ hL
  · intro c n pfx a st a' hP hload
    obtain ⟨ci, hp, _⟩ := load_inv_all hload hP.1
    rw [strN_comp, hp]
    exact ⟨nodup_pfx_map ci.wf.strandNames _, hasPfx_map _ _⟩
  · intro s pfx sg lens comps hQ hinv hsub
    have : sg.flatMap (fun x => strN (sigBlock pfx lens x)) = [] := Des.flatMap_nil' _ _ (fun _ _ => rfl)
    rw [this]
    simp

theorem instPortNames_nodup {pfx : String} {inst : Inst} (hL : Loaded PD QD pfx inst) : (instPortNames inst).Nodup := by
  cases hL with
  | comp hP hload =>
    simp only [instPortNames]
    rw [load_port_names hload]
    have := hP.2
    simp only [PortsDistinct, decide_eq_true_eq] at this
    exact this
  | sys hQ hsub hinv hio =>
    simp only [instPortNames, SysSt.inputSeqs, SysSt.outputSeqs]
    exact SysNamesOk.io hQ

theorem keys_nodup {pfx : String} {comps : List (String × Inst)} (hn : (comps.map (·.1)).Nodup)
    (hsub : ∀ c ∈ comps, Loaded PD QD (pfx ++ c.1 ++ "-") c.2) : (comps.flatMap instKeys).Nodup := by
  unfold List.Nodup
  rw [List.pairwise_flatMap]
  refine ⟨?_, ?_⟩
  · intro c hc
    exact nodup_map_inj_on (fun a _ b _ e => by simpa using e) (instPortNames_nodup (hsub c hc))
  · have hp : comps.Pairwise (fun a b => a.1 ≠ b.1) := List.pairwise_map.mp hn
    refine hp.imp ?_
    intro a b hne x hx y hy hxy
    subst hxy
    simp only [instKeys, List.mem_map] at hx hy
    obtain ⟨_, _, rfl⟩ := hx
    obtain ⟨_, _, h2⟩ := hy
    simp only [Prod.mk.injEq] at h2
    exact hne h2.1.symm

theorem entryTail_eq (e : SigEntry) : entryTail e = (entryKey e).1 ++ "-" ++ (entryKey e).2 := rfl

theorem connName_eq_entryTail (e : SigEntry) : e.connName = entryTail e := by
  unfold SigEntry.connName entryTail portName
  cases e.port <;> rfl

/-- on a loaded tree (sources with `SysNamesOk` / `PortsDistinct`) the connector names of one signal's entries are
    pairwise distinct: every (instance, port) pair is bound at most once -/
theorem entryTails_nodup {s : SSrc} {pfx : String} {sg : List (String × List SigEntry)} {lens : List (String × Nat)}
    {comps : List (String × Inst)} (hQ : QD s) (hinv : SysInv (instNames s.stmts) (sigNames s.stmts) sg lens comps)
    (hsub : ∀ c ∈ comps, Loaded PD QD (pfx ++ c.1 ++ "-") c.2) : ∀ x ∈ sg, (x.2.map entryTail).Nodup := by
  intro x hx
  have hcompd : ∀ e ∈ x.2, NoDash e.comp := by
    intro e he
    obtain ⟨inst, len, hm, _, _⟩ := hinv.entries x hx e he
    exact SysNamesOk.inst hQ _ (hinv.compNames _ hm)
  have hK := keys_nodup hinv.compNodup hsub
  have hkn : (x.2.map entryKey).Nodup := List.Nodup.sublist (hinv.entryKeys x hx) hK
  have : x.2.map entryTail = (x.2.map entryKey).map (fun k => k.1 ++ "-" ++ k.2) := by
    rw [List.map_map]; rfl
  rw [this]
  refine nodup_map_inj_on ?_ hkn
  intro k1 hk1 k2 hk2 heq
  obtain ⟨e1, he1, rfl⟩ := List.mem_map.mp hk1
  obtain ⟨e2, he2, rfl⟩ := List.mem_map.mp hk2
  obtain ⟨h1, h2⟩ := dash_split (hcompd e1 he1) (hcompd e2 he2) heq
  exact Prod.ext h1 h2

/-- hence `System.output_nupack` drops nothing there (route 1: `dedupEntries es = es`) -/
theorem dedup_loaded {s : SSrc} {pfx : String} {sg : List (String × List SigEntry)} {lens : List (String × Nat)}
    {comps : List (String × Inst)} (hQ : QD s) (hinv : SysInv (instNames s.stmts) (sigNames s.stmts) sg lens comps)
    (hsub : ∀ c ∈ comps, Loaded PD QD (pfx ++ c.1 ++ "-") c.2) : ∀ x ∈ sg, dedupEntries x.2 = x.2 := by
  intro x hx
  apply Des.dedupEntries_eq_self
  have h := entryTails_nodup hQ hinv hsub x hx
  have e : x.2.map entryTail = (x.2.map Des.dupKey).map (·.1) := by
    rw [List.map_map]
    apply List.map_congr_left
    intro e _
    simp only [Function.comp, Des.dupKey, connName_eq_entryTail]
  rw [e] at h
  exact List.Pairwise.of_map (·.1) (fun a b hne hab => hne (by rw [hab])) h

/-- … and no connector is renamed (repair F17b): a port is bound to a signal in one orientation only, so
    `Sys.rcSuffix` is empty for every entry -/
theorem rcSuffix_loaded {s : SSrc} {pfx : String} {sg : List (String × List SigEntry)} {lens : List (String × Nat)}
    {comps : List (String × Inst)} (hQ : QD s) (hinv : SysInv (instNames s.stmts) (sigNames s.stmts) sg lens comps)
    (hsub : ∀ c ∈ comps, Loaded PD QD (pfx ++ c.1 ++ "-") c.2) : ∀ x ∈ sg, ∀ e ∈ x.2, rcSuffix x.2 e = "" := by
  intro x hx e he
  refine Des.rcSuffix_of_consistent ?_ he
  intro e1 he1 e2 he2 hc
  have : e1 = e2 := Des.nodup_map_inj (entryTails_nodup hQ hinv hsub x hx) he1 he2
    (by rw [← connName_eq_entryTail, ← connName_eq_entryTail]; exact hc)
  rw [this]

theorem asg_names_ok {pfx : String} {inst : Inst} (hL : Loaded PD QD pfx inst) :
    ((blocksInst inst).flatMap asgN).Nodup ∧ ∀ x ∈ (blocksInst inst).flatMap asgN, HasPfx pfx x := by
  refine names_ok asgN ?_ ?_ hL
  · intro c n pfx a st a' hP hload
    obtain ⟨ci, hp, _⟩ := load_inv_all hload hP.1
    rw [asgN_comp, hp]
    exact ⟨nodup_pfx_map ci.wf.structNames _, hasPfx_map _ _⟩
  · intro s pfx sg lens comps hQ hinv hsub
    have hsd : ∀ x ∈ sg, NoDash x.1 ∧ x.1 ∉ instNames s.stmts := fun x hx => SysNamesOk.sig hQ _ (hinv.sigIn x hx)
    have htails : ∀ x ∈ sg, ("_Self" :: (dedupEntries x.2).map (fun e => entryTail e ++ rcSuffix x.2 e)).Nodup := by
      intro x hx
      have hmap : x.2.map (fun e => entryTail e ++ rcSuffix x.2 e) = x.2.map entryTail :=
        List.map_congr_left (fun e he => by rw [rcSuffix_loaded hQ hinv hsub x hx e he, String.append_empty])
      rw [dedup_loaded hQ hinv hsub x hx, hmap, List.nodup_cons]
      refine ⟨?_, entryTails_nodup hQ hinv hsub x hx⟩
      intro hm
      obtain ⟨e, _, he⟩ := List.mem_map.mp hm
      exact dash_ne (by decide : NoDash "_Self") he
    simp only [asgN_sig]
    refine ⟨?_, ?_, ?_⟩
    · unfold List.Nodup
      rw [List.pairwise_flatMap]
      refine ⟨?_, ?_⟩
      · intro x hx
        refine nodup_map_inj_on ?_ (htails x hx)
        intro t1 _ t2 _ heq
        rw [String.append_right_inj, String.append_right_inj] at heq
        exact heq
      · have hp : sg.Pairwise (fun a b => a.1 ≠ b.1) := List.pairwise_map.mp hinv.sigNodup
        refine List.Pairwise.imp_of_mem ?_ hp
        intro a b ha hb hne x hx y hy hxy
        subst hxy
        obtain ⟨t1, _, rfl⟩ := List.mem_map.mp hx
        obtain ⟨t2, _, h2⟩ := List.mem_map.mp hy
        rw [String.append_right_inj] at h2
        exact hne (dash_split (hsd b hb).1 (hsd a ha).1 h2).1.symm
    · intro x hx
      obtain ⟨y, _, hxy⟩ := List.mem_flatMap.mp hx
      obtain ⟨t, _, rfl⟩ := List.mem_map.mp hxy
      exact ⟨_, rfl⟩
    · intro x hx c hc hpx
      obtain ⟨y, hy, hxy⟩ := List.mem_flatMap.mp hx
      obtain ⟨t, _, rfl⟩ := List.mem_map.mp hxy
      have hcd : NoDash c.1 := SysNamesOk.inst hQ _ (hinv.compNames c hc)
      rw [← String.append_assoc, ← String.append_assoc] at hpx
      have := pfx_dash_eq (x := "") hcd (hsd y hy).1 hpx
      exact (hsd y hy).2 (this ▸ hinv.compNames c hc)

/-! ### the block clauses -/

theorem resolves_mono {d1 d2 : List (String × List Char)} (h : ∀ q ∈ d1, q ∈ d2) {x : String} {l : Nat}
    (hr : Resolves d1 x l) : Resolves d2 x l := by
  obtain ⟨q, hq, h1, h2⟩ := hr
  exact ⟨q, h q hq, h1, h2⟩

theorem blockOk_mono {d1 d2 : List (String × List Char)} (h : ∀ q ∈ d1, q ∈ d2) {b : Block} (hb : BlockOk d1 b) :
    BlockOk d2 b := by
  cases b with
  | comp st => exact hb
  | signal pfx sg len es =>
    refine ⟨?_, hb.2⟩
    intro e he
    have := hb.1 e he
    unfold EntryOk at this ⊢
    cases hp : e.port with
    | seq i bases =>
      simp only [hp] at this ⊢
      split
      · rename_i hs
        simp only [hs, if_true] at this
        exact ⟨this.1, fun b hb h0 => resolves_mono h (this.2 b hb h0)⟩
      · rename_i hs
        simp only [hs, if_false] at this
        exact ⟨this.1, resolves_mono h this.2⟩
    | sig n =>
      simp only [hp] at this ⊢
      exact resolves_mono h this

theorem domains_mono {bs bs' : List Block} (h : ∀ b ∈ bs, b ∈ bs') :
    ∀ q ∈ (designOfBlocks bs).domains, q ∈ (designOfBlocks bs').domains := by
  intro q hq
  obtain ⟨b, hb, hqb⟩ := List.mem_flatMap.mp hq
  exact List.mem_flatMap.mpr ⟨b, h b hb, hqb⟩

theorem compDesign_domains (st : Comp.St) : (compDesign st).domains = seqLines (compDoc st) := by
  rw [seqLines_compDoc]; rfl

theorem blocks_ok {pfx : String} {inst : Inst} (hL : Loaded PD QD pfx inst) :
    ∀ b ∈ blocksInst inst, BlockOk (designOfBlocks (blocksInst inst)).domains b := by
  induction hL with
  | comp hP hload =>
    intro b hb
    simp only [blocksInst_comp, List.mem_singleton] at hb
    subst hb
    obtain ⟨ci, _, _⟩ := load_inv_all hload hP.1
    exact compOk_of_inv ci.wf ci.wfx
  | sys hQ hsub hinv hio ih =>
    rename_i s path name pfx tm sg lens comps
    intro b hb
    have hsubBlocks : ∀ c ∈ comps, ∀ b' ∈ blocksInst c.2,
        b' ∈ blocksInst (.sys (.mk path name pfx tm sg lens comps s.inputs s.outputs)) := by
      intro c hc b' hb'
      rw [blocksInst_sys]
      exact List.mem_append_left _ (List.mem_flatMap.mpr ⟨c, hc, hb'⟩)
    rw [blocksInst_sys] at hb
    rcases List.mem_append.mp hb with hb | hb
    · obtain ⟨c, hc, hbc⟩ := List.mem_flatMap.mp hb
      exact blockOk_mono (domains_mono (hsubBlocks c hc)) (ih c hc b hbc)
    · obtain ⟨x, hx, rfl⟩ := List.mem_map.mp hb
      refine ⟨?_, fun e he e' he' hc _ => Des.nodup_map_inj (entryTails_nodup hQ hinv hsub x hx) he he'
        (by rw [← connName_eq_entryTail, ← connName_eq_entryTail]; exact hc)⟩
      intro e he
      obtain ⟨inst', len', hm, hl, hport⟩ := hinv.entries x hx e he
      have hLi := hsub (e.comp, inst') hm
      have hdom := domains_mono (hsubBlocks (e.comp, inst') hm)
      simp only at hLi hdom
      have hlen : (lens.lookup x.1).getD 0 = len' := by rw [hl]; rfl
      have hpos : len' ≠ 0 := hinv.lensPos _ (lookup_mem hl)
      simp only [hlen]
      cases hLi with
      | comp hP hload =>
        rename_i c0 n0 a0 st a0'
        obtain ⟨ci, hp, _⟩ := load_inv_all hload hP.1
        have hdom' : ∀ q ∈ seqLines (compDoc st), q ∈ (designOfBlocks
            (blocksInst (.sys (.mk path name pfx tm sg lens comps s.inputs s.outputs)))).domains := by
          intro q hq
          apply hdom
          refine List.mem_flatMap.mpr ⟨Block.comp st, by simp [blocksInst_comp], ?_⟩
          simp only [blockDesign, compDesign_domains]
          exact hq
        unfold EntryOk
        cases hpe : e.port with
        | sig m => rw [hpe] at hport; simp [PortInv] at hport
        | seq i bases =>
          rw [hpe] at hport
          simp only [PortInv] at hport
          obtain ⟨_, hil, se, hf, hsl, hsk, rfl⟩ := hport
          obtain ⟨hsel, hsen⟩ := findE_some hf
          have hpe' : entryPfx pfx e = st.pfx := by rw [hp]; rfl
          simp only [hpe']
          split
          · refine ⟨?_, ?_⟩
            · rw [← (ci.wf.seqs.entries se hsel).lenB, ← hsl, hil]
            · intro b hb h0
              exact resolves_mono hdom' (resolves_of_baseOk ci.wf (seq_bases_ok ci.wf.seqs hsel b hb) h0)
          · rename_i hns
            refine ⟨hil, ?_⟩
            have hsf : se.isSup = false := by
              rw [← hsk]; simpa using hns
            obtain ⟨g1, g2⟩ := base_line ci.wf hsel hsf (by rw [← hsl, hil]; exact hpos)
            exact ⟨_, hdom' _ g1, by rw [hsen], by rw [g2, ← hsl, hil]⟩
      | sys hQ' hsub' hinv' hio' =>
        rename_i s' path' name' tm' sg' lens' comps'
        unfold EntryOk
        cases hpe : e.port with
        | seq i bases => rw [hpe] at hport; simp [PortInv] at hport
        | sig m =>
          rw [hpe] at hport
          simp only [PortInv, SysSt.lengths] at hport
          have hmk : m ∈ sg'.map (·.1) := by
            rw [← hinv'.keys, ← lookup_isSome_iff, hport]; rfl
          obtain ⟨x', hx', hxm⟩ := List.mem_map.mp hmk
          simp only
          refine ⟨(entryPfx pfx e ++ m, List.replicate len' 'N'), ?_, rfl, by simp⟩
          apply hdom
          refine List.mem_flatMap.mpr ⟨sigBlock (pfx ++ e.comp ++ "-") lens' x', ?_, ?_⟩
          · rw [blocksInst_sys]
            exact List.mem_append_right _ (List.mem_map.mpr ⟨x', hx', rfl⟩)
          · simp only [sigBlock, blockDesign, signalDesign, Design.empty, hxm, hport, Option.getD_some,
              List.mem_singleton, entryPfx]

/-! ### M1 -/

/-- **M1**: the instance tree of a successful `loadFile` satisfies `BlocksOk` -/
theorem Loaded.blocksOk {pfx : String} {inst : Inst} (hL : Loaded PD QD pfx inst) : BlocksOk (blocksInst inst) := by
  refine ⟨?_, ?_, ?_, blocks_ok hL⟩
  · rw [seqNames_docOf]; exact (seq_names_ok hL).1
  · rw [assignNames_docOf]; exact (asg_names_ok hL).1
  · have : (designOfBlocks (blocksInst inst)).strands.map (·.1) = (blocksInst inst).flatMap strN := by
      simp only [designOfBlocks, List.map_flatMap]; rfl
    rw [this]; exact (str_names_ok hL).1

/-- the hypotheses of M1 on a bundle: every component file satisfies `StmtNamesOk` and `PortsDistinct`,
    every system file `SysNamesOk` -/
def DesNamesOk (b : Bundle) : Prop := CompSrcsOk PD b ∧ SysSrcsOk QD b

/-- **5.** `loadFile` establishes `BlocksOk` -/
theorem loadFile_blocksOk {b : Bundle} (hb : DesNamesOk b) {fuel : Nat} {base : String} {args : Nat}
    {argKey pfx path : String} {includes : List String} {anon : Nat} {inst : Inst} {a' : Nat}
    (h : loadFile b fuel base args argKey pfx path includes anon = .ok (inst, a')) :
    BlocksOk (blocksInst inst) :=
  (loadFile_loaded hb.1 hb.2 _ _ _ _ _ _ _ _ _ _ h).blocksOk

/-- a single loaded component (no hypothesis on its declaration) -/
theorem comp_blocksOk {src : Comp.Src} {n : Nat} {pfx : String} {a : Nat} {st : Comp.St} {a' : Nat}
    (h : Comp.load src n pfx a = .ok (st, a')) (hn : StmtNamesOk src = true) : BlocksOk [Block.comp st] := by
  obtain ⟨ci, hp, _⟩ := load_inv_all h hn
  refine ⟨?_, ?_, ?_, ?_⟩
  · rw [seqNames_docOf]
    simp only [List.flatMap_cons, List.flatMap_nil, List.append_nil]
    show (seqN (.comp st)).Nodup
    rw [seqN_comp]
    exact nodup_pfx_map (nodup_names_filter (nodup_names_filter ci.wf.seqs.nodup _) _) _
  · rw [assignNames_docOf]
    simp only [List.flatMap_cons, List.flatMap_nil, List.append_nil]
    show (asgN (.comp st)).Nodup
    rw [asgN_comp]
    exact nodup_pfx_map ci.wf.structNames _
  · simp only [designOfBlocks, List.flatMap_cons, List.flatMap_nil, List.append_nil]
    show (strN (.comp st)).Nodup
    rw [strN_comp]
    exact nodup_pfx_map ci.wf.strandNames _
  · intro b hb
    simp only [List.mem_singleton] at hb
    subst hb
    exact compOk_of_inv ci.wf ci.wfx

/-! ### a connector is written once (repair F17) -/

theorem self_ne_conn (pfx sg : String) (es : List SigEntry) (e : SigEntry) :
    pfx ++ sg ++ "-_Self" ≠ pfx ++ sg ++ "-" ++ (portItems pfx e).1 ++ rcSuffix es e := by
  intro h
  have h0 : pfx ++ sg ++ "-_Self" = pfx ++ sg ++ "-" ++ "_Self" := by
    rw [String.append_assoc (s₁ := pfx ++ sg)]; rfl
  rw [h0, String.append_assoc (s₁ := pfx ++ sg ++ "-"), String.append_right_inj, portItems_fst,
    String.append_assoc] at h
  exact dash_ne (by decide : NoDash "_Self") h.symm

/-- the structure names of one signal's connector block (`S-_Self`, `S-<instance>-<port>` and, for the complementary
    binding of a port also bound plainly, `S-<instance>-<port>-_rc`) are pairwise distinct exactly when no port bound
    in both orientations has a sibling entry whose own connector name is `<instance>-<port>-_rc` -/
theorem signal_structNames_nodup_iff (pfx sg : String) (len : Nat) (es : List SigEntry) :
    ((structLines (signalDoc pfx sg len es)).map (·.1)).Nodup ↔
      ∀ e ∈ es, ∀ e₀ ∈ es, ∀ e' ∈ es, e.wc = true → e₀.wc = false → e₀.connName = e.connName →
        e'.connName ≠ e.connName ++ "-_rc" := by
  rw [structLines_signalDoc, List.map_cons, List.map_map, List.nodup_cons, ← Des.connTails_nodup_iff]
  have hmap : (dedupEntries es).map ((fun x => x.1) ∘ fun e =>
        (pfx ++ sg ++ "-" ++ (portItems pfx e).1 ++ rcSuffix es e, duplex len)) =
      ((dedupEntries es).map (Des.connTail es)).map (fun t => pfx ++ sg ++ "-" ++ t) := by
    rw [List.map_map]
    apply List.map_congr_left
    intro e _
    simp only [Function.comp, portItems_fst_connName, Des.connTail, String.append_assoc]
  rw [hmap]
  constructor
  · rintro ⟨_, hn⟩
    exact List.Pairwise.of_map _ (fun a b hne hab => hne (by rw [hab])) hn
  · intro h
    refine ⟨?_, nodup_pfx_map h _⟩
    intro hm
    obtain ⟨t, ht, he⟩ := List.mem_map.1 hm
    obtain ⟨e, _, rfl⟩ := List.mem_map.1 ht
    have := self_ne_conn pfx sg es e
    simp only [portItems_fst_connName, Des.connTail, String.append_assoc] at this he
    exact this he.symm

/-! ### M2 for one component -/

theorem structNucs_congr {d d' : Design} (h : d.strands = d'.strands) {s s' : StructD} (hs : s.strands = s'.strands) :
    LinkSpec.structNucs d s = LinkSpec.structNucs d' s' := by
  unfold LinkSpec.structNucs LinkSpec.strandNucs
  rw [h, hs]

/-- `Sat` reads a design only through its domains, `equals`, strands and the strand lists and targets of its
    structures (not through structure names, `opt`, `seqs`, `kinetics`) -/
theorem sat_of_congr {tbl : CodeTable} {d d' : Design} {a : Var → LinkSpec.Base} (h1 : d.domains = d'.domains)
    (h2 : d.equals = d'.equals) (h3 : d.strands = d'.strands)
    (h4 : d.structs.map (fun s => (s.strands, s.struct)) = d'.structs.map (fun s => (s.strands, s.struct)))
    (h : LinkSpec.Sat tbl d a) : LinkSpec.Sat tbl d' a := by
  refine ⟨fun p hp => h.tmpl p (h1 ▸ hp), fun e he => h.equal e (h2 ▸ he), ?_⟩
  intro s hs
  have : (s.strands, s.struct) ∈ d'.structs.map (fun s => (s.strands, s.struct)) := List.mem_map.mpr ⟨s, hs, rfl⟩
  rw [← h4] at this
  obtain ⟨s0, hs0, he⟩ := List.mem_map.mp this
  simp only [Prod.mk.injEq] at he
  have := h.pair s0 hs0
  rw [structNucs_congr h3 he.1, he.2] at this
  exact this

theorem sat_congr {tbl : CodeTable} {d d' : Design} (h1 : d.domains = d'.domains)
    (h2 : d.equals = d'.equals) (h3 : d.strands = d'.strands)
    (h4 : d.structs.map (fun s => (s.strands, s.struct)) = d'.structs.map (fun s => (s.strands, s.struct)))
    (a : Var → LinkSpec.Base) : LinkSpec.Sat tbl d a ↔ LinkSpec.Sat tbl d' a :=
  ⟨sat_of_congr h1 h2 h3 h4, sat_of_congr h1.symm h2.symm h3.symm h4.symm⟩

/-- **M2, component case**: the design of a loaded component's tables has the same solutions as the design the
    specification `Denote.denoteComp` assigns to the source (C01) -/
theorem comp_sat_iff (tbl : CodeTable) {src : Comp.Src} {n : Nat} {pfx : String} {a : Nat} {st : Comp.St} {a' : Nat}
    (hload : Comp.load src n pfx a = .ok (st, a')) (hnames : UserNamesOk src = true) (hcodes : CodesOk tbl src = true) :
    ∃ o ports, Denote.denoteComp src pfx a = .ok (o, ports, a') ∧
      ∀ asg, Des.Sat tbl (compDesign st) asg ↔ Des.Sat tbl (o.design []) asg := by
  obtain ⟨spec, o, ports, hl, hden, hequiv, _⟩ := compile_preserves tbl src n pfx a st a' hload hnames hcodes
  have hn := stmtNamesOk_of_user hnames
  obtain ⟨ci, _, _⟩ := load_inv_all hload hn
  obtain ⟨spec', hl', hd'⟩ := emit_sound tbl ci.wf (load_codes hload hn hcodes)
  rw [hl] at hl'
  cases hl'
  rw [hd'] at hequiv
  obtain ⟨e1, _, e3, e4, e5⟩ := hequiv
  refine ⟨o, ports, hden, fun asg => ?_⟩
  have step1 : Des.Sat tbl (compDesign st) asg ↔ Des.Sat tbl (Comp.designOf st) asg :=
    sat_congr (d := compDesign st) (d' := Comp.designOf st) rfl rfl rfl
      (by simp [compDesign, Comp.designOf, List.map_map, Function.comp_def]) asg
  have step2 : Des.Sat tbl (Comp.designOf st) asg ↔ Des.Sat tbl (o.design []) asg :=
    sat_congr (d := Comp.designOf st) (d' := o.design []) e1 e5 e3 (by rw [e4]) asg
  exact step1.trans step2

end Pepper.LoadInv
