import PepperProofs.ParseCompEngine
/-!
# `.comp` statement parser: canonical spelling (`render…`), well-formedness of ASTs (`wf…`), shape of accepted
statements (`acc…`), the lines of a document (`docLines`)

`renderStmtWith sp s` spells the statement `s` the way `harness/progen.py` (`render_comp`) does, with the `i`-th gap
of the statement filled by `sp i` (gap numbers are fixed per statement kind, list separators count upwards from a
base; two gaps may share a number, which only makes the statement about *every* `sp` stronger).
`renderStmt` is the spelling with single spaces.
-/
namespace Pepper.ParseComp
open Pepper.Comp

/-! ### further literals of the canonical spelling -/

def sNoOptB : Str := ['[', 'n', 'o', '-', 'o', 'p', 't', ']']
example : sNoOptB = "[no-opt]".toList := by decide
def sNtB : Str := ['n', 't', ']']
example : sNtB = "nt]".toList := by decide
def sPerMsB : Str := ['/', 'M', '/', 's', ']']
example : sPerMsB = "/M/s]".toList := by decide

/-! ### spacing -/

def isBlank (c : Char) : Bool := c == ' ' || c == '\t'

/-- every gap is a non-empty run of spaces and tabs -/
def SpOk (sp : Nat → String) : Prop := ∀ i, (sp i).toList ≠ [] ∧ ∀ c ∈ (sp i).toList, isBlank c = true

def SpOkL (sp : Nat → Str) : Prop := ∀ i, sp i ≠ [] ∧ ∀ c ∈ sp i, isBlank c = true

/-! ### rendering (on character lists, right-nested) -/

def starL (b : Bool) : Str := if b then ['*'] else []

def renderItemL : SrcItem → Str
  | .nuc t => '"' :: (t ++ ['"'])
  | .ref n st => n.toList ++ starL st
  | .domains n st => sDomainsP ++ (n.toList ++ (starL st ++ [')']))

/-- `a₀ sp(i) a₁ sp(i+1) a₂ …` -/
def joinSp (sp : Nat → Str) : Nat → List Str → Str
  | _, [] => []
  | _, [a] => a
  | i, a :: b :: r => a ++ (sp i ++ joinSp sp (i + 1) (b :: r))

/-- `a₀ sp(i) + sp(i+1) a₁ sp(i+2) + sp(i+3) a₂ …` -/
def joinPlus (sp : Nat → Str) : Nat → List Str → Str
  | _, [] => []
  | _, [a] => a
  | i, a :: b :: r => a ++ (sp i ++ ('+' :: (sp (i + 1) ++ joinPlus sp (i + 2) (b :: r))))

/-- `a₀, sp(i) a₁, sp(i+1) a₂ …` -/
def joinComma (sp : Nat → Str) : Nat → List Str → Str
  | _, [] => []
  | _, [a] => a
  | i, a :: b :: r => a ++ (',' :: (sp i ++ joinComma sp (i + 1) (b :: r)))

def lenPartL (sp : Nat → Str) : Option Nat → Str
  | none => []
  | some n => sp 3 ++ (':' :: (sp 4 ++ (Nat.repr n).toList))

def optPartL (sp : Nat → Str) : OptSrc → Str
  | .default => []
  | .noOpt => sp 0 ++ sNoOptB
  | .value t => sp 0 ++ ('[' :: (t.toList ++ sNtB))

/-- `k sp(4) OP sp(5) NUMBER sp(6) /M/s]` -/
def kCmpL (sp : Nat → Str) (op : Char) (num : Str) : Str :=
  'k' :: (sp 4 ++ (op :: (sp 5 ++ (num ++ (sp 6 ++ sPerMsB)))))

def kinParL (sp : Nat → Str) : Option String → Option String → Str
  | none, none => []
  | some l, none => sp 0 ++ ('[' :: kCmpL sp '>' l.toList)
  | none, some h => sp 0 ++ ('[' :: kCmpL sp '<' h.toList)
  | some l, some h =>
    sp 0 ++ ('[' :: (l.toList ++ (sp 7 ++ (sPerMs ++ (sp 8 ++ ('<' :: (sp 9 ++ kCmpL sp '<' h.toList)))))))

def renderStmtL (sp : Nat → Str) : Stmt → Str
  | .seq n items len =>
    sSequence ++ (sp 0 ++ (n.toList ++ (sp 1 ++ ('=' :: (sp 2 ++ (joinSp sp 5 (items.map renderItemL) ++ lenPartL sp len))))))
  | .strand dummy n items len =>
    sStrand ++ (sp 0 ++ ((if dummy then sDummy ++ sp 6 else []) ++
      (n.toList ++ (sp 1 ++ ('=' :: (sp 2 ++ (joinSp sp 7 (items.map renderItemL) ++ lenPartL sp len)))))))
  | .struct opt n strands domain text =>
    sStructure ++ (optPartL sp opt ++ (sp 1 ++ (n.toList ++ (sp 2 ++ ('=' :: (sp 3 ++
      (joinPlus sp 8 (strands.map String.toList) ++ (sp 4 ++ (':' :: ((if domain then sp 5 ++ sDomain else []) ++
        (sp 6 ++ text)))))))))))
  | .kinetic lo hi ins outs =>
    sKinetic ++ (kinParL sp lo hi ++ (sp 1 ++ (joinPlus sp 10 (ins.map String.toList) ++ (sp 2 ++ ('-' :: '>' :: (sp 3 ++
      joinPlus sp 40 (outs.map String.toList)))))))

def renderPortL (p : Port) : Str :=
  p.seq.toList ++ (starL p.star ++ (match p.struct with | some s => '(' :: (s.toList ++ [')']) | none => []))

/-- `:` inputs `->` outputs -/
def declIOL (sp : Nat → Str) (d : Decl) : Str :=
  ':' :: (sp 2 ++ (joinPlus sp 10 (d.inputs.map renderPortL) ++ (sp 3 ++ ('-' :: '>' :: (sp 4 ++
    joinPlus sp 50 (d.outputs.map renderPortL))))))

def declParL (sp : Nat → Str) (ps : List String) : Str :=
  if ps.isEmpty then [] else '(' :: (joinComma sp 5 (ps.map String.toList) ++ [')'])

def renderDeclL (sp : Nat → Str) (d : Decl) : Str :=
  sDeclare ++ (sp 0 ++ (sComponent ++ (sp 1 ++ (d.name.toList ++ (declParL sp d.params ++ declIOL sp d)))))

def renderStmtWith (sp : Nat → String) (s : Stmt) : String := String.ofList (renderStmtL (fun i => (sp i).toList) s)
def renderStmt (s : Stmt) : String := renderStmtWith (fun _ => " ") s
def renderDeclWith (sp : Nat → String) (d : Decl) : String := String.ofList (renderDeclL (fun i => (sp i).toList) d)
def renderDecl (d : Decl) : String := renderDeclWith (fun _ => " ") d
def renderPort (p : Port) : String := String.ofList (renderPortL p)

/-! ### well-formed ASTs (hypothesis of `parse_render`) -/

/-- non-empty, over `[A-Za-z0-9_-]` -/
def nameOkL (n : Str) : Bool := !n.isEmpty && n.all isName
def nameOk (n : String) : Bool := nameOkL n.toList

/-- a quoted body is non-empty over `[?\w\s]`; a name is `nameOk` -/
def wfItem : SrcItem → Bool
  | .nuc t => !t.isEmpty && t.all isBodyCh
  | .ref n _ => nameOk n
  | .domains n _ => nameOk n

/-- a number text over the class `cls` that `float()` accepts -/
def numOk (cls : Char → Bool) (t : String) : Bool := t.toList.all cls && pyFloatOk t.toList

def optNumOk (cls : Char → Bool) : Option String → Bool
  | none => true
  | some t => numOk cls t

/-- the branch test and character check of `parse_structure_statement` -/
def notationOk (text : Str) : Bool :=
  if text.contains 'U' || text.contains 'H' then text.all isHUCh else text.all isDPCh

def headNotSp : Str → Bool
  | [] => true
  | c :: _ => !isSp c

def wfStmt : Stmt → Bool
  | .seq n items _ => nameOk n && !items.isEmpty && items.all wfItem
  | .strand _ n items _ => nameOk n && !items.isEmpty && items.all wfItem
  | .struct opt n strands _ text =>
    nameOk n && (match opt with | .value t => numOk isOptCh t | _ => true) &&
    !strands.isEmpty && strands.all nameOk && !text.isEmpty && headNotSp text && notationOk text
  | .kinetic lo hi ins outs =>
    optNumOk isKNum lo && optNumOk isKNum hi && !ins.isEmpty && ins.all nameOk && !outs.isEmpty && outs.all nameOk

def wfPort (p : Port) : Bool := nameOk p.seq && (match p.struct with | some s => nameOk s | none => true)

/-- a parameter name: non-empty, no white space, no comma -/
def paramOk (p : String) : Bool := !p.toList.isEmpty && p.toList.all (fun c => !isSp c && c != ',')

def wfDecl (d : Decl) : Bool := nameOk d.name && d.params.all paramOk && d.inputs.all wfPort && d.outputs.all wfPort

/-! ### shape of accepted statements (conclusion of `parse_names_wellformed`) -/

/-- `x.strip() == x` -/
def strippedL (x : Str) : Bool := strip x == x

/-- a strand name inside a `structure` statement: a stripped piece of `[^:]+` between `+` signs (may be empty) -/
def looseStrand (x : String) : Bool := strippedL x.toList && x.toList.all (fun c => c != ':' && c != '+')
/-- an input name of a `kinetic` statement: a non-empty stripped piece of `[^\[\]>]*` between `+` signs -/
def looseIn (x : String) : Bool := !x.toList.isEmpty && strippedL x.toList && x.toList.all (fun c => notBrGt c && c != '+')
/-- an output name of a `kinetic` statement: a non-empty stripped piece of `.*` between `+` signs -/
def looseOut (x : String) : Bool := !x.toList.isEmpty && strippedL x.toList && x.toList.all (fun c => notNl c && c != '+')

def accStmt : Stmt → Bool
  | .seq n items _ => nameOk n && items.all wfItem
  | .strand _ n items _ => nameOk n && items.all wfItem
  | .struct opt n strands _ text =>
    nameOk n && (match opt with | .value t => numOk isOptCh t | _ => true) &&
    strands.all looseStrand && !text.isEmpty && text.all isStructCh && notationOk text
  | .kinetic lo hi ins outs => optNumOk isKNum lo && optNumOk isKNum hi && ins.all looseIn && outs.all looseOut

/-- a parameter name of an accepted declare line: non-empty, stripped, no comma, no newline -/
def looseParam (p : String) : Bool := !p.toList.isEmpty && strippedL p.toList && p.toList.all (fun c => notNl c && c != ',')

def accDecl (d : Decl) : Bool := nameOk d.name && d.params.all looseParam && d.inputs.all wfPort && d.outputs.all wfPort

/-! ### documents -/

/-- the lines of a document the statement loop looks at: split at `\n`, comment regex, stripped, empty ones skipped -/
def docLinesL (text : Str) : List Str := ((splitOn '\n' text).map cleanLine).filter (fun l => !l.isEmpty)
def docLines (text : String) : List String := (docLinesL text.toList).map String.ofList

/-- the command words the loop refuses -/
def forbiddenWords : List Str := [sDeclare, sEqual, sSuperSequence, sSupSequence]

end Pepper.ParseComp
