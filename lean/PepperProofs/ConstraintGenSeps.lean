import PepperProps.C04
import PepperProofs.ConstraintGenFiles
/-!
# The separator clause of the spuriousSSM input contract (C05)

"At least one blank between strands and two between complexes", derived from the closed-form layouts of C04
(`layout_exact_strand`, `layout_exact_struct`) and three numeric facts about the generated gap constants
(`2 ≤ strandGap`, `1 ≤ structGapStrands`, `2 ≤ structGapStructs`; hypotheses here, discharged by `decide` in
`PepperProps/C05.lean`).

* `SepsStrand` / `SepsStruct`: the clause over positions, for any pair of predicates "not blank" / "blank":
  the nucleotides of the strands sit at the closed-form positions, nothing else is on the line, and between two
  nucleotides of different strands (of one structure) there is a blank position, between two nucleotides of
  different complexes (strand layout: different strands; structure layout: different structures) there are two
  consecutive blank positions.  Quantifying over nucleotides makes zero-length strands harmless.
* `seps_strand_arr` / `seps_struct_arr`: it holds of the template array `get_constraints` returns;
  `seps_strand_text` / `seps_struct_text`: and of the template text the C reader holds (`tripleOf a`).
* `sepsOk_of_seps`: for any text, the clause over positions implies the executable check `sepsOk` (the separator
  part of `SsmContract`) against the strands the layout puts on the line (`segsOf`).  `runs_eq_of_blocks`
  characterises the maximal non-blank runs of a text by a sorted list of blocks; `sepsOk_of_layout` goes from blocks
  given complex by complex to `sepsOk` (zero-length strands and empty complexes drop out as in `Segs.norm`).
-/
namespace Pepper.ConstraintGen
open Pepper Pepper.Pil

/-! ## partial sums -/

/-- sum of `f` over the first `k` elements -/
def psum {α : Type} (f : α → Nat) (l : List α) (k : Nat) : Nat := ((l.take k).map f).sum

theorem psum_succ {α : Type} (f : α → Nat) {l : List α} {k : Nat} {a : α} (h : l[k]? = some a) :
    psum f l (k + 1) = psum f l k + f a := by
  induction l generalizing k with
  | nil => simp at h
  | cons b l ih =>
    cases k with
    | zero => simp at h; subst h; simp [psum]
    | succ k =>
      simp only [List.getElem?_cons_succ] at h
      have := ih h
      simp only [psum, List.take_succ_cons, List.map_cons, List.sum_cons] at this ⊢
      omega

theorem psum_mono {α : Type} (f : α → Nat) (l : List α) {k k' : Nat} (h : k ≤ k') : psum f l k ≤ psum f l k' := by
  induction l generalizing k k' with
  | nil => simp [psum]
  | cons b l ih =>
    cases k with
    | zero => simp [psum]
    | succ k =>
      cases k' with
      | zero => omega
      | succ k' =>
        have := ih (k := k) (k' := k') (by omega)
        simp only [psum, List.take_succ_cons, List.map_cons, List.sum_cons] at this ⊢
        omega

theorem psum_step_le {α : Type} (f : α → Nat) {l : List α} {k k' : Nat} {a : α} (h : l[k]? = some a) (hk : k < k') :
    psum f l k + f a ≤ psum f l k' := by
  rw [← psum_succ f h]; exact psum_mono f l hk

theorem psum_all {α : Type} (f : α → Nat) (l : List α) {k : Nat} (h : l.length ≤ k) : psum f l k = (l.map f).sum := by
  unfold psum; rw [List.take_of_length_le h]

/-! ## the separator clause, over positions -/

/-- `g` consecutive blank positions strictly between the positions `i` and `i'` -/
def BlanksBetween (B : Nat → Prop) (g i i' : Nat) : Prop :=
  ∃ e, i < e ∧ e + g ≤ i' ∧ ∀ j, e ≤ j → j < e + g → B j

theorem BlanksBetween.mono {B : Nat → Prop} {g g' i i' : Nat} (h : BlanksBetween B g i i') (hg : g' ≤ g) :
    BlanksBetween B g' i i' := by
  obtain ⟨e, h1, h2, h3⟩ := h
  exact ⟨e, h1, by omega, fun j hj1 hj2 => h3 j hj1 (by omega)⟩

/-- start of strand `k` in the strand layout: the earlier strands, each with its `strandGap` blanks -/
def startSC (spec : Spec) (k : Nat) : Nat := psum (fun o => o.len + Generated.strandGap) spec.strands k

/-- **Separator clause, strand layout** (every strand is a complex of its own).  `NB i` = "position `i` is not
    blank", `B i` = "position `i` is blank". -/
structure SepsStrand (NB B : Nat → Prop) (spec : Spec) : Prop where
  /-- the nucleotides of the strands sit at `start k + x` and are not blank -/
  nuc : ∀ q ∈ enum spec.strands, ∀ x, x < q.2.len → NB (startSC spec q.1 + x)
  /-- and nothing else is on the line -/
  cover : ∀ i, NB i → ∃ q ∈ enum spec.strands, ∃ x, x < q.2.len ∧ i = startSC spec q.1 + x
  /-- at least two blanks between nucleotides of different strands -/
  complexes : ∀ q ∈ enum spec.strands, ∀ q' ∈ enum spec.strands, q.1 < q'.1 →
    ∀ x, x < q.2.len → ∀ x', x' < q'.2.len →
      BlanksBetween B 2 (startSC spec q.1 + x) (startSC spec q'.1 + x')

/-- not blank / blank in the array `st` of `get_constraints` -/
def nbArr (st : List (Option Char)) (i : Nat) : Prop := ∃ ch, st[i]? = some (some ch)
def bArr (st : List (Option Char)) (i : Nat) : Prop := st[i]? = some none

theorem nbArr_iff {st : List (Option Char)} {i : Nat} : nbArr st i ↔ i < st.length ∧ st[i]? ≠ some none := by
  unfold nbArr
  constructor
  · rintro ⟨ch, h⟩
    exact ⟨(List.getElem?_eq_some_iff.1 h).1, by rw [h]; simp⟩
  · rintro ⟨h1, h2⟩
    rw [List.getElem?_eq_getElem h1] at h2 ⊢
    cases h : st[i] with
    | none => rw [h] at h2; exact absurd rfl h2
    | some ch => exact ⟨ch, rfl⟩

theorem bArr_iff {st : List (Option Char)} {i : Nat} : bArr st i ↔ i < st.length ∧ ¬ nbArr st i := by
  rw [nbArr_iff]
  unfold bArr
  constructor
  · intro h
    exact ⟨(List.getElem?_eq_some_iff.1 h).1, fun h' => h'.2 h⟩
  · rintro ⟨h1, h2⟩
    exact Decidable.byContradiction (fun h => h2 ⟨h1, h⟩)

theorem seps_strand_arr {stmts : List Stmt} {spec : Spec}
    (hload : Pil.load Generated.nupackTable stmts {} = .ok spec)
    {s : Seeds} {c : Cons} (hs : seeds .strand spec = .ok s) (hb : build s = .ok c)
    {a : Arrays} (ha : getConstraints .strand spec = .ok a) (hg : 2 ≤ Generated.strandGap) :
    SepsStrand (nbArr a.2.2) (bArr a.2.2) spec := by
  obtain ⟨L1, L2, _⟩ := C04.layout_exact_strand hload hs hb ha
  have cov : ∀ i, nbArr a.2.2 i ↔ ∃ q ∈ enum spec.strands, ∃ x, x < q.2.len ∧ i = startSC spec q.1 + x := by
    intro i
    rw [nbArr_iff]
    constructor
    · rintro ⟨h1, h2⟩; exact (L1 i h1).1 h2
    · rintro ⟨q, hq, x, hx, rfl⟩
      have hlt := (L2 q hq x hx).2
      exact ⟨hlt, (L1 _ hlt).2 ⟨q, hq, x, hx, rfl⟩⟩
  refine ⟨fun q hq x hx => (cov _).2 ⟨q, hq, x, hx, rfl⟩, fun i hi => (cov i).1 hi, ?_⟩
  intro q hq q' hq' hlt x hx x' hx'
  have h1 := psum_step_le (fun o : StrandObj => o.len + Generated.strandGap) (enum_getElem? hq) hlt
  have hlen' : startSC spec q'.1 + x' < a.2.2.length := (L2 q' hq' x' hx').2
  refine ⟨startSC spec q.1 + q.2.len, by omega, by unfold startSC; omega, ?_⟩
  intro j hj1 hj2
  rw [bArr_iff]
  refine ⟨by unfold startSC at *; omega, ?_⟩
  rw [cov]
  rintro ⟨q2, hq2, x2, hx2, rfl⟩
  rcases Nat.lt_trichotomy q2.1 q.1 with h | h | h
  · have := psum_step_le (fun o : StrandObj => o.len + Generated.strandGap) (enum_getElem? hq2) h
    unfold startSC at *; omega
  · have e1 := enum_getElem? hq2
    rw [h, enum_getElem? hq] at e1
    simp only [Option.some.injEq] at e1
    rw [h] at hj1; rw [← e1] at hx2; omega
  · have := psum_step_le (fun o : StrandObj => o.len + Generated.strandGap) (enum_getElem? hq) h
    unfold startSC at *; omega

/-! ## structure layout -/

/-- start of structure `j`: the earlier structures, each as wide as its strands with their blanks, plus the extra
    blank(s) between structures -/
def startTC (spec : Spec) (j : Nat) : Nat :=
  psum (fun so => widthT (structStrands spec so) + (Generated.structGapStructs - Generated.structGapStrands))
    spec.structs j

/-- offset of the `m`-th strand of a structure from the structure's start -/
def blockT (l : List (Nat × StrandObj)) (m : Nat) : Nat :=
  psum (fun q => q.2.len + Generated.structGapStrands) l m

/-- position of nucleotide `y` of the `m`-th strand of the structure `q` -/
def posT (spec : Spec) (q : Nat × StructObj) (m y : Nat) : Nat :=
  startTC spec q.1 + blockT (structStrands spec q.2) m + y

theorem widthT_eq (l : List (Nat × StrandObj)) : widthT l = blockT l l.length := by
  unfold widthT blockT; rw [psum_all _ _ (Nat.le_refl _)]

theorem blockT_le_width (l : List (Nat × StrandObj)) (m : Nat) : blockT l m ≤ widthT l := by
  rw [widthT_eq]
  by_cases h : m ≤ l.length
  · exact psum_mono _ l h
  · unfold blockT psum
    rw [List.take_of_length_le (by omega), List.take_of_length_le (Nat.le_refl _)]
    exact Nat.le_refl _

theorem blockT_next_le_width {l : List (Nat × StrandObj)} {m : Nat} {r : Nat × StrandObj} (h : l[m]? = some r) :
    blockT l m + (r.2.len + Generated.structGapStrands) ≤ widthT l := by
  unfold blockT
  rw [← psum_succ _ h]
  exact blockT_le_width l (m + 1)

theorem offT_block (l : List (Nat × StrandObj)) {m : Nat} {r : Nat × StrandObj} (h : l[m]? = some r) {y : Nat}
    (hy : y < r.2.len) : offT l (psum (fun q => q.2.len) l m + y) = blockT l m + y := by
  induction l generalizing m with
  | nil => simp at h
  | cons q l ih =>
    cases m with
    | zero =>
      simp only [List.getElem?_cons_zero, Option.some.injEq] at h
      subst h
      have : ¬ y ≥ q.2.len := by omega
      simp [psum, blockT, offT, this]
    | succ m =>
      simp only [List.getElem?_cons_succ] at h
      have := ih h
      simp only [psum, blockT, List.take_succ_cons, List.map_cons, List.sum_cons, offT] at this ⊢
      have hge : q.2.len + ((l.take m).map (fun q => q.2.len)).sum + y ≥ q.2.len := by omega
      rw [if_pos hge]
      have e : q.2.len + ((l.take m).map (fun q => q.2.len)).sum + y - q.2.len =
          ((l.take m).map (fun q => q.2.len)).sum + y := by omega
      rw [e, this]; omega

theorem offT_decomp (l : List (Nat × StrandObj)) {x : Nat} (hx : x < (l.map (fun q => q.2.len)).sum) :
    ∃ m r y, l[m]? = some r ∧ y < r.2.len ∧ x = psum (fun q => q.2.len) l m + y := by
  induction l generalizing x with
  | nil => simp at hx
  | cons q l ih =>
    simp only [List.map_cons, List.sum_cons] at hx
    by_cases h : x < q.2.len
    · exact ⟨0, q, x, by simp, h, by simp [psum]⟩
    · obtain ⟨m, r, y, h1, h2, h3⟩ := ih (x := x - q.2.len) (by omega)
      refine ⟨m + 1, r, y, by simpa using h1, h2, ?_⟩
      simp only [psum, List.take_succ_cons, List.map_cons, List.sum_cons] at h3 ⊢
      omega

theorem psum_len_lt (l : List (Nat × StrandObj)) {m : Nat} {r : Nat × StrandObj} (h : l[m]? = some r) {y : Nat}
    (hy : y < r.2.len) : psum (fun q => q.2.len) l m + y < (l.map (fun q => q.2.len)).sum := by
  have hm : m < l.length := (List.getElem?_eq_some_iff.1 h).1
  have := psum_step_le (fun q : Nat × StrandObj => q.2.len) h (k' := l.length) hm
  rw [psum_all _ _ (Nat.le_refl _)] at this
  omega

/-- **Separator clause, structure layout**: one complex per structure. -/
structure SepsStruct (NB B : Nat → Prop) (spec : Spec) : Prop where
  /-- the nucleotides of the strands of the structures are not blank -/
  nuc : ∀ q ∈ enum spec.structs, ∀ r ∈ enum (structStrands spec q.2), ∀ y, y < r.2.2.len → NB (posT spec q r.1 y)
  /-- and nothing else is on the line -/
  cover : ∀ i, NB i → ∃ q ∈ enum spec.structs, ∃ r ∈ enum (structStrands spec q.2), ∃ y, y < r.2.2.len ∧
    i = posT spec q r.1 y
  /-- at least one blank between nucleotides of different strands of one structure -/
  strands : ∀ q ∈ enum spec.structs, ∀ r ∈ enum (structStrands spec q.2), ∀ r' ∈ enum (structStrands spec q.2),
    r.1 < r'.1 → ∀ y, y < r.2.2.len → ∀ y', y' < r'.2.2.len →
      BlanksBetween B 1 (posT spec q r.1 y) (posT spec q r'.1 y')
  /-- at least two blanks between nucleotides of different structures -/
  complexes : ∀ q ∈ enum spec.structs, ∀ q' ∈ enum spec.structs, q.1 < q'.1 →
    ∀ r ∈ enum (structStrands spec q.2), ∀ r' ∈ enum (structStrands spec q'.2),
    ∀ y, y < r.2.2.len → ∀ y', y' < r'.2.2.len →
      BlanksBetween B 2 (posT spec q r.1 y) (posT spec q' r'.1 y')

theorem pos_lt_len_struct {stmts : List Stmt} {spec : Spec}
    (hload : Pil.load Generated.nupackTable stmts {} = .ok spec)
    {s : Seeds} {c : Cons} (hs : seeds .struct spec = .ok s) (hb : build s = .ok c)
    {a : Arrays} (ha : getConstraints .struct spec = .ok a)
    {q : Nat × StructObj} (hq : q ∈ enum spec.structs) {x : Nat} (hx : x < q.2.len) :
    stStart spec q.1 + offT (structStrands spec q.2) x < a.2.2.length := by
  have wf := load_wf hload
  have ok := load_specCodes hload
  have G := C04.arrays_exact_graph pilLawful ok hs hb ha
  have hsP : s.P = (layStruct spec).total := by
    obtain ⟨_, _, _, _, _, _, _, _, _, _, _, _, h⟩ := seeds_ok hs
    rw [h]; rfl
  have hso : q.2 ∈ spec.structs := (mem_enum hq).1
  have h1 := offT_lt (structStrands spec q.2) (x := x) (by rw [← wf.structLen q.2 hso]; exact hx)
  have h2 := (stStart_facts (j := q.1) (so := q.2) hq).1
  have hP : stStart spec q.1 + offT (structStrands spec q.2) x < s.P := by rw [hsP]; omega
  have hk := (key_iff_pos_struct wf ok hs hb hP).2 ⟨q, hq, x, hx, rfl⟩
  rw [G.len_st]
  exact G.bound _ hk hP


theorem startTC_succ {spec : Spec} {q : Nat × StructObj} (hq : q ∈ enum spec.structs) :
    startTC spec (q.1 + 1) = startTC spec q.1 + widthT (structStrands spec q.2) +
      (Generated.structGapStructs - Generated.structGapStrands) := by
  unfold startTC
  rw [psum_succ _ (enum_getElem? hq)]; omega

theorem startTC_mono (spec : Spec) {j j' : Nat} (h : j ≤ j') : startTC spec j ≤ startTC spec j' := psum_mono _ _ h

/-- where a nucleotide of a structure sits: inside its strand's block, which ends `structGapStrands` before the
    next block, inside the structure's width -/
theorem posT_bounds {spec : Spec} {q : Nat × StructObj} {r : Nat × Nat × StrandObj}
    (hr : r ∈ enum (structStrands spec q.2)) {y : Nat} (hy : y < r.2.2.len) :
    startTC spec q.1 + blockT (structStrands spec q.2) r.1 ≤ posT spec q r.1 y ∧
    posT spec q r.1 y < startTC spec q.1 + blockT (structStrands spec q.2) r.1 + r.2.2.len ∧
    blockT (structStrands spec q.2) r.1 + r.2.2.len + Generated.structGapStrands ≤ widthT (structStrands spec q.2) := by
  have := blockT_next_le_width (enum_getElem? hr)
  unfold posT
  omega

theorem blockT_step {l : List (Nat × StrandObj)} {r r' : Nat × Nat × StrandObj} (hr : r ∈ enum l) (h : r.1 < r'.1) :
    blockT l r.1 + r.2.2.len + Generated.structGapStrands ≤ blockT l r'.1 := by
  have := psum_step_le (fun q : Nat × StrandObj => q.2.len + Generated.structGapStrands) (enum_getElem? hr) h
  unfold blockT; omega

theorem enum_ext {α : Type} {l : List α} {p p' : Nat × α} (hp : p ∈ enum l) (hp' : p' ∈ enum l) (h : p.1 = p'.1) :
    p = p' := by
  have e1 := enum_getElem? hp
  have e2 := enum_getElem? hp'
  rw [h, e2] at e1
  simp only [Option.some.injEq] at e1
  exact Prod.ext h e1.symm

theorem seps_struct_arr {stmts : List Stmt} {spec : Spec}
    (hload : Pil.load Generated.nupackTable stmts {} = .ok spec)
    {s : Seeds} {c : Cons} (hs : seeds .struct spec = .ok s) (hb : build s = .ok c)
    {a : Arrays} (ha : getConstraints .struct spec = .ok a)
    (hg1 : 1 ≤ Generated.structGapStrands) (hg2 : 2 ≤ Generated.structGapStructs) :
    SepsStruct (nbArr a.2.2) (bArr a.2.2) spec := by
  have wf := load_wf hload
  obtain ⟨L1, _⟩ := C04.layout_exact_struct hload hs hb ha
  have cov : ∀ i, nbArr a.2.2 i ↔ ∃ q ∈ enum spec.structs, ∃ r ∈ enum (structStrands spec q.2), ∃ y,
      y < r.2.2.len ∧ i = posT spec q r.1 y := by
    intro i
    rw [nbArr_iff]
    constructor
    · rintro ⟨h1, h2⟩
      obtain ⟨q, hq, x, hx, rfl⟩ := (L1 i h1).1 h2
      rw [wf.structLen q.2 (mem_enum hq).1] at hx
      obtain ⟨m, r, y, hm, hy, rfl⟩ := offT_decomp _ hx
      refine ⟨q, hq, (m, r), mem_enum_of_getElem? hm, y, hy, ?_⟩
      rw [offT_block _ hm hy]
      show _ = startTC spec q.1 + blockT (structStrands spec q.2) m + y
      unfold startTC psum; omega
    · rintro ⟨q, hq, r, hr, y, hy, rfl⟩
      have hm := enum_getElem? hr
      have hx := psum_len_lt _ hm hy
      rw [← wf.structLen q.2 (mem_enum hq).1] at hx
      have hlt := pos_lt_len_struct hload hs hb ha hq hx
      rw [stStart_closed spec (mem_enum_lt hq), offT_block _ hm hy] at hlt
      have e : posT spec q r.1 y = (List.map (fun so => widthT (structStrands spec so) +
          (Generated.structGapStructs - Generated.structGapStrands)) (List.take q.1 spec.structs)).sum +
          (blockT (structStrands spec q.2) r.1 + y) := by unfold posT startTC psum; omega
      rw [e]
      refine ⟨hlt, (L1 _ hlt).2 ⟨q, hq, _, hx, ?_⟩⟩
      rw [offT_block _ hm hy]
  have ltlen : ∀ i, nbArr a.2.2 i → i < a.2.2.length := fun i h => (nbArr_iff.1 h).1
  refine ⟨fun q hq r hr y hy => (cov _).2 ⟨q, hq, r, hr, y, hy, rfl⟩, fun i hi => (cov i).1 hi, ?_, ?_⟩
  · intro q hq r hr r' hr' hlt y hy y' hy'
    have hlen' := ltlen _ ((cov _).2 ⟨q, hq, r', hr', y', hy', rfl⟩)
    obtain ⟨b1, b2, b3⟩ := posT_bounds (q := q) hr hy
    obtain ⟨b1', b2', b3'⟩ := posT_bounds (q := q) hr' hy'
    have st := blockT_step hr hlt
    refine ⟨startTC spec q.1 + blockT (structStrands spec q.2) r.1 + r.2.2.len, b2, by omega, ?_⟩
    intro j hj1 hj2
    rw [bArr_iff]
    refine ⟨by omega, ?_⟩
    rw [cov]
    rintro ⟨q2, hq2, r2, hr2, y2, hy2, rfl⟩
    obtain ⟨c1, c2, c3⟩ := posT_bounds (q := q2) hr2 hy2
    rcases Nat.lt_trichotomy q2.1 q.1 with h | h | h
    · have := startTC_succ hq2
      have := startTC_mono spec (j := q2.1 + 1) (j' := q.1) h
      omega
    · have := enum_ext hq2 hq h
      subst this
      rcases Nat.lt_trichotomy r2.1 r.1 with h' | h' | h'
      · have := blockT_step hr2 h'; omega
      · have := enum_ext hr2 hr h'
        subst this; omega
      · have := blockT_step hr h'; omega
    · have := startTC_succ hq
      have := startTC_mono spec (j := q.1 + 1) (j' := q2.1) h
      omega
  · intro q hq q' hq' hlt r hr r' hr' y hy y' hy'
    have hlen' := ltlen _ ((cov _).2 ⟨q', hq', r', hr', y', hy', rfl⟩)
    obtain ⟨b1, b2, b3⟩ := posT_bounds (q := q) hr hy
    obtain ⟨b1', b2', b3'⟩ := posT_bounds (q := q') hr' hy'
    have s1 := startTC_succ hq
    have s2 := startTC_mono spec (j := q.1 + 1) (j' := q'.1) hlt
    refine ⟨startTC spec (q.1 + 1) - 2, by omega, by omega, ?_⟩
    intro j hj1 hj2
    rw [bArr_iff]
    refine ⟨by omega, ?_⟩
    rw [cov]
    rintro ⟨q2, hq2, r2, hr2, y2, hy2, rfl⟩
    obtain ⟨c1, c2, c3⟩ := posT_bounds (q := q2) hr2 hy2
    rcases Nat.lt_trichotomy q2.1 q.1 with h | h | h
    · have := startTC_succ hq2
      have := startTC_mono spec (j := q2.1 + 1) (j' := q.1) h
      omega
    · have := enum_ext hq2 hq h
      subst this
      omega
    · have := startTC_mono spec (j := q.1 + 1) (j' := q2.1) h
      omega


/-! ## the same on the template text the C reader holds -/

/-- not blank / blank in a template text -/
def nbText (st : List Char) (i : Nat) : Prop := ∃ ch, st[i]? = some ch ∧ ch ≠ ' '
def bText (st : List Char) (i : Nat) : Prop := st[i]? = some ' '

theorem SepsStrand.imp {NB B NB' B' : Nat → Prop} {spec : Spec} (h : SepsStrand NB B spec)
    (hn : ∀ i, NB i ↔ NB' i) (hb : ∀ i, B i → B' i) : SepsStrand NB' B' spec := by
  refine ⟨fun q hq x hx => (hn _).1 (h.nuc q hq x hx), fun i hi => h.cover i ((hn i).2 hi), ?_⟩
  intro q hq q' hq' hlt x hx x' hx'
  obtain ⟨e, h1, h2, h3⟩ := h.complexes q hq q' hq' hlt x hx x' hx'
  exact ⟨e, h1, h2, fun j hj1 hj2 => hb j (h3 j hj1 hj2)⟩

theorem SepsStruct.imp {NB B NB' B' : Nat → Prop} {spec : Spec} (h : SepsStruct NB B spec)
    (hn : ∀ i, NB i ↔ NB' i) (hb : ∀ i, B i → B' i) : SepsStruct NB' B' spec := by
  refine ⟨fun q hq r hr y hy => (hn _).1 (h.nuc q hq r hr y hy), fun i hi => h.cover i ((hn i).2 hi), ?_, ?_⟩
  · intro q hq r hr r' hr' hlt y hy y' hy'
    obtain ⟨e, h1, h2, h3⟩ := h.strands q hq r hr r' hr' hlt y hy y' hy'
    exact ⟨e, h1, h2, fun j hj1 hj2 => hb j (h3 j hj1 hj2)⟩
  · intro q hq q' hq' hlt r hr r' hr' y hy y' hy'
    obtain ⟨e, h1, h2, h3⟩ := h.complexes q hq q' hq' hlt r hr r' hr' y hy y' hy'
    exact ⟨e, h1, h2, fun j hj1 hj2 => hb j (h3 j hj1 hj2)⟩

/-- a letter of the array is a letter of the text (codes are not blanks), `None` is a blank -/
theorem nbText_tripleOf {a : Arrays} (F : ArrFacts a) (i : Nat) : nbArr a.2.2 i ↔ nbText (tripleOf a).st i := by
  unfold nbArr nbText tripleOf
  simp only [List.getElem?_map]
  constructor
  · rintro ⟨ch, h⟩
    exact ⟨ch, by rw [h]; rfl, Ssm.isCode_ne_blank (F.code i ch h).1⟩
  · rintro ⟨ch, h, hne⟩
    cases ho : a.2.2[i]? with
    | none => rw [ho] at h; cases h
    | some o =>
      cases o with
      | none => rw [ho] at h; simp [stMap] at h; exact absurd h.symm hne
      | some c => exact ⟨c, rfl⟩

theorem bText_tripleOf {a : Arrays} (i : Nat) (h : bArr a.2.2 i) : bText (tripleOf a).st i := by
  unfold bArr at h
  unfold bText tripleOf
  simp only [List.getElem?_map, h]
  rfl

theorem seps_strand_text {stmts : List Stmt} {spec : Spec}
    (hload : Pil.load Generated.nupackTable stmts {} = .ok spec)
    {s : Seeds} {c : Cons} (hs : seeds .strand spec = .ok s) (hb : build s = .ok c)
    {a : Arrays} (ha : getConstraints .strand spec = .ok a) (F : ArrFacts a) (hg : 2 ≤ Generated.strandGap) :
    SepsStrand (nbText (tripleOf a).st) (bText (tripleOf a).st) spec :=
  (seps_strand_arr hload hs hb ha hg).imp (nbText_tripleOf F) bText_tripleOf

theorem seps_struct_text {stmts : List Stmt} {spec : Spec}
    (hload : Pil.load Generated.nupackTable stmts {} = .ok spec)
    {s : Seeds} {c : Cons} (hs : seeds .struct spec = .ok s) (hb : build s = .ok c)
    {a : Arrays} (ha : getConstraints .struct spec = .ok a) (F : ArrFacts a)
    (hg1 : 1 ≤ Generated.structGapStrands) (hg2 : 2 ≤ Generated.structGapStructs) :
    SepsStruct (nbText (tripleOf a).st) (bText (tripleOf a).st) spec :=
  (seps_struct_arr hload hs hb ha hg1 hg2).imp (nbText_tripleOf F) bText_tripleOf

/-- the clause for a layout -/
def Seps (mode : Layout) (NB B : Nat → Prop) (spec : Spec) : Prop :=
  match mode with
  | .strand => SepsStrand NB B spec
  | .struct => SepsStruct NB B spec

/-! ## the executable check `sepsOk`: maximal non-blank runs of a text described by blocks -/



/-- the blocks `bs` (start, length) describe the non-blank positions of `st` from index `i` on -/
structure RunBlocks (st : List Char) (i : Nat) (bs : List (Nat × Nat)) : Prop where
  pos : ∀ b ∈ bs, 0 < b.2
  sorted : bs.Pairwise (fun b b' => b.1 + b.2 < b'.1)
  inside : ∀ b ∈ bs, b.1 + b.2 ≤ i + st.length
  nb : ∀ k, k < st.length → (st[k]? ≠ some ' ' ↔ ∃ b ∈ bs, b.1 ≤ i + k ∧ i + k < b.1 + b.2)

theorem RunBlocks.tail {c : Char} {st : List Char} {i : Nat} {bs : List (Nat × Nat)} (h : RunBlocks (c :: st) i bs) :
    RunBlocks st (i + 1) bs := by
  refine ⟨h.pos, h.sorted, fun b hb => by have := h.inside b hb; simp at this; omega, ?_⟩
  intro k hk
  have := h.nb (k + 1) (by simp; omega)
  simp only [List.getElem?_cons_succ] at this
  rw [this]
  have e : i + (k + 1) = i + 1 + k := by omega
  rw [e]

theorem runsAux_blocks (st : List Char) : ∀ (i : Nat) (bs : List (Nat × Nat)), RunBlocks st i bs →
    ((∀ b ∈ bs, i ≤ b.1) → runsAux st i none = bs) ∧
    (∀ s l L rest, bs = (s, L) :: rest → s + l = i → 0 < l → l ≤ L → runsAux st i (some (s, l)) = bs) := by
  induction st with
  | nil =>
    intro i bs h
    constructor
    · intro hge
      cases bs with
      | nil => rfl
      | cons b r =>
        have h1 := h.pos b (by simp)
        have h2 := h.inside b (by simp)
        have h3 := hge b (by simp)
        simp at h2; omega
    · intro s l L rest e hi hl hL
      subst e
      have h2 := h.inside (s, L) (by simp)
      simp at h2
      have : L = l := by omega
      subst this
      cases rest with
      | nil => rfl
      | cons b r =>
        have h1 := h.pos b (by simp)
        have h3 := h.inside b (by simp)
        have h4 := List.rel_of_pairwise_cons h.sorted (a' := b) (by simp)
        simp at h3 h4; omega
  | cons c st ih =>
    intro i bs h
    have hnb0 := h.nb 0 (by simp)
    simp only [List.getElem?_cons_zero, Nat.add_zero] at hnb0
    obtain ⟨ih1, ih2⟩ := ih (i + 1) bs h.tail
    constructor
    · intro hge
      by_cases hc : c = ' '
      · subst hc
        simp only [runsAux, beq_self_eq_true, if_true]
        apply ih1
        intro b hb
        have := hge b hb
        have hp := h.pos b hb
        by_cases e : b.1 = i
        · exact absurd (hnb0.2 ⟨b, hb, by omega, by omega⟩) (by simp)
        · omega
      · have hc' : (c == ' ') = false := by simpa using hc
        simp only [runsAux, hc', Bool.false_eq_true, if_false]
        obtain ⟨b, hb, hb1, hb2⟩ := hnb0.1 (by simpa using hc)
        have hbi : b.1 = i := by have := hge b hb; omega
        cases bs with
        | nil => simp at hb
        | cons b0 r =>
          have : b = b0 := by
            rcases List.mem_cons.1 hb with e | e
            · exact e
            · have h4 := List.rel_of_pairwise_cons h.sorted e
              have := hge b0 (by simp)
              omega
          subst this
          obtain ⟨s, L⟩ := b
          simp only at hbi hb2
          subst hbi
          exact ih2 s 1 L r rfl rfl (by omega) (by omega)
    · intro s l L rest e hi hl hL
      subst e
      by_cases hc : c = ' '
      · subst hc
        simp only [runsAux, beq_self_eq_true, if_true]
        have hLl : L = l := by
          by_cases e : L = l
          · exact e
          · exact absurd (hnb0.2 ⟨(s, L), by simp, by simp; omega, by simp; omega⟩) (by simp)
        subst hLl
        have hr : RunBlocks st (i + 1) rest := by
          have ht := h.tail
          refine ⟨fun b hb => ht.pos b (by simp [hb]), (List.pairwise_cons.1 ht.sorted).2,
            fun b hb => ht.inside b (by simp [hb]), ?_⟩
          intro k hk
          rw [ht.nb k hk]
          constructor
          · rintro ⟨b, hb, h1, h2⟩
            rcases List.mem_cons.1 hb with e | e
            · subst e; simp at h2; omega
            · exact ⟨b, e, h1, h2⟩
          · rintro ⟨b, hb, h1, h2⟩
            exact ⟨b, by simp [hb], h1, h2⟩
        have := (ih (i + 1) rest hr).1 (by
          intro b hb
          have h4 := List.rel_of_pairwise_cons h.sorted hb
          simp at h4; omega)
        rw [this]
      · have hc' : (c == ' ') = false := by simpa using hc
        simp only [runsAux, hc', Bool.false_eq_true, if_false]
        obtain ⟨b, hb, hb1, hb2⟩ := hnb0.1 (by simpa using hc)
        have : b = (s, L) := by
          rcases List.mem_cons.1 hb with e | e
          · exact e
          · have h4 := List.rel_of_pairwise_cons h.sorted e
            simp at h4; omega
        subst this
        simp only at hb2
        exact ih2 s (l + 1) L rest rfl (by omega) (by omega) (by omega)

/-- the maximal non-blank runs of a text are the blocks that describe it -/
theorem runs_eq_of_blocks {st : List Char} {bs : List (Nat × Nat)} (h : RunBlocks st 0 bs) : runs st = bs :=
  (runsAux_blocks st 0 bs h).1 (fun _ _ => Nat.zero_le _)



/-- required blanks before the strands of one complex (the function inside `Segs.gaps`) -/
def fGap (c : List Nat) : List (Nat × Nat) :=
  match c with
  | [] => []
  | l :: r => (2, l) :: r.map (fun x => (1, x))

/-- `Segs.gaps` after the first entry's gap is set to 0 -/
def dropGap : List (Nat × Nat) → List (Nat × Nat)
  | [] => []
  | (_, l) :: r => (0, l) :: r

theorem gaps_eq (s : Segs) : s.gaps = dropGap (s.norm.flatMap fGap) := by
  have e : ∀ (f : List Nat → List (Nat × Nat)), (∀ c, f c = fGap c) → s.norm.flatMap f = s.norm.flatMap fGap :=
    fun f hf => by rw [funext hf]
  unfold Segs.gaps
  rw [e _ (fun c => by cases c <;> rfl)]
  cases s.norm.flatMap fGap with
  | nil => rfl
  | cons p r => rfl

/-- the relation between consecutive (indeed any two) entries (gap, start, length) of the line -/
def GapRel (z z' : Nat × Nat × Nat) : Prop := z.2.1 + z.2.2 + z'.1 ≤ z'.2.1

theorem sepsOk_core (st : List Char) (gs : List (Nat × Nat)) (zs : List (Nat × Nat × Nat))
    (hr : runs st = zs.map (fun z => (z.2.1, z.2.2))) (hg : gs = zs.map (fun z => (z.1, z.2.2)))
    (hp : zs.Pairwise GapRel) :
    (let rs := runs st
     rs.length == gs.length &&
     (rs.zip gs).all (fun ((_, l), (_, l')) => l == l') &&
     (List.range rs.length).all (fun k =>
       match k with
       | 0 => true
       | k' + 1 =>
         let (s0, l0) := rs.getD k' (0, 0)
         let (s1, _) := rs.getD (k' + 1) (0, 0)
         let (g, _) := gs.getD (k' + 1) (0, 0)
         decide (s0 + l0 + g ≤ s1))) = true := by
  simp only [hr, hg, List.length_map, beq_self_eq_true, Bool.true_and, Bool.and_eq_true]
  constructor
  · rw [List.zip_map']
    simp
  · rw [List.all_eq_true]
    intro k hk
    have hk := List.mem_range.1 hk
    cases k with
    | zero => rfl
    | succ k' =>
      have hk' : k' < zs.length := by omega
      simp only [List.getD_eq_getElem?_getD, List.getElem?_map, List.getElem?_eq_getElem hk, List.getElem?_eq_getElem hk',
        Option.map_some, Option.getD_some, decide_eq_true_eq]
      exact (List.pairwise_iff_getElem.1 hp) k' (k' + 1) hk' hk (by omega)

/-- the entries (gap, start, length) of one complex given as (start, length) per strand -/
def zsC (c : List (Nat × Nat)) : List (Nat × Nat × Nat) :=
  match c.filter (fun b => b.2 != 0) with
  | [] => []
  | b :: r => (2, b.1, b.2) :: r.map (fun b => (1, b.1, b.2))

def zsOf (cs : List (List (Nat × Nat))) : List (Nat × Nat × Nat) := cs.flatMap zsC

theorem zsC_gaps (c : List (Nat × Nat)) :
    (zsC c).map (fun z => (z.1, z.2.2)) = fGap ((c.map (·.2)).filter (· != 0)) := by
  have : (c.map (·.2)).filter (· != 0) = (c.filter (fun b => b.2 != 0)).map (·.2) := by
    rw [List.filter_map]; rfl
  rw [this]
  unfold zsC
  cases c.filter (fun b => b.2 != 0) with
  | nil => rfl
  | cons b r => simp [fGap, List.map_map, Function.comp_def]

theorem flatMap_fGap_filter (l : List (List Nat)) :
    (l.filter (fun c => !c.isEmpty)).flatMap fGap = l.flatMap fGap := by
  induction l with
  | nil => rfl
  | cons c l ih =>
    cases c with
    | nil => simp [fGap, ih]
    | cons a r => simp [ih]

theorem zsOf_gaps (cs : List (List (Nat × Nat))) :
    (zsOf cs).map (fun z => (z.1, z.2.2)) = (Segs.norm (cs.map (fun c => c.map (·.2)))).flatMap fGap := by
  unfold Segs.norm
  rw [flatMap_fGap_filter]
  unfold zsOf
  induction cs with
  | nil => rfl
  | cons c cs ih =>
    simp only [List.flatMap_cons, List.map_append, List.map_cons, ih, zsC_gaps]


/-! ## from a layout given as blocks per complex to `sepsOk` -/

def zero1 : List (Nat × Nat × Nat) → List (Nat × Nat × Nat)
  | [] => []
  | (_, b) :: r => (0, b) :: r

theorem zero1_gaps (zs : List (Nat × Nat × Nat)) :
    dropGap (zs.map (fun z => (z.1, z.2.2))) = (zero1 zs).map (fun z => (z.1, z.2.2)) := by
  cases zs with
  | nil => rfl
  | cons z r => rfl

theorem zero1_runs (zs : List (Nat × Nat × Nat)) :
    (zero1 zs).map (fun z => (z.2.1, z.2.2)) = zs.map (fun z => (z.2.1, z.2.2)) := by
  cases zs with
  | nil => rfl
  | cons z r => rfl

theorem zero1_pairwise {zs : List (Nat × Nat × Nat)} (h : zs.Pairwise GapRel) : (zero1 zs).Pairwise GapRel := by
  cases zs with
  | nil => exact h
  | cons z r =>
    obtain ⟨h1, h2⟩ := List.pairwise_cons.1 h
    exact List.pairwise_cons.2 ⟨fun z' hz' => h1 z' hz', h2⟩

theorem mem_zsC {c : List (Nat × Nat)} {z : Nat × Nat × Nat} (h : z ∈ zsC c) :
    z.2 ∈ c ∧ 0 < z.2.2 ∧ 1 ≤ z.1 ∧ z.1 ≤ 2 := by
  unfold zsC at h
  have hf : ∀ b ∈ c.filter (fun b => b.2 != 0), b ∈ c ∧ 0 < b.2 := by
    intro b hb
    obtain ⟨h1, h2⟩ := List.mem_filter.1 hb
    exact ⟨h1, by simp at h2; omega⟩
  cases hc : c.filter (fun b => b.2 != 0) with
  | nil => rw [hc] at h; simp at h
  | cons b r =>
    rw [hc] at h hf
    rcases List.mem_cons.1 h with e | e
    · subst e
      have := hf b (by simp)
      exact ⟨this.1, this.2, by simp, by simp⟩
    · obtain ⟨b', hb', rfl⟩ := List.mem_map.1 e
      have := hf b' (by simp [hb'])
      exact ⟨this.1, this.2, by simp, by simp⟩

theorem zsC_of_mem {c : List (Nat × Nat)} {b : Nat × Nat} (hb : b ∈ c) (hl : 0 < b.2) : ∃ z ∈ zsC c, z.2 = b := by
  unfold zsC
  have hm : b ∈ c.filter (fun b => b.2 != 0) := List.mem_filter.2 ⟨hb, by simp; omega⟩
  cases hc : c.filter (fun b => b.2 != 0) with
  | nil => rw [hc] at hm; simp at hm
  | cons b0 r =>
    rw [hc] at hm
    rcases List.mem_cons.1 hm with e | e
    · subst e; exact ⟨(2, b), by simp, rfl⟩
    · exact ⟨(1, b), by simp only [List.mem_cons, List.mem_map]; right; exact ⟨b, e, rfl⟩, rfl⟩

theorem zsC_pairwise {c : List (Nat × Nat)}
    (h : c.Pairwise (fun b b' => 0 < b.2 → 0 < b'.2 → b.1 + b.2 + 1 ≤ b'.1)) : (zsC c).Pairwise GapRel := by
  have hf := h.filter (fun b => b.2 != 0)
  have hpos : ∀ b ∈ c.filter (fun b => b.2 != 0), 0 < b.2 := by
    intro b hb
    have := (List.mem_filter.1 hb).2
    simp at this; omega
  unfold zsC
  cases hc : c.filter (fun b => b.2 != 0) with
  | nil => exact List.Pairwise.nil
  | cons b r =>
    rw [hc] at hf hpos
    obtain ⟨h1, h2⟩ := List.pairwise_cons.1 hf
    apply List.pairwise_cons.2
    constructor
    · intro z' hz'
      obtain ⟨b', hb', rfl⟩ := List.mem_map.1 hz'
      exact h1 b' hb' (hpos b (by simp)) (hpos b' (by simp [hb']))
    · rw [List.pairwise_map]
      refine List.Pairwise.imp_of_mem ?_ h2
      intro x y hx hy hxy
      exact hxy (hpos x (by simp [hx])) (hpos y (by simp [hy]))

/-- **From blocks to `sepsOk`.**  A text whose non-blank positions are exactly the blocks (start, length) of the
    strands, given complex by complex, with a blank after every strand and two after every complex (as far as
    non-empty strands are concerned), passes `sepsOk` against the strands' lengths. -/
theorem sepsOk_of_layout (st : List Char) (cs : List (List (Nat × Nat)))
    (inside : ∀ c ∈ cs, c.Pairwise (fun b b' => 0 < b.2 → 0 < b'.2 → b.1 + b.2 + 1 ≤ b'.1))
    (across : cs.Pairwise (fun c c' => ∀ b ∈ c, ∀ b' ∈ c', 0 < b.2 → 0 < b'.2 → b.1 + b.2 + 2 ≤ b'.1))
    (hin : ∀ c ∈ cs, ∀ b ∈ c, 0 < b.2 → b.1 + b.2 ≤ st.length)
    (hnb : ∀ i, i < st.length → (st[i]? ≠ some ' ' ↔ ∃ c ∈ cs, ∃ b ∈ c, b.1 ≤ i ∧ i < b.1 + b.2)) :
    sepsOk st (cs.map (fun c => c.map (·.2))) = true := by
  have hmem : ∀ z ∈ zsOf cs, ∃ c ∈ cs, z.2 ∈ c ∧ 0 < z.2.2 ∧ 1 ≤ z.1 ∧ z.1 ≤ 2 := by
    intro z hz
    obtain ⟨c, hc, hz⟩ := List.mem_flatMap.1 hz
    exact ⟨c, hc, mem_zsC hz⟩
  have P1 : (zsOf cs).Pairwise GapRel := by
    unfold zsOf
    rw [List.pairwise_flatMap]
    refine ⟨fun c hc => zsC_pairwise (inside c hc), ?_⟩
    refine List.Pairwise.imp ?_ across
    intro c c' h z hz z' hz'
    obtain ⟨m1, m2, _, _⟩ := mem_zsC hz
    obtain ⟨m1', m2', _, m4'⟩ := mem_zsC hz'
    have := h z.2 m1 z'.2 m1' m2 m2'
    unfold GapRel; omega
  have B : RunBlocks st 0 ((zsOf cs).map (fun z => (z.2.1, z.2.2))) := by
    refine ⟨?_, ?_, ?_, ?_⟩
    · intro b hb
      obtain ⟨z, hz, rfl⟩ := List.mem_map.1 hb
      obtain ⟨_, _, _, h, _⟩ := hmem z hz
      exact h
    · rw [List.pairwise_map]
      refine List.Pairwise.imp_of_mem ?_ P1
      intro z z' _ hz' h
      obtain ⟨_, _, _, _, h1, _⟩ := hmem z' hz'
      unfold GapRel at h
      simp only; omega
    · intro b hb
      obtain ⟨z, hz, rfl⟩ := List.mem_map.1 hb
      obtain ⟨c, hc, h1, h2, _⟩ := hmem z hz
      have := hin c hc z.2 h1 h2
      simp only; omega
    · intro k hk
      rw [hnb k hk]
      simp only [Nat.zero_add]
      constructor
      · rintro ⟨c, hc, b, hb, h1, h2⟩
        obtain ⟨z, hz, rfl⟩ := zsC_of_mem hb (by omega)
        exact ⟨(z.2.1, z.2.2), List.mem_map.2 ⟨z, List.mem_flatMap.2 ⟨c, hc, hz⟩, rfl⟩, h1, h2⟩
      · rintro ⟨b, hb, h1, h2⟩
        obtain ⟨z, hz, rfl⟩ := List.mem_map.1 hb
        obtain ⟨c, hc, h3, _⟩ := hmem z hz
        exact ⟨c, hc, z.2, h3, h1, h2⟩
  have hr := runs_eq_of_blocks B
  unfold sepsOk
  refine sepsOk_core st _ (zero1 (zsOf cs)) (by rw [hr, zero1_runs]) ?_ (zero1_pairwise P1)
  rw [gaps_eq, ← zsOf_gaps, zero1_gaps]


/-! ## the position-level clause implies the executable check `sepsOk` against the layout's strand list -/

theorem enum_map_snd {α β : Type} (l : List α) (g : α → β) : (enum l).map (fun q => g q.2) = l.map g := by
  apply List.ext_getElem?
  intro i
  simp only [enum, List.getElem?_map]
  by_cases h : i < l.length
  · have : ((List.range l.length).zip l)[i]? = some (i, l[i]) := by
      rw [List.getElem?_zip_eq_some]
      exact ⟨by rw [List.getElem?_range h], List.getElem?_eq_getElem h⟩
    rw [this, List.getElem?_eq_getElem h]; rfl
  · have h1 : l[i]? = none := by simp; omega
    have h2 : ((List.range l.length).zip l)[i]? = none := by
      rw [List.getElem?_eq_none_iff]; simp; omega
    rw [h1, h2]; rfl

theorem nbText_iff {st : List Char} {i : Nat} (hi : i < st.length) : st[i]? ≠ some ' ' ↔ nbText st i := by
  unfold nbText
  rw [List.getElem?_eq_getElem hi]
  constructor
  · intro h; exact ⟨st[i], rfl, fun e => h (by rw [e])⟩
  · rintro ⟨ch, h1, h2⟩ e
    rw [e] at h1
    simp only [Option.some.injEq] at h1
    exact h2 h1.symm

theorem nbText_lt {st : List Char} {i : Nat} (h : nbText st i) : i < st.length := by
  obtain ⟨ch, h1, _⟩ := h
  exact (List.getElem?_eq_some_iff.1 h1).1

/-- **Strand layout: the clause over positions implies the executable separator check** of `SsmContract`
    against the layout's own strand list `segsOf`. -/
theorem sepsOk_of_sepsStrand {st : List Char} {spec : Spec} (h : SepsStrand (nbText st) (bText st) spec) :
    sepsOk st (segsOf .strand spec) = true := by
  have e : segsOf .strand spec =
      ((enum spec.strands).map (fun q => [(startSC spec q.1, q.2.len)])).map (fun c => c.map (·.2)) := by
    rw [List.map_map]
    exact (enum_map_snd spec.strands (fun o => [o.len])).symm
  rw [e]
  apply sepsOk_of_layout
  · intro c hc
    obtain ⟨q, _, rfl⟩ := List.mem_map.1 hc
    exact List.pairwise_singleton _ _
  · rw [List.pairwise_map]
    refine List.Pairwise.imp_of_mem ?_ (enum_pairwise spec.strands)
    intro q q' hq hq' hlt b hb b' hb' hl hl'
    simp only [List.mem_singleton] at hb hb'
    subst hb; subst hb'
    simp only at hl hl' ⊢
    obtain ⟨e, h1, h2, _⟩ := h.complexes q hq q' hq' hlt (q.2.len - 1) (by omega) 0 hl'
    omega
  · intro c hc b hb hl
    obtain ⟨q, hq, rfl⟩ := List.mem_map.1 hc
    simp only [List.mem_singleton] at hb
    subst hb
    simp only at hl ⊢
    have := nbText_lt (h.nuc q hq (q.2.len - 1) (by omega))
    omega
  · intro i hi
    rw [nbText_iff hi]
    constructor
    · intro hn
      obtain ⟨q, hq, x, hx, rfl⟩ := h.cover i hn
      exact ⟨_, List.mem_map.2 ⟨q, hq, rfl⟩, _, List.mem_singleton.2 rfl, by simp, by simp; omega⟩
    · rintro ⟨c, hc, b, hb, h1, h2⟩
      obtain ⟨q, hq, rfl⟩ := List.mem_map.1 hc
      simp only [List.mem_singleton] at hb
      subst hb
      simp only at h1 h2
      have := h.nuc q hq (i - startSC spec q.1) (by omega)
      have e : startSC spec q.1 + (i - startSC spec q.1) = i := by omega
      rwa [e] at this

theorem posT_add (spec : Spec) (q : Nat × StructObj) (m y : Nat) : posT spec q m y = posT spec q m 0 + y := by
  unfold posT; omega

/-- **Structure layout: the clause over positions implies the executable separator check** of `SsmContract`
    against the layout's own strand list `segsOf`. -/
theorem sepsOk_of_sepsStruct {st : List Char} {spec : Spec} (h : SepsStruct (nbText st) (bText st) spec) :
    sepsOk st (segsOf .struct spec) = true := by
  have e : segsOf .struct spec =
      ((enum spec.structs).map (fun q => (enum (structStrands spec q.2)).map
        (fun r => (posT spec q r.1 0, r.2.2.len)))).map (fun c => c.map (·.2)) := by
    rw [List.map_map]
    have : ((fun (c : List (Nat × Nat)) => c.map (·.2)) ∘ fun (q : Nat × StructObj) =>
        (enum (structStrands spec q.2)).map (fun r => (posT spec q r.1 0, r.2.2.len))) =
        fun q => (structStrands spec q.2).map (fun p => p.2.len) := by
      funext q
      simp only [Function.comp, List.map_map]
      exact enum_map_snd (structStrands spec q.2) (fun p => p.2.len)
    rw [this]
    exact (enum_map_snd spec.structs (fun so => (structStrands spec so).map (fun p => p.2.len))).symm
  rw [e]
  apply sepsOk_of_layout
  · intro c hc
    obtain ⟨q, hq, rfl⟩ := List.mem_map.1 hc
    rw [List.pairwise_map]
    refine List.Pairwise.imp_of_mem ?_ (enum_pairwise (structStrands spec q.2))
    intro r r' hr hr' hlt hl hl'
    simp only at hl hl' ⊢
    obtain ⟨e, h1, h2, _⟩ := h.strands q hq r hr r' hr' hlt (r.2.2.len - 1) (by omega) 0 hl'
    rw [posT_add] at h1
    omega
  · rw [List.pairwise_map]
    refine List.Pairwise.imp_of_mem ?_ (enum_pairwise spec.structs)
    intro q q' hq hq' hlt b hb b' hb' hl hl'
    obtain ⟨r, hr, rfl⟩ := List.mem_map.1 hb
    obtain ⟨r', hr', rfl⟩ := List.mem_map.1 hb'
    simp only at hl hl' ⊢
    obtain ⟨e, h1, h2, _⟩ := h.complexes q hq q' hq' hlt r hr r' hr' (r.2.2.len - 1) (by omega) 0 hl'
    rw [posT_add] at h1
    omega
  · intro c hc b hb hl
    obtain ⟨q, hq, rfl⟩ := List.mem_map.1 hc
    obtain ⟨r, hr, rfl⟩ := List.mem_map.1 hb
    simp only at hl ⊢
    have := nbText_lt (h.nuc q hq r hr (r.2.2.len - 1) (by omega))
    rw [posT_add] at this
    omega
  · intro i hi
    rw [nbText_iff hi]
    constructor
    · intro hn
      obtain ⟨q, hq, r, hr, y, hy, rfl⟩ := h.cover i hn
      refine ⟨_, List.mem_map.2 ⟨q, hq, rfl⟩, _, List.mem_map.2 ⟨r, hr, rfl⟩, ?_, ?_⟩
      · simp only; rw [posT_add spec q r.1 y]; omega
      · simp only; rw [posT_add spec q r.1 y]; omega
    · rintro ⟨c, hc, b, hb, h1, h2⟩
      obtain ⟨q, hq, rfl⟩ := List.mem_map.1 hc
      obtain ⟨r, hr, rfl⟩ := List.mem_map.1 hb
      simp only at h1 h2
      have := h.nuc q hq r hr (i - posT spec q r.1 0) (by omega)
      rw [posT_add spec q r.1 (i - posT spec q r.1 0)] at this
      have e : posT spec q r.1 0 + (i - posT spec q r.1 0) = i := by omega
      rwa [e] at this

theorem sepsOk_of_seps {mode : Layout} {st : List Char} {spec : Spec} (h : Seps mode (nbText st) (bText st) spec) :
    sepsOk st (segsOf mode spec) = true := by
  cases mode with
  | strand => exact sepsOk_of_sepsStrand h
  | struct => exact sepsOk_of_sepsStruct h

end Pepper.ConstraintGen
