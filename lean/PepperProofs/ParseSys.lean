import PepperProofs.ParseSysDefs
/-!
# `.sys` text parser: rendering a statement and parsing it back
Lemmas for `PepperProps/ParseSys.lean` (`parse_render…`): every leaf element and every nonterminal of
`PepperModel/ParseSys.lean` run on the text `renderSStmtW` / `renderDeclW` write, for an arbitrary `Layout`.
-/
namespace Pepper.ParseSys
open Pepper.Sys

/-! ### blanks and what follows them -/

theorem sp_zero : sp 0 = [] := rfl
theorem sp_succ (n : Nat) : sp (n + 1) = ' ' :: sp n := rfl
theorem sp_length (n : Nat) : (sp n).length = n := by simp [sp]

theorem sp_append (a b : Nat) (t : Str) : sp a ++ (sp b ++ t) = sp (a + b) ++ t := by
  induction a with
  | zero => simp [sp_zero]
  | succ a ih => rw [show a + 1 + b = (a + b) + 1 by omega, sp_succ, sp_succ]; simp [ih]

/-- the first character is neither white space of the grammar nor the start of a comment -/
def hardHead : Str → Bool
  | [] => true
  | c :: _ => !isWs c && c != '#'

/-- the first character, if any, is not in the class `f` -/
def headNot (f : Char → Bool) : Str → Bool
  | [] => true
  | c :: _ => !f c

/-- after blanks, `t` goes on with a character that is neither white space, nor `#`, nor in `bad` — or ends -/
def clearOf (bad : Char → Bool) : Str → Bool
  | [] => true
  | c :: r => if c == ' ' then clearOf bad r else !isWs c && c != '#' && !bad c

@[simp] theorem clearOf_sp_append (bad : Char → Bool) (n : Nat) (t : Str) : clearOf bad (sp n ++ t) = clearOf bad t := by
  induction n with
  | zero => simp [sp_zero]
  | succ n ih => rw [sp_succ]; simp [clearOf, ih]

@[simp] theorem clearOf_sp (bad : Char → Bool) (n : Nat) : clearOf bad (sp n) = true := by
  have := clearOf_sp_append bad n []
  simpa [clearOf] using this

theorem clearOf_mono {bad bad' : Char → Bool} (h : ∀ c, bad' c = true → bad c = true) :
    ∀ t, clearOf bad t = true → clearOf bad' t = true
  | [], _ => rfl
  | c :: r, ht => by
    simp only [clearOf] at ht ⊢
    split
    · next hc => rw [if_pos hc] at ht; exact clearOf_mono h r ht
    · next hc =>
      rw [if_neg hc] at ht
      simp only [Bool.and_eq_true, Bool.not_eq_true', bne_iff_ne, ne_eq] at ht ⊢
      refine ⟨ht.1, ?_⟩
      cases hb : bad' c with
      | false => rfl
      | true => rw [h c hb] at ht; exact absurd ht.2 (by simp)

theorem headNot_sp_append {f : Char → Bool} (hb : f ' ' = false) (n : Nat) {t : Str} (h : headNot f t = true) :
    headNot f (sp n ++ t) = true := by
  cases n with
  | zero => simpa [sp_zero] using h
  | succ n => simp [sp_succ, headNot, hb]

theorem headNot_of_clearOf {f bad : Char → Bool} (hb : f ' ' = false) (h : ∀ c, f c = true → bad c = true) :
    ∀ t, clearOf bad t = true → headNot f t = true
  | [], _ => rfl
  | c :: r, ht => by
    simp only [clearOf] at ht
    simp only [headNot]
    by_cases hc : (c == ' ') = true
    · have : c = ' ' := by simpa using hc
      subst this; simp [hb]
    · rw [if_neg hc] at ht
      simp only [Bool.and_eq_true, Bool.not_eq_true'] at ht
      cases hf : f c with
      | false => rfl
      | true => rw [h c hf] at ht; exact absurd ht.2 (by simp)

/-! ### `skip` -/

theorem skipWs_sp_append (n : Nat) {t : Str} (h : hardHead t = true) : skipWs (sp n ++ t) = t := by
  induction n with
  | zero =>
    simp only [sp_zero, List.nil_append]
    cases t with
    | nil => rfl
    | cons c r =>
      simp only [hardHead, Bool.and_eq_true, Bool.not_eq_true'] at h
      simp [skipWs, h.1]
  | succ n ih => rw [sp_succ]; simp [skipWs, isWs, ih]

theorem skip_of_hardHead {t : Str} (h : hardHead t = true) (n : Nat) : skip (sp n ++ t) = t := by
  unfold skip
  rw [skipWs_sp_append n h]
  cases t with
  | nil => rfl
  | cons c r =>
    simp only [hardHead, Bool.and_eq_true, bne_iff_ne, ne_eq] at h
    split
    · next heq => cases heq; exact absurd rfl h.2
    · rfl

theorem skip_blank (t : Str) : skip (' ' :: t) = skip t := by
  simp [skip, skipWs, isWs]

/-- what `skip` leaves of a `clearOf` text: nothing, or something that starts with a hard character outside `bad` -/
theorem skip_of_clearOf {bad : Char → Bool} : ∀ t, clearOf bad t = true →
    skip t = [] ∨ ∃ d r, skip t = d :: r ∧ bad d = false
  | [], _ => Or.inl rfl
  | c :: r, ht => by
    simp only [clearOf] at ht
    by_cases hc : (c == ' ') = true
    · have : c = ' ' := by simpa using hc
      subst this
      rw [if_pos hc] at ht
      rw [skip_blank]
      exact skip_of_clearOf r ht
    · rw [if_neg hc] at ht
      simp only [Bool.and_eq_true, Bool.not_eq_true'] at ht
      right
      refine ⟨c, r, ?_, ht.2⟩
      have hh : hardHead (c :: r) = true := by simp [hardHead, ht.1.1, ht.1.2]
      simpa [sp_zero] using skip_of_hardHead hh 0

/-! ### `Literal`, `Word`, `CaselessKeyword` on rendered text -/

theorem dropPrefix_append (p t : Str) : dropPrefix p (p ++ t) = some t := by
  induction p with
  | nil => cases t <;> rfl
  | cons c p ih => simp [dropPrefix, ih]

theorem lit_render (p : Str) (hp : hardHead p = true) (hne : p ≠ []) (n : Nat) (t : Str) :
    lit p (sp n ++ (p ++ t)) = some t := by
  have : hardHead (p ++ t) = true := by
    cases p with
    | nil => exact absurd rfl hne
    | cons c r => simpa [hardHead] using hp
  rw [lit, skip_of_hardHead this, dropPrefix_append]

theorem lit_render1 (c : Char) (hc : (!isWs c && c != '#') = true) (n : Nat) (t : Str) :
    lit [c] (sp n ++ (c :: t)) = some t :=
  lit_render [c] (by simpa [hardHead] using hc) (by simp) n t

theorem lit_render2 (c d : Char) (hc : (!isWs c && c != '#') = true) (n : Nat) (t : Str) :
    lit [c, d] (sp n ++ (c :: d :: t)) = some t :=
  lit_render [c, d] (by simpa [hardHead] using hc) (by simp) n t

/-- a one-character literal fails on a text that is clear of it -/
theorem lit_none_of_clearOf {bad : Char → Bool} {c : Char} (hc : bad c = true) (p : Str) {t : Str}
    (ht : clearOf bad t = true) : lit (c :: p) t = none := by
  rw [lit]
  rcases skip_of_clearOf t ht with h | ⟨d, r, h, hd⟩
  · rw [h]; rfl
  · rw [h]
    have : (d == c) = false := by
      cases hdc : d == c with
      | false => rfl
      | true =>
        have : d = c := by simpa using hdc
        subst this; rw [hc] at hd; exact absurd hd (by simp)
    simp [dropPrefix, this]

theorem word_none_of_clearOf {bad init : Char → Bool} (body : Char → Bool) (hi : ∀ c, init c = true → bad c = true)
    {t : Str} (ht : clearOf bad t = true) : word init body t = none := by
  rw [word]
  rcases skip_of_clearOf t ht with h | ⟨d, r, h, hd⟩
  · rw [h]
  · rw [h]
    have : init d = false := by
      cases hid : init d with
      | false => rfl
      | true => rw [hi d hid] at hd; exact absurd hd (by simp)
    simp [this]

theorem word_render (init body : Char → Bool) (c : Char) (r t : Str) (n : Nat)
    (hc : init c = true) (hh : (!isWs c && c != '#') = true) (hr : r.all body = true)
    (ht : headNot body t = true) : word init body (sp n ++ (c :: r ++ t)) = some (c :: r, t) := by
  have hhard : hardHead (c :: r ++ t) = true := by simpa [hardHead] using hh
  rw [word, skip_of_hardHead hhard]
  simp only [List.cons_append, hc, if_true]
  have hall : ∀ a, a ∈ r → body a = true := by simpa [List.all_eq_true] using hr
  rw [List.takeWhile_append_of_pos hall, List.dropWhile_append_of_pos hall]
  cases t with
  | nil => simp
  | cons d u =>
    simp only [headNot, Bool.not_eq_true'] at ht
    simp [ht]

/-! ### character classes -/

theorem isVar0_hard {c : Char} (h : isVar0 c = true) : (!isWs c && c != '#') = true := by
  simp only [isVar0] at h
  simp only [isWs, Bool.and_eq_true, Bool.not_eq_true', Bool.or_eq_false_iff, bne_iff_ne, ne_eq, beq_eq_false_iff_ne]
  refine ⟨⟨?_, ?_⟩, ?_⟩ <;> (rintro rfl; exact absurd h (by decide))

theorem isPathC_hard {c : Char} (h : isPathC c = true) : (!isWs c && c != '#') = true := by
  simp only [isWs, Bool.and_eq_true, Bool.not_eq_true', Bool.or_eq_false_iff, bne_iff_ne, ne_eq, beq_eq_false_iff_ne]
  refine ⟨⟨?_, ?_⟩, ?_⟩ <;> (rintro rfl; exact absurd h (by decide))

theorem isVar0_isVarC {c : Char} (h : isVar0 c = true) : isVarC c = true := by
  simp only [isVar0] at h
  simp [isVarC, Char.isAlphanum, h]

theorem isVarC_isPathC {c : Char} (h : isVarC c = true) : isPathC c = true := by
  simp only [isVarC, Bool.or_eq_true, beq_iff_eq] at h
  simp only [isPathC, Bool.or_eq_true, beq_iff_eq]
  rcases h with h | h
  · simp [h]
  · simp [h]

theorem nameOk_cases {n : String} (h : nameOk n = true) :
    ∃ c r, n.toList = c :: r ∧ isVar0 c = true ∧ r.all isVarC = true := by
  unfold nameOk at h
  split at h
  · next c r heq => exact ⟨c, r, heq, by simpa using h⟩
  · exact absurd h (by simp)

theorem pathOk_cases {p : String} (h : pathOk p = true) :
    ∃ c r, p.toList = c :: r ∧ isPathC c = true ∧ r.all isPathC = true := by
  unfold pathOk at h
  cases hp : p.toList with
  | nil => rw [hp] at h; exact absurd h (by simp)
  | cons c r => rw [hp] at h; exact ⟨c, r, rfl, by simpa using h⟩

theorem var_render {n : String} (hn : nameOk n = true) (k : Nat) {t : Str} (ht : headNot isVarC t = true) :
    var (sp k ++ (n.toList ++ t)) = some (n.toList, t) := by
  obtain ⟨c, r, heq, hc, hr⟩ := nameOk_cases hn
  rw [heq]
  exact word_render isVar0 isVarC c r t k hc (isVar0_hard hc) hr ht

theorem path_render {p : String} (hp : pathOk p = true) (k : Nat) {t : Str} (ht : headNot isPathC t = true) :
    path (sp k ++ (p.toList ++ t)) = some (p.toList, t) := by
  obtain ⟨c, r, heq, hc, hr⟩ := pathOk_cases hp
  rw [heq]
  exact word_render isPathC isPathC c r t k hc (isPathC_hard hc) hr ht

theorem kw_render (k : Str) (hk : hardHead k = true) (hne : k ≠ []) (n : Nat) (t : Str)
    (ht : headNot isIdent t = true) : kw k (sp n ++ (k ++ t)) = some t := by
  have hh : hardHead (k ++ t) = true := by
    cases k with
    | nil => exact absurd rfl hne
    | cons c r => simpa [hardHead] using hk
  unfold kw
  simp only [skip_of_hardHead hh, List.take_left' rfl, List.drop_left' rfl, beq_self_eq_true, if_true]
  cases t with
  | nil => rfl
  | cons c r =>
    simp only [headNot, Bool.not_eq_true'] at ht
    simp [ht]

/-! ### `ZeroOrMore(Suppress(delim) + item)` on a rendered list -/

/-- the text of list elements `i, i+1, …`, each with the delimiter in front of it -/
def chunks {α : Type} (seg : Nat → α → Str) : Nat → List α → Str
  | _, [] => []
  | i, x :: xs => seg i x ++ chunks seg (i + 1) xs

theorem more_render {α : Type} (delim : Str) (item : Str → Option (α × Str)) (P : α → Prop) (Q : Str → Prop)
    (seg : Nat → α → Str)
    (hstep : ∀ i x u, P x → Q u → ∃ v, lit delim (seg i x ++ u) = some v ∧ item v = some (x, u))
    (hpos : ∀ i x, 0 < (seg i x).length)
    (hQ : ∀ i x u, Q u → Q (seg i x ++ u))
    (t : Str) (hQt : Q t) (hstop : lit delim t = none) :
    ∀ (xs : List α) (i fuel : Nat), (∀ x ∈ xs, P x) → (chunks seg i xs ++ t).length < fuel →
      more delim item fuel (chunks seg i xs ++ t) = (xs, t) ∧ Q (chunks seg i xs ++ t) := by
  intro xs
  induction xs with
  | nil =>
    intro i fuel _ hf
    simp only [chunks, List.nil_append]
    refine ⟨?_, hQt⟩
    cases fuel with
    | zero => rfl
    | succ f => simp [more, hstop]
  | cons x xs ih =>
    intro i fuel hP hf
    have hPx : P x := hP x (by simp)
    have hPxs : ∀ y ∈ xs, P y := fun y hy => hP y (by simp [hy])
    simp only [chunks, List.append_assoc] at hf ⊢
    cases fuel with
    | zero => exact absurd hf (by omega)
    | succ f =>
      have hlen : (chunks seg (i + 1) xs ++ t).length < f := by
        have := hpos i x
        simp only [List.length_append] at hf ⊢
        omega
      obtain ⟨hm, hq⟩ := ih (i + 1) f hPxs hlen
      obtain ⟨v, hv1, hv2⟩ := hstep i x _ hPx hq
      refine ⟨?_, hQ i x _ hq⟩
      simp [more, hv1, hv2, hm]

theorem list1_render {α : Type} (delim : Str) (item : Str → Option (α × Str)) (P : α → Prop) (Q : Str → Prop)
    (seg : Nat → α → Str)
    (hstep : ∀ i x u, P x → Q u → ∃ v, lit delim (seg i x ++ u) = some v ∧ item v = some (x, u))
    (hpos : ∀ i x, 0 < (seg i x).length)
    (hQ : ∀ i x u, Q u → Q (seg i x ++ u))
    (t : Str) (hQt : Q t) (hstop : lit delim t = none)
    (first : Str) (x : α) (xs : List α) (i : Nat) (hP : ∀ y ∈ xs, P y)
    (hfirst : ∀ u, Q u → item (first ++ u) = some (x, u)) :
    list1 delim item (first ++ (chunks seg i xs ++ t)) = some (x :: xs, t) := by
  obtain ⟨hm, hq⟩ := more_render delim item P Q seg hstep hpos hQ t hQt hstop xs i _ hP (Nat.lt_succ_self _)
  unfold list1
  rw [hfirst _ hq]
  simp only [Nat.succ_eq_add_one] at hm
  simp only [hm]

/-! ### signals -/

def sigBad (c : Char) : Bool := c == '*' || c == '+' || isVarC c
def starBad (c : Char) : Bool := c == '*' || isVarC c

theorem signal_render (g : SigGap) (r : SigRef) (hr : nameOk r.name = true) (k : Nat) {t : Str}
    (ht : clearOf starBad t = true) : signal (sp k ++ (renderSigW g r ++ t)) = some (r, t) := by
  obtain ⟨n, st⟩ := r
  simp only at hr
  cases st with
  | false =>
    have h1 : headNot isVarC t = true :=
      headNot_of_clearOf (by decide) (fun c hc => by simp [starBad, hc]) t ht
    have h2 : lit ['*'] t = none := lit_none_of_clearOf (bad := starBad) (by decide) [] ht
    simp [signal, renderSigW, var_render hr k h1, h2, String.ofList_toList]
  | true =>
    have h1 : headNot isVarC (sp g.star ++ ('*' :: t)) = true :=
      headNot_sp_append (by decide) _ (by simp [headNot]; decide)
    have h2 : lit ['*'] (sp g.star ++ ('*' :: t)) = some t := lit_render1 '*' (by decide) _ t
    simp [signal, renderSigW, List.append_assoc, var_render hr k h1, h2, String.ofList_toList]

/-- `+ sig` for the signal after position `i` -/
def sigSeg (G : Nat → SigGap) (i : Nat) (r : SigRef) : Str :=
  sp (G i).plusL ++ ('+' :: (sp (G i).plusR ++ renderSigW (G (i + 1)) r))

theorem renderSigsW_cons (G : Nat → SigGap) : ∀ (l : List SigRef) (i : Nat) (r : SigRef),
    renderSigsW G i (r :: l) = renderSigW (G i) r ++ chunks (sigSeg G) i l
  | [], i, r => by simp [renderSigsW, chunks]
  | r2 :: l, i, r => by
    rw [renderSigsW, renderSigsW_cons G l (i + 1) r2]
    simp [chunks, sigSeg, List.append_assoc]

theorem renderSigW_length_pos (g : SigGap) (r : SigRef) (hr : nameOk r.name = true) : 0 < (renderSigW g r).length := by
  obtain ⟨c, rr, heq, _⟩ := nameOk_cases hr
  simp [renderSigW, heq]

theorem signalList_nil {t : Str} (ht : clearOf sigBad t = true) : signalList t = ([], t) := by
  have : signal t = none := by
    have : var t = none := word_none_of_clearOf (bad := sigBad) isVarC
      (fun c hc => by simp [sigBad, isVar0_isVarC hc]) ht
    simp [signal, this]
  simp [signalList, listOf, list1, this]

theorem signalList_cons (G : Nat → SigGap) (r : SigRef) (l : List SigRef) (i k : Nat) {t : Str}
    (hl : sigsOk (r :: l) = true) (ht : clearOf sigBad t = true) :
    signalList (sp k ++ (renderSigsW G i (r :: l) ++ t)) = (r :: l, t) := by
  have hl' : ∀ x, x ∈ r :: l → nameOk x.name = true := by simpa [sigsOk, List.all_eq_true] using hl
  have hst : clearOf starBad t = true := clearOf_mono (fun c hc => by
    simp only [starBad, Bool.or_eq_true] at hc
    simp only [sigBad, Bool.or_eq_true]
    rcases hc with hc | hc
    · exact Or.inl (Or.inl hc)
    · exact Or.inr hc) t ht
  have key := list1_render ['+'] signal (fun x => nameOk x.name = true) (fun u => clearOf starBad u = true)
    (sigSeg G)
    (fun j x u hx hu => ⟨sp (G j).plusR ++ (renderSigW (G (j + 1)) x ++ u), by
      simp only [sigSeg, List.append_assoc, List.cons_append]
      exact lit_render1 '+' (by decide) _ _, signal_render _ x hx _ hu⟩)
    (fun j x => by simp [sigSeg]; omega)
    (fun j x u _ => by
      simp only [sigSeg, List.append_assoc, List.cons_append, clearOf_sp_append]
      simp [clearOf]; decide)
    t hst (lit_none_of_clearOf (bad := sigBad) (by decide) [] ht)
    (sp k ++ renderSigW (G i) r) r l i (fun y hy => hl' y (by simp [hy]))
    (fun u hu => by
      rw [List.append_assoc]
      exact signal_render _ r (hl' r (by simp)) k hu)
  rw [renderSigsW_cons]
  simp only [signalList, listOf, List.append_assoc] at key ⊢
  rw [key]

/-- a signal list between blanks: what is left starts, after blanks, with `t'` -/
theorem signalList_render (G : Nat → SigGap) (l : List SigRef) (k a : Nat) {t' : Str} (hl : sigsOk l = true)
    (ht : clearOf sigBad t' = true) :
    ∃ m, signalList (sp k ++ (renderSigsW G 0 l ++ (sp a ++ t'))) = (l, sp m ++ t') := by
  cases l with
  | nil =>
    refine ⟨k + a, ?_⟩
    simp only [renderSigsW, List.nil_append, sp_append]
    exact signalList_nil (by simpa using ht)
  | cons r l => exact ⟨a, signalList_cons G r l 0 k hl (by simpa using ht)⟩

/-! ### `parseAll` -/

theorem endOk_sp (dw : Str) (n : Nat) : endOk dw (sp n) = true := by
  have : skip (sp n ++ []) = [] := skip_of_hardHead (t := []) rfl n
  simp only [List.append_nil] at this
  simp [endOk, this]

/-! ### `: ins -> outs` -/

theorem io_render (dw : Str) (L : Layout) (ins outs : List SigRef) (hi : sigsOk ins = true) (ho : sigsOk outs = true)
    (n : Nat) :
    ∃ r6 r7 r8 r9, lit [':'] (renderIOW L ins outs ++ sp n) = some r6 ∧ signalList r6 = (ins, r7) ∧
      lit ['-', '>'] r7 = some r8 ∧ signalList r8 = (outs, r9) ∧ endOk dw r9 = true := by
  simp only [renderIOW, List.append_assoc, List.cons_append, List.nil_append]
  obtain ⟨m, hm⟩ := signalList_render L.inGap ins L.colonR L.arrowL
    (t' := '-' :: '>' :: ((if outs.isEmpty = true then [] else sp L.arrowR ++ renderSigsW L.outGap 0 outs) ++ sp n)) hi
    (by simp [clearOf]; decide)
  refine ⟨_, _, _, sp n, lit_render1 ':' (by decide) _ _, hm, lit_render2 '-' '>' (by decide) _ _, ?_⟩
  cases outs with
  | nil =>
    simp only [List.isEmpty_nil, if_true, List.nil_append]
    exact ⟨signalList_nil (by simp), endOk_sp dw n⟩
  | cons r l =>
    simp only [List.isEmpty_cons, Bool.false_eq_true, if_false, List.append_assoc]
    exact ⟨signalList_cons L.outGap r l 0 L.arrowR ho (by simp), endOk_sp dw n⟩

/-! ### comma-separated words: the parameter list of `declare` -/

def commaSeg (L : Layout) (left : Bool) (i : Nat) (w : Str) : Str :=
  sp (if left then L.commaL i else 0) ++ (',' :: (sp (L.commaR i) ++ w))

theorem renderCommaW_cons (L : Layout) (left : Bool) : ∀ (ws : List Str) (i : Nat) (w : Str),
    renderCommaW L left i (w :: ws) = w ++ chunks (commaSeg L left) i ws
  | [], i, w => by simp [renderCommaW, chunks]
  | w2 :: ws, i, w => by
    rw [renderCommaW, renderCommaW_cons L left ws (i + 1) w2]
    simp [chunks, commaSeg, List.append_assoc]

def parBad (c : Char) : Bool := c == '('

theorem declParams_render (L : Layout) (ps : List String) (hp : ps.all nameOk = true) {t : Str}
    (ht : clearOf parBad t = true) :
    declParams (renderParensW L true (ps.map String.toList) ++ t) = (ps, t) := by
  unfold renderParensW
  by_cases hE : ((ps.map String.toList).isEmpty && !L.emptyParens) = true
  · -- nothing written
    have hnil : ps = [] := by
      cases ps with
      | nil => rfl
      | cons a b => simp at hE
    subst hnil
    simp only [hE, if_true, List.nil_append]
    simp [declParams, lit_none_of_clearOf (bad := parBad) (c := '(') rfl [] ht]
  · simp only [hE, Bool.false_eq_true, if_false, List.append_assoc, List.cons_append, List.nil_append, if_true]
    have hopen : ∀ X, lit ['('] (sp L.parL ++ ('(' :: X)) = some X := fun X => lit_render1 '(' (by decide) _ _
    have hclose : lit [')'] (sp L.parOut ++ (')' :: t)) = some t := lit_render1 ')' (by decide) _ _
    cases ps with
    | nil =>
      simp only [List.map_nil, renderCommaW, List.nil_append, sp_append]
      have hv : listOf [','] var (sp (L.parIn + L.parOut) ++ (')' :: t)) = ([], sp (L.parIn + L.parOut) ++ (')' :: t)) := by
        have : var (sp (L.parIn + L.parOut) ++ (')' :: t)) = none :=
          word_none_of_clearOf (bad := isVarC) isVarC (fun c hc => isVar0_isVarC hc) (by simp [clearOf]; decide)
        simp [listOf, list1, this]
      have hclose' : lit [')'] (sp (L.parIn + L.parOut) ++ (')' :: t)) = some t := lit_render1 ')' (by decide) _ _
      simp [declParams, hopen, hv, hclose']
    | cons p ps =>
      have hp' : ∀ x, x ∈ p :: ps → nameOk x = true := by simpa [List.all_eq_true] using hp
      have hQt : headNot isVarC (sp L.parOut ++ (')' :: t)) = true :=
        headNot_sp_append (by decide) _ (by simp [headNot]; decide)
      have key := list1_render [','] var (fun w => ∃ n : String, nameOk n = true ∧ w = n.toList)
        (fun u => headNot isVarC u = true) (commaSeg L true)
        (fun j x u hx hu => by
          obtain ⟨n, hn, rfl⟩ := hx
          refine ⟨sp (L.commaR j) ++ (n.toList ++ u), ?_, var_render hn _ hu⟩
          simp only [commaSeg, if_true, List.append_assoc, List.cons_append]
          exact lit_render1 ',' (by decide) _ _)
        (fun j x => by simp [commaSeg]; omega)
        (fun j x u _ => by
          simp only [commaSeg, if_true, List.append_assoc, List.cons_append]
          exact headNot_sp_append (by decide) _ (by simp [headNot]; decide))
        (sp L.parOut ++ (')' :: t)) hQt
        (lit_none_of_clearOf (bad := fun c => c == ',') (c := ',') rfl [] (by simp [clearOf]; decide))
        (sp L.parIn ++ p.toList) p.toList (ps.map String.toList) 0
        (fun y hy => by
          obtain ⟨n, hn, rfl⟩ := List.mem_map.1 hy
          exact ⟨n, hp' n (by simp [hn]), rfl⟩)
        (fun u hu => by
          rw [List.append_assoc]
          exact var_render (hp' p (by simp)) _ hu)
      simp only [List.map_cons, renderCommaW_cons, List.append_assoc] at key ⊢
      simp [declParams, hopen, listOf, key, hclose, String.ofList_toList]

/-! ### template arguments (each spelled `1`) -/

def argTail (L : Layout) : Nat → Nat → Str
  | _, 0 => []
  | i, n + 1 => ',' :: (sp (L.commaR i) ++ ('1' :: argTail L (i + 1) n))

theorem renderCommaW_args (L : Layout) : ∀ (n i : Nat),
    renderCommaW L false i (List.replicate (n + 1) ['1']) = '1' :: argTail L i n
  | 0, i => by simp [renderCommaW, argTail]
  | n + 1, i => by
    rw [List.replicate_succ, List.replicate_succ, renderCommaW, ← List.replicate_succ, renderCommaW_args L n (i + 1)]
    simp [argTail, sp_zero]

theorem pyObj_one (k : Nat) {t : Str} (ht : headNot isPyC t = true) : pyObj (sp k ++ ('1' :: t)) = .ok (some t) := by
  have := word_render isPy0 isPyC '1' [] t k (by decide) (by decide) rfl ht
  simp only [List.cons_append, List.nil_append] at this
  have hv : argVerdict ['1'] = .ok := by decide
  simp [pyObj, this, hv]

def commaBad (c : Char) : Bool := c == ','

theorem pyMore_render (L : Layout) {t : Str} (ht : headNot isPyC t = true) (hstop : lit [','] t = none) :
    ∀ (n i fuel : Nat), (argTail L i n ++ t).length < fuel →
      pyMore fuel (argTail L i n ++ t) = .ok (n, t) ∧ headNot isPyC (argTail L i n ++ t) = true
  | 0, i, fuel, _ => by
    simp only [argTail, List.nil_append]
    refine ⟨?_, ht⟩
    cases fuel with
    | zero => rfl
    | succ f => simp [pyMore, hstop]
  | n + 1, i, fuel, hf => by
    simp only [argTail, List.cons_append, List.append_assoc] at hf ⊢
    cases fuel with
    | zero => exact absurd hf (by omega)
    | succ f =>
      have hlen : (argTail L (i + 1) n ++ t).length < f := by
        simp only [List.length_cons, List.length_append] at hf ⊢
        omega
      obtain ⟨hm, hq⟩ := pyMore_render L ht hstop n (i + 1) f hlen
      have h1 : lit [','] (',' :: (sp (L.commaR i) ++ ('1' :: (argTail L (i + 1) n ++ t)))) =
          some (sp (L.commaR i) ++ ('1' :: (argTail L (i + 1) n ++ t))) := by
        have := lit_render1 ',' (by decide) 0 (sp (L.commaR i) ++ ('1' :: (argTail L (i + 1) n ++ t)))
        simpa [sp_zero] using this
      refine ⟨?_, by simp [headNot]; decide⟩
      simp [pyMore, h1, pyObj_one _ hq, hm]

theorem componentParams_render (L : Layout) (n : Nat) {t : Str} (ht : clearOf parBad t = true) :
    componentParams (renderParensW L false (List.replicate n ['1']) ++ t) = .ok (n, t) := by
  unfold renderParensW
  have hopen : ∀ X, lit ['('] (sp L.parL ++ ('(' :: X)) = some X := fun X => lit_render1 '(' (by decide) _ _
  have hstopc : lit [','] (')' :: t) = none :=
    lit_none_of_clearOf (bad := commaBad) (c := ',') rfl [] (by simp [clearOf]; decide)
  have hclose : lit [')'] (')' :: t) = some t := by
    have := lit_render1 ')' (by decide) 0 t
    simpa [sp_zero] using this
  cases n with
  | zero =>
    by_cases hE : L.emptyParens = true
    · simp only [List.replicate_zero, List.isEmpty_nil, hE, Bool.not_true, Bool.and_false, Bool.false_eq_true, if_false,
        renderCommaW, List.append_assoc, List.cons_append, List.nil_append, sp_zero]
      have hobj : pyObj (sp L.parIn ++ (')' :: t)) = .ok none := by
        have : word isPy0 isPyC (sp L.parIn ++ (')' :: t)) = none :=
          word_none_of_clearOf (bad := isPy0) isPyC (fun c hc => hc) (by simp [clearOf]; decide)
        simp [pyObj, this]
      have hclose' : lit [')'] (sp L.parIn ++ (')' :: t)) = some t := lit_render1 ')' (by decide) _ _
      simp [componentParams, hopen, pyList, hobj, hclose']
    · have hE' : L.emptyParens = false := by simpa using hE
      simp only [List.replicate_zero, List.isEmpty_nil, hE', Bool.not_false, Bool.and_self, if_true, List.nil_append]
      simp [componentParams, lit_none_of_clearOf (bad := parBad) (c := '(') rfl [] ht]
  | succ m =>
    simp only [List.replicate_succ, List.isEmpty_cons, Bool.false_and, Bool.false_eq_true, if_false]
    rw [← List.replicate_succ, renderCommaW_args]
    simp only [List.append_assoc, List.cons_append, List.nil_append, sp_zero]
    obtain ⟨hm, hq⟩ := pyMore_render L (t := ')' :: t) (by simp [headNot]; decide) hstopc m 0 _ (Nat.lt_succ_self _)
    simp only [Nat.succ_eq_add_one] at hm
    unfold componentParams
    rw [hopen]
    simp only [pyList, pyObj_one _ hq]
    rw [hm]
    simp [hclose]

/-! ### import items -/

theorem importItem_render (L : Layout) (i : Nat) (it : String × Option String) (k : Nat) (hit : itemOk it = true)
    {u : Str} (hu : clearOf isPathC u = true) :
    importItem (sp k ++ (renderItemW L i it ++ u)) = some (it, u) := by
  obtain ⟨p, a⟩ := it
  cases a with
  | none =>
    have hp : pathOk p = true := by simpa [itemOk] using hit
    have h1 : headNot isPathC u = true := headNot_of_clearOf (by decide) (fun c hc => hc) u hu
    have h2 : lit ['a', 's'] u = none := lit_none_of_clearOf (bad := isPathC) (c := 'a') (by decide) ['s'] hu
    simp [importItem, renderItemW, path_render hp k h1, h2, String.ofList_toList]
  | some a =>
    have hp : pathOk p = true ∧ nameOk a = true := by simpa [itemOk] using hit
    have h0 : headNot isVarC u = true :=
      headNot_of_clearOf (by decide) (fun c hc => isVarC_isPathC hc) u hu
    have h1 : headNot isPathC (sp (L.asL i + 1) ++ ('a' :: 's' :: (sp (L.asR i) ++ (a.toList ++ u)))) = true := by
      simp [sp_succ, headNot]; decide
    have h2 : lit ['a', 's'] (sp (L.asL i + 1) ++ ('a' :: 's' :: (sp (L.asR i) ++ (a.toList ++ u)))) =
        some (sp (L.asR i) ++ (a.toList ++ u)) := lit_render2 'a' 's' (by decide) _ _
    simp only [renderItemW, List.append_assoc, List.cons_append, List.nil_append]
    simp [importItem, path_render hp.1 k h1, h2, var_render hp.2 _ h0, String.ofList_toList]

def itemSeg (L : Layout) (i : Nat) (it : String × Option String) : Str :=
  sp (L.commaL i) ++ (',' :: (sp (L.commaR i) ++ renderItemW L (i + 1) it))

theorem renderItemsW_cons (L : Layout) : ∀ (l : List (String × Option String)) (i : Nat) (it : String × Option String),
    renderItemsW L i (it :: l) = renderItemW L i it ++ chunks (itemSeg L) i l
  | [], i, it => by simp [renderItemsW, chunks]
  | it2 :: l, i, it => by
    rw [renderItemsW, renderItemsW_cons L l (i + 1) it2]
    simp [chunks, itemSeg, List.append_assoc]

def itemsBad (c : Char) : Bool := c == ',' || isPathC c

theorem items_render (L : Layout) (it : String × Option String) (l : List (String × Option String)) (k : Nat) {t : Str}
    (hok : (it :: l).all itemOk = true) (ht : clearOf itemsBad t = true) :
    list1 [','] importItem (sp k ++ (renderItemsW L 0 (it :: l) ++ t)) = some (it :: l, t) := by
  have hok' : ∀ x, x ∈ it :: l → itemOk x = true := by simpa [List.all_eq_true] using hok
  have hQt : clearOf isPathC t = true := clearOf_mono (fun c hc => by simp [itemsBad, hc]) t ht
  have key := list1_render [','] importItem (fun x => itemOk x = true) (fun u => clearOf isPathC u = true)
    (itemSeg L)
    (fun j x u hx hu => ⟨sp (L.commaR j) ++ (renderItemW L (j + 1) x ++ u), by
      simp only [itemSeg, List.append_assoc, List.cons_append]
      exact lit_render1 ',' (by decide) _ _, importItem_render L (j + 1) x _ hx hu⟩)
    (fun j x => by simp [itemSeg]; omega)
    (fun j x u _ => by
      simp only [itemSeg, List.append_assoc, List.cons_append, clearOf_sp_append]
      simp [clearOf]; decide)
    t hQt (lit_none_of_clearOf (bad := itemsBad) (c := ',') rfl [] ht)
    (sp k ++ renderItemW L 0 it) it l 0 (fun y hy => hok' y (by simp [hy]))
    (fun u hu => by
      rw [List.append_assoc]
      exact importItem_render L 0 it k (hok' it (by simp)) hu)
  rw [renderItemsW_cons]
  simp only [List.append_assoc] at key ⊢
  exact key

/-! ### tabs, comments, `strip` -/

/-- no tab, no `#`, no newline -/
def plain (s : Str) : Bool := s.all (fun c => c != '\t' && c != '#' && c != '\n')

@[simp] theorem plain_nil : plain [] = true := rfl
@[simp] theorem plain_append (a b : Str) : plain (a ++ b) = (plain a && plain b) := by simp [plain, List.all_append]
@[simp] theorem plain_cons (c : Char) (r : Str) : plain (c :: r) = ((c != '\t' && c != '#' && c != '\n') && plain r) := by
  simp [plain]
@[simp] theorem plain_sp (n : Nat) : plain (sp n) = true := by
  simp only [plain, sp, List.all_eq_true]
  intro c hc
  have := List.eq_of_mem_replicate hc
  subst this; decide

theorem expandTabs_plain : ∀ (s : Str) (col : Nat), plain s = true → expandTabs s col = s
  | [], _, _ => rfl
  | c :: r, col, h => by
    simp only [plain_cons, Bool.and_eq_true, bne_iff_ne, ne_eq] at h
    have h1 : (c == '\t') = false := by simpa using h.1.1.1
    simp only [expandTabs, h1, Bool.false_eq_true, if_false]
    split <;> simp [expandTabs_plain r _ h.2]

theorem subCommentAux_plain : ∀ (s : Str), plain s = true → subCommentAux s none = s
  | [], _ => rfl
  | c :: r, h => by
    simp only [plain_cons, Bool.and_eq_true, bne_iff_ne, ne_eq] at h
    have h1 : (c == '#') = false := by simpa using h.1.1.2
    simp [subCommentAux, h1, subCommentAux_plain r h.2]

theorem isVarC_plain {c : Char} (h : isVarC c = true) : (c != '\t' && c != '#' && c != '\n') = true := by
  simp only [Bool.and_eq_true, bne_iff_ne, ne_eq]
  refine ⟨⟨?_, ?_⟩, ?_⟩ <;> (rintro rfl; exact absurd h (by decide))

theorem isPathC_plain {c : Char} (h : isPathC c = true) : (c != '\t' && c != '#' && c != '\n') = true := by
  simp only [Bool.and_eq_true, bne_iff_ne, ne_eq]
  refine ⟨⟨?_, ?_⟩, ?_⟩ <;> (rintro rfl; exact absurd h (by decide))

theorem isPathC_notSp {c : Char} (h : isPathC c = true) : isSp c = false := by
  cases hs : isSp c with
  | false => rfl
  | true =>
    simp only [isSp, Bool.or_eq_true, beq_iff_eq] at hs
    rcases hs with ((((((((rfl | rfl) | rfl) | rfl) | rfl) | rfl) | rfl) | rfl) | rfl) | rfl <;>
      exact absurd h (by decide)

theorem nameOk_all {n : String} (h : nameOk n = true) : ∀ c ∈ n.toList, isVarC c = true := by
  obtain ⟨c, r, heq, hc, hr⟩ := nameOk_cases h
  rw [heq]
  intro d hd
  rcases List.mem_cons.1 hd with rfl | hd
  · exact isVar0_isVarC hc
  · exact (List.all_eq_true.1 hr) d hd

theorem pathOk_all {p : String} (h : pathOk p = true) : ∀ c ∈ p.toList, isPathC c = true := by
  obtain ⟨c, r, heq, hc, hr⟩ := pathOk_cases h
  rw [heq]
  intro d hd
  rcases List.mem_cons.1 hd with rfl | hd
  · exact hc
  · exact (List.all_eq_true.1 hr) d hd

theorem plain_name {n : String} (h : nameOk n = true) : plain n.toList = true := by
  simp only [plain, List.all_eq_true]
  exact fun c hc => isVarC_plain (nameOk_all h c hc)

theorem plain_path {p : String} (h : pathOk p = true) : plain p.toList = true := by
  simp only [plain, List.all_eq_true]
  exact fun c hc => isPathC_plain (pathOk_all h c hc)

theorem plain_chunks {α : Type} (seg : Nat → α → Str) (P : α → Prop) (h : ∀ i x, P x → plain (seg i x) = true) :
    ∀ (xs : List α) (i : Nat), (∀ x ∈ xs, P x) → plain (chunks seg i xs) = true
  | [], _, _ => rfl
  | x :: xs, i, hP => by
    simp [chunks, h i x (hP x (by simp)), plain_chunks seg P h xs (i + 1) (fun y hy => hP y (by simp [hy]))]

/-- the last character is not white space -/
def lastHard (y : Str) : Bool :=
  match y.reverse with
  | d :: _ => !isSp d
  | [] => false

theorem lastHard_append (a : Str) {b : Str} (h : lastHard b = true) : lastHard (a ++ b) = true := by
  unfold lastHard at h ⊢
  rw [List.reverse_append]
  cases hb : b.reverse with
  | nil => rw [hb] at h; exact absurd h (by simp)
  | cons d r => rw [hb] at h; simpa using h

theorem lastHard_of_all {s : Str} (hne : s ≠ []) (h : ∀ c ∈ s, isSp c = false) : lastHard s = true := by
  unfold lastHard
  cases hr : s.reverse with
  | nil => exact absurd (List.reverse_eq_nil_iff.1 hr) hne
  | cons d r =>
    have : d ∈ s := by
      have : d ∈ s.reverse := by rw [hr]; simp
      simpa using this
    simp [h d this]

theorem lastHard_name {n : String} (h : nameOk n = true) : lastHard n.toList = true := by
  obtain ⟨c, r, heq, _⟩ := nameOk_cases h
  exact lastHard_of_all (by rw [heq]; simp) (fun c hc => isPathC_notSp (isVarC_isPathC (nameOk_all h c hc)))

theorem lastHard_path {p : String} (h : pathOk p = true) : lastHard p.toList = true := by
  obtain ⟨c, r, heq, _⟩ := pathOk_cases h
  exact lastHard_of_all (by rw [heq]; simp) (fun c hc => isPathC_notSp (pathOk_all h c hc))

theorem lastHard_chunks {α : Type} (seg : Nat → α → Str) (P : α → Prop) (h : ∀ i x, P x → lastHard (seg i x) = true) :
    ∀ (xs : List α) (i : Nat), xs ≠ [] → (∀ x ∈ xs, P x) → lastHard (chunks seg i xs) = true
  | [], _, hne, _ => absurd rfl hne
  | [x], i, _, hP => by simpa [chunks] using h i x (hP x (by simp))
  | x :: y :: xs, i, _, hP => by
    rw [chunks]
    exact lastHard_append _ (lastHard_chunks seg P h (y :: xs) (i + 1) (by simp) (fun z hz => hP z (by simp [hz])))

theorem lastHard_first_chunks {α : Type} (seg : Nat → α → Str) (P : α → Prop)
    (h : ∀ i x, P x → lastHard (seg i x) = true) (first : Str) (hf : lastHard first = true) (xs : List α) (i : Nat)
    (hP : ∀ x ∈ xs, P x) : lastHard (first ++ chunks seg i xs) = true := by
  cases xs with
  | nil => simpa [chunks] using hf
  | cons x xs => exact lastHard_append _ (lastHard_chunks seg P h (x :: xs) i (by simp) hP)

/-- blanks, a text with hard ends and neither tab nor `#`, blanks: `load_system` sees the text -/
theorem cleanLine_render (a b : Nat) (c : Char) (r : Str) (hc : isSp c = false) (hl : lastHard (c :: r) = true)
    (hp : plain (c :: r) = true) : cleanLine (sp a ++ (c :: r ++ sp b)) = c :: r := by
  have hsp : ∀ n, ∀ x ∈ sp n, isSp x = true := by
    intro n x hx
    have := List.eq_of_mem_replicate hx
    subst this; rfl
  have hplain : plain (sp a ++ (c :: r ++ sp b)) = true := by
    rw [plain_append, plain_append]; simp [hp]
  rw [cleanLine, subComment, subCommentAux_plain _ hplain, strip, lstrip,
    List.dropWhile_append_of_pos (hsp a)]
  simp only [List.cons_append, List.dropWhile_cons, hc, Bool.false_eq_true, if_false]
  rw [rstrip]
  have : (c :: (r ++ sp b)).reverse = (sp b).reverse ++ (c :: r).reverse := by simp
  rw [this, List.dropWhile_append_of_pos (fun x hx => hsp b x (by simpa using hx))]
  unfold lastHard at hl
  cases hrev : (c :: r).reverse with
  | nil => rw [hrev] at hl; exact absurd hl (by simp)
  | cons d u =>
    rw [hrev] at hl
    have hd : isSp d = false := by simpa using hl
    simp only [List.dropWhile_cons, hd, Bool.false_eq_true, if_false]
    rw [← hrev, List.reverse_reverse]

/-! ### the rendered pieces are plain and end hard -/

theorem plain_renderSigW (g : SigGap) (r : SigRef) (h : nameOk r.name = true) : plain (renderSigW g r) = true := by
  unfold renderSigW
  split <;> simp [plain_name h]

theorem lastHard_renderSigW (g : SigGap) (r : SigRef) (h : nameOk r.name = true) : lastHard (renderSigW g r) = true := by
  unfold renderSigW
  split
  · exact lastHard_append _ (lastHard_append _ (by decide))
  · simpa using lastHard_name h

theorem plain_sigSeg (G : Nat → SigGap) (i : Nat) (r : SigRef) (h : nameOk r.name = true) : plain (sigSeg G i r) = true := by
  simp [sigSeg, plain_renderSigW _ r h]

theorem lastHard_sigSeg (G : Nat → SigGap) (i : Nat) (r : SigRef) (h : nameOk r.name = true) :
    lastHard (sigSeg G i r) = true :=
  lastHard_append _ (lastHard_append ['+'] (lastHard_append _ (lastHard_renderSigW _ r h)))

theorem sigsOk_mem {l : List SigRef} (h : sigsOk l = true) : ∀ x ∈ l, nameOk x.name = true := by
  simpa [sigsOk, List.all_eq_true] using h

theorem plain_renderSigsW (G : Nat → SigGap) (i : Nat) (l : List SigRef) (h : sigsOk l = true) :
    plain (renderSigsW G i l) = true := by
  cases l with
  | nil => rfl
  | cons r l =>
    have hm := sigsOk_mem h
    rw [renderSigsW_cons, plain_append, plain_renderSigW _ r (hm r (by simp)),
      plain_chunks (sigSeg G) (fun x => nameOk x.name = true) (fun j x hx => plain_sigSeg G j x hx) l i
        (fun y hy => hm y (by simp [hy]))]
    rfl

theorem lastHard_renderSigsW (G : Nat → SigGap) (i : Nat) (r : SigRef) (l : List SigRef) (h : sigsOk (r :: l) = true) :
    lastHard (renderSigsW G i (r :: l)) = true := by
  have hm := sigsOk_mem h
  rw [renderSigsW_cons]
  exact lastHard_first_chunks (sigSeg G) (fun x => nameOk x.name = true) (fun j x hx => lastHard_sigSeg G j x hx) _
    (lastHard_renderSigW _ r (hm r (by simp))) l i (fun y hy => hm y (by simp [hy]))

theorem plain_renderIOW (L : Layout) (ins outs : List SigRef) (hi : sigsOk ins = true) (ho : sigsOk outs = true) :
    plain (renderIOW L ins outs) = true := by
  unfold renderIOW
  split <;> simp [plain_renderSigsW, hi, ho]

theorem lastHard_renderIOW (L : Layout) (ins outs : List SigRef) (ho : sigsOk outs = true) :
    lastHard (renderIOW L ins outs) = true := by
  unfold renderIOW
  cases outs with
  | nil =>
    simp only [List.isEmpty_nil, if_true, List.append_nil]
    exact lastHard_append _ (by decide)
  | cons r l =>
    simp only [List.isEmpty_cons, Bool.false_eq_true, if_false]
    exact lastHard_append _ (lastHard_append _ (lastHard_renderSigsW _ 0 r l ho))

theorem plain_argTail (L : Layout) : ∀ (n i : Nat), plain (argTail L i n) = true
  | 0, _ => rfl
  | n + 1, i => by simp [argTail, plain_argTail L n (i + 1)]

theorem plain_renderParensW_args (L : Layout) (n : Nat) : plain (renderParensW L false (List.replicate n ['1'])) = true := by
  unfold renderParensW
  split
  · rfl
  · cases n with
    | zero => simp [renderCommaW]
    | succ m => rw [renderCommaW_args]; simp [plain_argTail]

theorem plain_renderParensW_params (L : Layout) (ps : List String) (hp : ps.all nameOk = true) :
    plain (renderParensW L true (ps.map String.toList)) = true := by
  unfold renderParensW
  split
  · rfl
  · cases ps with
    | nil => simp [renderCommaW]
    | cons p ps =>
      have hp' : ∀ x, x ∈ p :: ps → nameOk x = true := by simpa [List.all_eq_true] using hp
      have hc := plain_chunks (commaSeg L true) (fun w => ∃ n : String, nameOk n = true ∧ w = n.toList)
        (fun j w hw => by
          obtain ⟨n, hn, rfl⟩ := hw
          simp [commaSeg, plain_name hn]) (ps.map String.toList) 0
        (fun y hy => by
          obtain ⟨n, hn, rfl⟩ := List.mem_map.1 hy
          exact ⟨n, hp' n (by simp [hn]), rfl⟩)
      simp [renderCommaW_cons, plain_name (hp' p (by simp)), hc]

theorem plain_renderItemW (L : Layout) (i : Nat) (it : String × Option String) (h : itemOk it = true) :
    plain (renderItemW L i it) = true := by
  obtain ⟨p, a⟩ := it
  cases a with
  | none =>
    have hp : pathOk p = true := by simpa [itemOk] using h
    simp [renderItemW, plain_path hp]
  | some a =>
    have hp : pathOk p = true ∧ nameOk a = true := by simpa [itemOk] using h
    simp [renderItemW, plain_path hp.1, plain_name hp.2]

theorem lastHard_renderItemW (L : Layout) (i : Nat) (it : String × Option String) (h : itemOk it = true) :
    lastHard (renderItemW L i it) = true := by
  obtain ⟨p, a⟩ := it
  cases a with
  | none =>
    have hp : pathOk p = true := by simpa [itemOk] using h
    simpa [renderItemW] using lastHard_path hp
  | some a =>
    have hp : pathOk p = true ∧ nameOk a = true := by simpa [itemOk] using h
    simp only [renderItemW]
    exact lastHard_append _ (lastHard_name hp.2)

theorem plain_renderItemsW (L : Layout) (it : String × Option String) (l : List (String × Option String))
    (hok : (it :: l).all itemOk = true) : plain (renderItemsW L 0 (it :: l)) = true := by
  have hok' : ∀ x, x ∈ it :: l → itemOk x = true := by simpa [List.all_eq_true] using hok
  rw [renderItemsW_cons, plain_append, plain_renderItemW L 0 it (hok' it (by simp)),
    plain_chunks (itemSeg L) (fun x => itemOk x = true)
      (fun j x hx => by simp [itemSeg, plain_renderItemW L (j + 1) x hx]) l 0 (fun y hy => hok' y (by simp [hy]))]
  rfl

theorem lastHard_renderItemsW (L : Layout) (it : String × Option String) (l : List (String × Option String))
    (hok : (it :: l).all itemOk = true) : lastHard (renderItemsW L 0 (it :: l)) = true := by
  have hok' : ∀ x, x ∈ it :: l → itemOk x = true := by simpa [List.all_eq_true] using hok
  rw [renderItemsW_cons]
  exact lastHard_first_chunks (itemSeg L) (fun x => itemOk x = true)
    (fun j x hx => lastHard_append _ (lastHard_append [','] (lastHard_append _ (lastHard_renderItemW L (j + 1) x hx)))) _
    (lastHard_renderItemW L 0 it (hok' it (by simp))) l 0 (fun y hy => hok' y (by simp [hy]))

/-! ### the three statement parsers on rendered text -/

theorem renderCoreW_imports (L : Layout) (items : List (String × Option String)) :
    renderCoreW L (.imports items) = "import".toList ++ sp (L.afterKw + 1) ++ renderItemsW L 0 items := rfl
theorem renderCoreW_component (L : Layout) (name templ : String) (args : Nat) (ins outs : List SigRef) :
    renderCoreW L (.component name templ args ins outs) =
      "component".toList ++ sp (L.afterKw + 1) ++ name.toList ++ sp L.eqL ++ ['='] ++ sp L.eqR ++
        templ.toList ++ renderParensW L false (List.replicate args ['1']) ++ renderIOW L ins outs := rfl
theorem renderDeclCoreW_eq (L : Layout) (d : Decl) :
    renderDeclCoreW L d = "declare".toList ++ sp (L.afterKw + 1) ++ "system".toList ++ sp L.afterSystem ++
      d.name.toList ++ renderParensW L true (d.params.map String.toList) ++ renderIOW L d.inputs d.outputs := rfl

theorem plain_import : plain "import".toList = true := by decide
theorem plain_component : plain "component".toList = true := by decide
theorem plain_declare : plain "declare".toList = true := by decide
theorem plain_system : plain "system".toList = true := by decide

theorem headNot_blank {f : Char → Bool} (hb : f ' ' = false) (n : Nat) (t : Str) : headNot f (sp (n + 1) ++ t) = true := by
  simp [sp_succ, headNot, hb]

theorem headNot_renderIOW {f : Char → Bool} (hb : f ' ' = false) (hc : f ':' = false) (L : Layout)
    (ins outs : List SigRef) (t : Str) : headNot f (renderIOW L ins outs ++ t) = true := by
  simp only [renderIOW, List.append_assoc, List.cons_append]
  exact headNot_sp_append hb _ (by simp [headNot, hc])

theorem parseImportL_render (dw : Str) (L : Layout) (items : List (String × Option String))
    (hok : stmtNamesOk (.imports items) = true) (lead n : Nat) :
    parseImportL dw (sp lead ++ (renderCoreW L (.imports items) ++ sp n)) = some items := by
  cases items with
  | nil => simp [stmtNamesOk] at hok
  | cons it l =>
    have hall : (it :: l).all itemOk = true := by simpa [stmtNamesOk] using hok
    have hplain : plain (sp lead ++ (renderCoreW L (.imports (it :: l)) ++ sp n)) = true := by
      simp only [renderCoreW_imports, plain_append, plain_sp, plain_import, plain_renderItemsW L it l hall, Bool.and_self]
    unfold parseImportL
    rw [expandTabs_plain _ _ hplain]
    simp only [renderCoreW_imports, List.append_assoc]
    rw [kw_render "import".toList (by decide) (by decide) lead _ (headNot_blank (by decide) _ _)]
    simp only []
    rw [items_render L it l _ hall (by simp)]
    simp only [endOk_sp, if_true]

theorem parseComponentL_render (dw : Str) (L : Layout) (name templ : String) (args : Nat) (ins outs : List SigRef)
    (hok : stmtNamesOk (.component name templ args ins outs) = true) (lead n : Nat) :
    parseComponentL dw (sp lead ++ (renderCoreW L (.component name templ args ins outs) ++ sp n)) =
      .ok (.component name templ args ins outs) := by
  have h : (nameOk name = true ∧ nameOk templ = true) ∧ sigsOk ins = true ∧ sigsOk outs = true := by
    simpa [stmtNamesOk, and_assoc] using hok
  obtain ⟨⟨hn, ht⟩, hi, ho⟩ := h
  have hplain : plain (sp lead ++ (renderCoreW L (.component name templ args ins outs) ++ sp n)) = true := by
    simp only [renderCoreW_component, plain_append, plain_sp, plain_component, plain_name hn, plain_name ht,
      plain_renderParensW_args, plain_renderIOW L ins outs hi ho, plain_cons, plain_nil, Bool.and_self, Bool.and_true]
    decide
  obtain ⟨r6, r7, r8, r9, h6, h7, h8, h9, hend⟩ := io_render dw L ins outs hi ho n
  have hio : clearOf parBad (renderIOW L ins outs ++ sp n) = true := by
    simp only [renderIOW, List.append_assoc, List.cons_append, clearOf_sp_append]
    simp [clearOf]; decide
  unfold parseComponentL
  rw [expandTabs_plain _ _ hplain]
  simp only [renderCoreW_component, List.append_assoc, List.cons_append, List.nil_append]
  rw [kw_render "component".toList (by decide) (by decide) lead _
    (headNot_blank (by decide) _ _)]
  simp only []
  rw [var_render hn _ (headNot_sp_append (by decide) _ (by simp [headNot]; decide))]
  simp only []
  rw [lit_render1 '=' (by decide)]
  simp only []
  rw [var_render ht _ (by
    unfold renderParensW
    split
    · simp only [List.nil_append]
      exact headNot_renderIOW (by decide) (by decide) L ins outs _
    · simp only [List.append_assoc, List.cons_append]
      exact headNot_sp_append (by decide) _ (by simp [headNot]; decide))]
  simp only []
  rw [componentParams_render L args hio]
  simp only [h6, h7, h8, h9, hend, if_true, String.ofList_toList]

theorem parseDeclareL_render (dw : Str) (L : Layout) (d : Decl) (hok : declNamesOk d = true) (lead n : Nat) :
    parseDeclareL dw (sp lead ++ (renderDeclCoreW L d ++ sp n)) = some d := by
  obtain ⟨name, params, ins, outs⟩ := d
  have h : ((nameOk name = true ∧ params.all nameOk = true) ∧ sigsOk ins = true) ∧ sigsOk outs = true := by
    simpa [declNamesOk] using hok
  obtain ⟨⟨⟨hn, hps⟩, hi⟩, ho⟩ := h
  have hplain : plain (sp lead ++ (renderDeclCoreW L ⟨name, params, ins, outs⟩ ++ sp n)) = true := by
    simp only [renderDeclCoreW_eq, plain_append, plain_sp, plain_declare, plain_system, plain_name hn,
      plain_renderParensW_params L params hps, plain_renderIOW L ins outs hi ho, Bool.and_self]
  obtain ⟨r6, r7, r8, r9, h6, h7, h8, h9, hend⟩ := io_render dw L ins outs hi ho n
  have hio : clearOf parBad (renderIOW L ins outs ++ sp n) = true := by
    simp only [renderIOW, List.append_assoc, List.cons_append, clearOf_sp_append]
    simp [clearOf]; decide
  unfold parseDeclareL
  rw [expandTabs_plain _ _ hplain]
  simp only [renderDeclCoreW_eq, List.append_assoc]
  rw [kw_render "declare".toList (by decide) (by decide) lead _ (headNot_blank (by decide) _ _)]
  simp only []
  rw [lit_render "system".toList (by decide) (by decide)]
  simp only []
  rw [var_render hn _ (by
    unfold renderParensW
    split
    · simp only [List.nil_append]
      exact headNot_renderIOW (by decide) (by decide) L ins outs _
    · simp only [List.append_assoc, List.cons_append]
      exact headNot_sp_append (by decide) _ (by simp [headNot]; decide))]
  simp only []
  rw [declParams_render L params hps hio]
  simp only [h6, h7, h8, h9, hend, if_true, String.ofList_toList]

/-! ### the statement loop on rendered text -/

theorem plain_renderCoreW (L : Layout) (s : SStmt) (hok : stmtNamesOk s = true) : plain (renderCoreW L s) = true := by
  cases s with
  | imports items =>
    cases items with
    | nil => simp [stmtNamesOk] at hok
    | cons it l =>
      have hall : (it :: l).all itemOk = true := by simpa [stmtNamesOk] using hok
      simp only [renderCoreW_imports, plain_append, plain_sp, plain_import, plain_renderItemsW L it l hall, Bool.and_self]
  | component name templ args ins outs =>
    have h : (nameOk name = true ∧ nameOk templ = true) ∧ sigsOk ins = true ∧ sigsOk outs = true := by
      simpa [stmtNamesOk, and_assoc] using hok
    obtain ⟨⟨hn, ht⟩, hi, ho⟩ := h
    simp only [renderCoreW_component, plain_append, plain_sp, plain_component, plain_name hn, plain_name ht,
      plain_renderParensW_args, plain_renderIOW L ins outs hi ho, plain_cons, plain_nil, Bool.and_self, Bool.and_true]
    decide

theorem lastHard_renderCoreW (L : Layout) (s : SStmt) (hok : stmtNamesOk s = true) : lastHard (renderCoreW L s) = true := by
  cases s with
  | imports items =>
    cases items with
    | nil => simp [stmtNamesOk] at hok
    | cons it l =>
      have hall : (it :: l).all itemOk = true := by simpa [stmtNamesOk] using hok
      rw [renderCoreW_imports]
      exact lastHard_append _ (lastHard_renderItemsW L it l hall)
  | component name templ args ins outs =>
    have h : (nameOk name = true ∧ nameOk templ = true) ∧ sigsOk ins = true ∧ sigsOk outs = true := by
      simpa [stmtNamesOk, and_assoc] using hok
    rw [renderCoreW_component]
    exact lastHard_append _ (lastHard_renderIOW L ins outs h.2.2)

/-- the first character exists and is not white space -/
def firstHard : Str → Bool
  | [] => false
  | c :: _ => !isSp c

theorem firstHard_append {k : Str} (h : firstHard k = true) (t : Str) : firstHard (k ++ t) = true := by
  cases k with
  | nil => exact absurd h (by simp [firstHard])
  | cons c r => simpa [firstHard] using h

theorem cleanLine_render' (a b : Nat) (y : Str) (hf : firstHard y = true) (hl : lastHard y = true)
    (hp : plain y = true) : cleanLine (sp a ++ (y ++ sp b)) = y := by
  cases y with
  | nil => exact absurd hf (by simp [firstHard])
  | cons c r => exact cleanLine_render a b c r (by simpa [firstHard] using hf) hl hp

theorem firstHard_renderCoreW (L : Layout) (s : SStmt) : firstHard (renderCoreW L s) = true := by
  cases s with
  | imports items =>
    rw [renderCoreW_imports, List.append_assoc]
    exact firstHard_append (by decide) _
  | component name templ args ins outs =>
    simp only [renderCoreW_component, List.append_assoc]
    exact firstHard_append (by decide) _

theorem firstWord_kw (k t : Str) (hk : ∀ c ∈ k, isSp c = false) : firstWord (k ++ (' ' :: t)) = k := by
  unfold firstWord
  rw [List.takeWhile_append_of_pos (fun c hc => by simp [hk c hc])]
  simp [isSp]

theorem parseStmtL_render (dw : Str) (L : Layout) (s : SStmt) (hok : stmtNamesOk s = true) (n : Nat) :
    parseStmtL dw (renderCoreW L s ++ sp n) = .ok s := by
  cases s with
  | imports items =>
    have h := parseImportL_render dw L items hok 0 n
    rw [sp_zero, List.nil_append] at h
    have hfw : firstWord (renderCoreW L (.imports items) ++ sp n) = "import".toList := by
      simp only [renderCoreW_imports, List.append_assoc, sp_succ, List.cons_append]
      exact firstWord_kw _ _ (by decide)
    unfold parseStmtL
    simp only [hfw, h, show ("import".toList == "declare".toList) = false by decide, Bool.false_eq_true, if_false,
      beq_self_eq_true, if_true]
  | component name templ args ins outs =>
    have h := parseComponentL_render dw L name templ args ins outs hok 0 n
    rw [sp_zero, List.nil_append] at h
    have hfw : firstWord (renderCoreW L (.component name templ args ins outs) ++ sp n) = "component".toList := by
      simp only [renderCoreW_component, List.append_assoc, sp_succ, List.cons_append]
      exact firstWord_kw _ _ (by decide)
    unfold parseStmtL
    simp only [hfw, h, show ("component".toList == "declare".toList) = false by decide,
      show ("component".toList == "import".toList) = false by decide, Bool.false_eq_true, if_false,
      beq_self_eq_true, if_true]

theorem cleanLine_renderSStmtW (L : Layout) (s : SStmt) (hok : stmtNamesOk s = true) :
    cleanLine (renderSStmtW L s) = renderCoreW L s := by
  unfold renderSStmtW
  rw [List.append_assoc]
  exact cleanLine_render' _ _ _ (firstHard_renderCoreW L s) (lastHard_renderCoreW L s hok) (plain_renderCoreW L s hok)

theorem parseLineL_render (dw : Str) (L : Layout) (s : SStmt) (hok : stmtNamesOk s = true) :
    parseLineL dw (renderSStmtW L s) = .ok (some s) := by
  have hne : (renderCoreW L s).isEmpty = false := by
    have := firstHard_renderCoreW L s
    cases h : renderCoreW L s with
    | nil => rw [h] at this; exact absurd this (by simp [firstHard])
    | cons c r => rfl
  have hp := parseStmtL_render dw L s hok 0
  rw [sp_zero, List.append_nil] at hp
  unfold parseLineL
  simp only [cleanLine_renderSStmtW L s hok, hne, Bool.false_eq_true, if_false, hp]

/-- the declare line, as the first-statement search delivers it (cleaned) and as written -/
theorem parseDeclareL_renderDeclW (dw : Str) (L : Layout) (d : Decl) (hok : declNamesOk d = true) :
    parseDeclareL dw (renderDeclW L d) = some d := by
  unfold renderDeclW
  rw [List.append_assoc]
  exact parseDeclareL_render dw L d hok L.lead _

theorem plain_renderDeclCoreW (L : Layout) (d : Decl) (hok : declNamesOk d = true) : plain (renderDeclCoreW L d) = true := by
  obtain ⟨name, params, ins, outs⟩ := d
  have h : ((nameOk name = true ∧ params.all nameOk = true) ∧ sigsOk ins = true) ∧ sigsOk outs = true := by
    simpa [declNamesOk] using hok
  obtain ⟨⟨⟨hn, hps⟩, hi⟩, ho⟩ := h
  simp only [renderDeclCoreW_eq, plain_append, plain_sp, plain_declare, plain_system, plain_name hn,
    plain_renderParensW_params L params hps, plain_renderIOW L ins outs hi ho, Bool.and_self]

theorem cleanLine_renderDeclW (L : Layout) (d : Decl) (hok : declNamesOk d = true) :
    cleanLine (renderDeclW L d) = renderDeclCoreW L d := by
  have ho : sigsOk d.outputs = true := by
    have : ((nameOk d.name = true ∧ d.params.all nameOk = true) ∧ sigsOk d.inputs = true) ∧ sigsOk d.outputs = true := by
      simpa [declNamesOk] using hok
    exact this.2
  unfold renderDeclW
  rw [List.append_assoc]
  refine cleanLine_render' _ _ _ ?_ ?_ (plain_renderDeclCoreW L d hok)
  · simp only [renderDeclCoreW_eq, List.append_assoc]
    exact firstHard_append (by decide) _
  · rw [renderDeclCoreW_eq]
    exact lastHard_append _ (lastHard_renderIOW L d.inputs d.outputs ho)

/-! ### documents and files -/

theorem splitOn_append (sep : Char) : ∀ (a b : Str), (∀ c ∈ a, c ≠ sep) →
    splitOn sep (a ++ sep :: b) = a :: splitOn sep b
  | [], b, _ => by simp [splitOn]
  | c :: a, b, h => by
    have hc : (c == sep) = false := by simpa using h c (by simp)
    simp only [List.cons_append, splitOn, hc, Bool.false_eq_true, if_false]
    rw [splitOn_append sep a b (fun d hd => h d (by simp [hd]))]

theorem mem_plain {s : Str} (h : plain s = true) : ∀ c ∈ s, c ≠ '\n' ∧ c ≠ '#' := by
  intro c hc
  have := (List.all_eq_true.1 h) c hc
  simp only [Bool.and_eq_true, bne_iff_ne, ne_eq] at this
  exact ⟨this.2, this.1.2⟩

theorem plain_renderSStmtW (L : Layout) (s : SStmt) (hok : stmtNamesOk s = true) : plain (renderSStmtW L s) = true := by
  simp [renderSStmtW, plain_renderCoreW L s hok]

theorem parseLineL_nil (dw : Str) : parseLineL dw [] = .ok none := rfl

theorem parseLines_render (dw : Str) (Ls : Nat → Layout) : ∀ (stmts : List SStmt) (i : Nat),
    stmts.all stmtNamesOk = true → parseLines dw (splitOn '\n' (renderDocW Ls i stmts)) = .ok stmts
  | [], _, _ => by simp [renderDocW, splitOn, parseLines, parseLineL_nil]
  | s :: r, i, h => by
    have h' : stmtNamesOk s = true ∧ r.all stmtNamesOk = true := by simpa using h
    rw [renderDocW, splitOn_append '\n' _ _ (fun c hc => (mem_plain (plain_renderSStmtW (Ls i) s h'.1) c hc).1)]
    simp [parseLines, parseLineL_render dw (Ls i) s h'.1, parseLines_render dw Ls r (i + 1) h'.2]

theorem fileLines_append : ∀ (a b acc : Str), (∀ c ∈ a, c ≠ '\n') →
    fileLines (a ++ '\n' :: b) acc = (acc.reverse ++ a ++ ['\n']) :: fileLines b []
  | [], b, acc, _ => by simp [fileLines]
  | c :: a, b, acc, h => by
    have hc : (c == '\n') = false := by simpa using h c (by simp)
    simp only [List.cons_append, fileLines, hc, Bool.false_eq_true, if_false]
    rw [fileLines_append a b (c :: acc) (fun d hd => h d (by simp [hd]))]
    simp

theorem subCommentAux_noHash : ∀ (s : Str), (∀ c ∈ s, c ≠ '#') → subCommentAux s none = s
  | [], _ => rfl
  | c :: r, h => by
    have h1 : (c == '#') = false := by simpa using h c (by simp)
    simp [subCommentAux, h1, subCommentAux_noHash r (fun d hd => h d (by simp [hd]))]

/-- as `cleanLine_render'`, with any white space without `#` after the text (a line of a file ends in `\n`) -/
theorem cleanLine_render_ws (a : Nat) (y w : Str) (hf : firstHard y = true) (hl : lastHard y = true)
    (hp : plain y = true) (hw : ∀ c ∈ w, isSp c = true) : cleanLine (sp a ++ (y ++ w)) = y := by
  have hsp : ∀ n, ∀ x ∈ sp n, isSp x = true := by
    intro n x hx
    have := List.eq_of_mem_replicate hx
    subst this; rfl
  have hno : ∀ c ∈ sp a ++ (y ++ w), c ≠ '#' := by
    intro c hc
    rcases List.mem_append.1 hc with hc | hc
    · rintro rfl; exact absurd (hsp a _ hc) (by decide)
    · rcases List.mem_append.1 hc with hc | hc
      · exact (mem_plain hp c hc).2
      · rintro rfl; exact absurd (hw _ hc) (by decide)
  cases y with
  | nil => exact absurd hf (by simp [firstHard])
  | cons c r =>
    have hc : isSp c = false := by simpa [firstHard] using hf
    rw [cleanLine, subComment, subCommentAux_noHash _ hno, strip, lstrip, List.dropWhile_append_of_pos (hsp a)]
    simp only [List.cons_append, List.dropWhile_cons, hc, Bool.false_eq_true, if_false]
    rw [rstrip]
    have : (c :: (r ++ w)).reverse = w.reverse ++ (c :: r).reverse := by simp
    rw [this, List.dropWhile_append_of_pos (fun x hx => hw x (by simpa using hx))]
    unfold lastHard at hl
    cases hrev : (c :: r).reverse with
    | nil => rw [hrev] at hl; exact absurd hl (by simp)
    | cons d u =>
      rw [hrev] at hl
      have hd : isSp d = false := by simpa using hl
      simp only [List.dropWhile_cons, hd, Bool.false_eq_true, if_false]
      rw [← hrev, List.reverse_reverse]

theorem renderDeclCoreW_hard (L : Layout) (d : Decl) (hok : declNamesOk d = true) :
    firstHard (renderDeclCoreW L d) = true ∧ lastHard (renderDeclCoreW L d) = true := by
  have ho : sigsOk d.outputs = true := by
    have : ((nameOk d.name = true ∧ d.params.all nameOk = true) ∧ sigsOk d.inputs = true) ∧ sigsOk d.outputs = true := by
      simpa [declNamesOk] using hok
    exact this.2
  constructor
  · simp only [renderDeclCoreW_eq, List.append_assoc]
    exact firstHard_append (by decide) _
  · rw [renderDeclCoreW_eq]
    exact lastHard_append _ (lastHard_renderIOW L d.inputs d.outputs ho)

/-- the first-statement search on a rendered file finds the declare line (cleaned) and leaves the statement lines -/
theorem firstStatementL_render (L : Layout) (d : Decl) (hok : declNamesOk d = true) (rest : Str) :
    firstStatementL (renderDeclW L d ++ '\n' :: rest) = (renderDeclCoreW L d, fileLines rest []) := by
  have hplain : plain (renderDeclW L d) = true := by
    simp [renderDeclW, plain_renderDeclCoreW L d hok]
  obtain ⟨hf, hl⟩ := renderDeclCoreW_hard L d hok
  have hne : (renderDeclCoreW L d).isEmpty = false := by
    cases h : renderDeclCoreW L d with
    | nil => rw [h] at hf; exact absurd hf (by simp [firstHard])
    | cons c r => rfl
  have hclean : cleanLine (renderDeclW L d ++ ['\n']) = renderDeclCoreW L d := by
    unfold renderDeclW
    simp only [List.append_assoc]
    refine cleanLine_render_ws _ _ _ hf hl (plain_renderDeclCoreW L d hok) ?_
    intro c hc
    rcases List.mem_append.1 hc with hc | hc
    · have := List.eq_of_mem_replicate hc
      subst this; rfl
    · have : c = '\n' := by simpa using hc
      subst this; rfl
  unfold firstStatementL
  rw [fileLines_append _ _ [] (fun c hc => (mem_plain hplain c hc).1)]
  simp only [List.reverse_nil, List.nil_append, firstStatementAux, hclean, hne, Bool.false_eq_true, if_false]

end Pepper.ParseSys
