import PepperModel.SsmChecked
import PepperProofs.Ssm
/-!
# Proofs about the bounds-checked spuriousSSM model (`PepperModel/SsmChecked.lean`)

1. the `Res` monad, `rd` / `wr`;
2. refinement: an `ok` result of a checked function is the result of the total function of
   `PepperModel/Ssm.lean` (`*_ref`);
3. safety: under `Bounds t` (lengths `N`, `1 ≤ wc[i] ≤ N` unless `-1`, `eq[i] ≤ N`) and with
   sequences of length `N`, no checked function returns `oob` (`*_ok`).
-/
namespace Pepper.SsmChecked
open Pepper Pepper.Ssm Res

/-! ### 1. the monad, reads and stores -/

@[simp] theorem ok_bind {α β : Type} (a : α) (f : α → Res β) : (Res.ok a >>= f) = f a := rfl
@[simp] theorem oob_bind {α β : Type} (o : Oob) (f : α → Res β) : ((Res.oob o : Res α) >>= f) = Res.oob o := rfl
@[simp] theorem pure_eq {α : Type} (a : α) : (pure a : Res α) = Res.ok a := rfl

theorem bind_eq_ok {α β : Type} {x : Res α} {f : α → Res β} {v : β} :
    (x >>= f) = ok v ↔ ∃ a, x = ok a ∧ f a = ok v := by
  cases x <;> simp

/-- "is not `oob`" -/
def IsOk {α : Type} (x : Res α) : Prop := ∃ v, x = ok v

theorem isOk_ok {α : Type} (v : α) : IsOk (ok v) := ⟨v, rfl⟩
theorem isOk_pure {α : Type} (v : α) : IsOk (pure v : Res α) := ⟨v, rfl⟩

theorem isOk_bind {α β : Type} {x : Res α} {f : α → Res β} (hx : IsOk x) (hf : ∀ v, x = ok v → IsOk (f v)) :
    IsOk (x >>= f) := by
  obtain ⟨v, hv⟩ := hx
  rw [hv]
  exact hf v hv

theorem isOk_iff_not_oob {α : Type} (x : Res α) : IsOk x ↔ x.isOob = false := by
  cases x <;> simp [IsOk, Res.isOob]

theorem rd_ok {α : Type} {a : Arr} {s : Site} {A : List α} {i : Int} {v : α} (h : rd a s A i = ok v) (d : α) :
    0 ≤ i ∧ i.toNat < A.length ∧ A.getD i.toNat d = v := by
  unfold rd at h
  split at h
  · rename_i h0
    split at h
    · rename_i w hw
      have hl : i.toNat < A.length := by
        apply Decidable.byContradiction
        intro hc
        rw [List.getElem?_eq_none (Nat.le_of_not_lt hc)] at hw
        cases hw
      refine ⟨h0, hl, ?_⟩
      injection h with h
      simp [List.getD_eq_getElem?_getD, hw, h]
    · cases h
  · cases h

theorem rd_of_lt {α : Type} (a : Arr) (s : Site) {A : List α} {i : Int} (h0 : 0 ≤ i) (h : i.toNat < A.length) (d : α) :
    rd a s A i = ok (A.getD i.toNat d) := by
  unfold rd
  rw [if_pos h0, List.getElem?_eq_getElem h]
  simp [List.getD_eq_getElem?_getD, List.getElem?_eq_getElem h]

theorem rd_nat_ok {α : Type} {a : Arr} {s : Site} {A : List α} {n : Nat} {v : α} (h : rd a s A (n : Int) = ok v) (d : α) :
    n < A.length ∧ A.getD n d = v := by
  have := rd_ok h d
  simpa using this.2

theorem rd_nat_of_lt {α : Type} (a : Arr) (s : Site) {A : List α} {n : Nat} (h : n < A.length) (d : α) :
    rd a s A (n : Int) = ok (A.getD n d) := by
  have := rd_of_lt a s (A := A) (i := (n : Int)) (Int.natCast_nonneg n) (by simpa using h) d
  simpa using this

theorem wr_ok {α : Type} {a : Arr} {s : Site} {A A' : List α} {i : Int} {v : α} (h : wr a s A i v = ok A') :
    0 ≤ i ∧ i.toNat < A.length ∧ A' = A.set i.toNat v := by
  unfold wr at h
  split at h
  · rename_i hc
    injection h with h
    exact ⟨hc.1, hc.2, h.symm⟩
  · cases h

theorem wr_of_lt {α : Type} (a : Arr) (s : Site) {A : List α} {i : Int} (h0 : 0 ≤ i) (h : i.toNat < A.length) (v : α) :
    wr a s A i v = ok (A.set i.toNat v) := by
  unfold wr
  rw [if_pos ⟨h0, h⟩]

theorem wr_nat_ok {α : Type} {a : Arr} {s : Site} {A A' : List α} {n : Nat} {v : α} (h : wr a s A (n : Int) v = ok A') :
    n < A.length ∧ A' = A.set n v := by
  have := wr_ok h
  simpa using this.2

theorem wr_nat_of_lt {α : Type} (a : Arr) (s : Site) {A : List α} {n : Nat} (h : n < A.length) (v : α) :
    wr a s A (n : Int) v = ok (A.set n v) := by
  have := wr_of_lt a s (A := A) (i := (n : Int)) (Int.natCast_nonneg n) (by simpa using h) v
  simpa using this

theorem natCast_beq (a b : Nat) : ((a : Int) == (b : Int)) = (a == b) := by
  rw [Bool.eq_iff_iff]; simp only [beq_iff_eq]; omega

/-! ### 2. refinement -/

theorem foldlC_ref {σ : Type} {stepC : σ → Nat → Res σ} {step : σ → Nat → σ}
    (h : ∀ s i s', stepC s i = ok s' → s' = step s i) :
    ∀ (is : List Nat) (s s' : σ), foldlC stepC s is = ok s' → s' = is.foldl step s := by
  intro is
  induction is with
  | nil => intro s s' hs; simp only [foldlC] at hs; injection hs with hs; simp [hs]
  | cons i is ih =>
    intro s s' hs
    simp only [foldlC, bind_eq_ok] at hs
    obtain ⟨s1, h1, h2⟩ := hs
    rw [List.foldl_cons, ← h s i s1 h1]
    exact ih s1 s' h2

theorem allC_ref {body : Nat → Res Bool} {f : Nat → Bool} (h : ∀ i b, body i = ok b → b = f i) :
    ∀ (is : List Nat) (OK r : Bool), allC body is OK = ok r → r = (OK && is.all f) := by
  intro is
  induction is with
  | nil => intro OK r hr; simp only [allC] at hr; injection hr with hr; simp [hr]
  | cons i is ih =>
    intro OK r hr
    simp only [allC, bind_eq_ok] at hr
    obtain ⟨b, h1, h2⟩ := hr
    rw [ih _ _ h2, h i b h1, List.all_cons, Bool.and_assoc]

theorem countC_ref {body : Nat → Res Bool} {f : Nat → Bool} (h : ∀ i b, body i = ok b → b = f i) :
    ∀ (is : List Nat) (n r : Nat), countC body is n = ok r → r = n + (is.filter f).length := by
  intro is
  induction is with
  | nil => intro n r hr; simp only [countC] at hr; injection hr with hr; simp [hr]
  | cons i is ih =>
    intro n r hr
    simp only [countC, bind_eq_ok] at hr
    obtain ⟨b, h1, h2⟩ := hr
    rw [ih _ _ h2, h i b h1, List.filter_cons]
    cases f i <;> simp <;> omega

theorem classLoopC_ref {s : Site} {t : Triple} {key : Res Int} {i : Nat} {f : Char → Char} {mark : Bool}
    {K : Int} (hk : ∀ k, key = ok k → k = K) (p : Nat → Bool) (hp : ∀ j, ((t.eqAt j : Int) == K) = p j) :
    ∀ (js : List Nat) (sm sm' : Seq × List Bool), classLoopC s t key i f mark js sm = ok sm' →
      sm'.1 = assignLoop ' ' p i f js sm.1 ∧
      sm'.2 = if mark then assignLoop false p i (fun _ => true) js sm.2 else sm.2 := by
  intro js
  induction js with
  | nil =>
    intro sm sm' h
    simp only [classLoopC] at h
    injection h with h
    subst h
    simp [assignLoop]
  | cons j js ih =>
    intro sm sm' h
    simp only [classLoopC, bind_eq_ok] at h
    obtain ⟨ej, h1, k, h2, h3⟩ := h
    have hej := (rd_nat_ok h1 0).2
    have hkK := hk k h2
    subst hkK
    have hpj : p j = ((ej : Int) == k) := by rw [← hp j, Triple.eqAt, hej]
    split at h3
    · rename_i hc
      simp only [bind_eq_ok] at h3
      obtain ⟨v, h4, S', h5, h6⟩ := h3
      have hv := (rd_nat_ok h4 ' ').2
      have hS' := (wr_nat_ok h5).2
      have hpj' : p j = true := by rw [hpj]; exact hc
      cases mark
      · simp only [Bool.false_eq_true, if_false, pure_eq, ok_bind] at h6 ⊢
        obtain ⟨e1, e2⟩ := ih _ _ h6
        simp only [Bool.false_eq_true, if_false] at e2
        constructor
        · rw [e1]; simp only [assignLoop, hpj', if_true, hS', hv]
        · rw [e2]
      · simp only [if_true, bind_eq_ok] at h6 ⊢
        obtain ⟨m', h7, h8⟩ := h6
        have hm' := (wr_nat_ok h7).2
        obtain ⟨e1, e2⟩ := ih _ _ h8
        simp only [if_true] at e2
        constructor
        · rw [e1]; simp only [assignLoop, hpj', if_true, hS', hv]
        · rw [e2]; simp only [assignLoop, hpj', if_true, hm']
    · rename_i hc
      have hpj' : p j = false := by rw [hpj]; simpa using hc
      obtain ⟨e1, e2⟩ := ih _ _ h3
      constructor
      · rw [e1]; simp [assignLoop, hpj']
      · rw [e2]; cases mark <;> simp [assignLoop, hpj']

theorem eqKey_ok {s : Site} {t : Triple} {i : Nat} {k : Int} (h : eqKey s t i = ok k) : k = (t.eqAt i : Int) := by
  simp only [eqKey, bind_eq_ok, pure_eq] at h
  obtain ⟨e, h1, h2⟩ := h
  injection h2 with h2
  rw [← h2, Triple.eqAt, (rd_nat_ok h1 0).2]

theorem wcKey_ok {s : Site} {t : Triple} {i : Nat} {k : Int} (h : wcKey s t i = ok k) : k = t.wcAt i := by
  simp only [wcKey] at h
  rw [Triple.wcAt, (rd_nat_ok h (-1)).2]

theorem constrainSingleFastC_ref {t : Triple} {S S' : Seq} {i : Nat} (h : constrainSingleFastC t S i = ok S') :
    S' = constrainSingleFast t S i := by
  simp only [constrainSingleFastC, bind_eq_ok, pure_eq] at h
  obtain ⟨sm1, h1, sm2, h2, h3⟩ := h
  injection h3 with h3
  have r1 := (classLoopC_ref (fun k => eqKey_ok) (fun j => t.eqAt j == t.eqAt i) (fun j => natCast_beq _ _) _ _ _ h1).1
  have r2 := (classLoopC_ref (fun k => wcKey_ok) (fun j => (t.eqAt j : Int) == t.wcAt i) (fun j => rfl) _ _ _ h2).1
  rw [← h3, r2, r1]
  rfl

theorem constrainStepC_ref {t : Triple} {sm sm' : Seq × List Bool} {i : Nat} (h : constrainStepC t sm i = ok sm') :
    sm' = constrainStep t sm i := by
  simp only [constrainStepC, bind_eq_ok] at h
  obtain ⟨mi, h1, h2⟩ := h
  have hmi := (rd_nat_ok h1 false).2
  unfold constrainStep
  rw [hmi]
  cases mi
  · simp only [Bool.false_eq_true, if_false, bind_eq_ok] at h2 ⊢
    obtain ⟨sm1, h3, h4⟩ := h2
    have r1 := classLoopC_ref (fun k => eqKey_ok) (fun j => t.eqAt j == t.eqAt i) (fun j => natCast_beq _ _) _ _ _ h3
    have r2 := classLoopC_ref (fun k => wcKey_ok) (fun j => (t.eqAt j : Int) == t.wcAt i) (fun j => rfl) _ _ _ h4
    simp only [if_true] at r1 r2
    apply Prod.ext
    · rw [r2.1, r1.1]
    · rw [r2.2, r1.2]
  · simp only [if_true, pure_eq] at h2 ⊢
    injection h2 with h2
    exact h2.symm

theorem constrainC_ref {t : Triple} {S S' : Seq} (h : constrainC t S = ok S') : S' = constrain t S := by
  simp only [constrainC, bind_eq_ok, pure_eq] at h
  obtain ⟨sm, h1, h2⟩ := h
  injection h2 with h2
  rw [← h2, foldlC_ref (fun s i s' => constrainStepC_ref) _ _ _ h1]
  rfl

/-! #### `test_consistency` -/

theorem tcWc_ref {s : Site} {a : Arr} {A : Seq} {c : Char} {wi : Int} {b : Bool} (h : tcWc s a A c wi = ok b) :
    b = !(wi != -1 && c != WC (A.getD (wi.toNat - 1) ' ')) := by
  unfold tcWc at h
  split at h
  · rename_i hw
    simp only [bind_eq_ok] at h
    obtain ⟨sw, h1, h2⟩ := h
    have hsw := rd_ok h1 ' '
    have e : (wi - 1).toNat = wi.toNat - 1 := by omega
    rw [e] at hsw
    rw [hsw.2.2, hw]
    split at h2
    · rename_i hc
      simp only [bind_eq_ok, pure_eq] at h2
      obtain ⟨_, _, h3⟩ := h2
      injection h3 with h3
      simp [← h3, hc]
    · rename_i hc
      simp only [pure_eq] at h2
      injection h2 with h2
      have : (c != WC sw) = false := by simpa using hc
      simp [← h2, this]
  · rename_i hw
    simp only [pure_eq] at h
    injection h with h
    have : (wi != -1) = false := by simpa using hw
    simp [← h, this]

theorem tcEq_ref {s : Site} {a : Arr} {A : Seq} {c : Char} {ei : Nat} {b : Bool} (h : tcEq s a A c ei = ok b) :
    b = !(ei != 0 && c != A.getD (ei - 1) ' ') := by
  unfold tcEq at h
  split at h
  · rename_i hw
    simp only [bind_eq_ok] at h
    obtain ⟨se, h1, h2⟩ := h
    have hse := rd_ok h1 ' '
    have e : ((ei : Int) - 1).toNat = ei - 1 := by omega
    rw [e] at hse
    rw [hse.2.2, hw]
    split at h2
    · rename_i hc
      simp only [bind_eq_ok, pure_eq] at h2
      obtain ⟨_, _, h3⟩ := h2
      injection h3 with h3
      simp [← h3, hc]
    · rename_i hc
      simp only [pure_eq] at h2
      injection h2 with h2
      have : (c != se) = false := by simpa using hc
      simp [← h2, this]
  · rename_i hw
    simp only [pure_eq] at h
    injection h with h
    have : (ei != 0) = false := by simpa using hw
    simp [← h, this]

/-- the three loop bodies of the total `testConsistency` -/
def tcP1 (t : Triple) (i : Nat) : Bool :=
  !(t.wcAt i != -1 && t.wcAt (t.wcIx i) != (t.eqAt i : Int)) &&
  !(t.eqAt i != 0 && t.eqAt (t.eqAt i - 1) != t.eqAt i)
def tcP2 (t : Triple) (S : Seq) (i : Nat) : Bool :=
  !(sAt S i != ' ' && !hasSub2 (t.stAt i) (sAt S i) Generated.cDegenerates) &&
  !(t.wcAt i != -1 && sAt S i != WC (sAt S (t.wcIx i))) &&
  !(t.eqAt i != 0 && sAt S i != sAt S (t.eqAt i - 1))
def tcP3 (t : Triple) (i : Nat) : Bool :=
  !(t.wcAt i != -1 && t.stAt i != WC (t.stAt (t.wcIx i))) &&
  !(t.eqAt i != 0 && t.stAt i != t.stAt (t.eqAt i - 1))

theorem testConsistency_eq (t : Triple) (S : Seq) :
    testConsistency t S =
      (if !(List.range t.N).all (tcP1 t) then false
       else (List.range t.N).all (tcP2 t S) && (List.range t.N).all (tcP3 t)) := rfl

theorem tcBody1_ref {t : Triple} {i : Nat} {b : Bool} (h : tcBody1 t i = ok b) : b = tcP1 t i := by
  simp only [tcBody1, bind_eq_ok, pure_eq] at h
  obtain ⟨wi, h1, b1, h2, ei, h3, b2, h4, h5⟩ := h
  injection h5 with h5
  have hwi := (rd_nat_ok h1 (-1)).2
  have hei := (rd_nat_ok h3 0).2
  have hb1 : b1 = !(t.wcAt i != -1 && t.wcAt (t.wcIx i) != (t.eqAt i : Int)) := by
    rw [Triple.wcIx, Triple.wcAt, hwi]
    split at h2
    · rename_i hw
      simp only [bind_eq_ok] at h2
      obtain ⟨ww, h6, ei', h7, h8⟩ := h2
      injection h8 with h8
      have hww := rd_ok h6 (-1)
      have e : (wi - 1).toNat = wi.toNat - 1 := by omega
      rw [e] at hww
      have hei' := (rd_nat_ok h7 0).2
      rw [Triple.wcAt, hww.2.2, Triple.eqAt, hei', hw, ← h8]
      simp
    · rename_i hw
      injection h2 with h2
      have : (wi != -1) = false := by simpa using hw
      simp [← h2, this]
  have hb2 : b2 = !(t.eqAt i != 0 && t.eqAt (t.eqAt i - 1) != t.eqAt i) := by
    rw [Triple.eqAt, hei]
    split at h4
    · rename_i hw
      simp only [bind_eq_ok] at h4
      obtain ⟨ee, h6, h8⟩ := h4
      injection h8 with h8
      have hee := rd_ok h6 0
      have e : ((ei : Int) - 1).toNat = ei - 1 := by omega
      rw [e] at hee
      rw [Triple.eqAt, hee.2.2, hw, ← h8]
      simp
    · rename_i hw
      injection h4 with h4
      have : (ei != 0) = false := by simpa using hw
      simp [← h4, this]
  rw [← h5, hb1, hb2, tcP1]

theorem tcBody2_ref {t : Triple} {S : Seq} {i : Nat} {b : Bool} (h : tcBody2 t S i = ok b) : b = tcP2 t S i := by
  simp only [tcBody2, bind_eq_ok, pure_eq] at h
  obtain ⟨sti, h1, si, h2, wi, h3, b2, h4, ei, h5, b3, h6, h7⟩ := h
  injection h7 with h7
  have hsti := (rd_nat_ok h1 ' ').2
  have hsi := (rd_nat_ok h2 ' ').2
  have hwi := (rd_nat_ok h3 (-1)).2
  have hei := (rd_nat_ok h5 0).2
  rw [← h7, tcWc_ref h4, tcEq_ref h6, tcP2, sAt, sAt, sAt, Triple.stAt, Triple.wcIx, Triple.wcAt, Triple.eqAt,
    hsti, hsi, hwi, hei]

theorem tcBody3_ref {t : Triple} {i : Nat} {b : Bool} (h : tcBody3 t i = ok b) : b = tcP3 t i := by
  simp only [tcBody3, bind_eq_ok, pure_eq] at h
  obtain ⟨wi, h3, sti, h1, b2, h4, ei, h5, b3, h6, h7⟩ := h
  injection h7 with h7
  have hsti := (rd_nat_ok h1 ' ').2
  have hwi := (rd_nat_ok h3 (-1)).2
  have hei := (rd_nat_ok h5 0).2
  rw [← h7, tcWc_ref h4, tcEq_ref h6, tcP3, Triple.stAt, Triple.stAt, Triple.stAt, Triple.wcIx, Triple.wcAt,
    Triple.eqAt, hsti, hwi, hei]

theorem testConsistencyC_ref {t : Triple} {S : Seq} {b : Bool} (h : testConsistencyC t S = ok b) :
    b = testConsistency t S := by
  simp only [testConsistencyC, bind_eq_ok] at h
  obtain ⟨ok1, h1, h2⟩ := h
  have r1 := allC_ref (fun i b => tcBody1_ref) _ _ _ h1
  rw [Bool.true_and] at r1
  rw [testConsistency_eq, ← r1]
  cases ok1
  · simp only [Bool.not_false, if_true, pure_eq] at h2 ⊢
    injection h2 with h2
    exact h2.symm
  · simp only [Bool.not_true, Bool.false_eq_true, if_false, bind_eq_ok] at h2 ⊢
    obtain ⟨ok2, h3, h4⟩ := h2
    have r2 := allC_ref (fun i b => tcBody2_ref) _ _ _ h3
    have r3 := allC_ref (fun i b => tcBody3_ref) _ _ _ h4
    rw [Bool.true_and] at r2
    rw [r3, r2]

/-! #### `nq`, `bmax`, `freeloc` -/

theorem isClassRepC_ref {s : Site} {t : Triple} {i : Nat} {b : Bool} (h : isClassRepC s t i = ok b) :
    b = isClassRep t i := by
  simp only [isClassRepC, bind_eq_ok] at h
  obtain ⟨ei, h1, h2⟩ := h
  have hei := (rd_nat_ok h1 0).2
  unfold isClassRep
  rw [Triple.eqAt, hei]
  have e : ((ei : Int) == (i : Int) + 1) = (ei == i + 1) := by
    rw [Bool.eq_iff_iff]; simp only [beq_iff_eq]; omega
  rw [e] at h2
  split at h2
  · rename_i hc
    simp only [bind_eq_ok, pure_eq] at h2
    obtain ⟨wi, h3, h4⟩ := h2
    injection h4 with h4
    have hwi := (rd_nat_ok h3 (-1)).2
    rw [Triple.wcAt, hwi, hc, ← h4]
    simp
  · rename_i hc
    simp only [pure_eq] at h2
    injection h2 with h2
    have : (ei == i + 1) = false := by simpa using hc
    simp [← h2, this]

theorem nqC_ref {t : Triple} {n r : Nat} (h : nqC t n = ok r) : r = ((List.range n).filter (isClassRep t)).length := by
  have := countC_ref (fun i b => isClassRepC_ref (s := .nq) (t := t)) _ _ _ h
  simpa using this

theorem effectiveBmaxC_ref {o : Opts} {t : Triple} {start : Seq} {b : Nat} (hl : start.length = t.N)
    (h : effectiveBmaxC o t start = ok b) : b = effectiveBmax o t := by
  simp only [effectiveBmaxC, bind_eq_ok] at h
  obtain ⟨auto, h1, h2⟩ := h
  unfold effectiveBmax
  cases hb : o.bmax with
  | some b' => rw [hb] at h2; simp only [pure_eq] at h2; injection h2 with h2; exact h2.symm
  | none =>
    rw [hb] at h2
    simp only at h2 ⊢
    cases ha : o.automatic
    · rw [ha] at h2
      simp only [Bool.false_eq_true, if_false] at h2 ⊢
      split at h2
      · rename_i hi
        simp only [bind_eq_ok, pure_eq] at h2
        obtain ⟨q, h3, h4⟩ := h2
        injection h4 with h4
        rw [if_pos hi, ← h4, nqC_ref h3]; rfl
      · rename_i hi
        simp only [pure_eq] at h2
        injection h2 with h2
        rw [if_neg hi, h2]
    · rw [ha] at h1 h2
      simp only [if_true, bind_eq_ok, pure_eq] at h1 h2 ⊢
      obtain ⟨_, _, q, h3, h4⟩ := h1
      injection h4 with h4
      injection h2 with h2
      rw [← h2, ← h4, nqC_ref h3, hl]; rfl

/-- what the `freeloc` loop has built after some prefix: `A` is the list of entries made so far -/
structure FlInv (fn : List Nat × Nat) (A : List Nat) (L : Nat) : Prop where
  len : fn.1.length = L
  nf : fn.2 = A.length
  get : ∀ k, fn.1.getD k 0 = A.getD k 0

theorem freelocStepC_ref {t : Triple} {fn fn' : List Nat × Nat} {i : Nat} {A : List Nat} {L : Nat}
    (inv : FlInv fn A L) (h : freelocStepC t fn i = ok fn') :
    FlInv fn' (A ++ if (isClassRep t i && !isFixed (t.stAt i)) = true then [i] else []) L := by
  simp only [freelocStepC, bind_eq_ok] at h
  obtain ⟨c, h1, h2⟩ := h
  have hc := isClassRepC_ref h1
  subst hc
  cases hcr : isClassRep t i
  · rw [hcr] at h2
    simp only [Bool.false_eq_true, if_false, pure_eq] at h2
    injection h2 with h2
    subst h2
    simpa using inv
  · rw [hcr] at h2
    simp only [if_true, bind_eq_ok] at h2
    obtain ⟨ch, h3, h4⟩ := h2
    have hch := (rd_nat_ok h3 ' ').2
    rw [Triple.stAt, hch]
    cases hf : isFixed ch
    · rw [hf] at h4
      simp only [Bool.not_false, if_true, bind_eq_ok, pure_eq] at h4
      obtain ⟨fl, h5, h6⟩ := h4
      injection h6 with h6
      obtain ⟨hlt, hfl⟩ := wr_nat_ok h5
      subst h6
      simp only [Bool.true_and, Bool.not_false, if_true]
      refine ⟨by simp [hfl, inv.len], by simp [inv.nf], ?_⟩
      intro k
      simp only [hfl]
      rw [getD_set, inv.nf]
      by_cases hk : k < A.length
      · rw [if_neg (by omega), inv.get]
        simp [List.getD_eq_getElem?_getD, List.getElem?_append_left hk]
      · have hk' : A.length ≤ k := by omega
        by_cases hk2 : A.length = k
        · rw [if_pos ⟨hk2, by rw [← inv.nf]; exact hlt⟩]; subst hk2; simp [List.getD_eq_getElem?_getD]
        · rw [if_neg (by omega), inv.get, getD_of_length_le hk']
          have : ([i] : List Nat)[k - A.length]? = none := List.getElem?_eq_none (by simp; omega)
          simp [List.getD_eq_getElem?_getD, List.getElem?_append_right hk', this]
    · rw [hf] at h4
      simp only [Bool.not_true, Bool.false_eq_true, if_false, pure_eq] at h4
      injection h4 with h4
      subst h4
      simpa using inv

theorem freelocFold_ref {t : Triple} {L : Nat} :
    ∀ (is : List Nat) (fn fn' : List Nat × Nat) (A : List Nat), FlInv fn A L →
      foldlC (freelocStepC t) fn is = ok fn' →
      FlInv fn' (A ++ is.filter (fun i => isClassRep t i && !isFixed (t.stAt i))) L := by
  intro is
  induction is with
  | nil => intro fn fn' A inv h; simp only [foldlC] at h; injection h with h; subst h; simpa using inv
  | cons i is ih =>
    intro fn fn' A inv h
    simp only [foldlC, bind_eq_ok] at h
    obtain ⟨fn1, h1, h2⟩ := h
    have := ih _ _ _ (freelocStepC_ref inv h1) h2
    rw [List.append_assoc] at this
    rw [List.filter_cons]
    split <;> simp_all

/-- the table built by the checked loop is `freeLocs t`, zero-padded to `N` cells -/
theorem freelocC_ref {t : Triple} {fn : List Nat × Nat} (h : freelocC t = ok fn) : FlInv fn (freeLocs t) t.N := by
  have := freelocFold_ref (t := t) (L := t.N) _ _ _ [] ⟨by simp, rfl, fun k => by simp [List.getD_eq_getElem?_getD, List.getElem?_replicate]; split <;> rfl⟩ h
  simpa [freeLocs] using this

/-! #### `mutate`, the loop -/

theorem mutateC_ref {t : Triple} {fl : List Nat} {nf : Nat} {S S' : Seq} {k : Nat} {b : Char} (hn : nf ≠ 0)
    (h : mutateC t fl nf S k b = ok S') : k < fl.length ∧ S' = mutate t S (fl.getD k 0) b := by
  unfold mutateC at h
  rw [if_neg (by simpa using hn)] at h
  simp only [bind_eq_ok] at h
  obtain ⟨i, h1, _, _, _, _, S1, h4, h5⟩ := h
  obtain ⟨hk, hi⟩ := rd_nat_ok h1 0
  rw [hi, mutate, ← (wr_nat_ok h4).2]
  exact ⟨hk, constrainSingleFastC_ref h5⟩

theorem copyLoopC_spec {s : Site} {a b : Arr} {src : Seq} (d : Char) :
    ∀ (is : List Nat) (dst dst' : Seq), copyLoopC s a b src is dst = ok dst' →
      dst'.length = dst.length ∧ (∀ k ∈ is, k < src.length ∧ k < dst.length) ∧
      ∀ k, dst'.getD k d = if k ∈ is then src.getD k d else dst.getD k d := by
  intro is
  induction is with
  | nil => intro dst dst' h; simp only [copyLoopC] at h; injection h with h; subst h; simp
  | cons i is ih =>
    intro dst dst' h
    simp only [copyLoopC, bind_eq_ok] at h
    obtain ⟨v, h1, d1, h2, h3⟩ := h
    obtain ⟨hi, hv⟩ := rd_nat_ok h1 d
    obtain ⟨hj, hd1⟩ := wr_nat_ok h2
    obtain ⟨e1, e2, e3⟩ := ih _ _ h3
    have hl : d1.length = dst.length := by rw [hd1]; simp
    refine ⟨by rw [e1, hl], ?_, ?_⟩
    · intro k hk
      rcases List.mem_cons.1 hk with e | e
      · subst e; exact ⟨hi, hj⟩
      · have := e2 k e; rw [hl] at this; exact this
    · intro k
      rw [e3 k]
      by_cases hk : k ∈ is
      · rw [if_pos hk, if_pos (List.mem_cons_of_mem _ hk)]
      · rw [if_neg hk, hd1, getD_set]
        by_cases hik : i = k
        · subst hik; rw [if_pos ⟨rfl, hj⟩, if_pos List.mem_cons_self, hv]
        · rw [if_neg (by intro hc; exact hik hc.1), if_neg (by intro hc; rcases List.mem_cons.1 hc with e | e; exact hik e.symm; exact hk e)]

theorem ext_getD {l1 l2 : List Char} (hl : l1.length = l2.length) (h : ∀ k, k < l1.length → l1.getD k ' ' = l2.getD k ' ') :
    l1 = l2 := by
  apply List.ext_getElem hl
  intro k h1 h2
  have := h k h1
  simpa [List.getD_eq_getElem?_getD, List.getElem?_eq_getElem h1, List.getElem?_eq_getElem h2] using this

theorem stepC_ref {t : Triple} {fl : List Nat} {nf : Nat} {s s' : StateC} {e : EventC} (hn : nf ≠ 0)
    (hl : s.S.length = t.N) (h : stepC t fl nf s e = ok s') :
    e.k < fl.length ∧ s'.toState = step t s.toState ⟨fl.getD e.k 0, e.base, e.cmp⟩ ∧ s'.S.length = t.N := by
  simp only [stepC, bind_eq_ok] at h
  obtain ⟨oldS, h1, S1, h2, h3⟩ := h
  obtain ⟨hk, hS1⟩ := mutateC_ref hn h2
  have hS1l : S1.length = t.N := by rw [hS1, mutate_length, hl]
  refine ⟨hk, ?_⟩
  unfold step
  simp only [StateC.toState]
  split at h3
  · rename_i hc
    simp only [pure_eq] at h3
    injection h3 with h3
    subst h3
    simp only [if_pos hc, hS1]
    exact ⟨trivial, by rw [← hS1]; exact hS1l⟩
  · rename_i hc
    simp only [bind_eq_ok, pure_eq] at h3
    obtain ⟨S2, h4, h5⟩ := h3
    injection h5 with h5
    subst h5
    simp only [if_neg hc]
    obtain ⟨a1, a2, a3⟩ := copyLoopC_spec ' ' _ _ _ h1
    obtain ⟨b1, b2, b3⟩ := copyLoopC_spec ' ' _ _ _ h4
    have : S2 = s.S := by
      apply ext_getD (by rw [b1, hS1l, hl])
      intro k hk
      rw [b1, hS1l] at hk
      have hm : k ∈ List.range t.N := List.mem_range.2 hk
      rw [b3 k, if_pos hm, a3 k, if_pos hm]
    rw [this]
    exact ⟨rfl, hl⟩

theorem runC_ref {t : Triple} {p : Params} {fl : List Nat} {nf : Nat} :
    ∀ (es : List EventC) (s s' : StateC), s.S.length = t.N → runC t p fl nf s es = ok s' →
      s'.toState = run t p nf s.toState (es.map (fun e => ⟨fl.getD e.k 0, e.base, e.cmp⟩)) ∧ s'.S.length = t.N := by
  intro es
  induction es with
  | nil => intro s s' hl h; simp only [runC] at h; injection h with h; subst h; exact ⟨rfl, hl⟩
  | cons e es ih =>
    intro s s' hl h
    simp only [runC] at h
    simp only [List.map_cons, run]
    split at h
    · rename_i hr
      rw [if_pos hr]
      simp only [bind_eq_ok] at h
      obtain ⟨s1, h1, h2⟩ := h
      have hn : nf ≠ 0 := by
        simp only [running, Bool.and_eq_true, decide_eq_true_eq] at hr
        omega
      obtain ⟨_, r1, r2⟩ := stepC_ref hn hl h1
      rw [← r1]
      exact ih _ _ r2 h2
    · rename_i hr
      rw [if_neg hr]
      injection h with h
      subst h
      exact ⟨rfl, hl⟩

/-- the indices the executed iterations used were inside the `freeloc` array -/
theorem runC_events {t : Triple} {p : Params} {fl : List Nat} {nf : Nat} (hfl : fl.length = t.N) :
    ∀ (es : List EventC) (s s' : StateC), s.S.length = t.N → runC t p fl nf s es = ok s' →
      ∀ e ∈ es.take (runList t p nf s.toState (es.map (fun e => ⟨fl.getD e.k 0, e.base, e.cmp⟩))).length, e.k < t.N := by
  intro es
  induction es with
  | nil => intro s s' _ _ e he; simp at he
  | cons e es ih =>
    intro s s' hl h
    simp only [runC] at h
    simp only [List.map_cons, runList]
    split at h
    · rename_i hr
      rw [if_pos hr]
      simp only [bind_eq_ok] at h
      obtain ⟨s1, h1, h2⟩ := h
      have hn : nf ≠ 0 := by
        simp only [running, Bool.and_eq_true, decide_eq_true_eq] at hr
        omega
      obtain ⟨r0, r1, r2⟩ := stepC_ref hn hl h1
      intro e' he'
      simp only [List.length_cons, List.take_succ_cons, List.mem_cons] at he'
      rcases he' with rfl | he'
      · rw [← hfl]; exact r0
      · rw [← r1] at he'
        exact ih _ _ r2 h2 e' he'
    · rename_i hr
      rw [if_neg hr]
      intro e' he'
      simp at he'

theorem programC_ref {t : Triple} {o : Opts} {start : Seq} {es : List EventC} {r : Option Seq}
    (hl : start.length = t.N) (h : programC t o start es = ok r) :
    r = program t o start (es.map (EventC.toEvent t)) := by
  simp only [programC, bind_eq_ok] at h
  obtain ⟨bmax, h1, S, h2, c, h3, h4⟩ := h
  have hb := effectiveBmaxC_ref hl h1
  have hS := constrainC_ref h2
  have hc := testConsistencyC_ref h3
  unfold program
  simp only
  rw [← hS, ← hc]
  cases c
  · simp only [Bool.not_false, if_true, pure_eq] at h4 ⊢
    injection h4 with h4
    exact h4.symm
  · simp only [Bool.not_true, Bool.false_eq_true, if_false, bind_eq_ok] at h4 ⊢
    obtain ⟨fn, h5, fin, h6, S', h7, c', h8, h9⟩ := h4
    have inv := freelocC_ref h5
    have hSl : S.length = t.N := by
      rw [hS]; unfold constrain
      have := foldl_range_inv (fun _ (sm : Seq × List Bool) => sm.1.length = t.N) (constrainStep t) t.N
        (start, List.replicate t.N false) hl (fun k sm _ hk => by rw [(cstep_length sm k).1]; exact hk)
      exact this
    obtain ⟨r1, _⟩ := runC_ref (t := t) es ⟨S, List.replicate t.N ' ', 0, 0⟩ fin hSl h6
    have hev : es.map (fun e => (⟨fn.1.getD e.k 0, e.base, e.cmp⟩ : Event)) = es.map (EventC.toEvent t) := by
      apply List.map_congr_left
      intro e _
      simp only [EventC.toEvent, inv.get]
    rw [hev, inv.nf, hb] at r1
    have hfin : fin.S = (run t ⟨effectiveBmax o t, o.imax⟩ (freeLocs t).length ⟨S, 0, 0⟩ (es.map (EventC.toEvent t))).S := by
      exact congrArg State.S r1
    rw [← hfin, ← constrainC_ref h7, ← testConsistencyC_ref h8]
    cases c'
    · simp only [Bool.not_false, if_true, pure_eq] at h9 ⊢
      injection h9 with h9
      exact h9.symm
    · simp only [Bool.not_true, Bool.false_eq_true, if_false, pure_eq] at h9 ⊢
      injection h9 with h9
      exact h9.symm

/-! ### 3. safety: no out-of-range access under `Bounds` -/

/-- the part of the contract that memory safety needs: the loader's length guarantee and the value ranges of
    `wc` and `eq` (which the loader does *not* check) -/
structure Bounds (t : Triple) : Prop where
  eqLen : t.eq.length = t.N
  wcLen : t.wc.length = t.N
  wcB : ∀ i, i < t.N → t.wcAt i ≠ -1 → 1 ≤ t.wcAt i ∧ t.wcAt i ≤ (t.N : Int)
  eqB : ∀ i, i < t.N → t.eqAt i ≤ t.N

instance (t : Triple) : Decidable (Bounds t) :=
  if h : t.eq.length = t.N ∧ t.wc.length = t.N ∧
      (∀ i, i < t.N → t.wcAt i ≠ -1 → 1 ≤ t.wcAt i ∧ t.wcAt i ≤ (t.N : Int)) ∧ (∀ i, i < t.N → t.eqAt i ≤ t.N)
  then isTrue ⟨h.1, h.2.1, h.2.2.1, h.2.2.2⟩
  else isFalse (fun b => h ⟨b.eqLen, b.wcLen, b.wcB, b.eqB⟩)

theorem Bounds.of_contract {t : Triple} (c : Contract t) : Bounds t := by
  obtain ⟨_, h1, h2, _, h3⟩ := c
  refine ⟨h1, h2, ?_, ?_⟩
  · intro i hi hw
    have := (h3 i hi).2.2 hw
    exact ⟨this.1, this.2.1⟩
  · intro i hi
    by_cases he : t.eqAt i = 0
    · omega
    · have := ((h3 i hi).2.1 he).1
      omega

theorem rd_isOk {α : Type} (a : Arr) (s : Site) {A : List α} {i : Int} (h0 : 0 ≤ i) (h : i.toNat < A.length) :
    IsOk (rd a s A i) := by
  refine ⟨A[i.toNat], ?_⟩
  unfold rd
  rw [if_pos h0, List.getElem?_eq_getElem h]

theorem rd_nat_isOk {α : Type} (a : Arr) (s : Site) {A : List α} {n : Nat} (h : n < A.length) :
    IsOk (rd a s A (n : Int)) :=
  rd_isOk a s (Int.natCast_nonneg n) (by simpa using h)

theorem isOk_of_eq {α : Type} {x : Res α} {v : α} (h : x = ok v) : IsOk x := ⟨v, h⟩

theorem foldlC_ok {σ : Type} {stepC : σ → Nat → Res σ} (Inv : σ → Prop) :
    ∀ (is : List Nat) (s : σ), (∀ s i, i ∈ is → Inv s → ∃ s', stepC s i = ok s' ∧ Inv s') → Inv s →
      ∃ s', foldlC stepC s is = ok s' ∧ Inv s' := by
  intro is
  induction is with
  | nil => intro s _ hs; exact ⟨s, rfl, hs⟩
  | cons i is ih =>
    intro s h hs
    obtain ⟨s1, h1, h2⟩ := h s i List.mem_cons_self hs
    obtain ⟨s2, h3, h4⟩ := ih s1 (fun s j hj => h s j (List.mem_cons_of_mem _ hj)) h2
    exact ⟨s2, by simp only [foldlC, h1, ok_bind, h3], h4⟩

theorem allC_ok {body : Nat → Res Bool} :
    ∀ (is : List Nat) (OK : Bool), (∀ i ∈ is, IsOk (body i)) → IsOk (allC body is OK) := by
  intro is
  induction is with
  | nil => intro OK _; exact ⟨OK, rfl⟩
  | cons i is ih =>
    intro OK h
    obtain ⟨b, hb⟩ := h i List.mem_cons_self
    simp only [allC, hb, ok_bind]
    exact ih _ (fun j hj => h j (List.mem_cons_of_mem _ hj))

theorem countC_ok {body : Nat → Res Bool} :
    ∀ (is : List Nat) (n : Nat), (∀ i ∈ is, IsOk (body i)) → IsOk (countC body is n) := by
  intro is
  induction is with
  | nil => intro n _; exact ⟨n, rfl⟩
  | cons i is ih =>
    intro n h
    obtain ⟨b, hb⟩ := h i List.mem_cons_self
    simp only [countC, hb, ok_bind]
    exact ih _ (fun j hj => h j (List.mem_cons_of_mem _ hj))

theorem classLoopC_ok {s : Site} {t : Triple} {key : Res Int} {i : Nat} {f : Char → Char} {mark : Bool}
    (hkey : IsOk key) (hel : t.eq.length = t.N) (hi : i < t.N) :
    ∀ (js : List Nat) (sm : Seq × List Bool), (∀ j ∈ js, j < t.N) → sm.1.length = t.N →
      (mark = true → sm.2.length = t.N) →
      ∃ sm', classLoopC s t key i f mark js sm = ok sm' ∧ sm'.1.length = sm.1.length ∧ sm'.2.length = sm.2.length := by
  obtain ⟨K, rfl⟩ := hkey
  intro js
  induction js with
  | nil => intro sm _ _ _; exact ⟨sm, rfl, rfl, rfl⟩
  | cons j js ih =>
    intro sm hjs hS hm
    have hj : j < t.N := hjs j List.mem_cons_self
    have hjs' : ∀ j' ∈ js, j' < t.N := fun j' h => hjs j' (List.mem_cons_of_mem _ h)
    simp only [classLoopC, rd_nat_of_lt .eq s (by rw [hel]; exact hj : j < t.eq.length) 0, ok_bind]
    split
    · rw [rd_nat_of_lt .S s (by rw [hS]; exact hi : i < sm.1.length) ' ']
      simp only [ok_bind]
      rw [wr_nat_of_lt .S s (by rw [hS]; exact hj : j < sm.1.length)]
      simp only [ok_bind]
      cases mark
      · simp only [Bool.false_eq_true, if_false, pure_eq, ok_bind]
        obtain ⟨sm', h1, h2, h3⟩ := ih (sm.1.set j (f (sm.1.getD i ' ')), sm.2) hjs' (by simp [hS]) (fun h => nomatch h)
        exact ⟨sm', h1, by rw [h2]; simp, h3⟩
      · simp only [if_true]
        rw [wr_nat_of_lt .marked s (by rw [hm rfl]; exact hj : j < sm.2.length)]
        simp only [ok_bind]
        obtain ⟨sm', h1, h2, h3⟩ := ih (sm.1.set j (f (sm.1.getD i ' ')), sm.2.set j true) hjs' (by simp [hS])
          (fun _ => by simp [hm rfl])
        exact ⟨sm', h1, by rw [h2]; simp, by rw [h3]; simp⟩
    · exact ih sm hjs' hS hm

theorem eqKey_isOk (s : Site) {t : Triple} {i : Nat} (h : i < t.eq.length) : IsOk (eqKey s t i) := by
  unfold eqKey
  rw [rd_nat_of_lt .eq s h 0]
  exact ⟨_, rfl⟩

theorem wcKey_isOk (s : Site) {t : Triple} {i : Nat} (h : i < t.wc.length) : IsOk (wcKey s t i) :=
  rd_nat_isOk .wc s h

theorem constrainSingleFastC_ok {t : Triple} (b : Bounds t) {S : Seq} {i : Nat} (hi : i < t.N) (hS : S.length = t.N) :
    ∃ S', constrainSingleFastC t S i = ok S' ∧ S'.length = t.N := by
  have hjs : ∀ j ∈ List.range' (i + 1) (t.N - (i + 1)), j < t.N := by
    intro j hj
    have := List.mem_range'_1.1 hj
    omega
  obtain ⟨sm1, h1, h2, _⟩ := classLoopC_ok (s := .constrainSingleFast) (f := id) (mark := false)
    (eqKey_isOk .constrainSingleFast (by rw [b.eqLen]; exact hi)) b.eqLen hi _ (S, []) hjs hS (fun h => nomatch h)
  obtain ⟨sm2, h3, h4, _⟩ := classLoopC_ok (s := .constrainSingleFast) (f := WC) (mark := false)
    (wcKey_isOk .constrainSingleFast (by rw [b.wcLen]; exact hi)) b.eqLen hi _ sm1 hjs (by rw [h2]; exact hS)
    (fun h => nomatch h)
  refine ⟨sm2.1, ?_, by rw [h4, h2]; exact hS⟩
  simp only [constrainSingleFastC, h1, ok_bind, h3, pure_eq]

theorem constrainStepC_ok {t : Triple} (b : Bounds t) {sm : Seq × List Bool} {i : Nat} (hi : i < t.N)
    (hS : sm.1.length = t.N) (hm : sm.2.length = t.N) :
    ∃ sm', constrainStepC t sm i = ok sm' ∧ sm'.1.length = t.N ∧ sm'.2.length = t.N := by
  simp only [constrainStepC, rd_nat_of_lt .marked .constrain (by rw [hm]; exact hi : i < sm.2.length) false, ok_bind]
  split
  · exact ⟨sm, rfl, hS, hm⟩
  · have hjs : ∀ j ∈ List.range t.N, j < t.N := fun j hj => List.mem_range.1 hj
    obtain ⟨sm1, h1, h2, h2'⟩ := classLoopC_ok (s := .constrain) (f := id) (mark := true)
      (eqKey_isOk .constrain (by rw [b.eqLen]; exact hi)) b.eqLen hi _ sm hjs hS (fun _ => hm)
    obtain ⟨sm2, h3, h4, h4'⟩ := classLoopC_ok (s := .constrain) (f := WC) (mark := true)
      (wcKey_isOk .constrain (by rw [b.wcLen]; exact hi)) b.eqLen hi _ sm1 hjs (by rw [h2]; exact hS)
      (fun _ => by rw [h2']; exact hm)
    refine ⟨sm2, ?_, by rw [h4, h2]; exact hS, by rw [h4', h2']; exact hm⟩
    simp only [h1, ok_bind, h3]

theorem constrainC_ok {t : Triple} (b : Bounds t) {S : Seq} (hS : S.length = t.N) :
    ∃ S', constrainC t S = ok S' ∧ S'.length = t.N := by
  obtain ⟨sm, h1, h2, _⟩ := foldlC_ok (stepC := constrainStepC t) (fun sm => sm.1.length = t.N ∧ sm.2.length = t.N)
    (List.range t.N) (S, List.replicate t.N false)
    (fun sm i hi inv => constrainStepC_ok b (List.mem_range.1 hi) inv.1 inv.2) ⟨hS, by simp⟩
  exact ⟨sm.1, by simp only [constrainC, h1, ok_bind, pure_eq], h2⟩

/-! #### `test_consistency` -/

theorem rdZ_isOk (a : Arr) (s : Site) {A : List Char} {i : Int} (h0 : 0 ≤ i) (h : i ≤ (A.length : Int)) :
    IsOk (rdZ a s A i) := by
  unfold rdZ
  split
  · exact ⟨_, rfl⟩
  · exact rd_isOk a s h0 (by omega)

theorem tcWc_isOk (s : Site) (a : Arr) {A : Seq} (c : Char) {wi : Int}
    (h : wi ≠ -1 → 1 ≤ wi ∧ wi ≤ (A.length : Int)) : IsOk (tcWc s a A c wi) := by
  unfold tcWc
  split
  · rename_i hw
    have hb := h (by simpa using hw)
    apply isOk_bind (rd_isOk a s (by omega) (by omega))
    intro sw _
    split
    · exact isOk_bind (rdZ_isOk a _ (by omega) hb.2) (fun _ _ => isOk_pure _)
    · exact isOk_pure _
  · exact isOk_pure _

theorem tcEq_isOk (s : Site) (a : Arr) {A : Seq} (c : Char) {ei : Nat} (h : ei ≤ A.length) : IsOk (tcEq s a A c ei) := by
  unfold tcEq
  split
  · rename_i hw
    have hb : ei ≠ 0 := by simpa using hw
    apply isOk_bind (rd_isOk a s (by omega) (by omega))
    intro se _
    split
    · exact isOk_bind (rdZ_isOk a _ (by omega) (by omega)) (fun _ _ => isOk_pure _)
    · exact isOk_pure _
  · exact isOk_pure _

theorem tcBody1_isOk {t : Triple} (b : Bounds t) {i : Nat} (hi : i < t.N) : IsOk (tcBody1 t i) := by
  have hiw : i < t.wc.length := by rw [b.wcLen]; exact hi
  have hie : i < t.eq.length := by rw [b.eqLen]; exact hi
  unfold tcBody1
  apply isOk_bind (rd_nat_isOk _ _ hiw)
  intro wi hwi
  have ewi : t.wcAt i = wi := (rd_nat_ok hwi (-1)).2
  apply isOk_bind
  · split
    · rename_i hw
      have hb := b.wcB i hi (by rw [ewi]; simpa using hw)
      rw [ewi] at hb
      apply isOk_bind (rd_isOk _ _ (by omega) (by rw [b.wcLen]; omega))
      intro _ _
      exact isOk_bind (rd_nat_isOk _ _ hie) (fun _ _ => isOk_pure _)
    · exact isOk_pure _
  intro b1 _
  apply isOk_bind (rd_nat_isOk _ _ hie)
  intro ei hei
  have eei : t.eqAt i = ei := (rd_nat_ok hei 0).2
  have hb := b.eqB i hi
  rw [eei] at hb
  apply isOk_bind
  · split
    · rename_i hw
      have : ei ≠ 0 := by simpa using hw
      exact isOk_bind (rd_isOk _ _ (by omega) (by rw [b.eqLen]; omega)) (fun _ _ => isOk_pure _)
    · exact isOk_pure _
  intro _ _
  exact isOk_pure _

theorem tcBody2_isOk {t : Triple} (b : Bounds t) {S : Seq} (hS : S.length = t.N) {i : Nat} (hi : i < t.N) :
    IsOk (tcBody2 t S i) := by
  have hiw : i < t.wc.length := by rw [b.wcLen]; exact hi
  have hie : i < t.eq.length := by rw [b.eqLen]; exact hi
  unfold tcBody2
  apply isOk_bind (rd_nat_isOk _ _ (by exact hi))
  intro sti _
  apply isOk_bind (rd_nat_isOk _ _ (by rw [hS]; exact hi))
  intro si _
  apply isOk_bind (rd_nat_isOk _ _ hiw)
  intro wi hwi
  have ewi : t.wcAt i = wi := (rd_nat_ok hwi (-1)).2
  apply isOk_bind (tcWc_isOk _ _ _ (by rw [hS, ← ewi]; exact b.wcB i hi))
  intro _ _
  apply isOk_bind (rd_nat_isOk _ _ hie)
  intro ei hei
  have eei : t.eqAt i = ei := (rd_nat_ok hei 0).2
  apply isOk_bind (tcEq_isOk _ _ _ (by rw [hS, ← eei]; exact b.eqB i hi))
  intro _ _
  exact isOk_pure _

theorem tcBody3_isOk {t : Triple} (b : Bounds t) {i : Nat} (hi : i < t.N) : IsOk (tcBody3 t i) := by
  have hiw : i < t.wc.length := by rw [b.wcLen]; exact hi
  have hie : i < t.eq.length := by rw [b.eqLen]; exact hi
  unfold tcBody3
  apply isOk_bind (rd_nat_isOk _ _ hiw)
  intro wi hwi
  have ewi : t.wcAt i = wi := (rd_nat_ok hwi (-1)).2
  apply isOk_bind (rd_nat_isOk _ _ (by exact hi))
  intro sti _
  apply isOk_bind (tcWc_isOk _ _ _ (by rw [← ewi]; exact b.wcB i hi))
  intro _ _
  apply isOk_bind (rd_nat_isOk _ _ hie)
  intro ei hei
  have eei : t.eqAt i = ei := (rd_nat_ok hei 0).2
  apply isOk_bind (tcEq_isOk _ _ _ (by rw [← eei]; exact b.eqB i hi))
  intro _ _
  exact isOk_pure _

theorem testConsistencyC_isOk {t : Triple} (b : Bounds t) {S : Seq} (hS : S.length = t.N) :
    IsOk (testConsistencyC t S) := by
  unfold testConsistencyC
  apply isOk_bind (allC_ok _ _ (fun i hi => tcBody1_isOk b (List.mem_range.1 hi)))
  intro ok1 _
  split
  · exact isOk_pure _
  · apply isOk_bind (allC_ok _ _ (fun i hi => tcBody2_isOk b hS (List.mem_range.1 hi)))
    intro ok2 _
    exact allC_ok _ _ (fun i hi => tcBody3_isOk b (List.mem_range.1 hi))

/-! #### `nq`, `nbp`, `bmax`, `freeloc` -/

theorem isClassRepC_isOk (s : Site) {t : Triple} (b : Bounds t) {i : Nat} (hi : i < t.N) : IsOk (isClassRepC s t i) := by
  unfold isClassRepC
  apply isOk_bind (rd_nat_isOk _ _ (by rw [b.eqLen]; exact hi))
  intro _ _
  split
  · exact isOk_bind (rd_nat_isOk _ _ (by rw [b.wcLen]; exact hi)) (fun _ _ => isOk_pure _)
  · exact isOk_pure _

theorem nqC_isOk {t : Triple} (b : Bounds t) {n : Nat} (hn : n ≤ t.N) : IsOk (nqC t n) :=
  countC_ok _ _ (fun _ hi => isClassRepC_isOk .nq b (Nat.lt_of_lt_of_le (List.mem_range.1 hi) hn))

theorem nbpC_isOk {t : Triple} (b : Bounds t) : IsOk (nbpC t) := by
  apply countC_ok
  intro i hi
  have := List.mem_range'_1.1 hi
  apply isOk_bind (rd_isOk _ _ (by omega) (by rw [b.wcLen]; omega))
  intro _ _
  exact isOk_bind (rd_nat_isOk _ _ (by rw [b.wcLen]; omega)) (fun _ _ => isOk_pure _)

theorem effectiveBmaxC_isOk {t : Triple} (b : Bounds t) (o : Opts) {start : Seq} (hl : start.length = t.N) :
    IsOk (effectiveBmaxC o t start) := by
  unfold effectiveBmaxC
  apply isOk_bind
  · split
    · apply isOk_bind (nbpC_isOk b)
      intro _ _
      exact isOk_bind (nqC_isOk b (by omega)) (fun _ _ => isOk_pure _)
    · exact isOk_pure _
  intro auto _
  split
  · exact isOk_pure _
  · split
    · exact isOk_pure _
    · split
      · exact isOk_bind (nqC_isOk b (Nat.le_refl _)) (fun _ _ => isOk_pure _)
      · exact isOk_pure _

theorem freelocStepC_ok {t : Triple} (b : Bounds t) {fn : List Nat × Nat} {i : Nat} (hi : i < t.N)
    (hl : fn.1.length = t.N) (hn : fn.2 < t.N) :
    ∃ fn', freelocStepC t fn i = ok fn' ∧ fn'.1.length = t.N ∧ fn'.2 ≤ fn.2 + 1 := by
  obtain ⟨c, hc⟩ := isClassRepC_isOk .freelocTable b hi
  simp only [freelocStepC, hc, ok_bind]
  split
  · rw [rd_nat_of_lt .St .freelocTable (by exact hi : i < t.st.length) ' ']
    simp only [ok_bind]
    split
    · rw [wr_nat_of_lt .freeloc .freelocTable (by rw [hl]; exact hn : fn.2 < fn.1.length)]
      simp only [ok_bind, pure_eq]
      exact ⟨_, rfl, by simp [hl], Nat.le_refl _⟩
    · exact ⟨fn, rfl, hl, by omega⟩
  · exact ⟨fn, rfl, hl, by omega⟩

theorem freelocFold_ok {t : Triple} (b : Bounds t) :
    ∀ (is : List Nat) (fn : List Nat × Nat), (∀ i ∈ is, i < t.N) → fn.1.length = t.N → fn.2 + is.length ≤ t.N →
      IsOk (foldlC (freelocStepC t) fn is) := by
  intro is
  induction is with
  | nil => intro fn _ _ _; exact ⟨fn, rfl⟩
  | cons i is ih =>
    intro fn his hl hn
    simp only [List.length_cons] at hn
    obtain ⟨fn1, h1, h2, h3⟩ := freelocStepC_ok b (his i List.mem_cons_self) hl (by omega)
    simp only [foldlC, h1, ok_bind]
    exact ih fn1 (fun j hj => his j (List.mem_cons_of_mem _ hj)) h2 (by omega)

theorem freelocC_isOk {t : Triple} (b : Bounds t) : IsOk (freelocC t) :=
  freelocFold_ok b _ _ (fun i hi => List.mem_range.1 hi) (by simp) (by simp)

/-! #### `mutate`, the loop, `main` -/

theorem mutateC_ok {t : Triple} (b : Bounds t) {fl : List Nat} {nf : Nat} {S : Seq} {k : Nat} (c : Char)
    (hk : k < fl.length) (hv : fl.getD k 0 < t.N) (hS : S.length = t.N) :
    ∃ S', mutateC t fl nf S k c = ok S' ∧ S'.length = t.N := by
  unfold mutateC
  split
  · exact ⟨S, rfl, hS⟩
  · rw [rd_nat_of_lt .freeloc .mutate hk 0]
    simp only [ok_bind]
    rw [rd_nat_of_lt .S .mutate (by rw [hS]; exact hv : fl.getD k 0 < S.length) ' ',
      rd_nat_of_lt .St .mutate (by exact hv : fl.getD k 0 < t.st.length) ' ']
    simp only [ok_bind]
    rw [wr_nat_of_lt .S .mutate (by rw [hS]; exact hv : fl.getD k 0 < S.length)]
    simp only [ok_bind]
    exact constrainSingleFastC_ok b hv (by simp [hS])

theorem copyLoopC_ok {s : Site} {a b : Arr} {src : Seq} :
    ∀ (is : List Nat) (dst : Seq), (∀ i ∈ is, i < src.length ∧ i < dst.length) →
      ∃ dst', copyLoopC s a b src is dst = ok dst' ∧ dst'.length = dst.length := by
  intro is
  induction is with
  | nil => intro dst _; exact ⟨dst, rfl, rfl⟩
  | cons i is ih =>
    intro dst h
    obtain ⟨h1, h2⟩ := h i List.mem_cons_self
    simp only [copyLoopC, rd_nat_of_lt a s h1 ' ', ok_bind, wr_nat_of_lt b s h2]
    obtain ⟨d', e1, e2⟩ := ih (dst.set i (src.getD i ' ')) (fun j hj => by
      have := h j (List.mem_cons_of_mem _ hj)
      simpa using this)
    exact ⟨d', e1, by rw [e2]; simp⟩

/-- what the loop needs of the `freeloc` table: every index that can be drawn is inside the array and holds a position -/
def TableOk (t : Triple) (fl : List Nat) (nf : Nat) : Prop := ∀ k, k < nf → k < fl.length ∧ fl.getD k 0 < t.N

theorem stepC_ok {t : Triple} (b : Bounds t) {fl : List Nat} {nf : Nat} (ht : TableOk t fl nf) {s : StateC} {e : EventC}
    (hk : e.k < nf) (hS : s.S.length = t.N) (hO : s.oldS.length = t.N) :
    ∃ s', stepC t fl nf s e = ok s' ∧ s'.S.length = t.N ∧ s'.oldS.length = t.N := by
  have hr : ∀ i ∈ List.range t.N, i < t.N := fun i hi => List.mem_range.1 hi
  obtain ⟨oldS, h1, h2⟩ := copyLoopC_ok (s := .loopSave) (a := .S) (b := .oldS) (src := s.S) (List.range t.N) s.oldS
    (fun i hi => by rw [hS, hO]; exact ⟨hr i hi, hr i hi⟩)
  obtain ⟨S1, h3, h4⟩ := mutateC_ok (nf := nf) b e.base (ht e.k hk).1 (ht e.k hk).2 hS
  simp only [stepC, h1, ok_bind, h3]
  split
  · exact ⟨_, rfl, h4, by rw [h2]; exact hO⟩
  · obtain ⟨S2, h5, h6⟩ := copyLoopC_ok (s := .loopRestore) (a := .oldS) (b := .S) (src := oldS) (List.range t.N) S1
      (fun i hi => by rw [h2, hO, h4]; exact ⟨hr i hi, hr i hi⟩)
    simp only [h5, ok_bind, pure_eq]
    exact ⟨_, rfl, by rw [h6]; exact h4, by rw [h2]; exact hO⟩

theorem runC_ok {t : Triple} (b : Bounds t) (p : Params) {fl : List Nat} {nf : Nat} (ht : TableOk t fl nf) :
    ∀ (es : List EventC) (s : StateC), (∀ e ∈ es, e.k < nf) → s.S.length = t.N → s.oldS.length = t.N →
      ∃ s', runC t p fl nf s es = ok s' ∧ s'.S.length = t.N := by
  intro es
  induction es with
  | nil => intro s _ hS _; exact ⟨s, rfl, hS⟩
  | cons e es ih =>
    intro s hes hS hO
    simp only [runC]
    split
    · obtain ⟨s1, h1, h2, h3⟩ := stepC_ok b ht (hes e List.mem_cons_self) hS hO
      simp only [h1, ok_bind]
      exact ih s1 (fun e' he' => hes e' (List.mem_cons_of_mem _ he')) h2 h3
    · exact ⟨s, rfl, hS⟩

theorem tableOk_of_inv {t : Triple} {fn : List Nat × Nat} (inv : FlInv fn (freeLocs t) t.N) : TableOk t fn.1 fn.2 := by
  intro k hk
  rw [inv.nf] at hk
  have hle : (freeLocs t).length ≤ t.N := by
    unfold freeLocs
    exact Nat.le_trans (List.length_filter_le _ _) (by simp)
  refine ⟨by rw [inv.len]; omega, ?_⟩
  rw [inv.get k]
  have hm : (freeLocs t).getD k 0 ∈ freeLocs t := by
    rw [List.getD_eq_getElem?_getD, List.getElem?_eq_getElem hk]
    exact List.getElem_mem hk
  unfold freeLocs at hm
  exact List.mem_range.1 (List.mem_filter.1 hm).1

theorem programC_ok {t : Triple} (b : Bounds t) (o : Opts) {start : Seq} (hl : start.length = t.N) {es : List EventC}
    (hes : ∀ e ∈ es, e.k < (freeLocs t).length) : IsOk (programC t o start es) := by
  unfold programC
  apply isOk_bind (effectiveBmaxC_isOk b o hl)
  intro bmax _
  obtain ⟨S, h1, h2⟩ := constrainC_ok b hl
  rw [h1]
  simp only [ok_bind]
  apply isOk_bind (testConsistencyC_isOk b h2)
  intro c _
  split
  · exact isOk_pure _
  · apply isOk_bind (freelocC_isOk b)
    intro fn hfn
    have inv := freelocC_ref hfn
    obtain ⟨fin, h3, h4⟩ := runC_ok b ⟨bmax, o.imax⟩ (tableOk_of_inv inv) es ⟨S, List.replicate t.N ' ', 0, 0⟩
      (fun e he => by rw [inv.nf]; exact hes e he) h2 (by simp)
    rw [h3]
    simp only [ok_bind]
    obtain ⟨S', h5, h6⟩ := constrainC_ok b h4
    rw [h5]
    simp only [ok_bind]
    apply isOk_bind (testConsistencyC_isOk b h6)
    intro c' _
    split <;> exact isOk_pure _

end Pepper.SsmChecked
