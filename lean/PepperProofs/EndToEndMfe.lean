import PepperProofs.EndToEnd
/-!
# C06 end to end, the `.mfe` stage

`Mfe.processResults` on a nucleotide string that spells every strand succeeds and leaves a `Good` state
(`processResults_ok`); `Mfe.output` on a `Good` state writes exactly the records `mfeRecs` (`output_ok`).
-/
namespace Pepper.EndToEnd
open Pepper Pepper.Pil Pepper.ConstraintGen Pepper.LinkSpec

/-! ## views and items -/

theorem viewNucs_false_bases (o : SeqObj) : viewNucs o false = nucsOfBases o.bases := by
  simp [viewNucs, basesOfView]

theorem viewNucs_not (o : SeqObj) (r : Bool) : viewNucs o (!r) = rc (viewNucs o r) := by
  cases r
  · exact viewNucs_true o
  · simp only [Bool.not_true, viewNucs_true, rc_rc']

theorem nucsOfItem_of_find {spec : Spec} {i : ItemRef} {o : SeqObj} (h : spec.findSeq i.name = some o) :
    nucsOfItem spec i = viewNucs o i.rev := by
  simp only [nucsOfItem, h]

theorem nucsOfItem_inv (spec : Spec) (i : ItemRef) : nucsOfItem spec i.inv = rc (nucsOfItem spec i) := by
  unfold nucsOfItem ItemRef.inv
  cases spec.findSeq i.name with
  | none => rfl
  | some o => exact viewNucs_not o i.rev

/-- the items of a view of a super-sequence, as `set_seq` / `get_seq` walk them -/
def viewItems (o : SeqObj) (rev : Bool) : List ItemRef := if rev then o.items.reverse.map ItemRef.inv else o.items

/-- the nucleotides of a view of a super-sequence are those of the items of the view in order -/
theorem viewNucs_items {spec : Spec} (wf : SpecWF spec) {o : SeqObj} (ho : o ∈ spec.seqs) (hs : o.isSup = true)
    (rev : Bool) : viewNucs o rev = (viewItems o rev).flatMap (nucsOfItem spec) := by
  have h0 : viewNucs o false = o.items.flatMap (nucsOfItem spec) := by
    rw [viewNucs_false_bases]; exact (wf.sup o ho hs).nucs
  cases rev
  · simpa [viewItems] using h0
  · rw [viewNucs_true, h0, rc_flatMap']
    simp only [viewItems, if_true, List.flatMap_map, nucsOfItem_inv]

/-- an item of a view of the super-sequence at index `k` resolves to an object at a smaller index -/
theorem viewItems_earlier {spec : Spec} (wf : SpecWF spec) {o : SeqObj} {k : Nat} (hk : spec.seqs[k]? = some o)
    (hs : o.isSup = true) (rev : Bool) :
    ∀ it ∈ viewItems o rev, ∃ o' j, spec.findSeq it.name = some o' ∧ spec.seqs[j]? = some o' ∧ j < k := by
  intro it hit
  have key : ∀ it ∈ o.items, ∃ o' j, spec.findSeq it.name = some o' ∧ spec.seqs[j]? = some o' ∧ j < k := by
    intro it hit
    obtain ⟨j, o', hj, hjo, hf⟩ := wf.supEarlier k o hk hs it hit
    exact ⟨o', j, hf, hjo, hj⟩
  cases rev
  · exact key it (by simpa [viewItems] using hit)
  · simp only [viewItems, if_true, List.mem_map, List.mem_reverse] at hit
    obtain ⟨it', hit', rfl⟩ := hit
    exact key it' hit'

/-- an object sits at one index only -/
theorem seqIdx_inj {spec : Spec} (wf : SpecWF spec) {o : SeqObj} {j k : Nat} (hj : spec.seqs[j]? = some o)
    (hk : spec.seqs[k]? = some o) : j = k := by
  have hj' : (spec.seqs.map (·.name))[j]? = some o.name := by rw [List.getElem?_map, hj]; rfl
  have hk' : (spec.seqs.map (·.name))[k]? = some o.name := by rw [List.getElem?_map, hk]; rfl
  have hlt : j < (spec.seqs.map (·.name)).length := (List.getElem?_eq_some_iff.1 hj').1
  exact (List.getElem?_inj hlt wf.seqNames).1 (hj'.trans hk'.symm)

/-! ## (a) every nucleotide of a view is known -/

theorem known_view_idx {t : CodeTable} {spec : Spec} (wf : SpecWF spec) (ok : SpecCodes t spec) :
    ∀ (b k : Nat) (o : SeqObj), k < b → spec.seqs[k]? = some o → ∀ rev, ∀ n ∈ viewNucs o rev, Known t (Pil.denote spec) n := by
  intro b
  induction b with
  | zero => intro k o hk; omega
  | succ b ih =>
    intro k o hk hko rev
    have ho : o ∈ spec.seqs := List.mem_of_getElem? hko
    have hfwd : ∀ n ∈ viewNucs o false, Known t (Pil.denote spec) n := by
      cases hs : o.isSup
      · rw [(wf.base o ho hs).2]; exact known_base wf ok ho hs
      · rw [viewNucs_items wf ho hs false]
        intro n hn
        obtain ⟨it, hit, hn⟩ := List.mem_flatMap.1 hn
        obtain ⟨o', j, hf, hj, hlt⟩ := viewItems_earlier wf hko hs false it hit
        rw [nucsOfItem_of_find hf] at hn
        exact ih j o' (by omega) hj it.rev n hn
    cases rev
    · exact hfwd
    · rw [viewNucs_true]; exact known_rc hfwd

/-- every nucleotide of a view of a sequence object of a loaded specification is on a strand or a declared position with a code -/
theorem known_viewNucs {t : CodeTable} {spec : Spec} (wf : SpecWF spec) (ok : SpecCodes t spec) {o : SeqObj}
    (ho : o ∈ spec.seqs) (rev : Bool) : ∀ n ∈ viewNucs o rev, Known t (Pil.denote spec) n := by
  obtain ⟨k, hk⟩ := List.getElem?_of_mem ho
  exact known_view_idx wf ok (k + 1) k o (by omega) hk rev

/-! ## association lists -/

theorem lookup_filter_self (a : Mfe.Assigned) (x : String) : (a.filter (·.1 != x)).lookup x = none := by
  induction a with
  | nil => rfl
  | cons p r ih =>
    obtain ⟨k, v⟩ := p
    by_cases h : k = x
    · subst h; simpa [List.filter_cons] using ih
    · have hb : (x == k) = false := by simpa using fun e : x = k => h e.symm
      simp [h, List.lookup_cons, hb, ih]

theorem lookup_filter_ne (a : Mfe.Assigned) {x n : String} (h : n ≠ x) : (a.filter (·.1 != x)).lookup n = a.lookup n := by
  induction a with
  | nil => rfl
  | cons p r ih =>
    obtain ⟨k, v⟩ := p
    by_cases hk : k = x
    · subst hk
      have hb : (n == k) = false := by simpa using h
      simp [List.lookup_cons, hb, ih]
    · simp only [List.filter_cons, bne_iff_ne, ne_eq, hk, not_false_eq_true, if_true, List.lookup_cons, ih]

theorem lookup_record_self (a : Mfe.Assigned) (x : String) (v : List Char) :
    (a.filter (·.1 != x) ++ [(x, v)]).lookup x = some v := by
  rw [List.lookup_append, lookup_filter_self]
  simp

theorem lookup_record_ne (a : Mfe.Assigned) {x n : String} (v : List Char) (h : n ≠ x) :
    (a.filter (·.1 != x) ++ [(x, v)]).lookup n = a.lookup n := by
  rw [List.lookup_append, lookup_filter_ne a h]
  have hb : (n == x) = false := by simpa using h
  cases a.lookup n <;> simp [List.lookup_cons, hb]

/-! ## (b) the invariant of `set_seq` -/

/-- the atomic sequence of every nucleotide of the region has been set -/
def Cov (a : Mfe.Assigned) (l : List Nuc) : Prop := ∀ m ∈ l, ∃ w, a.lookup m.var.dom = some w ∧ w ≠ []

/-- set values stay -/
def Mono (a a' : Mfe.Assigned) : Prop := ∀ n v, a.lookup n = some v → v ≠ [] → a'.lookup n = some v

/-- every set sequence spells its nucleotides, all of them on strands (`Good.spells`) -/
def Spells (spec : Spec) (asg : Var → Base) (a : Mfe.Assigned) : Prop :=
  ∀ n v, a.lookup n = some v → v ≠ [] → ∃ o, spec.findSeq n = some o ∧ v = spell asg (viewNucs o false) ∧
    ∀ m ∈ viewNucs o false, onStrand (Pil.denote spec) m.var = true

/-- a set object at an index below `b` has been handed down to its atomic sequences -/
def ClosedB (spec : Spec) (b : Nat) (a : Mfe.Assigned) : Prop :=
  ∀ n v o j, a.lookup n = some v → v ≠ [] → spec.findSeq n = some o → spec.seqs[j]? = some o → j < b →
    Cov a (viewNucs o false)

/-- a set value of the new state is an old one or has been handed down -/
def Rel (spec : Spec) (a a' : Mfe.Assigned) : Prop :=
  ∀ n v, a'.lookup n = some v → v ≠ [] → a.lookup n = some v ∨ ∀ o, spec.findSeq n = some o → Cov a' (viewNucs o false)

structure Step (spec : Spec) (asg : Var → Base) (a a' : Mfe.Assigned) (l : List Nuc) : Prop where
  sp : Spells spec asg a'
  mono : Mono a a'
  cov : Cov a' l
  rel : Rel spec a a'

theorem Mono.refl (a : Mfe.Assigned) : Mono a a := fun _ _ h _ => h
theorem Mono.trans {a b c : Mfe.Assigned} (h1 : Mono a b) (h2 : Mono b c) : Mono a c :=
  fun n v h hv => h2 n v (h1 n v h hv) hv

theorem Cov.mono {a a' : Mfe.Assigned} {l : List Nuc} (h : Cov a l) (hm : Mono a a') : Cov a' l := by
  intro m hm'
  obtain ⟨w, hw, hne⟩ := h m hm'
  exact ⟨w, hm _ _ hw hne, hne⟩

theorem Cov.revc {a : Mfe.Assigned} {l : List Nuc} (h : Cov a l) : Cov a (rc l) := by
  intro m hm
  simp only [rc, List.mem_map, List.mem_reverse] at hm
  obtain ⟨m', hm', rfl⟩ := hm
  exact h m' hm'

theorem Cov.append {a : Mfe.Assigned} {l l' : List Nuc} (h : Cov a l) (h' : Cov a l') : Cov a (l ++ l') := by
  intro m hm
  rcases List.mem_append.1 hm with hm | hm
  · exact h m hm
  · exact h' m hm

theorem Cov.view {a : Mfe.Assigned} {o : SeqObj} {r : Bool} (h : Cov a (viewNucs o r)) (r' : Bool) : Cov a (viewNucs o r') := by
  by_cases e : r' = r
  · rw [e]; exact h
  · have : r' = !r := by cases r <;> cases r' <;> simp_all
    rw [this, viewNucs_not]; exact h.revc

theorem onStrand_view {d : Design} {o : SeqObj} {r : Bool} (h : ∀ m ∈ viewNucs o r, onStrand d m.var = true) (r' : Bool) :
    ∀ m ∈ viewNucs o r', onStrand d m.var = true := by
  by_cases e : r' = r
  · rw [e]; exact h
  · have : r' = !r := by cases r <;> cases r' <;> simp_all
    rw [this, viewNucs_not]; exact onStrand_rc h

theorem ClosedB.le {spec : Spec} {b b' : Nat} {a : Mfe.Assigned} (h : ClosedB spec b a) (hb : b' ≤ b) : ClosedB spec b' a :=
  fun n v o j h1 h2 h3 h4 h5 => h n v o j h1 h2 h3 h4 (by omega)

theorem ClosedB.step {spec : Spec} {b : Nat} {a a' : Mfe.Assigned} (h : ClosedB spec b a) (hm : Mono a a')
    (hr : Rel spec a a') : ClosedB spec b a' := by
  intro n v o j h1 h2 h3 h4 h5
  rcases hr n v h1 h2 with h0 | h0
  · exact (h n v o j h0 h2 h3 h4 h5).mono hm
  · exact h0 o h3

theorem Rel.refl (spec : Spec) (a : Mfe.Assigned) : Rel spec a a := fun _ _ h _ => Or.inl h

theorem Rel.trans {spec : Spec} {a b c : Mfe.Assigned} (h1 : Rel spec a b) (h2 : Rel spec b c) (hm : Mono b c) :
    Rel spec a c := by
  intro n v h hv
  rcases h2 n v h hv with h0 | h0
  · rcases h1 n v h0 hv with h00 | h00
    · exact Or.inl h00
    · exact Or.inr (fun o ho => (h00 o ho).mono hm)
  · exact Or.inr h0

theorem fwdValue_spell {t : CodeTable} (hB : complBases t = true) (asg : Var → Base) (o : SeqObj) (r : Bool) :
    Mfe.fwdValue t r (spell asg (viewNucs o r)) = .ok (spell asg (viewNucs o false)) := by
  cases r
  · simp [Mfe.fwdValue]
  · simp only [Mfe.fwdValue, if_true, wcStr_spell hB, viewNucs_true, rc_rc']

theorem spell_view_length {spec : Spec} (wf : SpecWF spec) (asg : Var → Base) {o : SeqObj} (ho : o ∈ spec.seqs) (r : Bool) :
    (spell asg (viewNucs o r)).length = o.len := by
  rw [spell_length, viewNucs_length, wf.seqLen o ho]

/-- what `set_seq` on a view of the object at an index below `fuel` does -/
def SeqStep (t : CodeTable) (spec : Spec) (asg : Var → Base) (fuel : Nat) : Prop :=
  ∀ (a : Mfe.Assigned) (i : ItemRef) (o : SeqObj) (k : Nat), spec.findSeq i.name = some o → spec.seqs[k]? = some o → k < fuel →
    (∀ m ∈ viewNucs o false, onStrand (Pil.denote spec) m.var = true) → Spells spec asg a → ClosedB spec (k + 1) a →
    ∃ a', Mfe.setSeq t spec fuel a i (spell asg (viewNucs o i.rev)) = .ok a' ∧ Step spec asg a a' (viewNucs o false)

theorem setList_step {t : CodeTable} {spec : Spec} (wf : SpecWF spec) {asg : Var → Base} {fuel : Nat}
    (hS : SeqStep t spec asg fuel) (b : Nat) : ∀ (items : List ItemRef) (a : Mfe.Assigned),
    (∀ it ∈ items, ∃ o j, spec.findSeq it.name = some o ∧ spec.seqs[j]? = some o ∧ j < fuel ∧ j < b) →
    (∀ m ∈ items.flatMap (nucsOfItem spec), onStrand (Pil.denote spec) m.var = true) → Spells spec asg a → ClosedB spec b a →
    ∃ a', Mfe.setList t spec fuel a items (spell asg (items.flatMap (nucsOfItem spec))) = .ok a' ∧
      Step spec asg a a' (items.flatMap (nucsOfItem spec)) := by
  intro items
  induction items with
  | nil =>
    intro a _ _ hsp _
    refine ⟨a, by rw [Mfe.setList], hsp, Mono.refl a, fun m hm => by simp at hm, Rel.refl spec a⟩
  | cons it r ih =>
    intro a hres hon hsp hcl
    obtain ⟨o, j, hf, hj, hjf, hjb⟩ := hres it List.mem_cons_self
    have ho : o ∈ spec.seqs := List.mem_of_getElem? hj
    have hit : nucsOfItem spec it = viewNucs o it.rev := nucsOfItem_of_find hf
    have hon1 : ∀ m ∈ viewNucs o it.rev, onStrand (Pil.denote spec) m.var = true := by
      intro m hm; exact hon m (by rw [List.flatMap_cons, hit]; exact List.mem_append_left _ hm)
    obtain ⟨a1, he1, st1⟩ := hS a it o j hf hj hjf (onStrand_view hon1 false) hsp (hcl.le (by omega))
    obtain ⟨a2, he2, st2⟩ := ih a1 (fun x hx => hres x (List.mem_cons_of_mem _ hx))
      (fun m hm => hon m (by rw [List.flatMap_cons]; exact List.mem_append_right _ hm)) st1.sp (hcl.step st1.mono st1.rel)
    refine ⟨a2, ?_, st2.sp, st1.mono.trans st2.mono, ?_, st1.rel.trans st2.rel st2.mono⟩
    · rw [Mfe.setList]
      simp only [hf, List.flatMap_cons, hit, spell_append]
      rw [List.take_left' (spell_view_length wf asg ho it.rev), List.drop_left' (spell_view_length wf asg ho it.rev), he1]
      exact he2
    · rw [List.flatMap_cons, hit]
      exact ((st1.cov.view it.rev).mono st2.mono).append st2.cov

theorem mem_view_ne_nil {asg : Var → Base} {l : List Nuc} {m : Nuc} (h : m ∈ l) : spell asg l ≠ [] := by
  intro e
  have := congrArg List.length e
  rw [spell_length] at this
  cases l with
  | nil => cases h
  | cons x r => simp at this

/-- first assignment of an object -/
theorem setFresh_step {t : CodeTable} {spec : Spec} (wf : SpecWF spec) {asg : Var → Base} {fuel : Nat}
    (hS : SeqStep t spec asg fuel) {a : Mfe.Assigned} {i : ItemRef} {o : SeqObj} {k : Nat}
    (hf : spec.findSeq i.name = some o) (hk : spec.seqs[k]? = some o) (hkf : k < fuel + 1)
    (hon : ∀ m ∈ viewNucs o false, onStrand (Pil.denote spec) m.var = true) (hsp : Spells spec asg a)
    (hcl : ClosedB spec (k + 1) a) (hunset : ∀ w, a.lookup i.name = some w → w = []) :
    ∃ a', Mfe.setFresh t spec fuel a i o (spell asg (viewNucs o i.rev)) (spell asg (viewNucs o false)) = .ok a' ∧
      Step spec asg a a' (viewNucs o false) := by
  have ho : o ∈ spec.seqs := List.mem_of_getElem? hk
  have hname : o.name = i.name := (findSeq_mem hf).2
  generalize ha1 : a.filter (·.1 != i.name) ++ [(i.name, spell asg (viewNucs o false))] = a1
  have hself : a1.lookup i.name = some (spell asg (viewNucs o false)) := by rw [← ha1]; exact lookup_record_self _ _ _
  have hne : ∀ n, n ≠ i.name → a1.lookup n = a.lookup n := by intro n hn; rw [← ha1]; exact lookup_record_ne _ _ hn
  have hsp1 : Spells spec asg a1 := by
    intro n v hl hv
    by_cases hn : n = i.name
    · subst hn
      rw [hself] at hl
      exact ⟨o, hf, (Option.some.inj hl).symm, hon⟩
    · rw [hne n hn] at hl; exact hsp n v hl hv
  have hmono1 : Mono a a1 := by
    intro n v hl hv
    by_cases hn : n = i.name
    · subst hn; exact absurd (hunset v hl) hv
    · rw [hne n hn]; exact hl
  have hrel1 : ∀ a', Cov a' (viewNucs o false) → Mono a1 a' → Rel spec a1 a' → Rel spec a a' := by
    intro a' hc hm hr n v hl hv
    rcases hr n v hl hv with h0 | h0
    · by_cases hn : n = i.name
      · subst hn
        right
        intro o' ho'
        rw [hf] at ho'; cases ho'; exact hc
      · left; rw [← hne n hn]; exact h0
    · exact Or.inr h0
  rw [Mfe.setFresh, ha1]
  cases hs : o.isSup
  · simp only [Bool.not_false, if_true]
    have hcov : Cov a1 (viewNucs o false) := by
      intro m hm
      refine ⟨_, ?_, mem_view_ne_nil (asg := asg) hm⟩
      have : m.var.dom = i.name := by
        rw [(wf.base o ho hs).2] at hm
        simp only [fwd, List.mem_map, List.mem_range] at hm
        obtain ⟨x, _, rfl⟩ := hm
        exact hname
      rw [this]; exact hself
    exact ⟨a1, rfl, hsp1, hmono1, hcov, hrel1 a1 hcov (Mono.refl a1) (Rel.refl spec a1)⟩
  · simp only [Bool.not_true, Bool.false_eq_true, if_false]
    have hcl1 : ClosedB spec k a1 := by
      intro n v o' j h1 h2 h3 h4 h5
      have hn : n ≠ i.name := by
        intro e
        subst e
        rw [hf] at h3; cases h3
        have := seqIdx_inj wf h4 hk
        omega
      rw [hne n hn] at h1
      exact (hcl n v o' j h1 h2 h3 h4 (by omega)).mono hmono1
    have hv := viewNucs_items wf ho hs i.rev
    obtain ⟨a2, he, st⟩ := setList_step wf hS k (viewItems o i.rev) a1
      (by
        intro it hit
        obtain ⟨o', j, h1, h2, h3⟩ := viewItems_earlier wf hk hs i.rev it hit
        exact ⟨o', j, h1, h2, by omega, h3⟩)
      (by rw [← hv]; exact onStrand_view hon i.rev) hsp1 hcl1
    rw [← hv] at he st
    have hc : Cov a2 (viewNucs o false) := st.cov.view false
    exact ⟨a2, he, st.sp, hmono1.trans st.mono, hc, hrel1 a2 hc st.mono st.rel⟩

theorem setSeq_step {t : CodeTable} (hB : complBases t = true) {spec : Spec} (wf : SpecWF spec) (asg : Var → Base) :
    ∀ fuel, SeqStep t spec asg fuel := by
  intro fuel
  induction fuel with
  | zero => intro a i o k _ _ hk; omega
  | succ fuel ih =>
    intro a i o k hf hk hkf hon hsp hcl
    have ho : o ∈ spec.seqs := List.mem_of_getElem? hk
    rw [Mfe.setSeq]
    simp only [hf, fwdValue_spell hB]
    have hlen : (o.isSup && (spell asg (viewNucs o i.rev)).length != o.len) = false := by
      rw [spell_view_length wf asg ho]; simp
    simp only [hlen, Bool.false_eq_true, if_false]
    cases hl : a.lookup i.name with
    | none =>
      simp only
      exact setFresh_step wf ih hf hk hkf hon hsp hcl (by intro w hw; rw [hl] at hw; cases hw)
    | some old =>
      simp only
      by_cases he : old = []
      · subst he
        simp only [List.isEmpty_nil, Bool.not_true, Bool.false_eq_true, if_false]
        exact setFresh_step wf ih hf hk hkf hon hsp hcl (by intro w hw; rw [hl] at hw; cases hw; rfl)
      · have hne : (!old.isEmpty) = true := by cases old <;> simp_all
        simp only [hne, if_true]
        obtain ⟨o', ho', hv, _⟩ := hsp i.name old hl he
        rw [hf] at ho'; cases ho'
        simp only [hv, beq_self_eq_true, if_true]
        exact ⟨a, rfl, hsp, Mono.refl a, hcl i.name old o k hl he hf hk (by omega), Rel.refl spec a⟩

/-! ## (c) `process_results` -/

/-- `strand.set_seq` with the letters of the strand -/
theorem setStrand_step {t : CodeTable} (hB : complBases t = true) {spec : Spec} (wf : SpecWF spec) (asg : Var → Base)
    {st : StrandObj} (hst : st ∈ spec.strands) {a : Mfe.Assigned} (hsp : Spells spec asg a)
    (hcl : ClosedB spec spec.seqs.length a) :
    ∃ a', Mfe.setStrand t spec a st (spell asg (nucsOfBases st.bases)) = .ok a' ∧
      Step spec asg a a' (nucsOfBases st.bases) := by
  have hok := wf.strand st hst
  unfold Mfe.setStrand
  have hlen : ((spell asg (nucsOfBases st.bases)).length != st.len) = false := by
    rw [spell_length, wf.strandLen st hst]; simp
  simp only [hlen, Bool.false_eq_true, if_false]
  rw [hok.nucs]
  apply setList_step wf (setSeq_step hB wf asg (spec.seqs.length + 2)) spec.seqs.length st.items a _ _ hsp hcl
  · intro it hit
    have := hok.resolve it hit
    cases hf : spec.findSeq it.name with
    | none => rw [hf] at this; cases this
    | some o =>
      obtain ⟨j, hj⟩ := List.getElem?_of_mem (findSeq_mem hf).1
      have hlt : j < spec.seqs.length := (List.getElem?_eq_some_iff.1 hj).1
      exact ⟨o, j, rfl, hj, by omega, hlt⟩
  · rw [← hok.nucs]; exact onStrand_of_strand hst

/-- the loop body of `process_results` -/
def prStep (t : CodeTable) (spec : Spec) (start : StrandObj → Option Nat) (nts : List Char)
    (acc : Mfe.Assigned × List (String × List Char)) (st : StrandObj) : Except Mfe.Err (Mfe.Assigned × List (String × List Char)) :=
  match start st with
  | none => Except.error Mfe.Err.index
  | some p =>
    let s := (nts.drop p).take st.len
    if s.length != st.len then Except.error Mfe.Err.index
    else match Mfe.setStrand t spec acc.1 st s with
      | .ok a' => Except.ok (a', acc.2 ++ [(st.name, s)])
      | .error e => Except.error e

theorem processResults_eq (t : CodeTable) (spec : Spec) (start : StrandObj → Option Nat) (nts : List Char) :
    Mfe.processResults t spec start nts = spec.strands.foldlM (prStep t spec start nts) ([], []) := rfl

theorem prLoop {t : CodeTable} (hB : complBases t = true) {spec : Spec} (wf : SpecWF spec)
    {asg : Var → Base} {start : StrandObj → Option Nat} {nts : List Char} (hst : StartOk spec start nts asg) :
    ∀ (L : List StrandObj) (a : Mfe.Assigned) (acc : List (String × List Char)), (∀ st ∈ L, st ∈ spec.strands) →
      Spells spec asg a → ClosedB spec spec.seqs.length a →
      ∃ a', L.foldlM (prStep t spec start nts) (a, acc) =
          .ok (a', acc ++ L.map (fun st => (st.name, spell asg (nucsOfBases st.bases)))) ∧
        Spells spec asg a' ∧ ClosedB spec spec.seqs.length a' ∧ Mono a a' ∧ ∀ st ∈ L, Cov a' (nucsOfBases st.bases) := by
  intro L
  induction L with
  | nil =>
    intro a acc _ hsp hcl
    exact ⟨a, by simp [List.foldlM, pure, Except.pure], hsp, hcl, Mono.refl a, fun st h => by cases h⟩
  | cons st r ih =>
    intro a acc hL hsp hcl
    have hmem := hL st List.mem_cons_self
    obtain ⟨p, hp, hslice⟩ := hst st hmem
    obtain ⟨a1, he1, st1⟩ := setStrand_step hB wf asg hmem hsp hcl
    obtain ⟨a2, he2, hsp2, hcl2, hm2, hc2⟩ := ih a1 (acc ++ [(st.name, spell asg (nucsOfBases st.bases))])
      (fun x hx => hL x (List.mem_cons_of_mem _ hx)) st1.sp (hcl.step st1.mono st1.rel)
    refine ⟨a2, ?_, hsp2, hcl2, st1.mono.trans hm2, ?_⟩
    · rw [List.foldlM_cons]
      have hlen : ((spell asg (nucsOfBases st.bases)).length != st.len) = false := by
        rw [spell_length, wf.strandLen st hmem]; simp
      have : prStep t spec start nts (a, acc) st = .ok (a1, acc ++ [(st.name, spell asg (nucsOfBases st.bases))]) := by
        simp only [prStep, hp, hslice, hlen, Bool.false_eq_true, if_false, he1]
      rw [this]
      simp only [bind, Except.bind]
      rw [he2]
      simp
    · intro x hx
      rcases List.mem_cons.1 hx with rfl | hx
      · exact st1.cov.mono hm2
      · exact hc2 x hx

/-- `process_results` never raises on a string that spells every strand, and leaves a `Good` state -/
theorem processResults_ok {t : CodeTable} (hB : complBases t = true) {spec : Spec} (wf : SpecWF spec)
    {asg : Var → Base} {start : StrandObj → Option Nat} {nts : List Char} (hst : StartOk spec start nts asg) :
    ∃ a, Mfe.processResults t spec start nts =
        .ok (a, spec.strands.map (fun st => (st.name, spell asg (nucsOfBases st.bases)))) ∧ Good spec asg a := by
  obtain ⟨a, he, hsp, _, _, hc⟩ := prLoop hB wf hst spec.strands [] [] (fun _ h => h)
    (fun n v h => by cases h) (fun n v o j h => by cases h)
  refine ⟨a, by rw [processResults_eq, he]; simp, hsp, ?_⟩
  intro v hv
  obtain ⟨x, hx, n, hn, rfl⟩ := onStrand_iff.1 hv
  simp only [Pil.denote, List.mem_map] at hx
  obtain ⟨st, hst', rfl⟩ := hx
  exact hc st hst' n hn

/-! ## (d) `get_seq` -/

theorem foldlM_parts {α : Type} (g : α → Option (List Char)) (h : α → List Char) :
    ∀ (l : List α) (init : List Char), (∀ j ∈ l, g j = some (h j)) →
      l.foldlM (fun acc j => (g j).map (fun x => acc ++ x)) init = some (init ++ l.flatMap h) := by
  intro l
  induction l with
  | nil => intro init _; simp [List.foldlM, pure]
  | cons j r ih =>
    intro init hj
    rw [List.foldlM_cons, hj j List.mem_cons_self]
    simp only [Option.map_some, bind, Option.bind]
    rw [ih _ (fun x hx => hj x (List.mem_cons_of_mem _ hx))]
    simp

/-- an atomic sequence that has not been set is on no strand, so it keeps its template -/
theorem spellT_unset {t : CodeTable} {spec : Spec} (wf : SpecWF spec) {asg : Var → Base} {a : Mfe.Assigned}
    (hg : Good spec asg a) {o : SeqObj} (ho : o ∈ spec.seqs) (hb : o.isSup = false)
    (hunset : ∀ w, a.lookup o.name = some w → w = []) :
    spellT t (Pil.denote spec) asg (viewNucs o false) = o.template := by
  obtain ⟨hlen, hv⟩ := wf.base o ho hb
  rw [hv]
  apply List.ext_getElem
  · simp [spellT, fwd, hlen]
  · intro x h1 h2
    have hx : x < o.len := by omega
    simp only [spellT, fwd, List.map_map, List.getElem_map, List.getElem_range, Function.comp]
    have hoff : onStrand (Pil.denote spec) ⟨o.name, x⟩ = false := by
      cases hon : onStrand (Pil.denote spec) ⟨o.name, x⟩ with
      | false => rfl
      | true =>
        obtain ⟨w, hw, hne⟩ := hg.covers _ hon
        exact absurd (hunset w hw) hne
    simp only [letter, hoff, Bool.false_eq_true, if_false, templateOf_denote wf ho hb hx, List.getElem?_eq_getElem h2]

theorem getSeq_ok {t : CodeTable} (hl : t.lawful = true) (hB : complBases t = true) {spec : Spec} (wf : SpecWF spec)
    (ok : SpecCodes t spec) {asg : Var → Base} {a : Mfe.Assigned} (hg : Good spec asg a) :
    ∀ (fuel k : Nat) (o : SeqObj) (rev : Bool), spec.seqs[k]? = some o → k < fuel →
      Mfe.getSeq t spec a fuel ⟨o.name, rev⟩ = some (spellT t (Pil.denote spec) asg (viewNucs o rev)) := by
  intro fuel
  induction fuel with
  | zero => intro k o rev _ hk; omega
  | succ fuel ih =>
    intro k o rev hk hkf
    have ho : o ∈ spec.seqs := List.mem_of_getElem? hk
    have hwc : t.wcStr (spellT t (Pil.denote spec) asg (viewNucs o false)) =
        some (spellT t (Pil.denote spec) asg (viewNucs o true)) := by
      rw [wcStr_spellT hl hB asg (known_viewNucs wf ok ho false), viewNucs_true]
    -- the branch where nothing has been set
    have hunsetCase : (∀ w, a.lookup o.name = some w → w = []) →
        (if (!o.isSup) = true then (if rev = true then t.wcStr o.template else some o.template)
         else List.foldlM (fun acc j => Option.map (fun x => acc ++ x) (Mfe.getSeq t spec a fuel j)) []
            (if rev = true then List.map ItemRef.inv o.items.reverse else o.items)) =
          some (spellT t (Pil.denote spec) asg (viewNucs o rev)) := by
      intro hunset
      cases hs : o.isSup
      · simp only [Bool.not_false, if_true]
        have htm := spellT_unset (t := t) wf hg ho hs hunset
        cases rev
        · simp only [Bool.false_eq_true, if_false, htm]
        · simp only [if_true]; rw [← htm]; exact hwc
      · simp only [Bool.not_true, Bool.false_eq_true, if_false]
        have := foldlM_parts (fun j => Mfe.getSeq t spec a fuel j)
          (fun j => spellT t (Pil.denote spec) asg (nucsOfItem spec j)) (viewItems o rev) [] (by
            intro j hj
            obtain ⟨o', x, h1, h2, h3⟩ := viewItems_earlier wf hk hs rev j hj
            have hn : o'.name = j.name := (findSeq_mem h1).2
            have hj' : j = ⟨o'.name, j.rev⟩ := by cases j; simp_all
            rw [nucsOfItem_of_find h1, hj']
            exact ih x o' j.rev h2 (by omega))
        rw [viewNucs_items wf ho hs rev, spellT_flatMap]
        simpa [viewItems] using this
    rw [Mfe.getSeq]
    simp only [wf.seqFind o ho]
    cases hlk : a.lookup o.name with
    | none =>
      simp only
      exact hunsetCase (by intro w hw; rw [hlk] at hw; cases hw)
    | some v =>
      by_cases hv : v = []
      · subst hv
        simp only [List.isEmpty_nil, if_true]
        exact hunsetCase (by intro w hw; rw [hlk] at hw; cases hw; rfl)
      · have hne : v.isEmpty = false := by cases v <;> simp_all
        simp only [hne, Bool.false_eq_true, if_false]
        obtain ⟨o', ho', hvs, hon⟩ := hg.spells o.name v hlk hv
        rw [wf.seqFind o ho] at ho'; cases ho'
        cases rev
        · simp only [Bool.false_eq_true, if_false, hvs, spellT_eq_spell hon]
        · simp only [if_true, hvs, wcStr_spell hB, viewNucs_true, spellT_eq_spell (onStrand_rc hon)]

/-! ## (e) `output(findmfe=False)` -/

theorem mapM_some {α β : Type} (f : α → Option β) (g : α → β) : ∀ (l : List α), (∀ x ∈ l, f x = some (g x)) →
    l.mapM f = some (l.map g) := by
  intro l
  induction l with
  | nil => intro _; rfl
  | cons x r ih =>
    intro h
    rw [List.mapM_cons, h x List.mem_cons_self, ih (fun y hy => h y (List.mem_cons_of_mem _ hy))]
    rfl

theorem flatten_map_ofList {α : Type} (g : α → List String) (r : α → List (List Char)) :
    ∀ (l : List α), (∀ x ∈ l, g x = (r x).map String.ofList) → (l.map g).flatten = (l.flatMap r).map String.ofList := by
  intro l
  induction l with
  | nil => intro _; rfl
  | cons x l ih =>
    intro h
    simp only [List.map_cons, List.flatten_cons, List.flatMap_cons, List.map_append, h x List.mem_cons_self,
      ih (fun y hy => h y (List.mem_cons_of_mem _ hy))]

/-- the strand strings `process_results` keeps, read by name -/
theorem lookup_strandSeqs (spec : Spec) (asg : Var → Base) (sn : String) :
    List.lookup sn (spec.strands.map (fun st => (st.name, spell asg (nucsOfBases st.bases)))) =
      (spec.findStrand sn).map (fun st => spell asg (nucsOfBases st.bases)) := by
  unfold Spec.findStrand
  induction spec.strands with
  | nil => rfl
  | cons st r ih =>
    simp only [List.map_cons, List.lookup_cons, List.find?_cons]
    by_cases h : st.name = sn
    · subst h; simp
    · have h1 : (sn == st.name) = false := by simpa using fun e : sn = st.name => h e.symm
      have h2 : (st.name == sn) = false := by simpa using h
      simp only [h1, h2, ih]

theorem lookup_strandVal {spec : Spec} (asg : Var → Base) {sn : String} (h : (spec.findStrand sn).isSome = true) :
    List.lookup sn (spec.strands.map (fun st => (st.name, spell asg (nucsOfBases st.bases)))) =
      some (strandVal spec asg sn) := by
  rw [lookup_strandSeqs, strandVal, strandNucs_denote]
  cases hf : spec.findStrand sn with
  | none => rw [hf] at h; cases h
  | some st => rfl

/-- one record of the `.mfe` file as the shared writer renders it -/
theorem record_eq (n : Nat) (name : String) (seq s1 s2 : List Char) :
    Mfe.record n name seq s1 s2 =
      (Finish.renderRec (toString n).toList ⟨name.toList, seq, mfeFields, s1, s2⟩).map String.ofList := by
  simp only [Mfe.record, Finish.renderRec, List.map_cons, List.map_nil, String.ofList_append, String.ofList_toList]
  have e1 : ∀ l : List Char, String.ofList (':' :: l) = ":" ++ String.ofList l := by
    intro l; rw [show ':' :: l = [':'] ++ l from rfl, String.ofList_append]
  have e2 : String.ofList (mfeFields.flatMap (' ' :: ·)) = " 0.000000 GC 0" := by decide
  rw [e1, e2, String.ofList_toList, String.append_assoc]

/-- `output(findmfe=False)` succeeds and writes exactly the records `mfeRecs` -/
theorem output_ok {t : CodeTable} (hl : t.lawful = true) (hB : complBases t = true) {spec : Spec} (wf : SpecWF spec)
    (ok : SpecCodes t spec) {asg : Var → Base} {a : Mfe.Assigned} (hg : Good spec asg a) :
    Mfe.output t spec a (spec.strands.map (fun st => (st.name, spell asg (nucsOfBases st.bases)))) =
      some (mfeLines t spec asg) := by
  unfold Mfe.output
  generalize h1 : List.mapM (m := Option) (β := List String) _ (List.zip (List.range spec.structs.length) spec.structs) = m1
  generalize h2 : List.mapM (m := Option) (β := List String) _ (List.zip (List.range spec.seqs.length) spec.seqs) = m2
  rw [mapM_some _ (fun (p : Nat × StructObj) =>
      Mfe.record p.1 p.2.name (Mfe.joinPlus (p.2.strands.map (strandVal spec asg))) p.2.struct p.2.struct) _ (by
    intro ⟨n, so⟩ hp
    have hso : so ∈ spec.structs := (List.of_mem_zip hp).2
    simp only
    rw [mapM_some _ (strandVal spec asg) _ (fun sn hsn => lookup_strandVal asg ((wf.struct so hso).1 sn hsn))]
    rfl)] at h1
  rw [mapM_some _ (fun (p : Nat × SeqObj) =>
      Mfe.record (p.1 + spec.structs.length) p.2.name (spellT t (Pil.denote spec) asg (viewNucs p.2 false))
          (List.replicate p.2.len '.') (List.replicate p.2.len '.') ++
        Mfe.record 0 (p.2.name ++ "*") (spellT t (Pil.denote spec) asg (viewNucs p.2 true))
          (List.replicate p.2.len '.') (List.replicate p.2.len '.')) _ (by
    intro ⟨n, o⟩ hp
    have ho : o ∈ spec.seqs := (List.of_mem_zip hp).2
    obtain ⟨k, hk⟩ := List.getElem?_of_mem ho
    have hlt : k < spec.seqs.length := (List.getElem?_eq_some_iff.1 hk).1
    simp only
    rw [getSeq_ok hl hB wf ok hg (spec.seqs.length + 2) k o false hk (by omega)]
    simp only [bind, Option.bind]
    rw [wcStr_spellT hl hB asg (known_viewNucs wf ok ho false), ← viewNucs_true]
    rfl)] at h2
  subst h1 h2
  simp only [bind, Option.bind, pure]
  congr 1
  unfold mfeLines Finish.renderLines mfeRecs
  rw [List.map_append, List.flatMap_append, List.map_append, List.flatMap_map, List.flatMap_assoc]
  congr 1
  · congr 1
    · apply flatten_map_ofList
      intro p _
      exact record_eq _ _ _ _ _
    · apply flatten_map_ofList
      intro p _
      simp only [List.flatMap_cons, List.flatMap_nil, List.append_nil, List.map_append, record_eq, String.toList_append]

end Pepper.EndToEnd
