import PepperModel.Ssm
import PepperProofs.Codes
/-!
# Proofs about the spuriousSSM model (`PepperModel/Ssm.lean`)

1. list lemmas, the pointwise meaning of `assignLoop`;
2. finite facts about the extracted tables (`decide`);
3. the contract in the "representative function" form of DESIGN appendix C (`ContractF`);
4. appendix C's invariant proof (`mutateF_good`), transported to the list model;
5. the loop invariant of `constrain`;
6. the search loop: invariant, final self-check, iteration bounds.
-/
namespace Pepper.Ssm
open Pepper

/-! ### 1. lists -/

theorem getD_set {α} (l : List α) (i j : Nat) (a d : α) :
    (l.set i a).getD j d = if i = j ∧ i < l.length then a else l.getD j d := by
  simp only [List.getD_eq_getElem?_getD, List.getElem?_set]
  by_cases h : i = j
  · subst h
    by_cases h2 : i < l.length
    · simp [h2]
    · simp [h2]
  · simp [h]

theorem getD_of_length_le {α} {l : List α} {i : Nat} {d : α} (h : l.length ≤ i) : l.getD i d = d := by
  simp [List.getD_eq_getElem?_getD, List.getElem?_eq_none h]

theorem assignLoop_length {α : Type} (d : α) (p : Nat → Bool) (src : Nat) (f : α → α) (js : List Nat)
    (L : List α) : (assignLoop d p src f js L).length = L.length := by
  induction js generalizing L with
  | nil => rfl
  | cons j js ih =>
    simp only [assignLoop]
    rw [ih]
    split <;> simp

/-- Pointwise meaning of `for j in js: if (p j) L[j] = f(L[src])`, provided re-reading `L[src]`
    always yields the same `f`-value: either `f` is idempotent or `src` itself is never written. -/
theorem assignLoop_getD {α : Type} (d : α) (p : Nat → Bool) (src : Nat) (f : α → α) (js : List Nat)
    (L : List α) (h : (∀ x, f (f x) = f x) ∨ (∀ j ∈ js, p j = true → j ≠ src)) (k : Nat) :
    (assignLoop d p src f js L).getD k d =
      if k ∈ js ∧ p k = true ∧ k < L.length then f (L.getD src d) else L.getD k d := by
  induction js generalizing L with
  | nil => simp [assignLoop]
  | cons j js ih =>
    simp only [assignLoop]
    have h' : (∀ x, f (f x) = f x) ∨ (∀ j' ∈ js, p j' = true → j' ≠ src) := by
      rcases h with h | h
      · exact Or.inl h
      · exact Or.inr (fun j' hj' => h j' (List.mem_cons_of_mem _ hj'))
    rw [ih _ h']
    by_cases hp : p j = true
    · simp only [hp, if_true, List.length_set]
      have hsrc : f ((L.set j (f (L.getD src d))).getD src d) = f (L.getD src d) := by
        rw [getD_set]
        split
        · rename_i hc
          rcases h with h | h
          · exact h _
          · exact absurd hc.1 (h j List.mem_cons_self hp)
        · rfl
      rw [hsrc, getD_set]
      by_cases hk : k ∈ js ∧ p k = true ∧ k < L.length
      · have : k ∈ j :: js ∧ p k = true ∧ k < L.length := ⟨List.mem_cons_of_mem _ hk.1, hk.2⟩
        rw [if_pos hk, if_pos this]
      · rw [if_neg hk]
        by_cases hjk : j = k ∧ j < L.length
        · have : k ∈ j :: js ∧ p k = true ∧ k < L.length := by
            obtain ⟨rfl, hl⟩ := hjk
            exact ⟨List.mem_cons_self, hp, hl⟩
          rw [if_pos hjk, if_pos this]
        · have : ¬ (k ∈ j :: js ∧ p k = true ∧ k < L.length) := by
            rintro ⟨hm, hpk, hl⟩
            rcases List.mem_cons.1 hm with e | e
            · exact hjk ⟨e.symm, by rw [← e]; exact hl⟩
            · exact hk ⟨e, hpk, hl⟩
          rw [if_neg hjk, if_neg this]
    · have hpf : p j = false := by simpa using hp
      simp only [hpf, Bool.false_eq_true, if_false]
      by_cases hk : k ∈ js ∧ p k = true ∧ k < L.length
      · have : k ∈ j :: js ∧ p k = true ∧ k < L.length := ⟨List.mem_cons_of_mem _ hk.1, hk.2⟩
        rw [if_pos hk, if_pos this]
      · have : ¬ (k ∈ j :: js ∧ p k = true ∧ k < L.length) := by
          rintro ⟨hm, hpk, hl⟩
          rcases List.mem_cons.1 hm with e | e
          · subst e; exact hp hpk
          · exact hk ⟨e, hpk, hl⟩
        rw [if_neg hk, if_neg this]

/-- a `for i in 0..n-1` loop maintains an invariant indexed by the loop counter -/
theorem foldl_range_inv {σ : Type} (Inv : Nat → σ → Prop) (stp : σ → Nat → σ) (n : Nat) (s0 : σ)
    (h0 : Inv 0 s0) (hs : ∀ k s, k < n → Inv k s → Inv (k + 1) (stp s k)) :
    Inv n ((List.range n).foldl stp s0) := by
  induction n with
  | zero => simpa using h0
  | succ n ih =>
    rw [List.range_succ, List.foldl_append]
    simp only [List.foldl_cons, List.foldl_nil]
    exact hs n _ (Nat.lt_succ_self n) (ih (fun k s hk => hs k s (Nat.lt_succ_of_lt hk)))

/-! ### 2. the extracted tables -/

theorem group_facts : ∀ p ∈ Generated.dnaTable.group, ∀ b ∈ p.2,
    hasSub2 p.1 b Generated.cDegenerates = true ∧ isFixed b = true ∧ WC (WC b) = b ∧
    memCode (WC b) (WC p.1) = true ∧ b ≠ ' ' := by decide

theorem code_facts : ∀ p ∈ Generated.dnaTable.group,
    WC (WC p.1) = p.1 ∧ p.1 ≠ ' ' ∧ isCode (WC p.1) = true := by decide

theorem choices_facts : ∀ p ∈ Generated.cRandbase, ∀ b ∈ p.2, memCode b p.1 = true := by decide

theorem memCode_unpack {b c : Char} (h : memCode b c = true) :
    ∃ g, (c, g) ∈ Generated.dnaTable.group ∧ b ∈ g := by
  unfold memCode at h
  split at h
  · rename_i g hg
    exact ⟨g, CodeTable.groupOf_mem hg, by simpa using h⟩
  · cases h

theorem isCode_unpack {c : Char} (h : isCode c = true) : ∃ g, (c, g) ∈ Generated.dnaTable.group := by
  obtain ⟨g, hg⟩ := CodeTable.isCode_iff.1 h
  exact ⟨g, CodeTable.groupOf_mem hg⟩

theorem memCode_isCode {b c : Char} (h : memCode b c = true) : isCode c = true := by
  unfold memCode at h
  split at h
  · rename_i g hg
    exact CodeTable.isCode_iff.2 ⟨g, hg⟩
  · cases h

theorem WC_WC_base {b c : Char} (h : memCode b c = true) : WC (WC b) = b := by
  obtain ⟨g, hg, hb⟩ := memCode_unpack h
  exact (group_facts (c, g) hg b hb).2.2.1

theorem memCode_WC {b c : Char} (h : memCode b c = true) : memCode (WC b) (WC c) = true := by
  obtain ⟨g, hg, hb⟩ := memCode_unpack h
  exact (group_facts (c, g) hg b hb).2.2.2.1

theorem memCode_ne_blank {b c : Char} (h : memCode b c = true) : b ≠ ' ' := by
  obtain ⟨g, hg, hb⟩ := memCode_unpack h
  exact (group_facts (c, g) hg b hb).2.2.2.2

theorem memCode_isFixed {b c : Char} (h : memCode b c = true) : isFixed b = true := by
  obtain ⟨g, hg, hb⟩ := memCode_unpack h
  exact (group_facts (c, g) hg b hb).2.1

theorem memCode_hasSub2 {b c : Char} (h : memCode b c = true) :
    hasSub2 c b Generated.cDegenerates = true := by
  obtain ⟨g, hg, hb⟩ := memCode_unpack h
  exact (group_facts (c, g) hg b hb).1

theorem WC_WC_code {c : Char} (h : isCode c = true) : WC (WC c) = c := by
  obtain ⟨g, hg⟩ := isCode_unpack h
  exact (code_facts (c, g) hg).1

theorem isCode_ne_blank {c : Char} (h : isCode c = true) : c ≠ ' ' := by
  obtain ⟨g, hg⟩ := isCode_unpack h
  exact (code_facts (c, g) hg).2.1

/-- every base `randbasec` can return for a code lies in the code's set -/
theorem choices_memCode {b c : Char} (hc : isCode c = true) (h : b ∈ choices c) : memCode b c = true := by
  unfold choices at h
  split at h
  · rename_i l hl
    exact choices_facts (c, l) (assoc_mem hl) b h
  · rename_i hn
    -- every code has a `randbasec` case
    have : ∀ p ∈ Generated.dnaTable.group, (assoc Generated.cRandbase p.1).isSome = true := by decide
    obtain ⟨g, hg⟩ := isCode_unpack hc
    have := this (c, g) hg
    rw [hn] at this
    cases this

/-! ### 3. the contract in representative-function form (DESIGN appendix C) -/

/-- representative of the class of `j` (0-based), `none` at a blank -/
def eqI (t : Triple) (j : Nat) : Option Nat := if t.eqAt j = 0 then none else some (t.eqAt j - 1)
/-- representative of the complementary class (0-based) or `none` -/
def wcI (t : Triple) (j : Nat) : Option Nat := if t.wcAt j = -1 then none else some (t.wcIx j)

theorem eqAt_of_le {t : Triple} {j : Nat} (h : t.eq.length ≤ j) : t.eqAt j = 0 := getD_of_length_le h
theorem wcAt_of_le {t : Triple} {j : Nat} (h : t.wc.length ≤ j) : t.wcAt j = -1 := getD_of_length_le h

structure ContractF (t : Triple) : Prop where
  npos    : 0 < t.N
  lenEq   : t.eq.length = t.N
  lenWc   : t.wc.length = t.N
  eqLt    : ∀ j r, eqI t j = some r → j < t.N
  eqRep   : ∀ j r, eqI t j = some r → eqI t r = some r ∧ r ≤ j
  wcClass : ∀ j r, eqI t j = some r → wcI t j = wcI t r
  wcRep   : ∀ j w, wcI t j = some w → eqI t w = some w ∧ ∃ r, eqI t j = some r ∧ wcI t w = some r
  notSelf : ∀ j w, wcI t j = some w → eqI t j ≠ some w
  stEq    : ∀ j r, eqI t j = some r → t.stAt j = t.stAt r
  stWc    : ∀ j w, wcI t j = some w → t.stAt j = WC (t.stAt w)
  code    : ∀ j r, eqI t j = some r → isCode (t.stAt j) = true
  blank   : ∀ j, j < t.N → eqI t j = none → t.stAt j = ' ' ∧ wcI t j = none
  /-- the loop tests of the C, in terms of representatives -/
  testEq  : ∀ j i, (t.eqAt j == t.eqAt i) = true ↔ eqI t j = eqI t i
  testWc  : ∀ j i, ((t.eqAt j : Int) == t.wcAt i) = true ↔ (wcI t i ≠ none ∧ eqI t j = wcI t i)

theorem eqI_some {t : Triple} {j r : Nat} : eqI t j = some r ↔ t.eqAt j = r + 1 := by
  unfold eqI; split
  · constructor
    · intro h; cases h
    · intro h; omega
  · simp only [Option.some.injEq]; omega

theorem eqI_none {t : Triple} {j : Nat} : eqI t j = none ↔ t.eqAt j = 0 := by
  unfold eqI; split <;> simp_all

theorem wcI_none {t : Triple} {j : Nat} : wcI t j = none ↔ t.wcAt j = -1 := by
  unfold wcI; split <;> simp_all

theorem wcI_some {t : Triple} {j w : Nat} : wcI t j = some w ↔ t.wcAt j ≠ -1 ∧ t.wcIx j = w := by
  unfold wcI; split <;> simp_all

theorem Contract.toF {t : Triple} (c : Contract t) : ContractF t := by
  obtain ⟨hN, hle, hlw, _, hall⟩ := c
  have eqlt : ∀ j, t.eqAt j ≠ 0 → j < t.N := by
    intro j h
    apply Decidable.byContradiction; intro hn
    exact h (eqAt_of_le (by omega))
  have wclt : ∀ j, t.wcAt j ≠ -1 → j < t.N := by
    intro j h
    apply Decidable.byContradiction; intro hn
    exact h (wcAt_of_le (by omega))
  refine ⟨hN, hle, hlw, ?_, ?_, ?_, ?_, ?_, ?_, ?_, ?_, ?_, ?_, ?_⟩
  · intro j r h; exact eqlt j (by rw [eqI_some] at h; omega)
  · intro j r h
    rw [eqI_some] at h
    have hj := eqlt j (by omega)
    obtain ⟨_, he, _⟩ := hall j hj
    have := he (by omega)
    rw [eqI_some]
    have e : t.eqAt j - 1 = r := by omega
    rw [e] at this
    omega
  · intro j r h
    rw [eqI_some] at h
    have hj := eqlt j (by omega)
    obtain ⟨_, he, _⟩ := hall j hj
    have := he (by omega)
    have e : t.eqAt j - 1 = r := by omega
    rw [e] at this
    obtain ⟨_, _, hw, _⟩ := this
    unfold wcI Triple.wcIx
    rw [hw]
  · intro j w h
    rw [wcI_some] at h
    obtain ⟨hne, hw⟩ := h
    have hj := wclt j hne
    obtain ⟨hb, _, hwc⟩ := hall j hj
    obtain ⟨h1, h2, h3, h4, h5, _⟩ := hwc hne
    rw [hw] at h4 h5
    refine ⟨?_, ?_⟩
    · rw [eqI_some]; unfold Triple.wcIx at hw; omega
    · have hnz : t.eqAt j ≠ 0 := by
        intro h0
        have := hb.2.2 h0
        exact hne this
      refine ⟨t.eqAt j - 1, by rw [eqI_some]; omega, ?_⟩
      rw [wcI_some]
      refine ⟨by omega, ?_⟩
      unfold Triple.wcIx; omega
  · intro j w h he
    rw [wcI_some] at h
    rw [eqI_some] at he
    obtain ⟨hne, hw⟩ := h
    have hj := wclt j hne
    obtain ⟨_, _, hwc⟩ := hall j hj
    obtain ⟨h1, h2, h3, _⟩ := hwc hne
    unfold Triple.wcIx at hw; omega
  · intro j r h
    rw [eqI_some] at h
    have hj := eqlt j (by omega)
    obtain ⟨_, he, _⟩ := hall j hj
    have := he (by omega)
    have e : t.eqAt j - 1 = r := by omega
    rw [e] at this
    exact this.2.2.2.symm
  · intro j w h
    rw [wcI_some] at h
    obtain ⟨hne, hw⟩ := h
    have hj := wclt j hne
    obtain ⟨_, _, hwc⟩ := hall j hj
    have := (hwc hne).2.2.2.2.2
    rw [hw] at this; exact this
  · intro j r h
    rw [eqI_some] at h
    have hj := eqlt j (by omega)
    obtain ⟨hb, _, _⟩ := hall j hj
    apply hb.2.1
    intro hs
    have := hb.1.1 hs
    omega
  · intro j hj h
    rw [eqI_none] at h
    obtain ⟨hb, _, _⟩ := hall j hj
    exact ⟨hb.1.2 h, wcI_none.2 (hb.2.2 h)⟩
  · intro j i
    rw [beq_iff_eq]
    unfold eqI
    split <;> split <;> simp <;> omega
  · intro j i
    rw [beq_iff_eq]
    by_cases hi : t.wcAt i = -1
    · have : wcI t i = none := wcI_none.2 hi
      simp [this]; omega
    · have hil := wclt i hi
      obtain ⟨_, _, hwc⟩ := hall i hil
      obtain ⟨h1, _⟩ := hwc hi
      have hs : wcI t i = some (t.wcIx i) := wcI_some.2 ⟨hi, rfl⟩
      rw [hs]
      simp only [ne_eq, reduceCtorEq, not_false_eq_true, true_and]
      rw [eqI_some]
      unfold Triple.wcIx; omega

/-! ### 4. appendix C: `mutate` + `constrain_single_fast` keep the invariant -/

/-- `Good` on position functions -/
def GoodFn (t : Triple) (F : Nat → Char) : Prop :=
  (∀ j, j < t.N → eqI t j = none → F j = ' ') ∧
  (∀ j r, eqI t j = some r → F j = F r ∧ memCode (F j) (t.stAt j) = true) ∧
  (∀ j w, wcI t j = some w → F j = WC (F w))

/-- a free location as selected by `main`: lowest of its class and below its partner class -/
def FreeF (t : Triple) (i : Nat) : Prop :=
  eqI t i = some i ∧ (wcI t i = none ∨ ∃ w, wcI t i = some w ∧ i < w)

/-- `S[i] = b; constrain_single_fast(S, wc, eq, i)` on position functions -/
def mutateF (t : Triple) (F : Nat → Char) (i : Nat) (b : Char) : Nat → Char := fun j =>
  if j = i then b
  else if i < j ∧ wcI t i ≠ none ∧ eqI t j = wcI t i then WC b     -- second loop wins
  else if i < j ∧ eqI t j = eqI t i then b
  else F j

theorem mutateF_class {t : Triple} (c : ContractF t) {F i b} (f : FreeF t i)
    {j} (hj : eqI t j = some i) : mutateF t F i b j = b := by
  unfold mutateF
  by_cases h : j = i
  · simp [h]
  · have hle := (c.eqRep j i hj).2
    have hlt : i < j := by omega
    simp only [h, if_false]
    rcases f.2 with hn | ⟨w, hw, hiw⟩
    · simp [hn, hlt, hj, f.1]
    · simp [hlt, hj, f.1]
      intro _ e; rw [hw] at e; injection e with e; omega

theorem mutateF_partner {t : Triple} (c : ContractF t) {F i b} (f : FreeF t i)
    {w} (hw : wcI t i = some w) {j} (hj : eqI t j = some w) : mutateF t F i b j = WC b := by
  have hiw : i < w := by
    rcases f.2 with hn | ⟨w', hw', h⟩
    · rw [hn] at hw; cases hw
    · rw [hw'] at hw; injection hw with e; omega
  have hle := (c.eqRep j w hj).2
  unfold mutateF
  have h1 : j ≠ i := by omega
  have h2 : i < j := by omega
  simp [h1, h2, hw, hj]

theorem mutateF_other {t : Triple} {F i b} (f : FreeF t i)
    {j} (h1 : eqI t j ≠ some i) (h2 : ∀ w, wcI t i = some w → eqI t j ≠ some w) :
    mutateF t F i b j = F j := by
  unfold mutateF
  have hji : j ≠ i := by intro e; rw [e] at h1; exact h1 f.1
  simp only [hji, if_false]
  have a : ¬ (i < j ∧ wcI t i ≠ none ∧ eqI t j = wcI t i) := by
    rintro ⟨_, hne, he⟩
    cases hw : wcI t i with
    | none => exact hne hw
    | some w => exact h2 w hw (by rw [he, hw])
  have b' : ¬ (i < j ∧ eqI t j = eqI t i) := by
    rintro ⟨_, he⟩; rw [f.1] at he; exact h1 he
  simp [a, b']

/-- Appendix C, `mutate_good`: a mutation at a free location with a base allowed by the template
    keeps every eq / wc / template constraint satisfied. -/
theorem mutateF_good {t : Triple} (c : ContractF t) {F : Nat → Char} (g : GoodFn t F)
    {i b} (f : FreeF t i) (hb : memCode b (t.stAt i) = true) : GoodFn t (mutateF t F i b) := by
  have selfI : mutateF t F i b i = b := mutateF_class c f f.1
  refine ⟨?_, ?_, ?_⟩
  · -- blanks are never written
    intro j hj hn
    have n1 : eqI t j ≠ some i := by rw [hn]; intro e; cases e
    have n2 : ∀ w, wcI t i = some w → eqI t j ≠ some w := by intro w _; rw [hn]; intro e; cases e
    rw [mutateF_other f n1 n2]
    exact g.1 j hj hn
  · -- equality constraints and templates
    intro j r hjr
    have hr := (c.eqRep j r hjr).1
    by_cases hri : r = i
    · subst hri
      rw [mutateF_class c f hjr, selfI]
      exact ⟨rfl, by rw [c.stEq j r hjr]; exact hb⟩
    · by_cases hp : ∃ w, wcI t i = some w ∧ r = w
      · obtain ⟨w, hw, rfl⟩ := hp
        rw [mutateF_partner c f hw hjr, mutateF_partner c f hw hr]
        refine ⟨rfl, ?_⟩
        rw [c.stEq j r hjr]
        have := c.stWc i r hw      -- st i = WC (st r)
        have e : t.stAt r = WC (t.stAt i) := by rw [this, WC_WC_code (c.code r r hr)]
        rw [e]; exact memCode_WC hb
      · have n1 : eqI t j ≠ some i := by rw [hjr]; intro e; injection e with e; exact hri e
        have n2 : ∀ w, wcI t i = some w → eqI t j ≠ some w := by
          intro w hw; rw [hjr]; intro e; injection e with e; exact hp ⟨w, hw, e⟩
        have n1r : eqI t r ≠ some i := by rw [hr]; intro e; injection e with e; exact hri e
        have n2r : ∀ w, wcI t i = some w → eqI t r ≠ some w := by
          intro w hw; rw [hr]; intro e; injection e with e; exact hp ⟨w, hw, e⟩
        rw [mutateF_other f n1 n2, mutateF_other f n1r n2r]
        exact g.2.1 j r hjr
  · -- complementarity constraints
    intro j w' hjw
    obtain ⟨hw'rep, r, hjr, hw'r⟩ := c.wcRep j w' hjw
    by_cases hri : r = i
    · subst hri
      have : wcI t r = some w' := by rw [← c.wcClass j r hjr]; exact hjw
      rw [mutateF_class c f hjr, mutateF_partner c f this hw'rep, WC_WC_base hb]
    · by_cases hp : ∃ w, wcI t i = some w ∧ r = w
      · obtain ⟨w, hw, rfl⟩ := hp
        have hwi : wcI t r = some i := by
          obtain ⟨_, r', hir', hwr'⟩ := c.wcRep i r hw
          rw [f.1] at hir'; injection hir' with e; rw [← e] at hwr'; exact hwr'
        have : w' = i := by
          have := c.wcClass j r hjr; rw [hjw, hwi] at this; injection this
        subst this
        rw [mutateF_partner c f hw hjr, selfI]
      · have n1 : eqI t j ≠ some i := by rw [hjr]; intro e; injection e with e; exact hri e
        have n2 : ∀ w, wcI t i = some w → eqI t j ≠ some w := by
          intro w hw; rw [hjr]; intro e; injection e with e; exact hp ⟨w, hw, e⟩
        have m1 : eqI t w' ≠ some i := by
          rw [hw'rep]; intro e; injection e with e; subst e
          exact hp ⟨r, hw'r, rfl⟩
        have m2 : ∀ w, wcI t i = some w → eqI t w' ≠ some w := by
          intro w hw; rw [hw'rep]; intro e; injection e with e; subst e
          obtain ⟨_, r', hir', hwr'⟩ := c.wcRep i w' hw
          rw [f.1] at hir'; injection hir' with e; rw [← e, hw'r] at hwr'
          injection hwr' with e'; exact hri e'
        rw [mutateF_other f n1 n2, mutateF_other f m1 m2]
        exact g.2.2 j w' hjw

/-- the decidable `Good` of the model is `GoodFn` of the indexing function -/
theorem good_iff {t : Triple} (c : ContractF t) (S : Seq) :
    Good t S ↔ S.length = t.N ∧ GoodFn t (sAt S) := by
  constructor
  · rintro ⟨hl, h⟩
    refine ⟨hl, ?_, ?_, ?_⟩
    · intro j hj hn
      exact (h j hj).1.2 (c.blank j hj hn).1
    · intro j r hjr
      have hj := c.eqLt j r hjr
      have he := eqI_some.1 hjr
      obtain ⟨_, h2, h3, _⟩ := h j hj
      have := h3 (by omega)
      rw [show t.eqAt j - 1 = r by omega] at this
      exact ⟨this, h2 (isCode_ne_blank (c.code j r hjr))⟩
    · intro j w hjw
      obtain ⟨_, r, hjr, _⟩ := c.wcRep j w hjw
      have hj := c.eqLt j r hjr
      obtain ⟨hne, hw⟩ := wcI_some.1 hjw
      have := (h j hj).2.2.2 hne
      rw [hw] at this; exact this
  · rintro ⟨hl, g1, g2, g3⟩
    refine ⟨hl, fun i hi => ?_⟩
    cases he : eqI t i with
    | none =>
      have hb := c.blank i hi he
      have e0 := eqI_none.1 he
      have w0 := wcI_none.1 hb.2
      refine ⟨⟨fun _ => hb.1, fun _ => g1 i hi he⟩, fun h => absurd hb.1 h, fun h => absurd e0 h,
        fun h => absurd w0 h⟩
    | some r =>
      have hc := c.code i r he
      have hm := (g2 i r he).2
      refine ⟨⟨fun h => absurd h (memCode_ne_blank hm), fun h => absurd h (isCode_ne_blank hc)⟩,
        fun _ => hm, fun _ => ?_, fun hne => ?_⟩
      · have := eqI_some.1 he
        rw [show t.eqAt i - 1 = r by omega]
        exact (g2 i r he).1
      · exact g3 i (t.wcIx i) (wcI_some.2 ⟨hne, rfl⟩)

theorem freeF_of_isClassRep {t : Triple} {i : Nat} (h : isClassRep t i = true) : FreeF t i := by
  unfold isClassRep at h
  simp only [Bool.and_eq_true, Bool.or_eq_true, beq_iff_eq, decide_eq_true_eq] at h
  refine ⟨eqI_some.2 h.1, ?_⟩
  rcases h.2 with h2 | h2
  · refine Or.inr ⟨t.wcIx i, wcI_some.2 ⟨by omega, rfl⟩, ?_⟩
    unfold Triple.wcIx; omega
  · exact Or.inl (wcI_none.2 h2)

theorem isClassRep_of_freeF {t : Triple} {i : Nat} (f : FreeF t i) : isClassRep t i = true := by
  unfold isClassRep
  simp only [Bool.and_eq_true, Bool.or_eq_true, beq_iff_eq, decide_eq_true_eq]
  refine ⟨eqI_some.1 f.1, ?_⟩
  rcases f.2 with h | ⟨w, hw, hiw⟩
  · exact Or.inr (wcI_none.1 h)
  · obtain ⟨hne, he⟩ := wcI_some.1 hw
    unfold Triple.wcIx at he
    left; omega

theorem mem_freeLocs {t : Triple} {i : Nat} :
    i ∈ freeLocs t ↔ i < t.N ∧ isClassRep t i = true ∧ isFixed (t.stAt i) = false := by
  unfold freeLocs
  simp [List.mem_filter, List.mem_range]

/-- pointwise meaning of `constrain_single_fast` -/
theorem csf_getD {t : Triple} (c : ContractF t) {S : Seq} (hl : S.length = t.N) {i : Nat}
    (hi : i < t.N) (k : Nat) :
    (constrainSingleFast t S i).getD k ' ' =
      if i < k ∧ k < t.N ∧ wcI t i ≠ none ∧ eqI t k = wcI t i then WC (S.getD i ' ')
      else if i < k ∧ k < t.N ∧ eqI t k = eqI t i then S.getD i ' '
      else S.getD k ' ' := by
  have hmem : ∀ x, x ∈ List.range' (i + 1) (t.N - (i + 1)) ↔ (i < x ∧ x < t.N) := by
    intro x; rw [List.mem_range'_1]; omega
  have hns : ∀ (p : Nat → Bool), ∀ j ∈ List.range' (i + 1) (t.N - (i + 1)), p j = true → j ≠ i := by
    intro p j hj _; have := (hmem j).1 hj; omega
  have hin : ¬ (i ∈ List.range' (i + 1) (t.N - (i + 1))) := by
    intro h; have := (hmem i).1 h; omega
  unfold constrainSingleFast
  simp only []
  rw [assignLoop_getD _ _ _ _ _ _ (Or.inr (hns _)), assignLoop_length]
  rw [assignLoop_getD _ _ _ _ _ _ (Or.inr (hns _)) i, assignLoop_getD _ _ _ _ _ _ (Or.inr (hns _)) k]
  simp only [hin, false_and, if_false, id, hmem, hl, c.testWc, c.testEq]
  by_cases h1 : i < k ∧ k < t.N ∧ wcI t i ≠ none ∧ eqI t k = wcI t i
  · have : (i < k ∧ k < t.N) ∧ (wcI t i ≠ none ∧ eqI t k = wcI t i) ∧ k < t.N :=
      ⟨⟨h1.1, h1.2.1⟩, h1.2.2, h1.2.1⟩
    rw [if_pos this, if_pos h1]
  · have : ¬ ((i < k ∧ k < t.N) ∧ (wcI t i ≠ none ∧ eqI t k = wcI t i) ∧ k < t.N) := by
      rintro ⟨⟨a, b⟩, c', _⟩; exact h1 ⟨a, b, c'⟩
    rw [if_neg this, if_neg h1]
    by_cases h2 : i < k ∧ k < t.N ∧ eqI t k = eqI t i
    · have : (i < k ∧ k < t.N) ∧ eqI t k = eqI t i ∧ k < t.N := ⟨⟨h2.1, h2.2.1⟩, h2.2.2, h2.2.1⟩
      rw [if_pos this, if_pos h2]
    · have : ¬ ((i < k ∧ k < t.N) ∧ eqI t k = eqI t i ∧ k < t.N) := by
        rintro ⟨⟨a, b⟩, c', _⟩; exact h2 ⟨a, b, c'⟩
      rw [if_neg this, if_neg h2]

/-- the list model of `mutate` is appendix C's `mutate` -/
theorem mutate_pointwise {t : Triple} (c : ContractF t) {S : Seq} (hl : S.length = t.N) {i : Nat}
    (f : FreeF t i) (b : Char) (k : Nat) :
    sAt (mutate t S i b) k = mutateF t (sAt S) i b k := by
  have hi : i < t.N := c.eqLt i i f.1
  unfold mutate sAt
  rw [csf_getD c (by simp [hl]) hi, getD_set, getD_set]
  unfold mutateF
  have hil : i < S.length := by omega
  simp only [hil, and_true, if_true]
  by_cases hki : k = i
  · subst hki; simp
  · have hik : ¬ i = k := fun e => hki e.symm
    simp only [hki, hik, if_false]
    by_cases h1 : i < k ∧ wcI t i ≠ none ∧ eqI t k = wcI t i
    · have hk : k < t.N := by
        cases hw : wcI t i with
        | none => exact absurd hw h1.2.1
        | some w => exact c.eqLt k w (by rw [h1.2.2, hw])
      have : i < k ∧ k < t.N ∧ wcI t i ≠ none ∧ eqI t k = wcI t i := ⟨h1.1, hk, h1.2⟩
      rw [if_pos this, if_pos h1]
    · have : ¬ (i < k ∧ k < t.N ∧ wcI t i ≠ none ∧ eqI t k = wcI t i) := by
        rintro ⟨a, _, c'⟩; exact h1 ⟨a, c'⟩
      rw [if_neg this, if_neg h1]
      by_cases h2 : i < k ∧ eqI t k = eqI t i
      · have hk : k < t.N := c.eqLt k i (by rw [h2.2, f.1])
        have : i < k ∧ k < t.N ∧ eqI t k = eqI t i := ⟨h2.1, hk, h2.2⟩
        rw [if_pos this, if_pos h2]
      · have : ¬ (i < k ∧ k < t.N ∧ eqI t k = eqI t i) := by
          rintro ⟨a, _, c'⟩; exact h2 ⟨a, c'⟩
        rw [if_neg this, if_neg h2]

theorem mutate_length (t : Triple) (S : Seq) (i : Nat) (b : Char) : (mutate t S i b).length = S.length := by
  unfold mutate constrainSingleFast
  simp [assignLoop_length]

theorem mutate_good {t : Triple} (c : ContractF t) {S : Seq} (g : Good t S) {i : Nat} {b : Char}
    (f : FreeF t i) (hb : memCode b (t.stAt i) = true) : Good t (mutate t S i b) := by
  obtain ⟨hl, gf⟩ := (good_iff c S).1 g
  rw [good_iff c]
  refine ⟨by rw [mutate_length, hl], ?_⟩
  have : sAt (mutate t S i b) = mutateF t (sAt S) i b := funext (mutate_pointwise c hl f b)
  rw [this]
  exact mutateF_good c gf f hb

/-! ### 5. `constrain` -/

def GoodAt (t : Triple) (F : Nat → Char) (j : Nat) : Prop :=
  (eqI t j = none → F j = ' ') ∧
  (∀ r, eqI t j = some r → F j = F r ∧ memCode (F j) (t.stAt j) = true) ∧
  (∀ w, wcI t j = some w → F j = WC (F w))

theorem cstep_marked {t : Triple} {sm : Seq × List Bool} {i : Nat} (h : sm.2.getD i false = true) :
    constrainStep t sm i = sm := by
  unfold constrainStep; rw [if_pos h]

theorem not_pw_self {t : Triple} (c : ContractF t) (i : Nat) :
    ¬ (wcI t i ≠ none ∧ eqI t i = wcI t i) := by
  rintro ⟨hne, he⟩
  cases hw : wcI t i with
  | none => exact hne hw
  | some w => exact c.notSelf i w hw (by rw [he, hw])

theorem cstep_S {t : Triple} (c : ContractF t) {S : Seq} {m : List Bool} (hl : S.length = t.N)
    {i : Nat} (hm : m.getD i false = false) (x : Nat) :
    (constrainStep t (S, m) i).1.getD x ' ' =
      if x < t.N ∧ wcI t i ≠ none ∧ eqI t x = wcI t i then WC (S.getD i ' ')
      else if x < t.N ∧ eqI t x = eqI t i then S.getD i ' ' else S.getD x ' ' := by
  have hns : ∀ j ∈ List.range t.N, ((t.eqAt j : Int) == t.wcAt i) = true → j ≠ i := by
    intro j _ hp e
    subst e
    exact not_pw_self c j ((c.testWc j j).1 hp)
  unfold constrainStep
  simp only [hm, Bool.false_eq_true, if_false]
  rw [assignLoop_getD _ _ _ _ _ _ (Or.inr hns), assignLoop_length,
    assignLoop_getD ' ' _ i id _ S (Or.inl (fun _ => rfl)) i,
    assignLoop_getD ' ' _ i id _ S (Or.inl (fun _ => rfl)) x]
  simp only [List.mem_range, c.testWc, c.testEq, hl, id, ite_self]
  by_cases h1 : x < t.N ∧ wcI t i ≠ none ∧ eqI t x = wcI t i
  · have : x < t.N ∧ (wcI t i ≠ none ∧ eqI t x = wcI t i) ∧ x < t.N := ⟨h1.1, h1.2, h1.1⟩
    rw [if_pos this, if_pos h1]
  · have : ¬ (x < t.N ∧ (wcI t i ≠ none ∧ eqI t x = wcI t i) ∧ x < t.N) := by
      rintro ⟨a, b, _⟩; exact h1 ⟨a, b⟩
    rw [if_neg this, if_neg h1]
    by_cases h2 : x < t.N ∧ eqI t x = eqI t i
    · have : x < t.N ∧ eqI t x = eqI t i ∧ x < t.N := ⟨h2.1, h2.2, h2.1⟩
      rw [if_pos this, if_pos h2]
    · have : ¬ (x < t.N ∧ eqI t x = eqI t i ∧ x < t.N) := by
        rintro ⟨a, b, _⟩; exact h2 ⟨a, b⟩
      rw [if_neg this, if_neg h2]

theorem cstep_m {t : Triple} (c : ContractF t) {S : Seq} {m : List Bool} (hl : m.length = t.N)
    {i : Nat} (hm : m.getD i false = false) (x : Nat) :
    (constrainStep t (S, m) i).2.getD x false =
      if x < t.N ∧ wcI t i ≠ none ∧ eqI t x = wcI t i then true
      else if x < t.N ∧ eqI t x = eqI t i then true else m.getD x false := by
  unfold constrainStep
  simp only [hm, Bool.false_eq_true, if_false]
  rw [assignLoop_getD false _ i (fun _ => true) _ _ (Or.inl (fun _ => rfl)), assignLoop_length,
    assignLoop_getD false _ i (fun _ => true) _ m (Or.inl (fun _ => rfl)) x]
  simp only [List.mem_range, c.testWc, c.testEq, hl]
  by_cases h1 : x < t.N ∧ wcI t i ≠ none ∧ eqI t x = wcI t i
  · have : x < t.N ∧ (wcI t i ≠ none ∧ eqI t x = wcI t i) ∧ x < t.N := ⟨h1.1, h1.2, h1.1⟩
    rw [if_pos this, if_pos h1]
  · have : ¬ (x < t.N ∧ (wcI t i ≠ none ∧ eqI t x = wcI t i) ∧ x < t.N) := by
      rintro ⟨a, b, _⟩; exact h1 ⟨a, b⟩
    rw [if_neg this, if_neg h1]
    by_cases h2 : x < t.N ∧ eqI t x = eqI t i
    · have : x < t.N ∧ eqI t x = eqI t i ∧ x < t.N := ⟨h2.1, h2.2, h2.1⟩
      rw [if_pos this, if_pos h2]
    · have : ¬ (x < t.N ∧ eqI t x = eqI t i ∧ x < t.N) := by
        rintro ⟨a, b, _⟩; exact h2 ⟨a, b⟩
      rw [if_neg this, if_neg h2]

theorem cstep_length {t : Triple} (sm : Seq × List Bool) (i : Nat) :
    (constrainStep t sm i).1.length = sm.1.length ∧ (constrainStep t sm i).2.length = sm.2.length := by
  unfold constrainStep
  split
  · exact ⟨rfl, rfl⟩
  · simp [assignLoop_length]

/-- loop invariant of `constrain` after the outer loop has handled positions `< k` -/
structure CInv (t : Triple) (S0 : Seq) (k : Nat) (sm : Seq × List Bool) : Prop where
  lenS : sm.1.length = t.N
  lenM : sm.2.length = t.N
  unch : ∀ j, j < t.N → sm.2.getD j false = false → sAt sm.1 j = sAt S0 j
  done : ∀ j, j < k → j < t.N → sm.2.getD j false = true
  mEq  : ∀ j j', j < t.N → j' < t.N → eqI t j = eqI t j' → sm.2.getD j false = sm.2.getD j' false
  mWc  : ∀ j w, wcI t j = some w → sm.2.getD j false = sm.2.getD w false
  good : ∀ j, j < t.N → sm.2.getD j false = true → GoodAt t (sAt sm.1) j

theorem wc_lt {t : Triple} (c : ContractF t) {j w : Nat} (h : wcI t j = some w) : j < t.N ∧ w < t.N := by
  obtain ⟨hw, r, hr, _⟩ := c.wcRep j w h
  exact ⟨c.eqLt j r hr, c.eqLt w w hw⟩

theorem cinv_step {t : Triple} (c : ContractF t) {S0 : Seq} (hs : StartOK t S0) {k : Nat} (hk : k < t.N)
    {sm : Seq × List Bool} (inv : CInv t S0 k sm) : CInv t S0 (k + 1) (constrainStep t sm k) := by
  by_cases hmk : sm.2.getD k false = true
  · rw [cstep_marked hmk]
    refine { inv with done := ?_ }
    intro j hj hjN
    by_cases e : j = k
    · rw [e]; exact hmk
    · exact inv.done j (by omega) hjN
  · obtain ⟨S, m⟩ := sm
    have hmk : m.getD k false = false := by simpa using hmk
    have lenS : S.length = t.N := inv.lenS
    have lenM : m.length = t.N := inv.lenM
    have unch : ∀ j, j < t.N → m.getD j false = false → sAt S j = sAt S0 j := inv.unch
    have done : ∀ j, j < k → j < t.N → m.getD j false = true := inv.done
    have mEq : ∀ j j', j < t.N → j' < t.N → eqI t j = eqI t j' → m.getD j false = m.getD j' false := inv.mEq
    have mWc : ∀ j w, wcI t j = some w → m.getD j false = m.getD w false := inv.mWc
    have good : ∀ j, j < t.N → m.getD j false = true → GoodAt t (sAt S) j := inv.good
    -- the classes touched in this round were unmarked
    have hA : ∀ j, j < t.N → eqI t j = eqI t k → m.getD j false = false := by
      intro j hj h; rw [mEq j k hj hk h]; exact hmk
    have hB : ∀ j, wcI t k ≠ none → eqI t j = wcI t k → m.getD j false = false := by
      intro j hne h
      cases hw : wcI t k with
      | none => exact absurd hw hne
      | some w =>
        have hwrep := (c.wcRep k w hw).1
        have hjN := c.eqLt j w (by rw [h, hw])
        rw [mEq j w hjN (wc_lt c hw).2 (by rw [h, hw, hwrep]), ← mWc k w hw]; exact hmk
    -- `k` is the lowest member of its class and lies below its partner class
    have rep : ∀ r, eqI t k = some r → r = k := by
      intro r hr
      have hrr := c.eqRep k r hr
      apply Decidable.byContradiction; intro hne
      have hlt : r < k := by omega
      have h1 := done r hlt (by omega)
      rw [hA r (by omega) (by rw [hrr.1, hr])] at h1
      cases h1
    have below : ∀ w, wcI t k = some w → k < w := by
      intro w hw
      have hwN := (wc_lt c hw).2
      have hmw : m.getD w false = false := by rw [← mWc k w hw]; exact hmk
      apply Decidable.byContradiction; intro hn
      have hle : w ≤ k := by omega
      by_cases e : w = k
      · obtain ⟨hwrep, r, hr, _⟩ := c.wcRep k w hw
        have := rep r hr
        subst this
        exact c.notSelf r w hw (by rw [hr, e])
      · have h1 := done w (by omega) hwN
        rw [hmw] at h1; cases h1
    have val : sAt S k = sAt S0 k := unch k hk hmk
    have hblank : eqI t k = none → sAt S k = ' ' := by
      intro h; rw [val]; exact (hs.2 k hk).1 (c.blank k hk h).1
    have hmemb : ∀ r, eqI t k = some r → memCode (sAt S k) (t.stAt k) = true := by
      intro r hr
      have e := rep r hr
      subst e
      rw [val]
      apply (hs.2 r hk).2
      apply isClassRep_of_freeF
      refine ⟨hr, ?_⟩
      cases hw : wcI t r with
      | none => exact Or.inl rfl
      | some w => exact Or.inr ⟨w, rfl, below w hw⟩
    -- partner symmetry of the two touched classes
    have sym1 : ∀ j w', wcI t j = some w' → (eqI t j = eqI t k ↔ (wcI t k ≠ none ∧ eqI t w' = wcI t k)) := by
      intro j w' hjw
      obtain ⟨hw'rep, r, hjr, hw'r⟩ := c.wcRep j w' hjw
      constructor
      · intro h
        have hkr : eqI t k = some r := by rw [← h, hjr]
        have e := rep r hkr
        subst e
        have : wcI t r = some w' := by rw [← c.wcClass j r hjr]; exact hjw
        rw [this]; exact ⟨by simp, hw'rep⟩
      · rintro ⟨hne, h⟩
        cases hw : wcI t k with
        | none => exact absurd hw hne
        | some w =>
          have e : w' = w := by rw [hw, hw'rep] at h; injection h
          subst e
          obtain ⟨_, r', hkr', hwr'⟩ := c.wcRep k w' hw
          rw [hw'r] at hwr'; injection hwr' with e
          rw [hjr, hkr', e]
    have sym2 : ∀ j w', wcI t j = some w' → ((wcI t k ≠ none ∧ eqI t j = wcI t k) ↔ eqI t w' = eqI t k) := by
      intro j w' hjw
      obtain ⟨hw'rep, r, hjr, hw'r⟩ := c.wcRep j w' hjw
      constructor
      · rintro ⟨hne, h⟩
        cases hw : wcI t k with
        | none => exact absurd hw hne
        | some w =>
          have e : r = w := by rw [hw, hjr] at h; injection h
          subst e
          have h1 : wcI t r = some w' := by rw [← c.wcClass j r hjr]; exact hjw
          obtain ⟨_, r', hkr', hwr'⟩ := c.wcRep k r hw
          rw [h1] at hwr'; injection hwr' with e
          rw [hw'rep, hkr', e]
      · intro h
        have hkw : eqI t k = some w' := by rw [← h, hw'rep]
        have e := rep w' hkw
        subst e
        rw [hw'r]; exact ⟨by simp, hjr⟩
    have hS := cstep_S c (m := m) lenS hmk
    have hM := cstep_m c (S := S) lenM hmk
    have hlen := cstep_length (t := t) (S, m) k
    -- the new sequence, by cases
    have newB : ∀ x, wcI t k ≠ none → eqI t x = wcI t k →
        sAt (constrainStep t (S, m) k).1 x = WC (sAt S k) := by
      intro x hne h
      have hx : x < t.N := by
        cases hw : wcI t k with
        | none => exact absurd hw hne
        | some w => exact c.eqLt x w (by rw [h, hw])
      unfold sAt; rw [hS x, if_pos ⟨hx, hne, h⟩]
    have newA : ∀ x, x < t.N → eqI t x = eqI t k → sAt (constrainStep t (S, m) k).1 x = sAt S k := by
      intro x hx h
      have : ¬ (x < t.N ∧ wcI t k ≠ none ∧ eqI t x = wcI t k) := by
        rintro ⟨_, hne, h'⟩
        exact not_pw_self c k ⟨hne, by rw [← h, h']⟩
      unfold sAt; rw [hS x, if_neg this, if_pos ⟨hx, h⟩]
    have newO : ∀ x, ¬ (wcI t k ≠ none ∧ eqI t x = wcI t k) → ¬ (x < t.N ∧ eqI t x = eqI t k) →
        sAt (constrainStep t (S, m) k).1 x = sAt S x ∧
        (constrainStep t (S, m) k).2.getD x false = m.getD x false := by
      intro x h1 h2
      have : ¬ (x < t.N ∧ wcI t k ≠ none ∧ eqI t x = wcI t k) := fun h => h1 h.2
      unfold sAt; rw [hS x, hM x, if_neg this, if_neg h2, if_neg this, if_neg h2]
      exact ⟨rfl, rfl⟩
    have markB : ∀ x, wcI t k ≠ none → eqI t x = wcI t k →
        (constrainStep t (S, m) k).2.getD x false = true := by
      intro x hne h
      have hx : x < t.N := by
        cases hw : wcI t k with
        | none => exact absurd hw hne
        | some w => exact c.eqLt x w (by rw [h, hw])
      rw [hM x, if_pos ⟨hx, hne, h⟩]
    have markA : ∀ x, x < t.N → eqI t x = eqI t k → (constrainStep t (S, m) k).2.getD x false = true := by
      intro x hx h
      rw [hM x]
      split
      · rfl
      · rw [if_pos ⟨hx, h⟩]
    refine ⟨by rw [hlen.1]; exact lenS, by rw [hlen.2]; exact lenM, ?_, ?_, ?_, ?_, ?_⟩
    · -- unch
      intro j hj hmj
      by_cases h1 : wcI t k ≠ none ∧ eqI t j = wcI t k
      · rw [markB j h1.1 h1.2] at hmj; cases hmj
      · by_cases h2 : j < t.N ∧ eqI t j = eqI t k
        · rw [markA j h2.1 h2.2] at hmj; cases hmj
        · obtain ⟨e1, e2⟩ := newO j h1 h2
          rw [e1]; rw [e2] at hmj; exact unch j hj hmj
    · -- done
      intro j hj hjN
      by_cases e : j = k
      · rw [e]; exact markA k hk rfl
      · by_cases h1 : wcI t k ≠ none ∧ eqI t j = wcI t k
        · exact markB j h1.1 h1.2
        · by_cases h2 : j < t.N ∧ eqI t j = eqI t k
          · exact markA j h2.1 h2.2
          · rw [(newO j h1 h2).2]; exact done j (by omega) hjN
    · -- mEq
      intro j j' hj hj' h
      by_cases h1 : wcI t k ≠ none ∧ eqI t j = wcI t k
      · rw [markB j h1.1 h1.2, markB j' h1.1 (by rw [← h]; exact h1.2)]
      · by_cases h2 : j < t.N ∧ eqI t j = eqI t k
        · rw [markA j h2.1 h2.2, markA j' hj' (by rw [← h]; exact h2.2)]
        · have h1' : ¬ (wcI t k ≠ none ∧ eqI t j' = wcI t k) := by rw [← h]; exact h1
          have h2' : ¬ (j' < t.N ∧ eqI t j' = eqI t k) := by
            rintro ⟨_, e⟩; exact h2 ⟨hj, by rw [h]; exact e⟩
          rw [(newO j h1 h2).2, (newO j' h1' h2').2]; exact mEq j j' hj hj' h
    · -- mWc
      intro j w' hjw
      obtain ⟨hj, hw'⟩ := wc_lt c hjw
      by_cases h1 : wcI t k ≠ none ∧ eqI t j = wcI t k
      · rw [markB j h1.1 h1.2, markA w' hw' ((sym2 j w' hjw).1 h1)]
      · by_cases h2 : j < t.N ∧ eqI t j = eqI t k
        · have := (sym1 j w' hjw).1 h2.2
          rw [markA j h2.1 h2.2, markB w' this.1 this.2]
        · have h1' : ¬ (wcI t k ≠ none ∧ eqI t w' = wcI t k) := by
            intro h; exact h2 ⟨hj, (sym1 j w' hjw).2 h⟩
          have h2' : ¬ (w' < t.N ∧ eqI t w' = eqI t k) := by
            rintro ⟨_, e⟩; exact h1 ((sym2 j w' hjw).2 e)
          rw [(newO j h1 h2).2, (newO w' h1' h2').2]; exact mWc j w' hjw
    · -- good
      intro j hj hmj
      by_cases h1 : wcI t k ≠ none ∧ eqI t j = wcI t k
      · -- `j` lies in the partner class of `k`
        cases hw : wcI t k with
        | none => exact absurd hw h1.1
        | some w =>
          have hjw : eqI t j = some w := by rw [h1.2, hw]
          obtain ⟨hwrep, r, hkr, hwr⟩ := c.wcRep k w hw
          have e := rep r hkr
          subst e
          have hb := hmemb r hkr
          refine ⟨(fun hn => by rw [hn] at hjw; cases hjw), ?_, ?_⟩
          · intro r' hr'
            have e : r' = w := by rw [hjw] at hr'; injection hr' with e; exact e.symm
            subst e
            rw [newB j h1.1 h1.2, newB r' h1.1 (by rw [hwrep, hw])]
            refine ⟨rfl, ?_⟩
            rw [c.stEq j r' hjw]
            have h3 := c.stWc r r' hw
            have e : t.stAt r' = WC (t.stAt r) := by rw [h3, WC_WC_code (c.code r' r' hwrep)]
            rw [e]; exact memCode_WC hb
          · intro w'' hw''
            have e : w'' = r := by
              have := c.wcClass j w hjw
              rw [hw'', hwr] at this; injection this
            subst e
            rw [newB j h1.1 h1.2, newA w'' hk rfl]
      · by_cases h2 : j < t.N ∧ eqI t j = eqI t k
        · -- `j` lies in the class of `k`
          rw [GoodAt, newA j h2.1 h2.2]
          refine ⟨(fun hn => hblank (by rw [← h2.2, hn])), ?_, ?_⟩
          · intro r hr
            have hkr : eqI t k = some r := by rw [← h2.2, hr]
            have e := rep r hkr
            subst e
            rw [newA r hk rfl]
            refine ⟨rfl, ?_⟩
            rw [c.stEq j r hr]; exact hmemb r hkr
          · intro w hw
            obtain ⟨hwrep, r, hjr, hwr⟩ := c.wcRep j w hw
            have hkr : eqI t k = some r := by rw [← h2.2, hjr]
            have e := rep r hkr
            subst e
            have hb := hmemb r hkr
            have := (sym1 j w hw).1 h2.2
            rw [newB w this.1 this.2, WC_WC_base hb]
        · -- untouched and marked before
          obtain ⟨e1, e2⟩ := newO j h1 h2
          rw [e2] at hmj
          obtain ⟨g1, g2, g3⟩ := good j hj hmj
          refine ⟨(fun hn => by rw [e1]; exact g1 hn), ?_, ?_⟩
          · intro r hr
            have hrr := (c.eqRep j r hr).1
            have h1r : ¬ (wcI t k ≠ none ∧ eqI t r = wcI t k) := by rw [hrr, ← hr]; exact h1
            have h2r : ¬ (r < t.N ∧ eqI t r = eqI t k) := by
              rintro ⟨_, e⟩; exact h2 ⟨hj, by rw [hr, ← hrr]; exact e⟩
            rw [e1, (newO r h1r h2r).1]; exact g2 r hr
          · intro w hw
            have h1w : ¬ (wcI t k ≠ none ∧ eqI t w = wcI t k) := by
              intro h; exact h2 ⟨hj, (sym1 j w hw).2 h⟩
            have h2w : ¬ (w < t.N ∧ eqI t w = eqI t k) := by
              rintro ⟨_, e⟩; exact h1 ((sym2 j w hw).2 e)
            rw [e1, (newO w h1w h2w).1]; exact g3 w hw

theorem constrain_inv {t : Triple} (c : ContractF t) {S0 : Seq} (hs : StartOK t S0) :
    CInv t S0 t.N ((List.range t.N).foldl (constrainStep t) (S0, List.replicate t.N false)) := by
  apply foldl_range_inv (fun k sm => CInv t S0 k sm)
  · have hm : ∀ j, (List.replicate t.N false).getD j false = false := by
      intro j
      rw [List.getD_eq_getElem?_getD, List.getElem?_replicate]
      split <;> rfl
    refine ⟨hs.1, (by simp), (fun _ _ _ => rfl), (fun j hj _ => by omega),
      (fun j j' _ _ _ => by rw [hm, hm]), (fun j w _ => by rw [hm, hm]), fun j _ h => ?_⟩
    rw [hm] at h; cases h
  · intro k s hk inv
    exact cinv_step c hs hk inv

/-- `constrain` turns every admissible start sequence into a `Good` one. -/
theorem constrain_good' {t : Triple} (c : ContractF t) {S0 : Seq} (hs : StartOK t S0) :
    Good t (constrain t S0) := by
  have inv := constrain_inv c hs
  rw [good_iff c]
  unfold constrain
  refine ⟨inv.lenS, ?_, ?_, ?_⟩
  · intro j hj hn
    exact (inv.good j hj (inv.done j hj hj)).1 hn
  · intro j r hjr
    have hj := c.eqLt j r hjr
    exact (inv.good j hj (inv.done j hj hj)).2.1 r hjr
  · intro j w hjw
    have hj := (wc_lt c hjw).1
    exact (inv.good j hj (inv.done j hj hj)).2.2 w hjw

/-! ### 6. the search loop -/

/-- a legal outcome of the two random draws of `mutate`, in specification terms -/
def ValidEv (t : Triple) (e : Event) : Prop :=
  e.idx ∈ freeLocs t ∧ memCode e.base (t.stAt e.idx) = true

theorem freeF_of_mem_freeLocs {t : Triple} {i : Nat} (h : i ∈ freeLocs t) : FreeF t i :=
  freeF_of_isClassRep (mem_freeLocs.1 h).2.1

theorem validEv_of_validEvent {t : Triple} (c : ContractF t) {e : Event} (h : validEvent t e = true) :
    ValidEv t e := by
  unfold validEvent at h
  simp only [Bool.and_eq_true, List.contains_iff_mem] at h
  refine ⟨h.1, ?_⟩
  have f := freeF_of_mem_freeLocs h.1
  exact choices_memCode (c.code e.idx e.idx f.1) h.2

theorem step_good {t : Triple} (c : ContractF t) {s : State} (g : Good t s.S) {e : Event}
    (hv : ValidEv t e) : Good t (step t s e).S := by
  unfold step
  split
  · exact mutate_good c g (freeF_of_mem_freeLocs hv.1) hv.2
  · exact g

theorem run_good {t : Triple} (c : ContractF t) (p : Params) (nf : Nat) :
    ∀ (es : List Event) (s : State), Good t s.S → (∀ e ∈ es, ValidEv t e) → Good t (run t p nf s es).S := by
  intro es
  induction es with
  | nil => intro s g _; exact g
  | cons e es ih =>
    intro s g hv
    simp only [run]
    split
    · exact ih _ (step_good c g (hv e List.mem_cons_self)) (fun e' he' => hv e' (List.mem_cons_of_mem _ he'))
    · exact g

theorem runList_good {t : Triple} (c : ContractF t) (p : Params) (nf : Nat) :
    ∀ (es : List Event) (s : State), Good t s.S → (∀ e ∈ es, ValidEv t e) →
      ∀ s' ∈ runList t p nf s es, Good t s'.S := by
  intro es
  induction es with
  | nil => intro s _ _ s' h; simp [runList] at h
  | cons e es ih =>
    intro s g hv s' h
    simp only [runList] at h
    split at h
    · have g' := step_good c g (hv e List.mem_cons_self)
      rcases List.mem_cons.1 h with h | h
      · rw [h]; exact g'
      · exact ih _ g' (fun e' he' => hv e' (List.mem_cons_of_mem _ he')) s' h
    · simp at h

/-- a `Good` sequence is an admissible start for `constrain` -/
theorem startOK_of_good {t : Triple} (c : Contract t) {S : Seq} (g : Good t S) : StartOK t S := by
  refine ⟨g.1, fun i hi => ⟨fun h => (g.2 i hi).1.2 h, fun h => ?_⟩⟩
  apply (g.2 i hi).2.1
  intro hb
  have := (c.2.2.2.2 i hi).1.1.1 hb
  unfold isClassRep at h
  simp only [Bool.and_eq_true, beq_iff_eq] at h
  omega

theorem nimp_bool {a b : Bool} (h : a = true → b = false) : (!(a && b)) = true := by
  cases a <;> cases b <;> simp_all

/-- the program's own acceptance test passes on every `Good` sequence -/
theorem testConsistency_of_good {t : Triple} (c : Contract t) {S : Seq} (g : Good t S) :
    testConsistency t S = true := by
  obtain ⟨_, _, _, _, hall⟩ := c
  have ok1 : (List.range t.N).all (fun i =>
      !(t.wcAt i != -1 && t.wcAt (t.wcIx i) != (t.eqAt i : Int)) &&
      !(t.eqAt i != 0 && t.eqAt (t.eqAt i - 1) != t.eqAt i)) = true := by
    rw [List.all_eq_true]
    intro i hi
    have hi := List.mem_range.1 hi
    obtain ⟨_, he, hw⟩ := hall i hi
    rw [Bool.and_eq_true]
    constructor
    · apply nimp_bool; intro h
      have := (hw (by simpa using h)).2.2.2.2.1
      simp [this]
    · apply nimp_bool; intro h
      have := (he (by simpa using h)).2.1
      simp [this]
  unfold testConsistency
  simp only [ok1, Bool.not_true, Bool.false_eq_true, if_false, Bool.and_eq_true, List.all_eq_true]
  constructor
  · intro i hi
    have hi := List.mem_range.1 hi
    obtain ⟨g1, g2, g3, g4⟩ := g.2 i hi
    refine ⟨⟨?_, ?_⟩, ?_⟩
    · apply nimp_bool; intro h
      have hne : sAt S i ≠ ' ' := by simpa using h
      have hst : t.stAt i ≠ ' ' := fun e => hne (g1.2 e)
      simp [memCode_hasSub2 (g2 hst)]
    · apply nimp_bool; intro h
      have := g4 (by simpa using h)
      simp [← this]
    · apply nimp_bool; intro h
      have := g3 (by simpa using h)
      simp [← this]
  · intro i hi
    have hi := List.mem_range.1 hi
    obtain ⟨_, he, hw⟩ := hall i hi
    constructor
    · apply nimp_bool; intro h
      have := (hw (by simpa using h)).2.2.2.2.2
      simp [← this]
    · apply nimp_bool; intro h
      have := (he (by simpa using h)).2.2.2
      simp [this]

/-! #### iteration bounds -/

/-- number of strictly improving events -/
def improvements (es : List Event) : Nat := (es.filter (fun e => decide (e.cmp < 0))).length

theorem running_bored {bmax : Nat} (hb : 0 < bmax) {nf : Nat} {s : State}
    (h : running ⟨bmax, 0⟩ nf s = true) : s.bored < bmax := by
  unfold running at h
  simp only [Bool.and_eq_true, Bool.or_eq_true, beq_iff_eq, decide_eq_true_eq] at h
  rcases h.1.2 with h | h
  · omega
  · exact h

theorem step_bored (t : Triple) (s : State) (e : Event) :
    (step t s e).bored = if e.cmp < 0 then 0 else s.bored + 1 := by
  unfold step
  by_cases h : e.cmp ≤ 0
  · rw [if_pos h]
  · rw [if_neg h, if_neg (by omega)]

/-- counting half of the termination argument: every iteration either is a strict improvement or
    increments `bored`, and the loop runs only while `bored < bmax` -/
theorem runList_length_le (t : Triple) {bmax : Nat} (hb : 0 < bmax) (nf : Nat) :
    ∀ (es : List Event) (s : State), s.bored ≤ bmax →
      (runList t ⟨bmax, 0⟩ nf s es).length + s.bored ≤ bmax * (improvements es + 1) := by
  intro es
  induction es with
  | nil =>
    intro s h
    simp [runList, improvements]; exact h
  | cons e es ih =>
    intro s h
    simp only [runList]
    by_cases hr : running ⟨bmax, 0⟩ nf s = true
    · rw [if_pos hr]
      have hlt := running_bored hb hr
      have hsb := step_bored t s e
      simp only [List.length_cons]
      by_cases hc : e.cmp < 0
      · rw [if_pos hc] at hsb
        have := ih (step t s e) (by omega)
        have hk : improvements (e :: es) = improvements es + 1 := by
          simp [improvements, hc]
        rw [hk, Nat.mul_succ]
        omega
      · rw [if_neg hc] at hsb
        have := ih (step t s e) (by omega)
        have hk : improvements (e :: es) = improvements es := by
          simp [improvements, hc]
        rw [hk]
        omega
    · rw [if_neg hr]
      have : bmax ≤ bmax * (improvements (e :: es) + 1) := Nat.le_mul_of_pos_right _ (by omega)
      simp only [List.length_nil]
      omega

/-- with `imax > 0` the loop makes at most `imax` iterations -/
theorem runList_length_le_imax (t : Triple) (p : Params) (hi : 0 < p.imax) (nf : Nat) :
    ∀ (es : List Event) (s : State), s.steps ≤ p.imax →
      (runList t p nf s es).length + s.steps ≤ p.imax := by
  intro es
  induction es with
  | nil => intro s h; simpa [runList] using h
  | cons e es ih =>
    intro s h
    simp only [runList]
    by_cases hr : running p nf s = true
    · rw [if_pos hr]
      have hlt : s.steps < p.imax := by
        unfold running at hr
        simp only [Bool.and_eq_true, Bool.or_eq_true, beq_iff_eq, decide_eq_true_eq] at hr
        rcases hr.1.1 with h | h
        · omega
        · exact h
      have hst : (step t s e).steps = s.steps + 1 := by unfold step; split <;> rfl
      have := ih (step t s e) (by omega)
      simp only [List.length_cons]
      omega
    · rw [if_neg hr]; simpa using h

/-- the score comparison reported in an event agrees with a score function `score` into a strictly
    ordered set: `cmp < 0` means strictly better, `cmp = 0` means equal.  Only events that are
    actually executed are constrained. -/
def Scored {α : Type} (lt : α → α → Prop) (score : Seq → α) (t : Triple) (p : Params) (nf : Nat) :
    State → List Event → Prop
  | _, [] => True
  | s, e :: es =>
    running p nf s = true →
      ((e.cmp < 0 → lt (score (mutate t s.S e.idx e.base)) (score s.S)) ∧
       (e.cmp = 0 → score (mutate t s.S e.idx e.base) = score s.S)) ∧
      Scored lt score t p nf (step t s e) es

theorem runList_bound_chain {α : Type} (lt : α → α → Prop) (irr : ∀ a, ¬ lt a a)
    (tr : ∀ a b c, lt a b → lt b c → lt a c) (score : Seq → α) (space : List α)
    {t : Triple} (c : ContractF t) (hsp : ∀ S, Good t S → score S ∈ space)
    {bmax : Nat} (hb : 0 < bmax) (nf : Nat) :
    ∀ (es : List Event) (s : State) (chain : List α), Good t s.S → s.bored ≤ bmax →
      (∀ e ∈ es, ValidEv t e) → Scored lt score t ⟨bmax, 0⟩ nf s es →
      chain.Nodup → (∀ x ∈ chain, lt (score s.S) x) → (∀ x ∈ chain, x ∈ space) →
      (runList t ⟨bmax, 0⟩ nf s es).length + s.bored ≤ bmax * (space.length - chain.length) := by
  intro es
  induction es with
  | nil =>
    intro s chain g hbo _ _ hnd hlt hsub
    have hlen : (score s.S :: chain).length ≤ space.length := by
      apply List.Nodup.length_le_of_subset
      · rw [List.nodup_cons]
        exact ⟨fun hm => irr _ (hlt _ hm), hnd⟩
      · intro x hx
        rcases List.mem_cons.1 hx with e | e
        · rw [e]; exact hsp _ g
        · exact hsub x e
    simp only [List.length_cons] at hlen
    have : bmax ≤ bmax * (space.length - chain.length) := Nat.le_mul_of_pos_right _ (by omega)
    simp only [runList, List.length_nil]
    omega
  | cons e es ih =>
    intro s chain g hbo hv hsc hnd hlt hsub
    have hlen : (score s.S :: chain).length ≤ space.length := by
      apply List.Nodup.length_le_of_subset
      · rw [List.nodup_cons]
        exact ⟨fun hm => irr _ (hlt _ hm), hnd⟩
      · intro x hx
        rcases List.mem_cons.1 hx with e | e
        · rw [e]; exact hsp _ g
        · exact hsub x e
    simp only [List.length_cons] at hlen
    simp only [runList]
    by_cases hr : running ⟨bmax, 0⟩ nf s = true
    · rw [if_pos hr]
      have hbl := running_bored hb hr
      have hsb := step_bored t s e
      obtain ⟨⟨hneg, hzero⟩, hsc'⟩ := hsc hr
      have hve := hv e List.mem_cons_self
      have hv' : ∀ e' ∈ es, ValidEv t e' := fun e' he' => hv e' (List.mem_cons_of_mem _ he')
      have g' := step_good c g hve
      simp only [List.length_cons]
      by_cases hc : e.cmp < 0
      · rw [if_pos hc] at hsb
        have hS : (step t s e).S = mutate t s.S e.idx e.base := by
          unfold step; rw [if_pos (by omega)]
        have hl := hneg hc
        have := ih (step t s e) (score s.S :: chain) g' (by omega) hv' hsc'
          (by rw [List.nodup_cons]; exact ⟨fun hm => irr _ (hlt _ hm), hnd⟩)
          (by
            intro x hx
            rw [hS]
            rcases List.mem_cons.1 hx with e' | e'
            · rw [e']; exact hl
            · exact tr _ _ _ hl (hlt x e'))
          (by
            intro x hx
            rcases List.mem_cons.1 hx with e' | e'
            · rw [e']; exact hsp _ g
            · exact hsub x e')
        simp only [List.length_cons] at this
        have e1 : space.length - chain.length = (space.length - (chain.length + 1)) + 1 := by omega
        rw [e1, Nat.mul_succ]
        omega
      · rw [if_neg hc] at hsb
        have hsame : score (step t s e).S = score s.S := by
          unfold step
          by_cases h0 : e.cmp ≤ 0
          · rw [if_pos h0]; exact hzero (by omega)
          · rw [if_neg h0]
        have := ih (step t s e) chain g' (by omega) hv' hsc' hnd
          (by intro x hx; rw [hsame]; exact hlt x hx) hsub
        omega
    · rw [if_neg hr]
      have : bmax ≤ bmax * (space.length - chain.length) := Nat.le_mul_of_pos_right _ (by omega)
      simp only [List.length_nil]
      omega

/-! #### the sequence space is finite -/

def alphabet : List Char := [' ', 'A', 'C', 'G', 'T']

/-- all sequences of length `n` over blank and the four bases -/
def seqSpace : Nat → List Seq
  | 0 => [[]]
  | n + 1 => (seqSpace n).map (' ' :: ·) ++ (seqSpace n).map ('A' :: ·) ++ (seqSpace n).map ('C' :: ·) ++
      (seqSpace n).map ('G' :: ·) ++ (seqSpace n).map ('T' :: ·)

theorem length_seqSpace (n : Nat) : (seqSpace n).length = 5 ^ n := by
  induction n with
  | zero => rfl
  | succ n ih =>
    simp only [seqSpace, List.length_append, List.length_map, ih, Nat.pow_succ]
    omega

theorem mem_seqSpace : ∀ (S : Seq), (∀ c ∈ S, c ∈ alphabet) → S ∈ seqSpace S.length := by
  intro S
  induction S with
  | nil => intro _; simp [seqSpace]
  | cons a S ih =>
    intro h
    have hS := ih (fun c hc => h c (List.mem_cons_of_mem _ hc))
    have ha := h a List.mem_cons_self
    simp only [alphabet, List.mem_cons, List.not_mem_nil, or_false] at ha
    simp only [List.length_cons, seqSpace, List.mem_append, List.mem_map]
    rcases ha with e | e | e | e | e <;> subst e
    · exact Or.inl (Or.inl (Or.inl (Or.inl ⟨S, hS, rfl⟩)))
    · exact Or.inl (Or.inl (Or.inl (Or.inr ⟨S, hS, rfl⟩)))
    · exact Or.inl (Or.inl (Or.inr ⟨S, hS, rfl⟩))
    · exact Or.inl (Or.inr ⟨S, hS, rfl⟩)
    · exact Or.inr ⟨S, hS, rfl⟩

theorem good_mem_seqSpace {t : Triple} {S : Seq} (g : Good t S) : S ∈ seqSpace t.N := by
  rw [← g.1]
  apply mem_seqSpace
  intro ch hc
  obtain ⟨i, hi, e⟩ := List.getElem_of_mem hc
  have hs : sAt S i = ch := by
    unfold sAt; rw [List.getD_eq_getElem?_getD, List.getElem?_eq_getElem hi]; exact e
  obtain ⟨g1, g2, _⟩ := g.2 i (by rw [← g.1]; exact hi)
  by_cases hb : t.stAt i = ' '
  · have := g1.2 hb
    rw [hs] at this; rw [this]; simp [alphabet]
  · have := memCode_isFixed (g2 hb)
    rw [hs] at this
    unfold isFixed at this
    simp only [Bool.or_eq_true, beq_iff_eq] at this
    rcases this with ((e | e) | e) | e <;> rw [e] <;> simp [alphabet]

/-- Termination, list form: whatever stream of random choices is supplied, if the reported
    comparisons come from a score function, the loop with `imax = 0`, `bmax > 0` executes at most
    `bmax · 5^N` iterations. -/
theorem runList_bound {α : Type} (lt : α → α → Prop) (irr : ∀ a, ¬ lt a a)
    (tr : ∀ a b c, lt a b → lt b c → lt a c) (score : Seq → α)
    {t : Triple} (c : ContractF t) {bmax : Nat} (hb : 0 < bmax) (nf : Nat)
    (es : List Event) (s : State) (g : Good t s.S) (h0 : s.bored = 0)
    (hv : ∀ e ∈ es, ValidEv t e) (hsc : Scored lt score t ⟨bmax, 0⟩ nf s es) :
    (runList t ⟨bmax, 0⟩ nf s es).length ≤ bmax * 5 ^ t.N := by
  have := runList_bound_chain lt irr tr score ((seqSpace t.N).map score) c
    (fun S gS => List.mem_map.2 ⟨S, good_mem_seqSpace gS, rfl⟩) hb nf es s [] g (by omega) hv hsc
    List.nodup_nil (fun _ h => by cases h) (fun _ h => by cases h)
  simp only [List.length_map, length_seqSpace, List.length_nil, Nat.sub_zero] at this
  omega

/-- if fewer iterations ran than events were supplied, the loop condition is false at the end -/
theorem run_stopped (t : Triple) (p : Params) (nf : Nat) :
    ∀ (es : List Event) (s : State), (runList t p nf s es).length < es.length →
      running p nf (run t p nf s es) = false := by
  intro es
  induction es with
  | nil => intro s h; simp [runList] at h
  | cons e es ih =>
    intro s h
    simp only [runList, run] at *
    by_cases hr : running p nf s = true
    · rw [if_pos hr] at h ⊢
      simp only [List.length_cons] at h
      exact ih _ (by omega)
    · rw [if_neg hr]
      simpa using hr

theorem runList_length_le_length (t : Triple) (p : Params) (nf : Nat) :
    ∀ (es : List Event) (s : State), (runList t p nf s es).length ≤ es.length := by
  intro es
  induction es with
  | nil => intro s; simp [runList]
  | cons e es ih =>
    intro s
    simp only [runList]
    split
    · simp only [List.length_cons]; have := ih (step t s e); omega
    · simp

theorem default_bmax (o : Opts) (t : Triple) (h1 : o.bmax = none) (h2 : o.imax = 0) :
    effectiveBmax o t = o.bmult * nq t + 1 := by
  unfold effectiveBmax defaultBmax
  rw [h1, h2]
  simp

end Pepper.Ssm
