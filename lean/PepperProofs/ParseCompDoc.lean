import PepperProofs.ParseCompChars
/-!
# The statement loop of `load_component` is line-local
-/
namespace Pepper.ParseComp
open Pepper.Comp

/-! ### `re.sub(r"#.*\n", "", line)` does nothing to a line without `\n` -/

theorem stripCommentAux_noNl (l : Str) (h : ∀ c ∈ l, c ≠ '\n') :
    stripCommentAux l none = l ∧ ∀ p, stripCommentAux l (some p) = p.reverse ++ l := by
  induction l with
  | nil => exact ⟨rfl, fun p => by simp [stripCommentAux]⟩
  | cons c r ih =>
    obtain ⟨ih1, ih2⟩ := ih (fun x hx => h x (by simp [hx]))
    refine ⟨?_, ?_⟩
    · simp only [stripCommentAux]
      split
      · rename_i hc
        rw [ih2, hc]
        rfl
      · rw [ih1]
    · intro p
      simp only [stripCommentAux]
      rw [if_neg (h c (by simp)), ih2]
      simp

theorem stripComment_noNl {l : Str} (h : ∀ c ∈ l, c ≠ '\n') : stripComment l = l :=
  (stripCommentAux_noNl l h).1

theorem splitOn_ne_nil (c : Char) (s : Str) : splitOn c s ≠ [] := by
  induction s with
  | nil => simp [splitOn]
  | cons x r ih =>
    simp only [splitOn]
    split
    · simp
    · split <;> simp

theorem splitOn_mem_noSep (c : Char) (s : Str) : ∀ l ∈ splitOn c s, ∀ ch ∈ l, ch ≠ c := by
  induction s with
  | nil => simp [splitOn]
  | cons x r ih =>
    intro l hl
    simp only [splitOn] at hl
    split at hl
    · rcases List.mem_cons.mp hl with rfl | hl
      · simp
      · exact ih l hl
    · rename_i hx
      split at hl
      · rename_i heq
        exact absurd heq (splitOn_ne_nil c r)
      · rename_i h0 t heq
        rcases List.mem_cons.mp hl with rfl | hl
        · intro ch hch
          rcases List.mem_cons.mp hch with rfl | hch
          · exact hx
          · exact ih h0 (by rw [heq]; simp) ch hch
        · exact ih l (by rw [heq]; simp [hl])

/-- on the lines of a document the loop's comment regex is the identity: the lines looked at are the stripped,
    non-empty pieces between newlines -/
theorem docLinesL_eq (text : Str) :
    docLinesL text = ((splitOn '\n' text).map strip).filter (fun l => !l.isEmpty) := by
  unfold docLinesL
  congr 1
  apply List.map_congr_left
  intro l hl
  unfold cleanLine
  rw [stripComment_noNl (splitOn_mem_noSep '\n' text l hl)]

/-! ### the loop -/

/-- the loop succeeds with `sts` iff every line it looks at parses and `sts` are the results in order -/
theorem parseLines_ok_iff (ls : List Str) (sts : List Stmt) :
    parseLines ls = .ok sts ↔
      ((ls.map cleanLine).filter (fun l => !l.isEmpty)).map parseLineL = sts.map .ok := by
  induction ls generalizing sts with
  | nil =>
    simp only [parseLines, List.map_nil, List.filter_nil]
    constructor
    · intro h; cases h; rfl
    · intro h
      cases sts with
      | nil => rfl
      | cons a b => cases h
  | cons l r ih =>
    simp only [parseLines, List.map_cons]
    by_cases hc : (cleanLine l).isEmpty = true
    · rw [if_pos hc, List.filter_cons_of_neg (by simp [hc])]
      exact ih sts
    · rw [if_neg hc, List.filter_cons_of_pos (by simpa using hc), List.map_cons]
      cases hp : parseLineL (cleanLine l) with
      | error e =>
        simp only
        constructor
        · intro h; cases h
        · intro h
          cases sts with
          | nil => cases h
          | cons a b => simp only [List.map_cons, List.cons.injEq] at h; cases h.1
      | ok st =>
        simp only
        cases hr : parseLines r with
        | error e =>
          simp only
          constructor
          · intro h; cases h
          · intro h
            cases sts with
            | nil => cases h
            | cons a b =>
              simp only [List.map_cons, List.cons.injEq] at h
              have := (ih b).mpr h.2
              rw [hr] at this
              cases this
        | ok sts' =>
          simp only
          have := (ih sts').mp hr
          constructor
          · intro h
            cases h
            simp only [List.map_cons, this]
          · intro h
            cases sts with
            | nil => cases h
            | cons a b =>
              simp only [List.map_cons, List.cons.injEq, Except.ok.injEq] at h
              have hb := (ih b).mpr h.2
              rw [hr] at hb
              cases hb
              rw [h.1]

/-- the loop fails iff some line it looks at does not parse (the first such line gives the error) -/
theorem parseLines_error_iff (ls : List Str) :
    (∃ e, parseLines ls = .error e) ↔ ∃ l ∈ (ls.map cleanLine).filter (fun l => !l.isEmpty), ∃ e, parseLineL l = .error e := by
  induction ls with
  | nil => simp [parseLines]
  | cons l r ih =>
    simp only [parseLines, List.map_cons]
    by_cases hc : (cleanLine l).isEmpty = true
    · rw [if_pos hc, List.filter_cons_of_neg (by simp [hc])]
      exact ih
    · rw [if_neg hc, List.filter_cons_of_pos (by simpa using hc)]
      cases hp : parseLineL (cleanLine l) with
      | error e =>
        simp only
        exact ⟨fun _ => ⟨cleanLine l, by simp, e, hp⟩, fun _ => ⟨e, rfl⟩⟩
      | ok st =>
        simp only
        cases hr : parseLines r with
        | error e =>
          simp only
          refine ⟨fun _ => ?_, fun _ => ⟨e, rfl⟩⟩
          obtain ⟨l', hl', e', he'⟩ := ih.mp ⟨e, hr⟩
          exact ⟨l', by simp [hl'], e', he'⟩
        | ok sts' =>
          simp only
          constructor
          · rintro ⟨e, h⟩; cases h
          · rintro ⟨l', hl', e', he'⟩
            rcases List.mem_cons.mp hl' with rfl | hl'
            · rw [hp] at he'; cases he'
            · obtain ⟨e, he⟩ := ih.mpr ⟨l', hl', e', he'⟩
              rw [hr] at he; cases he

/-- **the document parser is total and line-local** (character-list level) -/
theorem parseDocL_ok_iff (text decl : Str) (src : Src) :
    parseDocL text decl = .ok src ↔
      ∃ d, parseDeclareL decl = .ok d ∧ src = ⟨d.name, d.params, d.inputs, d.outputs, src.stmts⟩ ∧
        (docLinesL text).map parseLineL = src.stmts.map .ok := by
  unfold parseDocL docLinesL
  cases hd : parseDeclareL decl with
  | error e =>
    simp only
    constructor
    · intro h; cases h
    · rintro ⟨d, h, _⟩; cases h
  | ok d =>
    simp only
    cases hl : parseLines (splitOn '\n' text) with
    | error e =>
      simp only
      constructor
      · intro h; cases h
      · rintro ⟨d', h, _, h3⟩
        have := (parseLines_ok_iff _ _).mpr h3
        rw [hl] at this
        cases this
    | ok sts =>
      simp only
      have h3 := (parseLines_ok_iff _ _).mp hl
      constructor
      · intro h
        cases h
        exact ⟨d, rfl, rfl, h3⟩
      · rintro ⟨d', h, h2, h3'⟩
        cases h
        have := (parseLines_ok_iff _ _).mpr h3'
        rw [hl] at this
        cases this
        rw [h2]

theorem parseDocL_total (text decl : Str) :
    (∃ src, parseDocL text decl = .ok src) ↔
      (∃ d, parseDeclareL decl = .ok d) ∧ ∀ l ∈ docLinesL text, ∃ st, parseLineL l = .ok st := by
  constructor
  · rintro ⟨src, h⟩
    obtain ⟨d, hd, _, hl⟩ := (parseDocL_ok_iff text decl src).mp h
    refine ⟨⟨d, hd⟩, ?_⟩
    intro l hl'
    have : parseLineL l ∈ (docLinesL text).map parseLineL := List.mem_map.mpr ⟨l, hl', rfl⟩
    rw [hl] at this
    obtain ⟨st, _, hst⟩ := List.mem_map.mp this
    exact ⟨st, hst.symm⟩
  · rintro ⟨⟨d, hd⟩, hall⟩
    unfold parseDocL
    rw [hd]
    simp only
    cases hl : parseLines (splitOn '\n' text) with
    | ok sts => exact ⟨_, rfl⟩
    | error e =>
      obtain ⟨l, hl', e', he'⟩ := (parseLines_error_iff _).mp ⟨e, hl⟩
      obtain ⟨st, hst⟩ := hall l hl'
      rw [hst] at he'
      cases he'

end Pepper.ParseComp
