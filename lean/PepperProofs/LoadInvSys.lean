import PepperProofs.LoadInv
/-!
# What a successful `Sys.loadFile` establishes: the invariant of the instance tree

`Loaded P Q pfx inst`: `inst` is an instance tree under prefix `pfx` whose component leaves are results of
`Comp.load` on sources satisfying `P`, whose system nodes come from sources satisfying `Q`, and whose signal
tables satisfy `SysInv` (instance names distinct and taken from the `component` statements; signal names
distinct and taken from the bindings; `lengths` has the keys of `signals`, all lengths non-zero; every signal
entry points to an instance of the system and to one of its ports, with the signal's length; per signal the
(instance, port) pairs appear in instance order, each port at most once per binding position).

`loadFile_loaded`: by induction over the fuel, with an inner induction over the statement list.
From `Loaded`: `loadFile_wfInst` (C12), `loadFile_finish_wf` (C06/C17), `loadFile_constLen` (C16);
`LoadInvDes.lean` derives `Des.BlocksOk` (C03).
-/
set_option linter.unusedSimpArgs false
set_option linter.unusedVariables false
namespace Pepper.LoadInv
open Pepper Pepper.Comp Pepper.Sys

/-! ### unfolding `load_file` / the statement loop -/

theorem loadFile_succ (b : Bundle) (fuel : Nat) (base : String) (args : Nat) (argKey pfx path : String)
    (includes : List String) (anon : Nat) :
    loadFile b (fuel + 1) base args argKey pfx path includes anon =
      match resolveImport (fun p => b.exists_.contains (normPath p)) base path includes with
      | .error e => .error e
      | .ok (fname, issys, newPath) =>
        match b.files.lookup (normPath fname ++ argKey) with
        | none => .error .missing
        | some (.comp c) =>
          if issys then .error .wrongKind else
          match Comp.load c args pfx anon with
          | .ok (st, a) => .ok (.comp st, a)
          | .error e => .error (.comp e)
        | some (.sys s) =>
          if !issys then .error .wrongKind else
          if s.params.length != args then .error .arity else
          match loadStmts b fuel includes s.stmts (.mk newPath s.name pfx [] [] [] [] [] []) anon with
          | .error e => .error e
          | .ok (st, a) =>
            if !(s.inputs ++ s.outputs).all (fun r => (st.signals.lookup r.name).isSome) then .error .undefinedSignal
            else match st with
              | .mk p n pf t sg l c _ _ => .ok (.sys (.mk p n pf t sg l c s.inputs s.outputs), a) := by
  rw [loadFile]
  rfl

abbrev PortT := Sys.Port × Bool × Nat × Bool

def bindStep (cname : String) (acc : List (String × List SigEntry) × List (String × Nat))
    (gp : SigRef × PortT) : Except Sys.Err (List (String × List SigEntry) × List (String × Nat)) :=
  match acc.2.lookup gp.1.name with
  | none => if gp.2.2.2.2 then .error .dummySignal
            else .ok (addSig acc.1 gp.1.name ⟨gp.2.1, cname, gp.1.star != gp.2.2.1⟩, acc.2 ++ [(gp.1.name, gp.2.2.2.1)])
  | some l0 => if l0 != gp.2.2.2.1 then .error .signalLength
               else .ok (addSig acc.1 gp.1.name ⟨gp.2.1, cname, gp.1.star != gp.2.2.1⟩, acc.2)

def bindSigs (cname : String) (sigs : List (String × List SigEntry)) (lens : List (String × Nat))
    (globs : List SigRef) (ports : List PortT) :
    Except Sys.Err (List (String × List SigEntry) × List (String × Nat)) :=
  (List.zip globs ports).foldlM (bindStep cname) (sigs, lens)

def compPorts (cst : Comp.St) : List PortT :=
  (cst.inputSeqs ++ cst.outputSeqs).map (fun (i : ItemRef) =>
    let fwdRef : ItemRef := { i with rev := false }
    let bases := match cst.findSeq i.name with | some e => e.bases | none => []
    (Sys.Port.seq fwdRef bases, i.rev, i.len, i.len == 0))

def sysPorts (sst : SysSt) : List PortT :=
  (sst.inputSeqs ++ sst.outputSeqs).map (fun (r : SigRef) =>
    (Sys.Port.sig r.name, r.star, (sst.lengths.lookup r.name).getD 0, false))

def instPorts : Inst → List PortT
  | .comp cst => compPorts cst
  | .sys sst => sysPorts sst

def instArity : Inst → Nat × Nat
  | .comp cst => (cst.inputSeqs.length, cst.outputSeqs.length)
  | .sys sst => (sst.inputSeqs.length, sst.outputSeqs.length)

def addComp (st : SysSt) (sg : List (String × List SigEntry)) (l : List (String × Nat)) (cname : String) (inst : Inst) : SysSt :=
  match st with
  | .mk p n pf t _ _ c i o => .mk p n pf t sg l (c ++ [(cname, inst)]) i o

def setTemplate (st : SysSt) (t : List (String × String)) : SysSt :=
  match st with
  | .mk p n pf _ sg l c i o => .mk p n pf t sg l c i o

theorem loadStmts_nil (b : Bundle) (fuel : Nat) (includes : List String) (st : SysSt) (a : Nat) :
    loadStmts b fuel includes [] st a = .ok (st, a) := by
  rw [loadStmts]

theorem loadStmts_component (b : Bundle) (fuel : Nat) (includes : List String) (cname templ : String) (args : Nat)
    (ins outs : List SigRef) (r : List SStmt) (st : SysSt) (a : Nat) :
    loadStmts b fuel includes (.component cname templ args ins outs :: r) st a =
      match st.template.lookup templ with
      | none => .error .unknownTemplate
      | some tpath =>
        if (st.components.lookup cname).isSome then .error .dupComponent else
        match loadFile b fuel tpath args ("@" ++ st.pfx ++ cname) (st.pfx ++ cname ++ "-") st.path includes a with
        | .error e => .error e
        | .ok (inst, a') =>
          if ins.length != (instArity inst).1 || outs.length != (instArity inst).2 then .error .portCount else
          match bindSigs cname st.signals st.lengths (ins ++ outs) (instPorts inst) with
          | .error e => .error e
          | .ok (sg, l) => loadStmts b fuel includes r (addComp st sg l cname inst) a' := by
  rw [loadStmts]
  obtain ⟨p, n, pf, t, sg0, l0, c0, i0, o0⟩ := st
  cases (SysSt.mk p n pf t sg0 l0 c0 i0 o0).template.lookup templ with
  | none => rfl
  | some tpath =>
    simp only
    split
    · rfl
    · cases loadFile b fuel tpath args ("@" ++ (SysSt.mk p n pf t sg0 l0 c0 i0 o0).pfx ++ cname) ((SysSt.mk p n pf t sg0 l0 c0 i0 o0).pfx ++ cname ++ "-") (SysSt.mk p n pf t sg0 l0 c0 i0 o0).path includes a with
      | error e => rfl
      | ok x =>
        obtain ⟨inst, a'⟩ := x
        cases inst <;> rfl

theorem loadStmts_imports (b : Bundle) (fuel : Nat) (includes : List String) (items : List (String × Option String))
    (r : List SStmt) (st : SysSt) (a : Nat) :
    loadStmts b fuel includes (.imports items :: r) st a =
      match loadStmts.addImports items st.template with
      | .error e => .error e
      | .ok t => loadStmts b fuel includes r (setTemplate st t) a := by
  rw [loadStmts]
  obtain ⟨p, n, pf, t0, sg, l, c, i, o⟩ := st
  rfl

/-! ### association lists -/

theorem lookup_none_iff {β} {l : List (String × β)} {k : String} : l.lookup k = none ↔ k ∉ l.map (·.1) := by
  induction l with
  | nil => simp
  | cons a r ih =>
    obtain ⟨k', v⟩ := a
    simp only [List.lookup_cons, List.map_cons, List.mem_cons, not_or]
    by_cases hk : k = k'
    · subst hk; simp
    · have : (k == k') = false := by simpa using hk
      rw [this]
      simp only [ih]
      exact ⟨fun h => ⟨hk, h⟩, fun h => h.2⟩

theorem lookup_isSome_iff {β} {l : List (String × β)} {k : String} : (l.lookup k).isSome = true ↔ k ∈ l.map (·.1) := by
  cases h : l.lookup k with
  | none => simp [lookup_none_iff.mp h]
  | some v =>
    simp only [Option.isSome_some, true_iff]
    exact Decidable.byContradiction (fun hc => by rw [lookup_none_iff.mpr hc] at h; cases h)

theorem lookup_append_some {β} {l : List (String × β)} {k : String} {v : β} (h : l.lookup k = some v)
    (x : List (String × β)) : (l ++ x).lookup k = some v := by
  induction l with
  | nil => simp at h
  | cons a r ih =>
    obtain ⟨k', v'⟩ := a
    simp only [List.cons_append, List.lookup_cons] at h ⊢
    split
    · rename_i hk; rw [hk] at h; exact h
    · rename_i hk; rw [hk] at h; exact ih h

theorem lookup_append_none {β} {l : List (String × β)} {k : String} (h : l.lookup k = none)
    (x : List (String × β)) : (l ++ x).lookup k = x.lookup k := by
  induction l with
  | nil => rfl
  | cons a r ih =>
    obtain ⟨k', v'⟩ := a
    simp only [List.cons_append, List.lookup_cons] at h ⊢
    split
    · rename_i hk; rw [hk] at h; cases h
    · rename_i hk; rw [hk] at h; exact ih h

theorem lookup_mem {β} {l : List (String × β)} {k : String} {v : β} (h : l.lookup k = some v) : (k, v) ∈ l := by
  induction l with
  | nil => simp at h
  | cons a r ih =>
    obtain ⟨k', v'⟩ := a
    simp only [List.lookup_cons] at h
    split at h
    · rename_i hk
      simp only [Option.some.injEq] at h
      have : k = k' := by simpa using hk
      subst this; subst h
      simp
    · exact List.mem_cons_of_mem _ (ih h)

theorem lookup_of_mem_nodup {β} {l : List (String × β)} (hn : (l.map (·.1)).Nodup) {k : String} {v : β}
    (h : (k, v) ∈ l) : l.lookup k = some v := by
  induction l with
  | nil => simp at h
  | cons a r ih =>
    obtain ⟨k', v'⟩ := a
    simp only [List.map_cons, List.nodup_cons, List.mem_map, not_exists, not_and] at hn
    simp only [List.mem_cons, Prod.mk.injEq] at h
    simp only [List.lookup_cons]
    rcases h with ⟨rfl, rfl⟩ | h
    · simp
    · have hne : (k == k') = false := by
        apply beq_false_of_ne
        rintro rfl
        exact hn.1 (k, v) h rfl
      rw [hne]
      exact ih hn.2 h

/-! ### the invariant of a system's tables -/

def instNames (stmts : List SStmt) : List String :=
  stmts.flatMap (fun
    | .component n _ _ _ _ => [n]
    | _ => [])

def sigNames (stmts : List SStmt) : List String :=
  stmts.flatMap (fun
    | .component _ _ _ ins outs => (ins ++ outs).map (·.name)
    | _ => [])

def portName : Sys.Port → String
  | .seq i _ => i.name
  | .sig n => n

/-- the (instance, port) pair a signal entry refers to -/
def entryKey (e : SigEntry) : String × String := (e.comp, portName e.port)

/-- the port names of an instance: the sequences / signals of its declaration, in order -/
def instPortNames : Inst → List String
  | .comp cst => (cst.inputSeqs ++ cst.outputSeqs).map (·.name)
  | .sys sst => (sst.inputSeqs ++ sst.outputSeqs).map (·.name)

def instKeys (c : String × Inst) : List (String × String) := (instPortNames c.2).map (fun p => (c.1, p))

/-- the port a signal entry stores is a port object of the instance, of length `len` -/
def PortInv (inst : Inst) (port : Sys.Port) (len : Nat) : Prop :=
  match inst, port with
  | .comp cst, .seq i bases =>
    i.rev = false ∧ i.len = len ∧
      ∃ se, findE cst.seqs i.name = some se ∧ i.len = se.len ∧ i.isSup = se.isSup ∧ bases = se.bases
  | .sys sst, .sig m => sst.lengths.lookup m = some len
  | _, _ => False

def EntryInv (comps : List (String × Inst)) (lens : List (String × Nat)) (n : String) (e : SigEntry) : Prop :=
  ∃ inst len, (e.comp, inst) ∈ comps ∧ lens.lookup n = some len ∧ PortInv inst e.port len

structure SysInv (IN SN : List String) (sg : List (String × List SigEntry)) (lens : List (String × Nat))
    (comps : List (String × Inst)) : Prop where
  compNames : ∀ c ∈ comps, c.1 ∈ IN
  compNodup : (comps.map (·.1)).Nodup
  sigIn : ∀ x ∈ sg, x.1 ∈ SN
  sigNodup : (sg.map (·.1)).Nodup
  keys : lens.map (·.1) = sg.map (·.1)
  lensPos : ∀ x ∈ lens, x.2 ≠ 0
  entries : ∀ x ∈ sg, ∀ e ∈ x.2, EntryInv comps lens x.1 e
  entryKeys : ∀ x ∈ sg, (x.2.map entryKey).Sublist (comps.flatMap instKeys)

/-- the instance tree of a successful `loadFile` -/
inductive Loaded (P : Comp.Src → Prop) (Q : SSrc → Prop) : String → Inst → Prop
  | comp {c : Comp.Src} {n : Nat} {pfx : String} {a : Nat} {st : Comp.St} {a' : Nat} :
      P c → Comp.load c n pfx a = .ok (st, a') → Loaded P Q pfx (.comp st)
  | sys {s : SSrc} {path name pfx : String} {tm : List (String × String)} {sg : List (String × List SigEntry)}
      {lens : List (String × Nat)} {comps : List (String × Inst)} :
      Q s → (∀ c ∈ comps, Loaded P Q (pfx ++ c.1 ++ "-") c.2) →
      SysInv (instNames s.stmts) (sigNames s.stmts) sg lens comps →
      (∀ r ∈ s.inputs ++ s.outputs, (sg.lookup r.name).isSome = true) →
      Loaded P Q pfx (.sys (.mk path name pfx tm sg lens comps s.inputs s.outputs))

theorem EntryInv.mono {comps comps' : List (String × Inst)} {lens lens' : List (String × Nat)} {n : String}
    {e : SigEntry} (h : EntryInv comps lens n e) (hc : ∀ c ∈ comps, c ∈ comps')
    (hl : ∀ k l, lens.lookup k = some l → lens'.lookup k = some l) : EntryInv comps' lens' n e := by
  obtain ⟨inst, len, h1, h2, h3⟩ := h
  exact ⟨inst, len, hc _ h1, hl _ _ h2, h3⟩

/-! ### the binding loop -/

theorem mem_addSig {sg : List (String × List SigEntry)} {n : String} {e : SigEntry} {x : String × List SigEntry}
    (h : x ∈ addSig sg n e) :
    (∃ x0 ∈ sg, x.1 = x0.1 ∧ (x.2 = x0.2 ∨ (x.1 = n ∧ x.2 = x0.2 ++ [e]))) ∨ x = (n, [e]) := by
  unfold addSig at h
  split at h
  · left
    obtain ⟨x0, hx0, rfl⟩ := List.mem_map.mp h
    obtain ⟨k, v⟩ := x0
    refine ⟨(k, v), hx0, ?_⟩
    simp only
    split
    · rename_i hk
      exact ⟨rfl, Or.inr ⟨by simpa using hk, rfl⟩⟩
    · exact ⟨rfl, Or.inl rfl⟩
  · rcases List.mem_append.mp h with h | h
    · exact Or.inl ⟨x, h, rfl, Or.inl rfl⟩
    · right; simpa using h

theorem addSig_keys (sg : List (String × List SigEntry)) (n : String) (e : SigEntry) :
    (addSig sg n e).map (·.1) = if (sg.lookup n).isSome then sg.map (·.1) else sg.map (·.1) ++ [n] := by
  unfold addSig
  split
  · rw [List.map_map]
    apply List.map_congr_left
    intro x _
    obtain ⟨k, v⟩ := x
    simp only [Function.comp]
    split <;> rfl
  · simp

structure BindInv (SN : List String) (comps : List (String × Inst)) (K : List (String × String))
    (acc : List (String × List SigEntry) × List (String × Nat)) : Prop where
  sigIn : ∀ x ∈ acc.1, x.1 ∈ SN
  sigNodup : (acc.1.map (·.1)).Nodup
  keys : acc.2.map (·.1) = acc.1.map (·.1)
  lensPos : ∀ x ∈ acc.2, x.2 ≠ 0
  entries : ∀ x ∈ acc.1, ∀ e ∈ x.2, EntryInv comps acc.2 x.1 e
  entryKeys : ∀ x ∈ acc.1, (x.2.map entryKey).Sublist K

/-- what the loop needs to know about one (global signal, port) pair -/
def PairOk (SN : List String) (inst : Inst) (z : SigRef × PortT) : Prop :=
  z.1.name ∈ SN ∧ PortInv inst z.2.1 z.2.2.2.1 ∧ (z.2.2.2.2 = false → z.2.2.2.1 ≠ 0)

theorem bindStep_inv {SN : List String} {comps : List (String × Inst)} {K : List (String × String)} {cname : String}
    {inst : Inst} (hmem : (cname, inst) ∈ comps)
    {acc acc' : List (String × List SigEntry) × List (String × Nat)} {z : SigRef × PortT}
    (hI : BindInv SN comps K acc) (hz : PairOk SN inst z) (h : bindStep cname acc z = .ok acc') :
    BindInv SN comps (K ++ [(cname, portName z.2.1)]) acc' := by
  obtain ⟨g, port, locWc, len, dummy⟩ := z
  obtain ⟨hgn, hport, hdummy⟩ := hz
  simp only at hgn hport hdummy
  unfold bindStep at h
  simp only at h
  have hnew : ∀ (lens' : List (String × Nat)), lens'.lookup g.name = some len →
      EntryInv comps lens' g.name ⟨port, cname, g.star != locWc⟩ :=
    fun lens' hl => ⟨inst, len, hmem, hl, hport⟩
  cases hl : acc.2.lookup g.name with
  | none =>
    rw [hl] at h
    cases hd : dummy with
    | true => simp [hd] at h
    | false =>
      simp only [hd, Bool.false_eq_true, if_false, Except.ok.injEq] at h
      subst h
      have hsg : acc.1.lookup g.name = none := by
        rw [lookup_none_iff] at hl ⊢
        rw [← hI.keys]; exact hl
      have hadd : addSig acc.1 g.name ⟨port, cname, g.star != locWc⟩ =
          acc.1 ++ [(g.name, [⟨port, cname, g.star != locWc⟩])] := by
        simp [addSig, hsg]
      have hmono : ∀ k l, acc.2.lookup k = some l → (acc.2 ++ [(g.name, len)]).lookup k = some l :=
        fun k l hk => lookup_append_some hk _
      have hlnew : (acc.2 ++ [(g.name, len)]).lookup g.name = some len := by
        rw [lookup_append_none hl]; simp
      simp only [hadd]
      refine ⟨?_, ?_, ?_, ?_, ?_, ?_⟩
      · intro x hx
        rcases List.mem_append.mp hx with hx | hx
        · exact hI.sigIn x hx
        · simp only [List.mem_singleton] at hx; subst hx; exact hgn
      · simp only [List.map_append, List.map_cons, List.map_nil]
        rw [List.nodup_append]
        refine ⟨hI.sigNodup, by simp, ?_⟩
        intro a ha b hb
        simp only [List.mem_singleton] at hb
        subst hb
        rintro rfl
        exact (lookup_none_iff.mp hsg) ha
      · simp [hI.keys]
      · intro x hx
        rcases List.mem_append.mp hx with hx | hx
        · exact hI.lensPos x hx
        · simp only [List.mem_singleton] at hx; subst hx; exact hdummy hd
      · intro x hx e he
        rcases List.mem_append.mp hx with hx | hx
        · exact (hI.entries x hx e he).mono (fun _ hc => hc) hmono
        · simp only [List.mem_singleton] at hx; subst hx
          simp only [List.mem_singleton] at he; subst he
          exact hnew _ hlnew
      · intro x hx
        rcases List.mem_append.mp hx with hx | hx
        · exact (hI.entryKeys x hx).trans (List.sublist_append_left _ _)
        · simp only [List.mem_singleton] at hx; subst hx
          simp only [List.map_cons, List.map_nil, entryKey]
          exact List.sublist_append_right _ _
  | some l0 =>
    rw [hl] at h
    by_cases hne : l0 = len
    · subst hne
      simp only [bne_self_eq_false, Bool.false_eq_true, if_false, Except.ok.injEq] at h
      subst h
      have hsome : (acc.1.lookup g.name).isSome = true := by
        rw [lookup_isSome_iff, ← hI.keys, ← lookup_isSome_iff, hl]; rfl
      refine ⟨?_, ?_, ?_, hI.lensPos, ?_, ?_⟩
      · intro x hx
        rcases mem_addSig hx with ⟨x0, hx0, h1, _⟩ | rfl
        · rw [h1]; exact hI.sigIn x0 hx0
        · exact hgn
      · rw [addSig_keys, if_pos hsome]; exact hI.sigNodup
      · rw [addSig_keys, if_pos hsome]; exact hI.keys
      · intro x hx e he
        rcases mem_addSig hx with ⟨x0, hx0, h1, h2 | ⟨h2, h3⟩⟩ | rfl
        · rw [h1]; rw [h2] at he; exact hI.entries x0 hx0 e he
        · rw [h3] at he
          rcases List.mem_append.mp he with he | he
          · rw [h1]; exact hI.entries x0 hx0 e he
          · simp only [List.mem_singleton] at he; subst he
            rw [h2]; exact hnew _ hl
        · simp only [List.mem_singleton] at he; subst he
          exact hnew _ hl
      · intro x hx
        rcases mem_addSig hx with ⟨x0, hx0, h1, h2 | ⟨h2, h3⟩⟩ | rfl
        · rw [h2]; exact (hI.entryKeys x0 hx0).trans (List.sublist_append_left _ _)
        · rw [h3, List.map_append]
          exact List.Sublist.append (hI.entryKeys x0 hx0) (by simp [entryKey])
        · simp only [List.map_cons, List.map_nil, entryKey]
          exact List.sublist_append_right _ _
    · have : (l0 != len) = true := by simpa using hne
      simp [this] at h

theorem bindFold_inv {SN : List String} {comps : List (String × Inst)} {cname : String} {inst : Inst}
    (hmem : (cname, inst) ∈ comps) :
    ∀ (zs : List (SigRef × PortT)) {K : List (String × String)}
      {acc acc' : List (String × List SigEntry) × List (String × Nat)},
      BindInv SN comps K acc → (∀ z ∈ zs, PairOk SN inst z) → zs.foldlM (bindStep cname) acc = .ok acc' →
      BindInv SN comps (K ++ zs.map (fun z => (cname, portName z.2.1))) acc' := by
  intro zs
  induction zs with
  | nil =>
    intro K acc acc' hI _ h
    simp only [List.foldlM_nil, pure, Except.pure, Except.ok.injEq] at h
    subst h
    simpa using hI
  | cons z r ih =>
    intro K acc acc' hI hz h
    rw [List.foldlM_cons] at h
    cases h1 : bindStep cname acc z with
    | error e => rw [h1] at h; cases h
    | ok acc1 =>
      rw [h1] at h
      have := ih (bindStep_inv hmem hI (hz z (by simp)) h1) (fun y hy => hz y (by simp [hy])) h
      simpa [List.append_assoc] using this

/-! ### the ports of a loaded instance -/

theorem instPorts_names (inst : Inst) : (instPorts inst).map (fun p => portName p.1) = instPortNames inst := by
  cases inst with
  | comp cst => simp [instPorts, compPorts, instPortNames, portName, Function.comp_def]
  | sys sst => simp [instPorts, sysPorts, instPortNames, portName, Function.comp_def]

theorem instPorts_length (inst : Inst) : (instPorts inst).length = (instArity inst).1 + (instArity inst).2 := by
  cases inst <;> simp [instPorts, compPorts, sysPorts, instArity]

theorem instPorts_ok {P : Comp.Src → Prop} {Q : SSrc → Prop} {pfx : String} {inst : Inst} (hL : Loaded P Q pfx inst) :
    ∀ p ∈ instPorts inst, PortInv inst p.1 p.2.2.1 ∧ (p.2.2.2 = false → p.2.2.1 ≠ 0) := by
  cases hL with
  | comp hP hload =>
    rename_i c n a st a'
    intro p hp
    simp only [instPorts, compPorts, List.mem_map] at hp
    obtain ⟨i, hi, rfl⟩ := hp
    obtain ⟨se, h1, h2, h3⟩ := load_ports hload i hi
    refine ⟨⟨rfl, rfl, se, h1, h2, h3, ?_⟩, ?_⟩
    · simp only [findSeq_eq, h1]
    · simp
  | sys hQ hsub hinv hio =>
    rename_i s path name tm sg lens comps
    intro p hp
    simp only [instPorts, sysPorts, List.mem_map, SysSt.inputSeqs, SysSt.outputSeqs, SysSt.lengths] at hp
    obtain ⟨r, hr, rfl⟩ := hp
    have hsome : (lens.lookup r.name).isSome = true := by
      rw [lookup_isSome_iff, hinv.keys, ← lookup_isSome_iff]
      exact hio r hr
    cases hl : lens.lookup r.name with
    | none => rw [hl] at hsome; cases hsome
    | some len =>
      simp only [PortInv, SysSt.lengths, hl, Option.getD_some, true_and]
      intro _
      exact hinv.lensPos _ (lookup_mem hl)

/-! ### the statement loop -/

theorem addComp_fields (st : SysSt) (sg : List (String × List SigEntry)) (l : List (String × Nat)) (cname : String)
    (inst : Inst) :
    (addComp st sg l cname inst).signals = sg ∧ (addComp st sg l cname inst).lengths = l ∧
    (addComp st sg l cname inst).components = st.components ++ [(cname, inst)] ∧
    (addComp st sg l cname inst).pfx = st.pfx := by
  obtain ⟨p, n, pf, t, sg0, l0, c0, i0, o0⟩ := st
  exact ⟨rfl, rfl, rfl, rfl⟩

theorem setTemplate_fields (st : SysSt) (t : List (String × String)) :
    (setTemplate st t).signals = st.signals ∧ (setTemplate st t).lengths = st.lengths ∧
    (setTemplate st t).components = st.components ∧ (setTemplate st t).pfx = st.pfx := by
  obtain ⟨p, n, pf, t0, sg0, l0, c0, i0, o0⟩ := st
  exact ⟨rfl, rfl, rfl, rfl⟩

theorem loadStmts_inv {P : Comp.Src → Prop} {Q : SSrc → Prop} (b : Bundle) (fuel : Nat)
    (IH : ∀ base args argKey pfx path includes anon inst a',
      loadFile b fuel base args argKey pfx path includes anon = .ok (inst, a') → Loaded P Q pfx inst)
    (includes : List String) (IN SN : List String) :
    ∀ (stmts : List SStmt) (st : SysSt) (a : Nat) (st' : SysSt) (a' : Nat),
      (∀ n ∈ instNames stmts, n ∈ IN) → (∀ n ∈ sigNames stmts, n ∈ SN) →
      SysInv IN SN st.signals st.lengths st.components →
      (∀ c ∈ st.components, Loaded P Q (st.pfx ++ c.1 ++ "-") c.2) →
      loadStmts b fuel includes stmts st a = .ok (st', a') →
      SysInv IN SN st'.signals st'.lengths st'.components ∧
      (∀ c ∈ st'.components, Loaded P Q (st'.pfx ++ c.1 ++ "-") c.2) ∧ st'.pfx = st.pfx := by
  intro stmts
  induction stmts with
  | nil =>
    intro st a st' a' _ _ hI hL h
    rw [loadStmts_nil] at h
    simp only [Except.ok.injEq, Prod.mk.injEq] at h
    obtain ⟨rfl, rfl⟩ := h
    exact ⟨hI, hL, rfl⟩
  | cons x r ih =>
    intro st a st' a' hIN hSN hI hL h
    have hINr : ∀ n ∈ instNames r, n ∈ IN := fun n hn => hIN n (by
      simp only [instNames, List.flatMap_cons, List.mem_append]; exact Or.inr hn)
    have hSNr : ∀ n ∈ sigNames r, n ∈ SN := fun n hn => hSN n (by
      simp only [sigNames, List.flatMap_cons, List.mem_append]; exact Or.inr hn)
    cases x with
    | imports items =>
      rw [loadStmts_imports] at h
      cases hadd : loadStmts.addImports items st.template with
      | error e => rw [hadd] at h; cases h
      | ok t =>
        rw [hadd] at h
        obtain ⟨f1, f2, f3, f4⟩ := setTemplate_fields st t
        have := ih (setTemplate st t) a st' a' hINr hSNr (by rw [f1, f2, f3]; exact hI) (by rw [f3, f4]; exact hL) h
        rw [f4] at this
        exact this
    | component cname templ args ins outs =>
      rw [loadStmts_component] at h
      cases htm : st.template.lookup templ with
      | none => rw [htm] at h; cases h
      | some tpath =>
        rw [htm] at h
        simp only at h
        by_cases hdup : (st.components.lookup cname).isSome = true
        · rw [if_pos hdup] at h; cases h
        · rw [if_neg hdup] at h
          cases hlf : loadFile b fuel tpath args ("@" ++ st.pfx ++ cname) (st.pfx ++ cname ++ "-") st.path includes a with
          | error e => rw [hlf] at h; cases h
          | ok v =>
            obtain ⟨inst, a1⟩ := v
            rw [hlf] at h
            simp only at h
            have hLi : Loaded P Q (st.pfx ++ cname ++ "-") inst := IH _ _ _ _ _ _ _ _ _ hlf
            by_cases hcnt : (ins.length != (instArity inst).1 || outs.length != (instArity inst).2) = true
            · rw [if_pos hcnt] at h; cases h
            · rw [if_neg hcnt] at h
              cases hbind : bindSigs cname st.signals st.lengths (ins ++ outs) (instPorts inst) with
              | error e => rw [hbind] at h; cases h
              | ok w =>
                obtain ⟨sg, l⟩ := w
                rw [hbind] at h
                simp only at h
                obtain ⟨f1, f2, f3, f4⟩ := addComp_fields st sg l cname inst
                -- the invariant after the binding loop
                have hcn : cname ∉ st.components.map (·.1) := by
                  rw [← lookup_none_iff]
                  cases hh : st.components.lookup cname with
                  | none => rfl
                  | some v => rw [hh] at hdup; exact absurd rfl hdup
                have hmem : (cname, inst) ∈ st.components ++ [(cname, inst)] := by simp
                have hsub : ∀ c ∈ st.components, c ∈ st.components ++ [(cname, inst)] :=
                  fun c hc => List.mem_append_left _ hc
                have hinit : BindInv SN (st.components ++ [(cname, inst)]) (st.components.flatMap instKeys)
                    (st.signals, st.lengths) :=
                  ⟨hI.sigIn, hI.sigNodup, hI.keys, hI.lensPos,
                    fun x hx e he => (hI.entries x hx e he).mono hsub (fun _ _ hk => hk), hI.entryKeys⟩
                have hlen : (instPorts inst).length ≤ (ins ++ outs).length := by
                  rw [instPorts_length, List.length_append]
                  simp only [Bool.or_eq_true, bne_iff_ne, ne_eq, not_or, Decidable.not_not] at hcnt
                  omega
                have hpairs : ∀ z ∈ List.zip (ins ++ outs) (instPorts inst), PairOk SN inst z := by
                  intro z hz
                  obtain ⟨g, p⟩ := z
                  obtain ⟨hg, hp⟩ := List.of_mem_zip hz
                  obtain ⟨q1, q2⟩ := instPorts_ok hLi p hp
                  refine ⟨hSN _ ?_, q1, q2⟩
                  simp only [sigNames, List.flatMap_cons, List.mem_append, List.mem_map]
                  exact Or.inl ⟨g, List.mem_append.mp hg, rfl⟩
                have hfin := bindFold_inv hmem _ hinit hpairs hbind
                have hK : (List.zip (ins ++ outs) (instPorts inst)).map (fun z => (cname, portName z.2.1)) =
                    instKeys (cname, inst) := by
                  have : (List.zip (ins ++ outs) (instPorts inst)).map (fun z => (cname, portName z.2.1)) =
                      ((List.zip (ins ++ outs) (instPorts inst)).map (·.2)).map (fun p => (cname, portName p.1)) := by
                    rw [List.map_map]; rfl
                  rw [this, List.map_snd_zip hlen, instKeys, ← instPorts_names, List.map_map]
                  rfl
                rw [hK] at hfin
                have hI2 : SysInv IN SN sg l (st.components ++ [(cname, inst)]) := by
                  refine ⟨?_, ?_, hfin.sigIn, hfin.sigNodup, hfin.keys, hfin.lensPos, hfin.entries, ?_⟩
                  · intro c hc
                    rcases List.mem_append.mp hc with hc | hc
                    · exact hI.compNames c hc
                    · simp only [List.mem_singleton] at hc; subst hc
                      apply hIN
                      simp [instNames]
                  · rw [List.map_append, List.nodup_append]
                    refine ⟨hI.compNodup, by simp, ?_⟩
                    intro x hx y hy
                    simp only [List.map_cons, List.map_nil, List.mem_singleton] at hy
                    subst hy
                    rintro rfl
                    exact hcn hx
                  · intro x hx
                    rw [List.flatMap_append]
                    simpa using hfin.entryKeys x hx
                have hL2 : ∀ c ∈ st.components ++ [(cname, inst)], Loaded P Q (st.pfx ++ c.1 ++ "-") c.2 := by
                  intro c hc
                  rcases List.mem_append.mp hc with hc | hc
                  · exact hL c hc
                  · simp only [List.mem_singleton] at hc; subst hc; exact hLi
                have := ih (addComp st sg l cname inst) a1 st' a' hINr hSNr (by rw [f1, f2, f3]; exact hI2)
                  (by rw [f3, f4]; exact hL2) h
                rw [f4] at this
                exact this

/-- hypotheses on the files of a bundle -/
def CompSrcsOk (P : Comp.Src → Prop) (b : Bundle) : Prop := ∀ k c, b.files.lookup k = some (.comp c) → P c
def SysSrcsOk (Q : SSrc → Prop) (b : Bundle) : Prop := ∀ k s, b.files.lookup k = some (.sys s) → Q s

/-- **the tree invariant**: whatever `loadFile` returns is a `Loaded` tree under the prefix it was called with -/
theorem loadFile_loaded {P : Comp.Src → Prop} {Q : SSrc → Prop} {b : Bundle} (hP : CompSrcsOk P b)
    (hQ : SysSrcsOk Q b) : ∀ (fuel : Nat) base args argKey pfx path includes anon inst a',
    loadFile b fuel base args argKey pfx path includes anon = .ok (inst, a') → Loaded P Q pfx inst := by
  intro fuel
  induction fuel with
  | zero =>
    intro base args argKey pfx path includes anon inst a' h
    rw [loadFile] at h; cases h
  | succ fuel ih =>
    intro base args argKey pfx path includes anon inst a' h
    rw [loadFile_succ] at h
    cases hr : resolveImport (fun p => b.exists_.contains (normPath p)) base path includes with
    | error e => rw [hr] at h; cases h
    | ok v =>
      obtain ⟨fname, issys, newPath⟩ := v
      rw [hr] at h
      simp only at h
      cases hlk : b.files.lookup (normPath fname ++ argKey) with
      | none => rw [hlk] at h; cases h
      | some f =>
        rw [hlk] at h
        cases f with
        | comp c =>
          simp only at h
          cases issys with
          | true => simp at h
          | false =>
            simp only [Bool.false_eq_true, if_false] at h
            cases hl : Comp.load c args pfx anon with
            | error e => rw [hl] at h; cases h
            | ok w =>
              obtain ⟨st, a⟩ := w
              rw [hl] at h
              simp only [Except.ok.injEq, Prod.mk.injEq] at h
              obtain ⟨rfl, rfl⟩ := h
              exact Loaded.comp (hP _ _ hlk) hl
        | sys s =>
          simp only at h
          cases issys with
          | false => simp at h
          | true =>
            simp only [Bool.not_true, Bool.false_eq_true, if_false] at h
            by_cases hpar : (s.params.length != args) = true
            · rw [if_pos hpar] at h; cases h
            · rw [if_neg hpar] at h
              cases hls : loadStmts b fuel includes s.stmts (.mk newPath s.name pfx [] [] [] [] [] []) anon with
              | error e => rw [hls] at h; cases h
              | ok w =>
                obtain ⟨st, a⟩ := w
                rw [hls] at h
                simp only at h
                by_cases hio : (!(s.inputs ++ s.outputs).all (fun r => (st.signals.lookup r.name).isSome)) = true
                · rw [if_pos hio] at h; cases h
                · rw [if_neg hio] at h
                  have hinit : SysInv (instNames s.stmts) (sigNames s.stmts) [] [] [] :=
                    ⟨by simp, by simp, by simp, by simp, rfl, by simp, by simp, by simp⟩
                  obtain ⟨g1, g2, g3⟩ := loadStmts_inv b fuel ih includes (instNames s.stmts) (sigNames s.stmts)
                    s.stmts (.mk newPath s.name pfx [] [] [] [] [] []) anon st a (fun _ hn => hn) (fun _ hn => hn)
                    hinit (by intro c hc; cases hc) hls
                  obtain ⟨p, n, pf, t, sg, l, c, i0, o0⟩ := st
                  simp only [Except.ok.injEq, Prod.mk.injEq] at h
                  obtain ⟨rfl, rfl⟩ := h
                  simp only [SysSt.pfx] at g3
                  subst g3
                  refine Loaded.sys (hQ _ _ hlk) g2 g1 ?_
                  intro r hr'
                  simp only [Bool.not_eq_true', Bool.not_eq_false, List.all_eq_true] at hio
                  exact hio r hr'

/-! ### consequences for the whole tree (C12, C06/C17, C16) -/

/-- the hypotheses on the component sources of a bundle: every component file that can be looked up
    satisfies `StmtNamesOk` (and, for `wfB`, `CodesOk`) -/
def CompNamesOk (b : Bundle) : Prop := CompSrcsOk (fun c => StmtNamesOk c = true) b
def CompNamesCodesOk (t : CodeTable) (b : Bundle) : Prop :=
  CompSrcsOk (fun c => StmtNamesOk c = true ∧ CodesOk t c = true) b

theorem Loaded.wfInst {t : CodeTable} {Q : SSrc → Prop} {pfx : String} {inst : Inst}
    (hL : Loaded (fun c => StmtNamesOk c = true ∧ CodesOk t c = true) Q pfx inst) :
    ∀ n, FixSpec.wfInst t n inst = true := by
  induction hL with
  | comp hP hload =>
    intro n
    have := load_wfB hload hP.1 hP.2
    cases n <;> simpa [FixSpec.wfInst] using this
  | sys hQ hsub hinv hio ih =>
    intro n
    cases n with
    | zero => rfl
    | succ k =>
      simp only [FixSpec.wfInst, SysSt.components, List.all_eq_true]
      intro c hc
      exact ih c hc k

theorem Loaded.finish_wf {Q : SSrc → Prop} {pfx : String} {inst : Inst}
    (hL : Loaded (fun c => StmtNamesOk c = true) Q pfx inst) :
    ∀ n, ∀ s ∈ Finish.compsOf n inst, Finish.wfCompB s = true := by
  induction hL with
  | comp hP hload =>
    intro n s hs
    cases n with
    | zero => simp [Finish.compsOf] at hs
    | succ k =>
      simp only [Finish.compsOf, List.mem_singleton] at hs
      subst hs
      exact wfComp_of_WF (load_inv_all hload hP).1.wf
  | sys hQ hsub hinv hio ih =>
    intro n s hs
    cases n with
    | zero => simp [Finish.compsOf] at hs
    | succ k =>
      simp only [Finish.compsOf, SysSt.components, List.mem_flatMap] at hs
      obtain ⟨c, hc, hs⟩ := hs
      exact ih c hc k s hs

theorem allConstLenList_of (comps : List (String × Inst)) (h : ∀ c ∈ comps, Finish.allConstLen c.2 = true) :
    Finish.allConstLenList comps = true := by
  induction comps with
  | nil => rfl
  | cons c r ih =>
    obtain ⟨n, i⟩ := c
    simp only [Finish.allConstLenList, Bool.and_eq_true]
    exact ⟨h (n, i) (by simp), ih (fun c hc => h c (by simp [hc]))⟩

theorem Loaded.constLen {Q : SSrc → Prop} {pfx : String} {inst : Inst}
    (hL : Loaded (fun c => StmtNamesOk c = true) Q pfx inst) : Finish.allConstLen inst = true := by
  induction hL with
  | comp hP hload =>
    simp only [Finish.allConstLen]
    exact load_constLen hload hP
  | sys hQ hsub hinv hio ih =>
    simp only [Finish.allConstLen, Finish.allConstLenSys]
    exact allConstLenList_of _ ih

/-- **4a.** every component of a loaded tree passes the well-formedness check of C12, to any depth -/
theorem loadFile_wfInst {t : CodeTable} {b : Bundle} (hb : CompNamesCodesOk t b) {fuel : Nat} {base : String} {args : Nat}
    {argKey pfx path : String} {includes : List String} {anon : Nat} {inst : Inst} {a' : Nat}
    (h : loadFile b fuel base args argKey pfx path includes anon = .ok (inst, a')) (n : Nat) :
    FixSpec.wfInst t n inst = true :=
  (loadFile_loaded (Q := fun _ => True) hb (fun _ _ _ => trivial) _ _ _ _ _ _ _ _ _ _ h).wfInst n

/-- **4b.** a loaded tree passes the well-formedness check of `finish` -/
theorem loadFile_finish_wf {b : Bundle} (hb : CompNamesOk b) {fuel : Nat} {base : String} {args : Nat}
    {argKey pfx path : String} {includes : List String} {anon : Nat} {inst : Inst} {a' : Nat}
    (h : loadFile b fuel base args argKey pfx path includes anon = .ok (inst, a')) : Finish.wfB inst = true := by
  simp only [Finish.wfB, List.all_eq_true]
  exact (loadFile_loaded (Q := fun _ => True) hb (fun _ _ _ => trivial) _ _ _ _ _ _ _ _ _ _ h).finish_wf 64

/-- **4c.** in every component of a loaded tree the constraint strings have the recorded lengths -/
theorem loadFile_constLen {b : Bundle} (hb : CompNamesOk b) {fuel : Nat} {base : String} {args : Nat}
    {argKey pfx path : String} {includes : List String} {anon : Nat} {inst : Inst} {a' : Nat}
    (h : loadFile b fuel base args argKey pfx path includes anon = .ok (inst, a')) :
    Finish.allConstLen inst = true :=
  (loadFile_loaded (Q := fun _ => True) hb (fun _ _ _ => trivial) _ _ _ _ _ _ _ _ _ _ h).constLen

end Pepper.LoadInv
