import PepperProofs.Comp
/-!
# Well-formedness of an emitted specification (C09)

`WellFormedPil` is an independent, simple check of a PIL statement list: one pass with a table of the
sequence names defined so far (with their lengths), the strand names (with their lengths) and the structure
names.  It does not go through `Pil.load`.  Clause by clause:

* a `sequence` / `sup-sequence` / `strand` / `structure` statement defines a name that is not yet defined in its
  namespace (sequences and super-sequences share one namespace);
* every item of a super-sequence / strand / `equal` line is, after one trailing `*` is stripped, a sequence defined
  EARLIER; every strand of a structure is a strand defined earlier;
* the length recorded for a super-sequence / strand is the sum of the lengths of its items;
* a structure's text uses only `.()+`, is balanced (`Notation.balanced`: the depth counter never goes negative and
  ends at 0), and splitting it at `+` gives exactly one segment per strand, each of that strand's length;
* the members of an `equal` line (at least one) all have one length.

`wellFormed_of_load`: a statement list the PIL reader's object model accepts (`Pil.load`, any code table) and whose
structure texts are balanced is well formed.  `compStmts_wellFormed`: so is the statement list of every component
state satisfying the table invariant `WF` — in particular of every state `Comp.load` returns (`load_WF`).
-/
set_option linter.unusedSimpArgs false
namespace Pepper.WellFormed
open Pepper.Comp

/-! ### the check -/

structure Tab where
  seqs : List (String × Nat) := []
  strands : List (String × Nat) := []
  structs : List String := []
deriving Repr, DecidableEq

/-- length recorded for a name, first match -/
def lenOf (l : List (String × Nat)) (n : String) : Option Nat := (l.find? (·.1 == n)).map (·.2)

/-- an item name without its trailing `*` (if any) -/
def stripStar (raw : String) : String :=
  match raw.toList.reverse with
  | '*' :: r => String.ofList r.reverse
  | _ => raw

/-- the lengths of all the names, or `none` if one of them is not defined -/
def lensOf (l : List (String × Nat)) : List String → Option (List Nat)
  | [] => some []
  | n :: r =>
    match lenOf l n, lensOf l r with
    | some x, some xs => some (x :: xs)
    | _, _ => none

/-- the `+`-separated segments of a structure text -/
def segments : List Char → List (List Char)
  | [] => [[]]
  | c :: r =>
    match segments r with
    | [] => [[]]
    | h :: t => if c == '+' then [] :: h :: t else (c :: h) :: t

/-- a structure text against the lengths of its strands -/
def structOk (s : List Char) (lens : List Nat) : Bool :=
  s.all (fun c => c == '.' || c == '(' || c == ')' || c == '+') && Notation.balanced s &&
    ((segments s).map List.length == lens)

def step (t : Tab) : Pil.Stmt → Option Tab
  | .seq name template =>
    if (lenOf t.seqs name).isSome then none
    else some { t with seqs := t.seqs ++ [(name, template.length)] }
  | .sup name items =>
    if (lenOf t.seqs name).isSome then none
    else match lensOf t.seqs (items.map stripStar) with
      | some ls => some { t with seqs := t.seqs ++ [(name, ls.sum)] }
      | none => none
  | .strand name _ items =>
    if (lenOf t.strands name).isSome then none
    else match lensOf t.seqs (items.map stripStar) with
      | some ls => some { t with strands := t.strands ++ [(name, ls.sum)] }
      | none => none
  | .struct name _ strands s =>
    if t.structs.contains name then none
    else match lensOf t.strands strands with
      | some lens => if structOk s lens then some { t with structs := t.structs ++ [name] } else none
      | none => none
  | .equal items =>
    match lensOf t.seqs (items.map stripStar) with
    | some (l :: ls) => if ls.all (· == l) then some t else none
    | _ => none
  | .kinetic => some t

def check : List Pil.Stmt → Tab → Bool
  | [], _ => true
  | st :: r, t =>
    match step t st with
    | some t' => check r t'
    | none => false

/-- the statement list is well formed (see the header) -/
def WellFormedPil (stmts : List Pil.Stmt) : Bool := check stmts {}

/-! ### what the PIL reader's object model accepts is well formed -/

/-- the table of a loaded specification -/
def tabOf (s : Pil.Spec) : Tab :=
  ⟨s.seqs.map (fun o => (o.name, o.len)), s.strands.map (fun o => (o.name, o.len)), s.structs.map (·.name)⟩

theorem lenOf_seqs (s : Pil.Spec) (n : String) : lenOf (tabOf s).seqs n = (s.findSeq n).map (·.len) := by
  simp only [lenOf, tabOf, Pil.Spec.findSeq, List.find?_map, Option.map_map]
  rfl

theorem lenOf_strands (s : Pil.Spec) (n : String) : lenOf (tabOf s).strands n = (s.findStrand n).map (·.len) := by
  simp only [lenOf, tabOf, Pil.Spec.findStrand, List.find?_map, Option.map_map]
  rfl

/-- does the item name end in `*`? -/
def hasStar (raw : String) : Bool := raw.toList.reverse.head? == some '*'

/-- `get_seqs` on one item: look the stripped name up -/
theorem resolveItem_eq (s : Pil.Spec) (raw : String) :
    Pil.resolveItem s raw = match s.findSeq (stripStar raw) with
      | some o => .ok (⟨stripStar raw, hasStar raw⟩, o)
      | none => .error .undefinedSeq := by
  unfold Pil.resolveItem stripStar hasStar
  simp only []
  generalize raw.toList.reverse = l
  cases l with
  | nil => rfl
  | cons c r =>
    by_cases hc : c = '*'
    · subst hc; rfl
    · have h2 : ((c :: r).head? == some '*') = false := by simpa using hc
      rw [Pil.resolveItem.match_1.eq_2, stripStar.match_1.eq_2, h2]
      · rfl
      all_goals (intro r' heq; simp only [List.cons.injEq] at heq; exact hc heq.1)

theorem resolveItem_strip (s : Pil.Spec) (raw : String) {x : Pil.ItemRef × Pil.SeqObj}
    (h : Pil.resolveItem s raw = .ok x) : s.findSeq (stripStar raw) = some x.2 ∧ x.1.name = stripStar raw := by
  rw [resolveItem_eq] at h
  cases hf : s.findSeq (stripStar raw) with
  | none => rw [hf] at h; cases h
  | some o =>
    rw [hf] at h
    simp only [Except.ok.injEq] at h
    subst h
    exact ⟨rfl, rfl⟩

theorem lensOf_resolve (s : Pil.Spec) : ∀ (items : List String) (R : List (Pil.ItemRef × Pil.SeqObj)),
    Pil.resolveItems s items = .ok R → lensOf (tabOf s).seqs (items.map stripStar) = some (R.map (fun x => x.2.len)) := by
  intro items
  induction items with
  | nil =>
    intro R h
    simp only [Pil.resolveItems, Except.ok.injEq] at h
    subst h
    rfl
  | cons r rs ih =>
    intro R h
    simp only [Pil.resolveItems, bind, Except.bind] at h
    cases h1 : Pil.resolveItem s r with
    | error e => rw [h1] at h; cases h
    | ok x =>
      rw [h1] at h
      simp only at h
      cases h2 : Pil.resolveItems s rs with
      | error e => rw [h2] at h; cases h
      | ok xs =>
        rw [h2] at h
        simp only [pure, Except.pure, Except.ok.injEq] at h
        subst h
        simp only [List.map_cons, lensOf, lenOf_seqs, (resolveItem_strip s r h1).1, ih xs h2, Option.map_some]

theorem segments_eq (s : List Char) : segments s = Pil.splitPlus s := by
  induction s with
  | nil => rfl
  | cons c r ih =>
    simp only [segments, Pil.splitPlus, ih]
    cases Pil.splitPlus r <;> rfl

theorem lens_of_zip : ∀ (objs : List Pil.StrandObj) (subs : List (List Char)), subs.length = objs.length →
    (List.zip objs subs).all (fun x => x.1.len == x.2.length) = true → subs.map List.length = objs.map (·.len) := by
  intro objs
  induction objs with
  | nil => intro subs hl _; cases subs with
    | nil => rfl
    | cons _ _ => simp at hl
  | cons o os ih =>
    intro subs hl h
    cases subs with
    | nil => simp at hl
    | cons a r =>
      simp only [List.zip_cons_cons, List.all_cons, Bool.and_eq_true, beq_iff_eq] at h
      simp only [List.map_cons, h.1, ih r (by simpa using hl) h.2]

theorem lensOf_strands_mapM (s : Pil.Spec) : ∀ (strands : List String) (objs : List Pil.StrandObj),
    strands.mapM (fun n => match s.findStrand n with
        | some o => (pure o : Except Pil.Err Pil.StrandObj) | none => throw Pil.Err.undefinedStrand) = .ok objs →
    lensOf (tabOf s).strands strands = some (objs.map (·.len)) := by
  intro strands objs h
  have hm := mapM_ok_inv h
  clear h
  induction strands generalizing objs with
  | nil => cases objs <;> simp_all [lensOf]
  | cons n r ih =>
    cases objs with
    | nil => simp at hm
    | cons o os =>
      simp only [List.map_cons, List.cons.injEq] at hm
      obtain ⟨h1, h2⟩ := hm
      cases hf : s.findStrand n with
      | none => simp [hf, throw, throwThe, MonadExceptOf.throw] at h1
      | some o' =>
        simp only [hf, pure, Except.pure, Except.ok.injEq] at h1
        subst h1
        simp only [lensOf, lenOf_strands, hf, Option.map_some, ih os h2, List.map_cons]

theorem contains_structs (s : Pil.Spec) (n : String) :
    (tabOf s).structs.contains n = (s.structs.find? (·.name == n)).isSome := by
  simp only [tabOf]
  induction s.structs with
  | nil => rfl
  | cons o r ih =>
    simp only [List.map_cons, List.contains_cons, List.find?_cons]
    by_cases h : o.name = n
    · subst h; simp
    · have h1 : (o.name == n) = false := by simpa using h
      have h2 : (n == o.name) = false := by simpa using fun e => h e.symm
      simp only [h1, h2, Bool.false_or]
      exact ih

theorem of_not_not {b : Bool} (h : ¬ (!b) = true) : b = true := by cases b <;> simp_all

/-- one statement: if `Spec.add` accepts it (and, for a structure, its text is balanced), the check accepts it and the
    tables stay in step -/
theorem step_of_add (tbl : CodeTable) (s s' : Pil.Spec) (st : Pil.Stmt)
    (hbal : ∀ n p ss x, st = .struct n p ss x → Notation.balanced x = true)
    (h : s.add tbl st = .ok s') : step (tabOf s) st = some (tabOf s') := by
  cases st with
  | seq name template =>
    simp only [Pil.Spec.add] at h
    split at h
    · cases h
    · rename_i hf
      split at h
      · cases h
      · simp only [Except.ok.injEq] at h
        subst h
        have : (lenOf (tabOf s).seqs name).isSome = false := by
          rw [lenOf_seqs]; simpa using hf
        simp only [step, this, Bool.false_eq_true, if_false]
        simp [tabOf]
  | sup name items =>
    simp only [Pil.Spec.add, bind, Except.bind] at h
    split at h
    · cases h
    · rename_i hf
      cases hr : Pil.resolveItems s items with
      | error e => rw [hr] at h; cases h
      | ok R =>
        rw [hr] at h
        simp only [pure, Except.pure, Except.ok.injEq] at h
        subst h
        have : (lenOf (tabOf s).seqs name).isSome = false := by
          rw [lenOf_seqs]; simpa using hf
        simp only [step, this, Bool.false_eq_true, if_false, lensOf_resolve s items R hr]
        simp [tabOf]
  | strand name dummy items =>
    simp only [Pil.Spec.add, bind, Except.bind] at h
    split at h
    · cases h
    · rename_i hf
      cases hr : Pil.resolveItems s items with
      | error e => rw [hr] at h; cases h
      | ok R =>
        rw [hr] at h
        simp only [pure, Except.pure, Except.ok.injEq] at h
        subst h
        have : (lenOf (tabOf s).strands name).isSome = false := by
          rw [lenOf_strands]; simpa using hf
        simp only [step, this, Bool.false_eq_true, if_false, lensOf_resolve s items R hr]
        simp [tabOf]
  | struct name params strands x =>
    simp only [Pil.Spec.add, bind, Except.bind] at h
    split at h
    · cases h
    · rename_i hf
      split at h
      · cases h
      · rename_i objs hobjs
        split at h
        · cases h
        · rename_i hchars
          split at h
          · cases h
          · rename_i bonds hbonds
            split at h
            · cases h
            · rename_i hcount
              split at h
              · cases h
              · rename_i hzip
                simp only [pure, Except.pure, Except.ok.injEq] at h
                subst h
                have hc : (tabOf s).structs.contains name = false := by
                  rw [contains_structs]; simpa using hf
                have hl := lensOf_strands_mapM s strands objs hobjs
                have hseg : (segments x).map List.length = objs.map (·.len) := by
                  rw [segments_eq]
                  exact lens_of_zip objs _ (by simpa using hcount) (by simpa using hzip)
                have hok : structOk x (objs.map (·.len)) = true := by
                  simp only [structOk, Bool.and_eq_true, beq_iff_eq]
                  exact ⟨⟨of_not_not hchars, hbal _ _ _ _ rfl⟩, hseg⟩
                simp only [step, hc, Bool.false_eq_true, if_false, hl, hok, if_true]
                simp [tabOf]
  | equal items =>
    simp only [Pil.Spec.add, bind, Except.bind] at h
    cases hr : Pil.resolveItems s items with
    | error e => rw [hr] at h; cases h
    | ok R =>
      rw [hr] at h
      simp only at h
      cases R with
      | nil => cases h
      | cons y ys =>
        obtain ⟨i, o⟩ := y
        simp only at h
        split at h
        · cases h
        · rename_i hall
          simp only [pure, Except.pure, Except.ok.injEq] at h
          subst h
          simp only [step, lensOf_resolve s items _ hr, List.map_cons]
          have : (ys.map (fun x => x.2.len)).all (· == o.len) = true := by
            have hall := of_not_not hall
            simp only [List.all_cons, Bool.and_eq_true, List.all_eq_true] at hall
            simp only [List.all_map, List.all_eq_true]
            intro z hz
            exact hall.2 z hz
          simp only [this, if_true]
          simp [tabOf]
  | kinetic =>
    simp only [Pil.Spec.add, pure, Except.pure, Except.ok.injEq] at h
    subst h
    rfl

theorem check_of_load (tbl : CodeTable) : ∀ (stmts : List Pil.Stmt) (s s' : Pil.Spec),
    (∀ n p ss x, Pil.Stmt.struct n p ss x ∈ stmts → Notation.balanced x = true) →
    Pil.load tbl stmts s = .ok s' → check stmts (tabOf s) = true := by
  intro stmts
  induction stmts with
  | nil => intro _ _ _ _; rfl
  | cons st r ih =>
    intro s s' hbal h
    simp only [Pil.load] at h
    cases h1 : s.add tbl st with
    | error e => rw [h1] at h; cases h
    | ok s1 =>
      rw [h1] at h
      simp only at h
      have := step_of_add tbl s s1 st (fun n p ss x hx => hbal n p ss x (by simp [hx])) h1
      simp only [check, this]
      exact ih s1 s' (fun n p ss x hx => hbal n p ss x (by simp [hx])) h

/-- a statement list the reader's object model accepts (with any code table), all of whose structure texts are
    balanced, is well formed.  (`Pil.load` itself only rejects an unmatched `)`: `get_bonds` leaves an unmatched `(`
    unpaired — that is why balance is a separate hypothesis.) -/
theorem wellFormed_of_load (tbl : CodeTable) (stmts : List Pil.Stmt) (spec : Pil.Spec)
    (h : Pil.load tbl stmts {} = .ok spec)
    (hbal : ∀ n p ss x, Pil.Stmt.struct n p ss x ∈ stmts → Notation.balanced x = true) :
    WellFormedPil stmts = true :=
  check_of_load tbl stmts {} spec hbal h

/-! ### component states -/

/-- with a declared length the resolved length is the declared one -/
theorem resolve_some_len {parts : List (Constraint.Mult × Char)} {L n : Nat} {c : List Char}
    (h : Constraint.resolve parts (some L) = .ok (n, c)) : n = L := by
  unfold Constraint.resolve at h
  split at h
  · cases h
  · split at h
    · simp only at h
      split at h
      · simp only [Except.ok.injEq, Prod.mk.injEq] at h; exact h.1.symm
      · cases h
    · simp only at h
      split at h
      · cases h
      · simp only [Except.ok.injEq, Prod.mk.injEq] at h; exact h.1.symm

/-- a code table in which exactly the letters of `cs` are codes -/
def tableOf (cs : List Char) : CodeTable := ⟨cs.map (fun c => (c, [])), [], []⟩

theorem tableOf_isCode (cs : List Char) (c : Char) (h : c ∈ cs) : (tableOf cs).isCode c = true := by
  simp only [tableOf, CodeTable.isCode, CodeTable.groupOf]
  induction cs with
  | nil => cases h
  | cons d r ih =>
    simp only [List.map_cons, assoc]
    by_cases hd : d = c
    · subst hd; simp
    · have : (d == c) = false := by simpa using hd
      simp only [this, Bool.false_eq_true, if_false]
      rcases List.mem_cons.1 h with rfl | h'
      · exact absurd rfl hd
      · exact ih h'

/-- the structure statements of an emitted component are the structures of the table -/
theorem compStmts_struct {s : St} {n : String} {p : Option String} {ss : List String} {x : List Char}
    (h : Pil.Stmt.struct n p ss x ∈ Emit.compStmts s) : ∃ e ∈ s.structs, x = e.struct := by
  simp only [Emit.compStmts, List.mem_append, List.mem_map] at h
  rcases h with ((⟨e, _, he⟩ | ⟨e, _, he⟩) | ⟨e, _, he⟩) | ⟨e, hm, he⟩
  · cases he
  · cases he
  · cases he
  · simp only [Pil.Stmt.struct.injEq] at he
    exact ⟨e, hm, he.2.2.2.symm⟩

/-- the emitted statements of a component state satisfying the table invariant are well formed -/
theorem compStmts_wellFormed {s : St} {a : Nat} (hw : WF s a) : WellFormedPil (Emit.compStmts s) = true := by
  let tbl := tableOf (s.seqs.flatMap (·.const))
  have hcodes : ∀ e ∈ s.seqs, e.const.all tbl.isCode = true := by
    intro e he
    rw [List.all_eq_true]
    intro c hc
    exact tableOf_isCode _ c (List.mem_flatMap.2 ⟨e, he, hc⟩)
  obtain ⟨spec, hl, _⟩ := emit_sound tbl hw hcodes
  refine wellFormed_of_load tbl _ spec hl ?_
  intro n p ss x hx
  obtain ⟨e, he, rfl⟩ := compStmts_struct hx
  exact (hw.structs e he).bal

theorem addStmts_WF : ∀ (stmts : List Stmt) {s : St} {a : Nat} {s' : St} {a' : Nat}, WF s a →
    (∀ x ∈ stmts, stmtNamesOk x = true) → addStmts s a stmts = .ok (s', a') → WF s' a' := by
  intro stmts
  induction stmts with
  | nil =>
    intro s a s' a' hw _ h
    simp only [addStmts, Except.ok.injEq, Prod.mk.injEq] at h
    obtain ⟨rfl, rfl⟩ := h
    exact hw
  | cons x r ih =>
    intro s a s' a' hw hn h
    simp only [addStmts] at h
    cases h1 : addStmt s a x with
    | error e => rw [h1] at h; cases h
    | ok v =>
      obtain ⟨s2, a2⟩ := v
      rw [h1] at h
      exact ih (addStmt_WF hw (hn x (by simp)) h1).1 (fun y hy => hn y (by simp [hy])) h

/-- every state `Comp.load` returns satisfies the table invariant — no hypothesis on the program other than that its
    sequence names are not of the compiler's reserved form -/
theorem load_WF {src : Src} {n : Nat} {pfx : String} {a : Nat} {st : St} {a' : Nat}
    (h : Comp.load src n pfx a = .ok (st, a')) (hnames : UserNamesOk src = true) : WF st a' := by
  obtain ⟨s, hadd, hio⟩ := load_inv h
  simp only [UserNamesOk, Bool.and_eq_true, List.all_eq_true] at hnames
  have hw := addStmts_WF src.stmts (WF_init src.name pfx src.params a) hnames.1 hadd
  obtain ⟨⟨_, hss, hst, hsu, _⟩, _⟩ := addIO_inv hio
  exact ⟨by rw [hss]; exact hw.seqs, by rw [hst, hss]; exact hw.strands, by rw [hst]; exact hw.strandNames,
    by rw [hsu, hst]; exact hw.structs, by rw [hsu]; exact hw.structNames⟩

end Pepper.WellFormed
