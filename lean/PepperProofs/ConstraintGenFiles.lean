import PepperProofs.ConstraintGenSeeds
import PepperProofs.Ssm
/-!
# The files written by `design()` and read by `load_input_files`

1. `readInts (printInts l) = l`, `readTemplate` of the written template: what the C reader gets back.
2. From graph-level exactness (`GraphExact`) to the documented contract (`Ssm.Contract`) of the triple read.
-/
namespace Pepper.ConstraintGen
open Pepper Pepper.Closure Pepper.LinkSpec

/-! ## decimal numbers -/

def digitVal (c : Char) : Nat := c.toNat - 48
def decVal (l : List Char) : Nat := l.foldl (fun a c => a * 10 + digitVal c) 0

theorem digitChar_val {d : Nat} (h : d < 10) : digitVal (digitChar d) = d :=
  (by decide : ∀ d : Fin 10, digitVal (digitChar d.val) = d.val) ⟨d, h⟩

theorem digitChar_isDigit {d : Nat} (h : d < 10) : (digitChar d).isDigit = true :=
  (by decide : ∀ d : Fin 10, (digitChar d.val).isDigit = true) ⟨d, h⟩

theorem digitChar_notWs {d : Nat} (h : d < 10) : isWs (digitChar d) = false :=
  (by decide : ∀ d : Fin 10, isWs (digitChar d.val) = false) ⟨d, h⟩

theorem digitChar_ne_sign {d : Nat} (h : d < 10) : digitChar d ≠ '-' ∧ digitChar d ≠ '+' :=
  (by decide : ∀ d : Fin 10, digitChar d.val ≠ '-' ∧ digitChar d.val ≠ '+') ⟨d, h⟩

theorem showNat_spec (n : Nat) :
    (showNat n) ≠ [] ∧ (∀ c ∈ showNat n, c.isDigit = true ∧ isWs c = false) ∧ decVal (showNat n) = n ∧
    (∀ c, (showNat n).head? = some c → c ≠ '-' ∧ c ≠ '+') := by
  induction n using Nat.strongRecOn with
  | _ n ih =>
    rw [showNat]
    by_cases h : n < 10
    · simp only [h, dif_pos]
      refine ⟨by simp, ?_, ?_, ?_⟩
      · intro c hc; simp at hc; subst hc; exact ⟨digitChar_isDigit h, digitChar_notWs h⟩
      · simp [decVal, digitChar_val h]
      · intro c hc; simp at hc; subst hc; exact digitChar_ne_sign h
    · simp only [h, dif_neg, not_false_eq_true]
      have hlt : n / 10 < n := by omega
      have hm : n % 10 < 10 := Nat.mod_lt _ (by decide)
      obtain ⟨h1, h2, h3, h4⟩ := ih (n / 10) hlt
      refine ⟨by simp, ?_, ?_, ?_⟩
      · intro c hc
        rcases List.mem_append.1 hc with hc | hc
        · exact h2 c hc
        · simp at hc; subst hc; exact ⟨digitChar_isDigit hm, digitChar_notWs hm⟩
      · unfold decVal at h3 ⊢
        rw [List.foldl_append, h3]
        simp only [List.foldl_cons, List.foldl_nil, digitChar_val hm]
        omega
      · intro c hc
        cases hs : showNat (n / 10) with
        | nil => exact absurd hs h1
        | cons a r =>
          rw [hs] at hc h4
          simp at hc
          exact h4 c (by simp [hc])

theorem parseInt_digits (a : Char) (r : List Char) (h1 : a ≠ '-') (h2 : a ≠ '+')
    (hd : (a :: r).all Char.isDigit = true) : parseInt (a :: r) = some ((decVal (a :: r) : Nat) : Int) := by
  unfold parseInt decVal digitVal
  split
  · rename_i neg ds heq
    split at heq
    · rename_i r' hh; simp at hh; exact absurd hh.1 h1
    · rename_i r' hh; simp at hh; exact absurd hh.1 h2
    · simp only [Prod.mk.injEq] at heq
      obtain ⟨rfl, rfl⟩ := heq
      simp [hd]

theorem parseInt_neg (r : List Char) (hne : r ≠ []) (hd : r.all Char.isDigit = true) :
    parseInt ('-' :: r) = some (-((decVal r : Nat) : Int)) := by
  unfold parseInt decVal digitVal
  have : r.isEmpty = false := by cases r; exact absurd rfl hne; rfl
  simp [hd, this]

theorem parseInt_showInt (x : Int) : parseInt (showInt x) = some x := by
  cases x with
  | ofNat n =>
    obtain ⟨h1, h2, h3, h4⟩ := showNat_spec n
    show parseInt (showNat n) = some (Int.ofNat n)
    cases hs : showNat n with
    | nil => exact absurd hs h1
    | cons a r =>
      have ha := h4 a (by simp [hs])
      have hd : (a :: r).all Char.isDigit = true := by
        rw [← hs]; simp only [List.all_eq_true]; exact fun c hc => (h2 c hc).1
      rw [parseInt_digits a r ha.1 ha.2 hd, ← hs, h3]
      rfl
  | negSucc n =>
    obtain ⟨h1, h2, h3, h4⟩ := showNat_spec (n + 1)
    show parseInt ('-' :: showNat (n + 1)) = some (Int.negSucc n)
    have hd : (showNat (n + 1)).all Char.isDigit = true := by
      simp only [List.all_eq_true]; exact fun c hc => (h2 c hc).1
    rw [parseInt_neg _ h1 hd, h3]
    simp [Int.negSucc_eq]

theorem showInt_tok (x : Int) : showInt x ≠ [] ∧ ∀ c ∈ showInt x, isWs c = false := by
  cases x with
  | ofNat n =>
    obtain ⟨h1, h2, _, _⟩ := showNat_spec n
    exact ⟨h1, fun c hc => (h2 c hc).2⟩
  | negSucc n =>
    obtain ⟨_, h2, _, _⟩ := showNat_spec (n + 1)
    refine ⟨by simp [showInt], ?_⟩
    intro c hc
    simp only [showInt, List.mem_cons] at hc
    rcases hc with rfl | hc
    · decide
    · exact (h2 c hc).2

/-! ## tokens -/

theorem splitWs_tok (t : List Char) (ht : ∀ c ∈ t, isWs c = false) (rest cur : List Char)
    (hne : t ≠ [] ∨ cur ≠ []) :
    splitWs (t ++ ' ' :: rest) cur = (cur.reverse ++ t) :: splitWs rest [] := by
  induction t generalizing cur with
  | nil =>
    have hc : cur ≠ [] := by rcases hne with h | h; exact absurd rfl h; exact h
    have : cur.isEmpty = false := by cases cur; exact absurd rfl hc; rfl
    simp [splitWs, isWs, this]
  | cons a t ih =>
    have ha : isWs a = false := ht a List.mem_cons_self
    simp only [List.cons_append, splitWs, ha]
    rw [ih (fun c hc => ht c (List.mem_cons_of_mem _ hc)) (a :: cur) (Or.inr (by simp))]
    simp

theorem readInts_go_all (l : List Int) : readInts.go (l.map showInt) = l := by
  induction l with
  | nil => rfl
  | cons x l ih => simp [readInts.go, parseInt_showInt, ih]

theorem splitWs_printed (l : List Int) :
    splitWs (l.flatMap (fun x => showInt x ++ [' '])) [] = l.map showInt := by
  induction l with
  | nil => rfl
  | cons x l ih =>
    simp only [List.flatMap_cons, List.map_cons, List.append_assoc, List.singleton_append]
    rw [splitWs_tok _ (showInt_tok x).2 _ [] (Or.inl (showInt_tok x).1), ih]
    simp

/-- the C reader gets the written numbers back -/
theorem readInts_printInts (l : List Int) : readInts (printInts l) = l := by
  unfold readInts printInts
  rw [String.toList_ofList, splitWs_printed, readInts_go_all]

/-! ## the template -/

theorem stripTrailing_id {α : Type} (p : α → Bool) (l : List α) (h : ∀ a, l.getLast? = some a → p a = false) :
    stripTrailing p l = l := by
  unfold stripTrailing
  cases hl : l.reverse with
  | nil => simp at hl; subst hl; rfl
  | cons a r =>
    have hlast : l.getLast? = some a := by
      rw [List.getLast?_eq_head?_reverse, hl]; rfl
    rw [List.dropWhile_cons, h a hlast]
    simp only [Bool.false_eq_true, if_false]
    rw [← hl, List.reverse_reverse]

theorem readTemplate_written (cs : List Char) (hc : ∀ c ∈ cs, c ∈ templateChars)
    (hlast : ∀ a, cs.getLast? = some a → a ≠ ' ') : readTemplate (String.ofList cs) = cs := by
  unfold readTemplate
  rw [String.toList_ofList]
  have : cs.filter templateChars.contains = cs := by
    apply List.filter_eq_self.2
    intro c hc'
    simpa using hc c hc'
  rw [this]
  exact stripTrailing_id _ _ (fun a ha => by simpa using hlast a ha)

/-! ## the triple the C program ends up with -/

/-- the arrays as `load_input_files` holds them: 1-based, `0` / `-1` / blank for `None` -/
def tripleOf (a : Arrays) : Ssm.Triple :=
  { st := a.2.2.map stMap, eq := a.1.map (fun o => (eqMap o).toNat), wc := a.2.1.map wcMap }

/-- array-level facts that make the read-back exact -/
structure ArrFacts (a : Arrays) : Prop where
  n_pos : 0 < a.1.length
  len_wc : a.2.1.length = a.1.length
  len_st : a.2.2.length = a.1.length
  last : ∀ v : Option Nat, a.1[a.1.length - 1]? = some v → v ≠ none
  blank_st : ∀ (i : Nat) (v : Option Nat) (w : Option Char), a.1[i]? = some v → a.2.2[i]? = some w → (v = none ↔ w = none)
  blank_wc : ∀ (i : Nat) (w : Option Nat), a.1[i]? = some none → a.2.1[i]? = some w → w = none
  code : ∀ (i : Nat) (ch : Char), a.2.2[i]? = some (some ch) → Ssm.isCode ch = true ∧ ch ∈ templateChars

theorem eqMap_zero_iff (o : Option Nat) : eqMap o = 0 ↔ o = none := by
  cases o with
  | none => simp [eqMap]
  | some x => simp [eqMap]; omega

theorem eqMap_nonneg (o : Option Nat) : 0 ≤ eqMap o := by
  cases o with
  | none => simp [eqMap]
  | some x => simp [eqMap]; omega

theorem wcMap_ok (o : Option Nat) : ¬ (wcMap o = 0 ∨ wcMap o < -1) := by
  cases o with
  | none => simp [wcMap]
  | some x => simp [wcMap]; omega

theorem stMap_blank_iff {o : Option Char} (h : ∀ ch, o = some ch → Ssm.isCode ch = true) :
    Ssm.isCode (stMap o) = false ↔ o = none := by
  cases o with
  | none => simp [stMap]; decide
  | some ch => simp [stMap, h ch rfl]

theorem getLast?_map_of {α β : Type} (f : α → β) (l : List α) (b : β) (h : (l.map f).getLast? = some b) :
    ∃ a, l[l.length - 1]? = some a ∧ f a = b := by
  rw [List.getLast?_eq_getElem?] at h
  simp only [List.length_map, List.getElem?_map] at h
  cases hl : l[l.length - 1]? with
  | none => simp [hl] at h
  | some a => simp [hl] at h; exact ⟨a, rfl, h⟩

/-- **Read-back.**  The three files written from the arrays are read by the model of `load_input_files`
    as the arrays themselves (1-based), with no entry dropped or altered. -/
theorem readTriple_ssmFiles {a : Arrays} (F : ArrFacts a) : readTriple (ssmFiles a) = some (tripleOf a) := by
  have hn := F.n_pos
  -- the template
  have hst : readTemplate (ssmFiles a).st = a.2.2.map stMap := by
    apply readTemplate_written
    · intro c hc
      obtain ⟨o, ho, rfl⟩ := List.mem_map.1 hc
      cases o with
      | none => decide
      | some ch =>
        obtain ⟨i, hi, he⟩ := List.getElem_of_mem ho
        exact (F.code i ch (by rw [List.getElem?_eq_getElem hi, he])).2
    · intro c hc
      obtain ⟨o, ho, rfl⟩ := getLast?_map_of stMap _ _ hc
      rw [F.len_st] at ho
      cases hv : a.1[a.1.length - 1]? with
      | none => simp at hv; omega
      | some v =>
        have hvn := F.last v hv
        cases o with
        | none => exact absurd ((F.blank_st _ v none hv ho).2 rfl) hvn
        | some ch =>
          have := (F.code _ ch ho).1
          intro e
          simp only [stMap] at e
          subst e
          revert this; decide
  have hwc : readInts (ssmFiles a).wc = a.2.1.map wcMap := readInts_printInts _
  have heq0 : readInts (ssmFiles a).eq = a.1.map eqMap := readInts_printInts _
  have heq : stripTrailing (· == (0 : Int)) (a.1.map eqMap) = a.1.map eqMap := by
    apply stripTrailing_id
    intro x hx
    obtain ⟨v, hv, rfl⟩ := getLast?_map_of eqMap _ _ hx
    have := F.last v hv
    simpa [eqMap_zero_iff] using this
  unfold readTriple
  rw [hst, hwc, heq0]
  have h1 : (a.2.1.map wcMap).any (fun v => v == 0 || decide (v < -1)) = false := by
    rw [List.any_eq_false]
    intro x hx
    obtain ⟨o, _, rfl⟩ := List.mem_map.1 hx
    have := wcMap_ok o
    simpa using this
  have h2 : (a.1.map eqMap).any (fun v => decide (v < 0)) = false := by
    rw [List.any_eq_false]
    intro x hx
    obtain ⟨o, _, rfl⟩ := List.mem_map.1 hx
    have := eqMap_nonneg o
    simp; omega
  have hm : max (a.1.map eqMap).length (a.2.2.map stMap).length = a.1.length := by
    simp [F.len_st]
  have h3 : (a.2.1.map wcMap).drop a.1.length = [] := by
    apply List.drop_eq_nil_iff.2; simp [F.len_wc]
  have h4 : (a.2.1.map wcMap).take a.1.length = a.2.1.map wcMap := by
    apply List.take_of_length_le; simp [F.len_wc]
  have hgt : a.1.length > 0 := hn
  have hz : (a.1.length == 0) = false := by rw [beq_eq_false_iff_ne]; exact Nat.pos_iff_ne_zero.1 hn
  unfold reconcile
  simp only [h1, heq, h2, hm, h3, h4, hgt, if_true, List.any_nil, Bool.and_false, Bool.false_eq_true, if_false,
    List.length_map, F.len_wc, F.len_st, Nat.max_self, hz, bne_self_eq_false, Bool.or_false, Option.some.injEq]
  -- the three lists, position by position
  have blank_iff : ∀ i, i < a.1.length →
      ((!(Ssm.isCode ((a.2.2.map stMap).getD i ' ')) || (a.1.map eqMap).getD i 0 == 0) = true ↔ a.1[i]? = some none) := by
    intro i hi
    have hi2 : i < a.2.2.length := by rw [F.len_st]; exact hi
    have e1 : a.1[i]? = some a.1[i] := List.getElem?_eq_getElem hi
    have e2 : a.2.2[i]? = some a.2.2[i] := List.getElem?_eq_getElem hi2
    have hb := F.blank_st i _ _ e1 e2
    simp only [List.getD_eq_getElem?_getD, List.getElem?_map, e1, e2, Option.map_some, Option.getD_some,
      Bool.or_eq_true, Bool.not_eq_true', beq_iff_eq, eqMap_zero_iff, Option.some.injEq]
    rw [stMap_blank_iff (fun ch hch => (F.code i ch (by rw [e2, hch])).1)]
    constructor
    · rintro (h | h)
      · exact hb.2 h
      · exact h
    · intro h; exact Or.inr h
  unfold tripleOf
  congr 1
  · apply List.ext_getElem?
    intro i
    by_cases hi : i < a.1.length
    · have hi2 : i < a.2.2.length := by rw [F.len_st]; exact hi
      rw [List.getElem?_map, List.getElem?_range hi, List.getElem?_map, List.getElem?_eq_getElem hi2]
      simp only [Option.map_some, Option.some.injEq]
      by_cases hb : a.1[i]? = some none
      · rw [if_pos ((blank_iff i hi).2 hb)]
        have := (F.blank_st i none a.2.2[i] hb (List.getElem?_eq_getElem hi2)).1 rfl
        rw [this]; rfl
      · rw [if_neg (fun h => hb ((blank_iff i hi).1 h))]
        simp [List.getD_eq_getElem?_getD, List.getElem?_eq_getElem hi2]
    · have h1 : (List.range a.1.length)[i]? = none := by simp; omega
      have h2 : a.2.2[i]? = none := by simp [F.len_st]; omega
      simp [h1, h2]
  · apply List.ext_getElem?
    intro i
    by_cases hi : i < a.1.length
    · rw [List.getElem?_map, List.getElem?_range hi, List.getElem?_map, List.getElem?_eq_getElem hi]
      simp only [Option.map_some, Option.some.injEq]
      by_cases hb : a.1[i]? = some none
      · rw [if_pos ((blank_iff i hi).2 hb)]
        rw [List.getElem?_eq_getElem hi] at hb
        simp only [Option.some.injEq] at hb
        rw [hb]; rfl
      · rw [if_neg (fun h => hb ((blank_iff i hi).1 h))]
        simp [List.getD_eq_getElem?_getD, List.getElem?_eq_getElem hi]
    · have h1 : (List.range a.1.length)[i]? = none := by simp; omega
      have h2 : a.1[i]? = none := by simp; omega
      simp [h1, h2]
  · apply List.ext_getElem?
    intro i
    by_cases hi : i < a.1.length
    · have hi2 : i < a.2.1.length := by rw [F.len_wc]; exact hi
      rw [List.getElem?_map, List.getElem?_range hi, List.getElem?_map, List.getElem?_eq_getElem hi2]
      simp only [Option.map_some, Option.some.injEq]
      by_cases hb : a.1[i]? = some none
      · rw [if_pos ((blank_iff i hi).2 hb)]
        have := F.blank_wc i a.2.1[i] hb (List.getElem?_eq_getElem hi2)
        rw [this]; rfl
      · rw [if_neg (fun h => hb ((blank_iff i hi).1 h))]
        simp [List.getD_eq_getElem?_getD, List.getElem?_eq_getElem hi2]
    · have h1 : (List.range a.1.length)[i]? = none := by simp; omega
      have h2 : a.2.1[i]? = none := by simp [F.len_wc]; omega
      simp [h1, h2]

/-! ## from exactness to the contract -/

theorem pil_codes : ∀ p ∈ Generated.pilTable.group, Ssm.isCode p.1 = true ∧ p.1 ∈ templateChars := by decide
theorem pil_compl : ∀ p ∈ Generated.pilTable.compl, Ssm.WC p.1 = p.2 := by decide
theorem pil_lawful : Generated.pilTable.lawful = true := by decide

theorem pil_isCode {ch : Char} (h : Generated.pilTable.isCode ch = true) :
    Ssm.isCode ch = true ∧ ch ∈ templateChars := by
  obtain ⟨g, hg⟩ := CodeTable.isCode_iff.1 h
  exact pil_codes (ch, g) (CodeTable.groupOf_mem hg)

theorem mask_ext_fin : ∀ m n : Fin 16, (m.val &&& 1 ≠ 0 ↔ n.val &&& 1 ≠ 0) → (m.val &&& 2 ≠ 0 ↔ n.val &&& 2 ≠ 0) →
    (m.val &&& 4 ≠ 0 ↔ n.val &&& 4 ≠ 0) → (m.val &&& 8 ≠ 0 ↔ n.val &&& 8 ≠ 0) → m = n := by decide

theorem mask_ext {m n : Nat} (hm : m < 16) (hn : n < 16) (h : ∀ b : Base, hasB m b ↔ hasB n b) : m = n := by
  have := mask_ext_fin ⟨m, hm⟩ ⟨n, hn⟩ (h .A) (h .C) (h .G) (h .T)
  exact congrArg Fin.val this

theorem t_N (a : Arrays) : (tripleOf a).N = a.2.2.length := by simp [tripleOf, Ssm.Triple.N]

theorem t_stAt {a : Arrays} {i : Nat} {o : Option Char} (h : a.2.2[i]? = some o) :
    (tripleOf a).stAt i = stMap o := by
  simp [tripleOf, Ssm.Triple.stAt, List.getD_eq_getElem?_getD, h]

theorem t_eqAt {a : Arrays} {i : Nat} {o : Option Nat} (h : a.1[i]? = some o) :
    (tripleOf a).eqAt i = (eqMap o).toNat := by
  simp [tripleOf, Ssm.Triple.eqAt, List.getD_eq_getElem?_getD, h]

theorem t_wcAt {a : Arrays} {i : Nat} {o : Option Nat} (h : a.2.1[i]? = some o) :
    (tripleOf a).wcAt i = wcMap o := by
  simp [tripleOf, Ssm.Triple.wcAt, List.getD_eq_getElem?_getD, h]

theorem eqMap_some (m : Nat) : (eqMap (some m)).toNat = m + 1 := by simp [eqMap]
theorem eqMap_none : (eqMap none).toNat = 0 := by simp [eqMap]

/-- what exactness says about a position: its representative -/
theorem key_info {tbl : CodeTable} {c : Cons} {P : Nat} {a : Arrays} (wf : c.WF tbl) (G : GraphExact tbl c P a)
    {i : Nat} (hi : i < a.1.length) (hk : i ∈ c.keys) :
    ∃ m, a.1[i]? = some (some m) ∧ m ≤ i ∧ m ∈ c.keys ∧ m < a.1.length ∧
      Reach (adjOf c.keys c.eq) (adjOf c.keys c.wc) i false m ∧
      IsMin P (Reach (adjOf c.keys c.eq) (adjOf c.keys c.wc) i false) (some m) := by
  obtain ⟨⟨v, hv, hmin⟩, _, _⟩ := G.key i hi hk
  have hiP : i < P := Nat.lt_of_lt_of_le hi G.le_P
  cases v with
  | none => exact absurd hiP (hmin i Reach.refl)
  | some m =>
    obtain ⟨h1, h2, h3⟩ := hmin
    have hmk : m ∈ c.keys := by
      have := h1.mem_keys wf.pre.keyClosed (by rw [keys_adjOf]; exact hk)
      rwa [keys_adjOf] at this
    exact ⟨m, hv, h3 i Reach.refl hiP, hmk, G.bound m hmk h2, h1, ⟨h1, h2, h3⟩⟩

theorem isMin_shift {P : Nat} {eq wc : Adj} (hp : Pre eq wc) {x y : Nat} {q : Bool} (h : Reach eq wc x q y)
    (p : Bool) {o : Option Nat} (hm : IsMin P (Reach eq wc x (q ^^ p)) o) : IsMin P (Reach eq wc y p) o :=
  IsMin.congr (fun z => (reach_shift_iff hp h p z).symm) hm

/-- codes with the same base sets are the same code -/
theorem code_eq_of_bits {tbl : CodeTable} (hl : tbl.lawful = true) {c d : Char} (hc : tbl.isCode c = true)
    (hd : tbl.isCode d = true) (h : ∀ b, hasB (tbl.maskC c) b ↔ hasB (tbl.maskC d) b) : c = d :=
  CodeTable.maskC_inj hl hc hd (mask_ext (maskC_lt16 _ _) (maskC_lt16 _ _) h)

/-- **From exactness to the contract** (table of `PIL_DNA_classes.py`): the triple the C program holds after
    reading the written files satisfies the documented input contract. -/
theorem contract_of_exact {c : Cons} {P : Nat} {a : Arrays} (wf : c.WF Generated.pilTable)
    (G : GraphExact Generated.pilTable c P a) : Ssm.Contract (tripleOf a) := by
  have hl := pil_lawful
  have hp := wf.pre
  have hn := G.n_pos
  have hN : (tripleOf a).N = a.1.length := by rw [t_N, G.len_st]
  have klast : a.1.length - 1 < a.1.length := by omega
  refine ⟨by rw [hN]; exact hn, by rw [hN]; simp [tripleOf], by rw [hN]; simp [tripleOf, G.len_wc], ?_, ?_⟩
  · rw [hN]
    obtain ⟨_, _, ch, hch, hcode, _⟩ := G.key _ klast G.last
    rw [t_stAt hch]
    exact Ssm.isCode_ne_blank (pil_isCode hcode).1
  · intro i hi
    rw [hN] at hi
    by_cases hk : i ∈ c.keys
    · obtain ⟨m, hem, hmi, hmk, hmn, hrm, hmin⟩ := key_info wf G hi hk
      obtain ⟨_, ⟨w, hw, hwmin⟩, ch, hch, hcode, hbits⟩ := G.key i hi hk
      -- the representative's own entries
      obtain ⟨m', hem', _, _, _, _, hmin'⟩ := key_info wf G hmn hmk
      obtain ⟨_, ⟨wm, hwm, hwmmin⟩, chm, hchm, hcodem, hbitsm⟩ := G.key m hmn hmk
      have e1 : m' = m := by
        have := IsMin.unique hmin' (isMin_shift hp hrm false (by simpa using hmin))
        simpa using this
      rw [e1] at hem'
      have e2 : wm = w := IsMin.unique hwmmin (isMin_shift hp hrm true (by simpa using hwmin))
      have e3 : chm = ch := by
        apply code_eq_of_bits hl hcodem hcode
        intro b
        rw [hbitsm, hbits, Common.shift hp hrm b]; simp [flipB]
      rw [e2] at hwm
      rw [e3] at hchm
      refine ⟨⟨?_, ?_, ?_⟩, ?_, ?_⟩
      · rw [t_stAt hch, t_eqAt hem, eqMap_some]
        simp only [stMap]
        constructor
        · intro h; exact absurd h (Ssm.isCode_ne_blank (pil_isCode hcode).1)
        · intro h; omega
      · intro _
        rw [t_stAt hch]; exact (pil_isCode hcode).1
      · rw [t_eqAt hem, eqMap_some]; intro h; omega
      · intro _
        rw [t_eqAt hem, eqMap_some]
        simp only [Nat.add_sub_cancel]
        rw [t_eqAt hem', eqMap_some, t_wcAt hwm, t_wcAt hw, t_stAt hchm, t_stAt hch]
        exact ⟨by omega, rfl, rfl, rfl⟩
      · intro hne
        rw [t_wcAt hw] at hne
        cases w with
        | none => exact absurd rfl hne
        | some w =>
          obtain ⟨hrw, hwP, hwle⟩ := hwmin
          have hwk : w ∈ c.keys := by
            have := hrw.mem_keys hp.keyClosed (by rw [keys_adjOf]; exact hk)
            rwa [keys_adjOf] at this
          have hwn : w < a.1.length := G.bound w hwk hwP
          obtain ⟨w', hew', _, _, _, _, hminw⟩ := key_info wf G hwn hwk
          obtain ⟨_, ⟨ww, hww, hwwmin⟩, chw, hchw, hcodew, hbitsw⟩ := G.key w hwn hwk
          have f1 : w' = w := by
            have := IsMin.unique hminw (isMin_shift hp hrw false (o := some w) ⟨hrw, hwP, hwle⟩)
            simpa using this
          rw [f1] at hew'
          have f2 : ww = some m := IsMin.unique hwwmin (isMin_shift hp hrw true (by simpa using hmin))
          rw [f2] at hww
          have hwm : w ≠ m := by
            intro e
            rw [e] at hrw
            have := hrw.trans (hrm.symm hp.eqSymm hp.wcSymm)
            simp at this
            exact G.noself i hk this
          -- the codes are complementary
          obtain ⟨dw, hdw, hdwcode⟩ := CodeTable.isCode_compl hl hcodew
          have hcomp : ch = dw := by
            apply code_eq_of_bits hl hcode hdwcode
            intro b
            rw [hbits, CodeTable.complOf_mask hl hdw, hasB_compl (maskC_lt16 _ _), hbitsw,
              Common.shift hp hrw b.compl]
            simp [flipB, Base.compl_compl]
          have hWC : Ssm.WC chw = dw := pil_compl (chw, dw) (assoc_mem hdw)
          have hix : (tripleOf a).wcIx i = w := by
            simp [Ssm.Triple.wcIx, t_wcAt hw, wcMap]
          rw [hix, t_wcAt hw, t_eqAt hem, eqMap_some, t_eqAt hew', eqMap_some, t_wcAt hww, t_stAt hch,
            t_stAt hchw, hN]
          simp only [wcMap, stMap]
          refine ⟨by omega, by omega, ?_, by omega, by omega, ?_⟩
          · intro e; apply hwm; omega
          · rw [hWC, hcomp]
    · obtain ⟨h1, h2, h3⟩ := G.blank i hi hk
      refine ⟨⟨?_, ?_, ?_⟩, ?_, ?_⟩
      · rw [t_stAt h3, t_eqAt h1, eqMap_none]; simp [stMap]
      · rw [t_stAt h3]; intro h; exact absurd rfl h
      · intro _; rw [t_wcAt h2]; rfl
      · intro h; rw [t_eqAt h1, eqMap_none] at h; exact absurd rfl h
      · intro h; rw [t_wcAt h2] at h; exact absurd rfl h

/-- the array-level facts needed for the read-back follow from exactness -/
theorem arrFacts_of_exact {c : Cons} {P : Nat} {a : Arrays} (wf : c.WF Generated.pilTable)
    (G : GraphExact Generated.pilTable c P a) : ArrFacts a := by
  have inRange : ∀ {α : Type} (l : List α) (i : Nat) (v : α), l[i]? = some v → i < l.length := by
    intro α l i v h
    exact (List.getElem?_eq_some_iff.1 h).1
  constructor
  · exact G.n_pos
  · exact G.len_wc
  · exact G.len_st
  · intro v hv
    have klast : a.1.length - 1 < a.1.length := by have := G.n_pos; omega
    obtain ⟨m, hem, _⟩ := key_info wf G klast G.last
    rw [hem] at hv
    cases hv
    simp
  · intro i v w hv hw
    have hi := inRange _ _ _ hv
    by_cases hk : i ∈ c.keys
    · obtain ⟨m, hem, _⟩ := key_info wf G hi hk
      obtain ⟨_, _, ch, hch, _⟩ := G.key i hi hk
      rw [hem] at hv; rw [hch] at hw
      cases hv; cases hw
      simp
    · obtain ⟨h1, _, h3⟩ := G.blank i hi hk
      rw [h1] at hv; rw [h3] at hw
      cases hv; cases hw
      simp
  · intro i w hv hw
    have hi := inRange _ _ _ hv
    by_cases hk : i ∈ c.keys
    · obtain ⟨m, hem, _⟩ := key_info wf G hi hk
      rw [hem] at hv; cases hv
    · obtain ⟨_, h2, _⟩ := G.blank i hi hk
      rw [h2] at hw; cases hw; rfl
  · intro i ch hch
    have hi : i < a.1.length := by rw [← G.len_st]; exact inRange _ _ _ hch
    by_cases hk : i ∈ c.keys
    · obtain ⟨_, _, ch', hch', hcode, _⟩ := G.key i hi hk
      rw [hch'] at hch; cases hch
      exact pil_isCode hcode
    · obtain ⟨_, _, h3⟩ := G.blank i hi hk
      rw [h3] at hch; cases hch

/-! ## the start sequence of `main` -/

theorem choices_blank : Ssm.choices ' ' = [' '] := by decide

theorem choices_ne_nil : ∀ p ∈ Generated.dnaTable.group, Ssm.choices p.1 ≠ [] := by decide

theorem sAt_startOf (t : Ssm.Triple) (pick : Nat → Nat) {i : Nat} (hi : i < t.N) :
    Ssm.sAt (startOf t pick) i =
      (Ssm.choices (t.stAt i)).getD (pick i % (Ssm.choices (t.stAt i)).length) ' ' := by
  unfold Ssm.sAt startOf
  rw [List.getD_eq_getElem?_getD, List.getElem?_map, List.getElem?_range hi]
  rfl

/-- the random start sequence drawn from the template's choice sets is admissible for `constrain` -/
theorem startOf_ok {t : Ssm.Triple} (c : Ssm.Contract t) (pick : Nat → Nat) : Ssm.StartOK t (startOf t pick) := by
  obtain ⟨_, _, _, _, hall⟩ := c
  refine ⟨by simp [startOf], fun i hi => ⟨?_, ?_⟩⟩
  · intro hb
    rw [sAt_startOf t pick hi, hb, choices_blank]
    have : pick i % [' '].length = 0 := Nat.mod_one _
    rw [this]; rfl
  · intro hrep
    obtain ⟨⟨hb1, hb2, _⟩, _, _⟩ := hall i hi
    have heq : t.eqAt i ≠ 0 := by
      unfold Ssm.isClassRep at hrep
      simp only [Bool.and_eq_true, beq_iff_eq] at hrep
      omega
    have hst : t.stAt i ≠ ' ' := fun e => heq (hb1.1 e)
    have hcode := hb2 hst
    rw [sAt_startOf t pick hi]
    apply Ssm.choices_memCode hcode
    obtain ⟨g, hg⟩ := Ssm.isCode_unpack hcode
    have hne := choices_ne_nil _ hg
    have hlen : 0 < (Ssm.choices (t.stAt i)).length := List.length_pos_iff.2 hne
    have hlt := Nat.mod_lt (pick i) hlen
    rw [List.getD_eq_getElem?_getD, List.getElem?_eq_getElem hlt]
    exact List.getElem_mem hlt

/-- the C program's own acceptance test passes on the constrained start sequence -/
theorem consistent_of_contract {t : Ssm.Triple} (c : Ssm.Contract t) (pick : Nat → Nat) :
    Ssm.testConsistency t (Ssm.constrain t (startOf t pick)) = true :=
  Ssm.testConsistency_of_good c (Ssm.constrain_good' c.toF (startOf_ok c pick))

end Pepper.ConstraintGen
