import PepperProofs.CompWF
import PepperProofs.Notation
/-!
# `addStmt` preserves the well-formedness invariant, and the shape of the new state (C01)
-/
set_option linter.unusedSimpArgs false
namespace Pepper.Notation

theorem compileToks_balanced {hu : Bool} {ts : List Tok} {d : List Char} (h : compileToks hu ts = some d) :
    balanced d = true := by
  unfold compileToks at h
  cases hu with
  | true =>
    simp only [if_true, Option.map_eq_some_iff] at h
    obtain ⟨x, _, rfl⟩ := h
    exact hu_balanced x
  | false =>
    simp only [Bool.false_eq_true, if_false] at h
    split at h
    · simp at h
    · split at h
      · simp only [Option.some.injEq] at h; subst h
        rw [balanced_eq]; assumption
      · simp at h

theorem compileStruct_balanced {s d : List Char} (h : compileStruct s = some d) : balanced d = true := by
  unfold compileStruct at h
  split at h
  · split at h
    · exact compileToks_balanced h
    · simp at h
  · split at h
    · exact compileToks_balanced h
    · simp at h

end Pepper.Notation

namespace Pepper.Comp
open Pepper.Constraint

/-! ### names a statement introduces or mentions -/

def itemNamesOk (items : List SrcItem) : Bool :=
  items.all fun
    | .nuc _ => true
    | .ref n _ => okName n
    | .domains n _ => okName n

/-- sequence names a statement defines or mentions are user names (`okName`) -/
def stmtNamesOk : Stmt → Bool
  | .seq name items _ => okName name && itemNamesOk items
  | .strand _ _ items _ => itemNamesOk items
  | _ => true

/-! ### small helpers -/

theorem nodup_snoc {l : List SeqE} (h : (l.map (·.name)).Nodup) {e : SeqE} (hf : findE l e.name = none) :
    ((l ++ [e]).map (·.name)).Nodup := by
  rw [List.map_append, List.nodup_append]
  refine ⟨h, by simp, ?_⟩
  intro n1 h1 n2 h2
  simp only [List.map_cons, List.map_nil, List.mem_singleton] at h2
  subst h2
  obtain ⟨e1, he1, rfl⟩ := List.mem_map.mp h1
  exact findE_eq_none.mp hf e1 he1

theorem nodupT_snoc {l : List StrandE} (h : (l.map (·.name)).Nodup) {e : StrandE} (hf : findT l e.name = none) :
    ((l ++ [e]).map (·.name)).Nodup := by
  rw [List.map_append, List.nodup_append]
  refine ⟨h, by simp, ?_⟩
  intro n1 h1 n2 h2
  simp only [List.map_cons, List.map_nil, List.mem_singleton] at h2
  subst h2
  obtain ⟨e1, he1, rfl⟩ := List.mem_map.mp h1
  exact findT_eq_none.mp hf e1 he1

theorem StructWF.append {ts : List StrandE} {e : StructE} (h : StructWF ts e) (x : List StrandE) :
    StructWF (ts ++ x) e := by
  have hfind : ∀ n ∈ e.strands, findT (ts ++ x) n = findT ts n := by
    intro n hn
    have := h.found n hn
    rw [findT_append]
    cases hh : findT ts n with
    | none => simp [hh] at this
    | some o => rfl
  refine ⟨fun n hn => by rw [hfind n hn]; exact h.found n hn, ?_, h.bal⟩
  have : e.strands.map (fun n => ((findT (ts ++ x) n).map (·.len)).getD 0) =
      e.strands.map (fun n => ((findT ts n).map (·.len)).getD 0) := by
    apply List.map_congr_left
    intro n hn
    rw [hfind n hn]
  rw [this]; exact h.sizes

theorem StructWF.map {ts : List StrandE} {e : StructE} (h : StructWF ts e) (g : StrandE → StrandE)
    (hg : ∀ o, (g o).name = o.name ∧ (g o).len = o.len) : StructWF (ts.map g) e := by
  have hfind : ∀ n, findT (ts.map g) n = (findT ts n).map g := findT_map g (fun o => (hg o).1) ts
  refine ⟨fun n hn => by rw [hfind]; simpa using h.found n hn, ?_, h.bal⟩
  have : e.strands.map (fun n => ((findT (ts.map g) n).map (·.len)).getD 0) =
      e.strands.map (fun n => ((findT ts n).map (·.len)).getD 0) := by
    apply List.map_congr_left
    intro n _
    rw [hfind]
    cases findT ts n with
    | none => rfl
    | some o => simp [(hg o).2]
  rw [this]; exact h.sizes

/-- the strands a structure statement resolved, in closed form -/
theorem strands_mapM {s : St} {strands : List String} {objs : List StrandE}
    (h : strands.mapM (fun n => match s.findStrand n with
        | some o => (pure o : Except Err StrandE) | none => throw Err.undefinedStrand) = Except.ok objs) :
    (∀ n ∈ strands, (findT s.strands n).isSome = true) ∧ objs = strands.filterMap (findT s.strands) := by
  have hm := mapM_ok_inv h
  clear h
  induction strands generalizing objs with
  | nil => cases objs <;> simp_all
  | cons n r ih =>
    cases objs with
    | nil => simp at hm
    | cons o os =>
      simp only [List.map_cons, List.cons.injEq] at hm
      obtain ⟨h1, h2⟩ := hm
      obtain ⟨g1, g2⟩ := ih h2
      rw [findStrand_eq] at h1
      cases hf : findT s.strands n with
      | none => simp [hf, throw, throwThe, MonadExceptOf.throw] at h1
      | some o' =>
        simp only [hf, pure, Except.pure, Except.ok.injEq] at h1
        subst h1
        refine ⟨?_, by simp [hf, g2]⟩
        intro m hm
        simp only [List.mem_cons] at hm
        rcases hm with rfl | hm
        · simp [hf]
        · exact g1 m hm

theorem filterMap_lens {ts : List StrandE} {strands : List String}
    (h : ∀ n ∈ strands, (findT ts n).isSome = true) :
    (strands.filterMap (findT ts)).map (·.len) = strands.map (fun n => ((findT ts n).map (·.len)).getD 0) := by
  induction strands with
  | nil => rfl
  | cons n r ih =>
    have hn := h n (by simp)
    cases hf : findT ts n with
    | none => simp [hf] at hn
    | some o =>
      simp only [List.filterMap_cons, hf, List.map_cons, Option.map_some, Option.getD_some]
      rw [ih (fun m hm => h m (by simp [hm]))]

/-! ### the new state, statement by statement -/

abbrev baseEntry (name : String) (l : Nat) (c : List Char) : SeqE := ⟨name, false, false, l, c, [], [⟨name, false, l⟩], false⟩
abbrev supEntry (name : String) (b : Built) : SeqE := ⟨name, true, false, b.len, [], b.items, b.bases, false⟩
abbrev strandEntry (name : String) (dummy : Bool) (b : Built) : StrandE := ⟨name, dummy, b.len, b.items, b.bases, false⟩

theorem WF_seq_base {s : St} {a : Nat} (hw : WF s a) {name : String} (hname : okName name = true)
    (hf : findE s.seqs name = none) {l : Nat} {c : List Char} (hc : c.length = l) :
    WF { s with seqs := s.seqs ++ [baseEntry name l c] } a := by
  have hnd : ((s.seqs ++ [baseEntry name l c]).map (·.name)).Nodup :=
    nodup_snoc hw.seqs.nodup hf
  refine ⟨?_, ?_, hw.strandNames, hw.structs, hw.structNames⟩
  · apply hw.seqs.extend (Nat.le_refl a) hnd
    · intro e he
      simp only [List.mem_singleton] at he
      subst he
      exact ⟨by simp, endsOk_of_okName hname, fun _ => ⟨rfl, hc, rfl⟩, fun h => by simp at h⟩
    · intro e he i hi
      simp only [List.mem_singleton] at he
      subst he
      simp at hi
    · simp
    · intro e he k _
      simp only [List.mem_singleton] at he
      subst he
      exact okName_ne_anon hname k
  · intro t ht
    exact (hw.strands t ht).mono (Ext.append _ _)

/-- the state after a super-sequence statement -/
theorem WF_seq_sup {s : St} {a : Nat} (hw : WF s a) {name : String} (hname : okName name = true)
    (hf : findE s.seqs name = none) {items : List SrcItem} {len : Option Nat} {cs : List CItem} {b : Built} {sg : Segs}
    (R : RegionNF s a items len cs b sg) :
    registerAnon { s with seqs := s.seqs ++ [supEntry name b] } b =
      { s with seqs := s.seqs ++ [supEntry name b] ++ sgAnons sg } ∧
    WF { s with seqs := s.seqs ++ [supEntry name b] ++ sgAnons sg } b.anon := by
  have hnd0 : ((s.seqs ++ [supEntry name b]).map (·.name)).Nodup :=
    nodup_snoc hw.seqs.nodup hf
  have F := region_final hw.seqs R [supEntry name b]
    (by intro e he; simp only [List.mem_singleton] at he; subst he; exact hname) hnd0
  refine ⟨F.reg _ rfl, ?_, ?_, hw.strandNames, hw.structs, hw.structNames⟩
  · rw [List.append_assoc]
    apply hw.seqs.extend R.nf.le (by rw [← List.append_assoc]; exact F.nodup)
    · intro e he
      rw [← List.append_assoc]
      simp only [List.cons_append, List.nil_append, List.mem_cons] at he
      rcases he with rfl | he
      · exact ⟨F.lenB, endsOk_of_okName hname, fun h => by simp at h, fun _ => ⟨F.itemsOk, F.bases, F.len, rfl⟩⟩
      · exact (F.anons e he).1
    · intro e he i hi
      simp only [List.cons_append, List.nil_append, List.mem_cons] at he
      rcases he with rfl | he
      · simp only at hi ⊢
        rcases F.itemNames i hi with hm | ⟨j, _, hj⟩
        · obtain ⟨e0, he0, hn0⟩ := List.mem_map.mp hm
          rw [← hn0]
          exact findE_eq_none.mp hf e0 he0
        · rw [hj]; exact fun h => okName_ne_anon hname j h.symm
      · rw [(F.anons e he).2.2.1] at hi; simp at hi
    · simp only [List.cons_append, List.nil_append, List.pairwise_cons]
      refine ⟨fun e he hs => ?_, ?_⟩
      · rw [(F.anons e he).2.1] at hs; simp at hs
      · apply List.Pairwise.imp_of_mem (l := sgAnons sg) (R := fun _ _ => True)
        · intro e1 e2 _ h2 _ hs
          rw [(F.anons e2 h2).2.1] at hs; simp at hs
        · exact List.pairwise_of_forall (fun _ _ => trivial)
    · intro e he k hk
      simp only [List.cons_append, List.nil_append, List.mem_cons] at he
      rcases he with rfl | he
      · exact okName_ne_anon hname k
      · obtain ⟨j, _, hj2, hj3⟩ := (F.anons e he).2.2.2
        rw [hj3]
        intro h
        have := anonName_inj h
        omega
  · intro t ht
    refine (hw.strands t ht).mono ?_
    rw [List.append_assoc]
    exact Ext.append _ _

def markFn (bs : List BaseRef) (e : SeqE) : SeqE := if bs.any (·.name == e.name) then { e with inStrand := true } else e

theorem markFn_flagOnly (bs : List BaseRef) : FlagOnly (markFn bs) := by
  intro e
  unfold markFn
  split <;> simp

theorem markInStrand_eq (s : St) (bs : List BaseRef) : markInStrand s bs = { s with seqs := s.seqs.map (markFn bs) } := rfl

/-- the state after a strand statement -/
theorem WF_strand {s : St} {a : Nat} (hw : WF s a) {name : String} {dummy : Bool}
    (hf : findT s.strands name = none) {items : List SrcItem} {len : Option Nat} {cs : List CItem} {b : Built} {sg : Segs}
    (R : RegionNF s a items len cs b sg) :
    markInStrand (registerAnon { s with strands := s.strands ++ [strandEntry name dummy b] } b) b.bases =
      { s with seqs := (s.seqs ++ sgAnons sg).map (markFn b.bases),
               strands := s.strands ++ [strandEntry name dummy b] } ∧
    WF { s with seqs := (s.seqs ++ sgAnons sg).map (markFn b.bases),
                strands := s.strands ++ [strandEntry name dummy b] } b.anon := by
  have F := region_final hw.seqs R [] (by simp) (by simpa using hw.seqs.nodup)
  have hreg := F.reg { s with strands := s.strands ++ [strandEntry name dummy b] } (by simp)
  simp only [List.append_nil] at hreg
  have F' : RegionFinal s a b sg [] := F
  obtain ⟨hnd, _, hanons, hitems, hbases, hlen, _, _, _⟩ := F
  simp only [List.append_nil] at hnd hanons hitems hbases
  refine ⟨by rw [hreg, markInStrand_eq], ?_, ?_, ?_, ?_, hw.structNames⟩
  · apply WFSeqs_map (markFn_flagOnly _)
    apply hw.seqs.extend R.nf.le hnd
    · intro e he; exact (hanons e he).1
    · intro e he i hi
      rw [(hanons e he).2.2.1] at hi; simp at hi
    · apply List.Pairwise.imp_of_mem (l := sgAnons sg) (R := fun _ _ => True)
      · intro e1 e2 _ h2 _ hs
        rw [(hanons e2 h2).2.1] at hs; simp at hs
      · exact List.pairwise_of_forall (fun _ _ => trivial)
    · intro e he k hk
      obtain ⟨j, _, hj2, hj3⟩ := (hanons e he).2.2.2
      rw [hj3]
      intro h
      have := anonName_inj h
      omega
  · intro t ht
    apply StrandWF_map (markFn_flagOnly _)
    rcases List.mem_append.mp ht with ht | ht
    · exact (hw.strands t ht).mono (Ext.append _ _)
    · simp only [List.mem_singleton] at ht
      subst ht
      exact ⟨hitems, hbases, hlen⟩
  · exact nodupT_snoc hw.strandNames hf
  · intro e he
    exact (hw.structs e he).append _

theorem WF_struct {s : St} {a : Nat} (hw : WF s a) {name : String} (hf : s.findStruct name = none)
    {strands : List String} {objs : List StrandE} {full : List Char} {optv : Dec}
    (hobjs : (∀ n ∈ strands, (findT s.strands n).isSome = true) ∧ objs = strands.filterMap (findT s.strands))
    (hsz : Notation.sizesOk full (objs.map (·.len)) = true) (hbal : Notation.balanced full = true) :
    WF { s with strands := s.strands.map (fun (o : StrandE) => if strands.contains o.name then { o with inStructure := true } else o),
                structs := s.structs ++ [⟨name, optv, strands, full, objs.flatMap (·.bases)⟩] } a := by
  have hg : ∀ o : StrandE, ((fun (o : StrandE) => if strands.contains o.name then { o with inStructure := true } else o) o).name = o.name ∧
      ((fun (o : StrandE) => if strands.contains o.name then { o with inStructure := true } else o) o).len = o.len := by
    intro o; simp only; split <;> simp
  refine ⟨hw.seqs, ?_, ?_, ?_, ?_⟩
  · intro t ht
    obtain ⟨t0, ht0, rfl⟩ := List.mem_map.mp ht
    have := hw.strands t0 ht0
    simp only
    split
    · exact ⟨this.items, this.bases, this.len⟩
    · exact this
  · simp only [List.map_map]
    have : ((fun x : StrandE => x.name) ∘ fun (o : StrandE) => if strands.contains o.name then { o with inStructure := true } else o) =
        (fun x => x.name) := by funext o; exact (hg o).1
    rw [this]; exact hw.strandNames
  · intro e he
    rcases List.mem_append.mp he with he | he
    · exact (hw.structs e he).map _ hg
    · simp only [List.mem_singleton] at he
      subst he
      apply StructWF.map _ _ hg
      refine ⟨hobjs.1, ?_, hbal⟩
      simp only
      rw [← filterMap_lens hobjs.1, ← hobjs.2]
      exact hsz
  · rw [List.map_append, List.nodup_append]
    refine ⟨hw.structNames, by simp, ?_⟩
    intro n1 h1 n2 h2
    simp only [List.map_cons, List.map_nil, List.mem_singleton] at h2
    subst h2
    obtain ⟨e1, he1, rfl⟩ := List.mem_map.mp h1
    simp only [St.findStruct, List.find?_eq_none, beq_iff_eq] at hf
    exact hf e1 he1

/-! ### preservation -/

theorem addStmt_WF {s : St} {a : Nat} {stmt : Stmt} {s' : St} {a' : Nat} (hw : WF s a)
    (hok : stmtNamesOk stmt = true) (h : addStmt s a stmt = .ok (s', a')) : WF s' a' ∧ a ≤ a' := by
  cases stmt with
  | seq name items len =>
    simp only [stmtNamesOk, Bool.and_eq_true] at hok
    by_cases hb : ∃ text, items = [.nuc text]
    · obtain ⟨text, rfl⟩ := hb
      obtain ⟨hf, l, c, hr, rfl, rfl⟩ := addStmt_seq_base h
      exact ⟨WF_seq_base hw hok.1 hf (resolve_length hr), Nat.le_refl _⟩
    · obtain ⟨hf, cs, b, hc, hbd, rfl, rfl⟩ := addStmt_seq_sup (fun t ht => hb ⟨t, ht⟩) h
      obtain ⟨sg, R⟩ := region_nf hw.seqs.entries hc hbd
      obtain ⟨h1, h2⟩ := WF_seq_sup hw hok.1 hf R
      rw [h1]
      exact ⟨h2, R.nf.le⟩
  | strand dummy name items len =>
    obtain ⟨hf, cs, b, hc, hbd, _, rfl, rfl⟩ := addStmt_strand h
    obtain ⟨sg, R⟩ := region_nf hw.seqs.entries hc hbd
    obtain ⟨h1, h2⟩ := WF_strand (dummy := dummy) hw hf R
    rw [h1]
    exact ⟨h2, R.nf.le⟩
  | struct opt name strands domain text =>
    obtain ⟨hf, objs, dp, full, optv, hobjs, hdp, hfull, hsz, _, rfl, rfl⟩ := addStmt_struct h
    refine ⟨WF_struct hw hf (strands_mapM hobjs) hsz ?_, Nat.le_refl _⟩
    cases domain with
    | false => simp only [Bool.false_eq_true, if_false] at hfull; subst hfull; exact Notation.compileStruct_balanced hdp
    | true => simp only [if_true] at hfull; exact (Notation.domainExpand_sound hfull).1
  | kinetic low high ins outs =>
    obtain ⟨_, lo, hi, _, _, rfl, rfl⟩ := addStmt_kinetic h
    exact ⟨⟨hw.seqs, hw.strands, hw.strandNames, hw.structs, hw.structNames⟩, Nat.le_refl _⟩

end Pepper.Comp
