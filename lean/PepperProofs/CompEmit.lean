import PepperProofs.CompStep
import PepperModel.Emit
/-!
# Reading the emitted PIL back (C01, part E)

For a well-formed component state the statement list `Emit.compStmts` loads (`Pil.load`) and the loaded
specification denotes the design read off the tables (`designOf`).
-/
set_option linter.unusedSimpArgs false
namespace Pepper.Comp
open Pepper.Constraint

/-! ### item names -/

theorem resolveItem_fullName (spec : Pil.Spec) (p n : String) (rev : Bool) (h : endsOk n = true) :
    Pil.resolveItem spec (fullName p n rev) =
      match spec.findSeq (p ++ n) with
      | some o => .ok (⟨p ++ n, rev⟩, o)
      | none => .error .undefinedSeq := by
  unfold Pil.resolveItem
  simp only []
  cases rev with
  | true =>
    have : (fullName p n true).toList.reverse = '*' :: (p ++ n).toList.reverse := by
      simp only [fullName, if_true, String.toList_append, List.reverse_append]
      rfl
    rw [this]
    simp only [List.reverse_reverse, String.ofList_toList]
    rfl
  | false =>
    have hfn : fullName p n false = p ++ n := by simp [fullName]
    rw [hfn]
    unfold endsOk at h
    have : ∃ c r, (p ++ n).toList.reverse = c :: r ∧ c ≠ '*' := by
      rw [String.toList_append, List.reverse_append]
      cases hr : n.toList.reverse with
      | nil => simp [hr] at h
      | cons c r => exact ⟨c, _, rfl, by simpa [hr] using h⟩
    obtain ⟨c, r, hcr, hc⟩ := this
    rw [hcr, Pil.resolveItem.match_1.eq_2]
    · rfl
    · intro r' heq
      simp only [List.cons.injEq] at heq
      exact hc heq.1

/-! ### the PIL objects of the table entries -/

def ti (p : String) (i : ItemRef) : Pil.ItemRef := ⟨p ++ i.name, i.rev⟩

def pilObj (p : String) (e : SeqE) : Pil.SeqObj :=
  ⟨p ++ e.name, e.isSup, e.len, e.const, (e.items.filter (!·.dummy)).map (ti p),
   (e.bases.filter (·.len != 0)).map (tb p)⟩

def pilStrand (p : String) (t : StrandE) : Pil.StrandObj :=
  ⟨p ++ t.name, t.dummy, t.len, (t.items.filter (!·.dummy)).map (ti p), (t.bases.filter (·.len != 0)).map (tb p)⟩

theorem pfx_beq (p a b : String) : (p ++ a == p ++ b) = (a == b) := by
  rw [Bool.eq_iff_iff]; simp

theorem find_pilObj (p : String) (avail : List SeqE) (n : String) :
    (avail.map (pilObj p)).find? (·.name == p ++ n) = (findE avail n).map (pilObj p) := by
  induction avail with
  | nil => rfl
  | cons e r ih =>
    simp only [List.map_cons, List.find?_cons, findE, pilObj, pfx_beq] at ih ⊢
    split
    · rfl
    · exact ih

theorem findSeq_pil (p : String) (avail : List SeqE) (spec : Pil.Spec) (hs : spec.seqs = avail.map (pilObj p))
    (n : String) : spec.findSeq (p ++ n) = (findE avail n).map (pilObj p) := by
  unfold Pil.Spec.findSeq
  rw [hs, find_pilObj]

theorem find_pilStrand (p : String) (ts : List StrandE) (n : String) :
    (ts.map (pilStrand p)).find? (·.name == p ++ n) = (findT ts n).map (pilStrand p) := by
  induction ts with
  | nil => rfl
  | cons e r ih =>
    simp only [List.map_cons, List.find?_cons, findT, pilStrand, pfx_beq] at ih ⊢
    split
    · rfl
    · exact ih

theorem findStrand_pil (p : String) (ts : List StrandE) (spec : Pil.Spec) (hs : spec.strands = ts.map (pilStrand p))
    (n : String) : spec.findStrand (p ++ n) = (findT ts n).map (pilStrand p) := by
  unfold Pil.Spec.findStrand
  rw [hs, find_pilStrand]

theorem resolveItems_ok (p : String) (avail : List SeqE) (spec : Pil.Spec) (hs : spec.seqs = avail.map (pilObj p))
    (g : ItemRef → SeqE) (its : List ItemRef)
    (h : ∀ i ∈ its, endsOk i.name = true ∧ findE avail i.name = some (g i)) :
    Pil.resolveItems spec (its.map (Emit.itemRaw p)) = .ok (its.map (fun i => (ti p i, pilObj p (g i)))) := by
  induction its with
  | nil => rfl
  | cons i r ih =>
    obtain ⟨h1, h2⟩ := h i (by simp)
    simp only [List.map_cons, Pil.resolveItems, Emit.itemRaw, resolveItem_fullName spec p i.name i.rev h1,
      findSeq_pil p avail spec hs, h2, Option.map_some]
    rw [ih (fun j hj => h j (by simp [hj]))]
    rfl

theorem pil_basesOfView (p : String) (e : SeqE) (r : Bool) :
    Pil.basesOfView (pilObj p e) r = ((basesOfView e r).filter (·.len != 0)).map (tb p) := by
  cases r with
  | false => simp [Pil.basesOfView, basesOfView, pilObj]
  | true =>
    simp only [Pil.basesOfView, basesOfView, pilObj, if_true]
    rw [← List.map_reverse, ← List.filter_reverse, List.map_map, List.filter_map, List.map_map]
    congr 1

theorem filter_nz_of_sum_zero {bs : List BaseRef} (h : (bs.map (·.len)).sum = 0) : bs.filter (·.len != 0) = [] := by
  induction bs with
  | nil => rfl
  | cons b r ih =>
    simp only [List.map_cons, List.sum_cons] at h
    have h1 : b.len = 0 := by omega
    have h2 : (r.map (·.len)).sum = 0 := by omega
    simp [List.filter_cons, h1, ih h2]

theorem sum_filter_nondummy (its : List ItemRef) :
    ((its.filter (!·.dummy)).map (·.len)).sum = (its.map (·.len)).sum := by
  induction its with
  | nil => rfl
  | cons i r ih =>
    by_cases h : i.len = 0
    · have hd : i.dummy = true := by simp [ItemRef.dummy, h]
      simp only [List.filter_cons, hd, Bool.not_true, Bool.false_eq_true, if_false, List.map_cons, List.sum_cons, h, ih]
      omega
    · have hd : i.dummy = false := by simp [ItemRef.dummy, h]
      simp only [List.filter_cons, hd, Bool.not_false, if_true, List.map_cons, List.sum_cons, ih]

/-- the entry an item refers to (a default when undefined) -/
def getE (l : List SeqE) (n : String) : SeqE := (findE l n).getD ⟨"", false, false, 0, [], [], [], false⟩

theorem viewBases_getE {l : List SeqE} {i : ItemRef} (h : ItemOk l i) :
    viewBases l i = basesOfView (getE l i.name) i.rev := by
  obtain ⟨ie, h1, _⟩ := h
  simp [viewBases, getE, h1]

/-- resolving the non-dummy items of a region against the PIL objects of `avail` -/
theorem resolve_region (p : String) (l avail : List SeqE) (spec : Pil.Spec) (hs : spec.seqs = avail.map (pilObj p))
    (hent : ∀ e ∈ l, EntryWF l e) (its : List ItemRef) (hok : ∀ i ∈ its, ItemOk l i)
    (hav : ∀ i ∈ its, i.len ≠ 0 → findE avail i.name = findE l i.name) :
    ∃ R, Pil.resolveItems spec ((its.filter (!·.dummy)).map (Emit.itemRaw p)) = .ok R ∧
      R.map (·.1) = (its.filter (!·.dummy)).map (ti p) ∧
      R.flatMap (fun x => Pil.basesOfView x.2 x.1.rev) = ((its.flatMap (viewBases l)).filter (·.len != 0)).map (tb p) ∧
      (R.map (fun x => x.2.len)).sum = (its.map (·.len)).sum := by
  have hres := resolveItems_ok p avail spec hs (fun i => getE l i.name) (its.filter (!·.dummy)) (by
    intro i hi
    simp only [List.mem_filter, ItemRef.dummy, Bool.not_eq_true', beq_eq_false_iff_ne, ne_eq] at hi
    obtain ⟨ie, h1, h2⟩ := hok i hi.1
    refine ⟨?_, ?_⟩
    · have := (hent ie (findE_some h1).1).nameOk
      rwa [(findE_some h1).2] at this
    · rw [hav i hi.1 hi.2, getE, h1]; rfl)
  refine ⟨_, hres, ?_, ?_, ?_⟩
  · simp [List.map_map, Function.comp_def]
  · simp only [List.flatMap_map, ti, pil_basesOfView]
    rw [List.filter_flatMap, List.map_flatMap]
    clear hres hav
    induction its with
    | nil => rfl
    | cons i r ih =>
      have hi := hok i (by simp)
      have ih' := ih (fun j hj => hok j (by simp [hj]))
      by_cases hz : i.len = 0
      · have : (viewBases l i).filter (·.len != 0) = [] := by
          apply filter_nz_of_sum_zero
          obtain ⟨ie, h1, h2⟩ := hi
          simp only [viewBases, h1]
          rw [view_lens (hent ie (findE_some h1).1), ← h2, hz]
        have hd : i.dummy = true := by simp [ItemRef.dummy, hz]
        simp only [List.filter_cons, hd, Bool.not_true, Bool.false_eq_true, if_false, List.flatMap_cons, this,
          List.map_nil, List.nil_append, ih']
      · have hd : i.dummy = false := by simp [ItemRef.dummy, hz]
        simp only [List.filter_cons, hd, Bool.not_false, if_true, List.flatMap_cons, ih', viewBases_getE hi]
  · simp only [List.map_map, Function.comp_def, pilObj]
    rw [← sum_filter_nondummy]
    congr 1
    apply List.map_congr_left
    intro i hi
    simp only [List.mem_filter] at hi
    obtain ⟨ie, h1, h2⟩ := hok i hi.1
    simp [getE, h1, h2]

/-! ### loading, phase by phase -/

theorem load_append (tbl : CodeTable) (a b : List Pil.Stmt) (spec spec1 : Pil.Spec)
    (h : Pil.load tbl a spec = .ok spec1) : Pil.load tbl (a ++ b) spec = Pil.load tbl b spec1 := by
  induction a generalizing spec with
  | nil => simp [Pil.load] at h; subst h; rfl
  | cons x r ih =>
    simp only [List.cons_append, Pil.load] at h ⊢
    cases hx : spec.add tbl x with
    | error e => simp [hx] at h
    | ok s2 => simp only [hx] at h ⊢; exact ih s2 h

structure BaseOk (tbl : CodeTable) (e : SeqE) : Prop where
  notSup : e.isSup = false
  items : e.items = []
  bases : e.bases = [⟨e.name, false, e.len⟩]
  const : e.const.length = e.len
  nz : e.len ≠ 0
  codes : e.const.all tbl.isCode = true

theorem pilObj_base {tbl : CodeTable} {e : SeqE} (h : BaseOk tbl e) (p : String) :
    pilObj p e = ⟨p ++ e.name, false, e.const.length, e.const, [], [⟨p ++ e.name, false, e.const.length⟩]⟩ := by
  have hnz := h.nz
  simp [pilObj, h.notSup, h.items, h.bases, h.const, tb, hnz]

theorem not_mem_names_findE {l : List SeqE} {n : String} (h : n ∉ l.map (·.name)) : findE l n = none := by
  rw [findE_eq_none]
  intro e he hn
  exact h (List.mem_map.mpr ⟨e, he, hn⟩)

theorem nodup_append_head {done : List SeqE} {e : SeqE} {r : List SeqE}
    (h : ((done ++ e :: r).map (·.name)).Nodup) : e.name ∉ done.map (·.name) := by
  simp only [List.map_append, List.map_cons, List.nodup_append, List.mem_cons, List.mem_map] at h
  intro hm
  obtain ⟨e0, h0, hn⟩ := List.mem_map.mp hm
  exact h.2.2 _ ⟨e0, h0, rfl⟩ _ (Or.inl rfl) hn

theorem load_bases (tbl : CodeTable) (p : String) : ∀ (bs done : List SeqE) (spec : Pil.Spec),
    spec.seqs = done.map (pilObj p) → ((done ++ bs).map (·.name)).Nodup → (∀ e ∈ bs, BaseOk tbl e) →
    Pil.load tbl (bs.map (fun e => Pil.Stmt.seq (p ++ e.name) e.const)) spec =
      .ok { spec with seqs := (done ++ bs).map (pilObj p) } := by
  intro bs
  induction bs with
  | nil => intro done spec hs _ _; simp [Pil.load, ← hs]
  | cons e r ih =>
    intro done spec hs hnd hb
    have hfind : spec.findSeq (p ++ e.name) = none := by
      rw [findSeq_pil p done spec hs, not_mem_names_findE (nodup_append_head hnd)]; rfl
    have hcodes := (hb e (by simp)).codes
    simp only [List.map_cons, Pil.load, Pil.Spec.add, hfind, Option.isSome_none, Bool.false_eq_true, if_false, hcodes,
      Bool.not_true]
    rw [ih (done ++ [e]) _ (by simp [hs, pilObj_base (hb e (by simp))]) (by simpa using hnd)
      (fun x hx => hb x (by simp [hx]))]
    simp

/-- the items of the later entries resolve among the earlier ones -/
def SupsOk (l : List SeqE) : List SeqE → List SeqE → Prop
  | _, [] => True
  | avail, e :: r => (∀ i ∈ e.items, i.len ≠ 0 → findE avail i.name = findE l i.name) ∧ SupsOk l (avail ++ [e]) r

theorem load_sups (tbl : CodeTable) (p : String) (l : List SeqE) (hent : ∀ e ∈ l, EntryWF l e) :
    ∀ (todo avail : List SeqE) (spec : Pil.Spec),
    spec.seqs = avail.map (pilObj p) → ((avail ++ todo).map (·.name)).Nodup →
    (∀ e ∈ todo, e ∈ l ∧ e.isSup = true) → SupsOk l avail todo →
    Pil.load tbl (todo.map (fun e => Pil.Stmt.sup (p ++ e.name) ((e.items.filter (!·.dummy)).map (Emit.itemRaw p)))) spec =
      .ok { spec with seqs := (avail ++ todo).map (pilObj p) } := by
  intro todo
  induction todo with
  | nil => intro avail spec hs _ _ _; simp [Pil.load, ← hs]
  | cons e r ih =>
    intro avail spec hs hnd hmem hok
    have hfind : spec.findSeq (p ++ e.name) = none := by
      rw [findSeq_pil p avail spec hs, not_mem_names_findE (nodup_append_head hnd)]; rfl
    obtain ⟨hel, hsup⟩ := hmem e (by simp)
    obtain ⟨h1, h2, h3, h4⟩ := (hent e hel).sup hsup
    obtain ⟨R, hR, hR1, hR2, hR3⟩ := resolve_region p l avail spec hs hent e.items h1 hok.1
    simp only [List.map_cons, Pil.load, Pil.Spec.add, hfind, Option.isSome_none, Bool.false_eq_true, if_false, hR,
      bind, Except.bind, pure, Except.pure]
    rw [ih (avail ++ [e]) _ ?_ (by simpa using hnd) (fun x hx => hmem x (by simp [hx])) hok.2]
    · simp
    · simp only [List.map_append, List.map_cons, List.map_nil, hs]
      congr 2
      simp only [pilObj, hsup, h4, hR1, Pil.SeqObj.mk.injEq, true_and]
      refine ⟨?_, ?_⟩
      · rw [h3]; exact hR3
      · rw [h2]; exact hR2

theorem nodupT_append_head {done : List StrandE} {e : StrandE} {r : List StrandE}
    (h : ((done ++ e :: r).map (·.name)).Nodup) : findT done e.name = none := by
  simp only [List.map_append, List.map_cons, List.nodup_append, List.mem_cons, List.mem_map] at h
  rw [findT_eq_none]
  intro e0 h0 hn
  exact h.2.2 _ ⟨e0, h0, rfl⟩ _ (Or.inl rfl) hn

theorem load_strands (tbl : CodeTable) (p : String) (l avail : List SeqE) (hent : ∀ e ∈ l, EntryWF l e) :
    ∀ (ts done : List StrandE) (spec : Pil.Spec),
    spec.seqs = avail.map (pilObj p) → spec.strands = done.map (pilStrand p) → ((done ++ ts).map (·.name)).Nodup →
    (∀ t ∈ ts, StrandWF l t ∧ ∀ i ∈ t.items, i.len ≠ 0 → findE avail i.name = findE l i.name) →
    Pil.load tbl (ts.map (fun e => Pil.Stmt.strand (p ++ e.name) e.dummy ((e.items.filter (!·.dummy)).map (Emit.itemRaw p)))) spec =
      .ok { spec with strands := (done ++ ts).map (pilStrand p) } := by
  intro ts
  induction ts with
  | nil => intro done spec _ hs _ _; simp [Pil.load, ← hs]
  | cons t r ih =>
    intro done spec hs hst hnd hok
    have hfind : spec.findStrand (p ++ t.name) = none := by
      rw [findStrand_pil p done spec hst, nodupT_append_head hnd]; rfl
    obtain ⟨hw, hav⟩ := hok t (by simp)
    obtain ⟨R, hR, hR1, hR2, hR3⟩ := resolve_region p l avail spec hs hent t.items hw.items hav
    simp only [List.map_cons, Pil.load, Pil.Spec.add, hfind, Option.isSome_none, Bool.false_eq_true, if_false, hR,
      bind, Except.bind, pure, Except.pure]
    rw [ih (done ++ [t]) _ ?_ ?_ (by simpa using hnd) (fun x hx => hok x (by simp [hx]))]
    · simp
    · exact hs
    · simp only [List.map_append, List.map_cons, List.map_nil, hst]
      congr 2
      simp only [pilStrand, hR1, Pil.StrandObj.mk.injEq, true_and]
      refine ⟨?_, ?_⟩
      · rw [hw.len]; exact hR3
      · rw [hw.bases]; exact hR2

/-! ### structures -/

theorem getBondsAux_ok : ∀ (s : List Char) (pos : Nat) (stk : List Nat) (acc : List (Nat × Nat)),
    Notation.balancedAux s stk.length = true → ∃ r, Pil.getBondsAux s pos stk acc = .ok r := by
  intro s
  induction s with
  | nil => intro pos stk acc _; exact ⟨_, rfl⟩
  | cons c r ih =>
    intro pos stk acc h
    by_cases h1 : c = '('
    · subst h1
      simp only [Notation.balancedAux] at h
      simp only [Pil.getBondsAux]
      exact ih _ (pos :: stk) _ (by simpa using h)
    · by_cases h2 : c = ')'
      · subst h2
        simp only [Notation.balancedAux, Bool.and_eq_true, bne_iff_ne, ne_eq] at h
        cases stk with
        | nil => simp at h
        | cons o stk' =>
          simp only [Pil.getBondsAux]
          exact ih _ stk' _ (by simpa using h.2)
      · by_cases h3 : c = '.'
        · subst h3
          simp only [Notation.balancedAux] at h
          simp only [Pil.getBondsAux]
          exact ih _ stk _ (by simpa using h)
        · by_cases h4 : c = '+'
          · subst h4
            simp only [Notation.balancedAux] at h
            simp only [Pil.getBondsAux]
            exact ih _ stk _ (by simpa using h)
          · exfalso
            rw [Notation.balancedAux.eq_4] at h
            · simp [h3, h4] at h
            · intro hr; exact h1 hr
            · intro hr; exact h2 hr

theorem splitPlus_eq (s : List Char) : Pil.splitPlus s = Notation.splitOn '+' s := by
  induction s with
  | nil => rfl
  | cons c r ih => simp only [Pil.splitPlus, Notation.splitOn, ih]; rfl

def dfltT : StrandE := ⟨"", false, 0, [], [], false⟩

def pilStruct (p : String) (ts : List StrandE) (e : StructE) : Pil.StructObj :=
  ⟨p ++ e.name, some (String.ofList e.opt.fmtG ++ "nt"), e.strands.map (p ++ ·), e.struct,
   (e.strands.map (fun n => ((findT ts n).map (·.len)).getD 0)).sum,
   (match Pil.getBonds e.struct with | .ok b => b | .error _ => [])⟩

theorem mapM_map_ok {α β γ ε} {f : β → Except ε γ} {h : α → β} {g : α → γ} {l : List α}
    (hh : ∀ a ∈ l, f (h a) = .ok (g a)) : (l.map h).mapM f = .ok (l.map g) := by
  induction l with
  | nil => rfl
  | cons x r ih =>
    rw [List.map_cons, List.mapM_cons, hh x (by simp), ih (fun a ha => hh a (by simp [ha]))]
    rfl

theorem zip_all_swap : ∀ (subs : List (List Char)) (objs : List Pil.StrandObj),
    (List.zip subs (objs.map (·.len))).all (fun x => x.1.length == x.2) = true →
    (List.zip objs subs).all (fun x => x.1.len == x.2.length) = true := by
  intro subs
  induction subs with
  | nil => intro objs _; cases objs <;> simp
  | cons a r ih =>
    intro objs h
    cases objs with
    | nil => simp
    | cons o os =>
      simp only [List.map_cons, List.zip_cons_cons, List.all_cons, Bool.and_eq_true, beq_iff_eq] at h ⊢
      exact ⟨h.1.symm, ih os h.2⟩

theorem find_pilStruct_none (p : String) (ts : List StrandE) (done : List StructE) (n : String)
    (h : n ∉ done.map (·.name)) : (done.map (pilStruct p ts)).find? (·.name == p ++ n) = none := by
  rw [List.find?_eq_none]
  intro o ho
  obtain ⟨e, he, rfl⟩ := List.mem_map.mp ho
  simp only [pilStruct, pfx_beq, beq_iff_eq]
  intro hn
  exact h (List.mem_map.mpr ⟨e, he, hn⟩)

theorem load_structs (tbl : CodeTable) (p : String) (ts : List StrandE) :
    ∀ (es done : List StructE) (spec : Pil.Spec),
    spec.strands = ts.map (pilStrand p) → spec.structs = done.map (pilStruct p ts) →
    ((done ++ es).map (·.name)).Nodup → (∀ e ∈ es, StructWF ts e) →
    Pil.load tbl (es.map (fun e => Pil.Stmt.struct (p ++ e.name) (some (String.ofList e.opt.fmtG ++ "nt"))
        (e.strands.map (p ++ ·)) e.struct)) spec =
      .ok { spec with structs := (done ++ es).map (pilStruct p ts) } := by
  intro es
  induction es with
  | nil => intro done spec _ hs _ _; simp [Pil.load, ← hs]
  | cons e r ih =>
    intro done spec hst hs hnd hok
    have hw := hok e (by simp)
    have hname : e.name ∉ done.map (·.name) := by
      simp only [List.map_append, List.map_cons, List.nodup_append, List.mem_cons, List.mem_map] at hnd
      intro hm
      obtain ⟨e0, h0, hn⟩ := List.mem_map.mp hm
      exact hnd.2.2 _ ⟨e0, h0, rfl⟩ _ (Or.inl rfl) hn
    have hfind : spec.structs.find? (·.name == p ++ e.name) = none := by
      rw [hs]; exact find_pilStruct_none p ts done e.name hname
    have hobjs : (e.strands.map (p ++ ·)).mapM (fun n => match spec.findStrand n with
        | some o => (Except.ok o : Except Pil.Err Pil.StrandObj) | none => throw Pil.Err.undefinedStrand) =
        .ok (e.strands.map (fun n => pilStrand p ((findT ts n).getD dfltT))) := by
      apply mapM_map_ok
      intro n hn
      have := hw.found n hn
      rw [findStrand_pil p ts spec hst]
      cases hf : findT ts n with
      | none => simp [hf] at this
      | some t => rfl
    have hlens : (e.strands.map (fun n => pilStrand p ((findT ts n).getD dfltT))).map (·.len) =
        e.strands.map (fun n => ((findT ts n).map (·.len)).getD 0) := by
      rw [List.map_map]
      apply List.map_congr_left
      intro n hn
      have := hw.found n hn
      cases hf : findT ts n with
      | none => simp [hf] at this
      | some t => simp [hf, pilStrand]
    have hchars : e.struct.all (fun c => c == '.' || c == '(' || c == ')' || c == '+') = true := by
      rw [List.all_eq_true]
      intro c hc
      exact Notation.isDPSym_of_balancedAux e.struct 0 hw.bal c hc
    obtain ⟨bonds, hbonds⟩ := getBondsAux_ok e.struct 0 [] [] hw.bal
    have hsz := hw.sizes
    simp only [Notation.sizesOk, Bool.and_eq_true, beq_iff_eq] at hsz
    have hcount : (Pil.splitPlus e.struct).length = (e.strands.map (fun n => pilStrand p ((findT ts n).getD dfltT))).length := by
      rw [splitPlus_eq, hsz.1]; simp
    have hzip : (List.zip (e.strands.map (fun n => pilStrand p ((findT ts n).getD dfltT))) (Pil.splitPlus e.struct)).all
        (fun x => x.1.len == x.2.length) = true := by
      apply zip_all_swap
      rw [hlens, splitPlus_eq]
      exact hsz.2
    simp only [List.map_cons, Pil.load, Pil.Spec.add, hfind, Option.isSome_none, Bool.false_eq_true, if_false,
      bind, Except.bind]
    generalize hm : List.mapM (m := Except Pil.Err) (β := Pil.StrandObj) _ (List.map (fun x => p ++ x) e.strands) = m
    have hm' : m = .ok (e.strands.map (fun n => pilStrand p ((findT ts n).getD dfltT))) := by
      rw [← hm]; exact hobjs
    subst hm'
    simp only [hchars, Bool.not_true, Pil.getBonds, hbonds, hcount, bne_self_eq_false, hzip, pure, Except.pure,
      Bool.false_eq_true, if_false]
    rw [ih (done ++ [e]) _ ?_ ?_ (by simpa using hnd) (fun x hx => hok x (by simp [hx]))]
    · simp
    · exact hst
    · simp only [List.map_append, List.map_cons, List.map_nil, hs]
      congr 2
      simp only [pilStruct, Pil.getBonds, hbonds, hlens]
/-! ### the whole component -/

def optOfDec (d : Dec) : Opt := Pil.optOfParams (some (String.ofList d.fmtG ++ "nt"))

/-- the design read off the component tables -/
def designOf (s : St) : Design :=
  { domains := (s.baseSeqs.filter (·.len != 0)).map (fun e => (s.pfx ++ e.name, e.const))
    seqs := ((s.baseSeqs.filter (·.len != 0)) ++ (s.supSeqs.filter (·.len != 0))).map
      (fun e => (s.pfx ++ e.name, cnucs s.pfx e.bases))
    strands := s.strands.map (fun t => (s.pfx ++ t.name, t.dummy, cnucs s.pfx t.bases))
    structs := s.structs.map (fun e => ⟨s.pfx ++ e.name, e.strands.map (s.pfx ++ ·), e.struct, optOfDec e.opt⟩)
    kinetics := []
    equals := [] }

theorem nodup_names_filter {l : List SeqE} (h : (l.map (·.name)).Nodup) (q : SeqE → Bool) :
    ((l.filter q).map (·.name)).Nodup :=
  List.Nodup.sublist (List.Sublist.map _ List.filter_sublist) h

theorem supsOk_of_wf {a : Nat} {l : List SeqE} (hw : WFSeqs a l) (Bf Sf : List SeqE)
    (hB : ∀ e, e ∈ Bf ↔ e ∈ l ∧ e.isSup = false ∧ e.len ≠ 0)
    (hS : ∀ e, e ∈ Sf ↔ e ∈ l ∧ e.isSup = true ∧ e.len ≠ 0)
    (hSp : Sf.Pairwise NoFwd) (hnd : ((Bf ++ Sf).map (·.name)).Nodup) :
    ∀ todo done, Sf = done ++ todo → SupsOk l (Bf ++ done) todo := by
  intro todo
  induction todo with
  | nil => intro _ _; trivial
  | cons e r ih =>
    intro done hsplit
    refine ⟨?_, ?_⟩
    · intro i hi hz
      have heS : e ∈ Sf := by rw [hsplit]; simp
      obtain ⟨hel, hes, _⟩ := (hS e).mp heS
      obtain ⟨ie, h1, h2⟩ := ((hw.entries e hel).sup hes).1 i hi
      obtain ⟨hiel, hien⟩ := findE_some h1
      have hmem : ie ∈ Bf ++ done := by
        cases hsup : ie.isSup with
        | false => exact List.mem_append_left _ ((hB ie).mpr ⟨hiel, hsup, by rw [← h2]; exact hz⟩)
        | true =>
          have : ie ∈ Sf := (hS ie).mpr ⟨hiel, hsup, by rw [← h2]; exact hz⟩
          rw [hsplit] at this
          rcases List.mem_append.mp this with hd | hd
          · exact List.mem_append_right _ hd
          · exfalso
            rcases List.mem_cons.mp hd with rfl | hr
            · exact hw.irrefl ie hel i hi hien.symm
            · rw [hsplit, List.pairwise_append] at hSp
              have := (List.pairwise_cons.mp hSp.2.1).1 ie hr hsup i hi
              exact this hien.symm
      have hnd' : ((Bf ++ done).map (·.name)).Nodup := by
        rw [hsplit, ← List.append_assoc] at hnd
        exact List.Nodup.sublist (List.Sublist.map _ (List.sublist_append_left _ _)) hnd
      rw [h1, ← hien]
      exact findE_of_mem hnd' hmem
    · rw [List.append_assoc]
      exact ih (done ++ [e]) (by simp [hsplit])

theorem mem_baseF (s : St) (e : SeqE) :
    e ∈ s.baseSeqs.filter (·.len != 0) ↔ e ∈ s.seqs ∧ e.isSup = false ∧ e.len ≠ 0 := by
  simp only [St.baseSeqs, List.mem_filter, Bool.not_eq_true', bne_iff_ne, ne_eq]
  constructor
  · rintro ⟨⟨h1, h2⟩, h3⟩; exact ⟨h1, h2, h3⟩
  · rintro ⟨h1, h2, h3⟩; exact ⟨⟨h1, h2⟩, h3⟩

theorem mem_supF (s : St) (e : SeqE) :
    e ∈ s.supSeqs.filter (·.len != 0) ↔ e ∈ s.seqs ∧ e.isSup = true ∧ e.len ≠ 0 := by
  simp only [St.supSeqs, List.mem_filter, bne_iff_ne, ne_eq]
  constructor
  · rintro ⟨⟨h1, h2⟩, h3⟩; exact ⟨h1, h2, h3⟩
  · rintro ⟨h1, h2, h3⟩; exact ⟨⟨h1, h2⟩, h3⟩

theorem emit_sound (tbl : CodeTable) {s : St} {a : Nat} (hw : WF s a)
    (hcodes : ∀ e ∈ s.seqs, e.const.all tbl.isCode = true) :
    ∃ spec, Pil.load tbl (Emit.compStmts s) {} = .ok spec ∧ Pil.denote spec = designOf s := by
  have hB := mem_baseF s
  have hS := mem_supF s
  have hndB : ((s.baseSeqs.filter (·.len != 0)).map (·.name)).Nodup :=
    nodup_names_filter (nodup_names_filter hw.seqs.nodup _) _
  have hndS : ((s.supSeqs.filter (·.len != 0)).map (·.name)).Nodup :=
    nodup_names_filter (nodup_names_filter hw.seqs.nodup _) _
  have hnd : ((s.baseSeqs.filter (·.len != 0) ++ s.supSeqs.filter (·.len != 0)).map (·.name)).Nodup := by
    rw [List.map_append, List.nodup_append]
    refine ⟨hndB, hndS, ?_⟩
    intro n1 h1 n2 h2 hn
    obtain ⟨e1, he1, rfl⟩ := List.mem_map.mp h1
    obtain ⟨e2, he2, rfl⟩ := List.mem_map.mp h2
    have h1' := (hB e1).mp he1
    have h2' := (hS e2).mp he2
    have := nodup_name_eq hw.seqs.nodup h1'.1 h2'.1 hn
    subst this
    rw [h1'.2.1] at h2'
    simp at h2'
  have hSp : (s.supSeqs.filter (·.len != 0)).Pairwise NoFwd :=
    List.Pairwise.sublist (List.Sublist.trans List.filter_sublist List.filter_sublist) hw.seqs.order
  -- phase 1
  have h1 := load_bases tbl s.pfx (s.baseSeqs.filter (·.len != 0)) [] {} rfl (by simpa using hndB) (by
    intro e he
    obtain ⟨hel, hb, hz⟩ := (hB e).mp he
    obtain ⟨b1, b2, b3⟩ := (hw.seqs.entries e hel).base hb
    exact ⟨hb, b3, b1, b2, hz, hcodes e hel⟩)
  simp only [List.nil_append] at h1
  -- phase 2
  have h2 := load_sups tbl s.pfx s.seqs hw.seqs.entries (s.supSeqs.filter (·.len != 0))
    (s.baseSeqs.filter (·.len != 0)) { seqs := (s.baseSeqs.filter (·.len != 0)).map (pilObj s.pfx) } rfl hnd
    (fun e he => ⟨((hS e).mp he).1, ((hS e).mp he).2.1⟩)
    (by simpa using supsOk_of_wf hw.seqs _ _ hB hS hSp hnd _ [] (by simp))
  simp only [] at h2
  have havail : ∀ i, ItemOk s.seqs i → i.len ≠ 0 →
      findE (s.baseSeqs.filter (·.len != 0) ++ s.supSeqs.filter (·.len != 0)) i.name = findE s.seqs i.name := by
    intro i hi hz
    obtain ⟨ie, g1, g2⟩ := hi
    obtain ⟨hiel, hien⟩ := findE_some g1
    rw [g1, ← hien]
    apply findE_of_mem hnd
    cases hsup : ie.isSup with
    | false => exact List.mem_append_left _ ((hB ie).mpr ⟨hiel, hsup, by rw [← g2]; exact hz⟩)
    | true => exact List.mem_append_right _ ((hS ie).mpr ⟨hiel, hsup, by rw [← g2]; exact hz⟩)
  -- phase 3
  have h3 := load_strands tbl s.pfx s.seqs (s.baseSeqs.filter (·.len != 0) ++ s.supSeqs.filter (·.len != 0))
    hw.seqs.entries s.strands []
    { seqs := (s.baseSeqs.filter (·.len != 0) ++ s.supSeqs.filter (·.len != 0)).map (pilObj s.pfx) } rfl rfl
    (by simpa using hw.strandNames)
    (fun t ht => ⟨hw.strands t ht, fun i hi hz => havail i ((hw.strands t ht).items i hi) hz⟩)
  simp only [List.nil_append] at h3
  -- phase 4
  have h4 := load_structs tbl s.pfx s.strands s.structs []
    { seqs := (s.baseSeqs.filter (·.len != 0) ++ s.supSeqs.filter (·.len != 0)).map (pilObj s.pfx),
      strands := s.strands.map (pilStrand s.pfx) } rfl rfl (by simpa using hw.structNames) hw.structs
  simp only [List.nil_append] at h4
  refine ⟨{ seqs := (s.baseSeqs.filter (·.len != 0) ++ s.supSeqs.filter (·.len != 0)).map (pilObj s.pfx),
             strands := s.strands.map (pilStrand s.pfx),
             structs := s.structs.map (pilStruct s.pfx s.strands) }, ?_, ?_⟩
  · unfold Emit.compStmts
    simp only []
    rw [load_append tbl _ _ _ _ (by rw [load_append tbl _ _ _ _ (by rw [load_append tbl _ _ _ _ h1]; exact h2)]; exact h3)]
    exact h4
  · have fB1 : (s.baseSeqs.filter (·.len != 0)).filter (fun e => !e.isSup) = s.baseSeqs.filter (·.len != 0) :=
      List.filter_eq_self.mpr (fun e he => by simp [((hB e).mp he).2.1])
    have fS1 : (s.supSeqs.filter (·.len != 0)).filter (fun e => !e.isSup) = [] :=
      List.filter_eq_nil_iff.mpr (fun e he => by simp [((hS e).mp he).2.1])
    have fB2 : (s.baseSeqs.filter (·.len != 0)).filter (·.len != 0) = s.baseSeqs.filter (·.len != 0) := by simp
    have fS2 : (s.supSeqs.filter (·.len != 0)).filter (·.len != 0) = s.supSeqs.filter (·.len != 0) := by simp
    simp only [Pil.denote, designOf, Pil.Spec.baseSeqs, List.filter_map, Function.comp_def, pilObj, List.filter_append,
      fB1, fS1, fB2, fS2, List.append_nil, List.map_map, List.map_append, nucsOfBases_filter_tb, pilStrand, pilStruct,
      optOfDec, List.map_nil, Design.mk.injEq, and_true, true_and]
end Pepper.Comp
