import PepperProofs.EndToEndTree
/-!
# C06 end to end: the names of the `.mfe` records of a loaded tree are pairwise distinct (`mfeNamesDistinct_of_tree`)

1. `NoStar n`: `n` is not of the form `m ++ "*"`; `noStar_of_endsOk`.
2. Generic loader facts: the sequence names of a loaded specification are the names of its `sequence` /
   `sup-sequence` statements (`load_seqNames`); structure names stay distinct (`load_structNames_nodup`).
3. Tree fact (`seqNames_noStar_of_loaded`): no `sequence` / `sup-sequence` statement of a loaded tree carries a name
   ending in `*`.
4. A list lemma (`nodup_flatMap_pair`) and the assembly.
-/
set_option linter.unusedSimpArgs false
namespace Pepper.EndToEnd
open Pepper Pepper.Pil

/-- the genuine content of the known finding F13: no structure is named like a sequence or a starred sequence -/
def StructSeqApart (spec : Spec) : Prop :=
  ∀ so ∈ spec.structs, ∀ o ∈ spec.seqs, so.name ≠ o.name ∧ so.name ≠ o.name ++ "*"

instance (spec : Spec) : Decidable (StructSeqApart spec) := by unfold StructSeqApart; infer_instance

/-! ## 1. names that do not end in `*` -/

/-- the name is not of the form `m ++ "*"` -/
def NoStar (n : String) : Prop := ∀ m : String, n ≠ m ++ "*"

/-- a name with `endsOk` behind any prefix does not end in `*` -/
theorem noStar_of_endsOk {n : String} (h : Comp.endsOk n = true) (p : String) : NoStar (p ++ n) := by
  intro m heq
  have h1 := congrArg (fun s => s.toList.reverse) heq
  simp only [String.toList_append, List.reverse_append] at h1
  have hs : "*".toList.reverse = ['*'] := by decide
  rw [hs] at h1
  unfold Comp.endsOk at h
  cases hr : n.toList.reverse with
  | nil => rw [hr] at h; cases h
  | cons c r =>
    rw [hr] at h h1
    simp only [List.cons_append, List.nil_append, List.cons.injEq] at h1
    simp only [bne_iff_ne, ne_eq] at h
    exact h h1.1

/-! ## 2. generic loader facts -/

/-- the name a statement appends to `spec.seqs` -/
def seqNameOf : Stmt → Option String
  | .seq n _ => some n
  | .sup n _ => some n
  | _ => none

/-- what one accepted statement does to the sequence table and to the structure table -/
theorem add_names (tbl : CodeTable) {s s' : Spec} {st : Stmt} (h : s.add tbl st = .ok s') :
    (s'.seqs = s.seqs ∨ ∃ o, s'.seqs = s.seqs ++ [o] ∧ seqNameOf st = some o.name) ∧
    (s'.structs = s.structs ∨ ∃ o, s'.structs = s.structs ++ [o] ∧ o.name ∉ s.structs.map (·.name)) := by
  cases st with
  | seq name template =>
    simp only [Pil.Spec.add] at h
    split at h
    · cases h
    · split at h
      · cases h
      · simp only [Except.ok.injEq] at h
        subst h
        exact ⟨Or.inr ⟨_, rfl, rfl⟩, Or.inl rfl⟩
  | sup name items =>
    simp only [Pil.Spec.add, bind, Except.bind] at h
    split at h
    · cases h
    · cases hr : Pil.resolveItems s items with
      | error e => rw [hr] at h; cases h
      | ok R =>
        rw [hr] at h
        simp only [pure, Except.pure, Except.ok.injEq] at h
        subst h
        exact ⟨Or.inr ⟨_, rfl, rfl⟩, Or.inl rfl⟩
  | strand name dummy items =>
    simp only [Pil.Spec.add, bind, Except.bind] at h
    split at h
    · cases h
    · cases hr : Pil.resolveItems s items with
      | error e => rw [hr] at h; cases h
      | ok R =>
        rw [hr] at h
        simp only [pure, Except.pure, Except.ok.injEq] at h
        subst h
        exact ⟨Or.inl rfl, Or.inl rfl⟩
  | struct name params strands x =>
    simp only [Pil.Spec.add, bind, Except.bind] at h
    split at h
    · cases h
    · rename_i hdup
      split at h
      · cases h
      · split at h
        · cases h
        · split at h
          · cases h
          · split at h
            · cases h
            · split at h
              · cases h
              · simp only [pure, Except.pure, Except.ok.injEq] at h
                subst h
                refine ⟨Or.inl rfl, Or.inr ⟨_, rfl, ?_⟩⟩
                intro hm
                obtain ⟨o, ho, hn⟩ := List.mem_map.1 hm
                apply hdup
                rw [List.find?_isSome]
                exact ⟨o, ho, by simpa using hn⟩
  | equal items =>
    simp only [Pil.Spec.add, bind, Except.bind] at h
    cases hr : Pil.resolveItems s items with
    | error e => rw [hr] at h; cases h
    | ok R =>
      rw [hr] at h
      simp only at h
      cases R with
      | nil => cases h
      | cons y ys =>
        simp only at h
        split at h
        · cases h
        · simp only [pure, Except.pure, Except.ok.injEq] at h
          subst h
          exact ⟨Or.inl rfl, Or.inl rfl⟩
  | kinetic =>
    simp only [Pil.Spec.add, pure, Except.pure, Except.ok.injEq] at h
    subst h
    exact ⟨Or.inl rfl, Or.inl rfl⟩

/-- the sequence names of a loaded specification: those it started with, then the names of the `sequence` and
    `sup-sequence` statements, in order -/
theorem load_seqNames {tbl : CodeTable} : ∀ (ys : List Stmt) (s0 s1 : Spec), Pil.load tbl ys s0 = .ok s1 →
    s1.seqs.map (·.name) = s0.seqs.map (·.name) ++ ys.filterMap seqNameOf := by
  intro ys
  induction ys with
  | nil =>
    intro s0 s1 h
    simp only [Pil.load, Except.ok.injEq] at h
    subst h
    simp
  | cons x r ih =>
    intro s0 s1 h
    simp only [Pil.load] at h
    cases ha : s0.add tbl x with
    | error e => rw [ha] at h; cases h
    | ok sa =>
      rw [ha] at h
      rw [ih sa s1 h]
      rcases (add_names tbl ha).1 with he | ⟨o, he, hn⟩
      · have hx : seqNameOf x = none := by
          cases x with
          | seq name template =>
            exfalso
            simp only [Pil.Spec.add] at ha
            split at ha
            · cases ha
            · split at ha
              · cases ha
              · simp only [Except.ok.injEq] at ha
                subst ha
                have := congrArg List.length he
                simp at this
          | sup name items =>
            exfalso
            simp only [Pil.Spec.add, bind, Except.bind] at ha
            split at ha
            · cases ha
            · cases hr : Pil.resolveItems s0 items with
              | error e => rw [hr] at ha; cases ha
              | ok R =>
                rw [hr] at ha
                simp only [pure, Except.pure, Except.ok.injEq] at ha
                subst ha
                have := congrArg List.length he
                simp at this
          | strand _ _ _ => rfl
          | struct _ _ _ _ => rfl
          | equal _ => rfl
          | kinetic => rfl
        rw [he, List.filterMap_cons, hx]
      · rw [he, List.filterMap_cons, hn]
        simp [List.append_assoc]

/-- the loader keeps structure names pairwise distinct (it rejects a duplicate: `dupStruct`) -/
theorem load_structNames_nodup {tbl : CodeTable} : ∀ (ys : List Stmt) (s0 s1 : Spec), Pil.load tbl ys s0 = .ok s1 →
    (s0.structs.map (·.name)).Nodup → (s1.structs.map (·.name)).Nodup := by
  intro ys
  induction ys with
  | nil =>
    intro s0 s1 h hn
    simp only [Pil.load, Except.ok.injEq] at h
    subst h
    exact hn
  | cons x r ih =>
    intro s0 s1 h hn
    simp only [Pil.load] at h
    cases ha : s0.add tbl x with
    | error e => rw [ha] at h; cases h
    | ok sa =>
      rw [ha] at h
      apply ih sa s1 h
      rcases (add_names tbl ha).2 with he | ⟨o, he, hno⟩
      · rw [he]; exact hn
      · rw [he, List.map_append, List.nodup_append]
        refine ⟨hn, by simp, ?_⟩
        intro a ha' b hb hab
        simp only [List.map_cons, List.map_nil, List.mem_singleton] at hb
        subst hb
        subst hab
        exact hno ha'

/-! ## 3. no sequence statement of a loaded tree carries a name ending in `*` -/

theorem mem_compsStmts {comps : List (String × Sys.Inst)} {st : Stmt} (h : st ∈ Emit.compsStmts comps) :
    ∃ c ∈ comps, st ∈ Emit.instStmts c.2 := by
  induction comps with
  | nil => simp [Emit.compsStmts] at h
  | cons x r ih =>
    obtain ⟨n, i⟩ := x
    rw [Emit.compsStmts] at h
    rcases List.mem_append.1 h with h | h
    · exact ⟨(n, i), by simp, h⟩
    · obtain ⟨c, hc, hs⟩ := ih h
      exact ⟨c, List.mem_cons_of_mem _ hc, hs⟩

/-- every signal name written in the statements of a system source with `sysNamesOk` is `sigNameOk` -/
theorem sigNames_ok {s : Sys.SSrc} (h : SysProofs.sysNamesOk s = true) :
    ∀ n ∈ LoadInv.sigNames s.stmts, SysProofs.sigNameOk n = true := by
  intro n hn
  simp only [LoadInv.sigNames, List.mem_flatMap] at hn
  obtain ⟨x, hx, hnx⟩ := hn
  simp only [SysProofs.sysNamesOk, List.all_eq_true] at h
  have hok := h x hx
  cases x with
  | imports _ => simp at hnx
  | component cname templ args ins outs =>
    simp only [List.mem_map] at hnx
    obtain ⟨r, hr, rfl⟩ := hnx
    simp only [SysProofs.sstmtOk, Bool.and_eq_true, List.all_eq_true] at hok
    exact hok.2 r hr

/-- the names of the `sequence` / `sup-sequence` statements of a loaded tree do not end in `*` -/
theorem seqNames_noStar_of_loaded {tbl : CodeTable} {pfx : String} {inst : Sys.Inst}
    (hL : LoadInv.Loaded (fun c => LoadInv.StmtNamesOk c = true ∧ Comp.CodesOk tbl c = true)
      (fun s => SysProofs.sysNamesOk s = true) pfx inst) :
    ∀ st ∈ Emit.instStmts inst, ∀ n, seqNameOf st = some n → NoStar n := by
  induction hL with
  | comp hP hload =>
    rename_i c k pfx a s a'
    intro st hst n hn
    have hw : Comp.WF s a' := (LoadInv.load_inv_all hload hP.1).1.wf
    rw [SysProofs.instStmts_comp] at hst
    simp only [Emit.compStmts, List.mem_append, List.mem_map] at hst
    rcases hst with ((⟨e, he, rfl⟩ | ⟨e, he, rfl⟩) | ⟨t, ht, rfl⟩) | ⟨e, he, rfl⟩
    · simp only [seqNameOf, Option.some.injEq] at hn
      subst hn
      have hm : e ∈ s.seqs := by
        simp only [Comp.St.baseSeqs, List.mem_filter] at he
        exact he.1.1
      exact noStar_of_endsOk (hw.seqs.entries e hm).nameOk _
    · simp only [seqNameOf, Option.some.injEq] at hn
      subst hn
      have hm : e ∈ s.seqs := by
        simp only [Comp.St.supSeqs, List.mem_filter] at he
        exact he.1.1
      exact noStar_of_endsOk (hw.seqs.entries e hm).nameOk _
    · cases hn
    · cases hn
  | sys hQ hsub hinv hio ih =>
    intro st hst n hn
    rw [SysProofs.instStmts_sys, SysProofs.sysStmts_eq] at hst
    simp only [Sys.SysSt.components, Sys.SysSt.signals, Sys.SysSt.pfx, Sys.SysSt.lengths] at hst
    rcases List.mem_append.1 hst with hst | hst
    · obtain ⟨c, hc, hs⟩ := mem_compsStmts hst
      exact ih c hc st hs n hn
    · simp only [List.mem_flatMap] at hst
      obtain ⟨x, hx, hsx⟩ := hst
      simp only [SysProofs.sigStmts, List.mem_cons, List.mem_nil_iff, or_false] at hsx
      rcases hsx with rfl | rfl
      · simp only [seqNameOf, Option.some.injEq] at hn
        subst hn
        have hok := sigNames_ok hQ x.1 (hinv.sigIn x hx)
        simp only [SysProofs.sigNameOk, Bool.and_eq_true] at hok
        exact noStar_of_endsOk hok.1 _
      · cases hn

/-! ## 4. assembly -/

/-- two records per element: distinct as soon as the first names are distinct, the second names are injective and
    no first name is a second name -/
theorem nodup_flatMap_pair {α β : Type} (f g : α → β) : ∀ (l : List α), (l.map f).Nodup →
    (∀ a ∈ l, ∀ b ∈ l, f a ≠ g b) → (∀ a ∈ l, ∀ b ∈ l, g a = g b → f a = f b) →
    (l.flatMap (fun o => [f o, g o])).Nodup := by
  intro l
  induction l with
  | nil => intro _ _ _; simp
  | cons x r ih =>
    intro hn hfg hg
    simp only [List.map_cons, List.nodup_cons] at hn
    simp only [List.flatMap_cons, List.cons_append, List.nil_append, List.nodup_cons, List.mem_cons,
      List.mem_flatMap, List.mem_nil_iff, or_false, not_or, not_exists, not_and]
    refine ⟨⟨hfg x (by simp) x (by simp), ?_⟩, ?_, ?_⟩
    · intro y hy
      refine ⟨?_, hfg x (by simp) y (by simp [hy])⟩
      intro hxy
      exact hn.1 (List.mem_map.2 ⟨y, hy, hxy.symm⟩)
    · intro y hy
      refine ⟨fun hxy => hfg y (by simp [hy]) x (by simp) hxy.symm, ?_⟩
      intro hxy
      exact hn.1 (List.mem_map.2 ⟨y, hy, (hg x (by simp) y (by simp [hy]) hxy).symm⟩)
    · exact ih hn.2 (fun a ha b hb => hfg a (by simp [ha]) b (by simp [hb]))
        (fun a ha b hb => hg a (by simp [ha]) b (by simp [hb]))

/-- For the specification a compiled instance tree loads to, the names written into the one namespace of the `.mfe`
    file are pairwise distinct as soon as no structure is named like a (starred) sequence: structure names are distinct
    (the loader rejects duplicates), sequence names are distinct, and no sequence name ends in `*` (component sequences
    carry names `pfx ++ n` with `endsOk n`, signal sequences `pfx ++ sg` with `sigNameOk sg`), so a starred record never
    collides with a sequence record or another starred record. -/
theorem mfeNamesDistinct_of_tree {tbl : CodeTable} {pfx : String} {inst : Sys.Inst}
    (hL : LoadInv.Loaded (fun c => LoadInv.StmtNamesOk c = true ∧ Comp.CodesOk tbl c = true)
      (fun s => SysProofs.sysNamesOk s = true) pfx inst)
    {spec : Spec} (hload : Pil.load tbl (Emit.instStmts inst) {} = .ok spec) (h : StructSeqApart spec) :
    MfeNamesDistinct spec := by
  have hns : ∀ o ∈ spec.seqs, NoStar o.name := by
    intro o ho
    have hm : o.name ∈ spec.seqs.map (·.name) := List.mem_map.2 ⟨o, ho, rfl⟩
    rw [load_seqNames _ _ _ hload] at hm
    simp only [List.map_nil, List.nil_append, List.mem_filterMap] at hm
    obtain ⟨st, hst, hn⟩ := hm
    exact seqNames_noStar_of_loaded hL st hst o.name hn
  unfold MfeNamesDistinct mfeNames
  rw [List.nodup_append]
  refine ⟨load_structNames_nodup _ _ _ hload (by simp), ?_, ?_⟩
  · apply nodup_flatMap_pair (fun o : SeqObj => o.name) (fun o : SeqObj => o.name ++ "*")
    · exact (ConstraintGen.load_wf hload).seqNames
    · intro a ha b _
      exact hns a ha b.name
    · intro a _ b _ hab
      exact (String.append_left_inj _).1 hab
  · intro a ha b hb hab
    obtain ⟨so, hso, rfl⟩ := List.mem_map.1 ha
    simp only [List.mem_flatMap, List.mem_cons, List.mem_nil_iff, or_false] at hb
    obtain ⟨o, ho, hbo⟩ := hb
    have := h so hso o ho
    rcases hbo with rfl | rfl
    · exact this.1 hab
    · exact this.2 hab

end Pepper.EndToEnd
