import PepperProofs.EndToEnd
import PepperProofs.LoadInvDes
/-!
# C06 end to end, last stage: `finish` accepts the `.mfe` records and what it writes spells the design

`finish_ok`: on a saved tree whose components sit in the loaded specification (`TreeIn`), `Finish.apply` accepts the
records `mfeDesign` (what `process_results` / `output` wrote) and the output satisfies `Entries`.

Reusable helpers: `lookupLast_of_mem`, `eq_of_mem_nodup_map`, `mfeDesign_eq`, `mfeDesign_nodup`, `lookup_struct`,
`lookup_seq`, `wcStr_congr`, `atomVal_eq`, `isConcat_spellT`, `outOf`, `compRel_outOf`, `strand_value`.
-/
namespace Pepper.EndToEnd
open Pepper Pepper.Pil Pepper.ConstraintGen Pepper.LinkSpec

/-! ## lists -/

theorem eq_of_mem_nodup_map {α β : Type} {f : α → β} {l : List α} (hn : (l.map f).Nodup) {a b : α}
    (ha : a ∈ l) (hb : b ∈ l) (hab : f a = f b) : a = b := by
  induction l with
  | nil => cases ha
  | cons x r ih =>
    simp only [List.map_cons, List.nodup_cons, List.mem_map, not_exists, not_and] at hn
    rcases List.mem_cons.1 ha with rfl | ha' <;> rcases List.mem_cons.1 hb with rfl | hb'
    · rfl
    · exact absurd hab.symm (hn.1 b hb')
    · exact absurd hab (hn.1 a ha')
    · exact ih hn.2 ha' hb'

theorem nodup_map_of_injective {α β : Type} {f : α → β} (hf : ∀ a b, f a = f b → a = b) {l : List α} (hn : l.Nodup) :
    (l.map f).Nodup := by
  induction l with
  | nil => simp
  | cons x r ih =>
    simp only [List.nodup_cons] at hn
    simp only [List.map_cons, List.nodup_cons, List.mem_map, not_exists, not_and]
    exact ⟨fun y hy hxy => hn.1 (hf _ _ hxy ▸ hy), ih hn.2⟩

/-- with distinct keys, any record of the list is the one the dict keeps -/
theorem lookupLast_of_mem {d : List (List Char × List Char)} (hn : (d.map (·.1)).Nodup) {n v : List Char}
    (h : (n, v) ∈ d) : Finish.lookupLast d n = some v := by
  unfold Finish.lookupLast
  cases hf : d.reverse.find? (·.1 == n) with
  | none =>
    have := List.find?_eq_none.1 hf (n, v) (List.mem_reverse.2 h)
    simp at this
  | some x =>
    have hx : x ∈ d := List.mem_reverse.1 (List.mem_of_find?_eq_some hf)
    have hx1 : x.1 = n := by simpa using List.find?_some hf
    have : x = (n, v) := eq_of_mem_nodup_map hn hx h hx1
    rw [this]; rfl

theorem forall₂_map_right {α β : Type} {R : α → β → Prop} {f : α → β} {l : List α} (h : ∀ a ∈ l, R a (f a)) :
    Finish.Forall₂ R l (l.map f) := by
  induction l with
  | nil => exact .nil
  | cons x r ih =>
    exact .cons (h x List.mem_cons_self) (ih (fun a ha => h a (List.mem_cons_of_mem _ ha)))

theorem zip_range_map {α β : Type} (l : List α) (f : α → β) (g : Nat × α → β) (hg : ∀ p, g p = f p.2) :
    (List.zip (List.range l.length) l).map g = l.map f := by
  have : (List.zip (List.range l.length) l).map g = ((List.zip (List.range l.length) l).map Prod.snd).map f := by
    rw [List.map_map]; apply List.map_congr_left; intro p _; exact hg p
  rw [this, List.map_snd_zip (by simp)]

theorem zip_range_flatMap {α β : Type} (l : List α) (f : α → List β) (g : Nat × α → List β) (hg : ∀ p, g p = f p.2) :
    (List.zip (List.range l.length) l).flatMap g = l.flatMap f := by
  have : (List.zip (List.range l.length) l).flatMap g = ((List.zip (List.range l.length) l).map Prod.snd).flatMap f := by
    rw [List.flatMap_map]; congr 1; funext p; exact hg p
  rw [this, List.map_snd_zip (by simp)]

/-! ## the records -/

/-- the `name ↦ sequence` list `finish` reads, without the record numbers -/
theorem mfeDesign_eq (t : CodeTable) (spec : Spec) (asg : Var → Base) :
    mfeDesign t spec asg =
      spec.structs.map (fun so => (so.name.toList, Mfe.joinPlus (so.strands.map (strandVal spec asg))))
      ++ spec.seqs.flatMap (fun o =>
          [(o.name.toList, spellT t (Pil.denote spec) asg (viewNucs o false)),
           ((o.name ++ "*").toList, spellT t (Pil.denote spec) asg (viewNucs o true))]) := by
  unfold mfeDesign mfeRecs
  rw [List.map_append, List.map_map, List.map_flatMap]
  congr 1
  · exact zip_range_map _ _ _ (fun p => rfl)
  · exact zip_range_flatMap _ _ _ (fun p => rfl)

theorem mfeDesign_names (t : CodeTable) (spec : Spec) (asg : Var → Base) :
    (mfeDesign t spec asg).map (·.1) = (mfeNames spec).map String.toList := by
  rw [mfeDesign_eq, mfeNames]
  simp only [List.map_append, List.map_map, List.map_flatMap, Function.comp_def, List.map_cons, List.map_nil]

theorem mfeDesign_nodup {spec : Spec} (hn : MfeNamesDistinct spec) (t : CodeTable) (asg : Var → Base) :
    ((mfeDesign t spec asg).map (·.1)).Nodup := by
  rw [mfeDesign_names]
  exact nodup_map_of_injective (fun _ _ h => String.toList_injective h) hn

theorem lookup_struct {spec : Spec} (hn : MfeNamesDistinct spec) (t : CodeTable) (asg : Var → Base) {so : StructObj}
    (hso : so ∈ spec.structs) :
    Finish.lookupLast (mfeDesign t spec asg) so.name.toList =
      some (Mfe.joinPlus (so.strands.map (strandVal spec asg))) := by
  apply lookupLast_of_mem (mfeDesign_nodup hn t asg)
  rw [mfeDesign_eq]
  exact List.mem_append_left _ (List.mem_map.2 ⟨so, hso, rfl⟩)

theorem lookup_seq {spec : Spec} (hn : MfeNamesDistinct spec) (t : CodeTable) (asg : Var → Base) {o : SeqObj}
    (ho : o ∈ spec.seqs) :
    Finish.lookupLast (mfeDesign t spec asg) o.name.toList = some (spellT t (Pil.denote spec) asg (viewNucs o false)) ∧
    Finish.lookupLast (mfeDesign t spec asg) (o.name ++ "*").toList =
      some (spellT t (Pil.denote spec) asg (viewNucs o true)) := by
  constructor
  · apply lookupLast_of_mem (mfeDesign_nodup hn t asg)
    rw [mfeDesign_eq]
    exact List.mem_append_right _ (List.mem_flatMap.2 ⟨o, ho, by simp⟩)
  · apply lookupLast_of_mem (mfeDesign_nodup hn t asg)
    rw [mfeDesign_eq]
    exact List.mem_append_right _ (List.mem_flatMap.2 ⟨o, ho, by simp⟩)

theorem wcStr_congr {t tF : CodeTable} (hc : tF.compl = t.compl) (s : List Char) : tF.wcStr s = t.wcStr s := by
  unfold CodeTable.wcStr
  have : tF.complOf = t.complOf := by funext c; unfold CodeTable.complOf; rw [hc]
  rw [this]

/-! ## atomic sequences -/

theorem pilObj_view (p : String) (e : Comp.SeqE) : viewNucs (Comp.pilObj p e) false = Comp.cnucs p e.bases :=
  Comp.nucsOfBases_filter_tb p e.bases

theorem atom_view {s : Comp.St} {a : Nat} (hw : Comp.WF s a) {be : Comp.SeqE} (hbe : be ∈ s.seqs)
    (hb : be.isSup = false) : Comp.cnucs s.pfx be.bases = fwd (s.pfx ++ be.name) be.len := by
  rw [((hw.seqs.entries be hbe).base hb).1]
  simp [Comp.nucsB]

theorem atom_known {t : CodeTable} {spec : Spec} (wf : SpecWF spec) (ok : SpecCodes t spec) {s : Comp.St}
    (hin : CompIn spec s) {be : Comp.SeqE} (hbe : be ∈ s.seqs) (hb : be.isSup = false) :
    ∀ n ∈ fwd (s.pfx ++ be.name) be.len, Known t (Pil.denote spec) n := by
  by_cases h0 : be.len = 0
  · rw [h0, fwd_zero]; intro n hn; cases hn
  · have hf := hin.seqs be hbe h0
    exact known_base (o := Comp.pilObj s.pfx be) wf ok (findSeq_mem hf).1 hb

/-- the records of a non-dummy atomic sequence -/
theorem atom_lookup {t : CodeTable} {spec : Spec} (hn : MfeNamesDistinct spec) (asg : Var → Base) {s : Comp.St} {a : Nat}
    (hin : CompIn spec s) (hw : Comp.WF s a) {be : Comp.SeqE} (hbe : be ∈ s.seqs) (hb : be.isSup = false)
    (h0 : be.len ≠ 0) :
    Finish.lookupLast (mfeDesign t spec asg) (s.pfx ++ be.name).toList =
      some (spellT t (Pil.denote spec) asg (fwd (s.pfx ++ be.name) be.len)) ∧
    Finish.lookupLast (mfeDesign t spec asg) (s.pfx ++ be.name ++ "*").toList =
      some (spellT t (Pil.denote spec) asg (rc (fwd (s.pfx ++ be.name) be.len))) := by
  have ho := (findSeq_mem (hin.seqs be hbe h0)).1
  obtain ⟨h1, h2⟩ := lookup_seq hn t asg ho
  rw [viewNucs_true] at h2
  rw [pilObj_view, atom_view hw hbe hb] at h1 h2
  exact ⟨h1, h2⟩

theorem atom_ok {t tF : CodeTable} (hl : t.lawful = true) (hB : complBases t = true) (hc : tF.compl = t.compl)
    {spec : Spec} (wf : SpecWF spec) (ok : SpecCodes t spec) (hn : MfeNamesDistinct spec) (asg : Var → Base)
    {s : Comp.St} {a : Nat} (hin : CompIn spec s) (hw : Comp.WF s a) {be : Comp.SeqE} (hbe : be ∈ s.seqs)
    (hb : be.isSup = false) (h0 : be.len ≠ 0) : Finish.AtomOk tF (mfeDesign t spec asg) s be := by
  obtain ⟨h1, h2⟩ := atom_lookup (t := t) hn asg hin hw hbe hb h0
  refine ⟨_, _, h1, by rw [spellT_length, fwd_length], ?_, h2⟩
  rw [wcStr_congr hc]
  exact wcStr_spellT hl hB asg (atom_known wf ok hin hbe hb)

/-- what `apply_design` stores in an atomic sequence -/
theorem atomVal_eq {t : CodeTable} {spec : Spec} (hn : MfeNamesDistinct spec) (asg : Var → Base) {s : Comp.St} {a : Nat}
    (hin : CompIn spec s) (hw : Comp.WF s a) {be : Comp.SeqE} (hbe : be ∈ s.seqs) (hb : be.isSup = false) :
    Finish.atomVal (mfeDesign t spec asg) s be = spellT t (Pil.denote spec) asg (fwd (s.pfx ++ be.name) be.len) := by
  unfold Finish.atomVal
  by_cases h0 : be.len = 0
  · simp [h0, spellT]
  · have hne : (be.len == 0) = false := by simpa using h0
    rw [hne, (atom_lookup (t := t) hn asg hin hw hbe hb h0).1]
    rfl

/-! ## concatenations -/

/-- the concatenation `apply_design` forms over a list of base references spells their nucleotides -/
theorem isConcat_spellT {t tF : CodeTable} (hl : t.lawful = true) (hB : complBases t = true) (hc : tF.compl = t.compl)
    {spec : Spec} (wf : SpecWF spec) (ok : SpecCodes t spec) (hn : MfeNamesDistinct spec) (asg : Var → Base)
    {s : Comp.St} {a : Nat} (hin : CompIn spec s) (hw : Comp.WF s a) {bs : List Comp.BaseRef}
    (hbs : ∀ b ∈ bs, LoadInv.BaseOk s.seqs b) :
    Finish.IsConcat tF (Finish.atomAssign (mfeDesign t spec asg) s) s.pfx bs
      (spellT t (Pil.denote spec) asg (Comp.cnucs s.pfx bs)) := by
  refine ⟨bs.map (fun b => spellT t (Pil.denote spec) asg (Comp.nucsB s.pfx b)), forall₂_map_right ?_, ?_⟩
  · intro b hb
    obtain ⟨be, hbe, hsup, hname, hlen⟩ := hbs b hb
    have hmem : be ∈ s.baseSeqs := List.mem_filter.2 ⟨hbe, by simp [hsup]⟩
    have hnd : (s.baseSeqs.map (·.name)).Nodup :=
      List.Nodup.sublist (List.Sublist.map _ List.filter_sublist) hw.seqs.nodup
    have hlk := Finish.lookup_map_name (pfx := s.pfx) (g := Finish.atomVal (mfeDesign t spec asg) s) hnd hmem
    refine ⟨Finish.atomVal (mfeDesign t spec asg) s be, by rw [← hname]; exact hlk, ?_⟩
    rw [atomVal_eq hn asg hin hw hbe hsup]
    unfold Comp.nucsB
    rw [← hname, ← hlen]
    by_cases hr : b.rev = true
    · simp only [hr, if_true]
      rw [wcStr_congr hc]
      exact wcStr_spellT hl hB asg (atom_known wf ok hin hbe hsup)
    · simp only [hr, Bool.false_eq_true, if_false]
  · rw [Comp.cnucs, spellT_flatMap, List.flatMap_def]

/-! ## what `finish` writes for one component -/

/-- the letters written for a list of base references of component `s` -/
def written (t : CodeTable) (spec : Spec) (asg : Var → Base) (s : Comp.St) (bs : List Comp.BaseRef) : List Char :=
  spellT t (Pil.denote spec) asg (Comp.cnucs s.pfx bs)

/-- the value of the (first) strand of that local name -/
def strandWritten (t : CodeTable) (spec : Spec) (asg : Var → Base) (s : Comp.St) (n : String) : List Char :=
  ((Comp.findT s.strands n).map (fun x => written t spec asg s x.bases)).getD []

/-- one component's share of the output -/
def outOf (t : CodeTable) (spec : Spec) (asg : Var → Base) (s : Comp.St) : Finish.Out :=
  ⟨s.seqs.map (fun e => (s.pfx ++ e.name, written t spec asg s e.bases)),
   s.strands.map (fun x => (s.pfx ++ x.name, x.dummy, written t spec asg s x.bases)),
   s.structs.map (fun e => (s.pfx ++ e.name, Finish.joinPlus (e.strands.map (strandWritten t spec asg s))))⟩

/-- a strand's written value is its letters, which is also what its structure's record joins -/
theorem strand_value {spec : Spec} (t : CodeTable) (asg : Var → Base) {s : Comp.St} (hin : CompIn spec s)
    {x : Comp.StrandE} (hx : x ∈ s.strands) :
    written t spec asg s x.bases = spell asg (Comp.cnucs s.pfx x.bases) ∧
    strandVal spec asg (s.pfx ++ x.name) = spell asg (Comp.cnucs s.pfx x.bases) := by
  have hf := hin.strands x hx
  have hnucs : nucsOfBases (Comp.pilStrand s.pfx x).bases = Comp.cnucs s.pfx x.bases :=
    Comp.nucsOfBases_filter_tb s.pfx x.bases
  constructor
  · unfold written
    apply spellT_eq_spell
    rw [← hnucs]
    exact onStrand_of_strand (findStrand_mem hf).1
  · unfold strandVal
    rw [strandNucs_denote, hf]
    simp only [hnucs]

theorem find_written (t : CodeTable) (spec : Spec) (asg : Var → Base) (s : Comp.St) (p : String) (ts : List Comp.StrandE)
    (n : String) :
    (ts.map (fun x => (p ++ x.name, x.dummy, written t spec asg s x.bases))).find? (·.1 == p ++ n) =
      (Comp.findT ts n).map (fun x => (p ++ x.name, x.dummy, written t spec asg s x.bases)) := by
  induction ts with
  | nil => rfl
  | cons e r ih =>
    simp only [List.map_cons, List.find?_cons, Comp.findT, Comp.pfx_beq] at ih ⊢
    split
    · rfl
    · exact ih

/-- the strand values a structure joins are the letters of the strands its PIL object names -/
theorem struct_parts {spec : Spec} (t : CodeTable) (asg : Var → Base) {s : Comp.St} {a : Nat} (hin : CompIn spec s)
    (hw : Comp.WF s a) {e : Comp.StructE} (he : e ∈ s.structs) :
    (e.strands.map (s.pfx ++ ·)).map (strandVal spec asg) = e.strands.map (strandWritten t spec asg s) := by
  rw [List.map_map]
  apply List.map_congr_left
  intro n hnm
  have hfound := (hw.structs e he).found n hnm
  cases hf : Comp.findT s.strands n with
  | none => rw [hf] at hfound; cases hfound
  | some x =>
    obtain ⟨hx, hxn⟩ := Comp.findT_some hf
    obtain ⟨h1, h2⟩ := strand_value t asg hin hx
    simp only [Function.comp, strandWritten, hf, Option.map_some, Option.getD_some]
    rw [h1, ← hxn, h2]

/-- `outOf` satisfies the relations of `apply_design` for its component -/
theorem compRel_outOf {t tF : CodeTable} (hl : t.lawful = true) (hB : complBases t = true) (hc : tF.compl = t.compl)
    {spec : Spec} (wf : SpecWF spec) (ok : SpecCodes t spec) (hn : MfeNamesDistinct spec) (asg : Var → Base)
    {s : Comp.St} (hin : CompIn spec s) : Finish.CompRel tF (mfeDesign t spec asg) s (outOf t spec asg s) := by
  obtain ⟨a, hw⟩ := hin.wf
  refine ⟨?_, ?_, ?_, ?_⟩
  · intro e he h0
    obtain ⟨hes, hsup⟩ := List.mem_filter.1 he
    exact atom_ok hl hB hc wf ok hn asg hin hw hes (by simpa using hsup) h0
  · exact forall₂_map_right (fun e he =>
      ⟨rfl, isConcat_spellT hl hB hc wf ok hn asg hin hw (LoadInv.seq_bases_ok hw.seqs he)⟩)
  · exact forall₂_map_right (fun x hx =>
      ⟨rfl, rfl, isConcat_spellT hl hB hc wf ok hn asg hin hw (LoadInv.strand_bases_ok hw hx)⟩)
  · refine forall₂_map_right (fun e he => ⟨rfl, e.strands.map (strandWritten t spec asg s), ?_, rfl, ?_⟩)
    · refine forall₂_map_right (fun n hnm => ?_)
      have hfound := (hw.structs e he).found n hnm
      cases hf : Comp.findT s.strands n with
      | none => rw [hf] at hfound; cases hfound
      | some x =>
        refine ⟨(s.pfx ++ x.name, x.dummy, written t spec asg s x.bases), ?_, ?_⟩
        · show (outOf t spec asg s).strands.find? _ = _
          unfold outOf
          simp only [find_written, hf, Option.map_some]
        · simp only [strandWritten, hf, Option.map_some, Option.getD_some]
    · have hso := hin.structs e he
      have := lookup_struct hn t asg hso
      rw [joinPlus_eq] at this
      rw [← struct_parts t asg hin hw he]
      exact this

/-! ## the whole tree -/

/-- `finish` accepts the records `process_results`/`output` wrote, and what it writes spells the design -/
theorem finish_ok {t tF : CodeTable} (hl : t.lawful = true) (hB : complBases t = true) (hc : tF.compl = t.compl)
    {spec : Pil.Spec} (wf : ConstraintGen.SpecWF spec) (ok : ConstraintGen.SpecCodes t spec) (hn : MfeNamesDistinct spec)
    {inst : Sys.Inst} (hin : TreeIn spec inst) (asg : Var → LinkSpec.Base) :
    ∃ out, Finish.apply tF inst (mfeDesign t spec asg) = .ok out ∧ Entries t (Pil.denote spec) asg out := by
  refine ⟨Finish.catOuts ((Finish.compsOf 64 inst).map (outOf t spec asg)),
    Finish.apply_ok_iff_relations.2 ⟨_, forall₂_map_right (fun s hs => compRel_outOf hl hB hc wf ok hn asg (hin s hs)), rfl⟩,
    ?_, ?_, ?_⟩
  · -- strands
    intro x hx dm str hmem
    simp only [Finish.catOuts, List.mem_flatMap, List.mem_map] at hmem
    obtain ⟨_, ⟨s, hs, rfl⟩, hmem⟩ := hmem
    simp only [outOf, List.mem_map, Prod.mk.injEq] at hmem
    obtain ⟨y, hy, hname, hdm, hstr⟩ := hmem
    simp only [Pil.denote, List.mem_map] at hx
    obtain ⟨o, ho, rfl⟩ := hx
    have h1 := wf.strandFind o ho
    have h2 := (hin s hs).strands y hy
    simp only at hname
    rw [hname, h1] at h2
    have ho' : o = Comp.pilStrand s.pfx y := Option.some.inj h2
    subst ho'
    refine ⟨hdm.symm, ?_⟩
    rw [← hstr, (strand_value t asg (hin s hs) hy).1]
    show _ = spell asg (nucsOfBases (Comp.pilStrand s.pfx y).bases)
    rw [show nucsOfBases (Comp.pilStrand s.pfx y).bases = Comp.cnucs s.pfx y.bases from
      Comp.nucsOfBases_filter_tb s.pfx y.bases]
  · -- sequences
    intro x hx str hmem hne
    simp only [Finish.catOuts, List.mem_flatMap, List.mem_map] at hmem
    obtain ⟨_, ⟨s, hs, rfl⟩, hmem⟩ := hmem
    simp only [outOf, List.mem_map, Prod.mk.injEq] at hmem
    obtain ⟨e, he, hname, hstr⟩ := hmem
    have hd : (Pil.denote spec).seqs = (spec.seqs.filter (·.len != 0)).map (fun o => (o.name, nucsOfBases o.bases)) := rfl
    rw [hd] at hx
    simp only [List.mem_map, List.mem_filter] at hx
    obtain ⟨o, ⟨ho, _⟩, rfl⟩ := hx
    obtain ⟨a, hw⟩ := (hin s hs).wf
    by_cases h0 : e.len = 0
    · exfalso
      apply hne
      rw [← hstr]
      have : Comp.cnucs s.pfx e.bases = [] := by
        apply List.eq_nil_of_length_eq_zero
        rw [Comp.cnucs_length, ← (hw.seqs.entries e he).lenB, h0]
      rw [written, this]; rfl
    · have h1 := wf.seqFind o ho
      have h2 := (hin s hs).seqs e he h0
      simp only at hname
      rw [hname, h1] at h2
      have ho' : o = Comp.pilObj s.pfx e := Option.some.inj h2
      subst ho'
      rw [← hstr]
      show _ = spellT t (Pil.denote spec) asg (nucsOfBases (Comp.pilObj s.pfx e).bases)
      rw [show nucsOfBases (Comp.pilObj s.pfx e).bases = Comp.cnucs s.pfx e.bases from
        Comp.nucsOfBases_filter_tb s.pfx e.bases]
      rfl
  · -- structures
    intro sd hsd str hmem
    simp only [Finish.catOuts, List.mem_flatMap, List.mem_map] at hmem
    obtain ⟨_, ⟨s, hs, rfl⟩, hmem⟩ := hmem
    simp only [outOf, List.mem_map, Prod.mk.injEq] at hmem
    obtain ⟨e, he, hname, hstr⟩ := hmem
    simp only [Pil.denote, List.mem_map] at hsd
    obtain ⟨so, hso, rfl⟩ := hsd
    obtain ⟨a, hw⟩ := (hin s hs).wf
    have hnd : (spec.structs.map (·.name)).Nodup := (List.nodup_append.1 hn).1
    have hps := (hin s hs).structs e he
    simp only at hname
    have hso' : so = Comp.pilStruct s.pfx s.strands e := eq_of_mem_nodup_map hnd hso hps hname.symm
    subst hso'
    rw [← hstr, ← struct_parts t asg (hin s hs) hw he]
    rfl

end Pepper.EndToEnd
