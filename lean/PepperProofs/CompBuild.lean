import PepperModel.Comp
import PepperProofs.CompConstraint
/-!
# Closed form of `Comp.buildFold` / `Comp.buildSuper` (C10 part 3, C01)

`buildSuper` threads an accumulator through the item list and defers the single wildcard region.  Here
the result is written as explicit functions of the item list (`refsFrom`, `basesFrom`, `anonsFrom`,
`lenSum`, `nucCount`), first for wildcard-free lists, then for `pre ++ nuc w :: post`.
-/
namespace Pepper.Comp
open Pepper.Constraint

/-- every quoted region of the list is wildcard-free -/
def wildFree : List CItem → Bool
  | [] => true
  | .obj _ _ :: r => wildFree r
  | .nuc p :: r => wildCount p == 0 && wildFree r

/-- number of quoted regions -/
def nucCount : List CItem → Nat
  | [] => 0
  | .obj _ _ :: r => nucCount r
  | .nuc _ :: r => nucCount r + 1

/-- total length of the items, a wildcard counting as 0 -/
def lenSum : List CItem → Nat
  | [] => 0
  | .obj i _ :: r => i.len + lenSum r
  | .nuc p :: r => fixedSum p + lenSum r

/-- `seqs` of the built object: quoted regions become anonymous sequences numbered from `k` -/
def refsFrom (k : Nat) : List CItem → List ItemRef
  | [] => []
  | .obj i _ :: r => i :: refsFrom k r
  | .nuc p :: r => ⟨anonName k, false, fixedSum p, false⟩ :: refsFrom (k + 1) r

def basesFrom (k : Nat) : List CItem → List BaseRef
  | [] => []
  | .obj _ bs :: r => bs ++ basesFrom k r
  | .nuc p :: r => ⟨anonName k, false, fixedSum p⟩ :: basesFrom (k + 1) r

def anonsFrom (k : Nat) : List CItem → List SeqE
  | [] => []
  | .obj _ _ :: r => anonsFrom k r
  | .nuc p :: r => mkAnon k (fixedSum p) (expand 0 p) :: anonsFrom (k + 1) r

@[simp] theorem wildFree_append (a b : List CItem) : wildFree (a ++ b) = (wildFree a && wildFree b) := by
  induction a with
  | nil => simp [wildFree]
  | cons c r ih => cases c <;> simp [wildFree, ih, Bool.and_assoc]

@[simp] theorem nucCount_append (a b : List CItem) : nucCount (a ++ b) = nucCount a + nucCount b := by
  induction a with
  | nil => simp [nucCount]
  | cons c r ih => cases c <;> simp [nucCount, ih] <;> omega

@[simp] theorem lenSum_append (a b : List CItem) : lenSum (a ++ b) = lenSum a + lenSum b := by
  induction a with
  | nil => simp [lenSum]
  | cons c r ih => cases c <;> simp [lenSum, ih] <;> omega

theorem refsFrom_append (k : Nat) (a b : List CItem) :
    refsFrom k (a ++ b) = refsFrom k a ++ refsFrom (k + nucCount a) b := by
  induction a generalizing k with
  | nil => simp [refsFrom, nucCount]
  | cons c r ih =>
    cases c <;> simp [refsFrom, nucCount, ih]
    rw [show k + 1 + nucCount r = k + (nucCount r + 1) by omega]

theorem basesFrom_append (k : Nat) (a b : List CItem) :
    basesFrom k (a ++ b) = basesFrom k a ++ basesFrom (k + nucCount a) b := by
  induction a generalizing k with
  | nil => simp [basesFrom, nucCount]
  | cons c r ih =>
    cases c <;> simp [basesFrom, nucCount, ih]
    rw [show k + 1 + nucCount r = k + (nucCount r + 1) by omega]

theorem anonsFrom_append (k : Nat) (a b : List CItem) :
    anonsFrom k (a ++ b) = anonsFrom k a ++ anonsFrom (k + nucCount a) b := by
  induction a generalizing k with
  | nil => simp [anonsFrom, nucCount]
  | cons c r ih =>
    cases c <;> simp [anonsFrom, nucCount, ih]
    rw [show k + 1 + nucCount r = k + (nucCount r + 1) by omega]

@[simp] theorem refsFrom_length (k : Nat) (cs : List CItem) : (refsFrom k cs).length = cs.length := by
  induction cs generalizing k with
  | nil => simp [refsFrom]
  | cons c r ih => cases c <;> simp [refsFrom, ih]

@[simp] theorem anonsFrom_length (k : Nat) (cs : List CItem) : (anonsFrom k cs).length = nucCount cs := by
  induction cs generalizing k with
  | nil => simp [anonsFrom, nucCount]
  | cons c r ih => cases c <;> simp [anonsFrom, nucCount, ih]

theorem refsFrom_lenSum (k : Nat) (cs : List CItem) : ((refsFrom k cs).map (·.len)).sum = lenSum cs := by
  induction cs generalizing k with
  | nil => simp [refsFrom, lenSum]
  | cons c r ih => cases c <;> simp [refsFrom, lenSum, ih]

/-! ### the fold -/

theorem buildFold_append {a b : List CItem} {A A1 : Acc} (h : buildFold a A = .ok A1) :
    buildFold (a ++ b) A = buildFold b A1 := by
  induction a generalizing A with
  | nil => simp [buildFold] at h; subst h; rfl
  | cons c r ih =>
    simp only [List.cons_append, buildFold] at h ⊢
    cases hs : buildStep A c with
    | error e => simp [hs] at h
    | ok A2 => simp [hs] at h ⊢; exact ih h

theorem buildFold_wildFree {cs : List CItem} (hf : wildFree cs = true) (A : Acc) :
    buildFold cs A = .ok { A with items := A.items ++ refsFrom A.anon cs,
                                  bases := A.bases ++ basesFrom A.anon cs,
                                  len := A.len + lenSum cs,
                                  newAnon := A.newAnon ++ anonsFrom A.anon cs,
                                  anon := A.anon + nucCount cs } := by
  induction cs generalizing A with
  | nil => simp [buildFold, refsFrom, basesFrom, lenSum, anonsFrom, nucCount]
  | cons c r ih =>
    cases c with
    | obj i bs =>
      simp only [wildFree] at hf
      simp only [buildFold, buildStep, ih hf]
      simp [refsFrom, basesFrom, lenSum, anonsFrom, nucCount, Nat.add_assoc]
    | nuc p =>
      simp only [wildFree, Bool.and_eq_true, beq_iff_eq] at hf
      simp only [buildFold, buildStep, resolve_none_of_zero hf.1, ih hf.2]
      simp [refsFrom, basesFrom, lenSum, anonsFrom, nucCount, Nat.add_assoc, mkAnon, SeqE.ref,
        Nat.add_comm 1]

/-- the wildcard step -/
theorem buildStep_wild {w : List (Mult × Char)} (h1 : wildCount w = 1) (A : Acc) (hA : A.wild = none) :
    buildStep A (.nuc w) = .ok { A with wild := some (A.items.length, A.bases.length, w) } := by
  simp [buildStep, resolve_none_of_one h1, hA]

theorem buildFold_wild {pre post : List CItem} {w : List (Mult × Char)}
    (hpre : wildFree pre = true) (h1 : wildCount w = 1) (hpost : wildFree post = true)
    (A : Acc) (hA : A.wild = none) :
    buildFold (pre ++ .nuc w :: post) A =
      .ok { items := A.items ++ refsFrom A.anon pre ++ refsFrom (A.anon + nucCount pre) post,
            bases := A.bases ++ basesFrom A.anon pre ++ basesFrom (A.anon + nucCount pre) post,
            len := A.len + lenSum pre + lenSum post,
            newAnon := A.newAnon ++ anonsFrom A.anon pre ++ anonsFrom (A.anon + nucCount pre) post,
            anon := A.anon + nucCount pre + nucCount post,
            wild := some ((A.items ++ refsFrom A.anon pre).length, (A.bases ++ basesFrom A.anon pre).length, w) } := by
  rw [buildFold_append (buildFold_wildFree hpre A)]
  simp only [buildFold]
  rw [buildStep_wild h1 _ (by simpa using hA)]
  simp only [buildFold_wildFree hpost]

/-- every accepted item list is wildcard-free or has exactly one wildcard region -/
theorem buildFold_ok_cases {cs : List CItem} {A A' : Acc} (h : buildFold cs A = .ok A') :
    wildFree cs = true ∨
    ∃ pre w post, cs = pre ++ .nuc w :: post ∧ wildFree pre = true ∧ wildCount w = 1 ∧
      wildFree post = true ∧ A.wild = none := by
  induction cs generalizing A with
  | nil => left; rfl
  | cons c r ih =>
    simp only [buildFold] at h
    cases hs : buildStep A c with
    | error e => simp [hs] at h
    | ok A1 =>
      simp only [hs] at h
      cases c with
      | obj i bs =>
        simp only [buildStep, Except.ok.injEq] at hs
        rcases ih h with hr | ⟨pre, w, post, rfl, hp, hw, hq, hn⟩
        · left; simpa [wildFree] using hr
        · right
          refine ⟨.obj i bs :: pre, w, post, by simp, by simpa [wildFree] using hp, hw, hq, ?_⟩
          subst hs; simpa using hn
      | nuc p =>
        by_cases h0 : wildCount p = 0
        · simp only [buildStep, resolve_none_of_zero h0, Except.ok.injEq] at hs
          rcases ih h with hr | ⟨pre, w, post, rfl, hp, hw, hq, hn⟩
          · left; simp [wildFree, h0, hr]
          · right
            refine ⟨.nuc p :: pre, w, post, by simp, by simp [wildFree, h0, hp], hw, hq, ?_⟩
            subst hs; simpa using hn
        · by_cases h1 : wildCount p = 1
          · simp only [buildStep, resolve_none_of_one h1] at hs
            split at hs
            · simp at hs
            · rename_i hw
              simp only [Except.ok.injEq] at hs
              rcases ih h with hr | ⟨pre, w, post, _, _, _, _, hn⟩
              · right
                exact ⟨[], p, r, by simp, rfl, h1, hr, by simpa using hw⟩
              · subst hs; simp at hn
          · have h2 : 2 ≤ wildCount p := by omega
            simp [buildStep, resolve_of_two h2] at hs

/-! ### `buildSuper` -/

theorem insertAt_append_length {α} (a b : List α) (x : α) : insertAt (a ++ b) a.length x = a ++ x :: b := by
  simp [insertAt]

theorem buildSuper_wildFree {cs : List CItem} (hf : wildFree cs = true) (k : Nat) (length : Option Nat) :
    buildSuper k cs length =
      if length = none ∨ length = some (lenSum cs) then
        .ok ⟨refsFrom k cs, basesFrom k cs, lenSum cs, anonsFrom k cs, k + nucCount cs⟩
      else .error .lengthMismatch := by
  simp only [buildSuper, buildFold_wildFree hf, bind, Except.bind]
  cases length with
  | none => simp [pure, Except.pure]
  | some l =>
    by_cases hl : lenSum cs = l
    · simp [hl, pure, Except.pure]
    · have : ¬ l = lenSum cs := fun h => hl h.symm
      simp [hl, this, throw, throwThe, MonadExceptOf.throw]

/-- the outcome of `buildSuper` on a list with exactly one wildcard region and a declared length -/
theorem buildSuper_wild {pre post : List CItem} {w : List (Mult × Char)}
    (hpre : wildFree pre = true) (h1 : wildCount w = 1) (hpost : wildFree post = true) (k L : Nat) :
    buildSuper k (pre ++ .nuc w :: post) (some L) =
      if L < lenSum pre + lenSum post then .error .tooShort
      else if L - (lenSum pre + lenSum post) < fixedSum w then .error (.constraint .tooShort)
      else
        let wl := L - (lenSum pre + lenSum post)
        let kw := k + nucCount pre + nucCount post
        .ok ⟨refsFrom k pre ++ ⟨anonName kw, false, wl, false⟩ :: refsFrom (k + nucCount pre) post,
             basesFrom k pre ++ ⟨anonName kw, false, wl⟩ :: basesFrom (k + nucCount pre) post,
             L,
             anonsFrom k pre ++ anonsFrom (k + nucCount pre) post ++ [mkAnon kw wl (expand (wl - fixedSum w) w)],
             kw + 1⟩ := by
  simp only [buildSuper, buildFold_wild hpre h1 hpost { anon := k } rfl, bind, Except.bind]
  simp only [List.nil_append, Nat.zero_add]
  by_cases hS : L < lenSum pre + lenSum post
  · simp [hS, throw, throwThe, MonadExceptOf.throw]
  · simp only [hS, if_false]
    by_cases hw : L - (lenSum pre + lenSum post) < fixedSum w
    · simp [resolve, h1, hw, throw, throwThe, MonadExceptOf.throw]
    · have hle : fixedSum w ≤ L - (lenSum pre + lenSum post) := by omega
      simp only [resolve_some_of_one h1 hle, hw, if_false, pure, Except.pure]
      simp only [insertAt_append_length]
      simp only [mkAnon, SeqE.ref]
      simp
      omega

theorem buildSuper_wild_none {pre post : List CItem} {w : List (Mult × Char)}
    (hpre : wildFree pre = true) (h1 : wildCount w = 1) (hpost : wildFree post = true) (k : Nat) :
    buildSuper k (pre ++ .nuc w :: post) none = .error .wildNoLength := by
  simp only [buildSuper, buildFold_wild hpre h1 hpost { anon := k } rfl, bind, Except.bind]
  simp [throw, throwThe, MonadExceptOf.throw]

/-! ### facts used by C10 -/

theorem wildFree_iff (cs : List CItem) :
    wildFree cs = true ↔ ∀ p, CItem.nuc p ∈ cs → ∃ r, resolve p none = .ok r := by
  induction cs with
  | nil => simp [wildFree]
  | cons c r ih =>
    cases c with
    | obj i bs => simp [wildFree, ih]
    | nuc q =>
      simp only [wildFree, Bool.and_eq_true, beq_iff_eq, ih, List.mem_cons, CItem.nuc.injEq]
      constructor
      · rintro ⟨h0, hr⟩ p (rfl | hp)
        · exact ⟨_, resolve_none_of_zero h0⟩
        · exact hr p hp
      · intro h
        refine ⟨?_, fun p hp => h p (Or.inr hp)⟩
        obtain ⟨x, hx⟩ := h q (Or.inl rfl)
        exact (resolve_none_ok_iff.mp hx).1

/-- orientation, length and kind of an item (everything except its name) -/
def ItemRef.shape (i : ItemRef) : Bool × Nat × Bool := (i.rev, i.len, i.isSup)
def BaseRef.shape (b : BaseRef) : Bool × Nat := (b.rev, b.len)

theorem refsFrom_shape (k k' : Nat) (cs : List CItem) :
    (refsFrom k cs).map ItemRef.shape = (refsFrom k' cs).map ItemRef.shape := by
  induction cs generalizing k k' with
  | nil => simp [refsFrom]
  | cons c r ih =>
    cases c with
    | obj i bs => simp [refsFrom, ih k k']
    | nuc p => simp [refsFrom, ih (k + 1) (k' + 1), ItemRef.shape]

theorem basesFrom_shape (k k' : Nat) (cs : List CItem) :
    (basesFrom k cs).map BaseRef.shape = (basesFrom k' cs).map BaseRef.shape := by
  induction cs generalizing k k' with
  | nil => simp [basesFrom]
  | cons c r ih =>
    cases c with
    | obj i bs => simp [basesFrom, ih k k']
    | nuc p => simp [basesFrom, ih (k + 1) (k' + 1), BaseRef.shape]

theorem refsFrom_getElem?_obj (k : Nat) (cs : List CItem) (idx : Nat) (i : ItemRef) (bs : List BaseRef)
    (h : cs[idx]? = some (.obj i bs)) : (refsFrom k cs)[idx]? = some i := by
  induction cs generalizing k idx with
  | nil => simp at h
  | cons c r ih =>
    cases idx with
    | zero => simp at h; subst h; simp [refsFrom]
    | succ n =>
      simp at h
      cases c <;> simp [refsFrom, ih _ n h]

/-- names are kept for every item outside one position of a list `a ++ x :: b` -/
theorem getElem?_obj_middle (k k' : Nat) (pre post : List CItem) (x : CItem) (y : ItemRef) (idx : Nat)
    (i : ItemRef) (bs : List BaseRef) (h : (pre ++ x :: post)[idx]? = some (.obj i bs))
    (hx : ∀ i bs, x ≠ .obj i bs) :
    (refsFrom k pre ++ y :: refsFrom k' post)[idx]? = some i := by
  by_cases hlt : idx < pre.length
  · rw [List.getElem?_append_left hlt] at h
    rw [List.getElem?_append_left (by simpa using hlt)]
    exact refsFrom_getElem?_obj k pre idx i bs h
  · have hge : pre.length ≤ idx := by omega
    rw [List.getElem?_append_right hge] at h
    rw [List.getElem?_append_right (by simpa using hge)]
    simp only [refsFrom_length]
    cases hd : idx - pre.length with
    | zero => simp [hd] at h; exact absurd h (hx i bs)
    | succ n =>
      simp [hd] at h ⊢
      exact refsFrom_getElem?_obj k' post n i bs h

/-! ### the two shapes of an accepted build -/

/-- an accepted `buildSuper`: either no wildcard region (and the declared length, if any, is the sum), or
    exactly one, a declared length that leaves a non-negative remainder, and the closed form of the result -/
theorem buildSuper_ok_cases {a : Nat} {cs : List CItem} {len : Option Nat} {b : Built}
    (h : buildSuper a cs len = .ok b) :
    (wildFree cs = true ∧ (len = none ∨ len = some (lenSum cs)) ∧
      b = ⟨refsFrom a cs, basesFrom a cs, lenSum cs, anonsFrom a cs, a + nucCount cs⟩) ∨
    (∃ pre w post L, cs = pre ++ .nuc w :: post ∧ wildFree pre = true ∧ wildCount w = 1 ∧
      wildFree post = true ∧ len = some L ∧ lenSum pre + lenSum post + fixedSum w ≤ L ∧
      b = ⟨refsFrom a pre ++ ⟨anonName (a + nucCount pre + nucCount post), false, L - (lenSum pre + lenSum post), false⟩ ::
              refsFrom (a + nucCount pre) post,
           basesFrom a pre ++ ⟨anonName (a + nucCount pre + nucCount post), false, L - (lenSum pre + lenSum post)⟩ ::
              basesFrom (a + nucCount pre) post,
           L,
           anonsFrom a pre ++ anonsFrom (a + nucCount pre) post ++
             [mkAnon (a + nucCount pre + nucCount post) (L - (lenSum pre + lenSum post))
                (expand (L - (lenSum pre + lenSum post) - fixedSum w) w)],
           a + nucCount pre + nucCount post + 1⟩) := by
  cases hf : buildFold cs { anon := a } with
  | error e => simp [buildSuper, hf, bind, Except.bind] at h
  | ok A' =>
    rcases buildFold_ok_cases hf with hw | ⟨pre, w, post, rfl, hpre, hw, hpost, _⟩
    · left
      rw [buildSuper_wildFree hw] at h
      split at h
      · rename_i hl
        simp only [Except.ok.injEq] at h
        exact ⟨hw, hl, h.symm⟩
      · simp at h
    · right
      cases len with
      | none => rw [buildSuper_wild_none hpre hw hpost] at h; simp at h
      | some L =>
        rw [buildSuper_wild hpre hw hpost] at h
        split at h
        · simp at h
        · split at h
          · simp at h
          · simp only [Except.ok.injEq] at h
            exact ⟨pre, w, post, L, rfl, hpre, hw, hpost, rfl, by omega, h.symm⟩

end Pepper.Comp
