import PepperProofs.ParseSysDefs
import PepperProofs.SysPil
/-!
# `.sys` text parser: what accepted text looks like, line-locality of the statement loop, irrelevance of the
process-global white-space setting inside the loop, and the link to the system-level name hypotheses
-/
namespace Pepper.ParseSys
open Pepper.Sys

/-! ## generic lemmas about the combinators -/

theorem all_takeWhile (p : Char → Bool) (l : Str) : (l.takeWhile p).all p = true := by
  induction l with
  | nil => rfl
  | cons c r ih =>
    simp only [List.takeWhile_cons]
    split
    · simp only [List.all_cons, Bool.and_eq_true]; exact ⟨‹_›, ih⟩
    · rfl

/-- the shape of everything `word` accepts -/
theorem word_spec {init body : Char → Bool} {s w r : Str} (h : word init body s = some (w, r)) :
    ∃ c r0, skip s = c :: r0 ∧ init c = true ∧ w = c :: r0.takeWhile body ∧ r = r0.dropWhile body := by
  unfold word at h
  split at h
  · cases h
  · rename_i c r0 hs
    split at h
    · rename_i hi
      cases h
      exact ⟨c, r0, hs, hi, rfl, rfl⟩
    · cases h

theorem more_all {α : Type} {P : α → Prop} {delim : Str} {item : Str → Option (α × Str)}
    (hi : ∀ s x r, item s = some (x, r) → P x) :
    ∀ (fuel : Nat) (s : Str), ∀ x ∈ (more delim item fuel s).1, P x := by
  intro fuel
  induction fuel with
  | zero => intro s x hx; simp [more] at hx
  | succ n ih =>
    intro s x hx
    unfold more at hx
    split at hx
    · simp at hx
    · split at hx
      · simp at hx
      · rename_i y r' hy
        simp only [List.mem_cons] at hx
        rcases hx with rfl | hx
        · exact hi _ _ _ hy
        · exact ih _ _ hx

theorem list1_all {α : Type} {P : α → Prop} {delim : Str} {item : Str → Option (α × Str)}
    (hi : ∀ s x r, item s = some (x, r) → P x) {s : Str} {xs : List α} {r : Str}
    (h : list1 delim item s = some (xs, r)) : xs ≠ [] ∧ ∀ x ∈ xs, P x := by
  unfold list1 at h
  split at h
  · cases h
  · rename_i y r0 hy
    simp only [Option.some.injEq, Prod.mk.injEq] at h
    obtain ⟨rfl, -⟩ := h
    refine ⟨by simp, ?_⟩
    intro x hx
    simp only [List.mem_cons] at hx
    rcases hx with rfl | hx
    · exact hi _ _ _ hy
    · exact more_all hi _ _ _ hx

theorem listOf_all {α : Type} {P : α → Prop} {delim : Str} {item : Str → Option (α × Str)}
    (hi : ∀ s x r, item s = some (x, r) → P x) (s : Str) : ∀ x ∈ (listOf delim item s).1, P x := by
  unfold listOf
  split
  · intro x hx; simp at hx
  · rename_i r hr
    obtain ⟨xs, r'⟩ := r
    exact (list1_all hi hr).2

/-! ## Part 1 — what accepted text looks like -/

theorem var_nameOk {s n r : Str} (h : var s = some (n, r)) : nameOk (String.ofList n) = true := by
  obtain ⟨c, r0, -, hi, rfl, -⟩ := word_spec h
  simp only [nameOk, String.toList_ofList, Bool.and_eq_true]
  exact ⟨hi, all_takeWhile _ _⟩

theorem path_pathOk {s p r : Str} (h : path s = some (p, r)) : pathOk (String.ofList p) = true := by
  obtain ⟨c, r0, -, hi, rfl, -⟩ := word_spec h
  simp only [pathOk, String.toList_ofList, List.isEmpty_cons, Bool.not_false, Bool.true_and, List.all_cons,
    Bool.and_eq_true]
  exact ⟨hi, all_takeWhile _ _⟩

theorem signal_nameOk (s : Str) (x : SigRef) (r : Str) (h : signal s = some (x, r)) : nameOk x.name = true := by
  unfold signal at h
  split at h
  · cases h
  · rename_i n r0 hv
    split at h <;> (cases h; exact var_nameOk hv)

theorem signalList_sigsOk (s : Str) : sigsOk (signalList s).1 = true := by
  simp only [sigsOk, List.all_eq_true]
  exact listOf_all (P := fun (r : SigRef) => nameOk r.name = true) signal_nameOk s

theorem importItem_itemOk (s : Str) (x : String × Option String) (r : Str) (h : importItem s = some (x, r)) :
    itemOk x = true := by
  unfold importItem at h
  split at h
  · cases h
  · rename_i p r0 hp
    have hpo := path_pathOk hp
    split at h
    · cases h; simp [itemOk, hpo]
    · split at h
      · cases h; simp [itemOk, hpo]
      · rename_i a r2 ha
        cases h
        simp [itemOk, hpo, var_nameOk ha]

theorem declParams_namesOk (s : Str) : (declParams s).1.all nameOk = true := by
  unfold declParams
  split
  · rfl
  · split
    rename_i ps r' hl
    split
    · simp only [List.all_map, List.all_eq_true, Function.comp]
      intro x hx
      have := listOf_all (P := fun n => nameOk (String.ofList n) = true) (delim := [','])
        (fun s n r h => var_nameOk h) _ x (by rw [hl]; exact hx)
      exact this
    · rfl

theorem parseImportL_namesOk (dw s : Str) (items : List (String × Option String))
    (h : parseImportL dw s = some items) : stmtNamesOk (.imports items) = true := by
  unfold parseImportL at h
  split at h
  · cases h
  · split at h
    · cases h
    · rename_i its r' hl
      split at h
      · cases h
        obtain ⟨hne, hall⟩ := list1_all (P := fun x => itemOk x = true) importItem_itemOk hl
        simp only [stmtNamesOk, Bool.and_eq_true, Bool.not_eq_true', List.isEmpty_eq_false_iff, List.all_eq_true]
        exact ⟨hne, hall⟩
      · cases h

theorem parseComponentL_namesOk (dw s : Str) (st : SStmt) (h : parseComponentL dw s = .ok st) :
    stmtNamesOk st = true := by
  unfold parseComponentL at h
  split at h
  · cases h
  · split at h
    · cases h
    · rename_i name r2 hname
      split at h
      · cases h
      · split at h
        · cases h
        · rename_i templ r4 htempl
          split at h
          · cases h
          · split at h
            · cases h
            · rename_i r6 _
              split at h
              rename_i ins r7 hins
              split at h
              · cases h
              · rename_i r8 _
                split at h
                rename_i outs r9 houts
                split at h
                · cases h
                  have h1 := signalList_sigsOk r6
                  have h2 := signalList_sigsOk r8
                  rw [hins] at h1
                  rw [houts] at h2
                  simp only [stmtNamesOk, Bool.and_eq_true]
                  exact ⟨⟨⟨var_nameOk hname, var_nameOk htempl⟩, h1⟩, h2⟩
                · cases h

theorem parseDeclareL_namesOk (dw s : Str) (d : Decl) (h : parseDeclareL dw s = some d) :
    declNamesOk d = true := by
  unfold parseDeclareL at h
  split at h
  · cases h
  · split at h
    · cases h
    · split at h
      · cases h
      · rename_i name r3 hname
        split at h
        rename_i ps r4 hps
        split at h
        · cases h
        · rename_i r5 _
          split at h
          rename_i ins r6 hins
          split at h
          · cases h
          · rename_i r7 _
            split at h
            rename_i outs r8 houts
            split at h
            · cases h
              have h0 := declParams_namesOk r3
              have h1 := signalList_sigsOk r5
              have h2 := signalList_sigsOk r7
              rw [hps] at h0
              rw [hins] at h1
              rw [houts] at h2
              simp only [declNamesOk, Bool.and_eq_true]
              exact ⟨⟨⟨var_nameOk hname, h0⟩, h1⟩, h2⟩
            · cases h

theorem parseStmtL_namesOk (dw c : Str) (st : SStmt) (h : parseStmtL dw c = .ok st) : stmtNamesOk st = true := by
  unfold parseStmtL at h
  dsimp only at h
  split at h
  · cases h
  · split at h
    · split at h
      · rename_i items hi
        cases h
        exact parseImportL_namesOk dw c items hi
      · cases h
    · split at h
      · exact parseComponentL_namesOk dw c st h
      · cases h

theorem parseLineL_namesOk (dw l : Str) (st : SStmt) (h : parseLineL dw l = .ok (some st)) :
    stmtNamesOk st = true := by
  unfold parseLineL at h
  dsimp only at h
  split at h
  · cases h
  · split at h
    · cases h
    · rename_i st' hs
      cases h
      exact parseStmtL_namesOk dw _ _ hs

/-! ## Part 2 — the statement loop is line-local -/

theorem parseLines_ok_iff (dw : Str) (ls : List Str) (sts : List SStmt) :
    parseLines dw ls = .ok sts ↔
      ∃ rs : List (Option SStmt), ls.map (parseLineL dw) = rs.map Except.ok ∧ sts = rs.filterMap id := by
  induction ls generalizing sts with
  | nil =>
    simp only [parseLines, List.map_nil]
    constructor
    · intro h; cases h; exact ⟨[], rfl, rfl⟩
    · rintro ⟨rs, h1, h2⟩
      cases rs with
      | nil => rw [h2]; rfl
      | cons a b => simp at h1
  | cons l r ih =>
    unfold parseLines
    simp only [List.map_cons]
    cases hl : parseLineL dw l with
    | error e =>
      dsimp only
      constructor
      · intro h; cases h
      · rintro ⟨rs, h1, -⟩
        cases rs with
        | nil => simp at h1
        | cons a b => simp at h1
    | ok o =>
      cases o with
      | none =>
        dsimp only
        rw [ih]
        constructor
        · rintro ⟨rs, h1, h2⟩
          exact ⟨none :: rs, by simp [h1], by simpa using h2⟩
        · rintro ⟨rs, h1, h2⟩
          cases rs with
          | nil => simp at h1
          | cons a b =>
            simp only [List.map_cons, List.cons.injEq, Except.ok.injEq] at h1
            obtain ⟨rfl, h1⟩ := h1
            exact ⟨b, h1, by simpa using h2⟩
      | some st =>
        dsimp only
        constructor
        · intro h
          split at h
          · cases h
          · rename_i sts' hr
            cases h
            obtain ⟨rs, h1, h2⟩ := (ih sts').1 hr
            exact ⟨some st :: rs, by simp [h1], by simp [h2]⟩
        · rintro ⟨rs, h1, h2⟩
          cases rs with
          | nil => simp at h1
          | cons a b =>
            simp only [List.map_cons, List.cons.injEq, Except.ok.injEq] at h1
            obtain ⟨rfl, h1⟩ := h1
            have := (ih (b.filterMap id)).2 ⟨b, h1, rfl⟩
            rw [this, h2]
            simp

theorem parseLines_error_iff (dw : Str) (ls : List Str) :
    (∃ e, parseLines dw ls = .error e) ↔ ∃ l ∈ ls, ∃ e, parseLineL dw l = .error e := by
  induction ls with
  | nil => simp [parseLines]
  | cons l r ih =>
    unfold parseLines
    cases hl : parseLineL dw l with
    | error e =>
      dsimp only
      constructor
      · intro _; exact ⟨l, by simp, e, hl⟩
      · intro _; exact ⟨e, rfl⟩
    | ok o =>
      have hne : ¬ ∃ e, parseLineL dw l = .error e := by rintro ⟨e, he⟩; rw [hl] at he; cases he
      have hrhs : (∃ l' ∈ l :: r, ∃ e, parseLineL dw l' = .error e) ↔ ∃ l' ∈ r, ∃ e, parseLineL dw l' = .error e := by
        constructor
        · rintro ⟨l', hm, e, he⟩
          simp only [List.mem_cons] at hm
          rcases hm with rfl | hm
          · exact absurd ⟨e, he⟩ hne
          · exact ⟨l', hm, e, he⟩
        · rintro ⟨l', hm, e, he⟩
          exact ⟨l', by simp [hm], e, he⟩
      rw [hrhs, ← ih]
      cases o with
      | none => exact Iff.rfl
      | some st =>
        dsimp only
        cases parseLines dw r with
        | error e => dsimp only; constructor <;> (intro _; exact ⟨e, rfl⟩)
        | ok sts =>
          dsimp only
          constructor <;> (rintro ⟨e, he⟩; cases he)

theorem parseDocL_ok_iff (dw decl doc : Str) (src : SSrc) :
    parseDocL dw decl doc = .ok src ↔
      ∃ d sts, parseDeclareL dw decl = some d ∧ parseLines dw (splitOn '\n' doc) = .ok sts ∧
        src = ⟨d.name, d.params, d.inputs, d.outputs, sts⟩ := by
  unfold parseDocL
  cases hd : parseDeclareL dw decl with
  | none =>
    dsimp only
    constructor
    · intro h; cases h
    · rintro ⟨d, sts, h, -⟩; cases h
  | some d =>
    dsimp only
    cases hl : parseLines dw (splitOn '\n' doc) with
    | error e =>
      dsimp only
      constructor
      · intro h; cases h
      · rintro ⟨d', sts, -, h, -⟩; cases h
    | ok sts =>
      dsimp only
      constructor
      · intro h; cases h; exact ⟨d, sts, rfl, rfl, rfl⟩
      · rintro ⟨d', sts', h1, h2, h3⟩
        cases h1; cases h2; rw [h3]

theorem parseLines_namesOk (dw : Str) (ls : List Str) (sts : List SStmt) (h : parseLines dw ls = .ok sts) :
    sts.all stmtNamesOk = true := by
  obtain ⟨rs, h1, rfl⟩ := (parseLines_ok_iff dw ls sts).1 h
  simp only [List.all_eq_true, List.mem_filterMap, id]
  rintro st ⟨o, ho, rfl⟩
  have : Except.ok (some st) ∈ rs.map (Except.ok (ε := Err)) := List.mem_map.2 ⟨_, ho, rfl⟩
  rw [← h1] at this
  obtain ⟨l, -, hl⟩ := List.mem_map.1 this
  exact parseLineL_namesOk dw l st hl

theorem parseDocL_namesOk (dw decl doc : Str) (src : SSrc) (h : parseDocL dw decl doc = .ok src) :
    srcNamesOk src = true := by
  obtain ⟨d, sts, hd, hl, rfl⟩ := (parseDocL_ok_iff dw decl doc src).1 h
  simp only [srcNamesOk, Bool.and_eq_true]
  exact ⟨parseDeclareL_namesOk dw decl d hd, parseLines_namesOk dw _ sts hl⟩

/-! ## Part 3 — inside the statement loop the process-global white-space setting cannot matter -/

/-- every character of `dw` is white space for `str.strip` (true of every value the package ever sets:
    " \t", " \t\n", " \n\t\r") -/
def dwOk (dw : Str) : Bool := dw.all isSp

/-- empty, or ending in a character that `str.strip` does not remove -/
def EndsHard (s : Str) : Prop := s = [] ∨ ∃ c, s.getLast? = some c ∧ isSp c = false

theorem EndsHard.suffix {s t : Str} (h : EndsHard s) (hs : t <:+ s) : EndsHard t := by
  cases t with
  | nil => exact .inl rfl
  | cons a b =>
    obtain ⟨p, rfl⟩ := hs
    rcases h with h | ⟨c, hc, hsp⟩
    · simp at h
    · right
      rw [List.getLast?_append] at hc
      cases hl : (a :: b).getLast? with
      | none => simp at hl
      | some d =>
        rw [hl] at hc
        have hc' : d = c := by simpa using hc
        exact ⟨d, rfl, hc' ▸ hsp⟩

theorem dropWhile_head {p : Char → Bool} {l : Str} {c : Char} {r : Str} (h : l.dropWhile p = c :: r) :
    p c = false := by
  induction l with
  | nil => simp at h
  | cons a b ih =>
    simp only [List.dropWhile_cons] at h
    split at h
    · exact ih h
    · rename_i hp
      cases h
      simpa using hp

theorem dropWhile_nil {p : Char → Bool} {l : Str} (h : l.dropWhile p = []) : ∀ x ∈ l, p x = true := by
  induction l with
  | nil => intro x hx; cases hx
  | cons a b ih =>
    simp only [List.dropWhile_cons] at h
    split at h
    · rename_i hp
      intro x hx
      simp only [List.mem_cons] at hx
      rcases hx with rfl | hx
      · exact hp
      · exact ih h x hx
    · cases h

theorem endsHard_strip (s : Str) : EndsHard (strip s) := by
  unfold strip rstrip
  cases h : (lstrip s).reverse.dropWhile isSp with
  | nil => exact .inl rfl
  | cons c r =>
    right
    refine ⟨c, ?_, dropWhile_head h⟩
    simp

theorem expandTabs_snoc (s : Str) (c : Char) (hc : isSp c = false) (col : Nat) :
    expandTabs (s ++ [c]) col = expandTabs s col ++ [c] := by
  induction s generalizing col with
  | nil =>
    have h1 : (c == '\t') = false := by
      cases h : c == '\t' with
      | false => rfl
      | true => rw [eq_of_beq h] at hc; revert hc; decide
    simp only [List.nil_append, expandTabs, h1, Bool.false_eq_true, if_false]
    split <;> rfl
  | cons a b ih =>
    simp only [List.cons_append, expandTabs]
    split
    · rw [ih, List.append_assoc]
    · split
      · rw [ih, List.cons_append]
      · rw [ih, List.cons_append]

theorem endsHard_expandTabs {s : Str} (h : EndsHard s) (col : Nat) : EndsHard (expandTabs s col) := by
  rcases h with rfl | ⟨c, hc, hsp⟩
  · exact .inl rfl
  · obtain ⟨ys, rfl⟩ := List.getLast?_eq_some_iff.1 hc
    rw [expandTabs_snoc _ _ hsp]
    exact .inr ⟨c, by simp, hsp⟩

/-! ### every parser returns a suffix of its input -/

theorem skipWs_suffix (s : Str) : skipWs s <:+ s := by
  induction s with
  | nil => exact List.suffix_refl _
  | cons c r ih =>
    unfold skipWs
    split
    · exact ih.trans (List.suffix_cons _ _)
    · exact List.suffix_refl _

theorem skipLine_suffix (s : Str) : skipLine s <:+ s := by
  induction s with
  | nil => exact List.suffix_refl _
  | cons c r ih =>
    unfold skipLine
    split
    · exact List.suffix_refl _
    · exact ih.trans (List.suffix_cons _ _)

theorem skip_suffix (s : Str) : skip s <:+ s := by
  unfold skip
  split
  · rename_i r h
    have := skipWs_suffix s
    rw [h] at this
    exact (skipLine_suffix r).trans ((List.suffix_cons _ _).trans this)
  · exact skipWs_suffix s

theorem dropPrefix_suffix {p s r : Str} (h : dropPrefix p s = some r) : r <:+ s := by
  induction p generalizing s with
  | nil => simp only [dropPrefix, Option.some.injEq] at h; rw [h]; exact List.suffix_refl _
  | cons a b ih =>
    cases s with
    | nil => simp [dropPrefix] at h
    | cons c t =>
      simp only [dropPrefix] at h
      split at h
      · exact (ih h).trans (List.suffix_cons _ _)
      · cases h

theorem lit_suffix {p s r : Str} (h : lit p s = some r) : r <:+ s :=
  (dropPrefix_suffix h).trans (skip_suffix s)

theorem word_suffix {init body : Char → Bool} {s w r : Str} (h : word init body s = some (w, r)) : r <:+ s := by
  obtain ⟨c, r0, hs, -, -, rfl⟩ := word_spec h
  have := skip_suffix s
  rw [hs] at this
  exact (List.dropWhile_suffix _).trans ((List.suffix_cons _ _).trans this)

theorem kw_suffix {k s r : Str} (h : kw k s = some r) : r <:+ s := by
  unfold kw at h
  dsimp only at h
  split at h
  · split at h
    · cases h; exact List.nil_suffix
    · rename_i c t hd
      split at h
      · cases h
      · cases h
        rw [← hd]
        exact (List.drop_suffix _ _).trans (skip_suffix s)
  · cases h

theorem more_suffix {α : Type} {delim : Str} {item : Str → Option (α × Str)}
    (hi : ∀ s x r, item s = some (x, r) → r <:+ s) :
    ∀ (fuel : Nat) (s : Str), (more delim item fuel s).2 <:+ s := by
  intro fuel
  induction fuel with
  | zero => intro s; exact List.suffix_refl _
  | succ n ih =>
    intro s
    unfold more
    split
    · exact List.suffix_refl _
    · rename_i r hl
      split
      · exact List.suffix_refl _
      · rename_i x r' hx
        exact (ih r').trans ((hi _ _ _ hx).trans (lit_suffix hl))

theorem list1_suffix {α : Type} {delim : Str} {item : Str → Option (α × Str)}
    (hi : ∀ s x r, item s = some (x, r) → r <:+ s) {s : Str} {xs : List α} {r : Str}
    (h : list1 delim item s = some (xs, r)) : r <:+ s := by
  unfold list1 at h
  split at h
  · cases h
  · rename_i y r0 hy
    simp only [Option.some.injEq, Prod.mk.injEq] at h
    obtain ⟨-, rfl⟩ := h
    exact (more_suffix hi _ _).trans (hi _ _ _ hy)

theorem listOf_suffix {α : Type} {delim : Str} {item : Str → Option (α × Str)}
    (hi : ∀ s x r, item s = some (x, r) → r <:+ s) (s : Str) : (listOf delim item s).2 <:+ s := by
  unfold listOf
  split
  · exact List.suffix_refl _
  · rename_i r hr
    obtain ⟨xs, r'⟩ := r
    exact list1_suffix hi hr

theorem signal_suffix (s : Str) (x : SigRef) (r : Str) (h : signal s = some (x, r)) : r <:+ s := by
  unfold signal at h
  split at h
  · cases h
  · rename_i n r0 hv
    split at h
    · rename_i r' hl
      cases h
      exact (lit_suffix hl).trans (word_suffix hv)
    · cases h
      exact word_suffix hv

theorem signalList_suffix (s : Str) : (signalList s).2 <:+ s := listOf_suffix signal_suffix s

theorem importItem_suffix (s : Str) (x : String × Option String) (r : Str) (h : importItem s = some (x, r)) :
    r <:+ s := by
  unfold importItem at h
  split at h
  · cases h
  · rename_i p r0 hp
    split at h
    · cases h; exact word_suffix hp
    · rename_i r1 hl
      split at h
      · cases h; exact word_suffix hp
      · rename_i a r2 ha
        cases h
        exact (word_suffix ha).trans ((lit_suffix hl).trans (word_suffix hp))

theorem pyObj_suffix {s r : Str} (h : pyObj s = .ok (some r)) : r <:+ s := by
  unfold pyObj at h
  split at h
  · cases h
  · rename_i a r0 hw
    split at h
    · cases h; exact word_suffix hw
    · cases h
    · cases h

theorem pyMore_suffix : ∀ (fuel : Nat) (s : Str) (n : Nat) (r : Str), pyMore fuel s = .ok (n, r) → r <:+ s := by
  intro fuel
  induction fuel with
  | zero => intro s n r h; simp only [pyMore, Except.ok.injEq, Prod.mk.injEq] at h; rw [← h.2]; exact List.suffix_refl _
  | succ k ih =>
    intro s n r h
    unfold pyMore at h
    split at h
    · cases h; exact List.suffix_refl _
    · rename_i r1 hl
      split at h
      · cases h
      · cases h; exact List.suffix_refl _
      · rename_i r' hp
        split at h
        · cases h
        · rename_i m r'' hm
          cases h
          exact (ih _ _ _ hm).trans ((pyObj_suffix hp).trans (lit_suffix hl))

theorem pyList_suffix {s : Str} {n : Nat} {r : Str} (h : pyList s = .ok (n, r)) : r <:+ s := by
  unfold pyList at h
  split at h
  · cases h
  · cases h; exact List.suffix_refl _
  · rename_i r0 hp
    split at h
    · cases h
    · rename_i m r' hm
      cases h
      exact (pyMore_suffix _ _ _ _ hm).trans (pyObj_suffix hp)

theorem componentParams_suffix {s : Str} {n : Nat} {r : Str} (h : componentParams s = .ok (n, r)) : r <:+ s := by
  unfold componentParams at h
  split at h
  · cases h; exact List.suffix_refl _
  · rename_i r0 hl
    split at h
    · cases h
    · rename_i m r' hp
      split at h
      · rename_i r'' hl2
        cases h
        exact (lit_suffix hl2).trans ((pyList_suffix hp).trans (lit_suffix hl))
      · cases h; exact List.suffix_refl _

/-! ### the statements -/

/-- at a position of a stripped statement, `parseAll` does not depend on the white-space setting -/
theorem endOk_eq {dw r : Str} (hdw : dwOk dw = true) (hr : EndsHard r) :
    endOk dw r = (skip r).isEmpty := by
  unfold endOk
  rcases hr.suffix (skip_suffix r) with h | ⟨c, hc, hsp⟩
  · rw [h]; rfl
  · have hm := List.mem_of_getLast? hc
    have hnc : dw.contains c = false := by
      cases hcon : dw.contains c with
      | false => rfl
      | true =>
        have : c ∈ dw := by simpa using hcon
        have := List.all_eq_true.1 hdw c this
        rw [this] at hsp; cases hsp
    have h1 : (skip r).dropWhile (fun c => dw.contains c) ≠ [] := by
      intro h
      have := dropWhile_nil h c hm
      rw [hnc] at this; cases this
    have h2 : skip r ≠ [] := by intro h; rw [h] at hm; cases hm
    cases h3 : (skip r).dropWhile (fun c => dw.contains c) with
    | nil => exact absurd h3 h1
    | cons a b =>
      cases h4 : skip r with
      | nil => exact absurd h4 h2
      | cons a' b' => rfl

theorem endOk_dw {dw dw' r : Str} (h : dwOk dw = true) (h' : dwOk dw' = true) (hr : EndsHard r) :
    endOk dw r = endOk dw' r := by
  rw [endOk_eq h hr, endOk_eq h' hr]

theorem parseImportL_dw (dw dw' s0 : Str) (h : dwOk dw = true) (h' : dwOk dw' = true)
    (hs : EndsHard (expandTabs s0 0)) : parseImportL dw s0 = parseImportL dw' s0 := by
  unfold parseImportL
  cases hk : kw "import".toList (expandTabs s0 0) with
  | none => rfl
  | some r =>
    dsimp only
    cases hl : list1 [','] importItem r with
    | none => rfl
    | some p =>
      obtain ⟨items, r'⟩ := p
      dsimp only
      rw [endOk_dw h h' (hs.suffix ((list1_suffix importItem_suffix hl).trans (kw_suffix hk)))]

theorem parseComponentL_dw (dw dw' s0 : Str) (h : dwOk dw = true) (h' : dwOk dw' = true)
    (hs : EndsHard (expandTabs s0 0)) : parseComponentL dw s0 = parseComponentL dw' s0 := by
  unfold parseComponentL
  cases hk : kw "component".toList (expandTabs s0 0) with
  | none => rfl
  | some r1 =>
    dsimp only
    cases hn : var r1 with
    | none => rfl
    | some p =>
      obtain ⟨name, r2⟩ := p
      dsimp only
      cases he : lit ['='] r2 with
      | none => rfl
      | some r3 =>
        dsimp only
        cases ht : var r3 with
        | none => rfl
        | some p =>
          obtain ⟨templ, r4⟩ := p
          dsimp only
          cases hc : componentParams r4 with
          | error e => rfl
          | ok p =>
            obtain ⟨n, r5⟩ := p
            dsimp only
            cases hcol : lit [':'] r5 with
            | none => rfl
            | some r6 =>
              dsimp only
              cases hi : signalList r6 with
              | mk ins r7 =>
                dsimp only
                cases ha : lit ['-', '>'] r7 with
                | none => rfl
                | some r8 =>
                  dsimp only
                  cases ho : signalList r8 with
                  | mk outs r9 =>
                    dsimp only
                    have s1 := kw_suffix hk
                    have s2 := word_suffix hn
                    have s3 := lit_suffix he
                    have s4 := word_suffix ht
                    have s5 := componentParams_suffix hc
                    have s6 := lit_suffix hcol
                    have s7 := signalList_suffix r6
                    have s8 := lit_suffix ha
                    have s9 := signalList_suffix r8
                    rw [hi] at s7
                    rw [ho] at s9
                    have : r9 <:+ expandTabs s0 0 :=
                      s9.trans (s8.trans (s7.trans (s6.trans (s5.trans (s4.trans (s3.trans (s2.trans s1)))))))
                    rw [endOk_dw h h' (hs.suffix this)]

theorem parseStmtL_dw (dw dw' c : Str) (h : dwOk dw = true) (h' : dwOk dw' = true) (hc : EndsHard c) :
    parseStmtL dw c = parseStmtL dw' c := by
  have hs := endsHard_expandTabs hc 0
  unfold parseStmtL
  rw [parseImportL_dw dw dw' c h h' hs, parseComponentL_dw dw dw' c h h' hs]

theorem parseLineL_dw_irrelevant (dw dw' l : Str) (h : dwOk dw = true) (h' : dwOk dw' = true) :
    parseLineL dw l = parseLineL dw' l := by
  unfold parseLineL
  dsimp only
  rw [parseStmtL_dw dw dw' (cleanLine l) h h' (endsHard_strip _)]

theorem parseLines_dw_irrelevant (dw dw' : Str) (ls : List Str) (h : dwOk dw = true) (h' : dwOk dw' = true) :
    parseLines dw ls = parseLines dw' ls := by
  induction ls with
  | nil => rfl
  | cons l r ih =>
    unfold parseLines
    rw [parseLineL_dw_irrelevant dw dw' l h h', ih]

/-- the values the package sets satisfy `dwOk` -/
example : dwOk " \t".toList = true ∧ dwOk " \t\n".toList = true ∧ dwOk " \n\t\r".toList = true := by decide

/-! ## Part 4 — link to the system-level theorems -/

theorem isVarC_of_isVar0 {c : Char} (h : isVar0 c = true) : isVarC c = true := by
  simp only [isVar0] at h
  simp [isVarC, Char.isAlphanum, h]

theorem nameOk_chars {n : String} (h : nameOk n = true) : n.toList ≠ [] ∧ ∀ c ∈ n.toList, isVarC c = true := by
  unfold nameOk at h
  split at h
  · rename_i c r hn
    simp only [Bool.and_eq_true, List.all_eq_true] at h
    rw [hn]
    refine ⟨by simp, ?_⟩
    intro x hx
    simp only [List.mem_cons] at hx
    rcases hx with rfl | hx
    · exact isVarC_of_isVar0 h.1
    · exact h.2 x hx
  · cases h

theorem nameOk_noDash {n : String} (h : nameOk n = true) : n.toList.contains '-' = false := by
  cases hc : n.toList.contains '-' with
  | false => rfl
  | true =>
    have := (nameOk_chars h).2 '-' (by simpa using hc)
    revert this; decide

theorem sigNameOk_of_nameOk {n : String} (h : nameOk n = true) : Pepper.SysProofs.sigNameOk n = true := by
  simp only [Pepper.SysProofs.sigNameOk, Bool.and_eq_true, Bool.not_eq_true', nameOk_noDash h, and_true]
  obtain ⟨hne, hall⟩ := nameOk_chars h
  unfold Pepper.Comp.endsOk
  cases hr : n.toList.reverse with
  | nil => exact absurd (List.reverse_eq_nil_iff.1 hr) hne
  | cons c r =>
    have hc : c ∈ n.toList := by
      have : c ∈ n.toList.reverse := by rw [hr]; simp
      simpa using this
    have := hall c hc
    simp only [bne_iff_ne, ne_eq]
    rintro rfl
    revert this; decide

theorem sstmtOk_of_stmtNamesOk {st : SStmt} (h : stmtNamesOk st = true) : Pepper.SysProofs.sstmtOk st = true := by
  cases st with
  | imports items => rfl
  | component cname templ args ins outs =>
    simp only [stmtNamesOk, Bool.and_eq_true, sigsOk, List.all_eq_true] at h
    obtain ⟨⟨⟨h1, -⟩, h3⟩, h4⟩ := h
    simp only [Pepper.SysProofs.sstmtOk, Bool.and_eq_true, Bool.not_eq_true', nameOk_noDash h1, true_and,
      List.all_eq_true, List.mem_append]
    rintro r (hr | hr)
    · exact sigNameOk_of_nameOk (h3 r hr)
    · exact sigNameOk_of_nameOk (h4 r hr)

theorem sysNamesOk_of_srcNamesOk (src : Pepper.Sys.SSrc) (h : srcNamesOk src = true) :
    Pepper.SysProofs.sysNamesOk src = true := by
  simp only [srcNamesOk, Bool.and_eq_true, List.all_eq_true] at h
  simp only [Pepper.SysProofs.sysNamesOk, List.all_eq_true]
  intro st hst
  exact sstmtOk_of_stmtNamesOk (h.2 st hst)

theorem sysNamesOk_of_parse (dw decl doc : Str) (src : Pepper.Sys.SSrc) (h : parseDocL dw decl doc = .ok src) :
    Pepper.SysProofs.sysNamesOk src = true :=
  sysNamesOk_of_srcNamesOk src (parseDocL_namesOk dw decl doc src h)

end Pepper.ParseSys
