import PepperProofs.EndToEndAsg
/-!
# C06 end to end: where `process_results` reads the strands (strand layout)

`strand_start` of the strand layout puts strand `k` at the sum over the earlier strands of (length + 2 blanks);
C04 `layout_exact_strand` says those positions are non-blank and denote the strand's nucleotides.  So the string read
there spells the strand under the assignment of stage 1 (`StartOk`).
-/
namespace Pepper.EndToEnd
open Pepper Pepper.Pil Pepper.ConstraintGen Pepper.LinkSpec

theorem strandIdx_of_mem {spec : Spec} (wf : SpecWF spec) {k : Nat} {st : StrandObj} (hk : spec.strands[k]? = some st) :
    strandIdx spec st.name = some k := by
  unfold strandIdx
  rw [List.findIdx?_eq_some_iff_getElem]
  obtain ⟨hlt, he⟩ := List.getElem?_eq_some_iff.1 hk
  refine ⟨hlt, by simp [he], ?_⟩
  intro j hj hp
  have hjl : j < spec.strands.length := by omega
  have hname : spec.strands[j].name = st.name := by simpa using hp
  -- two indices with the same name contradict `strandNames`
  have hnd := wf.strandNames
  have h1 : (spec.strands.map (·.name))[j]? = some st.name := by
    rw [List.getElem?_map, List.getElem?_eq_getElem hjl]; simp [hname]
  have h2 : (spec.strands.map (·.name))[k]? = some st.name := by
    rw [List.getElem?_map, hk]; rfl
  have := (List.getElem?_inj (by simpa using hjl) hnd).1 (h1.trans h2.symm)
  omega

theorem startOf_strand {spec : Spec} (wf : SpecWF spec) {k : Nat} {st : StrandObj} (hk : spec.strands[k]? = some st) :
    startOf .strand spec st = some (((spec.strands.take k).map (fun o => o.len + Generated.strandGap)).sum) := by
  have hlt : k < spec.strands.length := (List.getElem?_eq_some_iff.1 hk).1
  unfold startOf
  rw [strandIdx_of_mem wf hk]
  show (layStrand spec).strandStart.getD k none = _
  have : (layStrand spec).strandStart = (layStrandAux spec.strands 0).1 := rfl
  rw [this, List.getD_eq_getElem?_getD, layStrandAux_closed _ _ _ hlt]
  simp

/-- **Layout, strand mode**: for arrays returned in the strand layout and an assignment that reads the letters of the
    non-blank indices (stage 1), every strand has a start and the string read there spells the strand. -/
theorem startOk_strand {stmts : List Stmt} {spec : Spec} (hload : Pil.load Generated.nupackTable stmts {} = .ok spec)
    {a : Arrays} (ha : getConstraints .strand spec = .ok a) {nts : List Char} {asg : Var → Base}
    (hasg : ∀ (i : Nat) (m : Nuc), denOf .strand spec i = some m → (∃ ch, a.2.2[i]? = some (some ch)) →
      nts[i]? = some (val asg m).toChar) :
    StartOk spec (startOf .strand spec) nts asg := by
  have wf := load_wf hload
  obtain ⟨s, c, hs, hb⟩ := seeding_total_strand wf
  obtain ⟨L1, L2, _⟩ := C04.layout_exact_strand hload hs hb ha
  intro st hst
  obtain ⟨k, hlt, hk⟩ := List.getElem_of_mem hst
  have hk' : spec.strands[k]? = some st := by rw [List.getElem?_eq_getElem hlt, hk]
  have hq : (k, st) ∈ enum spec.strands := mem_enum_of_getElem? hk'
  refine ⟨_, startOf_strand wf hk', ?_⟩
  have hlen : (nucsOfBases st.bases).length = st.len := wf.strandLen st hst
  apply List.ext_getElem?
  intro x
  by_cases hx : x < st.len
  · obtain ⟨hden, hin⟩ := L2 (k, st) hq x hx
    simp only at hden hin
    obtain ⟨m, hm⟩ : ∃ m, (nucsOfBases st.bases)[x]? = some m := getElem?_some_of_lt (by omega)
    have hnb : a.2.2[((spec.strands.take k).map (fun o => o.len + Generated.strandGap)).sum + x]? ≠ some none :=
      (L1 _ hin).2 ⟨(k, st), hq, x, hx, rfl⟩
    have hch : ∃ ch, a.2.2[((spec.strands.take k).map (fun o => o.len + Generated.strandGap)).sum + x]? = some (some ch) := by
      obtain ⟨v, hv⟩ := getElem?_some_of_lt hin
      cases v with
      | none => exact absurd hv hnb
      | some ch => exact ⟨ch, hv⟩
    have := hasg _ m (by rw [← hm]; exact hden) hch
    rw [List.getElem?_take, if_pos hx, List.getElem?_drop, this]
    simp [spell, hm]
  · rw [List.getElem?_take, if_neg hx]
    symm
    rw [List.getElem?_eq_none_iff, spell_length]
    omega

end Pepper.EndToEnd
