import PepperProofs.ParseCompRenderSeq
/-!
# `parse_render` for `structure` statements
-/
namespace Pepper.ParseComp
open Pepper.Comp

/-! ### `split("+")` on a rendered list of names -/

theorem splitOn_noSep {c : Char} {x : Str} (hx : ∀ ch ∈ x, ch ≠ c) : splitOn c x = [x] := by
  induction x with
  | nil => rfl
  | cons y ys ih =>
    simp only [splitOn]
    rw [if_neg (hx y (by simp)), ih (fun ch h => hx ch (by simp [h]))]

theorem splitOn_sep {c : Char} {x : Str} (hx : ∀ ch ∈ x, ch ≠ c) (rest : Str) :
    splitOn c (x ++ c :: rest) = x :: splitOn c rest := by
  induction x with
  | nil => simp [splitOn]
  | cons y ys ih =>
    simp only [List.cons_append, splitOn]
    rw [if_neg (hx y (by simp)), ih (fun ch h => hx ch (by simp [h]))]

theorem name_ne_plus {n : Str} (hall : ∀ c ∈ n, isName c = true) : ∀ ch ∈ n, ch ≠ '+' :=
  fun ch h => name_ne (hall ch h) (by decide)

theorem blank_ne_plus {g : Str} (hall : ∀ c ∈ g, isBlank c = true) : ∀ ch ∈ g, ch ≠ '+' :=
  fun ch h => blank_ne (hall ch h) (by decide)

theorem strip_name_pad {a n b : Str} (ha : ∀ c ∈ a, isBlank c = true) (hb : ∀ c ∈ b, isBlank c = true)
    (hne : n ≠ []) (hall : ∀ c ∈ n, isName c = true) : strip (a ++ (n ++ b)) = n :=
  strip_pad (fun c h => blank_isSp (ha c h)) (fun c h => blank_isSp (hb c h)) hne
    (headNot_sp_of_all hall (fun _ h => name_notSp h)).1 (headNot_sp_of_all hall (fun _ h => name_notSp h)).2

/-- the stripped pieces of `lead name₀ gap + gap name₁ … trail` are the names -/
theorem splitOn_joinPlus {sp : Nat → Str} (hsp : SpOkL sp) (ns : List Str) :
    ∀ (n : Str) (i : Nat) (lead trail : Str), (∀ c ∈ lead, isBlank c = true) → (∀ c ∈ trail, isBlank c = true) →
      (∀ x ∈ n :: ns, x ≠ [] ∧ ∀ c ∈ x, isName c = true) →
      (splitOn '+' (lead ++ (joinPlus sp i (n :: ns) ++ trail))).map strip = n :: ns := by
  induction ns with
  | nil =>
    intro n i lead trail hl ht hn
    simp only [joinPlus]
    rw [splitOn_noSep]
    · simp only [List.map_cons, List.map_nil]
      rw [strip_name_pad hl ht (hn n (by simp)).1 (hn n (by simp)).2]
    · intro ch h
      simp only [List.mem_append] at h
      rcases h with h | h | h
      · exact blank_ne_plus hl ch h
      · exact name_ne_plus (hn n (by simp)).2 ch h
      · exact blank_ne_plus ht ch h
  | cons n2 more ih =>
    intro n i lead trail hl ht hn
    simp only [joinPlus]
    have e : lead ++ (n ++ (sp i ++ '+' :: (sp (i + 1) ++ joinPlus sp (i + 2) (n2 :: more))) ++ trail) =
        (lead ++ (n ++ sp i)) ++ '+' :: (sp (i + 1) ++ (joinPlus sp (i + 2) (n2 :: more) ++ trail)) := by simp
    rw [e, splitOn_sep]
    · simp only [List.map_cons]
      rw [strip_name_pad hl (hsp.blank i) (hn n (by simp)).1 (hn n (by simp)).2]
      rw [ih n2 (i + 2) (sp (i + 1)) trail (hsp.blank (i + 1)) ht (fun x hx => hn x (by simp [hx]))]
    · intro ch h
      simp only [List.mem_append] at h
      rcases h with h | h | h
      · exact blank_ne_plus hl ch h
      · exact name_ne_plus (hn n (by simp)).2 ch h
      · exact blank_ne_plus (hsp.blank i) ch h

/-! ### rendered name lists -/

theorem joinPlus_notColon {sp : Nat → Str} (hsp : SpOkL sp) (ns : List Str) (hn : ∀ x ∈ ns, ∀ c ∈ x, isName c = true) (i : Nat) :
    ∀ c ∈ joinPlus sp i ns, notColon c = true := by
  induction ns generalizing i with
  | nil => simp [joinPlus]
  | cons n r ih =>
    cases r with
    | nil => simpa [joinPlus] using fun c hc => name_notColon (hn n (by simp) c hc)
    | cons n2 more =>
      intro c hc
      simp only [joinPlus, List.mem_append, List.mem_cons] at hc
      rcases hc with hc | hc | rfl | hc | hc
      · exact name_notColon (hn n (by simp) c hc)
      · exact blank_notColon (hsp.blank i c hc)
      · decide
      · exact blank_notColon (hsp.blank (i + 1) c hc)
      · exact ih (fun x hx => hn x (by simp [hx])) (i + 2) c hc

theorem joinPlus_head {sp : Nat → Str} (n : Str) (ns : List Str) (i : Nat) (hne : n ≠ []) :
    ∃ c r, joinPlus sp i (n :: ns) = c :: r ∧ c ∈ n := by
  cases n with
  | nil => exact absurd rfl hne
  | cons c r =>
    cases ns with
    | nil => exact ⟨c, r, rfl, by simp⟩
    | cons n2 more =>
      exact ⟨c, r ++ (sp i ++ '+' :: (sp (i + 1) ++ joinPlus sp (i + 2) (n2 :: more))), by simp only [joinPlus, List.cons_append], by simp⟩

/-! ### the part of the regex after the option group -/

theorem notationOk_struct {text : Str} (h : notationOk text = true) : ∀ c ∈ text, isStructCh c = true := by
  unfold notationOk at h
  split at h
  · exact fun c hc => hu_isStruct (List.all_eq_true.mp h c hc)
  · exact fun c hc => dp_isStruct (List.all_eq_true.mp h c hc)

theorem headNotSp_iff {text : Str} (h : headNotSp text = true) : HeadNot isSp text := by
  intro c r e
  subst e
  simpa [headNotSp] using h

theorem structTail_render {sp : Nat → Str} (hsp : SpOkL sp) (opt : OptM) (n : String) (strands : List String) (domain : Bool) (text : Str)
    (hn : nameOk n = true) (hsne : strands ≠ []) (hs : ∀ x ∈ strands, nameOk x = true)
    (htne : text ≠ []) (hth : headNotSp text = true) (htn : notationOk text = true) :
    structTail opt (sp 1 ++ (n.toList ++ (sp 2 ++ ('=' :: (sp 3 ++ (joinPlus sp 8 (strands.map String.toList) ++ (sp 4 ++ (':' ::
      ((if domain then sp 5 ++ sDomain else []) ++ (sp 6 ++ text)))))))))) =
    some (opt, n.toList, joinPlus sp 8 (strands.map String.toList) ++ (sp 4).dropLast, domain, text) := by
  obtain ⟨hnne, hnall⟩ := nameOkL_iff.mp hn
  have hsL : ∀ x ∈ strands.map String.toList, x ≠ [] ∧ ∀ c ∈ x, isName c = true := by
    intro x hx
    obtain ⟨s, hs1, rfl⟩ := List.mem_map.mp hx
    exact nameOkL_iff.mp (hs s hs1)
  have htall := notationOk_struct htn
  obtain ⟨s0, srest, hstr⟩ : ∃ s0 srest, strands.map String.toList = s0 :: srest := by
    cases strands with
    | nil => exact absurd rfl hsne
    | cons a b => exact ⟨_, _, rfl⟩
  obtain ⟨jc, jr, hJ, hjc⟩ := joinPlus_head (sp := sp) s0 srest 8 (hsL s0 (by rw [hstr]; simp)).1
  have hjname : isName jc = true := (hsL s0 (by rw [hstr]; simp)).2 jc hjc
  obtain ⟨c, hsplit, hc, hdl⟩ := hsp.split 4
  unfold structTail
  apply sp1_greedy (hsp.ne 1) (hsp.sp 1) (name_headNot_sp hnne hnall _)
  apply plus_greedy hnne hnall (hsp.headNot 2 (fun c hc => blank_notName hc) _)
  apply sp1_greedy (hsp.ne 2) (hsp.sp 2) (headNot_cons (by decide))
  simp only [lit_cons_cons, if_true, lit_nil]
  apply sp1_greedy (hsp.ne 3) (hsp.sp 3)
  · rw [hstr, hJ]; exact headNot_cons (name_notSp hjname)
  · -- `[^:]+` takes the names and the gap in front of `:` and gives the last blank back
    generalize hR : (if domain then sp 5 ++ sDomain else []) ++ (sp 6 ++ text) = R
    have hassoc : joinPlus sp 8 (strands.map String.toList) ++ (sp 4 ++ (':' :: R)) =
        (joinPlus sp 8 (strands.map String.toList) ++ (sp 4).dropLast) ++ ([c] ++ (':' :: R)) := by
      conv => lhs; rw [hsplit]
      simp
    rw [hassoc]
    apply plus_first
    · rw [hstr, hJ]; simp
    · intro x hx
      rcases List.mem_append.mp hx with hx | hx
      · exact joinPlus_notColon hsp _ (fun y hy => (hsL y hy).2) 8 x hx
      · exact blank_notColon (hdl x hx)
    · intro x hx
      simp only [List.mem_singleton] at hx
      subst hx
      exact blank_notColon hc
    · exact headNot_cons (by decide)
    · intro b1 b2 e hb1
      have : b2 = [] := by
        have hlen := congrArg List.length e
        have hpos := List.length_pos_iff.mpr hb1
        simp only [List.length_cons, List.length_nil, List.length_append] at hlen
        exact List.length_eq_zero_iff.mp (by omega)
      subst this
      exact sp1_none_head (headNot_cons (by decide))
    · apply sp1_greedy (by simp) (by simpa using blank_isSp hc) (headNot_cons (by decide))
      simp only [lit_cons_cons, if_true, lit_nil]
      subst hR
      have htext : (plus isStructCh fun t => endZ (opt, n.toList, joinPlus sp 8 (strands.map String.toList) ++ (sp 4).dropLast, domain, t)) text =
          some (opt, n.toList, joinPlus sp 8 (strands.map String.toList) ++ (sp 4).dropLast, domain, text) := by
        have := plus_greedy (cls := isStructCh)
          (k := fun t => endZ (opt, n.toList, joinPlus sp 8 (strands.map String.toList) ++ (sp 4).dropLast, domain, t))
          (run := text) (rest := []) htne htall headNot_nil rfl
        simpa using this
      cases domain with
      | true =>
        rw [if_pos rfl, List.append_assoc]
        apply alt_left
        apply sp1_greedy (hsp.ne 5) (hsp.sp 5) (by exact headNot_cons (by decide))
        rw [lit_append]
        apply sp1_greedy (hsp.ne 6) (hsp.sp 6) (headNotSp_iff hth)
        exact htext
      | false =>
        simp only [Bool.false_eq_true, if_false, List.nil_append]
        rw [alt_right]
        · apply sp1_greedy (hsp.ne 6) (hsp.sp 6) (headNotSp_iff hth)
          exact htext
        · apply sp1_none (hsp.sp 6) (headNotSp_iff hth)
          · apply lit_none_head
            exact headNot_of_all htall (fun c hc => by
              simp only [beq_eq_false_iff_ne, ne_eq]
              exact struct_notNl_or_sp hc)
          · intro c r hc
            simp only [sDomain, lit_cons_cons]
            rw [if_neg]
            rintro rfl
            exact absurd hc (by decide)

theorem wfStmt_struct {opt : OptSrc} {n : String} {strands : List String} {domain : Bool} {text : Str}
    (h : wfStmt (.struct opt n strands domain text) = true) :
    nameOk n = true ∧ (∀ t, opt = .value t → numOk isOptCh t = true) ∧ strands ≠ [] ∧ (∀ x ∈ strands, nameOk x = true) ∧
      text ≠ [] ∧ headNotSp text = true ∧ notationOk text = true := by
  cases opt with
  | value t =>
    have e : wfStmt (.struct (.value t) n strands domain text) =
        (nameOk n && numOk isOptCh t && !strands.isEmpty && strands.all nameOk && !text.isEmpty && headNotSp text && notationOk text) := rfl
    rw [e] at h
    simp only [Bool.and_eq_true, Bool.not_eq_true', List.isEmpty_eq_false_iff, List.all_eq_true] at h
    obtain ⟨⟨⟨⟨⟨⟨hn, hopt⟩, hsne⟩, hs⟩, htne⟩, hth⟩, htn⟩ := h
    exact ⟨hn, fun t' e' => by cases e'; exact hopt, hsne, hs, htne, hth, htn⟩
  | default =>
    have e : wfStmt (.struct .default n strands domain text) =
        (nameOk n && true && !strands.isEmpty && strands.all nameOk && !text.isEmpty && headNotSp text && notationOk text) := rfl
    rw [e] at h
    simp only [Bool.and_eq_true, Bool.not_eq_true', List.isEmpty_eq_false_iff, List.all_eq_true] at h
    obtain ⟨⟨⟨⟨⟨⟨hn, _⟩, hsne⟩, hs⟩, htne⟩, hth⟩, htn⟩ := h
    exact ⟨hn, (fun t' e' => (nomatch e')), hsne, hs, htne, hth, htn⟩
  | noOpt =>
    have e : wfStmt (.struct .noOpt n strands domain text) =
        (nameOk n && true && !strands.isEmpty && strands.all nameOk && !text.isEmpty && headNotSp text && notationOk text) := rfl
    rw [e] at h
    simp only [Bool.and_eq_true, Bool.not_eq_true', List.isEmpty_eq_false_iff, List.all_eq_true] at h
    obtain ⟨⟨⟨⟨⟨⟨hn, _⟩, hsne⟩, hs⟩, htne⟩, hth⟩, htn⟩ := h
    exact ⟨hn, (fun t' e' => (nomatch e')), hsne, hs, htne, hth, htn⟩

/-! ### the option group -/

theorem reStruct_render {sp : Nat → Str} (hsp : SpOkL sp) (opt : OptSrc) (n : String) (strands : List String) (domain : Bool) (text : Str)
    (h : wfStmt (.struct opt n strands domain text) = true) :
    reStruct (renderStmtL sp (.struct opt n strands domain text)) =
      some ((match opt with | .default => OptM.absent | .noOpt => OptM.noOpt | .value t => OptM.val t.toList),
        n.toList, joinPlus sp 8 (strands.map String.toList) ++ (sp 4).dropLast, domain, text) := by
  obtain ⟨hn, hopt, hsne, hs, htne, hth, htn⟩ := wfStmt_struct h
  obtain ⟨hnne, hnall⟩ := nameOkL_iff.mp hn
  have htail := fun o => structTail_render hsp o n strands domain text hn hsne hs htne hth htn
  unfold reStruct
  simp only [renderStmtL]
  rw [lit_append]
  cases opt with
  | default =>
    simp only [optPartL, List.nil_append]
    rw [alt_right]
    · exact htail .absent
    · apply sp1_none (hsp.sp 1) (name_headNot_sp hnne hnall _)
      · apply lit_none_head
        apply headNot_append hnne
        exact headNot_of_all hnall (fun c hc => by
          simp only [beq_eq_false_iff_ne, ne_eq]
          exact name_ne hc (by decide))
      · intro c r hc
        simp only [lit_cons_cons]
        rw [if_neg]
        rintro rfl
        exact absurd hc (by decide)
  | noOpt =>
    simp only [optPartL, sNoOptB, List.append_assoc, List.cons_append, List.nil_append]
    apply alt_left
    apply sp1_greedy (hsp.ne 0) (hsp.sp 0) (headNot_cons (by decide))
    simp only [lit_cons_cons, if_true, lit_nil]
    rw [alt_right]
    · simp only [sNoOpt, lit_cons_cons, if_true, lit_nil]
      exact htail .noOpt
    · -- `[\wd\.]+nt` on `no-opt]…`: the run is `no`, never followed by `nt`
      have := plus_none (cls := isOptCh) (k := fun t => lit ['n', 't'] <| lit [']'] <| structTail (.val t))
        (run := ['n', 'o']) (rest := '-' :: 'o' :: 'p' :: 't' :: ']' :: (sp 1 ++ (n.toList ++ (sp 2 ++ ('=' :: (sp 3 ++
          (joinPlus sp 8 (strands.map String.toList) ++ (sp 4 ++ (':' :: ((if domain then sp 5 ++ sDomain else []) ++ (sp 6 ++ text)))))))))))
        (by decide) (headNot_cons (by decide)) (by
          intro b1 b2 e hb1
          apply lit_none_head
          cases b1 with
          | nil => exact absurd rfl hb1
          | cons x xs =>
            cases xs with
            | nil =>
              simp only [List.cons_append, List.nil_append, List.cons.injEq] at e
              rw [← e.2]
              exact headNot_cons (by decide)
            | cons y ys =>
              have : b2 = [] := by
                have hlen := congrArg List.length e
                simp only [List.length_cons, List.length_nil, List.length_append] at hlen
                exact List.length_eq_zero_iff.mp (by omega)
              subst this
              exact headNot_cons (by decide))
      simpa using this
  | value t =>
    have hopt := hopt t rfl
    simp only [numOk, Bool.and_eq_true, List.all_eq_true] at hopt
    obtain ⟨htall, htf⟩ := hopt
    have htne' : t.toList ≠ [] := by
      intro e0
      rw [e0] at htf
      exact absurd htf (by decide)
    simp only [optPartL, sNtB, List.append_assoc, List.cons_append, List.nil_append]
    apply alt_left
    apply sp1_greedy (hsp.ne 0) (hsp.sp 0) (headNot_cons (by decide))
    simp only [lit_cons_cons, if_true, lit_nil]
    apply alt_left
    have hassoc : ∀ R : Str, t.toList ++ 'n' :: 't' :: ']' :: R = t.toList ++ (['n', 't'] ++ (']' :: R)) := by intro R; simp
    rw [hassoc]
    apply plus_first htne' htall (by decide) (headNot_cons (by decide))
    · intro b1 b2 e hb1
      apply lit_none_head
      cases b1 with
      | nil => exact absurd rfl hb1
      | cons x xs =>
        cases xs with
        | nil =>
          simp only [List.cons_append, List.nil_append, List.cons.injEq] at e
          rw [← e.2]
          exact headNot_cons (by decide)
        | cons y ys =>
          have : b2 = [] := by
            have hlen := congrArg List.length e
            simp only [List.length_cons, List.length_nil, List.length_append] at hlen
            exact List.length_eq_zero_iff.mp (by omega)
          subst this
          exact headNot_cons (by decide)
    · simp only [List.cons_append, List.nil_append, lit_cons_cons, if_true, lit_nil]
      exact htail (.val t.toList)

theorem kw_notSp_structure : ∀ c ∈ sStructure, isSp c = false := by decide

theorem optPartL_headNot {sp : Nat → Str} (hsp : SpOkL sp) (opt : OptSrc) (rest : Str) :
    HeadNot (fun c => !isSp c) (optPartL sp opt ++ (sp 1 ++ rest)) := by
  cases opt with
  | default => simpa [optPartL] using hsp.headNot_nsp 1 rest
  | noOpt => simpa [optPartL, List.append_assoc] using hsp.headNot_nsp 0 _
  | value t => simpa [optPartL, List.append_assoc] using hsp.headNot_nsp 0 _

theorem parseLineL_struct {sp : Nat → Str} (hsp : SpOkL sp) (opt : OptSrc) (n : String) (strands : List String) (domain : Bool) (text : Str)
    (h : wfStmt (.struct opt n strands domain text) = true) :
    parseLineL (renderStmtL sp (.struct opt n strands domain text)) = .ok (.struct opt n strands domain text) := by
  have hre := reStruct_render hsp opt n strands domain text h
  obtain ⟨hn, hopt, hsne, hs, htne, hth, htn⟩ := wfStmt_struct h
  have hfw : firstWord (renderStmtL sp (.struct opt n strands domain text)) = some sStructure := by
    simp only [renderStmtL]
    exact firstWord_kw (by decide) kw_notSp_structure (optPartL_headNot hsp opt _)
  unfold parseLineL
  rw [hfw]
  simp only
  rw [if_neg (by decide), if_neg (by decide), if_neg (by decide), if_neg (by decide), if_pos trivial]
  unfold parseStruct
  rw [hre]
  simp only
  -- the strand names
  have hnames : ((splitOn '+' (joinPlus sp 8 (strands.map String.toList) ++ (sp 4).dropLast)).map strip).map String.ofList = strands := by
    obtain ⟨c, hsplit, hc, hdl⟩ := hsp.split 4
    cases strands with
    | nil => exact absurd rfl hsne
    | cons s0 more =>
      have := splitOn_joinPlus hsp (more.map String.toList) s0.toList 8 [] (sp 4).dropLast (by simp) hdl (by
        intro x hx
        have : x ∈ (s0 :: more).map String.toList := by simpa using hx
        obtain ⟨s, hs1, rfl⟩ := List.mem_map.mp this
        exact nameOkL_iff.mp (hs s hs1))
      simp only [List.nil_append] at this
      simp only [List.map_cons]
      rw [this]
      simp [List.map_map, Function.comp_def, String.ofList_toList]
  rw [hnames]
  have hok : (if text.contains 'U' || text.contains 'H' then text.all isHUCh else text.all isDPCh) = true := htn
  cases opt with
  | default => simp only [hok, if_true, String.ofList_toList]
  | noOpt => simp only [hok, if_true, String.ofList_toList]
  | value t =>
    have hopt := hopt t rfl
    simp only [numOk, Bool.and_eq_true] at hopt
    simp only [hopt.2, hok, if_true, String.ofList_toList]

end Pepper.ParseComp
