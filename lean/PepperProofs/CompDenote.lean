import PepperProofs.CompEmit
import PepperModel.Denote
import PepperProofs.CompOpt
/-!
# The compile path agrees with the specification `Denote.denoteComp` (C01, part D)

`Agree p s env o a`: the tables `s` of the compile path after a prefix of the statements and the
specification's environment / output after the same prefix describe the same thing.  `addStmt` and
`Denote.denoteStmt` preserve it in lock step (`step_agree`).
-/
set_option linter.unusedSimpArgs false
namespace Pepper.Comp
open Pepper.Constraint Pepper.Denote

/-! ### the specification's item pass, on cleaned items -/

def denoteC (p : String) : List CItem → ItemsAcc → Except Denote.Err ItemsAcc
  | [], a => .ok a
  | .obj _ bs :: r, a => denoteC p r { a with segs := a.segs ++ [cnucs p bs] }
  | .nuc parts :: r, a =>
    match resolve parts none with
    | .ok (l, c) =>
      let name := p ++ "_Anon" ++ toString a.anon
      denoteC p r { a with segs := a.segs ++ [fwd name l], newDomains := a.newDomains ++ [(a.segs.length, name, c)],
                           anon := a.anon + 1 }
    | .error .wildNoLength =>
      if a.wild.isSome then .error .wildcard
      else denoteC p r { a with segs := a.segs ++ [[]], wild := some (a.segs.length, parts) }
    | .error _ => .error .wildcard

/-- nucleotides of the view an item refers to -/
def itemNucs (p : String) (l : List SeqE) (i : ItemRef) : List Nuc := cnucs p (viewBases l i)

def kinD (p : String) (k : KinE) : KinD :=
  ⟨k.ins.map (p ++ ·), k.outs.map (p ++ ·),
   (match k.low with | some d => String.ofList d.fmtF | none => "0.000000"),
   (match k.high with | some d => String.ofList d.fmtF | none => "inf")⟩

structure Agree (p : String) (s : St) (env : Env) (o : Out) (a : Nat) : Prop where
  anon : env.anon = a
  seqs : ∀ n b, env.seqs.lookup n = some b → ∃ e, findE s.seqs n = some e ∧ cnucs p e.bases = b.nucs ∧
    e.isSup = b.isSup ∧ (b.isSup = true → e.items.map (itemNucs p s.seqs) = b.segs)
  seqsNone : ∀ n, okName n = true → env.seqs.lookup n = none → findE s.seqs n = none
  strands : ∀ n x, env.strands.lookup n = some x → ∃ t, findT s.strands n = some t ∧ cnucs p t.bases = x.1 ∧
    t.items.map (itemNucs p s.seqs) = x.2
  strandsNone : ∀ n, env.strands.lookup n = none → findT s.strands n = none
  domains : o.domains = (s.baseSeqs.filter (·.len != 0)).map (fun e => (p ++ e.name, e.const))
  baseSeqs : o.baseSeqs = (s.baseSeqs.filter (·.len != 0)).map (fun e => (p ++ e.name, cnucs p e.bases))
  supSeqs : o.supSeqs = (s.supSeqs.filter (·.len != 0)).map (fun e => (p ++ e.name, cnucs p e.bases))
  ostrands : o.strands = s.strands.map (fun t => (p ++ t.name, t.dummy, cnucs p t.bases))
  structs : o.structs = s.structs.map (fun e => ⟨p ++ e.name, e.strands.map (p ++ ·), e.struct, optOfDec e.opt⟩)
  kinetics : o.kinetics = s.kins.map (kinD p)

/-! ### `cleanConst` refines `denoteItems` -/

theorem denoteC_objs (p : String) (vb : ItemRef → List BaseRef) (its : List ItemRef) (rest : List CItem) (acc : ItemsAcc) :
    denoteC p (its.map (fun i => CItem.obj i (vb i)) ++ rest) acc =
      denoteC p rest { acc with segs := acc.segs ++ its.map (fun i => cnucs p (vb i)) } := by
  induction its generalizing acc with
  | nil => simp
  | cons i r ih =>
    simp only [List.map_cons, List.cons_append, denoteC, ih]
    simp

theorem viewBases_inv (l : List SeqE) (i : ItemRef) : viewBases l i.inv = (viewBases l i).reverse.map BaseRef.inv := by
  simp only [viewBases, ItemRef.inv]
  cases findE l i.name with
  | none => rfl
  | some ie => exact basesOfView_not ie i.rev

theorem itemNucs_inv (p : String) (l : List SeqE) (i : ItemRef) : itemNucs p l i.inv = rc (itemNucs p l i) := by
  simp only [itemNucs, viewBases_inv, cnucs_rev_inv]

theorem itemsOfView_nucs (p : String) (l : List SeqE) (e : SeqE) (st : Bool) :
    (itemsOfView e st).map (itemNucs p l) =
      if st then rcSegs (e.items.map (itemNucs p l)) else e.items.map (itemNucs p l) := by
  cases st with
  | false => simp [itemsOfView]
  | true =>
    simp only [itemsOfView, if_true, rcSegs, List.map_map, List.map_reverse]
    congr 1
    apply List.map_congr_left
    intro i _
    exact itemNucs_inv p l i

theorem clean_sound {p : String} {s : St} {a : Nat} {env : Env} {o : Out} (hw : WF s a) (hA : Agree p s env o a)
    {items : List SrcItem} (hn : itemNamesOk items = true) {cs : List CItem}
    (hc : cleanConst s items = .ok cs) (acc : ItemsAcc) :
    denoteItems p env items acc = denoteC p cs acc := by
  induction items generalizing cs acc with
  | nil => simp [cleanConst] at hc; subst hc; rfl
  | cons it r ih =>
    simp only [itemNamesOk, List.all_cons, Bool.and_eq_true] at hn
    have hnr : itemNamesOk r = true := hn.2
    cases it with
    | nuc text =>
      obtain ⟨rest, hr, rfl⟩ := cleanConst_nuc hc
      simp only [denoteItems, denoteC]
      cases hres : resolve (parseQuoted text) none with
      | ok v => obtain ⟨l, c⟩ := v; simp only []; exact ih hnr hr _
      | error er =>
        cases er with
        | wildNoLength => simp only []; rw [ih hnr hr]
        | tooManyWild => rfl
        | mismatch => rfl
        | tooShort => rfl
    | ref n st =>
      obtain ⟨e, rest, he, hr, rfl⟩ := cleanConst_ref hc
      have hok : okName n = true := hn.1
      simp only [denoteItems, denoteC]
      cases hl : env.seqs.lookup n with
      | none => rw [hA.seqsNone n hok hl] at he; simp at he
      | some b =>
        obtain ⟨e', he', hnu, _, _⟩ := hA.seqs n b hl
        rw [he] at he'
        simp only [Option.some.injEq] at he'
        subst he'
        simp only []
        rw [ih hnr hr, cnucs_basesOfView, hnu]
    | domains n st =>
      obtain ⟨e, objs, rest, he, hs, hobjs, hr, rfl⟩ := cleanConst_domains hc
      have hok : okName n = true := hn.1
      simp only [denoteItems]
      cases hl : env.seqs.lookup n with
      | none => rw [hA.seqsNone n hok hl] at he; simp at he
      | some b =>
        obtain ⟨e', he', hnu, hsup, hsegs⟩ := hA.seqs n b hl
        rw [he] at he'
        simp only [Option.some.injEq] at he'
        subst he'
        have hbs : b.isSup = true := by rw [← hsup]; exact hs
        have hobjs' : objs = (itemsOfView e st).map (fun i => CItem.obj i (viewBases s.seqs i)) := by
          have := mapM_ok_of_forall (f := fun (i : ItemRef) => match s.findSeq i.name with
              | some ie => (pure (CItem.obj i (basesOfView ie i.rev)) : Except Err CItem)
              | none => throw Err.other) (g := fun i => CItem.obj i (viewBases s.seqs i)) (l := itemsOfView e st) (by
            intro i hi
            obtain ⟨j, hj, hjn, _⟩ := mem_itemsOfView hi
            obtain ⟨ie, hie, _⟩ := ((hw.seqs.entries e (findE_some he).1).sup hs).1 j hj
            simp only [findSeq_eq, viewBases, hjn, hie]
            rfl)
          exact Except.ok.inj (hobjs.symm.trans this)
        dsimp only
        simp only [hbs, Bool.not_true, Bool.false_eq_true, if_false]
        rw [hobjs', denoteC_objs, ih hnr hr]
        congr 2
        have := itemsOfView_nucs p s.seqs e st
        rw [hsegs hbs] at this
        exact congrArg (acc.segs ++ ·) this.symm

/-! ### closed form of the specification's region pass -/

theorem anon_full_name (p : String) (k : Nat) : p ++ "_Anon" ++ toString k = p ++ anonName k := by
  simp [anonName, String.append_assoc]

def segsFrom (p : String) (k : Nat) : List CItem → List (List Nuc)
  | [] => []
  | .obj _ bs :: r => cnucs p bs :: segsFrom p k r
  | .nuc q :: r => fwd (p ++ anonName k) (fixedSum q) :: segsFrom p (k + 1) r

def domsFrom (p : String) (idx k : Nat) : List CItem → List (Nat × String × List Char)
  | [] => []
  | .obj _ _ :: r => domsFrom p (idx + 1) k r
  | .nuc q :: r => (idx, p ++ anonName k, expand 0 q) :: domsFrom p (idx + 1) (k + 1) r

@[simp] theorem segsFrom_length (p : String) (k : Nat) (cs : List CItem) : (segsFrom p k cs).length = cs.length := by
  induction cs generalizing k with
  | nil => rfl
  | cons c r ih => cases c <;> simp [segsFrom, ih]

theorem denoteC_wildFree (p : String) {cs : List CItem} (hf : wildFree cs = true) (A : ItemsAcc) :
    denoteC p cs A = .ok { A with segs := A.segs ++ segsFrom p A.anon cs,
                                  newDomains := A.newDomains ++ domsFrom p A.segs.length A.anon cs,
                                  anon := A.anon + nucCount cs } := by
  induction cs generalizing A with
  | nil => simp [denoteC, segsFrom, domsFrom, nucCount]
  | cons c r ih =>
    cases c with
    | obj i bs =>
      simp only [wildFree] at hf
      simp only [denoteC, ih hf]
      simp [segsFrom, domsFrom, nucCount]
    | nuc q =>
      simp only [wildFree, Bool.and_eq_true, beq_iff_eq] at hf
      simp only [denoteC, resolve_none_of_zero hf.1, ih hf.2, anon_full_name]
      simp [segsFrom, domsFrom, nucCount, Nat.add_assoc, Nat.add_comm 1]

theorem denoteC_append (p : String) {x y : List CItem} {A A1 : ItemsAcc} (h : denoteC p x A = .ok A1) :
    denoteC p (x ++ y) A = denoteC p y A1 := by
  induction x generalizing A with
  | nil => simp [denoteC] at h; subst h; rfl
  | cons c r ih =>
    cases c with
    | obj i bs => simp only [List.cons_append, denoteC] at h ⊢; exact ih h
    | nuc q =>
      simp only [List.cons_append, denoteC] at h ⊢
      cases hr : resolve q none with
      | ok v => obtain ⟨l, c⟩ := v; simp only [hr] at h ⊢; exact ih h
      | error e =>
        cases e with
        | wildNoLength =>
          simp only [hr] at h ⊢
          split
          · rename_i hw; simp [hw] at h
          · rename_i hw; simp only [hw, Bool.false_eq_true, if_false] at h; exact ih h
        | tooManyWild => simp [hr] at h
        | mismatch => simp [hr] at h
        | tooShort => simp [hr] at h

theorem domsFrom_snd (p : String) (idx k : Nat) (cs : List CItem) :
    (domsFrom p idx k cs).map (·.2) = (anonsFrom k cs).map (fun e => (p ++ e.name, e.const)) := by
  induction cs generalizing idx k with
  | nil => rfl
  | cons c r ih => cases c <;> simp [domsFrom, anonsFrom, ih, mkAnon]

theorem domsFrom_idx (p : String) (idx k : Nat) (cs : List CItem) :
    ∀ d ∈ domsFrom p idx k cs, idx ≤ d.1 ∧ d.1 < idx + cs.length := by
  induction cs generalizing idx k with
  | nil => simp [domsFrom]
  | cons c r ih =>
    cases c with
    | obj i bs =>
      intro d hd
      have := ih (idx + 1) k d (by simpa [domsFrom] using hd)
      simp only [List.length_cons]; omega
    | nuc q =>
      intro d hd
      simp only [domsFrom, List.mem_cons] at hd
      rcases hd with rfl | hd
      · simp
      · have := ih (idx + 1) (k + 1) d hd
        simp only [List.length_cons]; omega

theorem domsFrom_length (p : String) (idx k : Nat) (cs : List CItem) : (domsFrom p idx k cs).length = nucCount cs := by
  induction cs generalizing idx k with
  | nil => rfl
  | cons c r ih => cases c <;> simp [domsFrom, nucCount, ih]

theorem segsFrom_lens (p : String) (k : Nat) (cs : List CItem)
    (h : ∀ i bs, CItem.obj i bs ∈ cs → (bs.map (·.len)).sum = i.len) :
    ((segsFrom p k cs).map List.length).sum = lenSum cs := by
  induction cs generalizing k with
  | nil => rfl
  | cons c r ih =>
    cases c with
    | obj i bs =>
      simp only [segsFrom, lenSum, List.map_cons, List.sum_cons, cnucs_length, h i bs (by simp),
        ih k (fun j b hj => h j b (List.mem_cons_of_mem _ hj))]
    | nuc q =>
      simp only [segsFrom, lenSum, List.map_cons, List.sum_cons, fwd_length,
        ih (k + 1) (fun j b hj => h j b (List.mem_cons_of_mem _ hj))]

theorem setAt_middle {α} (A B : List α) (x y : α) : setAt (A ++ x :: B) A.length y = A ++ y :: B := by
  simp [setAt]

/-- `Denote.denoteRegion` on cleaned items -/
def denoteRegionC (p : String) (anon : Nat) (cs : List CItem) (length : Option Nat) :
    Except Denote.Err (List (List Nuc) × List (String × List Char) × Nat) := do
  let a ← denoteC p cs { anon := anon }
  let fixedLen := (a.segs.map List.length).sum
  match a.wild with
  | none =>
    match length with
    | some l => if l != fixedLen then throw .length
    | none => pure ()
    pure (a.segs, a.newDomains.map (·.2), a.anon)
  | some (i, parts) =>
    match length with
    | none => throw .wildcard
    | some l =>
      if l < fixedLen then throw .length
      match resolve parts (some (l - fixedLen)) with
      | .error _ => throw .length
      | .ok (wl, c) =>
        let name := p ++ "_Anon" ++ toString a.anon
        let k := (a.newDomains.filter (fun d => d.1 < i)).length
        let doms := a.newDomains.map (·.2)
        pure (setAt a.segs i (fwd name wl), doms.take k ++ (name, c) :: doms.drop k, a.anon + 1)

theorem denoteRegion_eq {p : String} {s : St} {a : Nat} {env : Env} {o : Out} (hw : WF s a) (hA : Agree p s env o a)
    {items : List SrcItem} (hn : itemNamesOk items = true) {cs : List CItem}
    (hc : cleanConst s items = .ok cs) (len : Option Nat) :
    denoteRegion p env items len = denoteRegionC p a cs len := by
  simp only [denoteRegion, denoteRegionC, clean_sound hw hA hn hc, hA.anon]
  rfl

def sgSegs (p : String) (sg : Segs) : List (List Nuc) := sg.flatMap (fun x => segsFrom p x.1 x.2)
def sgDoms (p : String) (sg : Segs) : List (String × List Char) := (sgAnons sg).map (fun e => (p ++ e.name, e.const))

theorem denoteRegionC_shape {p : String} {a : Nat} {cs : List CItem} {len : Option Nat} {sg : Segs}
    (hs : SgShape a cs len sg) (hobj : ∀ i bs, CItem.obj i bs ∈ cs → (bs.map (·.len)).sum = i.len) :
    denoteRegionC p a cs len = .ok (sgSegs p sg, sgDoms p sg, a + nucCount cs) := by
  rcases hs with ⟨hf, hlen, rfl⟩ | ⟨pre, w, post, L, rfl, hpre, hw, hpost, rfl, hle, rfl⟩
  · simp only [denoteRegionC, denoteC_wildFree p hf, bind, Except.bind, List.nil_append, List.length_nil,
      segsFrom_lens p a cs hobj, domsFrom_snd]
    rcases hlen with rfl | rfl
    · simp [sgSegs, sgDoms, sgAnons, pure, Except.pure]
    · simp [sgSegs, sgDoms, sgAnons, pure, Except.pure, bind, Except.bind]
  · have h1 := denoteC_wildFree p hpre { anon := a }
    have hwstep : resolve w none = .error .wildNoLength := resolve_none_of_one hw
    have hnf : wildFree (pre ++ CItem.nuc w :: post) = false := by simp [wildFree, hw]
    unfold denoteRegionC
    rw [denoteC_append p h1]
    simp only [denoteC, hwstep, Option.isSome_none, Bool.false_eq_true, if_false, List.nil_append, List.length_nil]
    rw [denoteC_wildFree p hpost]
    simp only [bind, Except.bind, segsFrom_length, List.length_append, List.length_cons, List.length_nil]
    have hsum : (List.map List.length (segsFrom p a pre ++ [[]] ++ segsFrom p (a + nucCount pre) post)).sum =
        lenSum pre + lenSum post := by
      simp only [List.map_append, List.sum_append, List.map_cons, List.map_nil, List.length_nil, List.sum_cons,
        List.sum_nil, segsFrom_lens p _ pre (fun i bs h => hobj i bs (by simp [h])),
        segsFrom_lens p _ post (fun i bs h => hobj i bs (by simp [h]))]
      omega
    have hlt : ¬ L < lenSum pre + lenSum post := by omega
    have hres := resolve_some_of_one hw (L := L - (lenSum pre + lenSum post)) (by omega)
    have hD1 : (domsFrom p 0 a pre).filter (fun d => decide (d.fst < pre.length)) = domsFrom p 0 a pre :=
      List.filter_eq_self.mpr (fun d hd => by have := domsFrom_idx p 0 a pre d hd; simp; omega)
    have hD2 : (domsFrom p (pre.length + (0 + 1)) (a + nucCount pre) post).filter (fun d => decide (d.fst < pre.length)) = [] :=
      List.filter_eq_nil_iff.mpr (fun d hd => by have := domsFrom_idx p _ _ post d hd; simp; omega)
    have hl1 : (List.map (fun x => x.snd) (domsFrom p 0 a pre)).length = nucCount pre := by
      simp [domsFrom_length]
    have htake : List.take (nucCount pre) (List.map (fun x => x.snd) (domsFrom p 0 a pre ++
        domsFrom p (pre.length + (0 + 1)) (a + nucCount pre) post)) =
        List.map (fun x => x.snd) (domsFrom p 0 a pre) := by
      rw [List.map_append]; exact List.take_left' hl1
    have hdrop : List.drop (nucCount pre) (List.map (fun x => x.snd) (domsFrom p 0 a pre ++
        domsFrom p (pre.length + (0 + 1)) (a + nucCount pre) post)) =
        List.map (fun x => x.snd) (domsFrom p (pre.length + (0 + 1)) (a + nucCount pre) post) := by
      rw [List.map_append]; exact List.drop_left' hl1
    simp only [hsum, hlt, if_false, hres, List.filter_append, hD1, hD2, List.append_nil, domsFrom_length,
      pure, Except.pure, anon_full_name, hnf, Bool.false_eq_true, htake, hdrop]
    have hset : ∀ y, setAt (segsFrom p a pre ++ [[]] ++ segsFrom p (a + nucCount pre) post) pre.length y =
        segsFrom p a pre ++ y :: segsFrom p (a + nucCount pre) post := by
      intro y
      have := setAt_middle (segsFrom p a pre) (segsFrom p (a + nucCount pre) post) [] y
      simpa using this
    rw [hset]
    have hfx : fixedSum w + (L - (lenSum pre + lenSum post) - fixedSum w) * 1 = L - (lenSum pre + lenSum post) := by omega
    simp only [sgSegs, sgDoms, sgAnons, segsFrom, anonsFrom, domsFrom_snd, List.flatMap_cons, List.flatMap_nil,
      List.append_nil, fixedSum_explicit, hw, hfx, expand_explicit, List.map_append, List.map_cons, List.map_nil,
      mkAnon, nucCount_append, nucCount, List.cons_append, List.nil_append, List.append_assoc]
    congr 3
    omega
/-! ### segments, semantically -/

theorem buildSuper_anon {a : Nat} {cs : List CItem} {len : Option Nat} {b : Built}
    (h : buildSuper a cs len = .ok b) : b.anon = a + nucCount cs := by
  rcases buildSuper_ok_cases h with ⟨_, _, rfl⟩ | ⟨pre, w, post, L, rfl, _, _, _, _, _, rfl⟩
  · rfl
  · simp [nucCount]; omega

theorem fwd_eq_cnucs (p n : String) (l : Nat) : fwd (p ++ n) l = cnucs p [⟨n, false, l⟩] := by
  simp [cnucs, nucsB]

theorem seg_segs {l' : List SeqE} {k : Nat} {cs : List CItem} (h : SegOk l' k cs) (p : String) :
    segsFrom p k cs = (refsFrom k cs).map (itemNucs p l') := by
  induction cs generalizing k with
  | nil => rfl
  | cons c r ih =>
    cases c with
    | obj i bs =>
      obtain ⟨ie, h1, _, h3⟩ := h.objs i bs (by simp)
      simp only [segsFrom, refsFrom, List.map_cons, ih h.tail_obj]
      simp [itemNucs, viewBases, h1, h3]
    | nuc q =>
      have := h.anons (mkAnon k (fixedSum q) (expand 0 q)) (by simp [anonsFrom])
      simp only [mkAnon] at this
      simp only [segsFrom, refsFrom, List.map_cons, ih h.tail_nuc]
      simp [itemNucs, viewBases, this, basesOfView, fwd_eq_cnucs]

theorem seg_flatten (p : String) (k : Nat) (cs : List CItem) :
    (segsFrom p k cs).flatten = cnucs p (basesFrom k cs) := by
  induction cs generalizing k with
  | nil => rfl
  | cons c r ih => cases c <;> simp [segsFrom, basesFrom, ih, fwd_eq_cnucs]

theorem sg_segs {l' : List SeqE} {sg : Segs} (h : ∀ x ∈ sg, SegOk l' x.1 x.2) (p : String) :
    sgSegs p sg = (sgRefs sg).map (itemNucs p l') := by
  induction sg with
  | nil => rfl
  | cons x r ih =>
    simp only [sgSegs, sgRefs, List.flatMap_cons, List.map_append] at ih ⊢
    rw [seg_segs (h x (by simp)), ih (fun y hy => h y (by simp [hy]))]

theorem sg_flatten (p : String) (sg : Segs) : (sgSegs p sg).flatten = cnucs p (sgBases sg) := by
  induction sg with
  | nil => rfl
  | cons x r ih =>
    simp only [sgSegs, sgBases, List.flatMap_cons, List.flatten_append, cnucs_append] at ih ⊢
    rw [seg_flatten, ih]

theorem region_denote {p : String} {s : St} {a : Nat} {env : Env} {o : Out} (hw : WF s a) (hA : Agree p s env o a)
    {items : List SrcItem} (hn : itemNamesOk items = true) {len : Option Nat} {cs : List CItem} {b : Built} {sg : Segs}
    (R : RegionNF s a items len cs b sg) :
    denoteRegion p env items len = .ok (sgSegs p sg, sgDoms p sg, b.anon) := by
  rw [denoteRegion_eq hw hA hn R.clean, denoteRegionC_shape R.shape, buildSuper_anon R.build]
  intro i bs hi
  obtain ⟨ie, h1, h2, h3⟩ := cleanConst_ok hw.seqs.entries R.clean i bs hi
  rw [h3, view_lens (hw.seqs.entries ie (findE_some h1).1), h2]

/-! ### the agreement invariant under growth of the table -/

theorem itemNucs_mono {p : String} {l l' : List SeqE} (h : Ext l l') {i : ItemRef} (hi : ItemOk l i) :
    itemNucs p l' i = itemNucs p l i := by
  simp only [itemNucs, viewBases_mono h hi]

theorem map_itemNucs_mono {p : String} {l l' : List SeqE} (h : Ext l l') {its : List ItemRef} (hi : ∀ i ∈ its, ItemOk l i) :
    its.map (itemNucs p l') = its.map (itemNucs p l) :=
  List.map_congr_left (fun i hm => itemNucs_mono h (hi i hm))

theorem agree_seqs_ext {p : String} {s : St} {a : Nat} {env : Env} {o : Out} (hw : WF s a) (hA : Agree p s env o a)
    {l' : List SeqE} (hext : Ext s.seqs l') :
    ∀ n b, env.seqs.lookup n = some b → ∃ e, findE l' n = some e ∧ cnucs p e.bases = b.nucs ∧
      e.isSup = b.isSup ∧ (b.isSup = true → e.items.map (itemNucs p l') = b.segs) := by
  intro n b hl
  obtain ⟨e, h1, h2, h3, h4⟩ := hA.seqs n b hl
  refine ⟨e, hext _ _ h1, h2, h3, fun hb => ?_⟩
  rw [map_itemNucs_mono hext ((hw.seqs.entries e (findE_some h1).1).sup (h3.trans hb)).1]
  exact h4 hb

theorem agree_strands_ext {p : String} {s : St} {a : Nat} {env : Env} {o : Out} (hw : WF s a) (hA : Agree p s env o a)
    {l' : List SeqE} (hext : Ext s.seqs l') :
    ∀ n x, env.strands.lookup n = some x → ∃ t, findT s.strands n = some t ∧ cnucs p t.bases = x.1 ∧
      t.items.map (itemNucs p l') = x.2 := by
  intro n x hl
  obtain ⟨t, h1, h2, h3⟩ := hA.strands n x hl
  refine ⟨t, h1, h2, ?_⟩
  rw [map_itemNucs_mono hext (hw.strands t (findT_some h1).1).items]
  exact h3
/-! ### lock step, statement by statement -/

theorem lookup_none_of_findE {p : String} {s : St} {a : Nat} {env : Env} {o : Out} (hA : Agree p s env o a)
    {n : String} (h : findE s.seqs n = none) : env.seqs.lookup n = none := by
  cases hl : env.seqs.lookup n with
  | none => rfl
  | some b => obtain ⟨e, he, _⟩ := hA.seqs n b hl; rw [h] at he; simp at he

theorem step_seq_base {p : String} {s : St} {a : Nat} {env : Env} {o : Out} (hw : WF s a) (hA : Agree p s env o a)
    {name : String} (hname : okName name = true) (hf : findE s.seqs name = none) {text : List Char} {len : Option Nat}
    {l : Nat} {c : List Char} (hr : resolve (parseQuoted text) len = .ok (l, c)) :
    ∃ env' o', denoteStmt p env o (.seq name [.nuc text] len) = .ok (env', o') ∧
      Agree p { s with seqs := s.seqs ++ [baseEntry name l c] } env' o' a := by
  have hl := lookup_none_of_findE hA hf
  have hext : Ext s.seqs (s.seqs ++ [baseEntry name l c]) := Ext.append _ _
  refine ⟨_, _, by simp only [denoteStmt, hl, Option.isSome_none, Bool.false_eq_true, if_false, hr]; rfl, ?_⟩
  refine ⟨hA.anon, ?_, ?_, ?_, hA.strandsNone, ?_, ?_, ?_, ?_, ?_, ?_⟩
  · intro n b hb
    simp only [List.lookup_append, Option.or_eq_some_iff] at hb
    rcases hb with hb | ⟨hb1, hb2⟩
    · exact agree_seqs_ext hw hA hext n b hb
    · simp only [List.lookup_cons, List.lookup_nil] at hb2
      split at hb2
      · rename_i heq
        have hn : n = name := by simpa using heq
        subst hn
        simp only [Option.some.injEq] at hb2
        subst hb2
        refine ⟨baseEntry n l c, ?_, ?_, rfl, fun h => by simp at h⟩
        · rw [findE_append_of_none hf]; simp [findE]
        · simp [fwd_eq_cnucs]
      · simp at hb2
  · intro n hn hb
    simp only [List.lookup_append, Option.or_eq_none_iff] at hb
    have hne : n ≠ name := by
      intro h; subst h; simp at hb
    rw [findE_append_of_none (hA.seqsNone n hn hb.1)]
    simp [findE, Ne.symm hne]
  · exact agree_strands_ext hw hA hext
  all_goals (by_cases hz : l = 0 <;> simp [hz, St.baseSeqs, St.supSeqs, List.filter_append, hA.domains, hA.baseSeqs, hA.supSeqs, hA.ostrands, hA.structs, hA.kinetics, fwd_eq_cnucs])

/-- the anonymous entries as the specification lists them -/
theorem anons_domains (p : String) (AN : List SeqE) (h : ∀ e ∈ AN, e.const.length = e.len) :
    (AN.filter (·.len != 0)).map (fun e => (p ++ e.name, e.const)) =
      (AN.map (fun e => (p ++ e.name, e.const))).filter (fun d => d.2.length != 0) := by
  induction AN with
  | nil => rfl
  | cons e r ih =>
    have he := h e (by simp)
    have ih' := ih (fun x hx => h x (by simp [hx]))
    simp only [List.filter_cons, List.map_cons, he]
    split <;> simp [ih']

theorem anons_baseSeqs (p : String) (AN : List SeqE)
    (h : ∀ e ∈ AN, e.const.length = e.len ∧ e.bases = [⟨e.name, false, e.len⟩]) :
    (AN.filter (·.len != 0)).map (fun e => (p ++ e.name, cnucs p e.bases)) =
      ((AN.map (fun e => (p ++ e.name, e.const))).filter (fun d => d.2.length != 0)).map
        (fun d => (d.1, fwd d.1 d.2.length)) := by
  induction AN with
  | nil => rfl
  | cons e r ih =>
    obtain ⟨h1, h2⟩ := h e (by simp)
    have ih' := ih (fun x hx => h x (by simp [hx]))
    simp only [List.filter_cons, List.map_cons, h1]
    split <;> simp [ih', h1, h2, fwd_eq_cnucs]

theorem withNewDomains_eq (o : Out) (doms : List (String × List Char)) :
    withNewDomains o doms = { o with domains := o.domains ++ doms.filter (fun d => d.2.length != 0),
                                     baseSeqs := o.baseSeqs ++ (doms.filter (fun d => d.2.length != 0)).map
                                        (fun d => (d.1, fwd d.1 d.2.length)) } := rfl

theorem step_seq_sup {p : String} {s : St} {a : Nat} {env : Env} {o : Out} (hw : WF s a) (hA : Agree p s env o a)
    {name : String} (hname : okName name = true) {items : List SrcItem} (hn : itemNamesOk items = true)
    (hne : ∀ text, items ≠ [.nuc text]) (hf : findE s.seqs name = none)
    {len : Option Nat} {cs : List CItem} {b : Built} {sg : Segs} (R : RegionNF s a items len cs b sg) :
    ∃ env' o', denoteStmt p env o (.seq name items len) = .ok (env', o') ∧
      Agree p { s with seqs := s.seqs ++ [supEntry name b] ++ sgAnons sg } env' o' b.anon := by
  have hl := lookup_none_of_findE hA hf
  have F := region_final hw.seqs R [supEntry name b]
    (by intro e he; simp only [List.mem_singleton] at he; subst he; exact hname) (nodup_snoc hw.seqs.nodup hf)
  have hext : Ext s.seqs (s.seqs ++ [supEntry name b] ++ sgAnons sg) := by
    rw [List.append_assoc]; exact Ext.append _ _
  have hAN : ∀ e ∈ sgAnons sg, e.const.length = e.len ∧ e.bases = [⟨e.name, false, e.len⟩] := by
    intro e he
    obtain ⟨hwf, hs, _, _⟩ := F.anons e he
    exact ⟨(hwf.base hs).2.1, (hwf.base hs).1⟩
  have hANsup : (sgAnons sg).filter (·.isSup) = [] :=
    List.filter_eq_nil_iff.mpr (fun e he => by simp [(F.anons e he).2.1])
  have hANbase : (sgAnons sg).filter (fun e => !e.isSup) = sgAnons sg :=
    List.filter_eq_self.mpr (fun e he => by simp [(F.anons e he).2.1])
  have hnucs : (sgSegs p sg).flatten = cnucs p b.bases := by rw [sg_flatten, R.nf.bases]
  have hempty : (cnucs p b.bases = []) ↔ b.len = 0 := by
    rw [← List.length_eq_zero_iff, cnucs_length, ← F.lenB]
  refine ⟨_, _, by
    simp only [denoteStmt, hl, Option.isSome_none, Bool.false_eq_true, if_false, region_denote hw hA hn R, bind,
      Except.bind, pure, Except.pure]
    rfl, ?_⟩
  have hfindE : findE (s.seqs ++ [supEntry name b] ++ sgAnons sg) name = some (supEntry name b) := by
    rw [List.append_assoc, findE_append_of_none hf]; simp [findE]
  refine ⟨rfl, ?_, ?_, ?_, hA.strandsNone, ?_, ?_, ?_, ?_, ?_, ?_⟩
  · intro n bd hb
    simp only [List.lookup_append, Option.or_eq_some_iff] at hb
    rcases hb with hb | ⟨hb1, hb2⟩
    · exact agree_seqs_ext hw hA hext n bd hb
    · simp only [List.lookup_cons, List.lookup_nil] at hb2
      split at hb2
      · rename_i heq
        have hnn : n = name := by simpa using heq
        subst hnn
        simp only [Option.some.injEq] at hb2
        subst hb2
        refine ⟨supEntry n b, hfindE, hnucs.symm, rfl, fun _ => ?_⟩
        show b.items.map _ = _
        rw [R.nf.items, sg_segs F.segs]
      · simp at hb2
  · intro n hnn hb
    simp only [List.lookup_append, Option.or_eq_none_iff] at hb
    have hne' : n ≠ name := by
      intro h; subst h; simp at hb
    rw [List.append_assoc, findE_append_of_none (hA.seqsNone n hnn hb.1), findE_eq_none]
    intro e he
    simp only [List.cons_append, List.nil_append, List.mem_cons] at he
    rcases he with rfl | he
    · exact Ne.symm hne'
    · obtain ⟨j, _, _, hj⟩ := (F.anons e he).2.2.2
      rw [hj]; exact fun h => okName_ne_anon hnn j h.symm
  · exact agree_strands_ext hw hA hext
  · by_cases hz : b.len = 0 <;>
      simp [hnucs, hempty, hz, withNewDomains_eq, St.baseSeqs, List.filter_append, hANbase, hA.domains, sgDoms,
        anons_domains p _ (fun e he => (hAN e he).1)]
  · by_cases hz : b.len = 0 <;>
      simp [hnucs, hempty, hz, withNewDomains_eq, St.baseSeqs, List.filter_append, hANbase, hA.baseSeqs, sgDoms,
        anons_baseSeqs p _ hAN]
  · by_cases hz : b.len = 0 <;>
      simp [hnucs, hempty, hz, withNewDomains_eq, St.supSeqs, List.filter_append, hANsup, hA.supSeqs, hnucs]
  · by_cases hz : b.len = 0 <;> simp [hnucs, hempty, hz, withNewDomains_eq, hA.ostrands]
  · by_cases hz : b.len = 0 <;> simp [hnucs, hempty, hz, withNewDomains_eq, hA.structs]
  · by_cases hz : b.len = 0 <;> simp [hnucs, hempty, hz, withNewDomains_eq, hA.kinetics]

theorem itemNucs_map {f : SeqE → SeqE} (hf : FlagOnly f) (p : String) (l : List SeqE) (i : ItemRef) :
    itemNucs p (l.map f) i = itemNucs p l i := by
  simp only [itemNucs, viewBases_map hf]

theorem filter_map_flag (f : SeqE → SeqE) (q : SeqE → Bool) (hq : ∀ e, q (f e) = q e) (l : List SeqE) :
    (l.map f).filter q = (l.filter q).map f := by
  rw [List.filter_map]
  congr 1
  apply List.filter_congr
  intro e _
  exact hq e

theorem map_flag_filters {β} (f : SeqE → SeqE) (hf : FlagOnly f) (q : SeqE → Bool) (hq : ∀ e, q (f e) = q e)
    (G : SeqE → β) (hG : ∀ e, G (f e) = G e) (l : List SeqE) :
    (((l.map f).filter q).filter (·.len != 0)).map G = ((l.filter q).filter (·.len != 0)).map G := by
  rw [filter_map_flag f q hq, filter_map_flag f _ (fun e => by simp only [(hf e).2.2.1]), List.map_map]
  apply List.map_congr_left
  intro e _
  exact hG e

theorem step_strand {p : String} {s : St} {a : Nat} {env : Env} {o : Out} (hw : WF s a) (hA : Agree p s env o a)
    {name : String} {dummy : Bool} {items : List SrcItem} (hn : itemNamesOk items = true)
    (hf : findT s.strands name = none)
    {len : Option Nat} {cs : List CItem} {b : Built} {sg : Segs} (R : RegionNF s a items len cs b sg) (hz : b.len ≠ 0) :
    ∃ env' o', denoteStmt p env o (.strand dummy name items len) = .ok (env', o') ∧
      Agree p { s with seqs := (s.seqs ++ sgAnons sg).map (markFn b.bases),
                       strands := s.strands ++ [strandEntry name dummy b] } env' o' b.anon := by
  have hl : env.strands.lookup name = none := by
    cases h : env.strands.lookup name with
    | none => rfl
    | some x => obtain ⟨t, ht, _⟩ := hA.strands name x h; rw [hf] at ht; simp at ht
  have F0 := region_final hw.seqs R [] (by simp) (by simpa using hw.seqs.nodup)
  obtain ⟨_, hsegs, hanons, _, _, _, hlenB, _, _⟩ := F0
  simp only [List.append_nil] at hsegs hanons
  have hext : Ext s.seqs (s.seqs ++ sgAnons sg) := Ext.append _ _
  have hflag := markFn_flagOnly b.bases
  have hAN : ∀ e ∈ sgAnons sg, e.const.length = e.len ∧ e.bases = [⟨e.name, false, e.len⟩] := by
    intro e he
    obtain ⟨hwf, hs, _, _⟩ := hanons e he
    exact ⟨(hwf.base hs).2.1, (hwf.base hs).1⟩
  have hANsup : (sgAnons sg).filter (·.isSup) = [] :=
    List.filter_eq_nil_iff.mpr (fun e he => by simp [(hanons e he).2.1])
  have hANbase : (sgAnons sg).filter (fun e => !e.isSup) = sgAnons sg :=
    List.filter_eq_self.mpr (fun e he => by simp [(hanons e he).2.1])
  have hnucs : (sgSegs p sg).flatten = cnucs p b.bases := by rw [sg_flatten, R.nf.bases]
  have hempty : ¬ (cnucs p b.bases = []) := by
    rw [← List.length_eq_zero_iff, cnucs_length, ← hlenB]; exact hz
  refine ⟨_, _, by
    simp only [denoteStmt, hl, Option.isSome_none, Bool.false_eq_true, if_false, region_denote hw hA hn R, bind,
      Except.bind, pure, Except.pure, hnucs, List.isEmpty_iff, hempty]
    rfl, ?_⟩
  have hsup : ∀ e, (markFn b.bases e).isSup = e.isSup := fun e => (hflag e).2.1
  have hlen : ∀ e, (markFn b.bases e).len = e.len := fun e => (hflag e).2.2.1
  refine ⟨rfl, ?_, ?_, ?_, ?_, ?_, ?_, ?_, ?_, ?_, ?_⟩
  · intro n bd hb
    obtain ⟨e, h1, h2, h3, h4⟩ := agree_seqs_ext hw hA hext n bd hb
    refine ⟨markFn b.bases e, by rw [findE_map _ (fun e => (hflag e).1), h1]; rfl,
      by rw [(hflag e).2.2.2.2.2]; exact h2, by rw [hsup]; exact h3, fun hb' => ?_⟩
    rw [(hflag e).2.2.2.2.1, ← h4 hb']
    exact List.map_congr_left (fun i _ => itemNucs_map hflag p _ i)
  · intro n hnn hb
    rw [findE_map _ (fun e => (hflag e).1), findE_append_of_none (hA.seqsNone n hnn hb), findE_eq_none.mpr]
    · rfl
    · intro e he
      obtain ⟨j, _, _, hj⟩ := (hanons e he).2.2.2
      rw [hj]; exact fun h => okName_ne_anon hnn j h.symm
  · intro n x hb
    simp only [List.lookup_append, Option.or_eq_some_iff] at hb
    rcases hb with hb | ⟨hb1, hb2⟩
    · obtain ⟨t, h1, h2, h3⟩ := agree_strands_ext hw hA hext n x hb
      refine ⟨t, by rw [findT_append, h1]; rfl, h2, ?_⟩
      rw [← h3]
      exact List.map_congr_left (fun i _ => itemNucs_map hflag p _ i)
    · simp only [List.lookup_cons, List.lookup_nil] at hb2
      split at hb2
      · rename_i heq
        have hnn : n = name := by simpa using heq
        subst hnn
        simp only [Option.some.injEq] at hb2
        subst hb2
        refine ⟨strandEntry n dummy b, by rw [findT_append, hf]; simp [findT], rfl, ?_⟩
        show b.items.map _ = _
        rw [R.nf.items, sg_segs hsegs]
        exact List.map_congr_left (fun i _ => itemNucs_map hflag p _ i)
      · simp at hb2
  · intro n hb
    simp only [List.lookup_append, Option.or_eq_none_iff] at hb
    have hne' : n ≠ name := by
      intro h; subst h; simp at hb
    rw [findT_append, hA.strandsNone n hb.1]
    simp [findT, Ne.symm hne']
  · show _ = ((((s.seqs ++ sgAnons sg).map (markFn b.bases)).filter (fun e => !e.isSup)).filter (·.len != 0)).map _
    rw [map_flag_filters _ hflag _ (fun e => by rw [hsup]) _ (fun e => by rw [(hflag e).1, (hflag e).2.2.2.1])]
    simp [withNewDomains_eq, St.baseSeqs, List.filter_append, hANbase, hA.domains, sgDoms,
      anons_domains p _ (fun e he => (hAN e he).1)]
  · show _ = ((((s.seqs ++ sgAnons sg).map (markFn b.bases)).filter (fun e => !e.isSup)).filter (·.len != 0)).map _
    rw [map_flag_filters _ hflag _ (fun e => by rw [hsup]) _ (fun e => by rw [(hflag e).1, (hflag e).2.2.2.2.2])]
    simp [withNewDomains_eq, St.baseSeqs, List.filter_append, hANbase, hA.baseSeqs, sgDoms, anons_baseSeqs p _ hAN]
  · show _ = ((((s.seqs ++ sgAnons sg).map (markFn b.bases)).filter (fun e => e.isSup)).filter (·.len != 0)).map _
    rw [map_flag_filters _ hflag _ hsup _ (fun e => by rw [(hflag e).1, (hflag e).2.2.2.2.2])]
    simp [withNewDomains_eq, St.supSeqs, List.filter_append, hANsup, hA.supSeqs]
  · simp [withNewDomains_eq, hA.ostrands, hnucs]
  · simp [withNewDomains_eq, hA.structs]
  · simp [withNewDomains_eq, hA.kinetics]
theorem itemNucs_length {p : String} {l : List SeqE} (hent : ∀ e ∈ l, EntryWF l e) {i : ItemRef} (hi : ItemOk l i) :
    (itemNucs p l i).length = i.len := by
  obtain ⟨ie, h1, h2⟩ := hi
  simp only [itemNucs, viewBases, h1, cnucs_length]
  rw [view_lens (hent ie (findE_some h1).1), h2]

theorem strand_lenB {l : List SeqE} (hent : ∀ e ∈ l, EntryWF l e) {t : StrandE} (ht : StrandWF l t) :
    (t.bases.map (·.len)).sum = t.len := by
  rw [ht.bases, ht.len]
  have := ht.items
  generalize t.items = its at this
  induction its with
  | nil => rfl
  | cons i r ih =>
    obtain ⟨ie, h1, h2⟩ := this i (by simp)
    simp only [List.flatMap_cons, List.map_append, List.sum_append, List.map_cons, List.sum_cons,
      ih (fun j hj => this j (by simp [hj]))]
    simp only [viewBases, h1]
    rw [view_lens (hent ie (findE_some h1).1), h2]

theorem any_struct_name (p : String) (structs : List StructE) (name : String) (g : StructE → StructD)
    (hg : ∀ e, (g e).name = p ++ e.name) :
    (structs.map g).any (·.name == p ++ name) = (structs.find? (·.name == name)).isSome := by
  induction structs with
  | nil => rfl
  | cons e r ih =>
    simp only [List.map_cons, List.any_cons, List.find?_cons, hg, pfx_beq, ih]
    cases h : (e.name == name) <;> simp

theorem step_struct {p : String} {s : St} {a : Nat} {env : Env} {o : Out} (hw : WF s a) (hA : Agree p s env o a)
    {opt : OptSrc} {name : String} {strands : List String} {domain : Bool} {text : List Char}
    (hf : s.findStruct name = none) {objs : List StrandE} {dp full : List Char} {optv : Dec}
    (hobjs : (∀ n ∈ strands, (findT s.strands n).isSome = true) ∧ objs = strands.filterMap (findT s.strands))
    (hdp : Notation.compileStruct text = some dp)
    (hfull : if domain then Notation.domainExpand dp (objs.map (fun o => o.items.map (·.len))) = some full else full = dp)
    (hsz : Notation.sizesOk full (objs.map (·.len)) = true) (hopt : optDec opt = some optv) :
    ∃ env' o', denoteStmt p env o (.struct opt name strands domain text) = .ok (env', o') ∧
      Agree p { s with strands := s.strands.map (fun (o : StrandE) => if strands.contains o.name then { o with inStructure := true } else o),
                       structs := s.structs ++ [⟨name, optv, strands, full, objs.flatMap (·.bases)⟩] } env' o' a := by
  have hdup : o.structs.any (·.name == p ++ name) = false := by
    rw [hA.structs, any_struct_name p s.structs name _ (fun _ => rfl)]
    simp only [St.findStruct] at hf
    rw [hf]; rfl
  have hlk : ∀ n ∈ strands, ∃ t x, findT s.strands n = some t ∧ env.strands.lookup n = some x ∧
      cnucs p t.bases = x.1 ∧ t.items.map (itemNucs p s.seqs) = x.2 := by
    intro n hn
    cases hl : env.strands.lookup n with
    | none => have := hobjs.1 n hn; rw [hA.strandsNone n hl] at this; simp at this
    | some x =>
      obtain ⟨t, h1, h2, h3⟩ := hA.strands n x hl
      exact ⟨t, x, h1, rfl, h2, h3⟩
  have hmapM : strands.mapM (fun n => match env.strands.lookup n with
      | some x => (Except.ok x : Except Denote.Err _) | none => throw Denote.Err.undefined) =
      .ok (strands.map (fun n => (env.strands.lookup n).getD ([], []))) := by
    apply mapM_ok_of_forall
    intro n hn
    obtain ⟨t, x, _, hx, _⟩ := hlk n hn
    simp [hx]
  have hlens1 : (strands.map (fun n => (env.strands.lookup n).getD ([], []))).map (fun x => x.2.map List.length) =
      objs.map (fun o => o.items.map (·.len)) := by
    rw [hobjs.2]
    clear hmapM hfull hsz hobjs
    induction strands with
    | nil => rfl
    | cons n r ih =>
      obtain ⟨t, x, h1, hx, _, h3⟩ := hlk n (by simp)
      simp only [List.map_cons, List.filterMap_cons, h1, hx, Option.getD_some,
        ih (fun m hm => hlk m (by simp [hm]))]
      congr 1
      rw [← h3, List.map_map]
      apply List.map_congr_left
      intro i hi
      exact itemNucs_length hw.seqs.entries ((hw.strands t (findT_some h1).1).items i hi)
  have hlens2 : (strands.map (fun n => (env.strands.lookup n).getD ([], []))).map (fun x => x.1.length) =
      objs.map (·.len) := by
    rw [hobjs.2]
    clear hmapM hfull hsz hobjs hlens1
    induction strands with
    | nil => rfl
    | cons n r ih =>
      obtain ⟨t, x, h1, hx, h2, _⟩ := hlk n (by simp)
      simp only [List.map_cons, List.filterMap_cons, h1, hx, Option.getD_some,
        ih (fun m hm => hlk m (by simp [hm]))]
      congr 1
      rw [← h2, cnucs_length, strand_lenB hw.seqs.entries (hw.strands t (findT_some h1).1)]
  have hoptA := opt_agree opt optv hopt
  have hstep : denoteStmt p env o (.struct opt name strands domain text) =
      .ok (env, { o with structs := o.structs ++ [⟨p ++ name, strands.map (p ++ ·), full, optD optv⟩] }) := by
    simp only [denoteStmt, hdup, Bool.false_eq_true, if_false, bind, Except.bind]
    generalize hm : List.mapM (m := Except Denote.Err) (β := List Nuc × List (List Nuc)) _ strands = m
    have hm' : m = .ok (strands.map (fun n => (env.strands.lookup n).getD ([], []))) := by
      rw [← hm]; exact hmapM
    subst hm'
    simp only [hdp, pure, Except.pure, hlens1, hlens2, hsz, Bool.not_true, Bool.false_eq_true, if_false, hoptA.1]
    cases domain with
    | false =>
      simp only [Bool.false_eq_true, if_false] at hfull ⊢
      subst hfull
      simp only [hsz, Bool.not_true, Bool.false_eq_true, if_false]
    | true =>
      simp only [if_true] at hfull ⊢
      simp only [hfull, hsz, Bool.not_true, Bool.false_eq_true, if_false]
  refine ⟨_, _, hstep, ?_⟩
  have hg : ∀ t : StrandE, ((fun (o : StrandE) => if strands.contains o.name then { o with inStructure := true } else o) t).name = t.name := by
    intro t; simp only; split <;> rfl
  refine ⟨hA.anon, hA.seqs, hA.seqsNone, ?_, ?_, hA.domains, hA.baseSeqs, hA.supSeqs, ?_, ?_, hA.kinetics⟩
  · intro n x hx
    obtain ⟨t, h1, h2, h3⟩ := hA.strands n x hx
    refine ⟨_, by rw [findT_map _ hg, h1]; rfl, ?_, ?_⟩
    · simp only; split <;> exact h2
    · simp only; split <;> exact h3
  · intro n hx
    rw [findT_map _ hg, hA.strandsNone n hx]; rfl
  · simp only [hA.ostrands, List.map_map]
    apply List.map_congr_left
    intro t _
    simp only [Function.comp]
    split <;> rfl
  · simp [hA.structs, optOfDec, hoptA.2]

theorem kinOf_eq (p : String) {low high : Option String} {lo hi : Option Dec} (ins outs : List String) (nm : String)
    (hlo : decOpt low = some lo) (hhi : decOpt high = some hi) :
    kinOf p low high ins outs = .ok (kinD p ⟨nm, ins, outs, lo, hi⟩) := by
  unfold kinOf kinD
  rcases low with _ | tl <;> rcases high with _ | th
  · simp only [decOpt, Option.some.injEq] at hlo hhi
    subst hlo hhi
    rfl
  · simp only [decOpt, Option.some.injEq, Option.map_eq_some_iff] at hlo hhi
    obtain ⟨d, hd, rfl⟩ := hhi
    subst hlo
    simp only [hd, bind, Except.bind, pure, Except.pure]
    split <;> rfl
  · simp only [decOpt, Option.some.injEq, Option.map_eq_some_iff] at hlo hhi
    obtain ⟨d, hd, rfl⟩ := hlo
    subst hhi
    simp only [hd, bind, Except.bind, pure, Except.pure]
    split <;> rfl
  · simp only [decOpt, Option.some.injEq, Option.map_eq_some_iff] at hlo hhi
    obtain ⟨d, hd, rfl⟩ := hlo
    obtain ⟨d2, hd2, rfl⟩ := hhi
    simp only [hd, hd2, bind, Except.bind, pure, Except.pure]
    split <;> split <;> rfl

theorem step_kinetic {p : String} {s : St} {a : Nat} {env : Env} {o : Out} (hA : Agree p s env o a)
    {low high : Option String} {ins outs : List String} {lo hi : Option Dec}
    (hall : (ins ++ outs).all (fun n => (s.findStruct n).isSome) = true)
    (hlo : decOpt low = some lo) (hhi : decOpt high = some hi) :
    ∃ env' o', denoteStmt p env o (.kinetic low high ins outs) = .ok (env', o') ∧
      Agree p { s with kins := s.kins ++ [⟨"Kin" ++ toString s.kins.length, ins, outs, lo, hi⟩] } env' o' a := by
  have hall' : (ins ++ outs).all (fun n => o.structs.any (·.name == p ++ n)) = true := by
    rw [List.all_eq_true] at hall ⊢
    intro n hn
    rw [hA.structs, any_struct_name p s.structs n _ (fun _ => rfl)]
    exact hall n hn
  refine ⟨_, _, by
    simp only [denoteStmt, hall', Bool.not_true, Bool.false_eq_true, if_false,
      kinOf_eq p ins outs ("Kin" ++ toString s.kins.length) hlo hhi, bind, Except.bind, pure, Except.pure]
    rfl, ?_⟩
  exact ⟨hA.anon, hA.seqs, hA.seqsNone, hA.strands, hA.strandsNone, hA.domains, hA.baseSeqs, hA.supSeqs, hA.ostrands,
    hA.structs, by simp [hA.kinetics]⟩
/-- one statement, both sides -/
theorem step_agree {p : String} {s : St} {a : Nat} {env : Env} {o : Out} {stmt : Stmt} {s' : St} {a' : Nat}
    (hw : WF s a) (hA : Agree p s env o a) (hok : stmtNamesOk stmt = true) (h : addStmt s a stmt = .ok (s', a')) :
    ∃ env' o', denoteStmt p env o stmt = .ok (env', o') ∧ Agree p s' env' o' a' ∧ s'.pfx = s.pfx := by
  cases stmt with
  | seq name items len =>
    simp only [stmtNamesOk, Bool.and_eq_true] at hok
    by_cases hb : ∃ text, items = [.nuc text]
    · obtain ⟨text, rfl⟩ := hb
      obtain ⟨hf, l, c, hr, rfl, rfl⟩ := addStmt_seq_base h
      obtain ⟨env', o', h1, h2⟩ := step_seq_base hw hA hok.1 hf hr
      exact ⟨env', o', h1, h2, rfl⟩
    · obtain ⟨hf, cs, b, hc, hbd, rfl, rfl⟩ := addStmt_seq_sup (fun t ht => hb ⟨t, ht⟩) h
      obtain ⟨sg, R⟩ := region_nf hw.seqs.entries hc hbd
      obtain ⟨env', o', h1, h2⟩ := step_seq_sup hw hA hok.1 hok.2 (fun t ht => hb ⟨t, ht⟩) hf R
      rw [(WF_seq_sup hw hok.1 hf R).1]
      exact ⟨env', o', h1, h2, rfl⟩
  | strand dummy name items len =>
    simp only [stmtNamesOk] at hok
    obtain ⟨hf, cs, b, hc, hbd, hz, rfl, rfl⟩ := addStmt_strand h
    obtain ⟨sg, R⟩ := region_nf hw.seqs.entries hc hbd
    obtain ⟨env', o', h1, h2⟩ := step_strand (dummy := dummy) hw hA hok hf R hz
    rw [(WF_strand (dummy := dummy) hw hf R).1]
    exact ⟨env', o', h1, h2, rfl⟩
  | struct opt name strands domain text =>
    obtain ⟨hf, objs, dp, full, optv, hobjs, hdp, hfull, hsz, hopt, rfl, rfl⟩ := addStmt_struct h
    obtain ⟨env', o', h1, h2⟩ := step_struct hw hA hf (strands_mapM hobjs) hdp hfull hsz hopt
    exact ⟨env', o', h1, h2, rfl⟩
  | kinetic low high ins outs =>
    obtain ⟨hall, lo, hi, hlo, hhi, rfl, rfl⟩ := addStmt_kinetic h
    obtain ⟨env', o', h1, h2⟩ := step_kinetic hA hall hlo hhi
    exact ⟨env', o', h1, h2, rfl⟩

theorem addStmts_agree {p : String} {stmts : List Stmt} : ∀ {s : St} {a : Nat} {env : Env} {o : Out} {s' : St} {a' : Nat},
    WF s a → Agree p s env o a → (∀ st ∈ stmts, stmtNamesOk st = true) → addStmts s a stmts = .ok (s', a') →
    ∃ env' o', denoteStmts p stmts env o = .ok (env', o') ∧ WF s' a' ∧ Agree p s' env' o' a' ∧ s'.pfx = s.pfx := by
  induction stmts with
  | nil =>
    intro s a env o s' a' hw hA _ h
    simp only [addStmts, Except.ok.injEq, Prod.mk.injEq] at h
    obtain ⟨rfl, rfl⟩ := h
    exact ⟨env, o, rfl, hw, hA, rfl⟩
  | cons st r ih =>
    intro s a env o s' a' hw hA hok h
    simp only [addStmts] at h
    cases h1 : addStmt s a st with
    | error e => simp [h1] at h
    | ok v =>
      obtain ⟨s1, a1⟩ := v
      simp only [h1] at h
      obtain ⟨env1, o1, hd, hA1, hp1⟩ := step_agree hw hA (hok st (by simp)) h1
      obtain ⟨hw1, _⟩ := addStmt_WF hw (hok st (by simp)) h1
      obtain ⟨env', o', hd', hw', hA', hp'⟩ := ih hw1 hA1 (fun x hx => hok x (by simp [hx])) h
      exact ⟨env', o', by simp only [denoteStmts, hd]; exact hd', hw', hA', hp'.trans hp1⟩
/-! ### the alphabet of the written constraints -/

def partsCodesOk (tbl : CodeTable) (parts : List (Mult × Char)) : Bool := parts.all (fun mc => tbl.isCode mc.2)

def itemCodesOk (tbl : CodeTable) (items : List SrcItem) : Bool :=
  items.all fun
    | .nuc text => partsCodesOk tbl (parseQuoted text)
    | _ => true

/-- every code letter written in the statement is a code of the table -/
def stmtCodesOk (tbl : CodeTable) : Stmt → Bool
  | .seq _ items _ => itemCodesOk tbl items
  | .strand _ _ items _ => itemCodesOk tbl items
  | _ => true

theorem mem_expand {w : Nat} {parts : List (Mult × Char)} {ch : Char} (h : ch ∈ expand w parts) :
    ∃ mc ∈ parts, mc.2 = ch := by
  induction parts with
  | nil => simp [expand] at h
  | cons q r ih =>
    obtain ⟨m, c⟩ := q
    cases m with
    | num n =>
      simp only [expand, List.mem_append, List.mem_replicate] at h
      rcases h with ⟨_, rfl⟩ | h
      · exact ⟨(Mult.num n, ch), by simp, rfl⟩
      · obtain ⟨mc, h1, h2⟩ := ih h; exact ⟨mc, by simp [h1], h2⟩
    | wild =>
      simp only [expand, List.mem_append, List.mem_replicate] at h
      rcases h with ⟨_, rfl⟩ | h
      · exact ⟨(Mult.wild, ch), by simp, rfl⟩
      · obtain ⟨mc, h1, h2⟩ := ih h; exact ⟨mc, by simp [h1], h2⟩

theorem expand_codes {tbl : CodeTable} {parts : List (Mult × Char)} (h : partsCodesOk tbl parts = true) (w : Nat) :
    (expand w parts).all tbl.isCode = true := by
  rw [List.all_eq_true]
  intro ch hch
  obtain ⟨mc, h1, rfl⟩ := mem_expand hch
  exact (List.all_eq_true.mp h) mc h1

theorem resolve_codes {tbl : CodeTable} {parts : List (Mult × Char)} (h : partsCodesOk tbl parts = true)
    {len : Option Nat} {l : Nat} {c : List Char} (hr : resolve parts len = .ok (l, c)) : c.all tbl.isCode = true := by
  unfold resolve at hr
  split at hr
  · simp at hr
  · split at hr
    · split at hr
      · split at hr
        · simp only [Except.ok.injEq, Prod.mk.injEq] at hr; rw [← hr.2]; exact expand_codes h _
        · simp at hr
      · simp only [Except.ok.injEq, Prod.mk.injEq] at hr; rw [← hr.2]; exact expand_codes h _
    · split at hr
      · simp at hr
      · split at hr
        · simp at hr
        · simp only [Except.ok.injEq, Prod.mk.injEq] at hr; rw [← hr.2]; exact expand_codes h _

def CodesInv (tbl : CodeTable) (s : St) : Prop := ∀ e ∈ s.seqs, e.const.all tbl.isCode = true

theorem partsCodesOk_explicit {tbl : CodeTable} {parts : List (Mult × Char)} (h : partsCodesOk tbl parts = true) (x : Nat) :
    partsCodesOk tbl (explicit x parts) = true := by
  induction parts with
  | nil => rfl
  | cons q r ih =>
    obtain ⟨m, c⟩ := q
    simp only [partsCodesOk, List.all_cons, Bool.and_eq_true] at h ih ⊢
    cases m <;> simp [explicit, h.1, ih h.2, partsCodesOk]

theorem anons_codes {tbl : CodeTable} {s : St} {a : Nat} {items : List SrcItem} {len : Option Nat} {cs : List CItem}
    {b : Built} {sg : Segs} (R : RegionNF s a items len cs b sg) (hc : itemCodesOk tbl items = true) :
    ∀ e ∈ sgAnons sg, e.const.all tbl.isCode = true := by
  intro e he
  obtain ⟨y, hy, hey⟩ := mem_sgAnons he
  obtain ⟨j, q, _, _, hq, rfl⟩ := mem_anonsFrom hey
  obtain ⟨text, ht, hp⟩ := R.nucs q (by simp only [sgItems, List.mem_flatMap]; exact ⟨y, hy, hq⟩)
  have htext : partsCodesOk tbl (parseQuoted text) = true := by
    have := (List.all_eq_true.mp hc) _ ht
    simpa using this
  simp only [mkAnon]
  rcases hp with rfl | ⟨x, rfl⟩
  · exact expand_codes htext 0
  · exact expand_codes (partsCodesOk_explicit htext x) 0

theorem addStmt_codes {tbl : CodeTable} {s : St} {a : Nat} {stmt : Stmt} {s' : St} {a' : Nat} (hw : WF s a)
    (hci : CodesInv tbl s) (hok : stmtNamesOk stmt = true) (hco : stmtCodesOk tbl stmt = true)
    (h : addStmt s a stmt = .ok (s', a')) : CodesInv tbl s' := by
  cases stmt with
  | seq name items len =>
    simp only [stmtNamesOk, Bool.and_eq_true] at hok
    simp only [stmtCodesOk] at hco
    by_cases hb : ∃ text, items = [.nuc text]
    · obtain ⟨text, rfl⟩ := hb
      obtain ⟨hf, l, c, hr, rfl, rfl⟩ := addStmt_seq_base h
      intro e he
      simp only [List.mem_append, List.mem_singleton] at he
      rcases he with he | rfl
      · exact hci e he
      · exact resolve_codes (by simpa [itemCodesOk] using hco) hr
    · obtain ⟨hf, cs, b, hc, hbd, rfl, rfl⟩ := addStmt_seq_sup (fun t ht => hb ⟨t, ht⟩) h
      obtain ⟨sg, R⟩ := region_nf hw.seqs.entries hc hbd
      rw [(WF_seq_sup hw hok.1 hf R).1]
      intro e he
      simp only [List.mem_append, List.mem_singleton] at he
      rcases he with (he | rfl) | he
      · exact hci e he
      · rfl
      · exact anons_codes R hco e he
  | strand dummy name items len =>
    simp only [stmtCodesOk] at hco
    obtain ⟨hf, cs, b, hc, hbd, hz, rfl, rfl⟩ := addStmt_strand h
    obtain ⟨sg, R⟩ := region_nf hw.seqs.entries hc hbd
    rw [(WF_strand (dummy := dummy) hw hf R).1]
    intro e he
    simp only [List.mem_map, List.mem_append] at he
    obtain ⟨e0, he0, rfl⟩ := he
    rw [(markFn_flagOnly b.bases e0).2.2.2.1]
    rcases he0 with he0 | he0
    · exact hci e0 he0
    · exact anons_codes R hco e0 he0
  | struct opt name strands domain text =>
    obtain ⟨_, objs, dp, full, optv, _, _, _, _, _, rfl, rfl⟩ := addStmt_struct h
    exact hci
  | kinetic low high ins outs =>
    obtain ⟨_, lo, hi, _, _, rfl, rfl⟩ := addStmt_kinetic h
    exact hci
end Pepper.Comp
