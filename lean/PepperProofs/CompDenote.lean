import PepperProofs.CompEmit
import PepperModel.Denote
/-!
# The compile path agrees with the specification `Denote.denoteComp` (C01, part D)

`Agree p s env o a`: the tables `s` of the compile path after a prefix of the statements and the
specification's environment / output after the same prefix describe the same thing.  `addStmt` and
`Denote.denoteStmt` preserve it in lock step (`step_agree`).
-/
set_option linter.unusedSimpArgs false
namespace Pepper.Comp
open Pepper.Constraint Pepper.Denote

/-! ### the specification's item pass, on cleaned items -/

def denoteC (p : String) : List CItem → ItemsAcc → Except Denote.Err ItemsAcc
  | [], a => .ok a
  | .obj _ bs :: r, a => denoteC p r { a with segs := a.segs ++ [cnucs p bs] }
  | .nuc parts :: r, a =>
    match resolve parts none with
    | .ok (l, c) =>
      let name := p ++ "_Anon" ++ toString a.anon
      denoteC p r { a with segs := a.segs ++ [fwd name l], newDomains := a.newDomains ++ [(a.segs.length, name, c)],
                           anon := a.anon + 1 }
    | .error .wildNoLength =>
      if a.wild.isSome then .error .wildcard
      else denoteC p r { a with segs := a.segs ++ [[]], wild := some (a.segs.length, parts) }
    | .error _ => .error .wildcard

/-- nucleotides of the view an item refers to -/
def itemNucs (p : String) (l : List SeqE) (i : ItemRef) : List Nuc := cnucs p (viewBases l i)

def kinD (p : String) (k : KinE) : KinD :=
  ⟨k.ins.map (p ++ ·), k.outs.map (p ++ ·),
   (match k.low with | some d => String.ofList d.fmtF | none => "0.000000"),
   (match k.high with | some d => String.ofList d.fmtF | none => "inf")⟩

structure Agree (p : String) (s : St) (env : Env) (o : Out) (a : Nat) : Prop where
  anon : env.anon = a
  seqs : ∀ n b, env.seqs.lookup n = some b → ∃ e, findE s.seqs n = some e ∧ cnucs p e.bases = b.nucs ∧
    e.isSup = b.isSup ∧ (b.isSup = true → e.items.map (itemNucs p s.seqs) = b.segs)
  seqsNone : ∀ n, okName n = true → env.seqs.lookup n = none → findE s.seqs n = none
  strands : ∀ n x, env.strands.lookup n = some x → ∃ t, findT s.strands n = some t ∧ cnucs p t.bases = x.1 ∧
    t.items.map (itemNucs p s.seqs) = x.2
  strandsNone : ∀ n, env.strands.lookup n = none → findT s.strands n = none
  domains : o.domains = (s.baseSeqs.filter (·.len != 0)).map (fun e => (p ++ e.name, e.const))
  baseSeqs : o.baseSeqs = (s.baseSeqs.filter (·.len != 0)).map (fun e => (p ++ e.name, cnucs p e.bases))
  supSeqs : o.supSeqs = (s.supSeqs.filter (·.len != 0)).map (fun e => (p ++ e.name, cnucs p e.bases))
  ostrands : o.strands = s.strands.map (fun t => (p ++ t.name, t.dummy, cnucs p t.bases))
  structs : o.structs = s.structs.map (fun e => ⟨p ++ e.name, e.strands.map (p ++ ·), e.struct, optOfDec e.opt⟩)
  kinetics : o.kinetics = s.kins.map (kinD p)

/-! ### `cleanConst` refines `denoteItems` -/

theorem denoteC_objs (p : String) (vb : ItemRef → List BaseRef) (its : List ItemRef) (rest : List CItem) (acc : ItemsAcc) :
    denoteC p (its.map (fun i => CItem.obj i (vb i)) ++ rest) acc =
      denoteC p rest { acc with segs := acc.segs ++ its.map (fun i => cnucs p (vb i)) } := by
  induction its generalizing acc with
  | nil => simp
  | cons i r ih =>
    simp only [List.map_cons, List.cons_append, denoteC, ih]
    simp

theorem viewBases_inv (l : List SeqE) (i : ItemRef) : viewBases l i.inv = (viewBases l i).reverse.map BaseRef.inv := by
  simp only [viewBases, ItemRef.inv]
  cases findE l i.name with
  | none => rfl
  | some ie => exact basesOfView_not ie i.rev

theorem itemNucs_inv (p : String) (l : List SeqE) (i : ItemRef) : itemNucs p l i.inv = rc (itemNucs p l i) := by
  simp only [itemNucs, viewBases_inv, cnucs_rev_inv]

theorem itemsOfView_nucs (p : String) (l : List SeqE) (e : SeqE) (st : Bool) :
    (itemsOfView e st).map (itemNucs p l) =
      if st then rcSegs (e.items.map (itemNucs p l)) else e.items.map (itemNucs p l) := by
  cases st with
  | false => simp [itemsOfView]
  | true =>
    simp only [itemsOfView, if_true, rcSegs, List.map_map, List.map_reverse]
    congr 1
    apply List.map_congr_left
    intro i _
    exact itemNucs_inv p l i

theorem clean_sound {p : String} {s : St} {a : Nat} {env : Env} {o : Out} (hw : WF s a) (hA : Agree p s env o a)
    {items : List SrcItem} (hn : itemNamesOk items = true) {cs : List CItem}
    (hc : cleanConst s items = .ok cs) (acc : ItemsAcc) :
    denoteItems p env items acc = denoteC p cs acc := by
  induction items generalizing cs acc with
  | nil => simp [cleanConst] at hc; subst hc; rfl
  | cons it r ih =>
    simp only [itemNamesOk, List.all_cons, Bool.and_eq_true] at hn
    have hnr : itemNamesOk r = true := hn.2
    cases it with
    | nuc text =>
      obtain ⟨rest, hr, rfl⟩ := cleanConst_nuc hc
      simp only [denoteItems, denoteC]
      cases hres : resolve (parseQuoted text) none with
      | ok v => obtain ⟨l, c⟩ := v; simp only []; exact ih hnr hr _
      | error er =>
        cases er with
        | wildNoLength => simp only []; rw [ih hnr hr]
        | tooManyWild => rfl
        | mismatch => rfl
        | tooShort => rfl
    | ref n st =>
      obtain ⟨e, rest, he, hr, rfl⟩ := cleanConst_ref hc
      have hok : okName n = true := hn.1
      simp only [denoteItems, denoteC]
      cases hl : env.seqs.lookup n with
      | none => rw [hA.seqsNone n hok hl] at he; simp at he
      | some b =>
        obtain ⟨e', he', hnu, _, _⟩ := hA.seqs n b hl
        rw [he] at he'
        simp only [Option.some.injEq] at he'
        subst he'
        simp only []
        rw [ih hnr hr, cnucs_basesOfView, hnu]
    | domains n st =>
      obtain ⟨e, objs, rest, he, hs, hobjs, hr, rfl⟩ := cleanConst_domains hc
      have hok : okName n = true := hn.1
      simp only [denoteItems]
      cases hl : env.seqs.lookup n with
      | none => rw [hA.seqsNone n hok hl] at he; simp at he
      | some b =>
        obtain ⟨e', he', hnu, hsup, hsegs⟩ := hA.seqs n b hl
        rw [he] at he'
        simp only [Option.some.injEq] at he'
        subst he'
        have hbs : b.isSup = true := by rw [← hsup]; exact hs
        have hobjs' : objs = (itemsOfView e st).map (fun i => CItem.obj i (viewBases s.seqs i)) := by
          have := mapM_ok_of_forall (f := fun (i : ItemRef) => match s.findSeq i.name with
              | some ie => (pure (CItem.obj i (basesOfView ie i.rev)) : Except Err CItem)
              | none => throw Err.other) (g := fun i => CItem.obj i (viewBases s.seqs i)) (l := itemsOfView e st) (by
            intro i hi
            obtain ⟨j, hj, hjn, _⟩ := mem_itemsOfView hi
            obtain ⟨ie, hie, _⟩ := ((hw.seqs.entries e (findE_some he).1).sup hs).1 j hj
            simp only [findSeq_eq, viewBases, hjn, hie]
            rfl)
          exact Except.ok.inj (hobjs.symm.trans this)
        dsimp only
        simp only [hbs, Bool.not_true, Bool.false_eq_true, if_false]
        rw [hobjs', denoteC_objs, ih hnr hr]
        congr 2
        have := itemsOfView_nucs p s.seqs e st
        rw [hsegs hbs] at this
        exact congrArg (acc.segs ++ ·) this.symm

end Pepper.Comp
