import PepperProofs.Sys
import PepperProofs.WellFormed
/-!
# The emitted PIL of a whole instance tree loads and denotes the source's design (C02, C09)

Parts:
1. `Pil.load` over appended statement lists: a FRAME lemma (`load_frame`: statements all of whose names satisfy `P`
   load on top of a specification none of whose names satisfies `P` exactly as they load alone, and the result is
   the append of the two specifications), and additivity of `Pil.denote` over `specAppend` (`denote_append`).
2. One component instance: the explicit specification its statements load to (`comp_spec`), what its ports
   resolve to (`comp_inst`), and `CompAcceptOn UserNamesOk` (`compAccept`).
3. The binding loop keeps every signal entry resolvable (`bind_full`).
4. The `sequence` / `equal` statements of the signals load on top of the instances (`load_sigs`).
5. What the signal part denotes (`denote_sys`, `sigDesign_eq`).
6. The induction over the instance tree (`stmts_full`, `sys_inst`, `tree_full`).
7. A code table for a bundle (`tableOfBundle`), for statements that need no alphabet hypothesis.
-/
set_option linter.unusedSimpArgs false
namespace Pepper.SysProofs
open Pepper.Comp Pepper.Sys Pepper.WellFormed

/-! ## 1. frame and additivity -/

def specAppend (a b : Pil.Spec) : Pil.Spec :=
  ⟨a.seqs ++ b.seqs, a.strands ++ b.strands, a.structs ++ b.structs, a.equals ++ b.equals⟩

theorem specAppend_nil_left (b : Pil.Spec) : specAppend {} b = b := by
  simp [specAppend]

theorem specAppend_nil_right (a : Pil.Spec) : specAppend a {} = a := by
  simp [specAppend]

theorem specAppend_assoc (a b c : Pil.Spec) : specAppend (specAppend a b) c = specAppend a (specAppend b c) := by
  simp [specAppend, List.append_assoc]

/-- every name a statement defines or refers to (item names without their trailing `*`) -/
def stmtNames : Pil.Stmt → List String
  | .seq n _ => [n]
  | .sup n items => n :: items.map stripStar
  | .strand n _ items => n :: items.map stripStar
  | .struct n _ ss _ => n :: ss
  | .equal items => items.map stripStar
  | .kinetic => []

/-- no object of the specification has a name satisfying `P` -/
structure SpecFree (P : String → Prop) (s : Pil.Spec) : Prop where
  seqs : ∀ o ∈ s.seqs, ¬ P o.name
  strands : ∀ o ∈ s.strands, ¬ P o.name
  structs : ∀ o ∈ s.structs, ¬ P o.name

/-- every object of the specification, and every member of its `equal` constraints, has a name satisfying `P` -/
structure SpecNamesP (P : String → Prop) (s : Pil.Spec) : Prop where
  seqs : ∀ o ∈ s.seqs, P o.name
  strands : ∀ o ∈ s.strands, P o.name
  structs : ∀ o ∈ s.structs, P o.name
  equals : ∀ its ∈ s.equals, ∀ i ∈ its, P i.name

theorem SpecNamesP.empty {P : String → Prop} : SpecNamesP P {} :=
  ⟨(fun _ h => nomatch h), (fun _ h => nomatch h), (fun _ h => nomatch h), (fun _ h => nomatch h)⟩

theorem SpecNamesP.free {P Q : String → Prop} {s : Pil.Spec} (h : SpecNamesP P s) (hpq : ∀ n, P n → ¬ Q n) :
    SpecFree Q s :=
  ⟨fun o ho => hpq _ (h.seqs o ho), fun o ho => hpq _ (h.strands o ho), fun o ho => hpq _ (h.structs o ho)⟩

theorem SpecNamesP.mono {P Q : String → Prop} {s : Pil.Spec} (h : SpecNamesP P s) (hpq : ∀ n, P n → Q n) :
    SpecNamesP Q s :=
  ⟨fun o ho => hpq _ (h.seqs o ho), fun o ho => hpq _ (h.strands o ho), fun o ho => hpq _ (h.structs o ho),
   fun its hi i hm => hpq _ (h.equals its hi i hm)⟩

theorem SpecNamesP.append {P : String → Prop} {a b : Pil.Spec} (ha : SpecNamesP P a) (hb : SpecNamesP P b) :
    SpecNamesP P (specAppend a b) := by
  constructor <;> intro o ho <;> simp only [specAppend, List.mem_append] at ho <;> rcases ho with h | h
  · exact ha.seqs o h
  · exact hb.seqs o h
  · exact ha.strands o h
  · exact hb.strands o h
  · exact ha.structs o h
  · exact hb.structs o h
  · exact ha.equals o h
  · exact hb.equals o h

/-- every member of an `equal` constraint is a defined sequence -/
def EqClosed (s : Pil.Spec) : Prop := ∀ its ∈ s.equals, ∀ i ∈ its, (s.findSeq i.name).isSome = true

theorem findSeq_append_left {a : Pil.Spec} {n : String} (b : Pil.Spec) (h : (a.findSeq n).isSome = true) :
    (specAppend a b).findSeq n = a.findSeq n := by
  simp only [Pil.Spec.findSeq, specAppend, List.find?_append] at h ⊢
  cases hf : a.seqs.find? (·.name == n) with
  | none => rw [hf] at h; cases h
  | some o => rfl

theorem findSeq_append_right {a : Pil.Spec} {n : String} (b : Pil.Spec) (h : a.findSeq n = none) :
    (specAppend a b).findSeq n = b.findSeq n := by
  simp only [Pil.Spec.findSeq, specAppend, List.find?_append] at h ⊢
  rw [h]; rfl

theorem findSeq_none_of_free {P : String → Prop} {a : Pil.Spec} (hf : SpecFree P a) {n : String} (hn : P n) :
    a.findSeq n = none := by
  simp only [Pil.Spec.findSeq, List.find?_eq_none, beq_iff_eq]
  intro o ho he
  exact hf.seqs o ho (he ▸ hn)

theorem findStrand_none_of_free {P : String → Prop} {a : Pil.Spec} (hf : SpecFree P a) {n : String} (hn : P n) :
    a.findStrand n = none := by
  simp only [Pil.Spec.findStrand, List.find?_eq_none, beq_iff_eq]
  intro o ho he
  exact hf.strands o ho (he ▸ hn)

theorem findStrand_append_right {a : Pil.Spec} {n : String} (b : Pil.Spec) (h : a.findStrand n = none) :
    (specAppend a b).findStrand n = b.findStrand n := by
  simp only [Pil.Spec.findStrand, specAppend, List.find?_append] at h ⊢
  rw [h]; rfl

theorem findStruct_append_free {P : String → Prop} {a : Pil.Spec} (hf : SpecFree P a) {n : String} (hn : P n)
    (b : Pil.Spec) : (specAppend a b).structs.find? (·.name == n) = b.structs.find? (·.name == n) := by
  have : a.structs.find? (·.name == n) = none := by
    simp only [List.find?_eq_none, beq_iff_eq]
    intro o ho he
    exact hf.structs o ho (he ▸ hn)
  simp only [specAppend, List.find?_append, this]; rfl

theorem resolveItems_congr {s1 s2 : Pil.Spec} : ∀ (items : List String),
    (∀ r ∈ items, s1.findSeq (stripStar r) = s2.findSeq (stripStar r)) →
    Pil.resolveItems s1 items = Pil.resolveItems s2 items := by
  intro items
  induction items with
  | nil => intro _; rfl
  | cons r rs ih =>
    intro h
    simp only [Pil.resolveItems, resolveItem_eq, h r (by simp), ih (fun x hx => h x (by simp [hx]))]

theorem mapM_congr' {α β ε} {f g : α → Except ε β} : ∀ (l : List α), (∀ a ∈ l, f a = g a) → l.mapM f = l.mapM g := by
  intro l
  induction l with
  | nil => intro _; rfl
  | cons a r ih =>
    intro h
    rw [List.mapM_cons, List.mapM_cons, h a (by simp), ih (fun x hx => h x (by simp [hx]))]

/-- FRAME, one statement -/
theorem add_frame (tbl : CodeTable) {P : String → Prop} {s0 s s' : Pil.Spec} {st : Pil.Stmt}
    (hf : SpecFree P s0) (hn : ∀ n ∈ stmtNames st, P n) (h : s.add tbl st = .ok s') :
    (specAppend s0 s).add tbl st = .ok (specAppend s0 s') := by
  have fs : ∀ n, P n → (specAppend s0 s).findSeq n = s.findSeq n :=
    fun n hp => findSeq_append_right s (findSeq_none_of_free hf hp)
  have ft : ∀ n, P n → (specAppend s0 s).findStrand n = s.findStrand n :=
    fun n hp => findStrand_append_right s (findStrand_none_of_free hf hp)
  cases st with
  | seq name template =>
    simp only [stmtNames, List.mem_singleton, forall_eq] at hn
    simp only [Pil.Spec.add, fs name hn] at h ⊢
    split at h
    · cases h
    · split at h
      · cases h
      · rename_i h1 h2
        simp only [Except.ok.injEq] at h
        subst h
        simp only [h1, h2, if_false]
        simp [specAppend, List.append_assoc]
  | sup name items =>
    simp only [stmtNames, List.mem_cons, List.mem_map, forall_eq_or_imp, forall_exists_index, and_imp,
      forall_apply_eq_imp_iff₂] at hn
    have hri : Pil.resolveItems (specAppend s0 s) items = Pil.resolveItems s items :=
      resolveItems_congr items (fun r hr => fs _ (hn.2 r hr))
    simp only [Pil.Spec.add, fs name hn.1, hri, bind, Except.bind] at h ⊢
    split at h
    · cases h
    · rename_i h1
      cases hr : Pil.resolveItems s items with
      | error e => rw [hr] at h; cases h
      | ok R =>
        rw [hr] at h
        simp only [pure, Except.pure, Except.ok.injEq] at h
        subst h
        simp only [h1, if_false, pure, Except.pure]
        simp [specAppend, List.append_assoc]
  | strand name dummy items =>
    simp only [stmtNames, List.mem_cons, List.mem_map, forall_eq_or_imp, forall_exists_index, and_imp,
      forall_apply_eq_imp_iff₂] at hn
    have hri : Pil.resolveItems (specAppend s0 s) items = Pil.resolveItems s items :=
      resolveItems_congr items (fun r hr => fs _ (hn.2 r hr))
    simp only [Pil.Spec.add, ft name hn.1, hri, bind, Except.bind] at h ⊢
    split at h
    · cases h
    · rename_i h1
      cases hr : Pil.resolveItems s items with
      | error e => rw [hr] at h; cases h
      | ok R =>
        rw [hr] at h
        simp only [pure, Except.pure, Except.ok.injEq] at h
        subst h
        simp only [h1, if_false, pure, Except.pure]
        simp [specAppend, List.append_assoc]
  | struct name params strands x =>
    simp only [stmtNames, List.mem_cons, forall_eq_or_imp] at hn
    have hm : strands.mapM (fun n => match (specAppend s0 s).findStrand n with
          | some o => (pure o : Except Pil.Err Pil.StrandObj) | none => throw Pil.Err.undefinedStrand) =
        strands.mapM (fun n => match s.findStrand n with
          | some o => (pure o : Except Pil.Err Pil.StrandObj) | none => throw Pil.Err.undefinedStrand) :=
      mapM_congr' strands (fun n hm => by simp only [ft n (hn.2 n hm)])
    simp only [Pil.Spec.add, findStruct_append_free hf hn.1 s, bind, Except.bind] at h ⊢
    split at h
    · cases h
    · rename_i h1
      simp only [h1, if_false]
      generalize hg : List.mapM (m := Except Pil.Err) (β := Pil.StrandObj) _ strands = m at h
      generalize hg' : List.mapM (m := Except Pil.Err) (β := Pil.StrandObj) _ strands = m'
      have : m' = m := by rw [← hg, ← hg']; exact hm
      subst this
      cases m' with
      | error e => cases h
      | ok objs =>
        simp only at h ⊢
        split at h
        · cases h
        · rename_i h2
          simp only [h2, if_false]
          cases hb : Pil.getBonds x with
          | error e => rw [hb] at h; cases h
          | ok bonds =>
            rw [hb] at h
            simp only at h ⊢
            split at h
            · cases h
            · rename_i h3
              split at h
              · cases h
              · rename_i h4
                simp only [pure, Except.pure, Except.ok.injEq] at h
                subst h
                simp only [h3, h4, if_false, pure, Except.pure]
                simp [specAppend, List.append_assoc]
  | equal items =>
    simp only [stmtNames, List.mem_map, forall_exists_index, and_imp, forall_apply_eq_imp_iff₂] at hn
    have hri : Pil.resolveItems (specAppend s0 s) items = Pil.resolveItems s items :=
      resolveItems_congr items (fun r hr => fs _ (hn r hr))
    simp only [Pil.Spec.add, hri, bind, Except.bind] at h ⊢
    cases hr : Pil.resolveItems s items with
    | error e => rw [hr] at h; cases h
    | ok R =>
      rw [hr] at h
      simp only at h ⊢
      cases R with
      | nil => cases h
      | cons y ys =>
        simp only at h ⊢
        split at h
        · cases h
        · rename_i h1
          simp only [pure, Except.pure, Except.ok.injEq] at h
          subst h
          simp only [h1, if_false, pure, Except.pure]
          simp [specAppend, List.append_assoc]
  | kinetic =>
    simp only [Pil.Spec.add, pure, Except.pure, Except.ok.injEq] at h ⊢
    subst h; rfl

/-- FRAME: statements all of whose names satisfy `P`, loaded on top of a specification free of `P`-names, behave
    as they do alone, and the resulting specification is the append of the two -/
theorem load_frame (tbl : CodeTable) {P : String → Prop} {s0 : Pil.Spec} (hf : SpecFree P s0) :
    ∀ (ys : List Pil.Stmt) (s s' : Pil.Spec), (∀ st ∈ ys, ∀ n ∈ stmtNames st, P n) →
    Pil.load tbl ys s = .ok s' → Pil.load tbl ys (specAppend s0 s) = .ok (specAppend s0 s') := by
  intro ys
  induction ys with
  | nil =>
    intro s s' _ h
    simp only [Pil.load, Except.ok.injEq] at h ⊢
    rw [h]
  | cons st r ih =>
    intro s s' hn h
    simp only [Pil.load] at h ⊢
    cases h1 : s.add tbl st with
    | error e => rw [h1] at h; cases h
    | ok s1 =>
      rw [h1] at h
      rw [add_frame tbl hf (hn st (by simp)) h1]
      exact ih s1 s' (fun x hx => hn x (by simp [hx])) h

theorem snoc_seq (s : Pil.Spec) (x : Pil.SeqObj) : { s with seqs := s.seqs ++ [x] } = specAppend s ⟨[x], [], [], []⟩ := by
  simp [specAppend]
theorem snoc_strand (s : Pil.Spec) (x : Pil.StrandObj) :
    { s with strands := s.strands ++ [x] } = specAppend s ⟨[], [x], [], []⟩ := by
  simp [specAppend]
theorem snoc_struct (s : Pil.Spec) (x : Pil.StructObj) :
    { s with structs := s.structs ++ [x] } = specAppend s ⟨[], [], [x], []⟩ := by
  simp [specAppend]
theorem snoc_equal (s : Pil.Spec) (x : List Pil.ItemRef) :
    { s with equals := s.equals ++ [x] } = specAppend s ⟨[], [], [], [x]⟩ := by
  simp [specAppend]

/-- what one accepted statement adds -/
theorem add_delta (tbl : CodeTable) {s s' : Pil.Spec} {st : Pil.Stmt} (h : s.add tbl st = .ok s') :
    ∃ δ : Pil.Spec, s' = specAppend s δ ∧ SpecNamesP (fun n => n ∈ stmtNames st) δ ∧
      ∀ its ∈ δ.equals, ∀ i ∈ its, (s.findSeq i.name).isSome = true := by
  cases st with
  | seq name template =>
    simp only [Pil.Spec.add] at h
    split at h
    · cases h
    · split at h
      · cases h
      · simp only [Except.ok.injEq] at h
        subst h
        refine ⟨_, snoc_seq s _, ⟨?_, ?_, ?_, ?_⟩, ?_⟩
        all_goals simp [stmtNames]
  | sup name items =>
    simp only [Pil.Spec.add, bind, Except.bind] at h
    split at h
    · cases h
    · cases hr : Pil.resolveItems s items with
      | error e => rw [hr] at h; cases h
      | ok R =>
        rw [hr] at h
        simp only [pure, Except.pure, Except.ok.injEq] at h
        subst h
        refine ⟨_, snoc_seq s _, ⟨?_, ?_, ?_, ?_⟩, ?_⟩
        all_goals simp [stmtNames]
  | strand name dummy items =>
    simp only [Pil.Spec.add, bind, Except.bind] at h
    split at h
    · cases h
    · cases hr : Pil.resolveItems s items with
      | error e => rw [hr] at h; cases h
      | ok R =>
        rw [hr] at h
        simp only [pure, Except.pure, Except.ok.injEq] at h
        subst h
        refine ⟨_, snoc_strand s _, ⟨?_, ?_, ?_, ?_⟩, ?_⟩
        all_goals simp [stmtNames]
  | struct name params strands x =>
    simp only [Pil.Spec.add, bind, Except.bind] at h
    split at h
    · cases h
    · split at h
      · cases h
      · split at h
        · cases h
        · split at h
          · cases h
          · split at h
            · cases h
            · split at h
              · cases h
              · simp only [pure, Except.pure, Except.ok.injEq] at h
                subst h
                refine ⟨_, snoc_struct s _, ⟨?_, ?_, ?_, ?_⟩, ?_⟩
                all_goals simp [stmtNames]
  | equal items =>
    simp only [Pil.Spec.add, bind, Except.bind] at h
    cases hr : Pil.resolveItems s items with
    | error e => rw [hr] at h; cases h
    | ok R =>
      rw [hr] at h
      simp only at h
      have hR : ∀ x ∈ R, (s.findSeq x.1.name).isSome = true ∧ x.1.name ∈ items.map stripStar := by
        clear h
        induction items generalizing R with
        | nil => simp only [Pil.resolveItems, Except.ok.injEq] at hr; subst hr; intro x hx; cases hx
        | cons r rs ih =>
          simp only [Pil.resolveItems, bind, Except.bind] at hr
          cases h1 : Pil.resolveItem s r with
          | error e => rw [h1] at hr; cases hr
          | ok y =>
            rw [h1] at hr
            simp only at hr
            cases h2 : Pil.resolveItems s rs with
            | error e => rw [h2] at hr; cases hr
            | ok ys =>
              rw [h2] at hr
              simp only [pure, Except.pure, Except.ok.injEq] at hr
              subst hr
              intro x hx
              rcases List.mem_cons.1 hx with rfl | hx
              · obtain ⟨g1, g2⟩ := resolveItem_strip s r h1
                exact ⟨by rw [g2, g1]; rfl, by rw [g2]; simp⟩
              · obtain ⟨g1, g2⟩ := ih ys h2 x hx
                exact ⟨g1, by simp only [List.map_cons, List.mem_cons]; exact Or.inr g2⟩
      cases R with
      | nil => cases h
      | cons y ys =>
        simp only at h
        split at h
        · cases h
        · simp only [pure, Except.pure, Except.ok.injEq] at h
          subst h
          refine ⟨_, snoc_equal s _, ⟨?_, ?_, ?_, ?_⟩, ?_⟩
          · simp
          · simp
          · simp
          · intro its hi i hm
            simp only [List.mem_singleton] at hi
            subst hi
            obtain ⟨x, hx, rfl⟩ := List.mem_map.1 hm
            exact (hR x hx).2
          · intro its hi i hm
            simp only [List.mem_singleton] at hi
            subst hi
            obtain ⟨x, hx, rfl⟩ := List.mem_map.1 hm
            exact (hR x hx).1
  | kinetic =>
    simp only [Pil.Spec.add, pure, Except.pure, Except.ok.injEq] at h
    subst h
    exact ⟨{}, by simp [specAppend], SpecNamesP.empty, (fun _ h => nomatch h)⟩

theorem EqClosed.append {a b : Pil.Spec} (ha : EqClosed a)
    (hb : ∀ its ∈ b.equals, ∀ i ∈ its, ((specAppend a b).findSeq i.name).isSome = true) : EqClosed (specAppend a b) := by
  intro its hi i hm
  simp only [specAppend, List.mem_append] at hi
  rcases hi with hi | hi
  · rw [findSeq_append_left b (ha its hi i hm)]; exact ha its hi i hm
  · exact hb its hi i hm

/-- loading keeps the two name invariants -/
theorem load_names (tbl : CodeTable) {P : String → Prop} : ∀ (ys : List Pil.Stmt) (s s' : Pil.Spec),
    (∀ st ∈ ys, ∀ n ∈ stmtNames st, P n) → SpecNamesP P s → EqClosed s →
    Pil.load tbl ys s = .ok s' → SpecNamesP P s' ∧ EqClosed s' := by
  intro ys
  induction ys with
  | nil =>
    intro s s' _ h1 h2 h
    simp only [Pil.load, Except.ok.injEq] at h
    subst h; exact ⟨h1, h2⟩
  | cons st r ih =>
    intro s s' hn h1 h2 h
    simp only [Pil.load] at h
    cases ha : s.add tbl st with
    | error e => rw [ha] at h; cases h
    | ok s1 =>
      rw [ha] at h
      obtain ⟨δ, rfl, hδ, hδe⟩ := add_delta tbl ha
      refine ih _ s' (fun x hx => hn x (by simp [hx])) (h1.append (hδ.mono (fun n hm => hn st (by simp) n hm))) ?_ h
      apply h2.append
      intro its hi i hm
      rw [findSeq_append_left δ (hδe its hi i hm)]
      exact hδe its hi i hm

/-- the regions of one `equal` constraint, read in `s` -/
def eqRegions (s : Pil.Spec) (its : List Pil.ItemRef) : List (List Nuc) :=
  its.filterMap (fun i => (s.findSeq i.name).map (fun o => Pil.nucsOfBases (Pil.basesOfView o i.rev)))

theorem eqRegions_congr {s1 s2 : Pil.Spec} {its : List Pil.ItemRef}
    (h : ∀ i ∈ its, s1.findSeq i.name = s2.findSeq i.name) : eqRegions s1 its = eqRegions s2 its := by
  unfold eqRegions
  induction its with
  | nil => rfl
  | cons i r ih =>
    simp only [List.filterMap_cons, h i (by simp)]
    rw [ih (fun j hj => h j (by simp [hj]))]

/-- ADDITIVITY of `Pil.denote`: everything but the `equal` constraints of the second part is read part by part -/
theorem denote_append (a b : Pil.Spec) (ha : EqClosed a) :
    Pil.denote (specAppend a b) =
      { domains := (Pil.denote a).domains ++ (Pil.denote b).domains
        seqs := (Pil.denote a).seqs ++ (Pil.denote b).seqs
        strands := (Pil.denote a).strands ++ (Pil.denote b).strands
        structs := (Pil.denote a).structs ++ (Pil.denote b).structs
        kinetics := []
        equals := (Pil.denote a).equals ++ b.equals.map (eqRegions (specAppend a b)) } := by
  simp only [Pil.denote, specAppend, Pil.Spec.baseSeqs, List.filter_append, List.map_append, Design.mk.injEq, true_and]
  congr 1
  apply List.map_congr_left
  intro its hi
  exact eqRegions_congr (s1 := specAppend a b) (s2 := a) (fun i hm => findSeq_append_left b (ha its hi i hm))

/-- … and when the second part's constraints do not refer to the first part, those too -/
theorem denote_append_free (a b : Pil.Spec) (ha : EqClosed a)
    (hb : ∀ its ∈ b.equals, ∀ i ∈ its, a.findSeq i.name = none) :
    DesignEquiv (Pil.denote (specAppend a b)) (Denote.Design.append (Pil.denote a) (Pil.denote b)) := by
  rw [denote_append a b ha]
  refine ⟨rfl, rfl, rfl, rfl, ?_⟩
  simp only [Denote.Design.append]
  congr 1
  simp only [Pil.denote]
  apply List.map_congr_left
  intro its hi
  exact eqRegions_congr (fun i hm => findSeq_append_right b (hb its hi i hm))

/-! ## 2. one component instance -/

/-- the specification the statements of a component load to -/
def compSpec (s : Comp.St) : Pil.Spec :=
  { seqs := (s.baseSeqs.filter (·.len != 0) ++ s.supSeqs.filter (·.len != 0)).map (pilObj s.pfx),
    strands := s.strands.map (pilStrand s.pfx),
    structs := s.structs.map (pilStruct s.pfx s.strands) }

theorem nodup_emitted {s : Comp.St} {a : Nat} (hw : WF s a) :
    ((s.baseSeqs.filter (·.len != 0) ++ s.supSeqs.filter (·.len != 0)).map (·.name)).Nodup := by
  have hB := mem_baseF s
  have hS := mem_supF s
  rw [List.map_append, List.nodup_append]
  refine ⟨nodup_names_filter (nodup_names_filter hw.seqs.nodup _) _,
    nodup_names_filter (nodup_names_filter hw.seqs.nodup _) _, ?_⟩
  intro n1 h1 n2 h2 hn
  obtain ⟨e1, he1, rfl⟩ := List.mem_map.mp h1
  obtain ⟨e2, he2, rfl⟩ := List.mem_map.mp h2
  have h1' := (hB e1).mp he1
  have h2' := (hS e2).mp he2
  have := nodup_name_eq hw.seqs.nodup h1'.1 h2'.1 hn
  subst this
  rw [h1'.2.1] at h2'
  simp at h2'

/-- (replay of the first half of `emit_sound`, keeping the specification explicit) -/
theorem comp_spec (tbl : CodeTable) {s : Comp.St} {a : Nat} (hw : WF s a)
    (hcodes : ∀ e ∈ s.seqs, e.const.all tbl.isCode = true) :
    Pil.load tbl (Emit.compStmts s) {} = .ok (compSpec s) := by
  have hB := mem_baseF s
  have hS := mem_supF s
  have hndB : ((s.baseSeqs.filter (·.len != 0)).map (·.name)).Nodup :=
    nodup_names_filter (nodup_names_filter hw.seqs.nodup _) _
  have hnd := nodup_emitted hw
  have hSp : (s.supSeqs.filter (·.len != 0)).Pairwise NoFwd :=
    List.Pairwise.sublist (List.Sublist.trans List.filter_sublist List.filter_sublist) hw.seqs.order
  have h1 := load_bases tbl s.pfx (s.baseSeqs.filter (·.len != 0)) [] {} rfl (by simpa using hndB) (by
    intro e he
    obtain ⟨hel, hb, hz⟩ := (hB e).mp he
    obtain ⟨b1, b2, b3⟩ := (hw.seqs.entries e hel).base hb
    exact ⟨hb, b3, b1, b2, hz, hcodes e hel⟩)
  simp only [List.nil_append] at h1
  have h2 := load_sups tbl s.pfx s.seqs hw.seqs.entries (s.supSeqs.filter (·.len != 0))
    (s.baseSeqs.filter (·.len != 0)) { seqs := (s.baseSeqs.filter (·.len != 0)).map (pilObj s.pfx) } rfl hnd
    (fun e he => ⟨((hS e).mp he).1, ((hS e).mp he).2.1⟩)
    (by simpa using supsOk_of_wf hw.seqs _ _ hB hS hSp hnd _ [] (by simp))
  simp only [] at h2
  have havail : ∀ i, ItemOk s.seqs i → i.len ≠ 0 →
      findE (s.baseSeqs.filter (·.len != 0) ++ s.supSeqs.filter (·.len != 0)) i.name = findE s.seqs i.name := by
    intro i hi hz
    obtain ⟨ie, g1, g2⟩ := hi
    obtain ⟨hiel, hien⟩ := findE_some g1
    rw [g1, ← hien]
    apply findE_of_mem hnd
    cases hsup : ie.isSup with
    | false => exact List.mem_append_left _ ((hB ie).mpr ⟨hiel, hsup, by rw [← g2]; exact hz⟩)
    | true => exact List.mem_append_right _ ((hS ie).mpr ⟨hiel, hsup, by rw [← g2]; exact hz⟩)
  have h3 := load_strands tbl s.pfx s.seqs (s.baseSeqs.filter (·.len != 0) ++ s.supSeqs.filter (·.len != 0))
    hw.seqs.entries s.strands []
    { seqs := (s.baseSeqs.filter (·.len != 0) ++ s.supSeqs.filter (·.len != 0)).map (pilObj s.pfx) } rfl rfl
    (by simpa using hw.strandNames)
    (fun t ht => ⟨hw.strands t ht, fun i hi hz => havail i ((hw.strands t ht).items i hi) hz⟩)
  simp only [List.nil_append] at h3
  have h4 := load_structs tbl s.pfx s.strands s.structs []
    { seqs := (s.baseSeqs.filter (·.len != 0) ++ s.supSeqs.filter (·.len != 0)).map (pilObj s.pfx),
      strands := s.strands.map (pilStrand s.pfx) } rfl rfl (by simpa using hw.structNames) hw.structs
  simp only [List.nil_append] at h4
  unfold Emit.compStmts compSpec
  simp only []
  rw [load_append tbl _ _ _ _ (by rw [load_append tbl _ _ _ _ (by rw [load_append tbl _ _ _ _ h1]; exact h2)]; exact h3)]
  exact h4

/-- a sequence of non-zero length is found in the loaded specification, as its PIL object -/
theorem compSpec_find {s : Comp.St} {a : Nat} (hw : WF s a) {e : SeqE} (he : e ∈ s.seqs) (hz : e.len ≠ 0) :
    (compSpec s).findSeq (s.pfx ++ e.name) = some (pilObj s.pfx e) := by
  rw [findSeq_pil s.pfx _ (compSpec s) rfl]
  have : e ∈ s.baseSeqs.filter (·.len != 0) ++ s.supSeqs.filter (·.len != 0) := by
    cases hsup : e.isSup with
    | false => exact List.mem_append_left _ ((mem_baseF s e).mpr ⟨he, hsup, hz⟩)
    | true => exact List.mem_append_right _ ((mem_supF s e).mpr ⟨he, hsup, hz⟩)
  rw [findE_of_mem (nodup_emitted hw) this]; rfl

/-- an emitted item name without its star is the full name of the object -/
theorem stripStar_fullName (p n : String) (rev : Bool) (h : endsOk n = true) : stripStar (fullName p n rev) = p ++ n := by
  unfold stripStar
  cases rev with
  | true =>
    have : (fullName p n true).toList.reverse = '*' :: (p ++ n).toList.reverse := by
      simp only [fullName, if_true, String.toList_append, List.reverse_append]
      rfl
    rw [this]
    simp only [List.reverse_reverse, String.ofList_toList]
  | false =>
    have hfn : fullName p n false = p ++ n := by simp [fullName]
    rw [hfn]
    unfold endsOk at h
    have : ∃ c r, (p ++ n).toList.reverse = c :: r ∧ c ≠ '*' := by
      rw [String.toList_append, List.reverse_append]
      cases hr : n.toList.reverse with
      | nil => simp [hr] at h
      | cons c r => exact ⟨c, _, rfl, by simpa [hr] using h⟩
    obtain ⟨c, r, hcr, hc⟩ := this
    rw [hcr, stripStar.match_1.eq_2]
    intro r' heq
    simp only [List.cons.injEq] at heq
    exact hc heq.1

theorem stripStar_append (p n : String) (h : endsOk n = true) : stripStar (p ++ n) = p ++ n := by
  have := stripStar_fullName p n false h
  simpa [fullName] using this

theorem cnucs_eq_basesNucs (p : String) (bs : List Comp.BaseRef) : cnucs p bs = basesNucs p bs := rfl

/-- every name in the statements of a component state satisfying the invariant carries the component's prefix -/
theorem compStmts_names {s : Comp.St} {a : Nat} (hw : WF s a) :
    ∀ st ∈ Emit.compStmts s, ∀ n ∈ stmtNames st, HasPfx s.pfx n := by
  have hitems : ∀ (its : List ItemRef), (∀ i ∈ its, ItemOk s.seqs i) →
      ∀ n ∈ ((its.filter (!·.dummy)).map (Emit.itemRaw s.pfx)).map stripStar, HasPfx s.pfx n := by
    intro its hok n hn
    simp only [List.map_map, List.mem_map, List.mem_filter, Function.comp] at hn
    obtain ⟨i, ⟨hi, _⟩, rfl⟩ := hn
    obtain ⟨ie, h1, _⟩ := hok i hi
    have hne := (hw.seqs.entries ie (findE_some h1).1).nameOk
    rw [(findE_some h1).2] at hne
    rw [Emit.itemRaw, stripStar_fullName _ _ _ hne]
    exact HasPfx.append _ _
  intro st hst n hn
  simp only [Emit.compStmts, List.mem_append, List.mem_map] at hst
  rcases hst with ((⟨e, he, rfl⟩ | ⟨e, he, rfl⟩) | ⟨t, ht, rfl⟩) | ⟨e, he, rfl⟩
  · simp only [stmtNames, List.mem_singleton] at hn
    subst hn; exact HasPfx.append _ _
  · simp only [stmtNames, List.mem_cons] at hn
    rcases hn with rfl | hn
    · exact HasPfx.append _ _
    · have hes := (mem_supF s e).mp he
      exact hitems e.items ((hw.seqs.entries e hes.1).sup hes.2.1).1 n hn
  · simp only [stmtNames, List.mem_cons] at hn
    rcases hn with rfl | hn
    · exact HasPfx.append _ _
    · exact hitems t.items (hw.strands t ht).items n hn
  · simp only [stmtNames, List.mem_cons, List.mem_map] at hn
    rcases hn with rfl | ⟨x, _, rfl⟩
    · exact HasPfx.append _ _
    · exact HasPfx.append _ _

/-- the local name of a port of an instance -/
def portLocal : Sys.Port → String
  | .seq i _ => i.name
  | .sig n => n

/-- what the statements of an instance loaded under prefix `q` provide for one of its ports: the local name reads back
    correctly as an item; a dummy port has length 0; a port that is not a dummy is a defined sequence `q ++ name` of the
    port's length whose nucleotides are the port's -/
def PortOK (spec : Pil.Spec) (q : String) (p : Sys.Port × Bool × Nat × Bool) : Prop :=
  endsOk (portLocal p.1) = true ∧ (p.2.2.2 = true → p.2.2.1 = 0) ∧
  (p.2.2.2 = false → ∃ o, spec.findSeq (q ++ portLocal p.1) = some o ∧ o.len = p.2.2.1 ∧
      Pil.nucsOfBases o.bases = portNucs q p)

/-- the emitted statements of an instance loaded under prefix `q`, against the design `d` the source denotes -/
structure InstPil (tbl : CodeTable) (q : String) (inst : Inst) (d : Design) : Prop where
  names : ∀ st ∈ Emit.instStmts inst, ∀ n ∈ stmtNames st, HasPfx q n
  bal : ∀ n p ss x, Pil.Stmt.struct n p ss x ∈ Emit.instStmts inst → Notation.balanced x = true
  load : ∃ spec, Pil.load tbl (Emit.instStmts inst) {} = .ok spec ∧ DesignEquiv (Pil.denote spec) d ∧
    ∀ p ∈ instPorts inst, PortOK spec q p

theorem instStmts_comp (st : Comp.St) : Emit.instStmts (.comp st) = Emit.compStmts st := by
  rw [Emit.instStmts]

/-- the item `add_IO` records for a declared port -/
def itemOf (s : Comp.St) (p : Comp.Port) : ItemRef :=
  match s.findSeq p.seq with
  | some e => ⟨e.name, p.star, e.len, e.isSup⟩
  | none => ⟨p.seq, p.star, 0, false⟩

theorem portOf_item {s : Comp.St} {p : Comp.Port} {r : ItemRef × Option String} (h : portOf s p = .ok r) :
    r.1 = itemOf s p := by
  obtain ⟨h1, h2, e, he, h3, h4⟩ := portOf_spec h
  have hn : e.name = p.seq := by
    have := List.find?_some he; simpa using this
  unfold itemOf
  rw [he]
  obtain ⟨⟨n, rv, l, su⟩, x⟩ := r
  simp only at h1 h2 h3 h4 ⊢
  rw [h1, h2, h3, h4, hn]

theorem mapM_portOf_items {s : Comp.St} : ∀ {ps : List Comp.Port} {rs : List (ItemRef × Option String)},
    ps.mapM (portOf s) = .ok rs → rs.map (·.1) = ps.map (itemOf s) := by
  intro ps rs h
  have hm := mapM_ok_inv h
  clear h
  induction ps generalizing rs with
  | nil => cases rs <;> simp_all
  | cons p r ih =>
    cases rs with
    | nil => simp at hm
    | cons x xs =>
      simp only [List.map_cons, List.cons.injEq] at hm ⊢
      exact ⟨portOf_item hm.1, ih hm.2⟩

theorem addIO_items {s st : Comp.St} {ins outs : List Comp.Port} (h : Comp.addIO s ins outs = .ok st) :
    st.inputSeqs ++ st.outputSeqs = (ins ++ outs).map (itemOf s) := by
  rw [addIO_eq] at h
  cases hi : ins.mapM (portOf s) with
  | error e => rw [hi] at h; cases h
  | ok is =>
    rw [hi] at h
    cases ho : outs.mapM (portOf s) with
    | error e => rw [ho] at h; cases h
    | ok os =>
      rw [ho] at h
      simp only [bind, Except.bind, pure, Except.pure, Except.ok.injEq] at h
      subst h
      simp only [List.map_append, mapM_portOf_items hi, mapM_portOf_items ho]

theorem addStmts_codes {tbl : CodeTable} : ∀ (stmts : List Stmt) (s0 : Comp.St) (a0 : Nat) (s1 : Comp.St) (a1 : Nat),
    WF s0 a0 → CodesInv tbl s0 → (∀ x ∈ stmts, stmtNamesOk x = true) → (∀ x ∈ stmts, stmtCodesOk tbl x = true) →
    addStmts s0 a0 stmts = .ok (s1, a1) → CodesInv tbl s1 := by
  intro stmts
  induction stmts with
  | nil =>
    intro s0 a0 s1 a1 _ hc _ _ h
    simp only [addStmts, Except.ok.injEq, Prod.mk.injEq] at h
    rw [← h.1]; exact hc
  | cons x r ih =>
    intro s0 a0 s1 a1 hw0 hc hn hco h
    simp only [addStmts] at h
    cases h1 : addStmt s0 a0 x with
    | error e => simp [h1] at h
    | ok v =>
      obtain ⟨s2, a2⟩ := v
      simp only [h1] at h
      exact ih s2 a2 s1 a1 (addStmt_WF hw0 (hn x (by simp)) h1).1
        (addStmt_codes hw0 hc (hn x (by simp)) (hco x (by simp)) h1)
        (fun y hy => hn y (by simp [hy])) (fun y hy => hco y (by simp [hy])) h

/-- **one component**: the specification side accepts it with the same counter and the same ports, and its emitted
    statements load to a specification denoting the same design, in which every non-dummy port is a defined
    sequence with the port's nucleotides -/
theorem comp_inst (tbl : CodeTable) {c : Comp.Src} {args : Nat} {pfx : String} {anon : Nat} {st : Comp.St} {a1 : Nat}
    (hload : Comp.load c args pfx anon = .ok (st, a1)) (hnames : UserNamesOk c = true) :
    ∃ o ports, Denote.denoteComp c pfx anon = .ok (o, ports, a1) ∧ PortsAgree pfx (compPorts st) ports ∧
      (CodesOk tbl c = true → InstPil tbl pfx (.comp st) (o.design [])) := by
  obtain ⟨s, hadd, hio⟩ := load_inv hload
  have hn := hnames
  simp only [UserNamesOk, Bool.and_eq_true, List.all_eq_true] at hn
  obtain ⟨env, o, hden, hw, hA, hpfx⟩ :=
    addStmts_agree (p := pfx) (WF_init c.name pfx c.params anon) (Agree_init c.name pfx c.params anon) hn.1 hadd
  simp only at hpfx
  obtain ⟨⟨hsp, hss, hst, hsu, hsk⟩, hports⟩ := addIO_inv hio
  have hwst : WF st a1 := load_WF hload hnames
  have hstp : st.pfx = pfx := hsp.trans hpfx
  -- what every declared port is bound to, on both sides
  have hport : ∀ p ∈ c.inputs ++ c.outputs, ∃ e b, s.findSeq p.seq = some e ∧ e ∈ s.seqs ∧ e.name = p.seq ∧
      env.seqs.lookup p.seq = some b ∧ cnucs pfx e.bases = b.nucs ∧
      (∀ sn, p.struct = some sn → o.structs.any (·.name == pfx ++ sn) = true) := by
    intro p hp
    obtain ⟨⟨e, he⟩, hstr⟩ := hports p hp
    have hok := hn.2 p hp
    cases hlk : env.seqs.lookup p.seq with
    | none => rw [findSeq_eq, hA.seqsNone p.seq hok hlk] at he; simp at he
    | some b =>
      obtain ⟨e', he', hc', _⟩ := hA.seqs p.seq b hlk
      rw [findSeq_eq, he'] at he
      simp only [Option.some.injEq] at he
      subst he
      refine ⟨e', b, by rw [findSeq_eq]; exact he', (findE_some he').1, (findE_some he').2, rfl, hc', ?_⟩
      intro sn hsn
      rw [hA.structs, any_struct_name pfx s.structs sn _ (fun _ => rfl)]
      exact hstr sn hsn
  have hpm : (c.inputs ++ c.outputs).mapM (fun (p : Comp.Port) =>
      match env.seqs.lookup p.seq with
      | none => (throw Denote.Err.undefined : Except Denote.Err (List Nuc × Bool))
      | some b =>
        match p.struct with
        | some sn => if o.structs.any (·.name == pfx ++ sn) then pure (b.nucs, p.star) else throw Denote.Err.undefined
        | none => pure (b.nucs, p.star)) =
      .ok ((c.inputs ++ c.outputs).map (fun p => (((env.seqs.lookup p.seq).map (·.nucs)).getD [], p.star))) := by
    apply mapM_ok_of_forall
    intro p hp
    obtain ⟨e, b, _, _, _, hlk, _, hstr⟩ := hport p hp
    rw [hlk]
    cases hps : p.struct with
    | none => rfl
    | some sn =>
      simp only [hstr sn hps, if_true]
      rfl
  refine ⟨o, (c.inputs ++ c.outputs).map (fun p => (((env.seqs.lookup p.seq).map (·.nucs)).getD [], p.star)), ?_, ?_, ?_⟩
  · unfold Denote.denoteComp
    simp only [hden, bind, Except.bind]
    generalize hm : List.mapM (m := Except Denote.Err) (β := List Nuc × Bool) _ (c.inputs ++ c.outputs) = m
    have hm' : m = .ok ((c.inputs ++ c.outputs).map (fun p => (((env.seqs.lookup p.seq).map (·.nucs)).getD [], p.star))) := by
      rw [← hm]; exact hpm
    subst hm'
    simp only [pure, Except.pure, hA.anon]
  · unfold compPorts
    rw [addIO_items hio]
    refine ⟨by simp, ?_⟩
    intro x hx
    rw [List.map_map] at hx
    obtain ⟨p, hp, rfl⟩ := mem_zip_map_map _ _ _ hx
    obtain ⟨e, b, hfe, hel, hen, hlk, hcn, _⟩ := hport p hp
    have hfst : st.findSeq (itemOf s p).name = some e := by
      simp only [itemOf, hfe, findSeq_eq, hss]
      rw [← findSeq_eq, hen]; exact hfe
    have hlen : (cnucs pfx e.bases).length = e.len := by
      rw [cnucs_length]; exact ((hw.seqs.entries e hel).lenB).symm
    simp only [Function.comp, hlk, Option.map_some, Option.getD_some, portNucs, hfst, ← hcn, hlen]
    refine ⟨rfl, ?_, ?_, ?_⟩
    · simp [itemOf, hfe]
    · simp [itemOf, hfe]
    · simp only [itemOf, hfe]
      cases hz : e.len with
      | zero =>
        have : cnucs pfx e.bases = [] := List.eq_nil_of_length_eq_zero (by rw [hlen, hz])
        simp [this]
      | succ k =>
        have : cnucs pfx e.bases ≠ [] := by
          intro h0; rw [h0] at hlen; simp [hz] at hlen
        cases hcc : cnucs pfx e.bases with
        | nil => exact absurd hcc this
        | cons _ _ => simp
  · intro hcodes
    simp only [CodesOk, List.all_eq_true] at hcodes
    have hci : CodesInv tbl s :=
      addStmts_codes c.stmts _ anon s a1 (WF_init c.name pfx c.params anon) (by intro e he; simp at he) hn.1 hcodes hadd
    have hcst : ∀ e ∈ st.seqs, e.const.all tbl.isCode = true := by rw [hss]; exact hci
    have hl := comp_spec tbl hwst hcst
    obtain ⟨spec', hl', hd'⟩ := emit_sound tbl hwst hcst
    rw [hl] at hl'
    simp only [Except.ok.injEq] at hl'
    subst hl'
    have hdes : designOf st = designOf s := by
      simp only [designOf, St.baseSeqs, St.supSeqs, hsp, hss, hst, hsu]
    refine ⟨?_, ?_, compSpec st, ?_, ?_, ?_⟩
    · rw [instStmts_comp, ← hstp]; exact compStmts_names hwst
    · intro n p ss x hx
      rw [instStmts_comp] at hx
      obtain ⟨e, he, rfl⟩ := compStmts_struct hx
      exact (hwst.structs e he).bal
    · rw [instStmts_comp]; exact hl
    · rw [hd', hdes]
      simp only [designOf, Denote.Out.design, DesignEquiv, hpfx, hA.domains, hA.baseSeqs, hA.supSeqs, hA.ostrands, hA.structs,
        List.map_append, and_self]
    · intro q hq
      simp only [instPorts, compPorts] at hq
      rw [addIO_items hio] at hq
      obtain ⟨i, hi, rfl⟩ := List.mem_map.1 hq
      obtain ⟨p, hp, rfl⟩ := List.mem_map.1 hi
      obtain ⟨e, b, hfe, hel, hen, hlk, hcn, _⟩ := hport p hp
      have hfst : st.findSeq (itemOf s p).name = some e := by
        simp only [itemOf, hfe, findSeq_eq, hss]
        rw [← findSeq_eq, hen]; exact hfe
      have hname : (itemOf s p).name = e.name := by simp [itemOf, hfe]
      have hilen : (itemOf s p).len = e.len := by simp [itemOf, hfe]
      refine ⟨?_, ?_, ?_⟩
      · simp only [portLocal, hname]
        exact (hw.seqs.entries e hel).nameOk
      · simp only [hilen]
        intro hz; simpa using hz
      · simp only [hilen, portLocal, hname, portNucs, hfst]
        intro hz
        have hz' : e.len ≠ 0 := by simpa using hz
        refine ⟨pilObj st.pfx e, ?_, rfl, ?_⟩
        · rw [← hstp]; exact compSpec_find hwst (by rw [hss]; exact hel) hz'
        · have hfst' : st.findSeq e.name = some e := by rw [← hname]; exact hfst
          simp only [pilObj, nucsOfBases_filter_tb, hstp, hfst']; rfl

/-- the component-level fact the wiring theorems rest on, discharged: for sources whose sequence names are not of the
    compiler's reserved form -/
theorem compAccept : CompAcceptOn (fun c => UserNamesOk c = true) := by
  intro c args pfx anon st a hg hl
  obtain ⟨o, ports, h1, h2, _⟩ := comp_inst ⟨[], [], []⟩ hl hg
  exact ⟨o, ports, h1, h2⟩

/-! ## 3. the binding loop keeps every signal entry resolvable -/

/-- the name under which the port an entry refers to is emitted -/
def entryName (pfx : String) (e : SigEntry) : String := pfx ++ e.comp ++ "-" ++ portLocal e.port

/-- the entry's port is a defined sequence of the signal's length with the entry's nucleotides -/
def EntryOK (spec : Pil.Spec) (pfx : String) (len : Nat) (e : SigEntry) : Prop :=
  endsOk (portLocal e.port) = true ∧ ∃ o, spec.findSeq (entryName pfx e) = some o ∧ o.len = len ∧
    Pil.nucsOfBases o.bases = entryNucs pfx len e

def EntriesOK (spec : Pil.Spec) (pfx : String) (sigs : List (String × List SigEntry)) (lens : List (String × Nat)) : Prop :=
  ∀ x ∈ sigs, ∀ e ∈ x.2, EntryOK spec pfx ((lens.lookup x.1).getD 0) e

theorem lookup_none_not_mem {β} {l : List (String × β)} {k : String} (h : l.lookup k = none) : k ∉ l.map (·.1) := by
  intro hm
  have := contains_keys l k
  rw [h] at this
  simp only [Option.isSome_none, List.contains_eq_mem, decide_eq_false_iff_not] at this
  exact this hm

theorem entryOK_of_port {spec : Pil.Spec} {pfx cname : String} {ip : Sys.Port × Bool × Nat × Bool}
    (hp : PortOK spec (pfx ++ cname ++ "-") ip) (hd : ip.2.2.2 = false) (wc : Bool) :
    EntryOK spec pfx ip.2.2.1 ⟨ip.1, cname, wc⟩ := by
  obtain ⟨h1, _, h3⟩ := hp
  obtain ⟨o, ho, hl, hn⟩ := h3 hd
  refine ⟨h1, o, ho, hl, ?_⟩
  rw [hn]
  obtain ⟨port, x⟩ := ip
  cases port <;> rfl

theorem bind_step_entries {spec : Pil.Spec} {pfx cname : String} {sigs sigs' : List (String × List SigEntry)}
    {lens lens' : List (String × Nat)} {sa : Denote.SigAcc} {g : SigRef} {ip : Sys.Port × Bool × Nat × Bool}
    (ht : TablesAgree pfx sigs lens sa) (hnd : (lens.map (·.1)).Nodup) (he : EntriesOK spec pfx sigs lens)
    (hp : PortOK spec (pfx ++ cname ++ "-") ip)
    (h : bindStep cname (sigs, lens) (g, ip) = .ok (sigs', lens')) :
    EntriesOK spec pfx sigs' lens' ∧ (lens'.map (·.1)).Nodup := by
  unfold bindStep at h
  simp only at h
  cases hl : lens.lookup g.name with
  | none =>
    rw [hl] at h
    simp only at h
    split at h
    · cases h
    · rename_i hd
      simp only [Except.ok.injEq, Prod.mk.injEq] at h
      obtain ⟨rfl, rfl⟩ := h
      have hd' : ip.2.2.2 = false := by simpa using hd
      have hsl : sigs.lookup g.name = none := by
        have := lookup_isSome_of_keys ht.keys g.name
        rw [hl] at this
        cases hs : sigs.lookup g.name with
        | none => rfl
        | some v => rw [hs] at this; cases this
      have hadd : addSig sigs g.name ⟨ip.1, cname, g.star != ip.2.1⟩ = sigs ++ [(g.name, [⟨ip.1, cname, g.star != ip.2.1⟩])] := by
        unfold addSig; simp [hsl]
      refine ⟨?_, ?_⟩
      · rw [hadd]
        intro x hx e hxe
        simp only [List.mem_append, List.mem_singleton] at hx
        rcases hx with hx | rfl
        · have : (lens.lookup x.1).isSome = true := by
            rw [← lookup_isSome_of_keys ht.keys]; exact mem_keys_lookup hx
          rw [lookup_append_new lens g.name x.1 ip.2.2.1 this]
          exact he x hx e hxe
        · simp only [List.mem_singleton] at hxe
          subst hxe
          rw [lookup_append_self lens g.name ip.2.2.1 hl]
          exact entryOK_of_port hp hd' _
      · rw [List.map_append, List.nodup_append]
        refine ⟨hnd, by simp, ?_⟩
        intro a ha b hb
        simp only [List.map_cons, List.map_nil, List.mem_singleton] at hb
        subst hb
        intro hab
        exact lookup_none_not_mem hl (hab ▸ ha)
  | some l0 =>
    rw [hl] at h
    simp only at h
    split at h
    · cases h
    · rename_i hd
      simp only [Except.ok.injEq, Prod.mk.injEq] at h
      obtain ⟨rfl, rfl⟩ := h
      have hl0 : l0 = ip.2.2.1 := by simpa using hd
      have hpos : 0 < l0 := ht.pos (g.name, l0) (lookup_mem hl)
      have hd' : ip.2.2.2 = false := by
        cases hdd : ip.2.2.2 with
        | false => rfl
        | true => have := hp.2.1 hdd; omega
      have hsl : (sigs.lookup g.name).isSome = true := by
        rw [lookup_isSome_of_keys ht.keys, hl]; rfl
      have hadd : addSig sigs g.name ⟨ip.1, cname, g.star != ip.2.1⟩
          = sigs.map (fun (k, v) => if k == g.name then (k, v ++ [⟨ip.1, cname, g.star != ip.2.1⟩]) else (k, v)) := by
        unfold addSig; simp [hsl]
      refine ⟨?_, hnd⟩
      rw [hadd]
      intro x hx e hxe
      obtain ⟨⟨k, v⟩, hkv, rfl⟩ := List.mem_map.1 hx
      simp only at hxe ⊢
      by_cases hk : k == g.name
      · simp only [hk, if_true, List.mem_append, List.mem_singleton] at hxe ⊢
        rcases hxe with hxe | rfl
        · exact he (k, v) hkv e hxe
        · have hkg : k = g.name := eq_of_beq hk
          rw [hkg, hl, Option.getD_some, hl0]
          exact entryOK_of_port hp hd' _
      · simp only [hk, Bool.false_eq_true, if_false] at hxe ⊢
        exact he (k, v) hkv e hxe

/-- the whole binding loop of one instance: the specification side follows (`bind_agree`) and all entries stay
    resolvable -/
theorem bind_full {spec : Pil.Spec} {pfx cname : String} : ∀ (globs : List SigRef) (ips : List (Sys.Port × Bool × Nat × Bool))
    (dps : List (List Nuc × Bool)) (sigs sigs' : List (String × List SigEntry)) (lens lens' : List (String × Nat))
    (sa : Denote.SigAcc), TablesAgree pfx sigs lens sa → PortsAgree (pfx ++ cname ++ "-") ips dps →
    (lens.map (·.1)).Nodup → EntriesOK spec pfx sigs lens → (∀ ip ∈ ips, PortOK spec (pfx ++ cname ++ "-") ip) →
    (List.zip globs ips).foldlM (bindStep cname) (sigs, lens) = .ok (sigs', lens') →
    ∃ sa', (List.zip globs dps).foldlM bpStep sa = .ok sa' ∧ TablesAgree pfx sigs' lens' sa' ∧
      (lens'.map (·.1)).Nodup ∧ EntriesOK spec pfx sigs' lens' := by
  intro globs
  induction globs with
  | nil =>
    intro ips dps sigs sigs' lens lens' sa ht _ hnd he _ h
    simp only [List.zip_nil_left, List.foldlM_nil, pure, Except.pure, Except.ok.injEq, Prod.mk.injEq] at h
    obtain ⟨rfl, rfl⟩ := h
    exact ⟨sa, rfl, ht, hnd, he⟩
  | cons g gr ih =>
    intro ips dps sigs sigs' lens lens' sa ht hp hnd he hpo h
    obtain ⟨hlen, hall⟩ := hp
    cases ips with
    | nil =>
      cases dps with
      | nil =>
        simp only [List.zip_nil_right, List.foldlM_nil, pure, Except.pure, Except.ok.injEq, Prod.mk.injEq] at h
        obtain ⟨rfl, rfl⟩ := h
        exact ⟨sa, rfl, ht, hnd, he⟩
      | cons _ _ => simp at hlen
    | cons ip ir =>
      cases dps with
      | nil => simp at hlen
      | cons dp dr =>
        simp only [List.zip_cons_cons, List.foldlM_cons] at h ⊢
        cases h1 : bindStep cname (sigs, lens) (g, ip) with
        | error e => rw [h1] at h; cases h
        | ok acc1 =>
          obtain ⟨sigs1, lens1⟩ := acc1
          rw [h1] at h
          obtain ⟨sa1, hs1, ht1⟩ := bind_step_agree ht (hall (ip, dp) (by simp)) h1
          obtain ⟨he1, hnd1⟩ := bind_step_entries ht hnd he (hpo ip (by simp)) h1
          rw [hs1]
          exact ih ir dr sigs1 sigs' lens1 lens' sa1 ht1
            ⟨by simpa using hlen, fun x hx => hall x (by simp only [List.zip_cons_cons, List.mem_cons]; exact Or.inr hx)⟩
            hnd1 he1 (fun x hx => hpo x (by simp [hx])) h

/-! ## 4. the statements of the signals -/

def sigStmts (pfx : String) (lens : List (String × Nat)) (x : String × List SigEntry) : List Pil.Stmt :=
  [Pil.Stmt.seq (pfx ++ x.1) (List.replicate ((lens.lookup x.1).getD 0) 'N'),
   Pil.Stmt.equal ((pfx ++ x.1) :: x.2.map (fun e => fullName (pfx ++ e.comp ++ "-") (portLocal e.port) e.wc))]

theorem sysStmts_eq (st : SysSt) :
    Emit.sysStmts st = Emit.compsStmts st.components ++ st.signals.flatMap (sigStmts st.pfx st.lengths) := by
  obtain ⟨p, n, pf, t, sg, l, c, i, o⟩ := st
  rw [Emit.sysStmts]
  simp only [SysSt.components, SysSt.signals, SysSt.pfx, SysSt.lengths]
  congr 1
  congr 1
  funext x
  simp only [sigStmts, fullName]
  congr 5
  funext e
  cases e.port <;> rfl

theorem instStmts_sys (st : SysSt) : Emit.instStmts (.sys st) = Emit.sysStmts st := by
  rw [Emit.instStmts]

theorem compsStmts_append (a b : List (String × Inst)) : Emit.compsStmts (a ++ b) = Emit.compsStmts a ++ Emit.compsStmts b := by
  induction a with
  | nil => simp [Emit.compsStmts]
  | cons x r ih =>
    obtain ⟨n, i⟩ := x
    simp only [List.cons_append, Emit.compsStmts, ih, List.append_assoc]

theorem compsStmts_single (n : String) (i : Inst) : Emit.compsStmts [(n, i)] = Emit.instStmts i := by
  simp [Emit.compsStmts]

def sigObj (pfx : String) (lens : List (String × Nat)) (x : String × List SigEntry) : Pil.SeqObj :=
  ⟨pfx ++ x.1, false, (lens.lookup x.1).getD 0, List.replicate ((lens.lookup x.1).getD 0) 'N', [],
   [⟨pfx ++ x.1, false, (lens.lookup x.1).getD 0⟩]⟩

def sigEq (pfx : String) (x : String × List SigEntry) : List Pil.ItemRef :=
  ⟨pfx ++ x.1, false⟩ :: x.2.map (fun e => ⟨entryName pfx e, e.wc⟩)

/-- the specification the signal statements add -/
def sigSpec (pfx : String) (lens : List (String × Nat)) (L : List (String × List SigEntry)) : Pil.Spec :=
  ⟨L.map (sigObj pfx lens), [], [], L.map (sigEq pfx)⟩

theorem fullName_false (p n : String) : fullName p n false = p ++ n := by simp [fullName]

theorem sigSpec_find_none {pfx : String} {lens : List (String × Nat)} {L : List (String × List SigEntry)} {k : String}
    (h : k ∉ L.map (·.1)) : (sigSpec pfx lens L).findSeq (pfx ++ k) = none := by
  simp only [Pil.Spec.findSeq, sigSpec, List.find?_eq_none, List.mem_map, beq_iff_eq]
  rintro o ⟨x, hx, rfl⟩ he
  simp only [sigObj, String.append_right_inj] at he
  exact h (List.mem_map.2 ⟨x, hx, he⟩)

theorem sigSpec_find_last {pfx : String} {lens : List (String × Nat)} {L : List (String × List SigEntry)}
    {x : String × List SigEntry} (h : x.1 ∉ L.map (·.1)) (eqs : List (List Pil.ItemRef)) :
    (⟨(L ++ [x]).map (sigObj pfx lens), [], [], eqs⟩ : Pil.Spec).findSeq (pfx ++ x.1) = some (sigObj pfx lens x) := by
  have := sigSpec_find_none (pfx := pfx) (lens := lens) h
  simp only [Pil.Spec.findSeq, sigSpec] at this
  simp only [Pil.Spec.findSeq, List.map_append, List.find?_append, this, List.map_cons, List.map_nil, Option.none_or]
  simp [sigObj]

theorem resolve_members {spec : Pil.Spec} {pfx : String} (g : SigEntry → Pil.SeqObj) : ∀ (es : List SigEntry),
    (∀ e ∈ es, endsOk (portLocal e.port) = true ∧ spec.findSeq (entryName pfx e) = some (g e)) →
    Pil.resolveItems spec (es.map (fun e => fullName (pfx ++ e.comp ++ "-") (portLocal e.port) e.wc)) =
      .ok (es.map (fun e => (⟨entryName pfx e, e.wc⟩, g e))) := by
  intro es
  induction es with
  | nil => intro _; rfl
  | cons e r ih =>
    intro h
    obtain ⟨h1, h2⟩ := h e (by simp)
    have h2' : spec.findSeq (pfx ++ e.comp ++ "-" ++ portLocal e.port) = some (g e) := h2
    simp only [List.map_cons, Pil.resolveItems, resolveItem_fullName spec _ _ _ h1, h2',
      ih (fun x hx => h x (by simp [hx]))]
    rfl

theorem all_replicate_N {tbl : CodeTable} (hN : tbl.isCode 'N' = true) (n : Nat) :
    (List.replicate n 'N').all tbl.isCode = true := by
  rw [List.all_eq_true]
  intro c hc
  rw [(List.mem_replicate.1 hc).2]; exact hN

theorem load_sigs (tbl : CodeTable) (hN : tbl.isCode 'N' = true) {specC : Pil.Spec} {pfx : String}
    {lens : List (String × Nat)} : ∀ (L done : List (String × List SigEntry)),
    ((done ++ L).map (·.1)).Nodup →
    (∀ x ∈ L, endsOk x.1 = true ∧ specC.findSeq (pfx ++ x.1) = none) →
    (∀ x ∈ L, ∀ e ∈ x.2, EntryOK specC pfx ((lens.lookup x.1).getD 0) e) →
    Pil.load tbl (L.flatMap (sigStmts pfx lens)) (specAppend specC (sigSpec pfx lens done)) =
      .ok (specAppend specC (sigSpec pfx lens (done ++ L))) := by
  intro L
  induction L with
  | nil => intro done _ _ _; simp [Pil.load]
  | cons x r ih =>
    intro done hnd hk he
    obtain ⟨hxe, hxf⟩ := hk x (by simp)
    have hxnot : x.1 ∉ done.map (·.1) := by
      simp only [List.map_append, List.map_cons, List.nodup_append, List.mem_cons] at hnd
      intro hm
      exact hnd.2.2 _ hm _ (Or.inl rfl) rfl
    -- the `sequence` statement
    have hf0 : (specAppend specC (sigSpec pfx lens done)).findSeq (pfx ++ x.1) = none := by
      rw [findSeq_append_right _ hxf]; exact sigSpec_find_none hxnot
    let spec1 : Pil.Spec := specAppend specC ⟨(done ++ [x]).map (sigObj pfx lens), [], [], done.map (sigEq pfx)⟩
    have hadd1 : (specAppend specC (sigSpec pfx lens done)).add tbl
        (Pil.Stmt.seq (pfx ++ x.1) (List.replicate ((lens.lookup x.1).getD 0) 'N')) = .ok spec1 := by
      simp only [Pil.Spec.add, hf0, Option.isSome_none, Bool.false_eq_true, if_false, all_replicate_N hN, Bool.not_true,
        List.length_replicate]
      simp [spec1, specAppend, sigSpec, sigObj, List.append_assoc]
    -- the `equal` statement
    let g : SigEntry → Pil.SeqObj := fun e => (specC.findSeq (entryName pfx e)).getD (sigObj pfx lens x)
    have hg : ∀ e ∈ x.2, endsOk (portLocal e.port) = true ∧ spec1.findSeq (entryName pfx e) = some (g e) ∧
        (g e).len = (lens.lookup x.1).getD 0 := by
      intro e hm
      obtain ⟨h1, o, ho, hl, _⟩ := he x (by simp) e hm
      refine ⟨h1, ?_, by simp only [g, ho, Option.getD_some]; exact hl⟩
      rw [findSeq_append_left _ (by rw [ho]; rfl), ho]
      simp [g, ho]
    have hself : spec1.findSeq (pfx ++ x.1) = some (sigObj pfx lens x) := by
      rw [findSeq_append_right _ hxf]; exact sigSpec_find_last hxnot _
    have hres : Pil.resolveItems spec1 ((pfx ++ x.1) :: x.2.map (fun e => fullName (pfx ++ e.comp ++ "-") (portLocal e.port) e.wc)) =
        .ok ((⟨pfx ++ x.1, false⟩, sigObj pfx lens x) :: x.2.map (fun e => (⟨entryName pfx e, e.wc⟩, g e))) := by
      have hr1 : Pil.resolveItem spec1 (pfx ++ x.1) = .ok (⟨pfx ++ x.1, false⟩, sigObj pfx lens x) := by
        have := resolveItem_fullName spec1 pfx x.1 false hxe
        rw [fullName_false, hself] at this
        exact this
      simp only [Pil.resolveItems, hr1, resolve_members g x.2 (fun e hm => ⟨(hg e hm).1, (hg e hm).2.1⟩)]
      rfl
    have hadd2 : spec1.add tbl (Pil.Stmt.equal ((pfx ++ x.1) :: x.2.map (fun e => fullName (pfx ++ e.comp ++ "-") (portLocal e.port) e.wc))) =
        .ok (specAppend specC (sigSpec pfx lens (done ++ [x]))) := by
      have hall : ((⟨pfx ++ x.1, false⟩, sigObj pfx lens x) :: x.2.map (fun e => ((⟨entryName pfx e, e.wc⟩ : Pil.ItemRef), g e))).all
          (fun (y : Pil.ItemRef × Pil.SeqObj) => y.2.len == (sigObj pfx lens x).len) = true := by
        simp only [List.all_cons, beq_self_eq_true, Bool.true_and, List.all_map, List.all_eq_true, Function.comp, beq_iff_eq]
        intro e hm
        rw [(hg e hm).2.2]; rfl
      simp only [Pil.Spec.add, hres, bind, Except.bind, hall, Bool.not_true, Bool.false_eq_true, if_false, pure, Except.pure]
      simp [spec1, specAppend, sigSpec, sigEq, List.map_map, Function.comp_def]
    have := ih (done ++ [x]) (by simpa using hnd) (fun y hy => hk y (by simp [hy])) (fun y hy => he y (by simp [hy]))
    simp only [List.flatMap_cons, sigStmts, List.cons_append, List.nil_append, Pil.load, hadd1, hadd2]
    rw [List.append_assoc] at this
    exact this

/-! ## 5. what the signal part denotes -/

/-- the design of the signal part of a system, read off the compile path's tables -/
def sigDesignOf (pfx : String) (lens : List (String × Nat)) (sigs : List (String × List SigEntry)) : Design :=
  { domains := sigs.map (fun x => (pfx ++ x.1, List.replicate ((lens.lookup x.1).getD 0) 'N'))
    seqs := sigs.map (fun x => (pfx ++ x.1, fwd (pfx ++ x.1) ((lens.lookup x.1).getD 0)))
    strands := [], structs := [], kinetics := []
    equals := sigs.map (fun x => fwd (pfx ++ x.1) ((lens.lookup x.1).getD 0) ::
      x.2.map (entryRegion pfx ((lens.lookup x.1).getD 0))) }

theorem lookup_map_nodup {β γ} (f : String × β → γ) : ∀ (l : List (String × β)), (l.map (·.1)).Nodup →
    ∀ x ∈ l, (l.map (fun y => (y.1, f y))).lookup x.1 = some (f x) := by
  intro l
  induction l with
  | nil => intro _ x hx; cases hx
  | cons a r ih =>
    intro hnd x hx
    simp only [List.map_cons, List.nodup_cons] at hnd
    simp only [List.map_cons, List.lookup]
    rcases List.mem_cons.1 hx with rfl | hx
    · simp
    · have hne : x.1 ≠ a.1 := by
        intro he
        exact hnd.1 (he ▸ List.mem_map.2 ⟨x, hx, rfl⟩)
      have : (x.1 == a.1) = false := by simpa using hne
      simp only [this]
      exact ih hnd.2 x hx

/-- the specification's signal design, through `TablesAgree`, is the design of the compile path's tables -/
theorem sigDesign_eq {pfx : String} {sigs : List (String × List SigEntry)} {lens : List (String × Nat)}
    {sa : Denote.SigAcc} (ht : TablesAgree pfx sigs lens sa) (hnd : (lens.map (·.1)).Nodup) :
    ({ Design.empty with
        domains := sa.order.map (fun n => (pfx ++ n, List.replicate ((sa.len.lookup n).getD 0) 'N'))
        seqs := sa.order.map (fun n => (pfx ++ n, fwd (pfx ++ n) ((sa.len.lookup n).getD 0)))
        equals := sa.order.map (fun n => fwd (pfx ++ n) ((sa.len.lookup n).getD 0) :: (sa.members.lookup n).getD []) } : Design)
      = sigDesignOf pfx lens sigs := by
  have hord : sa.order = sigs.map (·.1) := by rw [ht.order, ht.keys]
  have hnd' : (sigs.map (·.1)).Nodup := by rw [ht.keys]; exact hnd
  simp only [sigDesignOf, Design.empty, hord, ht.len, List.map_map, Function.comp_def, Design.mk.injEq, true_and]
  apply List.map_congr_left
  intro x hx
  rw [ht.members, lookup_map_nodup (fun y => y.2.map (entryRegion pfx ((lens.lookup y.1).getD 0))) sigs hnd' x hx]
  rfl

theorem sigSpec_find {pfx : String} {lens : List (String × Nat)} : ∀ (L : List (String × List SigEntry)),
    (L.map (·.1)).Nodup → ∀ x ∈ L, (sigSpec pfx lens L).findSeq (pfx ++ x.1) = some (sigObj pfx lens x) := by
  intro L
  induction L with
  | nil => intro _ x hx; cases hx
  | cons a r ih =>
    intro hnd x hx
    simp only [List.map_cons, List.nodup_cons] at hnd
    simp only [Pil.Spec.findSeq, sigSpec, List.map_cons, List.find?_cons]
    rcases List.mem_cons.1 hx with rfl | hx
    · simp [sigObj]
    · have hne : a.1 ≠ x.1 := by
        intro he
        exact hnd.1 (he ▸ List.mem_map.2 ⟨x, hx, rfl⟩)
      have : ((sigObj pfx lens a).name == pfx ++ x.1) = false := by
        simp only [sigObj, beq_eq_false_iff_ne, ne_eq, String.append_right_inj]; exact hne
      simp only [this]
      exact ih hnd.2 x hx

theorem nucs_single (nm : String) (len : Nat) : Pil.nucsOfBases [⟨nm, false, len⟩] = fwd nm len := by
  simp [Pil.nucsOfBases, Pil.nucsOfBase]

/-- the loaded system specification — instances, then signals — denotes the instances' design followed by the
    signal design -/
theorem denote_sys {specC : Pil.Spec} {pfx : String} {sigs : List (String × List SigEntry)} {lens : List (String × Nat)}
    (hc : EqClosed specC) (hnd : (sigs.map (·.1)).Nodup) (hpos : ∀ x ∈ sigs, (lens.lookup x.1).getD 0 ≠ 0)
    (hfree : ∀ x ∈ sigs, specC.findSeq (pfx ++ x.1) = none) (he : EntriesOK specC pfx sigs lens) :
    DesignEquiv (Pil.denote (specAppend specC (sigSpec pfx lens sigs)))
      (Denote.Design.append (Pil.denote specC) (sigDesignOf pfx lens sigs)) := by
  rw [denote_append specC _ hc]
  have hdom : (Pil.denote (sigSpec pfx lens sigs)).domains = (sigDesignOf pfx lens sigs).domains := by
    simp only [Pil.denote, sigSpec, Pil.Spec.baseSeqs, sigDesignOf, List.filter_map, List.map_map]
    have h1 : sigs.filter ((fun o : Pil.SeqObj => !o.isSup) ∘ sigObj pfx lens) = sigs :=
      List.filter_eq_self.2 (fun x _ => by simp [sigObj])
    rw [h1]
    have h2 : sigs.filter ((fun o : Pil.SeqObj => o.len != 0) ∘ sigObj pfx lens) = sigs :=
      List.filter_eq_self.2 (fun x hx => by simpa [sigObj] using hpos x hx)
    rw [h2]
    rfl
  have hseq : (Pil.denote (sigSpec pfx lens sigs)).seqs = (sigDesignOf pfx lens sigs).seqs := by
    simp only [Pil.denote, sigSpec, sigDesignOf, List.filter_map, List.map_map]
    have h2 : sigs.filter ((fun o : Pil.SeqObj => o.len != 0) ∘ sigObj pfx lens) = sigs :=
      List.filter_eq_self.2 (fun x hx => by simpa [sigObj] using hpos x hx)
    rw [h2]
    apply List.map_congr_left
    intro x _
    simp only [Function.comp, sigObj, nucs_single]
  refine ⟨by rw [hdom]; rfl, by rw [hseq]; rfl, by simp [Pil.denote, sigSpec, sigDesignOf, Denote.Design.append],
    by simp [Pil.denote, sigSpec, sigDesignOf, Denote.Design.append], ?_⟩
  generalize hWd : specAppend specC (sigSpec pfx lens sigs) = W
  have hself : ∀ x ∈ sigs, W.findSeq (pfx ++ x.1) = some (sigObj pfx lens x) := by
    intro x hx
    rw [← hWd, findSeq_append_right _ (hfree x hx)]; exact sigSpec_find sigs hnd x hx
  have hmem : ∀ x ∈ sigs, ∀ e ∈ x.2, (W.findSeq (entryName pfx e)).map (fun o => Pil.nucsOfBases (Pil.basesOfView o e.wc)) =
      some (entryRegion pfx ((lens.lookup x.1).getD 0) e) := by
    intro x hx e hm
    obtain ⟨_, o, ho, _, hn⟩ := he x hx e hm
    rw [← hWd, findSeq_append_left _ (show (specC.findSeq (entryName pfx e)).isSome = true by rw [ho]; rfl), ho]
    simp only [Option.map_some, pil_star_region, hn, entryRegion]
  show (Pil.denote specC).equals ++ (sigs.map (sigEq pfx)).map (eqRegions W) =
    (Pil.denote specC).equals ++ sigs.map (fun x => fwd (pfx ++ x.1) ((lens.lookup x.1).getD 0) ::
      x.2.map (entryRegion pfx ((lens.lookup x.1).getD 0)))
  congr 1
  rw [List.map_map]
  apply List.map_congr_left
  intro x hx
  simp only [Function.comp, sigEq, eqRegions, List.filterMap_cons, hself x hx, Option.map_some]
  congr 1
  · simp only [sigObj, Pil.basesOfView, Bool.false_eq_true, if_false, nucs_single]
  · have := hmem x hx
    generalize x.2 = es at this
    induction es with
    | nil => rfl
    | cons e r ih =>
      simp only [List.map_cons, List.filterMap_cons, this e (by simp)]
      rw [ih (fun y hy => this y (by simp [hy]))]

/-! ## 6. the induction over the instance tree -/

/-- a signal name: non-empty, not ending in `*` (the PIL reader would split it off), without `-` (the separator of
    instance paths: a signal `c-a` of a system and the sequence `a` of its instance `c` would be one name) -/
def sigNameOk (n : String) : Bool := endsOk n && !n.toList.contains '-'

/-- the names a system statement introduces: the instance name has no `-`, the signals are `sigNameOk` -/
def sstmtOk : SStmt → Bool
  | .imports _ => true
  | .component cname _ _ ins outs => !cname.toList.contains '-' && (ins ++ outs).all (fun r => sigNameOk r.name)

def sysNamesOk (s : SSrc) : Bool := s.stmts.all sstmtOk

/-- hypotheses on a bundle: `N` is a code of the reader's table (signal sequences are written as `N…N`); every
    component source has `UserNamesOk` and `CodesOk`; every system source has `sysNamesOk` -/
def bundleOk (tbl : CodeTable) (b : Bundle) : Bool :=
  tbl.isCode 'N' && b.files.all (fun kf => match kf.2 with
    | .comp c => UserNamesOk c && CodesOk tbl c
    | .sys s => sysNamesOk s)

theorem bundleOk_comp {tbl : CodeTable} {b : Bundle} (h : bundleOk tbl b = true) {k : String} {c : Comp.Src}
    (hl : b.files.lookup k = some (.comp c)) : UserNamesOk c = true ∧ CodesOk tbl c = true := by
  simp only [bundleOk, Bool.and_eq_true, List.all_eq_true] at h
  have := h.2 _ (lookup_mem hl)
  simpa using this

theorem bundleOk_sys {tbl : CodeTable} {b : Bundle} (h : bundleOk tbl b = true) {k : String} {s : SSrc}
    (hl : b.files.lookup k = some (.sys s)) : sysNamesOk s = true := by
  simp only [bundleOk, Bool.and_eq_true, List.all_eq_true] at h
  have := h.2 _ (lookup_mem hl)
  simpa using this

theorem bundleOk_N {tbl : CodeTable} {b : Bundle} (h : bundleOk tbl b = true) : tbl.isCode 'N' = true := by
  simp only [bundleOk, Bool.and_eq_true] at h
  exact h.1

/-- the keys of the length table after the binding loop are the old ones and names of the bound signals -/
theorem bind_keys (cname : String) : ∀ (zs : List (SigRef × (Sys.Port × Bool × Nat × Bool)))
    (acc acc' : List (String × List SigEntry) × List (String × Nat)),
    zs.foldlM (bindStep cname) acc = .ok acc' → ∀ x ∈ acc'.2, x ∈ acc.2 ∨ ∃ z ∈ zs, x.1 = z.1.name := by
  intro zs
  induction zs with
  | nil => intro acc acc' h; simp only [List.foldlM_nil] at h; cases h; exact fun x hx => Or.inl hx
  | cons z r ih =>
    intro acc acc' h x hx
    rw [List.foldlM_cons] at h
    cases hz : bindStep cname acc z with
    | error e => rw [hz] at h; cases h
    | ok acc1 =>
      rw [hz] at h
      rcases ih acc1 acc' h x hx with h1 | ⟨z', hz', hn⟩
      · unfold bindStep at hz
        split at hz <;> split at hz <;> first | (cases hz; done) | skip
        · simp only [Except.ok.injEq] at hz
          subst hz
          simp only [List.mem_append, List.mem_singleton] at h1
          rcases h1 with h1 | rfl
          · exact Or.inl h1
          · exact Or.inr ⟨z, by simp, rfl⟩
        · simp only [Except.ok.injEq] at hz
          subst hz
          exact Or.inl h1
      · exact Or.inr ⟨z', by simp [hz'], hn⟩

theorem DesignEquiv.append {a b c d : Design} (h1 : DesignEquiv a c) (h2 : DesignEquiv b d) :
    DesignEquiv (Denote.Design.append a b) (Denote.Design.append c d) := by
  obtain ⟨a1, a2, a3, a4, a5⟩ := h1
  obtain ⟨b1, b2, b3, b4, b5⟩ := h2
  simp only [DesignEquiv, Denote.Design.append, a1, a2, a3, a4, a5, b1, b2, b3, b4, b5, and_self]

theorem DesignEquiv.trans {a b c : Design} (h1 : DesignEquiv a b) (h2 : DesignEquiv b c) : DesignEquiv a c := by
  obtain ⟨a1, a2, a3, a4, a5⟩ := h1
  obtain ⟨b1, b2, b3, b4, b5⟩ := h2
  exact ⟨a1.trans b1, a2.trans b2, a3.trans b3, a4.trans b4, a5.trans b5⟩

theorem lookup_none_ne {β} {l : List (String × β)} {k : String} (h : (l.lookup k).isSome = false) :
    ∀ x ∈ l, x.1 ≠ k := by
  intro x hx he
  have := mem_keys_lookup hx
  rw [he, h] at this
  cases this

/-- a name `pfx ++ k` with `k` free of `-` does not lie under any instance prefix `pfx ++ c ++ "-"` -/
theorem not_under_instance (pfx c k : String) (hk : '-' ∉ k.toList) : ¬ HasPfx (pfx ++ c ++ "-") (pfx ++ k) := by
  rintro ⟨r, hr⟩
  simp only [String.toList_append, List.append_assoc] at hr
  have := List.append_cancel_left hr
  have hd : "-".toList = ['-'] := rfl
  rw [hd] at this
  apply hk
  rw [← this]
  simp

/-- the invariant of the statement loop on the emitted-PIL side -/
structure LoopInv (tbl : CodeTable) (st : SysSt) (d : Design) : Prop where
  dash : ∀ c ∈ st.components, '-' ∉ c.1.toList
  names : ∀ s ∈ Emit.compsStmts st.components, ∀ n ∈ stmtNames s,
    ∃ c ∈ st.components, HasPfx (st.pfx ++ c.1 ++ "-") n
  bal : ∀ n p ss x, Pil.Stmt.struct n p ss x ∈ Emit.compsStmts st.components → Notation.balanced x = true
  keys : (st.lengths.map (·.1)).Nodup
  sigNames : ∀ x ∈ st.lengths, sigNameOk x.1 = true
  load : ∃ specC, Pil.load tbl (Emit.compsStmts st.components) {} = .ok specC ∧ DesignEquiv (Pil.denote specC) d ∧
    EntriesOK specC st.pfx st.signals st.lengths

theorem eqClosed_empty : EqClosed {} := fun _ h => nomatch h

theorem stmts_full (tbl : CodeTable) (b : Bundle) (fuel : Nat) (includes : List String)
    (IH : ∀ base args argKey pfx path includes anon inst a',
      loadFile b fuel base args argKey pfx path includes anon = .ok (inst, a') →
      ∃ d ports, Denote.denoteFile b fuel base args argKey pfx path includes anon = .ok (d, ports, a') ∧
        PortsAgree pfx (instPorts inst) ports ∧ InstPil tbl pfx inst d) :
    ∀ (stmts : List SStmt) (st st' : SysSt) (a a' : Nat) (d : Design) (sa : Denote.SigAcc),
      (∀ s ∈ stmts, sstmtOk s = true) →
      loadStmts b fuel includes stmts st a = .ok (st', a') →
      TablesAgree st.pfx st.signals st.lengths sa → LoopInv tbl st d →
      ∃ d' sa', Denote.denoteSysStmts b fuel includes st.path st.pfx stmts st.template d sa a = .ok (d', sa', a') ∧
        TablesAgree st'.pfx st'.signals st'.lengths sa' ∧ st'.pfx = st.pfx ∧ LoopInv tbl st' d' := by
  intro stmts
  induction stmts with
  | nil =>
    intro st st' a a' d sa _ h ht hinv
    rw [loadStmts_nil] at h
    simp only [Except.ok.injEq, Prod.mk.injEq] at h
    obtain ⟨rfl, rfl⟩ := h
    exact ⟨d, sa, denoteSysStmts_nil _ _ _ _ _ _ _ _ _, ht, rfl, hinv⟩
  | cons s r ih =>
    intro st st' a a' d sa hok h ht hinv
    cases s with
    | imports items =>
      rw [loadStmts_imports] at h
      have hag := addImports_agree items st.template
      cases hi : loadStmts.addImports items st.template with
      | error e => rw [hi] at h; cases h
      | ok t =>
        rw [hi] at h hag
        simp only at h hag
        obtain ⟨p, n, pf, t0, sg, l, c, i, o⟩ := st
        simp only at h
        obtain ⟨d', sa', hd, ht', hp, hinv'⟩ := ih (.mk p n pf t sg l c i o) st' a a' d sa
          (fun x hx => hok x (by simp [hx])) h ht
          ⟨hinv.dash, hinv.names, hinv.bal, hinv.keys, hinv.sigNames, hinv.load⟩
        refine ⟨d', sa', ?_, ht', hp, hinv'⟩
        rw [denoteSysStmts_imports]
        simp only [SysSt.template] at hag
        simp only [SysSt.template, ← hag]
        exact hd
    | component cname templ args ins outs =>
      have hsok := hok (.component cname templ args ins outs) (by simp)
      simp only [sstmtOk, Bool.and_eq_true, Bool.not_eq_true', List.all_eq_true] at hsok
      have hcdash : '-' ∉ cname.toList := by
        have := hsok.1; simpa using this
      rw [loadStmts_component] at h
      rw [denoteSysStmts_component]
      cases hl : st.template.lookup templ with
      | none => rw [hl] at h; cases h
      | some tpath =>
        rw [hl] at h
        simp only at h ⊢
        split at h
        · cases h
        · rename_i hdup
          have hdup' : (st.components.lookup cname).isSome = false := (Bool.not_eq_true _).mp hdup
          cases hf : loadFile b fuel tpath args ("@" ++ st.pfx ++ cname) (st.pfx ++ cname ++ "-") st.path includes a with
          | error e => rw [hf] at h; cases h
          | ok x =>
            obtain ⟨inst, a1⟩ := x
            rw [hf] at h
            simp only at h
            obtain ⟨d1, ports, hdf, hpa, hI⟩ := IH _ _ _ _ _ _ _ _ _ hf
            rw [hdf]
            simp only
            split at h
            · cases h
            · rename_i hcount
              have hcount' : ins.length = (instArity inst).1 ∧ outs.length = (instArity inst).2 := by
                simpa using hcount
              have hpl : ports.length = ins.length + outs.length := by
                rw [← hpa.1, instPorts_length, hcount'.1, hcount'.2]
              have : (ports.length != ins.length + outs.length) = false := by simp [hpl]
              rw [this]
              simp only [Bool.false_eq_true, if_false]
              cases hb : bindSigs cname st.signals st.lengths (ins ++ outs) (instPorts inst) with
              | error e => rw [hb] at h; cases h
              | ok y =>
                obtain ⟨sg, l⟩ := y
                rw [hb] at h
                simp only at h
                -- the emitted side
                obtain ⟨specC, hlC, hdC, heC⟩ := hinv.load
                obtain ⟨specI, hlI, hdI, hpI⟩ := hI.load
                have hnC : SpecNamesP (fun n => ∃ c ∈ st.components, HasPfx (st.pfx ++ c.1 ++ "-") n) specC ∧ EqClosed specC :=
                  load_names tbl _ {} specC hinv.names SpecNamesP.empty eqClosed_empty hlC
                have hnI : SpecNamesP (HasPfx (st.pfx ++ cname ++ "-")) specI ∧ EqClosed specI :=
                  load_names tbl _ {} specI hI.names SpecNamesP.empty eqClosed_empty hlI
                have hfree : SpecFree (HasPfx (st.pfx ++ cname ++ "-")) specC := by
                  apply hnC.1.free
                  rintro n ⟨c, hc, hcp⟩ hq
                  exact sibling_prefixes_disjoint st.pfx c.1 cname (hinv.dash c hc) hcdash (lookup_none_ne hdup' c hc) n ⟨hcp, hq⟩
                have hlAll : Pil.load tbl (Emit.compsStmts (st.components ++ [(cname, inst)])) {} = .ok (specAppend specC specI) := by
                  rw [compsStmts_append, compsStmts_single, load_append tbl _ _ _ _ hlC]
                  have := load_frame tbl hfree (Emit.instStmts inst) {} specI hI.names hlI
                  rwa [specAppend_nil_right] at this
                have hdAll : DesignEquiv (Pil.denote (specAppend specC specI)) (Denote.Design.append d d1) :=
                  DesignEquiv.trans (denote_append_free specC specI hnC.2 (fun its hi i hm =>
                    findSeq_none_of_free hfree (hnI.1.equals its hi i hm))) (DesignEquiv.append hdC hdI)
                have heAll : EntriesOK (specAppend specC specI) st.pfx st.signals st.lengths := by
                  intro x hx e hm
                  obtain ⟨h1, o, ho, h2, h3⟩ := heC x hx e hm
                  exact ⟨h1, o, by rw [findSeq_append_left _ (by rw [ho]; rfl)]; exact ho, h2, h3⟩
                have hpAll : ∀ ip ∈ instPorts inst, PortOK (specAppend specC specI) (st.pfx ++ cname ++ "-") ip := by
                  intro ip hip
                  obtain ⟨h1, h2, h3⟩ := hpI ip hip
                  refine ⟨h1, h2, fun hd => ?_⟩
                  obtain ⟨o, ho, g1, g2⟩ := h3 hd
                  exact ⟨o, by rw [findSeq_append_right _ (findSeq_none_of_free hfree (HasPfx.append _ _))]; exact ho, g1, g2⟩
                obtain ⟨sa1, hbp, ht1, hnd1, he1⟩ := bind_full (ins ++ outs) (instPorts inst) ports st.signals sg st.lengths l sa
                  ht hpa hinv.keys heAll hpAll hb
                rw [bindPorts_eq, hbp]
                simp only
                have hkeys := bind_keys cname _ (st.signals, st.lengths) (sg, l) hb
                obtain ⟨p, n, pf, t0, sg0, l0, c, i, o⟩ := st
                refine ih (addComp (.mk p n pf t0 sg0 l0 c i o) sg l cname inst) st' a1 a' _ sa1
                  (fun x hx => hok x (by simp [hx])) h ht1 ?_
                refine ⟨?_, ?_, ?_, hnd1, ?_, specAppend specC specI, hlAll, hdAll, he1⟩
                · intro x hx
                  change x ∈ c ++ [(cname, inst)] at hx
                  rcases List.mem_append.1 hx with hx | hx
                  · exact hinv.dash x hx
                  · simp only [List.mem_singleton] at hx; subst hx; exact hcdash
                · intro s hs nm hnm
                  change s ∈ Emit.compsStmts (c ++ [(cname, inst)]) at hs
                  change ∃ x ∈ c ++ [(cname, inst)], HasPfx (pf ++ x.1 ++ "-") nm
                  rw [compsStmts_append, compsStmts_single] at hs
                  rcases List.mem_append.1 hs with hs | hs
                  · obtain ⟨x, hx, hxp⟩ := hinv.names s hs nm hnm
                    exact ⟨x, List.mem_append_left _ hx, hxp⟩
                  · exact ⟨(cname, inst), by simp, hI.names s hs nm hnm⟩
                · intro nm pp ss x hx
                  change Pil.Stmt.struct nm pp ss x ∈ Emit.compsStmts (c ++ [(cname, inst)]) at hx
                  rw [compsStmts_append, compsStmts_single] at hx
                  rcases List.mem_append.1 hx with hx | hx
                  · exact hinv.bal nm pp ss x hx
                  · exact hI.bal nm pp ss x hx
                · intro x hx
                  rcases hkeys x hx with h1 | ⟨z, hz, hn⟩
                  · exact hinv.sigNames x h1
                  · rw [hn]
                    exact hsok.2 z.1 (List.of_mem_zip hz).1

theorem sigSpec_nil (pfx : String) (lens : List (String × Nat)) : sigSpec pfx lens [] = {} := rfl

theorem DesignEquiv.refl (a : Design) : DesignEquiv a a := ⟨rfl, rfl, rfl, rfl, rfl⟩

/-- assembling a loaded system: instances, then signals -/
theorem sys_inst (tbl : CodeTable) (hN : tbl.isCode 'N' = true) {p n pf : String} {t : List (String × String)}
    {sg : List (String × List SigEntry)} {l : List (String × Nat)} {c : List (String × Inst)} {i0 o0 : List SigRef}
    {d1 : Design} {sa : Denote.SigAcc} (ins outs : List SigRef)
    (ht : TablesAgree pf sg l sa) (hinv : LoopInv tbl (.mk p n pf t sg l c i0 o0) d1)
    (hio : (ins ++ outs).all (fun r => (sg.lookup r.name).isSome) = true) :
    InstPil tbl pf (.sys (.mk p n pf t sg l c ins outs))
      (Denote.Design.append d1
        { Design.empty with
          domains := sa.order.map (fun n => (pf ++ n, List.replicate ((sa.len.lookup n).getD 0) 'N'))
          seqs := sa.order.map (fun n => (pf ++ n, fwd (pf ++ n) ((sa.len.lookup n).getD 0)))
          equals := sa.order.map (fun n => fwd (pf ++ n) ((sa.len.lookup n).getD 0) :: (sa.members.lookup n).getD []) }) := by
  obtain ⟨specC, hlC, hdC, heC⟩ := hinv.load
  have hdash := hinv.dash
  have hnames := hinv.names
  have hbal := hinv.bal
  have hkeys := hinv.keys
  have hsn := hinv.sigNames
  simp only [SysSt.components, SysSt.pfx, SysSt.lengths, SysSt.signals] at hlC heC hdash hnames hbal hkeys hsn
  have hnC : SpecNamesP (fun nm => ∃ x ∈ c, HasPfx (pf ++ x.1 ++ "-") nm) specC ∧ EqClosed specC :=
    load_names tbl _ {} specC hnames SpecNamesP.empty eqClosed_empty hlC
  have hndS : (sg.map (·.1)).Nodup := by rw [ht.keys]; exact hkeys
  have hsigOk : ∀ x ∈ sg, sigNameOk x.1 = true := by
    intro x hx
    have : x.1 ∈ l.map (·.1) := by rw [← ht.keys]; exact List.mem_map.2 ⟨x, hx, rfl⟩
    obtain ⟨y, hy, hyx⟩ := List.mem_map.1 this
    rw [← hyx]; exact hsn y hy
  have hends : ∀ x ∈ sg, endsOk x.1 = true := by
    intro x hx
    have := hsigOk x hx
    simp only [sigNameOk, Bool.and_eq_true] at this
    exact this.1
  have hnodash : ∀ x ∈ sg, '-' ∉ x.1.toList := by
    intro x hx
    have := hsigOk x hx
    simp only [sigNameOk, Bool.and_eq_true, Bool.not_eq_true'] at this
    simpa using this.2
  have hfreeS : ∀ x ∈ sg, specC.findSeq (pf ++ x.1) = none := by
    intro x hx
    simp only [Pil.Spec.findSeq, List.find?_eq_none, beq_iff_eq]
    intro o ho he
    obtain ⟨y, _, hy⟩ := hnC.1.seqs o ho
    rw [he] at hy
    exact not_under_instance pf y.1 x.1 (hnodash x hx) hy
  have hposS : ∀ x ∈ sg, (l.lookup x.1).getD 0 ≠ 0 := by
    intro x hx
    have h1 : (l.lookup x.1).isSome = true := by
      rw [← lookup_isSome_of_keys ht.keys]; exact mem_keys_lookup hx
    obtain ⟨v, hv⟩ := Option.isSome_iff_exists.1 h1
    have := ht.pos (x.1, v) (lookup_mem hv)
    rw [hv]; simp only [Option.getD_some]; simp only at this; omega
  have hstm : Emit.instStmts (.sys (.mk p n pf t sg l c ins outs)) = Emit.compsStmts c ++ sg.flatMap (sigStmts pf l) := by
    rw [instStmts_sys, sysStmts_eq]; rfl
  have hload : Pil.load tbl (Emit.instStmts (.sys (.mk p n pf t sg l c ins outs))) {} =
      .ok (specAppend specC (sigSpec pf l sg)) := by
    rw [hstm, load_append tbl _ _ _ _ hlC]
    have := load_sigs tbl hN (specC := specC) (pfx := pf) (lens := l) sg [] (by simpa using hndS)
      (fun x hx => ⟨hends x hx, hfreeS x hx⟩) heC
    rwa [sigSpec_nil, specAppend_nil_right, List.nil_append] at this
  refine ⟨?_, ?_, specAppend specC (sigSpec pf l sg), hload, ?_, ?_⟩
  · intro st hst nm hnm
    rw [hstm] at hst
    rcases List.mem_append.1 hst with hst | hst
    · obtain ⟨x, _, hx⟩ := hnames st hst nm hnm
      exact HasPfx.of_append (HasPfx.of_append hx)
    · obtain ⟨x, hx, hst⟩ := List.mem_flatMap.1 hst
      simp only [sigStmts, List.mem_cons, List.mem_nil_iff, or_false] at hst
      rcases hst with rfl | rfl
      · simp only [stmtNames, List.mem_singleton] at hnm
        subst hnm; exact HasPfx.append _ _
      · simp only [stmtNames, List.map_cons, List.mem_cons, List.map_map, List.mem_map, Function.comp] at hnm
        rcases hnm with rfl | ⟨e, he, rfl⟩
        · rw [stripStar_append _ _ (hends x hx)]; exact HasPfx.append _ _
        · rw [stripStar_fullName _ _ _ (heC x hx e he).1]
          exact HasPfx.of_append (HasPfx.of_append (HasPfx.append _ _))
  · intro nm pp ss x hx
    rw [hstm] at hx
    rcases List.mem_append.1 hx with hx | hx
    · exact hbal nm pp ss x hx
    · obtain ⟨y, _, hy⟩ := List.mem_flatMap.1 hx
      simp [sigStmts] at hy
  · rw [sigDesign_eq ht hkeys]
    exact DesignEquiv.trans (denote_sys hnC.2 hndS hposS hfreeS heC) (DesignEquiv.append hdC (DesignEquiv.refl _))
  · intro q hq
    simp only [instPorts, sysPorts, SysSt.inputSeqs, SysSt.outputSeqs, SysSt.lengths, List.mem_map] at hq
    obtain ⟨r, hr, rfl⟩ := hq
    rw [List.all_eq_true] at hio
    obtain ⟨v, hv⟩ := Option.isSome_iff_exists.1 (hio r hr)
    have hx : (r.name, v) ∈ sg := lookup_mem hv
    refine ⟨hends _ hx, (fun h => Bool.noConfusion h), (fun _ => ⟨sigObj pf l (r.name, v), ?_, rfl, ?_⟩)⟩
    · simp only [portLocal]
      rw [findSeq_append_right _ (hfreeS _ hx)]
      exact sigSpec_find sg hndS _ hx
    · simp only [sigObj, nucs_single, portNucs]

/-- **the whole tree**: whatever `load_file` accepts — a component, a system, a system of systems — the
    specification accepts with the same counter and ports, and the emitted statements of the instance load to a
    specification that denotes the same design -/
theorem tree_full (tbl : CodeTable) (b : Bundle) (hb : bundleOk tbl b = true) :
    ∀ (fuel : Nat) base args argKey pfx path includes anon inst a',
    loadFile b fuel base args argKey pfx path includes anon = .ok (inst, a') →
    ∃ d ports, Denote.denoteFile b fuel base args argKey pfx path includes anon = .ok (d, ports, a') ∧
      PortsAgree pfx (instPorts inst) ports ∧ InstPil tbl pfx inst d := by
  intro fuel
  induction fuel with
  | zero =>
    intro base args argKey pfx path includes anon inst a' h
    obtain ⟨e, he⟩ := loadFile_zero b base args argKey pfx path includes anon
    rw [he] at h; cases h
  | succ fuel ih =>
    intro base args argKey pfx path includes anon inst a' h
    rw [loadFile_succ] at h
    rw [denoteFile_succ]
    cases hr : resolveImport (fun p => b.exists_.contains (normPath p)) base path includes with
    | error e => rw [hr] at h; cases h
    | ok x =>
      obtain ⟨fname, issys, newPath⟩ := x
      rw [hr] at h
      simp only at h ⊢
      cases hl : b.files.lookup (normPath fname ++ argKey) with
      | none => rw [hl] at h; cases h
      | some fs =>
        rw [hl] at h
        cases fs with
        | comp c =>
          simp only at h ⊢
          cases issys with
          | true => cases h
          | false =>
            simp only [Bool.false_eq_true, if_false, Bool.false_or] at h ⊢
            cases hcl : Comp.load c args pfx anon with
            | error e => rw [hcl] at h; cases h
            | ok y =>
              obtain ⟨st, a1⟩ := y
              rw [hcl] at h
              simp only [Except.ok.injEq, Prod.mk.injEq] at h
              obtain ⟨rfl, rfl⟩ := h
              obtain ⟨hun, hco⟩ := bundleOk_comp hb hl
              obtain ⟨o, ports, hd, hp, hI⟩ := comp_inst tbl hcl hun
              have hpar : (c.params.length != args) = false := by simp [(load_stars hcl).1]
              rw [hpar, hd]
              exact ⟨_, _, rfl, hp, hI hco⟩
        | sys s =>
          simp only at h ⊢
          cases issys with
          | false => cases h
          | true =>
            simp only [Bool.not_true, Bool.false_eq_true, if_false, Bool.false_or] at h ⊢
            split at h
            · cases h
            · rename_i hpar
              have hpar' : (s.params.length != args) = false := by simpa using hpar
              rw [hpar']
              simp only [Bool.false_eq_true, if_false]
              cases hs : loadStmts b fuel includes s.stmts (.mk newPath s.name pfx [] [] [] [] [] []) anon with
              | error e => rw [hs] at h; cases h
              | ok y =>
                obtain ⟨st, a1⟩ := y
                rw [hs] at h
                simp only at h
                have ht0 : TablesAgree pfx [] [] ({} : Denote.SigAcc) :=
                  ⟨rfl, rfl, rfl, rfl, fun x hx => (nomatch hx)⟩
                have hinv0 : LoopInv tbl (.mk newPath s.name pfx [] [] [] [] [] []) Design.empty :=
                  ⟨(fun _ h => nomatch h), (fun _ h => nomatch h), (fun _ _ _ _ h => nomatch h), List.nodup_nil,
                   (fun _ h => nomatch h), {}, rfl, ⟨rfl, rfl, rfl, rfl, rfl⟩, (fun _ h => nomatch h)⟩
                have hsok := bundleOk_sys hb hl
                simp only [sysNamesOk, List.all_eq_true] at hsok
                obtain ⟨d1, sa, hd, ht, hpf, hinv⟩ := stmts_full tbl b fuel includes ih s.stmts _ st anon a1 Design.empty {}
                  hsok hs ht0 hinv0
                have hpf' : st.pfx = pfx := hpf
                simp only [SysSt.path, SysSt.pfx, SysSt.template] at hd
                rw [hd]
                simp only
                rw [hpf'] at ht
                split at h
                · cases h
                · rename_i hio
                  obtain ⟨p, n, pf, t, sg, l, c, i, o⟩ := st
                  simp only [Except.ok.injEq, Prod.mk.injEq] at h
                  obtain ⟨rfl, rfl⟩ := h
                  simp only [SysSt.signals, SysSt.lengths] at ht hio
                  simp only [SysSt.pfx] at hpf'
                  subst hpf'
                  have hio' : (s.inputs ++ s.outputs).all (fun r => (sg.lookup r.name).isSome) = true := by simpa using hio
                  have hall : (s.inputs ++ s.outputs).all (fun r => sa.order.contains r.name) = true := by
                    rw [List.all_eq_true] at hio' ⊢
                    intro r hr
                    rw [ht.order, contains_keys, ← lookup_isSome_of_keys ht.keys]
                    exact hio' r hr
                  rw [hall]
                  simp only [Bool.not_true, Bool.false_eq_true, if_false]
                  refine ⟨_, _, rfl, ?_, sys_inst tbl (bundleOk_N hb) s.inputs s.outputs ht hinv hio'⟩
                  constructor
                  · simp [instPorts, sysPorts, SysSt.inputSeqs, SysSt.outputSeqs]
                  · intro x hx
                    simp only [instPorts, sysPorts, SysSt.inputSeqs, SysSt.outputSeqs, SysSt.lengths] at hx
                    obtain ⟨r, hr, rfl⟩ := mem_zip_map_map _ _ _ hx
                    have hsome : (l.lookup r.name).isSome = true := by
                      rw [← lookup_isSome_of_keys ht.keys]
                      rw [List.all_eq_true] at hio'
                      exact hio' r hr
                    obtain ⟨v, hv⟩ := Option.isSome_iff_exists.1 hsome
                    have hvpos : 0 < v := ht.pos (r.name, v) (lookup_mem hv)
                    simp only [portNucs, ht.len, hv, Option.getD_some, fwd_length, true_and]
                    cases v with
                    | zero => omega
                    | succ v => simp [fwd, List.range_succ]

/-! ## 7. names-only hypotheses: a code table for the bundle -/

def itemsChars (items : List SrcItem) : List Char :=
  items.flatMap (fun it => match it with
    | .nuc t => (Constraint.parseQuoted t).map (·.2)
    | _ => [])

def stmtChars : Comp.Stmt → List Char
  | .seq _ items _ => itemsChars items
  | .strand _ _ items _ => itemsChars items
  | _ => []

/-- the code letters written in the quoted regions of a component source -/
def srcChars (c : Comp.Src) : List Char := c.stmts.flatMap stmtChars

theorem itemCodesOk_of_chars {tbl : CodeTable} {items : List SrcItem} (h : ∀ ch ∈ itemsChars items, tbl.isCode ch = true) :
    itemCodesOk tbl items = true := by
  simp only [itemCodesOk, List.all_eq_true]
  intro it hit
  cases it with
  | nuc t =>
    simp only [partsCodesOk, List.all_eq_true]
    intro mc hmc
    apply h
    simp only [itemsChars, List.mem_flatMap]
    exact ⟨.nuc t, hit, List.mem_map.2 ⟨mc, hmc, rfl⟩⟩
  | ref _ _ => rfl
  | domains _ _ => rfl

theorem codesOk_of_chars {tbl : CodeTable} {c : Comp.Src} (h : ∀ ch ∈ srcChars c, tbl.isCode ch = true) :
    CodesOk tbl c = true := by
  simp only [CodesOk, List.all_eq_true]
  intro st hst
  have hst' : ∀ ch ∈ stmtChars st, tbl.isCode ch = true :=
    fun ch hch => h ch (List.mem_flatMap.2 ⟨st, hst, hch⟩)
  cases st with
  | seq _ items _ => exact itemCodesOk_of_chars hst'
  | strand _ _ items _ => exact itemCodesOk_of_chars hst'
  | struct _ _ _ _ _ => rfl
  | kinetic _ _ _ _ => rfl

/-- the names-only part of `bundleOk` -/
def bundleNamesOk (b : Bundle) : Bool :=
  b.files.all (fun kf => match kf.2 with
    | .comp c => UserNamesOk c
    | .sys s => sysNamesOk s)

/-- a code table in which `N` and every code letter written anywhere in the bundle is a code -/
def tableOfBundle (b : Bundle) : CodeTable :=
  tableOf ('N' :: b.files.flatMap (fun kf => match kf.2 with
    | .comp c => srcChars c
    | .sys _ => []))

theorem bundleOk_tableOfBundle {b : Bundle} (h : bundleNamesOk b = true) : bundleOk (tableOfBundle b) b = true := by
  simp only [bundleNamesOk, List.all_eq_true] at h
  simp only [bundleOk, Bool.and_eq_true, List.all_eq_true]
  refine ⟨tableOf_isCode _ _ (by simp), ?_⟩
  intro kf hkf
  have := h kf hkf
  cases hk : kf.2 with
  | comp c =>
    rw [hk] at this
    simp only [Bool.and_eq_true]
    refine ⟨this, codesOk_of_chars (fun ch hch => tableOf_isCode _ _ ?_)⟩
    apply List.mem_cons_of_mem
    exact List.mem_flatMap.2 ⟨kf, hkf, by rw [hk]; exact hch⟩
  | sys s => rw [hk] at this; exact this

end Pepper.SysProofs
