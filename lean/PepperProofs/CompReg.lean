import PepperProofs.CompSem
/-!
# Lookups in the `seqs` table, the normal form of a built object, `registerAnon` in closed form (C01)
-/
namespace Pepper.Comp
open Pepper.Constraint

/-! ### lookups -/

def findE (l : List SeqE) (n : String) : Option SeqE := l.find? (·.name == n)
def findT (l : List StrandE) (n : String) : Option StrandE := l.find? (·.name == n)

theorem findSeq_eq (s : St) (n : String) : s.findSeq n = findE s.seqs n := rfl
theorem findStrand_eq (s : St) (n : String) : s.findStrand n = findT s.strands n := rfl

theorem findE_append (l1 l2 : List SeqE) (n : String) : findE (l1 ++ l2) n = (findE l1 n).or (findE l2 n) := by
  simp [findE, List.find?_append]

theorem findE_eq_none {l : List SeqE} {n : String} : findE l n = none ↔ ∀ e ∈ l, e.name ≠ n := by
  simp [findE, List.find?_eq_none]

theorem findE_some {l : List SeqE} {n : String} {e : SeqE} (h : findE l n = some e) : e ∈ l ∧ e.name = n := by
  unfold findE at h
  exact ⟨List.mem_of_find?_eq_some h, by simpa using List.find?_some h⟩

theorem findE_append_of_some {l1 : List SeqE} {n : String} {e : SeqE} (h : findE l1 n = some e) (l2 : List SeqE) :
    findE (l1 ++ l2) n = some e := by
  simp [findE_append, h]

theorem findE_append_of_none {l1 : List SeqE} {n : String} (h : findE l1 n = none) (l2 : List SeqE) :
    findE (l1 ++ l2) n = findE l2 n := by
  simp [findE_append, h]

theorem findE_isSome_iff {l : List SeqE} {n : String} : (findE l n).isSome = true ↔ ∃ e ∈ l, e.name = n := by
  simp [findE, List.find?_isSome]

theorem nodup_name_eq {l : List SeqE} (hn : (l.map (·.name)).Nodup) {e e' : SeqE} (he : e ∈ l) (he' : e' ∈ l)
    (h : e.name = e'.name) : e = e' := by
  induction l with
  | nil => simp at he
  | cons x r ih =>
    simp only [List.map_cons, List.nodup_cons, List.mem_map, not_exists, not_and] at hn
    simp only [List.mem_cons] at he he'
    rcases he with rfl | he <;> rcases he' with rfl | he'
    · rfl
    · exact absurd h.symm (hn.1 e' he')
    · exact absurd h (hn.1 e he)
    · exact ih hn.2 he he'

theorem findE_of_mem {l : List SeqE} (hn : (l.map (·.name)).Nodup) {e : SeqE} (he : e ∈ l) :
    findE l e.name = some e := by
  cases h : findE l e.name with
  | none => exact absurd rfl (findE_eq_none.mp h e he)
  | some e' =>
    obtain ⟨hm, hne⟩ := findE_some h
    rw [nodup_name_eq hn hm he hne]

theorem findE_map (f : SeqE → SeqE) (hf : ∀ e, (f e).name = e.name) (l : List SeqE) (n : String) :
    findE (l.map f) n = (findE l n).map f := by
  induction l with
  | nil => simp [findE]
  | cons x r ih =>
    simp only [findE, List.map_cons, List.find?_cons, hf] at ih ⊢
    split
    · rfl
    · exact ih

theorem findT_append (l1 l2 : List StrandE) (n : String) : findT (l1 ++ l2) n = (findT l1 n).or (findT l2 n) := by
  simp [findT, List.find?_append]

theorem findT_eq_none {l : List StrandE} {n : String} : findT l n = none ↔ ∀ e ∈ l, e.name ≠ n := by
  simp [findT, List.find?_eq_none]

theorem findT_some {l : List StrandE} {n : String} {e : StrandE} (h : findT l n = some e) : e ∈ l ∧ e.name = n := by
  unfold findT at h
  exact ⟨List.mem_of_find?_eq_some h, by simpa using List.find?_some h⟩

theorem findT_map (f : StrandE → StrandE) (hf : ∀ e, (f e).name = e.name) (l : List StrandE) (n : String) :
    findT (l.map f) n = (findT l n).map f := by
  induction l with
  | nil => simp [findT]
  | cons x r ih =>
    simp only [findT, List.map_cons, List.find?_cons, hf] at ih ⊢
    split
    · rfl
    · exact ih

/-! ### segments: the normal form of a built object -/

/-- a built object is a concatenation of wildcard-free segments, each with its own first anonymous number -/
abbrev Segs := List (Nat × List CItem)

def sgRefs (sg : Segs) : List ItemRef := sg.flatMap (fun x => refsFrom x.1 x.2)
def sgBases (sg : Segs) : List BaseRef := sg.flatMap (fun x => basesFrom x.1 x.2)
def sgAnons (sg : Segs) : List SeqE := sg.flatMap (fun x => anonsFrom x.1 x.2)
def sgNums (sg : Segs) : List Nat := sg.flatMap (fun x => List.range' x.1 (nucCount x.2))
def sgLen (sg : Segs) : Nat := (sg.map (fun x => lenSum x.2)).sum
def sgItems (sg : Segs) : List CItem := sg.flatMap (·.2)

theorem anonsFrom_names (k : Nat) (cs : List CItem) :
    (anonsFrom k cs).map (·.name) = (List.range' k (nucCount cs)).map anonName := by
  induction cs generalizing k with
  | nil => simp [anonsFrom, nucCount]
  | cons c r ih =>
    cases c with
    | obj i bs => simp [anonsFrom, nucCount, ih]
    | nuc p =>
      simp only [anonsFrom, nucCount, List.map_cons, ih]
      rw [List.range'_succ]
      simp [mkAnon]

theorem sgAnons_names (sg : Segs) : (sgAnons sg).map (·.name) = (sgNums sg).map anonName := by
  induction sg with
  | nil => rfl
  | cons x r ih =>
    simp only [sgAnons, sgNums, List.flatMap_cons, List.map_append] at ih ⊢
    rw [anonsFrom_names, ih]

theorem mem_anonsFrom {k : Nat} {cs : List CItem} {e : SeqE} (h : e ∈ anonsFrom k cs) :
    ∃ j p, k ≤ j ∧ j < k + nucCount cs ∧ CItem.nuc p ∈ cs ∧ e = mkAnon j (fixedSum p) (expand 0 p) := by
  induction cs generalizing k with
  | nil => simp [anonsFrom] at h
  | cons c r ih =>
    cases c with
    | obj i bs =>
      obtain ⟨j, p, h1, h2, h3, h4⟩ := ih (by simpa [anonsFrom] using h)
      exact ⟨j, p, h1, by simpa [nucCount] using h2, List.mem_cons_of_mem _ h3, h4⟩
    | nuc q =>
      simp only [anonsFrom, List.mem_cons] at h
      rcases h with rfl | h
      · exact ⟨k, q, Nat.le_refl _, by simp [nucCount], by simp, rfl⟩
      · obtain ⟨j, p, h1, h2, h3, h4⟩ := ih h
        exact ⟨j, p, by omega, by simp [nucCount]; omega, List.mem_cons_of_mem _ h3, h4⟩

theorem nodup_range1 (a m : Nat) : (List.range' a m).Nodup := List.nodup_range'

theorem nodup_nums_wild1 (a m n : Nat) : (List.range' a m ++ List.range' (a+m) n ++ [a+m+n]).Nodup := by
  simp only [List.nodup_append, nodup_range1, List.mem_range'_1, List.mem_append, List.mem_cons,
        List.not_mem_nil, or_false, List.nodup_cons, List.nodup_nil, not_false_eq_true, and_true, true_and, ne_eq]
  refine ⟨fun x hx y hy => by omega, fun x hx y hy => by omega⟩

theorem nodup_nums_wild2 (a m n : Nat) :
    (List.range' a m ++ (List.range' (a+m+n) 1 ++ List.range' (a+m) n)).Nodup := by
  simp only [List.nodup_append, nodup_range1, List.mem_range'_1, List.mem_append, true_and, ne_eq]
  refine ⟨fun x hx y hy => by omega, fun x hx y hy => by omega⟩

theorem nodup_names_of_nums {l : List Nat} (h : l.Nodup) : (l.map anonName).Nodup := by
  unfold List.Nodup at *
  exact List.Pairwise.map anonName (fun a b hab hn => hab (anonName_inj hn)) h

structure BuildNF (a : Nat) (b : Built) (sg : Segs) : Prop where
  items : b.items = sgRefs sg
  bases : b.bases = sgBases sg
  len : b.len = sgLen sg
  free : ∀ x ∈ sg, wildFree x.2 = true
  memNew : ∀ e, e ∈ b.newAnon ↔ e ∈ sgAnons sg
  nodupNew : (b.newAnon.map (·.name)).Nodup
  nums : (sgNums sg).Nodup
  range : ∀ j ∈ sgNums sg, a ≤ j ∧ j < b.anon
  le : a ≤ b.anon

/-- the two shapes of the segment list of an accepted build -/
def SgShape (a : Nat) (cs : List CItem) (len : Option Nat) (sg : Segs) : Prop :=
  (wildFree cs = true ∧ (len = none ∨ len = some (lenSum cs)) ∧ sg = [(a, cs)]) ∨
  (∃ pre w post L, cs = pre ++ .nuc w :: post ∧ wildFree pre = true ∧ wildCount w = 1 ∧ wildFree post = true ∧
    len = some L ∧ lenSum pre + lenSum post + fixedSum w ≤ L ∧
    sg = [(a, pre), (a + nucCount pre + nucCount post,
            [.nuc (explicit (L - (lenSum pre + lenSum post) - fixedSum w) w)]), (a + nucCount pre, post)])

theorem buildSuper_nf {a : Nat} {cs : List CItem} {len : Option Nat} {b : Built}
    (h : buildSuper a cs len = .ok b) :
    ∃ sg, BuildNF a b sg ∧ (∀ i bs, CItem.obj i bs ∈ sgItems sg → CItem.obj i bs ∈ cs) ∧
      (∀ p, CItem.nuc p ∈ sgItems sg → CItem.nuc p ∈ cs ∨ ∃ w x, CItem.nuc w ∈ cs ∧ p = explicit x w) ∧
      SgShape a cs len sg := by
  rcases buildSuper_ok_cases h with ⟨hw, hlen, rfl⟩ | ⟨pre, w, post, L, rfl, hpre, hw, hpost, rfl, hle, rfl⟩
  · refine ⟨[(a, cs)], ⟨by simp [sgRefs], by simp [sgBases], by simp [sgLen], by simpa using hw,
      by simp [sgAnons], ?_, ?_, ?_, by simp⟩, by simp [sgItems], fun p hp => Or.inl (by simpa [sgItems] using hp),
      Or.inl ⟨hw, hlen, rfl⟩⟩
    · simp only [anonsFrom_names]; exact nodup_names_of_nums (nodup_range1 _ _)
    · simp [sgNums, nodup_range1]
    · simp only [sgNums, List.flatMap_cons, List.flatMap_nil, List.append_nil, List.mem_range'_1]
      intro j hj; omega
  · refine ⟨[(a, pre), (a + nucCount pre + nucCount post,
        [.nuc (explicit (L - (lenSum pre + lenSum post) - fixedSum w) w)]), (a + nucCount pre, post)], ⟨?_, ?_, ?_, ?_, ?_, ?_, ?_, ?_, ?_⟩, ?_, ?_,
      Or.inr ⟨pre, w, post, L, rfl, hpre, hw, hpost, rfl, hle, rfl⟩⟩
    · simp [sgRefs, refsFrom, fixedSum_explicit, hw]; omega
    · simp [sgBases, basesFrom, fixedSum_explicit, hw]; omega
    · simp [sgLen, lenSum, fixedSum_explicit, hw]; omega
    · simp [wildFree, hpre, hpost, wildCount_explicit]
    · intro e
      simp only [sgAnons, anonsFrom, List.flatMap_cons, List.flatMap_nil, List.append_nil, List.mem_append,
        List.mem_cons, List.not_mem_nil, or_false, expand_explicit, fixedSum_explicit, hw]
      have : fixedSum w + (L - (lenSum pre + lenSum post) - fixedSum w) * 1 = L - (lenSum pre + lenSum post) := by omega
      rw [this]
      constructor
      · rintro ((h | h) | h) <;> simp [h]
      · rintro (h | h | h) <;> simp [h]
    · simp only [List.map_append, anonsFrom_names, List.map_cons, List.map_nil, mkAnon]
      rw [← List.map_append, show [anonName (a + nucCount pre + nucCount post)] = [a + nucCount pre + nucCount post].map anonName from rfl,
        ← List.map_append]
      apply nodup_names_of_nums
      exact nodup_nums_wild1 a (nucCount pre) (nucCount post)
    · simp only [sgNums, nucCount, List.flatMap_cons, List.flatMap_nil, List.append_nil, Nat.zero_add]
      exact nodup_nums_wild2 a (nucCount pre) (nucCount post)
    · simp only [sgNums, nucCount, List.flatMap_cons, List.flatMap_nil, List.append_nil, List.mem_append,
        List.mem_range'_1]
      intro j hj; omega
    · simp only; omega
    · intro i bs
      simp only [sgItems, List.flatMap_cons, List.flatMap_nil, List.append_nil, List.mem_append, List.mem_cons,
        List.not_mem_nil, or_false]
      rintro (h | h | h)
      · exact Or.inl h
      · simp at h
      · exact Or.inr (Or.inr h)
    · intro p
      simp only [sgItems, List.flatMap_cons, List.flatMap_nil, List.append_nil, List.mem_append, List.mem_cons,
        List.not_mem_nil, or_false]
      rintro (h | h | h)
      · exact Or.inl (Or.inl h)
      · simp only [CItem.nuc.injEq] at h
        exact Or.inr ⟨w, _, by simp, h⟩
      · exact Or.inl (Or.inr (Or.inr h))

/-! ### `registerAnon` -/

def regStep (new : List SeqE) (s : St) (i : ItemRef) : St :=
  if (s.findSeq i.name).isSome then s
  else match new.find? (·.name == i.name) with
    | some e => { s with seqs := s.seqs ++ [e] }
    | none => s

theorem registerAnon_eq (s : St) (b : Built) : registerAnon s b = b.items.foldl (regStep b.newAnon) s := rfl

theorem find_new_of_mem {new : List SeqE} (hn : (new.map (·.name)).Nodup) {e : SeqE} (he : e ∈ new) :
    new.find? (·.name == e.name) = some e := findE_of_mem hn he

theorem regFold_segment (new : List SeqE) (cs : List CItem) (k : Nat) (s : St)
    (hobj : ∀ i bs, CItem.obj i bs ∈ cs → (findE s.seqs i.name).isSome = true)
    (hfresh : ∀ j ∈ List.range' k (nucCount cs), findE s.seqs (anonName j) = none)
    (hnew : ∀ e ∈ anonsFrom k cs, new.find? (·.name == e.name) = some e) :
    (refsFrom k cs).foldl (regStep new) s = { s with seqs := s.seqs ++ anonsFrom k cs } := by
  induction cs generalizing k s with
  | nil => simp [refsFrom, anonsFrom]
  | cons c r ih =>
    cases c with
    | obj i bs =>
      have hi := hobj i bs (by simp)
      simp only [refsFrom, List.foldl_cons, anonsFrom]
      have : regStep new s i = s := by simp [regStep, findSeq_eq, hi]
      rw [this]
      exact ih k s (fun i bs h => hobj i bs (List.mem_cons_of_mem _ h)) (by simpa [nucCount] using hfresh) hnew
    | nuc p =>
      simp only [refsFrom, List.foldl_cons, anonsFrom]
      have hk : findE s.seqs (anonName k) = none := hfresh k (by simp [nucCount, List.mem_range'_1])
      have hn := hnew (mkAnon k (fixedSum p) (expand 0 p)) (by simp [anonsFrom])
      have hstep : regStep new s ⟨anonName k, false, fixedSum p, false⟩ =
          { s with seqs := s.seqs ++ [mkAnon k (fixedSum p) (expand 0 p)] } := by
        simp only [regStep, findSeq_eq, hk]
        simp only [mkAnon] at hn
        simp [hn, mkAnon]
      rw [hstep, ih (k + 1)]
      · simp
      · intro i bs h
        simp only [findE_append, Option.isSome_or, Bool.or_eq_true]
        exact Or.inl (hobj i bs (List.mem_cons_of_mem _ h))
      · intro j hj
        simp only [List.mem_range'_1] at hj
        rw [findE_append_of_none (hfresh j (by simp [nucCount, List.mem_range'_1]; omega))]
        rw [findE_eq_none]
        intro e he
        simp only [List.mem_singleton] at he
        subst he
        simp only [mkAnon]
        intro h
        have := anonName_inj h
        omega
      · intro e he
        exact hnew e (by simp [anonsFrom, he])

theorem anonsFrom_findE_none {k : Nat} {cs : List CItem} {j : Nat} (hj : j ∉ List.range' k (nucCount cs)) :
    findE (anonsFrom k cs) (anonName j) = none := by
  rw [findE_eq_none]
  intro e he hn
  obtain ⟨j', p, h1, h2, _, rfl⟩ := mem_anonsFrom he
  simp only [mkAnon] at hn
  have := anonName_inj hn
  subst this
  exact hj (by simp [List.mem_range'_1]; omega)

theorem regFold_segs (new : List SeqE) (sg : Segs) (s : St)
    (hobj : ∀ i bs, CItem.obj i bs ∈ sgItems sg → (findE s.seqs i.name).isSome = true)
    (hnum : (sgNums sg).Nodup)
    (hfresh : ∀ j ∈ sgNums sg, findE s.seqs (anonName j) = none)
    (hnew : ∀ e ∈ sgAnons sg, new.find? (·.name == e.name) = some e) :
    (sgRefs sg).foldl (regStep new) s = { s with seqs := s.seqs ++ sgAnons sg } := by
  induction sg generalizing s with
  | nil => simp [sgRefs, sgAnons]
  | cons x r ih =>
    simp only [sgRefs, sgAnons, sgNums, sgItems, List.flatMap_cons, List.foldl_append, List.mem_append,
      List.nodup_append] at *
    rw [regFold_segment new x.2 x.1 s (fun i bs h => hobj i bs (Or.inl h)) (fun j hj => hfresh j (Or.inl hj))
      (fun e he => hnew e (Or.inl he))]
    rw [ih]
    · simp
    · intro i bs h
      simp only [findE_append, Option.isSome_or, Bool.or_eq_true]
      exact Or.inl (hobj i bs (Or.inr h))
    · exact hnum.2.1
    · intro j hj
      rw [findE_append_of_none (hfresh j (Or.inr hj))]
      apply anonsFrom_findE_none
      intro hmem
      exact hnum.2.2 j hmem j hj rfl
    · intro e he
      exact hnew e (Or.inr he)

/-- `registerAnon` appends exactly the anonymous sequences of the built object, in the order of its items -/
theorem registerAnon_nf {a : Nat} {b : Built} {sg : Segs} (nf : BuildNF a b sg) (s : St)
    (hobj : ∀ i bs, CItem.obj i bs ∈ sgItems sg → (findE s.seqs i.name).isSome = true)
    (hfresh : ∀ j, a ≤ j → findE s.seqs (anonName j) = none) :
    registerAnon s b = { s with seqs := s.seqs ++ sgAnons sg } := by
  rw [registerAnon_eq, nf.items]
  exact regFold_segs b.newAnon sg s hobj nf.nums (fun j hj => hfresh j (nf.range j hj).1)
    (fun e he => find_new_of_mem nf.nodupNew ((nf.memNew e).mpr he))

end Pepper.Comp
