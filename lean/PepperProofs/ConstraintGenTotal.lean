import PepperProofs.ConstraintGenComp
/-!
# The seeding never raises (strand layout)

For every well-formed specification the seeding of the strand layout succeeds: every loop body returns
(`seeds`), no index is initialised twice and every link joins initialised indices (`build`).
-/
namespace Pepper.ConstraintGen
open Pepper Pepper.Pil Pepper.Closure Pepper.LinkSpec

/-! ## loops whose bodies never raise -/

theorem mapME_exists {α β : Type} {f : α → Except Err β} {l : List α} (h : ∀ a ∈ l, ∃ b, f a = .ok b) :
    ∃ bs, mapME f l = .ok bs := by
  induction l with
  | nil => exact ⟨[], rfl⟩
  | cons a l ih =>
    obtain ⟨b, hb⟩ := h a List.mem_cons_self
    obtain ⟨bs, hbs⟩ := ih (fun a ha => h a (List.mem_cons_of_mem _ ha))
    exact ⟨b :: bs, by simp [mapME, hb, hbs]⟩

theorem flatME_exists {α β : Type} {f : α → Except Err (List β)} {l : List α} (h : ∀ a ∈ l, ∃ bs, f a = .ok bs) :
    ∃ bs, flatME f l = .ok bs := by
  obtain ⟨ls, hls⟩ := mapME_exists h
  exact ⟨ls.flatten, by simp [flatME, hls]⟩

/-! ## `build` succeeds when keys are distinct and links join keys -/

theorem initAll_total (l : List (Nat × Char)) {c : Cons} (I : InitInv c)
    (hnd : (c.keys ++ l.map (·.1)).Nodup) : ∃ c', initAll l c = .ok c' := by
  induction l generalizing c with
  | nil => exact ⟨c, rfl⟩
  | cons a l ih =>
    obtain ⟨x, letter⟩ := a
    have hx : x ∉ c.keys := by
      intro hx
      have := (List.nodup_append.1 hnd).2.2 x hx x (by simp)
      exact this rfl
    have he : c.eq.has x = false := by simp [Tab.has, I.eqv x, hx]
    have hw : c.wc.has x = false := by simp [Tab.has, I.wcv x, hx]
    have hs : c.st.has x = false := by
      cases h : c.st.get x with
      | none => simp [Tab.has, h]
      | some v => exact absurd (I.stv x (by simp [h])) hx
    simp only [initAll, he, hw, hs, Bool.or_self, Bool.false_eq_true, if_false]
    apply ih
    · constructor
      · exact List.nodup_append.2 ⟨I.nodup, by simp, by
          intro a ha b hb; simp at hb; subst hb; exact fun e => hx (e ▸ ha)⟩
      · intro k
        simp only [Tab.get_set, List.mem_append, List.mem_singleton]
        by_cases hk : k = x
        · simp [hk]
        · simp [hk, I.eqv k]
      · intro k
        simp only [Tab.get_set, List.mem_append, List.mem_singleton]
        by_cases hk : k = x
        · simp [hk]
        · simp [hk, I.wcv k]
      · intro k hk
        simp only [Tab.get_set] at hk
        simp only [List.mem_append, List.mem_singleton]
        by_cases hkx : k = x
        · exact Or.inr hkx
        · simp only [hkx, if_false] at hk; exact Or.inl (I.stv k hk)
    · simpa [List.append_assoc] using hnd

theorem addLinks_total (edges : List (Nat × Nat)) (t : Tab (List Nat))
    (h : ∀ e ∈ edges, (t.get e.1).isSome = true ∧ (t.get e.2).isSome = true) : ∃ t', addLinks edges t = .ok t' := by
  induction edges generalizing t with
  | nil => exact ⟨t, rfl⟩
  | cons a l ih =>
    obtain ⟨x, y⟩ := a
    obtain ⟨hx, hy⟩ := h (x, y) List.mem_cons_self
    simp only at hx hy
    obtain ⟨lx, hlx⟩ := Option.isSome_iff_exists.1 hx
    have hy' : ((t.set x (lx ++ [y])).get y).isSome = true := by
      rw [Tab.get_set]; split; rfl; exact hy
    obtain ⟨ly, hly⟩ := Option.isSome_iff_exists.1 hy'
    have h1 : addLink t x y = .ok ((t.set x (lx ++ [y])).set y (ly ++ [x])) := by
      simp [addLink, hlx, hly]
    obtain ⟨_, _, hs1, _⟩ := addLink_spec h1
    obtain ⟨t', ht'⟩ := ih _ (fun e he => by
      have := h e (List.mem_cons_of_mem _ he)
      rw [hs1, hs1]; exact this)
    exact ⟨t', by simp [addLinks, h1, ht']⟩

/-- `build` succeeds when the `init` keys are distinct and every link joins `init` keys -/
theorem build_total (s : Seeds) (hnd : (s.inits.map (·.1)).Nodup)
    (hE : ∀ e ∈ s.eqE, e.1 ∈ s.inits.map (·.1) ∧ e.2 ∈ s.inits.map (·.1))
    (hW : ∀ e ∈ s.wcE, e.1 ∈ s.inits.map (·.1) ∧ e.2 ∈ s.inits.map (·.1)) : ∃ c, build s = .ok c := by
  have I0 : InitInv ⟨[], Tab.empty, Tab.empty, Tab.empty⟩ :=
    ⟨by simp, by simp [Tab.get_empty], by simp [Tab.get_empty], by simp [Tab.get_empty]⟩
  obtain ⟨c0, hc0⟩ := initAll_total s.inits I0 (by simpa using hnd)
  obtain ⟨I, hkeys, _, _⟩ := initAll_spec s.inits I0 hc0
  simp only [List.nil_append] at hkeys
  have isK : ∀ k, k ∈ s.inits.map (·.1) → (c0.eq.get k).isSome = true ∧ (c0.wc.get k).isSome = true := by
    intro k hk
    rw [← hkeys] at hk
    simp [I.eqv k, I.wcv k, hk]
  obtain ⟨eq1, h1⟩ := addLinks_total s.eqE c0.eq (fun e he => ⟨(isK _ (hE e he).1).1, (isK _ (hE e he).2).1⟩)
  obtain ⟨wc1, h2⟩ := addLinks_total s.wcE c0.wc (fun e he => ⟨(isK _ (hW e he).1).2, (isK _ (hW e he).2).2⟩)
  exact ⟨{ c0 with eq := eq1, wc := wc1 }, by simp [build, hc0, h1, h2]⟩

/-! ## strand layout: every loop body returns, and links join keys -/

/-- the keys the strand layout initialises -/
def keysStrand (spec : Spec) : List Nat :=
  (posTabStrand spec).map (·.1) ++ (seqInits spec (encOf spec (layStrand spec))).map (·.1)

theorem posKey_strand {spec : Spec} {q : Nat × StrandObj} (hq : q ∈ enum spec.strands) {y : Nat} (hy : y < q.2.len) :
    startS spec q.1 + y ∈ keysStrand spec := by
  apply List.mem_append_left
  unfold posTabStrand
  rw [List.map_flatMap, List.mem_flatMap]
  exact ⟨q, hq, by simp only [List.map_map, List.mem_map, Function.comp]; exact ⟨y, List.mem_range.2 hy, rfl⟩⟩

theorem sqKey_strand {spec : Spec} (wf : SpecWF spec) {it : ItemRef} {num x : Nat} (hn : numOf spec it = some num)
    (hx : x < lenOf spec it) : (encOf spec (layStrand spec)).sq num x ∈ keysStrand spec := by
  apply List.mem_append_right
  obtain ⟨o, ho, _, hf⟩ := numOf_spec wf hn
  have hlen : lenOf spec it = o.len := by simp [lenOf, hf]
  exact sq_mem_seqInits wf _ ho (hlen ▸ hx)

theorem getIndexS_total {spec : Spec} (l : List (Nat × StrandObj)) (hl : ∀ q ∈ l, q ∈ enum spec.strands)
    {x : Nat} (hx : x < (l.map (fun q => q.2.len)).sum) :
    ∃ q ∈ l, ∃ y, y < q.2.len ∧ getIndexS (layStrand spec) l x = .ok (startS spec q.1 + y) := by
  induction l generalizing x with
  | nil => simp at hx
  | cons q l ih =>
    obtain ⟨k, o⟩ := q
    simp only [List.map_cons, List.sum_cons] at hx
    simp only [getIndexS]
    by_cases hge : x ≥ o.len
    · simp only [hge, if_true]
      obtain ⟨q', hq', y, hy, h⟩ := ih (fun q hq => hl q (List.mem_cons_of_mem _ hq)) (x := x - o.len) (by omega)
      exact ⟨q', List.mem_cons_of_mem _ hq', y, hy, h⟩
    · simp only [hge, if_false]
      have hxl : x < o.len := by omega
      exact ⟨(k, o), List.mem_cons_self, x, hxl,
        getIndexStrand_strand spec (mem_enum_lt (hl (k, o) List.mem_cons_self)) hxl⟩

theorem sqOf_total {spec : Spec} (wf : SpecWF spec) (e : Enc) {it : ItemRef}
    (hres : (spec.findSeq it.name).isSome = true) (x : Nat) :
    ∃ num, numOf spec it = some num ∧ sqOf spec e it x = .ok (e.sq num x) := by
  obtain ⟨num, hn⟩ := numOf_isSome wf hres
  exact ⟨num, hn, by simp [sqOf, hn]⟩

/-- the strand layout: `seeds` returns -/
theorem seeds_total_strand {spec : Spec} (wf : SpecWF spec) : ∃ s, seeds .strand spec = .ok s := by
  have hlay : layOf .strand spec = layStrand spec := rfl
  -- every group of links
  obtain ⟨be, hbe⟩ : ∃ be, bondEdges .strand spec (layStrand spec) = .ok be := by
    unfold bondEdges
    apply flatME_exists
    rintro ⟨j, so⟩ hjso
    apply mapME_exists
    rintro ⟨x, y⟩ hxy
    have hso : so ∈ spec.structs := (mem_enum hjso).1
    obtain ⟨hx, hy⟩ := wf.bondsLt so hso (x, y) hxy
    simp only at hx hy
    have hl : ∀ q ∈ structStrands spec so, q ∈ enum spec.strands := fun q hq => structStrands_mem wf hq
    have tot : ∀ z, z < so.len → ∃ a, getIndex .strand spec (layStrand spec) j so z = .ok a := by
      intro z hz
      obtain ⟨q, _, y', _, h⟩ := getIndexS_total _ hl (x := z) (by rw [← wf.structLen so hso]; exact hz)
      exact ⟨_, by unfold getIndex; simp only [hz, if_true]; exact h⟩
    obtain ⟨a, ha⟩ := tot x hx
    obtain ⟨b, hb⟩ := tot y hy
    exact ⟨(a, b), by simp [ha, hb]⟩
  obtain ⟨ee, hee⟩ : ∃ ee, equalEdges spec (encOf spec (layStrand spec)) = .ok ee := by
    unfold equalEdges
    apply flatME_exists
    intro its hits
    obtain ⟨hne, hlen⟩ := wf.equalLen its hits
    cases its with
    | nil => exact absurd rfl hne
    | cons first rest =>
      simp only
      apply flatME_exists
      intro it hit
      have hl := hlen it (List.mem_cons_of_mem _ hit) first List.mem_cons_self
      simp only [hl, bne_self_eq_false, Bool.false_eq_true, if_false]
      apply mapME_exists
      intro x _
      obtain ⟨na, _, ha⟩ := sqOf_total wf (encOf spec (layStrand spec)) (wf.equal _ hits first List.mem_cons_self) x
      obtain ⟨nb, _, hb⟩ := sqOf_total wf (encOf spec (layStrand spec)) (wf.equal _ hits it (List.mem_cons_of_mem _ hit)) x
      exact ⟨((encOf spec (layStrand spec)).sq na x, (encOf spec (layStrand spec)).sq nb x), by simp [ha, hb]⟩
  obtain ⟨se, hse⟩ : ∃ se, supEdges spec (encOf spec (layStrand spec)) = .ok se := by
    unfold supEdges
    apply flatME_exists
    rintro ⟨k, o⟩ hko
    apply flatME_exists
    rintro ⟨off, it⟩ hoff
    apply mapME_exists
    intro x _
    have hmem := mem_supSeqs (mem_enum hko).1
    obtain ⟨nb, _, hb⟩ := sqOf_total wf (encOf spec (layStrand spec))
      ((wf.sup o hmem.1 hmem.2).resolve it (withOffsets_mem _ _ _ hoff)) x
    exact ⟨((encOf spec (layStrand spec)).sq (2 * spec.baseSeqs.length + 2 * k) (off + x),
      (encOf spec (layStrand spec)).sq nb x), by simp [hb]⟩
  obtain ⟨te, hte⟩ : ∃ te, strandEdges spec (layStrand spec) (encOf spec (layStrand spec)) = .ok te := by
    unfold strandEdges
    apply flatME_exists
    rintro ⟨k, o⟩ hko
    apply flatME_exists
    rintro ⟨off, it⟩ hoff
    apply mapME_exists
    intro x hx
    have hmem : o ∈ spec.strands := (mem_enum hko).1
    have okI := wf.strand o hmem
    obtain ⟨_, hlt⟩ := items_index wf okI hoff (List.mem_range.1 hx)
    have hlen : off + x < o.len := by rw [← wf.strandLen o hmem]; exact hlt
    obtain ⟨nb, _, hb⟩ := sqOf_total wf (encOf spec (layStrand spec)) (okI.resolve it (withOffsets_mem _ _ _ hoff)) x
    exact ⟨(startS spec k + (off + x), (encOf spec (layStrand spec)).sq nb x),
      by simp only; rw [getIndexStrand_strand spec (mem_enum_lt hko) hlen, hb]⟩
  have hce : copyEdges .strand spec (layStrand spec) = .ok [] := rfl
  refine ⟨⟨(layStrand spec).total,
    (enum spec.strands).flatMap (fun (p : Nat × StrandObj) =>
      (List.range p.2.len).map (fun x => (startS spec p.1 + x, 'N'))) ++ seqInits spec (encOf spec (layStrand spec)),
    [] ++ ee ++ se ++ te, be ++ viewEdges spec (encOf spec (layStrand spec))⟩, ?_⟩
  unfold seeds
  simp only [hlay, layoutInits_strand spec, hce, hbe, hee, hse, hte]

/-! ### every link of the strand layout joins keys -/

theorem sqKey_obj {spec : Spec} (wf : SpecWF spec) {num x : Nat} {o : SeqObj} (ho : objOfNum spec num = some o)
    (hx : x < o.len) : (encOf spec (layStrand spec)).sq num x ∈ keysStrand spec :=
  List.mem_append_right _ (sq_mem_seqInits wf _ ho hx)

theorem edges_keys_strand {spec : Spec} (wf : SpecWF spec) {s : Seeds} (hs : seeds .strand spec = .ok s) :
    s.inits.map (·.1) = keysStrand spec ∧
    (∀ e ∈ s.eqE, e.1 ∈ keysStrand spec ∧ e.2 ∈ keysStrand spec) ∧
    (∀ e ∈ s.wcE, e.1 ∈ keysStrand spec ∧ e.2 ∈ keysStrand spec) := by
  obtain ⟨li, ce, be, ee, se, te, h1, h2, h3, h4, h5, h6, rfl⟩ := seeds_ok hs
  rw [layOf_strand] at h1 h2 h3 h4 h5 h6
  have hli := layoutInits_strand spec
  rw [h1] at hli
  have hli := Except.ok.inj hli
  have hce : ce = [] := by
    unfold copyEdges at h2
    simp only at h2
    exact (Except.ok.inj h2).symm
  refine ⟨?_, ?_, ?_⟩
  · simp only [List.map_append]
    unfold keysStrand
    rw [hli, posTabStrand_keys]
    rfl
  · intro e he
    simp only [List.mem_append] at he
    rcases he with ((he | he) | he) | he
    · rw [hce] at he; cases he
    · -- equal
      unfold equalEdges at h4
      obtain ⟨its, hits, cs, hcs, hecs⟩ := (flatME_mem h4 e).1 he
      cases its with
      | nil => simp at hcs
      | cons first rest =>
        simp only at hcs
        obtain ⟨it, hit, cs', hcs', hecs'⟩ := (flatME_mem hcs e).1 hecs
        by_cases hlen : (lenOf spec it != lenOf spec first) = true
        · simp [hlen] at hcs'
        · simp only [hlen, Bool.false_eq_true, if_false] at hcs'
          have hlen' : lenOf spec it = lenOf spec first := by simpa using hlen
          obtain ⟨x, hx, hxe⟩ := mapME_mem hcs' hecs'
          have hxl : x < lenOf spec it := List.mem_range.1 hx
          cases ha : sqOf spec (encOf spec (layStrand spec)) first x with
          | error er => simp [ha] at hxe
          | ok a =>
            cases hb : sqOf spec (encOf spec (layStrand spec)) it x with
            | error er => simp [ha, hb] at hxe
            | ok b =>
              simp only [ha, hb, Except.ok.injEq] at hxe
              subst hxe
              obtain ⟨na, hna, rfl⟩ := sqOf_ok ha
              obtain ⟨nb, hnb, rfl⟩ := sqOf_ok hb
              exact ⟨sqKey_strand wf hna (by omega), sqKey_strand wf hnb hxl⟩
    · -- sup
      unfold supEdges at h5
      obtain ⟨⟨k, o⟩, hko, cs, hcs, hecs⟩ := (flatME_mem h5 e).1 he
      obtain ⟨⟨off, it⟩, hoff, cs', hcs', hecs'⟩ := (flatME_mem hcs e).1 hecs
      obtain ⟨x, hx, hxe⟩ := mapME_mem hcs' hecs'
      simp only at hxe
      have hxl : x < lenOf spec it := List.mem_range.1 hx
      cases hb : sqOf spec (encOf spec (layStrand spec)) it x with
      | error er => simp [hb] at hxe
      | ok b =>
        simp only [hb, Except.ok.injEq] at hxe
        subst hxe
        obtain ⟨num, hn, rfl⟩ := sqOf_ok hb
        obtain ⟨ho1, _, _, _⟩ := objOfNum_sup hko
        have hmem := mem_supSeqs (mem_enum hko).1
        simp only at hmem
        have okI := wf.sup o hmem.1 hmem.2
        obtain ⟨_, hlt⟩ := items_index wf okI hoff hxl
        have hv : viewNucs o false = nucsOfBases o.bases := by simp [viewNucs, basesOfView]
        have hlen : off + x < o.len := by rw [← wf.seqLen o hmem.1, hv]; exact hlt
        exact ⟨sqKey_obj wf ho1 hlen, sqKey_strand wf hn hxl⟩
    · -- strand
      unfold strandEdges at h6
      obtain ⟨⟨k, o⟩, hko, cs, hcs, hecs⟩ := (flatME_mem h6 e).1 he
      obtain ⟨⟨off, it⟩, hoff, cs', hcs', hecs'⟩ := (flatME_mem hcs e).1 hecs
      obtain ⟨x, hx, hxe⟩ := mapME_mem hcs' hecs'
      simp only at hxe
      have hxl : x < lenOf spec it := List.mem_range.1 hx
      have hmem : o ∈ spec.strands := (mem_enum hko).1
      have okI := wf.strand o hmem
      obtain ⟨_, hlt⟩ := items_index wf okI hoff hxl
      have hlen : off + x < o.len := by rw [← wf.strandLen o hmem]; exact hlt
      rw [getIndexStrand_strand spec (mem_enum_lt hko) hlen] at hxe
      cases hb : sqOf spec (encOf spec (layStrand spec)) it x with
      | error er => simp [hb] at hxe
      | ok b =>
        simp only [hb, Except.ok.injEq] at hxe
        subst hxe
        obtain ⟨num, hn, rfl⟩ := sqOf_ok hb
        exact ⟨posKey_strand (q := (k, o)) hko hlen, sqKey_strand wf hn hxl⟩
  · intro e he
    simp only [List.mem_append] at he
    rcases he with he | he
    · -- bonds
      unfold bondEdges at h3
      obtain ⟨⟨j, so⟩, hjso, cs, hcs, hecs⟩ := (flatME_mem h3 e).1 he
      obtain ⟨⟨x, y⟩, hxy, hxe⟩ := mapME_mem hcs hecs
      simp only at hxe
      cases ha : getIndex .strand spec (layStrand spec) j so x with
      | error er => simp [ha] at hxe
      | ok a =>
        cases hb : getIndex .strand spec (layStrand spec) j so y with
        | error er => simp [ha, hb] at hxe
        | ok b =>
          simp only [ha, hb, Except.ok.injEq] at hxe
          subst hxe
          have hl : ∀ q ∈ structStrands spec so, q ∈ enum spec.strands := fun q hq => structStrands_mem wf hq
          have hlen : ∀ q ∈ structStrands spec so, (nucsOfBases q.2.bases).length = q.2.len :=
            fun q hq => wf.strandLen q.2 (mem_enum (hl q hq)).1
          have unf : ∀ z c, getIndex .strand spec (layStrand spec) j so z = .ok c →
              getIndexS (layStrand spec) (structStrands spec so) z = .ok c := by
            intro z c hz
            unfold getIndex at hz
            split at hz
            · exact hz
            · cases hz
          obtain ⟨q1, hq1, y1, hy1, rfl, _⟩ := getIndexS_spec _ hl hlen (unf x a ha)
          obtain ⟨q2, hq2, y2, hy2, rfl, _⟩ := getIndexS_spec _ hl hlen (unf y b hb)
          exact ⟨posKey_strand (hl q1 hq1) hy1, posKey_strand (hl q2 hq2) hy2⟩
    · -- views
      unfold viewEdges at he
      rcases List.mem_append.1 he with he | he
      · obtain ⟨⟨k, o⟩, hko, he⟩ := List.mem_flatMap.1 he
        obtain ⟨x, hx, rfl⟩ := List.mem_map.1 he
        obtain ⟨h0, h1', _, _⟩ := objOfNum_base hko
        have hxl := List.mem_range.1 hx
        exact ⟨sqKey_obj wf h1' hxl, sqKey_obj wf h0 (by omega)⟩
      · obtain ⟨⟨k, o⟩, hko, he⟩ := List.mem_flatMap.1 he
        obtain ⟨x, hx, rfl⟩ := List.mem_map.1 he
        obtain ⟨h0, h1', _, _⟩ := objOfNum_sup hko
        have hxl := List.mem_range.1 hx
        exact ⟨sqKey_obj wf h1' hxl, sqKey_obj wf h0 (by omega)⟩

/-! ### the keys of the strand layout are strictly increasing, hence distinct -/

theorem enum_pairwise {α : Type} (l : List α) : List.Pairwise (fun (a b : Nat × α) => a.1 < b.1) (enum l) := by
  unfold enum
  rw [List.pairwise_iff_getElem]
  intro i j hi hj hij
  rw [List.getElem_zip, List.getElem_zip]
  simpa using hij

theorem sum_take_mono {α : Type} (f : α → Nat) (l : List α) {k1 k2 : Nat} {a : α} (h : l[k1]? = some a)
    (hk : k1 < k2) : ((l.take k1).map f).sum + f a ≤ ((l.take k2).map f).sum := by
  induction l generalizing k1 k2 with
  | nil => simp at h
  | cons b l ih =>
    cases k2 with
    | zero => omega
    | succ k2 =>
      cases k1 with
      | zero =>
        simp only [List.getElem?_cons_zero, Option.some.injEq] at h
        subst h
        simp
      | succ k1 =>
        simp only [List.getElem?_cons_succ] at h
        have := ih h (by omega : k1 < k2)
        simp only [List.take_succ_cons, List.map_cons, List.sum_cons]
        omega

theorem range_map_pairwise (s len : Nat) : List.Pairwise (· < ·) ((List.range len).map (fun x => s + x)) := by
  rw [List.pairwise_map]
  exact List.Pairwise.imp (fun h => by omega) List.pairwise_lt_range

theorem posKeys_sorted (spec : Spec) : List.Pairwise (· < ·) ((posTabStrand spec).map (·.1)) := by
  rw [posTabStrand_keys, List.map_flatMap, List.pairwise_flatMap]
  constructor
  · intro q _
    simp only [List.map_map, Function.comp_def]
    exact range_map_pairwise _ _
  · refine List.Pairwise.imp_of_mem ?_ (enum_pairwise spec.strands)
    intro a b ha hb hab x hx y hy
    simp only [List.map_map, Function.comp_def, List.mem_map, List.mem_range] at hx hy
    obtain ⟨x', hx', rfl⟩ := hx
    obtain ⟨y', hy', rfl⟩ := hy
    rw [startS_closed spec (mem_enum_lt ha), startS_closed spec (mem_enum_lt hb)]
    have := sum_take_mono (fun (o : StrandObj) => o.len + Generated.strandGap) spec.strands (enum_getElem? ha) hab
    omega

theorem posKeys_lt_P (spec : Spec) : ∀ y ∈ (posTabStrand spec).map (·.1), y < (layStrand spec).total := by
  intro y hy
  rw [posTabStrand_keys] at hy
  obtain ⟨p, hp, rfl⟩ := List.mem_map.1 hy
  obtain ⟨q, hq, hp⟩ := List.mem_flatMap.1 hp
  obtain ⟨x, hx, rfl⟩ := List.mem_map.1 hp
  have := layStrandAux_total spec.strands 0 q.1 q.2 (enum_getElem? hq)
  rw [startS_closed spec (mem_enum_lt hq)]
  have hx' := List.mem_range.1 hx
  show _ < (layStrandAux spec.strands 0).2
  simp only
  omega

/-- keys of one object: the forward view then the complement view -/
theorem objKeys_sorted (e : Enc) (n0 len : Nat) (tl : List Char) (htl : tl.length = len) (hM : len < e.M) :
    List.Pairwise (· < ·) (((enum tl).map (fun (p : Nat × Char) => (e.sq n0 p.1, p.2)) ++
        (List.range len).map (fun x => (e.sq (n0 + 1) x, 'N'))).map (·.1)) ∧
    ∀ y ∈ (((enum tl).map (fun (p : Nat × Char) => (e.sq n0 p.1, p.2)) ++
        (List.range len).map (fun x => (e.sq (n0 + 1) x, 'N'))).map (·.1)),
      e.P + n0 * e.M ≤ y ∧ y < e.P + (n0 + 2) * e.M := by
  simp only [List.map_append, List.map_map, Function.comp_def]
  constructor
  · rw [List.pairwise_append]
    refine ⟨?_, ?_, ?_⟩
    · rw [List.pairwise_map]
      exact List.Pairwise.imp (fun h => by unfold Enc.sq; omega) (enum_pairwise tl)
    · rw [List.pairwise_map]
      exact List.Pairwise.imp (fun h => by unfold Enc.sq; omega) List.pairwise_lt_range
    · intro a ha b hb
      obtain ⟨p, hp, rfl⟩ := List.mem_map.1 ha
      obtain ⟨x, hx, rfl⟩ := List.mem_map.1 hb
      have hp1 : p.1 < len := by rw [← htl]; exact mem_enum_lt hp
      unfold Enc.sq
      have : (n0 + 1) * e.M = n0 * e.M + e.M := by rw [Nat.add_mul]; simp
      omega
  · intro y hy
    rcases List.mem_append.1 hy with hy | hy
    · obtain ⟨p, hp, rfl⟩ := List.mem_map.1 hy
      have hp1 : p.1 < len := by rw [← htl]; exact mem_enum_lt hp
      unfold Enc.sq
      have : (n0 + 2) * e.M = n0 * e.M + 2 * e.M := by rw [Nat.add_mul]
      omega
    · obtain ⟨x, hx, rfl⟩ := List.mem_map.1 hy
      have hx' := List.mem_range.1 hx
      unfold Enc.sq
      have h1 : (n0 + 1) * e.M = n0 * e.M + e.M := by rw [Nat.add_mul]; simp
      have h2 : (n0 + 2) * e.M = n0 * e.M + 2 * e.M := by rw [Nat.add_mul]
      omega

/-- keys of a super-sequence: the forward view then the complement view -/
theorem supKeys_sorted (e : Enc) (n0 len : Nat) (hM : len < e.M) :
    List.Pairwise (· < ·) (((List.range len).map (fun x => (e.sq n0 x, 'N')) ++
        (List.range len).map (fun x => (e.sq (n0 + 1) x, 'N'))).map (·.1)) ∧
    ∀ y ∈ (((List.range len).map (fun x => (e.sq n0 x, 'N')) ++
        (List.range len).map (fun x => (e.sq (n0 + 1) x, 'N'))).map (·.1)),
      e.P + n0 * e.M ≤ y ∧ y < e.P + (n0 + 2) * e.M := by
  simp only [List.map_append, List.map_map, Function.comp_def]
  have h1 : (n0 + 1) * e.M = n0 * e.M + e.M := by rw [Nat.add_mul]; simp
  have h2 : (n0 + 2) * e.M = n0 * e.M + 2 * e.M := by rw [Nat.add_mul]
  constructor
  · rw [List.pairwise_append]
    refine ⟨?_, ?_, ?_⟩
    · rw [List.pairwise_map]
      exact List.Pairwise.imp (fun h => by unfold Enc.sq; omega) List.pairwise_lt_range
    · rw [List.pairwise_map]
      exact List.Pairwise.imp (fun h => by unfold Enc.sq; omega) List.pairwise_lt_range
    · intro a ha b hb
      obtain ⟨x, hx, rfl⟩ := List.mem_map.1 ha
      obtain ⟨x', hx', rfl⟩ := List.mem_map.1 hb
      have := List.mem_range.1 hx
      unfold Enc.sq
      omega
  · intro y hy
    rcases List.mem_append.1 hy with hy | hy
    · obtain ⟨x, hx, rfl⟩ := List.mem_map.1 hy
      have := List.mem_range.1 hx
      unfold Enc.sq; omega
    · obtain ⟨x, hx, rfl⟩ := List.mem_map.1 hy
      have := List.mem_range.1 hx
      unfold Enc.sq; omega

theorem seqKeys_sorted {spec : Spec} (wf : SpecWF spec) (lay : Lay) :
    List.Pairwise (· < ·) ((seqInits spec (encOf spec lay)).map (·.1)) ∧
    ∀ y ∈ (seqInits spec (encOf spec lay)).map (·.1), (encOf spec lay).P ≤ y := by
  have hMpos : ∀ o ∈ spec.seqs, o.len < (encOf spec lay).M := fun o ho => len_lt_M ho lay
  refine ⟨?_, fun y hy => mem_seqInits_ge wf _ hy⟩
  unfold seqInits
  rw [List.map_append, List.pairwise_append]
  refine ⟨?_, ?_, ?_⟩
  · rw [List.map_flatMap, List.pairwise_flatMap]
    constructor
    · rintro ⟨k, o⟩ hko
      have hm := mem_baseSeqs (mem_enum hko).1
      exact (objKeys_sorted _ (2 * k) o.len o.template (wf.base o hm.1 hm.2).1 (hMpos o hm.1)).1
    · refine List.Pairwise.imp_of_mem ?_ (enum_pairwise spec.baseSeqs)
      rintro ⟨k1, o1⟩ ⟨k2, o2⟩ ha hb hab x hx y hy
      have hm1 := mem_baseSeqs (mem_enum ha).1
      have hm2 := mem_baseSeqs (mem_enum hb).1
      have b1 := (objKeys_sorted _ (2 * k1) o1.len o1.template (wf.base o1 hm1.1 hm1.2).1 (hMpos o1 hm1.1)).2 x hx
      have b2 := (objKeys_sorted _ (2 * k2) o2.len o2.template (wf.base o2 hm2.1 hm2.2).1 (hMpos o2 hm2.1)).2 y hy
      simp only at hab
      have : (2 * k1 + 2) * (encOf spec lay).M ≤ 2 * k2 * (encOf spec lay).M :=
        Nat.mul_le_mul_right _ (by omega)
      omega
  · rw [List.map_flatMap, List.pairwise_flatMap]
    constructor
    · rintro ⟨k, o⟩ hko
      have hm := mem_supSeqs (mem_enum hko).1
      exact (supKeys_sorted _ (2 * spec.baseSeqs.length + 2 * k) o.len (hMpos o hm.1)).1
    · refine List.Pairwise.imp_of_mem ?_ (enum_pairwise spec.supSeqs)
      rintro ⟨k1, o1⟩ ⟨k2, o2⟩ ha hb hab x hx y hy
      have hm1 := mem_supSeqs (mem_enum ha).1
      have hm2 := mem_supSeqs (mem_enum hb).1
      have b1 := (supKeys_sorted _ (2 * spec.baseSeqs.length + 2 * k1) o1.len (hMpos o1 hm1.1)).2 x hx
      have b2 := (supKeys_sorted _ (2 * spec.baseSeqs.length + 2 * k2) o2.len (hMpos o2 hm2.1)).2 y hy
      simp only at hab
      have : (2 * spec.baseSeqs.length + 2 * k1 + 2) * (encOf spec lay).M ≤
          (2 * spec.baseSeqs.length + 2 * k2) * (encOf spec lay).M := Nat.mul_le_mul_right _ (by omega)
      omega
  · intro a ha b hb
    rw [List.map_flatMap, List.mem_flatMap] at ha hb
    obtain ⟨⟨k1, o1⟩, hk1, ha⟩ := ha
    obtain ⟨⟨k2, o2⟩, hk2, hb⟩ := hb
    have hm1 := mem_baseSeqs (mem_enum hk1).1
    have hm2 := mem_supSeqs (mem_enum hk2).1
    have b1 := (objKeys_sorted _ (2 * k1) o1.len o1.template (wf.base o1 hm1.1 hm1.2).1 (hMpos o1 hm1.1)).2 a ha
    have b2 := (supKeys_sorted _ (2 * spec.baseSeqs.length + 2 * k2) o2.len (hMpos o2 hm2.1)).2 b hb
    have hk1l : k1 < spec.baseSeqs.length := mem_enum_lt hk1
    have : (2 * k1 + 2) * (encOf spec lay).M ≤ (2 * spec.baseSeqs.length + 2 * k2) * (encOf spec lay).M :=
      Nat.mul_le_mul_right _ (by omega)
    omega

/-- **the keys of the strand layout are distinct** -/
theorem keysStrand_nodup {spec : Spec} (wf : SpecWF spec) : (keysStrand spec).Nodup := by
  have : List.Pairwise (· < ·) (keysStrand spec) := by
    unfold keysStrand
    rw [List.pairwise_append]
    refine ⟨posKeys_sorted spec, (seqKeys_sorted wf _).1, ?_⟩
    intro a ha b hb
    have h1 := posKeys_lt_P spec a ha
    have h2 := (seqKeys_sorted wf _).2 b hb
    simp only [encOf] at h2
    omega
  exact List.Pairwise.imp (fun h => Nat.ne_of_lt h) this

/-- **The strand layout never raises during the seeding**: for every well-formed specification both `seeds` and
    `build` return. -/
theorem seeding_total_strand {spec : Spec} (wf : SpecWF spec) :
    ∃ s c, seeds .strand spec = .ok s ∧ build s = .ok c := by
  obtain ⟨s, hs⟩ := seeds_total_strand wf
  obtain ⟨hk, hE, hW⟩ := edges_keys_strand wf hs
  obtain ⟨c, hc⟩ := build_total s (hk ▸ keysStrand_nodup wf) (fun e he => hk ▸ hE e he) (fun e he => hk ▸ hW e he)
  exact ⟨s, c, hs, hc⟩

end Pepper.ConstraintGen
