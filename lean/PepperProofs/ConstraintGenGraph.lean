import PepperProofs.ConstraintGen
/-!
# Graph-level correctness of `propagate_templates`, `get_reps`, `dump`

For any seeded `Cons` that satisfies the precondition of `propagate_constraints` (`Cons.WF`): the part of
`get_constraints` after the seeding (`finish`) fails with `overconstrained` exactly when some item is linked
to itself with odd parity or some class has no common base; otherwise it returns, for every position, the
lowest position of its class, the lowest position of the partner class, and the code of the intersection of
the class's templates.  Built on `propagate_exact` (C07).
-/
namespace Pepper.ConstraintGen
open Pepper Pepper.Closure Pepper.LinkSpec

/-! ## `Tab` behaves like a finite map -/

theorem Tab.get_set {α} (t : Tab α) (k j : Nat) (v : α) :
    (t.set k v).get j = if j = k then some v else t.get j := by
  unfold Tab.get
  by_cases h : k < t.size
  · simp only [Tab.set, h, if_true]
    rw [Array.getElem?_setIfInBounds]
    by_cases hjk : j = k
    · subst hjk; simp [h]
    · have : ¬ k = j := fun e => hjk e.symm
      simp [hjk, this]
  · simp only [Tab.set, h, if_false]
    rw [Array.getElem?_push]
    simp only [Array.size_append, Array.size_replicate]
    have hs : t.size + (k - t.size) = k := by omega
    rw [hs]
    by_cases hjk : j = k
    · simp [hjk]
    · simp only [hjk, if_false]
      rw [Array.getElem?_append]
      by_cases h2 : j < t.size
      · simp [h2]
      · have h3 : t[j]? = none := by simp; omega
        simp only [h2, if_false, h3, Array.getElem?_replicate]
        by_cases h4 : j - t.size < k - t.size <;> simp [h4]

theorem Tab.get_empty {α} (k : Nat) : (Tab.empty : Tab α).get k = none := by
  simp [Tab.get, Tab.empty]

theorem Tab.has_set {α} (t : Tab α) (k j : Nat) (v : α) :
    (t.set k v).has j = (decide (j = k) || t.has j) := by
  unfold Tab.has
  rw [Tab.get_set]
  by_cases h : j = k <;> simp [h]

/-! ## base sets as 4-bit masks -/

/-- the mask contains the base -/
def hasB (m : Nat) (b : Base) : Prop := m &&& b.bit ≠ 0

instance (m : Nat) (b : Base) : Decidable (hasB m b) := by unfold hasB; infer_instance

theorem hasB_and {m n : Nat} (hm : m < 16) (hn : n < 16) (b : Base) :
    hasB (m &&& n) b ↔ hasB m b ∧ hasB n b := by
  unfold hasB
  cases b
  · exact (by decide : ∀ m n : Fin 16, (m.val &&& n.val) &&& Base.A.bit ≠ 0 ↔ m.val &&& Base.A.bit ≠ 0 ∧ n.val &&& Base.A.bit ≠ 0) ⟨m, hm⟩ ⟨n, hn⟩
  · exact (by decide : ∀ m n : Fin 16, (m.val &&& n.val) &&& Base.C.bit ≠ 0 ↔ m.val &&& Base.C.bit ≠ 0 ∧ n.val &&& Base.C.bit ≠ 0) ⟨m, hm⟩ ⟨n, hn⟩
  · exact (by decide : ∀ m n : Fin 16, (m.val &&& n.val) &&& Base.G.bit ≠ 0 ↔ m.val &&& Base.G.bit ≠ 0 ∧ n.val &&& Base.G.bit ≠ 0) ⟨m, hm⟩ ⟨n, hn⟩
  · exact (by decide : ∀ m n : Fin 16, (m.val &&& n.val) &&& Base.T.bit ≠ 0 ↔ m.val &&& Base.T.bit ≠ 0 ∧ n.val &&& Base.T.bit ≠ 0) ⟨m, hm⟩ ⟨n, hn⟩

theorem hasB_compl {m : Nat} (hm : m < 16) (b : Base) : hasB (complMask m) b ↔ hasB m b.compl := by
  unfold hasB
  cases b
  · exact (by decide : ∀ m : Fin 16, complMask m.val &&& Base.A.bit ≠ 0 ↔ m.val &&& Base.A.compl.bit ≠ 0) ⟨m, hm⟩
  · exact (by decide : ∀ m : Fin 16, complMask m.val &&& Base.C.bit ≠ 0 ↔ m.val &&& Base.C.compl.bit ≠ 0) ⟨m, hm⟩
  · exact (by decide : ∀ m : Fin 16, complMask m.val &&& Base.G.bit ≠ 0 ↔ m.val &&& Base.G.compl.bit ≠ 0) ⟨m, hm⟩
  · exact (by decide : ∀ m : Fin 16, complMask m.val &&& Base.T.bit ≠ 0 ↔ m.val &&& Base.T.compl.bit ≠ 0) ⟨m, hm⟩

theorem mask_ne_zero_iff {m : Nat} (hm : m < 16) : m ≠ 0 ↔ ∃ b : Base, hasB m b := by
  constructor
  · intro h
    have := (by decide : ∀ m : Fin 16, m.val ≠ 0 →
      (m.val &&& Base.A.bit ≠ 0 ∨ m.val &&& Base.C.bit ≠ 0 ∨ m.val &&& Base.G.bit ≠ 0 ∨ m.val &&& Base.T.bit ≠ 0)) ⟨m, hm⟩ h
    rcases this with h | h | h | h
    · exact ⟨.A, h⟩
    · exact ⟨.C, h⟩
    · exact ⟨.G, h⟩
    · exact ⟨.T, h⟩
  · rintro ⟨b, hb⟩ h0
    subst h0
    exact hb (by simp)

theorem hasB_15 (b : Base) : hasB 15 b := by cases b <;> decide

theorem and_lt16 {m : Nat} (n : Nat) (hm : m < 16) : m &&& n < 16 := Nat.lt_of_le_of_lt Nat.and_le_left hm

theorem complMask_lt16 (m : Nat) : complMask m < 16 := by
  unfold complMask
  split <;> split <;> split <;> split <;> decide

theorem hasB_flip {m : Nat} (hm : m < 16) (b : Base) (p : Bool) :
    hasB (if p then complMask m else m) b ↔ hasB m (flipB b p) := by
  cases p
  · simp [flipB]
  · simp only [if_true, flipB]; exact hasB_compl hm b

/-! ## `min_([y for y in l if isvalid(y)])` -/

/-- `o` is the least element of `S` below `P`, or `none` if there is none -/
def IsMin (P : Nat) (S : Nat → Prop) (o : Option Nat) : Prop :=
  match o with
  | some m => S m ∧ m < P ∧ ∀ y, S y → y < P → m ≤ y
  | none => ∀ y, S y → ¬ y < P

theorem IsMin.unique {P : Nat} {S : Nat → Prop} {o o' : Option Nat} (h : IsMin P S o) (h' : IsMin P S o') :
    o = o' := by
  cases o <;> cases o'
  · rfl
  · exact absurd h'.2.1 (h _ h'.1)
  · exact absurd h.2.1 (h' _ h.1)
  · rename_i a b
    have h1 := h.2.2 b h'.1 h'.2.1
    have h2 := h'.2.2 a h.1 h.2.1
    simp only [Option.some.injEq]; omega

theorem IsMin.congr {P : Nat} {S S' : Nat → Prop} {o : Option Nat} (hs : ∀ y, S y ↔ S' y)
    (h : IsMin P S o) : IsMin P S' o := by
  cases o
  · intro y hy; exact h y ((hs y).2 hy)
  · exact ⟨(hs _).1 h.1, h.2.1, fun y hy => h.2.2 y ((hs y).2 hy)⟩

def mvStep (P : Nat) (m : Option Nat) (y : Nat) : Option Nat :=
  if y < P then (match m with | none => some y | some v => some (min v y)) else m

theorem mvStep_spec (P : Nat) (S0 : Nat → Prop) (acc : Option Nat) (a : Nat) (hacc : IsMin P S0 acc) :
    IsMin P (fun y => S0 y ∨ y = a) (mvStep P acc a) := by
  unfold mvStep
  by_cases ha : a < P
  · simp only [ha, if_true]
    cases acc with
    | none =>
      refine ⟨Or.inr rfl, ha, fun y hy hyP => ?_⟩
      rcases hy with hy | hy
      · exact absurd hyP (hacc y hy)
      · omega
    | some v =>
      obtain ⟨h1, h2, h3⟩ := hacc
      refine ⟨?_, ?_, fun y hy hyP => ?_⟩
      · by_cases hva : v ≤ a
        · show S0 (min v a) ∨ min v a = a
          rw [Nat.min_eq_left hva]; exact Or.inl h1
        · show S0 (min v a) ∨ min v a = a
          rw [Nat.min_eq_right (by omega)]; exact Or.inr rfl
      · show min v a < P
        omega
      · show min v a ≤ y
        rcases hy with hy | hy
        · have := h3 y hy hyP; omega
        · subst hy; exact Nat.min_le_right _ _
  · simp only [ha, if_false]
    cases acc with
    | none =>
      intro y hy
      rcases hy with hy | hy
      · exact hacc y hy
      · subst hy; exact ha
    | some v =>
      obtain ⟨h1, h2, h3⟩ := hacc
      refine ⟨Or.inl h1, h2, fun y hy hyP => ?_⟩
      rcases hy with hy | hy
      · exact h3 y hy hyP
      · subst hy; exact absurd hyP ha

theorem minValid_foldl (P : Nat) (l : List Nat) (acc : Option Nat) (S0 : Nat → Prop)
    (hacc : IsMin P S0 acc) :
    IsMin P (fun y => S0 y ∨ y ∈ l) (l.foldl (mvStep P) acc) := by
  induction l generalizing acc S0 with
  | nil => simpa using hacc
  | cons a l ih =>
    simp only [List.foldl_cons]
    have := ih _ _ (mvStep_spec P S0 acc a hacc)
    refine IsMin.congr (fun y => ?_) this
    simp only [List.mem_cons]
    constructor
    · rintro ((h | h) | h)
      · exact Or.inl h
      · exact Or.inr (Or.inl h)
      · exact Or.inr (Or.inr h)
    · rintro (h | h | h)
      · exact Or.inl (Or.inl h)
      · exact Or.inl (Or.inr h)
      · exact Or.inr h

theorem minValid_eq (P : Nat) (l : List Nat) : minValid P l = l.foldl (mvStep P) none := rfl

theorem minValid_spec (P : Nat) (l : List Nat) : IsMin P (· ∈ l) (minValid P l) := by
  rw [minValid_eq]
  have := minValid_foldl P l none (fun _ => False) (by intro y hy; exact hy.elim)
  exact IsMin.congr (fun y => by simp) this

end Pepper.ConstraintGen
