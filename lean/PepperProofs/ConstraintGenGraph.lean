import PepperProofs.ConstraintGen
/-!
# Graph-level correctness of `propagate_templates`, `get_reps`, `dump`

For any seeded `Cons` that satisfies the precondition of `propagate_constraints` (`Cons.WF`): the part of
`get_constraints` after the seeding (`finish`) fails with `overconstrained` exactly when some item is linked
to itself with odd parity or some class has no common base; otherwise it returns, for every position, the
lowest position of its class, the lowest position of the partner class, and the code of the intersection of
the class's templates.  Built on `propagate_exact` (C07).
-/
namespace Pepper.ConstraintGen
open Pepper Pepper.Closure Pepper.LinkSpec

/-! ## `Tab` behaves like a finite map -/

theorem Tab.get_set {α} (t : Tab α) (k j : Nat) (v : α) :
    (t.set k v).get j = if j = k then some v else t.get j := by
  unfold Tab.get
  by_cases h : k < t.size
  · simp only [Tab.set, h, if_true]
    rw [Array.getElem?_setIfInBounds]
    by_cases hjk : j = k
    · subst hjk; simp [h]
    · have : ¬ k = j := fun e => hjk e.symm
      simp [hjk, this]
  · simp only [Tab.set, h, if_false]
    rw [Array.getElem?_push]
    simp only [Array.size_append, Array.size_replicate]
    have hs : t.size + (k - t.size) = k := by omega
    rw [hs]
    by_cases hjk : j = k
    · simp [hjk]
    · simp only [hjk, if_false]
      rw [Array.getElem?_append]
      by_cases h2 : j < t.size
      · simp [h2]
      · have h3 : t[j]? = none := by simp; omega
        simp only [h2, if_false, h3, Array.getElem?_replicate]
        by_cases h4 : j - t.size < k - t.size <;> simp [h4]

theorem Tab.get_empty {α} (k : Nat) : (Tab.empty : Tab α).get k = none := by
  simp [Tab.get, Tab.empty]

theorem Tab.has_set {α} (t : Tab α) (k j : Nat) (v : α) :
    (t.set k v).has j = (decide (j = k) || t.has j) := by
  unfold Tab.has
  rw [Tab.get_set]
  by_cases h : j = k <;> simp [h]

/-! ## base sets as 4-bit masks -/

/-- the mask contains the base -/
def hasB (m : Nat) (b : Base) : Prop := m &&& b.bit ≠ 0

instance (m : Nat) (b : Base) : Decidable (hasB m b) := by unfold hasB; infer_instance

theorem hasB_and {m n : Nat} (hm : m < 16) (hn : n < 16) (b : Base) :
    hasB (m &&& n) b ↔ hasB m b ∧ hasB n b := by
  unfold hasB
  cases b
  · exact (by decide : ∀ m n : Fin 16, (m.val &&& n.val) &&& Base.A.bit ≠ 0 ↔ m.val &&& Base.A.bit ≠ 0 ∧ n.val &&& Base.A.bit ≠ 0) ⟨m, hm⟩ ⟨n, hn⟩
  · exact (by decide : ∀ m n : Fin 16, (m.val &&& n.val) &&& Base.C.bit ≠ 0 ↔ m.val &&& Base.C.bit ≠ 0 ∧ n.val &&& Base.C.bit ≠ 0) ⟨m, hm⟩ ⟨n, hn⟩
  · exact (by decide : ∀ m n : Fin 16, (m.val &&& n.val) &&& Base.G.bit ≠ 0 ↔ m.val &&& Base.G.bit ≠ 0 ∧ n.val &&& Base.G.bit ≠ 0) ⟨m, hm⟩ ⟨n, hn⟩
  · exact (by decide : ∀ m n : Fin 16, (m.val &&& n.val) &&& Base.T.bit ≠ 0 ↔ m.val &&& Base.T.bit ≠ 0 ∧ n.val &&& Base.T.bit ≠ 0) ⟨m, hm⟩ ⟨n, hn⟩

theorem hasB_compl {m : Nat} (hm : m < 16) (b : Base) : hasB (complMask m) b ↔ hasB m b.compl := by
  unfold hasB
  cases b
  · exact (by decide : ∀ m : Fin 16, complMask m.val &&& Base.A.bit ≠ 0 ↔ m.val &&& Base.A.compl.bit ≠ 0) ⟨m, hm⟩
  · exact (by decide : ∀ m : Fin 16, complMask m.val &&& Base.C.bit ≠ 0 ↔ m.val &&& Base.C.compl.bit ≠ 0) ⟨m, hm⟩
  · exact (by decide : ∀ m : Fin 16, complMask m.val &&& Base.G.bit ≠ 0 ↔ m.val &&& Base.G.compl.bit ≠ 0) ⟨m, hm⟩
  · exact (by decide : ∀ m : Fin 16, complMask m.val &&& Base.T.bit ≠ 0 ↔ m.val &&& Base.T.compl.bit ≠ 0) ⟨m, hm⟩

theorem mask_ne_zero_iff {m : Nat} (hm : m < 16) : m ≠ 0 ↔ ∃ b : Base, hasB m b := by
  constructor
  · intro h
    have := (by decide : ∀ m : Fin 16, m.val ≠ 0 →
      (m.val &&& Base.A.bit ≠ 0 ∨ m.val &&& Base.C.bit ≠ 0 ∨ m.val &&& Base.G.bit ≠ 0 ∨ m.val &&& Base.T.bit ≠ 0)) ⟨m, hm⟩ h
    rcases this with h | h | h | h
    · exact ⟨.A, h⟩
    · exact ⟨.C, h⟩
    · exact ⟨.G, h⟩
    · exact ⟨.T, h⟩
  · rintro ⟨b, hb⟩ h0
    subst h0
    exact hb (by simp)

theorem hasB_15 (b : Base) : hasB 15 b := by cases b <;> decide

theorem and_lt16 {m : Nat} (n : Nat) (hm : m < 16) : m &&& n < 16 := Nat.lt_of_le_of_lt Nat.and_le_left hm

theorem complMask_lt16 (m : Nat) : complMask m < 16 := by
  unfold complMask
  split <;> split <;> split <;> split <;> decide

theorem hasB_flip {m : Nat} (hm : m < 16) (b : Base) (p : Bool) :
    hasB (if p then complMask m else m) b ↔ hasB m (flipB b p) := by
  cases p
  · simp [flipB]
  · simp only [if_true, flipB]; exact hasB_compl hm b

/-! ## `min_([y for y in l if isvalid(y)])` -/

/-- `o` is the least element of `S` below `P`, or `none` if there is none -/
def IsMin (P : Nat) (S : Nat → Prop) (o : Option Nat) : Prop :=
  match o with
  | some m => S m ∧ m < P ∧ ∀ y, S y → y < P → m ≤ y
  | none => ∀ y, S y → ¬ y < P

theorem IsMin.unique {P : Nat} {S : Nat → Prop} {o o' : Option Nat} (h : IsMin P S o) (h' : IsMin P S o') :
    o = o' := by
  cases o <;> cases o'
  · rfl
  · exact absurd h'.2.1 (h _ h'.1)
  · exact absurd h.2.1 (h' _ h.1)
  · rename_i a b
    have h1 := h.2.2 b h'.1 h'.2.1
    have h2 := h'.2.2 a h.1 h.2.1
    simp only [Option.some.injEq]; omega

theorem IsMin.congr {P : Nat} {S S' : Nat → Prop} {o : Option Nat} (hs : ∀ y, S y ↔ S' y)
    (h : IsMin P S o) : IsMin P S' o := by
  cases o
  · intro y hy; exact h y ((hs y).2 hy)
  · exact ⟨(hs _).1 h.1, h.2.1, fun y hy => h.2.2 y ((hs y).2 hy)⟩

def mvStep (P : Nat) (m : Option Nat) (y : Nat) : Option Nat :=
  if y < P then (match m with | none => some y | some v => some (min v y)) else m

theorem mvStep_spec (P : Nat) (S0 : Nat → Prop) (acc : Option Nat) (a : Nat) (hacc : IsMin P S0 acc) :
    IsMin P (fun y => S0 y ∨ y = a) (mvStep P acc a) := by
  unfold mvStep
  by_cases ha : a < P
  · simp only [ha, if_true]
    cases acc with
    | none =>
      refine ⟨Or.inr rfl, ha, fun y hy hyP => ?_⟩
      rcases hy with hy | hy
      · exact absurd hyP (hacc y hy)
      · omega
    | some v =>
      obtain ⟨h1, h2, h3⟩ := hacc
      refine ⟨?_, ?_, fun y hy hyP => ?_⟩
      · by_cases hva : v ≤ a
        · show S0 (min v a) ∨ min v a = a
          rw [Nat.min_eq_left hva]; exact Or.inl h1
        · show S0 (min v a) ∨ min v a = a
          rw [Nat.min_eq_right (by omega)]; exact Or.inr rfl
      · show min v a < P
        omega
      · show min v a ≤ y
        rcases hy with hy | hy
        · have := h3 y hy hyP; omega
        · subst hy; exact Nat.min_le_right _ _
  · simp only [ha, if_false]
    cases acc with
    | none =>
      intro y hy
      rcases hy with hy | hy
      · exact hacc y hy
      · subst hy; exact ha
    | some v =>
      obtain ⟨h1, h2, h3⟩ := hacc
      refine ⟨Or.inl h1, h2, fun y hy hyP => ?_⟩
      rcases hy with hy | hy
      · exact h3 y hy hyP
      · subst hy; exact absurd hyP ha

theorem minValid_foldl (P : Nat) (l : List Nat) (acc : Option Nat) (S0 : Nat → Prop)
    (hacc : IsMin P S0 acc) :
    IsMin P (fun y => S0 y ∨ y ∈ l) (l.foldl (mvStep P) acc) := by
  induction l generalizing acc S0 with
  | nil => simpa using hacc
  | cons a l ih =>
    simp only [List.foldl_cons]
    have := ih _ _ (mvStep_spec P S0 acc a hacc)
    refine IsMin.congr (fun y => ?_) this
    simp only [List.mem_cons]
    constructor
    · rintro ((h | h) | h)
      · exact Or.inl h
      · exact Or.inr (Or.inl h)
      · exact Or.inr (Or.inr h)
    · rintro (h | h | h)
      · exact Or.inl (Or.inl h)
      · exact Or.inl (Or.inr h)
      · exact Or.inr h

theorem minValid_eq (P : Nat) (l : List Nat) : minValid P l = l.foldl (mvStep P) none := rfl

theorem minValid_spec (P : Nat) (l : List Nat) : IsMin P (· ∈ l) (minValid P l) := by
  rw [minValid_eq]
  have := minValid_foldl P l none (fun _ => False) (by intro y hy; exact hy.elim)
  exact IsMin.congr (fun y => by simp) this

/-! ## `propagate_templates` -/

def stMask (tbl : CodeTable) (st : Tab Char) (y : Nat) : Nat :=
  match st.get y with
  | some c => tbl.maskC c
  | none => 0

theorem maskC_lt16 (tbl : CodeTable) (c : Char) : tbl.maskC c < 16 := by
  unfold CodeTable.maskC
  split
  · exact maskOf_lt _
  · decide

theorem stMask_lt16 (tbl : CodeTable) (st : Tab Char) (y : Nat) : stMask tbl st y < 16 := by
  unfold stMask
  split
  · exact maskC_lt16 _ _
  · decide

theorem isCode_of_mask {tbl : CodeTable} {c : Char} (h : tbl.maskC c ≠ 0) : tbl.isCode c = true := by
  unfold CodeTable.maskC at h
  unfold CodeTable.isCode
  split at h
  · rename_i g hg; simp [hg]
  · exact absurd rfl h

theorem applyTo_st (s : PT) (c : Char) (l : List Nat) (z : Nat) :
    (applyTo s c l).st.get z = if z ∈ l then some c else s.st.get z := by
  unfold applyTo
  induction l generalizing s with
  | nil => simp
  | cons a l ih =>
    simp only [List.foldl_cons, ih, Tab.get_set, List.mem_cons]
    by_cases h1 : z ∈ l <;> by_cases h2 : z = a <;> simp [h1, h2]

theorem applyTo_done (s : PT) (c : Char) (l : List Nat) (z : Nat) :
    (applyTo s c l).done.has z = (decide (z ∈ l) || s.done.has z) := by
  unfold applyTo
  induction l generalizing s with
  | nil => simp
  | cons a l ih =>
    simp only [List.foldl_cons, ih, Tab.has_set, List.mem_cons]
    by_cases h1 : z ∈ l <;> by_cases h2 : z = a <;> simp [h1, h2]

/-- running intersection over the equal side -/
def eqMaskL (tbl : CodeTable) (st : Tab Char) (l : List Nat) (m : Nat) : Nat :=
  l.foldl (fun m y => m &&& stMask tbl st y) m

/-- running intersection over the complementary side -/
def wcMaskL (tbl : CodeTable) (st : Tab Char) (l : List Nat) (m : Nat) : Nat :=
  l.foldl (fun m y => m &&& complMask (stMask tbl st y)) m

theorem eqMaskL_zero (tbl : CodeTable) (st : Tab Char) (l : List Nat) : eqMaskL tbl st l 0 = 0 := by
  unfold eqMaskL
  induction l with
  | nil => rfl
  | cons a l ih => simpa using ih

theorem wcMaskL_zero (tbl : CodeTable) (st : Tab Char) (l : List Nat) : wcMaskL tbl st l 0 = 0 := by
  unfold wcMaskL
  induction l with
  | nil => rfl
  | cons a l ih => simpa using ih

theorem eqMaskL_lt16 (tbl : CodeTable) (st : Tab Char) (l : List Nat) {m : Nat} (hm : m < 16) :
    eqMaskL tbl st l m < 16 := by
  unfold eqMaskL
  induction l generalizing m with
  | nil => simpa using hm
  | cons a l ih => simp only [List.foldl_cons]; exact ih (and_lt16 _ hm)

theorem hasB_eqMaskL (tbl : CodeTable) (st : Tab Char) (l : List Nat) {m : Nat} (hm : m < 16) (b : Base) :
    hasB (eqMaskL tbl st l m) b ↔ hasB m b ∧ ∀ y ∈ l, hasB (stMask tbl st y) b := by
  unfold eqMaskL
  induction l generalizing m with
  | nil => simp
  | cons a l ih =>
    simp only [List.foldl_cons, List.mem_cons]
    rw [ih (and_lt16 _ hm), hasB_and hm (stMask_lt16 _ _ _)]
    constructor
    · rintro ⟨⟨h1, h2⟩, h3⟩
      exact ⟨h1, fun y hy => by rcases hy with rfl | hy; exact h2; exact h3 y hy⟩
    · rintro ⟨h1, h2⟩
      exact ⟨⟨h1, h2 a (Or.inl rfl)⟩, fun y hy => h2 y (Or.inr hy)⟩

theorem hasB_wcMaskL (tbl : CodeTable) (st : Tab Char) (l : List Nat) {m : Nat} (hm : m < 16) (b : Base) :
    hasB (wcMaskL tbl st l m) b ↔ hasB m b ∧ ∀ y ∈ l, hasB (stMask tbl st y) b.compl := by
  unfold wcMaskL
  induction l generalizing m with
  | nil => simp
  | cons a l ih =>
    simp only [List.foldl_cons, List.mem_cons]
    rw [ih (and_lt16 _ hm), hasB_and hm (complMask_lt16 _), hasB_compl (stMask_lt16 _ _ _)]
    constructor
    · rintro ⟨⟨h1, h2⟩, h3⟩
      exact ⟨h1, fun y hy => by rcases hy with rfl | hy; exact h2; exact h3 y hy⟩
    · rintro ⟨h1, h2⟩
      exact ⟨⟨h1, h2 a (Or.inl rfl)⟩, fun y hy => h2 y (Or.inr hy)⟩

theorem isect_spec {tbl : CodeTable} (hl : tbl.lawful = true) {c d : Char} (hc : tbl.isCode c = true)
    (hd : tbl.isCode d = true) :
    (tbl.maskC c &&& tbl.maskC d = 0 ∧ isect tbl c d = .error .overconstrained) ∨
    (∃ e, isect tbl c d = .ok e ∧ tbl.isCode e = true ∧ tbl.maskC e = tbl.maskC c &&& tbl.maskC d) := by
  by_cases h0 : tbl.maskC c &&& tbl.maskC d = 0
  · left
    refine ⟨h0, ?_⟩
    unfold isect
    rw [CodeTable.intersect_empty hl hc hd h0]
  · right
    obtain ⟨e, he, hm⟩ := CodeTable.intersect_ok hl hc hd h0
    refine ⟨e, ?_, isCode_of_mask (hm ▸ h0), hm⟩
    unfold isect
    rw [he]

theorem meetEq_spec {tbl : CodeTable} (hl : tbl.lawful = true) (s : PT) (l : List Nat) (c : Char)
    (hc : tbl.isCode c = true)
    (hy : ∀ y ∈ l, s.done.has y = false ∧ ∃ cy, s.st.get y = some cy ∧ tbl.isCode cy = true) :
    (eqMaskL tbl s.st l (tbl.maskC c) = 0 ∧ meetEq tbl s l c = .error .overconstrained) ∨
    (∃ c', meetEq tbl s l c = .ok c' ∧ tbl.isCode c' = true ∧
      tbl.maskC c' = eqMaskL tbl s.st l (tbl.maskC c)) := by
  induction l generalizing c with
  | nil => right; exact ⟨c, rfl, hc, rfl⟩
  | cons a l ih =>
    obtain ⟨hd, cy, hcy, hcode⟩ := hy a (List.mem_cons_self)
    have hm : stMask tbl s.st a = tbl.maskC cy := by simp [stMask, hcy]
    rcases isect_spec hl hc hcode with ⟨h0, he⟩ | ⟨e, he, hce, hme⟩
    · left
      refine ⟨?_, ?_⟩
      · show eqMaskL tbl s.st l (tbl.maskC c &&& stMask tbl s.st a) = 0
        rw [hm, h0, eqMaskL_zero]
      · simp [meetEq, hd, hcy, he]
    · have := ih e hce (fun y hy' => hy y (List.mem_cons_of_mem _ hy'))
      have hstep : meetEq tbl s (a :: l) c = meetEq tbl s l e := by simp [meetEq, hd, hcy, he]
      have hmask : eqMaskL tbl s.st (a :: l) (tbl.maskC c) = eqMaskL tbl s.st l (tbl.maskC e) := by
        show eqMaskL tbl s.st l (tbl.maskC c &&& stMask tbl s.st a) = _
        rw [hm, hme]
      rw [hstep, hmask]
      exact this

theorem meetWc_spec {tbl : CodeTable} (hl : tbl.lawful = true) (s : PT) (l : List Nat) (c : Char)
    (hc : tbl.isCode c = true)
    (hy : ∀ y ∈ l, s.done.has y = false ∧ ∃ cy, s.st.get y = some cy ∧ tbl.isCode cy = true) :
    (wcMaskL tbl s.st l (tbl.maskC c) = 0 ∧ meetWc tbl s l c = .error .overconstrained) ∨
    (∃ c', meetWc tbl s l c = .ok c' ∧ tbl.isCode c' = true ∧
      tbl.maskC c' = wcMaskL tbl s.st l (tbl.maskC c)) := by
  induction l generalizing c with
  | nil => right; exact ⟨c, rfl, hc, rfl⟩
  | cons a l ih =>
    obtain ⟨hd, cy, hcy, hcode⟩ := hy a (List.mem_cons_self)
    obtain ⟨dy, hdy, hdcode⟩ := CodeTable.isCode_compl hl hcode
    have hm : complMask (stMask tbl s.st a) = tbl.maskC dy := by
      simp [stMask, hcy, CodeTable.complOf_mask hl hdy]
    rcases isect_spec hl hc hdcode with ⟨h0, he⟩ | ⟨e, he, hce, hme⟩
    · left
      refine ⟨?_, ?_⟩
      · show wcMaskL tbl s.st l (tbl.maskC c &&& complMask (stMask tbl s.st a)) = 0
        rw [hm, h0, wcMaskL_zero]
      · simp [meetWc, hd, hcy, hdy, he]
    · have := ih e hce (fun y hy' => hy y (List.mem_cons_of_mem _ hy'))
      have hstep : meetWc tbl s (a :: l) c = meetWc tbl s l e := by simp [meetWc, hd, hcy, hdy, he]
      have hmask : wcMaskL tbl s.st (a :: l) (tbl.maskC c) = wcMaskL tbl s.st l (tbl.maskC e) := by
        show wcMaskL tbl s.st l (tbl.maskC c &&& complMask (stMask tbl s.st a)) = _
        rw [hm, hme]
      rw [hstep, hmask]
      exact this

/-- what the loop proofs need of the result of `propagate` and of the templates -/
structure Ctx (tbl : CodeTable) (eq wc : Adj) (r : Res) (st0 : Tab Char) : Prop where
  lawful : tbl.lawful = true
  pre : Pre eq wc
  inv : OInv eq wc r
  all : ∀ x ∈ keys eq, r.has x = true
  codes : ∀ x ∈ keys eq, ∃ ch, st0.get x = some ch ∧ tbl.isCode ch = true

/-- `b` suits every template linked to `x` (complemented at odd parity) -/
def Common (tbl : CodeTable) (eq wc : Adj) (st0 : Tab Char) (x : Nat) (b : Base) : Prop :=
  ∀ y p, Reach eq wc x p y → hasB (stMask tbl st0 y) (flipB b p)

theorem xor_assoc' (p q r : Bool) : ((p ^^ q) ^^ r) = (p ^^ (q ^^ r)) := by cases p <;> cases q <;> cases r <;> rfl

theorem Common.shift {tbl : CodeTable} {eq wc : Adj} {st0 : Tab Char} (hp : Pre eq wc) {x z : Nat} {q : Bool}
    (h : Reach eq wc x q z) (b : Base) : Common tbl eq wc st0 z b ↔ Common tbl eq wc st0 x (flipB b q) := by
  constructor
  · intro hc y p hy
    -- Reach z (q ^^ p) y
    have h2 : Reach eq wc z (q ^^ p) y := (h.symm hp.eqSymm hp.wcSymm).trans hy
    have := hc y _ h2
    rw [flipB_flipB]
    have e : (q ^^ p) = (q ^^ p) := rfl
    exact this
  · intro hc y p hy
    have h2 : Reach eq wc x (q ^^ p) y := h.trans hy
    have := hc y _ h2
    rw [flipB_flipB] at this
    have e : (q ^^ (q ^^ p)) = p := by cases p <;> cases q <;> rfl
    rwa [e] at this

/-- invariant of the loop of `propagate_templates` -/
structure PInv (tbl : CodeTable) (eq wc : Adj) (st0 : Tab Char) (s : PT) : Prop where
  closed : ∀ y, s.done.has y = true → ∀ p z, Reach eq wc y p z → s.done.has z = true
  isKey : ∀ y, s.done.has y = true → y ∈ keys eq
  keep : ∀ y, s.done.has y = false → s.st.get y = st0.get y
  val : ∀ y, s.done.has y = true → ∃ c, s.st.get y = some c ∧ tbl.isCode c = true ∧
    ∀ b, hasB (tbl.maskC c) b ↔ Common tbl eq wc st0 y b
  noself : ∀ y, s.done.has y = true → ¬ Reach eq wc y true y

theorem pinv_init (tbl : CodeTable) (eq wc : Adj) (st0 : Tab Char) : PInv tbl eq wc st0 ⟨st0, Tab.empty⟩ where
  closed := by intro y h; simp [Tab.has, Tab.get_empty] at h
  isKey := by intro y h; simp [Tab.has, Tab.get_empty] at h
  keep := by intro y _; rfl
  val := by intro y h; simp [Tab.has, Tab.get_empty] at h
  noself := by intro y h; simp [Tab.has, Tab.get_empty] at h

theorem foldl_congr_mem {β : Type} (f g : β → Nat → β) (l : List Nat) (h : ∀ m, ∀ y ∈ l, f m y = g m y) (m : β) :
    l.foldl f m = l.foldl g m := by
  induction l generalizing m with
  | nil => rfl
  | cons a l ih =>
    simp only [List.foldl_cons]
    rw [h m a List.mem_cons_self]
    exact ih (fun m y hy => h m y (List.mem_cons_of_mem _ hy)) _

theorem stMask_congr {tbl : CodeTable} {st st' : Tab Char} {y : Nat} (h : st.get y = st'.get y) :
    stMask tbl st y = stMask tbl st' y := by simp [stMask, h]

/-- one round of the loop of `propagate_templates` -/
theorem ptStep_spec {tbl : CodeTable} {eq wc : Adj} {r : Res} {st0 : Tab Char} (C : Ctx tbl eq wc r st0)
    {s : PT} (I : PInv tbl eq wc st0 s) {x : Nat} {letter : Char} (hx : x ∈ keys eq)
    (hletter : st0.get x = some letter) :
    (∃ s', ptStep tbl r s (x, letter) = .ok s' ∧ PInv tbl eq wc st0 s' ∧ s'.done.has x = true ∧
        ∀ z, s.done.has z = true → s'.done.has z = true) ∨
    (ptStep tbl r s (x, letter) = .error .overconstrained ∧
        (Reach eq wc x true x ∨ ∀ b, ¬ Common tbl eq wc st0 x b)) := by
  have hl := C.lawful
  have hE := C.pre.eqSymm
  have hW := C.pre.wcSymm
  have kc := C.pre.keyClosed
  by_cases hdx : s.done.has x = true
  · left
    exact ⟨s, by simp [ptStep, hdx], I, hdx, fun _ h => h⟩
  · have hdx' : s.done.has x = false := by simpa using hdx
    obtain ⟨⟨E, W⟩, hg⟩ := Option.isSome_iff_exists.1 (by rw [← Res.has_eq]; exact C.all x hx)
    obtain ⟨hEx, hWx⟩ := C.inv.exact x E W hg
    have hxE : x ∈ E := (hEx x).2 Reach.refl
    have hlcode : tbl.isCode letter = true := by
      obtain ⟨lc, hlc, h⟩ := C.codes x hx
      rw [hletter] at hlc
      cases hlc
      exact h
    by_cases hself : x ∈ W
    · right
      refine ⟨?_, Or.inl ((hWx x).1 hself)⟩
      simp [ptStep, hdx', hg, hself]
    · have hnself : ¬ Reach eq wc x true x := fun h => hself ((hWx x).2 h)
      -- members of the class are keys, not done, and still carry their original template
      have hmem : ∀ y p, Reach eq wc x p y → s.done.has y = false ∧
          ∃ cy, s.st.get y = some cy ∧ tbl.isCode cy = true := by
        intro y p hy
        have hnd : s.done.has y = false := by
          cases hd : s.done.has y with
          | false => rfl
          | true => exact absurd (I.closed y hd p x (hy.symm hE hW)) hdx
        obtain ⟨cy, h1, h2⟩ := C.codes y (hy.mem_keys kc hx)
        exact ⟨hnd, cy, by rw [I.keep y hnd]; exact h1, h2⟩
      have hmE : ∀ y ∈ E, s.done.has y = false ∧ ∃ cy, s.st.get y = some cy ∧ tbl.isCode cy = true :=
        fun y hy => hmem y false ((hEx y).1 hy)
      have hmW : ∀ y ∈ W, s.done.has y = false ∧ ∃ cy, s.st.get y = some cy ∧ tbl.isCode cy = true :=
        fun y hy => hmem y true ((hWx y).1 hy)
      have hsE : ∀ m, eqMaskL tbl s.st E m = eqMaskL tbl st0 E m := fun m =>
        foldl_congr_mem _ _ E (fun m y hy => by rw [stMask_congr (I.keep y (hmE y hy).1)]) m
      have hsW : ∀ m, wcMaskL tbl s.st W m = wcMaskL tbl st0 W m := fun m =>
        foldl_congr_mem _ _ W (fun m y hy => by rw [stMask_congr (I.keep y (hmW y hy).1)]) m
      have hxm : stMask tbl st0 x = tbl.maskC letter := by simp [stMask, hletter]
      -- the bits of the two running intersections
      have bitsE : ∀ b, hasB (eqMaskL tbl st0 E (tbl.maskC letter)) b ↔
          ∀ y, Reach eq wc x false y → hasB (stMask tbl st0 y) b := by
        intro b
        rw [hasB_eqMaskL _ _ _ (maskC_lt16 _ _)]
        constructor
        · rintro ⟨_, h⟩ y hy; exact h y ((hEx y).2 hy)
        · intro h
          exact ⟨hxm ▸ h x Reach.refl, fun y hy => h y ((hEx y).1 hy)⟩
      have bitsW : ∀ b m, m < 16 → (hasB (wcMaskL tbl st0 W m) b ↔
          hasB m b ∧ ∀ y, Reach eq wc x true y → hasB (stMask tbl st0 y) b.compl) := by
        intro b m hm
        rw [hasB_wcMaskL _ _ _ hm]
        constructor
        · rintro ⟨h0, h⟩; exact ⟨h0, fun y hy => h y ((hWx y).2 hy)⟩
        · rintro ⟨h0, h⟩; exact ⟨h0, fun y hy => h y ((hWx y).1 hy)⟩
      have common_iff : ∀ b, Common tbl eq wc st0 x b ↔
          (∀ y, Reach eq wc x false y → hasB (stMask tbl st0 y) b) ∧
          (∀ y, Reach eq wc x true y → hasB (stMask tbl st0 y) b.compl) := by
        intro b
        constructor
        · intro h
          exact ⟨fun y hy => by simpa [flipB] using h y false hy, fun y hy => by simpa [flipB] using h y true hy⟩
        · rintro ⟨h1, h2⟩ y p hy
          cases p
          · simpa [flipB] using h1 y hy
          · simpa [flipB] using h2 y hy
      rcases meetEq_spec hl s E letter hlcode hmE with ⟨h0, he⟩ | ⟨c1, he1, hc1, hm1⟩
      · right
        refine ⟨by simp [ptStep, hdx', hg, hself, he], Or.inr (fun b hb => ?_)⟩
        rw [hsE] at h0
        have : hasB (eqMaskL tbl st0 E (tbl.maskC letter)) b := (bitsE b).2 ((common_iff b).1 hb).1
        rw [h0] at this
        exact this (by simp)
      · rw [hsE] at hm1
        rcases meetWc_spec hl s W c1 hc1 hmW with ⟨h0, he⟩ | ⟨c, he2, hc, hm2⟩
        · right
          refine ⟨by simp [ptStep, hdx', hg, hself, he1, he], Or.inr (fun b hb => ?_)⟩
          rw [hsW, hm1] at h0
          have h16 := eqMaskL_lt16 tbl st0 E (maskC_lt16 tbl letter)
          have : hasB (wcMaskL tbl st0 W (eqMaskL tbl st0 E (tbl.maskC letter))) b :=
            (bitsW b _ h16).2 ⟨(bitsE b).2 ((common_iff b).1 hb).1, ((common_iff b).1 hb).2⟩
          rw [h0] at this
          exact this (by simp)
        · rw [hsW, hm1] at hm2
          have h16 := eqMaskL_lt16 tbl st0 E (maskC_lt16 tbl letter)
          have hcbits : ∀ b, hasB (tbl.maskC c) b ↔ Common tbl eq wc st0 x b := by
            intro b
            rw [hm2, bitsW b _ h16, bitsE b, common_iff b]
          obtain ⟨cc, hcc, hcccode⟩ := CodeTable.isCode_compl hl hc
          have hccm := CodeTable.complOf_mask hl hcc
          -- the new state, uniformly in whether `W` is empty
          have hres : ptStep tbl r s (x, letter) = .ok (applyTo (applyTo s c E) cc W) := by
            cases W with
            | nil => simp [ptStep, hdx', hg, he1, he2, applyTo]
            | cons w W' => simp [ptStep, hdx', hg, hself, he1, he2, hcc]
          left
          refine ⟨_, hres, ?_, ?_, ?_⟩
          · have dn : ∀ z, (applyTo (applyTo s c E) cc W).done.has z = true ↔
                z ∈ W ∨ z ∈ E ∨ s.done.has z = true := by
              intro z; rw [applyTo_done, applyTo_done]; simp
            have inCls : ∀ z, (z ∈ W ∨ z ∈ E) ↔ ∃ q, Reach eq wc x q z := by
              intro z
              constructor
              · rintro (h | h)
                · exact ⟨true, (hWx z).1 h⟩
                · exact ⟨false, (hEx z).1 h⟩
              · rintro ⟨q, hq⟩
                cases q
                · exact Or.inr ((hEx z).2 hq)
                · exact Or.inl ((hWx z).2 hq)
            constructor
            · intro y hy p z hyz
              rw [dn] at hy ⊢
              rw [← or_assoc, inCls] at hy ⊢
              rcases hy with ⟨q, hq⟩ | hy
              · exact Or.inl ⟨_, hq.trans hyz⟩
              · exact Or.inr (I.closed y hy p z hyz)
            · intro y hy
              rw [dn, ← or_assoc, inCls] at hy
              rcases hy with ⟨q, hq⟩ | hy
              · exact hq.mem_keys kc hx
              · exact I.isKey y hy
            · intro y hy
              have hy' : ¬ (y ∈ W ∨ y ∈ E ∨ s.done.has y = true) := by
                rw [← dn]; simp [hy]
              have h1 : y ∉ W := fun h => hy' (Or.inl h)
              have h2 : y ∉ E := fun h => hy' (Or.inr (Or.inl h))
              have h3 : s.done.has y = false := by
                cases hd : s.done.has y with
                | false => rfl
                | true => exact absurd (Or.inr (Or.inr hd)) hy'
              rw [applyTo_st, applyTo_st]
              simp [h1, h2, I.keep y h3]
            · intro y hy
              rw [dn] at hy
              rw [applyTo_st, applyTo_st]
              by_cases h1 : y ∈ W
              · have hr := (hWx y).1 h1
                refine ⟨cc, by simp [h1], hcccode, fun b => ?_⟩
                rw [hccm, hasB_compl (maskC_lt16 _ _), hcbits, Common.shift C.pre hr b]
                simp [flipB]
              · by_cases h2 : y ∈ E
                · have hr := (hEx y).1 h2
                  refine ⟨c, by simp [h1, h2], hc, fun b => ?_⟩
                  rw [hcbits, Common.shift C.pre hr b]
                  simp [flipB]
                · have h3 : s.done.has y = true := by
                    rcases hy with h | h | h
                    · exact absurd h h1
                    · exact absurd h h2
                    · exact h
                  obtain ⟨c', hc', hcode', hb'⟩ := I.val y h3
                  exact ⟨c', by simp [h1, h2, hc'], hcode', hb'⟩
            · intro y hy hyy
              rw [dn, ← or_assoc, inCls] at hy
              rcases hy with ⟨q, hq⟩ | hy
              · have := (hq.trans hyy).trans (hq.symm hE hW)
                have e : ((q ^^ true) ^^ q) = true := by cases q <;> rfl
                rw [e] at this
                exact hnself this
              · exact I.noself y hy hyy
          · rw [applyTo_done, applyTo_done]; simp [hxE]
          · intro z hz
            rw [applyTo_done, applyTo_done]; simp [hz]

theorem ptLoop_spec {tbl : CodeTable} {eq wc : Adj} {r : Res} {st0 : Tab Char} (C : Ctx tbl eq wc r st0)
    (items : List (Nat × Char)) (hit : ∀ it ∈ items, it.1 ∈ keys eq ∧ st0.get it.1 = some it.2)
    {s : PT} (I : PInv tbl eq wc st0 s) :
    (∃ s', ptLoop tbl r items s = .ok s' ∧ PInv tbl eq wc st0 s' ∧ (∀ it ∈ items, s'.done.has it.1 = true) ∧
        ∀ z, s.done.has z = true → s'.done.has z = true) ∨
    (ptLoop tbl r items s = .error .overconstrained ∧
        ∃ x ∈ keys eq, Reach eq wc x true x ∨ ∀ b, ¬ Common tbl eq wc st0 x b) := by
  induction items generalizing s with
  | nil => left; exact ⟨s, rfl, I, by simp, fun _ h => h⟩
  | cons it rest ih =>
    obtain ⟨x, letter⟩ := it
    obtain ⟨hx, hletter⟩ := hit (x, letter) List.mem_cons_self
    rcases ptStep_spec C I hx hletter with ⟨s1, e1, I1, hx1, m1⟩ | ⟨e1, hbad⟩
    · rcases ih (fun it h => hit it (List.mem_cons_of_mem _ h)) I1 with ⟨s2, e2, I2, h2, m2⟩ | ⟨e2, hbad⟩
      · left
        refine ⟨s2, by simp [ptLoop, e1, e2], I2, ?_, fun z hz => m2 z (m1 z hz)⟩
        intro it hit'
        rcases List.mem_cons.1 hit' with rfl | h
        · exact m2 _ hx1
        · exact h2 it h
      · right
        exact ⟨by simp [ptLoop, e1, e2], hbad⟩
    · right
      exact ⟨by simp [ptLoop, e1], x, hx, hbad⟩

theorem lookup_isSome_iff {β : Type} (l : List (Nat × β)) (x : Nat) :
    (l.lookup x).isSome = true ↔ x ∈ l.map (·.1) := by
  induction l with
  | nil => simp
  | cons a l ih =>
    obtain ⟨k, v⟩ := a
    simp only [List.lookup_cons, List.map_cons, List.mem_cons]
    by_cases h : x = k
    · subst h; simp
    · have : (x == k) = false := by simpa using h
      simp [this, ih, h]

theorem Res.has_iff_mem (r : Res) (x : Nat) : r.has x = true ↔ x ∈ r.map (·.1) := lookup_isSome_iff r x

/-- what `propagate_templates` returns -/
theorem propagateTemplates_spec {tbl : CodeTable} {eq wc : Adj} {r : Res} {st0 : Tab Char}
    (C : Ctx tbl eq wc r st0) :
    (∃ st', propagateTemplates tbl (keys eq) r st0 = .ok st' ∧
        (∀ y ∈ keys eq, ¬ Reach eq wc y true y ∧ ∃ c, st'.get y = some c ∧ tbl.isCode c = true ∧
          ∀ b, hasB (tbl.maskC c) b ↔ Common tbl eq wc st0 y b) ∧
        (∀ y, y ∉ keys eq → st'.get y = st0.get y)) ∨
    (propagateTemplates tbl (keys eq) r st0 = .error .overconstrained ∧
        ∃ x ∈ keys eq, Reach eq wc x true x ∨ ∀ b, ¬ Common tbl eq wc st0 x b) := by
  have hsk : sameKeys (keys eq) (r.map (·.1)) = true := by
    unfold sameKeys
    simp only [Bool.and_eq_true, List.all_eq_true, List.contains_iff_mem]
    exact ⟨fun x hx => (Res.has_iff_mem r x).1 (C.all x hx), fun x hx => C.inv.isKey x ((Res.has_iff_mem r x).2 hx)⟩
  let items := (keys eq).filterMap (fun k => (st0.get k).map (fun c => (k, c)))
  have hit : ∀ it ∈ items, it.1 ∈ keys eq ∧ st0.get it.1 = some it.2 := by
    intro it h
    obtain ⟨k, hk, he⟩ := List.mem_filterMap.1 h
    cases hs : st0.get k with
    | none => simp [hs] at he
    | some c => simp [hs] at he; subst he; exact ⟨hk, hs⟩
  have hall : ∀ x ∈ keys eq, ∃ it ∈ items, it.1 = x := by
    intro x hx
    obtain ⟨ch, hch, _⟩ := C.codes x hx
    exact ⟨(x, ch), List.mem_filterMap.2 ⟨x, hx, by simp [hch]⟩, rfl⟩
  rcases ptLoop_spec C items hit (pinv_init tbl eq wc st0) with ⟨s', e, I, hd, _⟩ | ⟨e, hbad⟩
  · left
    refine ⟨s'.st, by simp only [propagateTemplates, hsk]; simp [items] at e; simp [e], ?_, ?_⟩
    · intro y hy
      obtain ⟨it, hit', rfl⟩ := hall y hy
      have := hd it hit'
      exact ⟨I.noself _ this, I.val _ this⟩
    · intro y hy
      have : s'.done.has y = false := by
        cases h : s'.done.has y with
        | false => rfl
        | true => exact absurd (I.isKey y h) hy
      exact I.keep y this
  · right
    refine ⟨by simp only [propagateTemplates, hsk]; simp [items] at e; simp [e], hbad⟩

/-! ## `get_reps` -/

theorem foldl_set_get {α} (l : List Nat) (v : α) (t : Tab α) (z : Nat) :
    (l.foldl (fun t y => t.set y v) t).get z = if z ∈ l then some v else t.get z := by
  induction l generalizing t with
  | nil => simp
  | cons a l ih =>
    simp only [List.foldl_cons, ih, Tab.get_set, List.mem_cons]
    by_cases h1 : z ∈ l <;> by_cases h2 : z = a <;> simp [h1, h2]

theorem repGet_set (t : Tab (Option Nat)) (k j : Nat) (v : Option Nat) :
    repGet (t.set k v) j = if j = k then v else repGet t j := by
  unfold repGet
  rw [Tab.get_set]
  by_cases h : j = k <;> simp [h]

/-- the loop over `eq[x]` of `get_reps` in closed form -/
theorem repLoopE (x : Nat) (mE mW : Option Nat) (E : List Nat) (s : Reps)
    (h1 : repGet s.eqRep x = mE) (h2 : repGet s.wcRep x = mW) :
    E.foldl (fun (s : Reps) y =>
        let e1 := s.eqRep.set y (repGet s.eqRep x)
        ⟨e1, s.wcRep.set y (repGet s.wcRep x)⟩) s
      = ⟨E.foldl (fun t y => t.set y mE) s.eqRep, E.foldl (fun t y => t.set y mW) s.wcRep⟩ := by
  induction E generalizing s with
  | nil => rfl
  | cons a E ih =>
    simp only [List.foldl_cons]
    rw [ih]
    · simp only [h1, h2]
    · simp only [repGet_set, h1]; split <;> rfl
    · simp only [repGet_set, h2]; split <;> rfl

/-- the loop over `wc[x]` of `get_reps` in closed form (when `x` is not its own partner) -/
theorem repLoopW (x : Nat) (mE mW : Option Nat) (W : List Nat) (hx : x ∉ W) (s : Reps)
    (h1 : repGet s.eqRep x = mE) (h2 : repGet s.wcRep x = mW) :
    W.foldl (fun (s : Reps) y =>
        let e1 := s.eqRep.set y (repGet s.wcRep x)
        ⟨e1, s.wcRep.set y (repGet e1 x)⟩) s
      = ⟨W.foldl (fun t y => t.set y mW) s.eqRep, W.foldl (fun t y => t.set y mE) s.wcRep⟩ := by
  induction W generalizing s with
  | nil => rfl
  | cons a W ih =>
    have hxa : x ≠ a := fun e => hx (e ▸ List.mem_cons_self)
    have hxW : x ∉ W := fun h => hx (List.mem_cons_of_mem _ h)
    simp only [List.foldl_cons]
    rw [ih hxW]
    · simp only [h2, repGet_set, hxa, if_false, h1]
    · simp only [repGet_set, hxa, if_false, h1]
    · simp only [repGet_set, hxa, if_false, h2]

/-- `repStep` in closed form -/
theorem repStep_get (P : Nat) (s : Reps) (x : Nat) (E W : List Nat) (hx : x ∉ W) (z : Nat) :
    (repStep P s (x, E, W)).eqRep.get z =
      (if z ∈ W then some (minValid P W) else if z ∈ E then some (minValid P E)
       else if z = x then some (minValid P E) else s.eqRep.get z) ∧
    (repStep P s (x, E, W)).wcRep.get z =
      (if z ∈ W then some (minValid P E) else if z ∈ E then some (minValid P W)
       else if z = x then some (minValid P W) else s.wcRep.get z) := by
  unfold repStep
  simp only
  rw [repLoopE x (minValid P E) (minValid P W) E _ (by simp [repGet_set]) (by simp [repGet_set])]
  rw [repLoopW x (minValid P E) (minValid P W) W hx]
  · simp only [foldl_set_get, Tab.get_set]
    exact ⟨trivial, trivial⟩
  · simp only [repGet, foldl_set_get, Tab.get_set]
    by_cases h : x ∈ E <;> simp [h]
  · simp only [repGet, foldl_set_get, Tab.get_set]
    by_cases h : x ∈ E <;> simp [h]

/-- invariant of the loop of `get_reps`: every value already written is the right one -/
structure RInv (P : Nat) (eq wc : Adj) (s : Reps) : Prop where
  eqv : ∀ y v, s.eqRep.get y = some v → y ∈ keys eq ∧ IsMin P (Reach eq wc y false) v
  wcv : ∀ y v, s.wcRep.get y = some v → y ∈ keys eq ∧ IsMin P (Reach eq wc y true) v

theorem reach_shift_iff {eq wc : Adj} (hp : Pre eq wc) {x y : Nat} {q : Bool} (h : Reach eq wc x q y) (p : Bool) (z : Nat) :
    Reach eq wc y p z ↔ Reach eq wc x (q ^^ p) z := Reach.shift hp.eqSymm hp.wcSymm h p z

theorem repStep_spec {P : Nat} {eq wc : Adj} (hp : Pre eq wc) {s : Reps} (I : RInv P eq wc s)
    {x : Nat} {E W : List Nat} (hx : x ∈ keys eq)
    (hE : ∀ y, y ∈ E ↔ Reach eq wc x false y) (hW : ∀ y, y ∈ W ↔ Reach eq wc x true y)
    (hns : ¬ Reach eq wc x true x) :
    RInv P eq wc (repStep P s (x, E, W)) ∧
    (repStep P s (x, E, W)).eqRep.get x ≠ none ∧ (repStep P s (x, E, W)).wcRep.get x ≠ none ∧
    (∀ z, s.eqRep.get z ≠ none → (repStep P s (x, E, W)).eqRep.get z ≠ none) ∧
    (∀ z, s.wcRep.get z ≠ none → (repStep P s (x, E, W)).wcRep.get z ≠ none) := by
  have hxW : x ∉ W := fun h => hns ((hW x).1 h)
  have kc := hp.keyClosed
  have mE : IsMin P (Reach eq wc x false) (minValid P E) := IsMin.congr hE (minValid_spec P E)
  have mW : IsMin P (Reach eq wc x true) (minValid P W) := IsMin.congr hW (minValid_spec P W)
  have shiftE : ∀ y, y ∈ E → ∀ p z, Reach eq wc y p z ↔ Reach eq wc x p z := by
    intro y hy p z
    rw [reach_shift_iff hp ((hE y).1 hy)]; simp
  have shiftW : ∀ y, y ∈ W → ∀ p z, Reach eq wc y p z ↔ Reach eq wc x (!p) z := by
    intro y hy p z
    rw [reach_shift_iff hp ((hW y).1 hy)]; cases p <;> simp
  refine ⟨⟨?_, ?_⟩, ?_, ?_, ?_, ?_⟩
  · intro y v hv
    rw [(repStep_get P s x E W hxW y).1] at hv
    split at hv
    · rename_i h
      cases hv
      exact ⟨((hW y).1 h).mem_keys kc hx, IsMin.congr (fun z => by rw [shiftW y h]; simp) mW⟩
    · split at hv
      · rename_i h
        cases hv
        exact ⟨((hE y).1 h).mem_keys kc hx, IsMin.congr (fun z => by rw [shiftE y h]) mE⟩
      · split at hv
        · rename_i h
          cases hv; subst h
          exact ⟨hx, mE⟩
        · exact I.eqv y v hv
  · intro y v hv
    rw [(repStep_get P s x E W hxW y).2] at hv
    split at hv
    · rename_i h
      cases hv
      exact ⟨((hW y).1 h).mem_keys kc hx, IsMin.congr (fun z => by rw [shiftW y h]; simp) mE⟩
    · split at hv
      · rename_i h
        cases hv
        exact ⟨((hE y).1 h).mem_keys kc hx, IsMin.congr (fun z => by rw [shiftE y h]) mW⟩
      · split at hv
        · rename_i h
          cases hv; subst h
          exact ⟨hx, mW⟩
        · exact I.wcv y v hv
  · rw [(repStep_get P s x E W hxW x).1]; simp [hxW]
  · rw [(repStep_get P s x E W hxW x).2]; simp [hxW]
  · intro z hz
    rw [(repStep_get P s x E W hxW z).1]
    split; simp; split; simp; split; simp; exact hz
  · intro z hz
    rw [(repStep_get P s x E W hxW z).2]
    split; simp; split; simp; split; simp; exact hz

/-! ### the result dictionary of `propagate` has each key once -/

theorem Res.keys_set (r : Res) (y : Nat) (v : List Nat × List Nat) :
    (r.set y v).map (·.1) = if r.has y = true then r.map (·.1) else r.map (·.1) ++ [y] := by
  unfold Res.set
  by_cases h : r.has y = true
  · simp only [h, if_true, List.map_map]
    apply List.map_congr_left
    rintro ⟨k, w⟩ _
    simp only [Function.comp]
    split <;> rfl
  · simp [h]

theorem Res.nodup_set {r : Res} (hn : (r.map (·.1)).Nodup) (y : Nat) (v : List Nat × List Nat) :
    ((r.set y v).map (·.1)).Nodup := by
  rw [Res.keys_set]
  split
  · exact hn
  · rename_i h
    have : y ∉ r.map (·.1) := fun hm => h ((Res.has_iff_mem r y).2 hm)
    exact List.nodup_append.2 ⟨hn, by simp, by
      intro a ha b hb; simp at hb; subst hb; exact fun e => this (e ▸ ha)⟩

theorem Res.nodup_foldl_set (l : List Nat) (v : List Nat × List Nat) {r : Res} (hn : (r.map (·.1)).Nodup) :
    ((l.foldl (fun r y => r.set y v) r).map (·.1)).Nodup := by
  induction l generalizing r with
  | nil => exact hn
  | cons a l ih => exact ih (Res.nodup_set hn a v)

theorem nodup_storeClass {r : Res} (hn : (r.map (·.1)).Nodup) (s : St) : ((storeClass r s).map (·.1)).Nodup := by
  unfold storeClass
  exact Res.nodup_foldl_set _ _ (Res.nodup_foldl_set _ _ hn)

theorem nodup_resolveAll (eq wc : Adj) (xs : List Nat) {r r' : Res} (hn : (r.map (·.1)).Nodup)
    (h : resolveAll eq wc xs r = .ok r') : (r'.map (·.1)).Nodup := by
  induction xs generalizing r with
  | nil => simp [resolveAll] at h; subst h; exact hn
  | cons x xs ih =>
    simp only [resolveAll] at h
    split at h
    · rename_i r1 h1
      refine ih ?_ h
      unfold resolve at h1
      by_cases hh : r.has x = true
      · simp [hh] at h1; subst h1; exact hn
      · by_cases hb : classBad eq r (classOf eq wc x) = true
        · simp [hh, hb] at h1
        · simp [hh, hb] at h1; subst h1; exact nodup_storeClass hn _
    · cases h

theorem nodup_propagate {eq wc : Adj} {r : Res} (h : propagate eq wc = .ok r) : (r.map (·.1)).Nodup := by
  unfold propagate at h
  split at h
  · cases h
  · exact nodup_resolveAll eq wc _ (by simp) h

theorem lookup_of_mem_nodup {β : Type} {l : List (Nat × β)} (hn : (l.map (·.1)).Nodup) {x : Nat} {v : β}
    (h : (x, v) ∈ l) : l.lookup x = some v := by
  induction l with
  | nil => simp at h
  | cons a l ih =>
    obtain ⟨k, w⟩ := a
    simp only [List.map_cons, List.nodup_cons] at hn
    simp only [List.lookup_cons]
    rcases List.mem_cons.1 h with h | h
    · simp only [Prod.mk.injEq] at h
      simp [h.1, h.2]
    · have : x ≠ k := fun e => hn.1 (e ▸ List.mem_map.2 ⟨(x, v), h, rfl⟩)
      have hb : (x == k) = false := by simpa using this
      simp [hb, ih hn.2 h]

/-- the loop of `get_reps` -/
theorem getReps_loop {P : Nat} {eq wc : Adj} (hp : Pre eq wc) (l : List (Nat × List Nat × List Nat))
    (hl : ∀ e ∈ l, e.1 ∈ keys eq ∧ (∀ y, y ∈ e.2.1 ↔ Reach eq wc e.1 false y) ∧
      (∀ y, y ∈ e.2.2 ↔ Reach eq wc e.1 true y) ∧ ¬ Reach eq wc e.1 true e.1)
    {s : Reps} (I : RInv P eq wc s) :
    RInv P eq wc (l.foldl (repStep P) s) ∧
    (∀ e ∈ l, (l.foldl (repStep P) s).eqRep.get e.1 ≠ none ∧ (l.foldl (repStep P) s).wcRep.get e.1 ≠ none) ∧
    (∀ z, s.eqRep.get z ≠ none → (l.foldl (repStep P) s).eqRep.get z ≠ none) ∧
    (∀ z, s.wcRep.get z ≠ none → (l.foldl (repStep P) s).wcRep.get z ≠ none) := by
  induction l generalizing s with
  | nil => exact ⟨I, by simp, fun _ h => h, fun _ h => h⟩
  | cons a l ih =>
    obtain ⟨x, E, W⟩ := a
    obtain ⟨hx, hE, hW, hns⟩ := hl (x, E, W) List.mem_cons_self
    obtain ⟨I1, hx1, hx2, m1, m2⟩ := repStep_spec hp I hx hE hW hns
    obtain ⟨I2, h2, n1, n2⟩ := ih (fun e he => hl e (List.mem_cons_of_mem _ he)) I1
    simp only [List.foldl_cons]
    refine ⟨I2, ?_, fun z hz => n1 z (m1 z hz), fun z hz => n2 z (m2 z hz)⟩
    intro e he
    rcases List.mem_cons.1 he with rfl | he
    · exact ⟨n1 _ hx1, n2 _ hx2⟩
    · exact h2 e he

theorem rinv_empty (P : Nat) (eq wc : Adj) : RInv P eq wc ⟨Tab.empty, Tab.empty⟩ :=
  ⟨by intro y v h; simp [Tab.get_empty] at h, by intro y v h; simp [Tab.get_empty] at h⟩

/-- what `get_reps` leaves in `eq_rep` / `wc_rep` -/
theorem getReps_spec {P : Nat} {eq wc : Adj} {r : Res} (hp : Pre eq wc) (inv : OInv eq wc r)
    (all : ∀ x ∈ keys eq, r.has x = true) (hn : (r.map (·.1)).Nodup)
    (hns : ∀ x ∈ keys eq, ¬ Reach eq wc x true x) :
    (∀ x ∈ keys eq, IsMin P (Reach eq wc x false) (repGet (getReps P r).eqRep x) ∧
                   IsMin P (Reach eq wc x true) (repGet (getReps P r).wcRep x)) ∧
    (∀ x, x ∉ keys eq → repGet (getReps P r).eqRep x = none ∧ repGet (getReps P r).wcRep x = none) := by
  have hl : ∀ e ∈ r, e.1 ∈ keys eq ∧ (∀ y, y ∈ e.2.1 ↔ Reach eq wc e.1 false y) ∧
      (∀ y, y ∈ e.2.2 ↔ Reach eq wc e.1 true y) ∧ ¬ Reach eq wc e.1 true e.1 := by
    rintro ⟨x, E, W⟩ he
    have hg : r.get x = some (E, W) := lookup_of_mem_nodup hn he
    have hx : x ∈ keys eq := inv.isKey x (by rw [Res.has_eq, hg]; rfl)
    obtain ⟨h1, h2⟩ := inv.exact x E W hg
    exact ⟨hx, h1, h2, hns x hx⟩
  obtain ⟨I, hset, _, _⟩ := getReps_loop (P := P) hp r hl (rinv_empty P eq wc)
  refine ⟨fun x hx => ?_, fun x hx => ?_⟩
  · have hm : x ∈ r.map (·.1) := (Res.has_iff_mem r x).1 (all x hx)
    obtain ⟨e, he, rfl⟩ := List.mem_map.1 hm
    obtain ⟨s1, s2⟩ := hset e he
    unfold getReps repGet
    cases h1 : (List.foldl (repStep P) ⟨Tab.empty, Tab.empty⟩ r).eqRep.get e.1 with
    | none => exact absurd h1 s1
    | some v =>
      cases h2 : (List.foldl (repStep P) ⟨Tab.empty, Tab.empty⟩ r).wcRep.get e.1 with
      | none => exact absurd h2 s2
      | some w => exact ⟨(I.eqv _ _ h1).2, (I.wcv _ _ h2).2⟩
  · unfold getReps repGet
    constructor
    · cases h1 : (List.foldl (repStep P) ⟨Tab.empty, Tab.empty⟩ r).eqRep.get x with
      | none => rfl
      | some v => exact absurd (I.eqv _ _ h1).1 hx
    · cases h2 : (List.foldl (repStep P) ⟨Tab.empty, Tab.empty⟩ r).wcRep.get x with
      | none => rfl
      | some v => exact absurd (I.wcv _ _ h2).1 hx

/-! ## `dump` and the whole of `finish` -/

theorem foldl_max_spec (k : Nat) (ks : List Nat) :
    (ks.foldl max k ∈ k :: ks) ∧ ∀ y ∈ k :: ks, y ≤ ks.foldl max k := by
  induction ks generalizing k with
  | nil => simp
  | cons a ks ih =>
    simp only [List.foldl_cons]
    obtain ⟨h1, h2⟩ := ih (max k a)
    constructor
    · rcases List.mem_cons.1 h1 with h | h
      · rw [h]
        by_cases hka : k ≤ a
        · rw [Nat.max_eq_right hka]; simp
        · rw [Nat.max_eq_left (by omega)]; simp
      · exact List.mem_cons_of_mem _ (List.mem_cons_of_mem _ h)
    · intro y hy
      rcases List.mem_cons.1 hy with rfl | hy
      · exact Nat.le_trans (Nat.le_max_left _ _) (h2 _ List.mem_cons_self)
      · rcases List.mem_cons.1 hy with rfl | hy
        · exact Nat.le_trans (Nat.le_max_right _ _) (h2 _ List.mem_cons_self)
        · exact h2 y (List.mem_cons_of_mem _ hy)

/-- the seeded constraints satisfy the documented precondition of `propagate_constraints` and every key
    carries a code -/
structure Cons.WF (tbl : CodeTable) (c : Cons) : Prop where
  pre : Pre (adjOf c.keys c.eq) (adjOf c.keys c.wc)
  codes : ∀ x ∈ c.keys, ∃ ch, c.st.get x = some ch ∧ tbl.isCode ch = true
  stKeys : ∀ x, c.st.get x ≠ none → x ∈ c.keys

theorem keys_adjOf (ks : List Nat) (t : Tab (List Nat)) : keys (adjOf ks t) = ks := by
  unfold keys adjOf
  rw [List.map_map]
  conv => rhs; rw [← List.map_id ks]
  apply List.map_congr_left
  intro a _; rfl

/-- the arrays are exactly what the closure of the seeded graph demands -/
structure GraphExact (tbl : CodeTable) (c : Cons) (P : Nat) (a : Arrays) : Prop where
  n_pos : 0 < a.1.length
  len_wc : a.2.1.length = a.1.length
  len_st : a.2.2.length = a.1.length
  last : a.1.length - 1 ∈ c.keys
  le_P : a.1.length ≤ P
  bound : ∀ x ∈ c.keys, x < P → x < a.1.length
  blank : ∀ i, i < a.1.length → i ∉ c.keys → a.1[i]? = some none ∧ a.2.1[i]? = some none ∧ a.2.2[i]? = some none
  key : ∀ i, i < a.1.length → i ∈ c.keys →
    (∃ v, a.1[i]? = some v ∧ IsMin P (Reach (adjOf c.keys c.eq) (adjOf c.keys c.wc) i false) v) ∧
    (∃ w, a.2.1[i]? = some w ∧ IsMin P (Reach (adjOf c.keys c.eq) (adjOf c.keys c.wc) i true) w) ∧
    (∃ ch, a.2.2[i]? = some (some ch) ∧ tbl.isCode ch = true ∧
      ∀ b, hasB (tbl.maskC ch) b ↔ Common tbl (adjOf c.keys c.eq) (adjOf c.keys c.wc) c.st i b)
  noself : ∀ x ∈ c.keys, ¬ Reach (adjOf c.keys c.eq) (adjOf c.keys c.wc) x true x

/-- every class has a common base and no item is its own partner -/
def GraphSat (tbl : CodeTable) (c : Cons) : Prop :=
  ∀ x ∈ c.keys, ¬ Reach (adjOf c.keys c.eq) (adjOf c.keys c.wc) x true x ∧
    ∃ b, Common tbl (adjOf c.keys c.eq) (adjOf c.keys c.wc) c.st x b

/-- **The part of `get_constraints` after the seeding.**  Under the precondition it either reports an
    over-constrained class (and then the seeded graph really has one), or has no position to number (and then
    the graph is satisfiable), or returns exactly the closure. -/
theorem finish_spec {tbl : CodeTable} (hl : tbl.lawful = true) {c : Cons} (P : Nat) (wf : c.WF tbl) :
    (finish tbl P c = .error .overconstrained ∧ ¬ GraphSat tbl c) ∨
    (finish tbl P c = .error .noPositions ∧ GraphSat tbl c ∧ ∀ x ∈ c.keys, ¬ x < P) ∨
    (∃ a, finish tbl P c = .ok a ∧ GraphSat tbl c ∧ GraphExact tbl c P a) := by
  have hk : keys (adjOf c.keys c.eq) = c.keys := keys_adjOf _ _
  obtain ⟨r, hr, inv, all⟩ := propagate_ok wf.pre
  have hn := nodup_propagate hr
  have C : Ctx tbl (adjOf c.keys c.eq) (adjOf c.keys c.wc) r c.st :=
    ⟨hl, wf.pre, inv, all, by rw [hk]; exact wf.codes⟩
  rcases propagateTemplates_spec C with ⟨st', e1, hval, hkeep⟩ | ⟨e1, x, hx, hbad⟩
  · rw [hk] at e1 hval hkeep
    have hsat : GraphSat tbl c := by
      intro x hx
      obtain ⟨h1, ch, _, hcode, hb⟩ := hval x hx
      refine ⟨h1, ?_⟩
      obtain ⟨b, hbb⟩ := (mask_ne_zero_iff (maskC_lt16 tbl ch)).1
        (Nat.pos_iff_ne_zero.1 (CodeTable.maskC_pos hl hcode).1)
      exact ⟨b, (hb b).1 hbb⟩
    obtain ⟨hrep, hrepn⟩ := getReps_spec (P := P) wf.pre inv all hn (by rw [hk]; exact fun x hx => (hval x hx).1)
    rw [hk] at hrep hrepn
    have hmem : ∀ x, x ∈ (r.map (·.1)).filter (· < P) ↔ x ∈ c.keys ∧ x < P := by
      intro x
      simp only [List.mem_filter, decide_eq_true_eq]
      rw [← Res.has_iff_mem]
      constructor
      · rintro ⟨h1, h2⟩; exact ⟨hk ▸ inv.isKey x h1, h2⟩
      · rintro ⟨h1, h2⟩; exact ⟨all x (by rw [hk]; exact h1), h2⟩
    cases hf : (r.map (·.1)).filter (· < P) with
    | nil =>
      right; left
      refine ⟨by simp [finish, hr, e1, dump, hf], hsat, fun x hx hxP => ?_⟩
      have := (hmem x).2 ⟨hx, hxP⟩
      rw [hf] at this
      simp at this
    | cons k ks =>
      right; right
      obtain ⟨hmax1, hmax2⟩ := foldl_max_spec k ks
      have hmk : ks.foldl max k ∈ c.keys ∧ ks.foldl max k < P := (hmem _).1 (hf ▸ hmax1)
      refine ⟨((List.range (ks.foldl max k + 1)).map (repGet (getReps P r).eqRep),
               (List.range (ks.foldl max k + 1)).map (repGet (getReps P r).wcRep),
               (List.range (ks.foldl max k + 1)).map st'.get), by simp [finish, hr, e1, dump, hf], hsat, ?_⟩
      constructor
      · simp
      · simp
      · simp
      · simpa using hmk.1
      · simp; omega
      · intro x hx hxP
        have := hmax2 x (hf ▸ (hmem x).2 ⟨hx, hxP⟩)
        simp; omega
      · intro i hi hnk
        simp only [List.length_map, List.length_range] at hi
        obtain ⟨h1, h2⟩ := hrepn i hnk
        have h3 : st'.get i = none := by
          rw [hkeep i hnk]
          cases h : c.st.get i with
          | none => rfl
          | some v => exact absurd (wf.stKeys i (by simp [h])) hnk
        simp [List.getElem?_map, List.getElem?_range hi, h1, h2, h3]
      · intro i hi hik
        simp only [List.length_map, List.length_range] at hi
        obtain ⟨h1, h2⟩ := hrep i hik
        obtain ⟨_, ch, hch, hcode, hb⟩ := hval i hik
        refine ⟨⟨_, by simp [List.getElem?_map, List.getElem?_range hi], h1⟩,
                ⟨_, by simp [List.getElem?_map, List.getElem?_range hi], h2⟩,
                ⟨ch, by simp [List.getElem?_map, List.getElem?_range hi, hch], hcode, hb⟩⟩
      · exact fun x hx => (hsat x hx).1
  · left
    rw [hk] at e1 hx
    refine ⟨by simp [finish, hr, e1], fun hsat => ?_⟩
    obtain ⟨h1, b, hb⟩ := hsat x hx
    rcases hbad with h | h
    · exact h1 h
    · exact h b hb

/-! ## the seeding establishes the precondition -/

/-- state of the three dicts while the `init` calls run -/
structure InitInv (c : Cons) : Prop where
  nodup : c.keys.Nodup
  eqv : ∀ k, c.eq.get k = if k ∈ c.keys then some [] else none
  wcv : ∀ k, c.wc.get k = if k ∈ c.keys then some [] else none
  stv : ∀ k, c.st.get k ≠ none → k ∈ c.keys

theorem initAll_spec (l : List (Nat × Char)) {c c' : Cons} (I : InitInv c) (h : initAll l c = .ok c') :
    InitInv c' ∧ c'.keys = c.keys ++ l.map (·.1) ∧
    (∀ p ∈ l, c'.st.get p.1 = some p.2) ∧ (∀ k, k ∈ c.keys → c'.st.get k = c.st.get k) := by
  induction l generalizing c with
  | nil => simp [initAll] at h; subst h; exact ⟨I, by simp, by simp, fun _ _ => rfl⟩
  | cons a l ih =>
    obtain ⟨x, letter⟩ := a
    simp only [initAll] at h
    split at h
    · cases h
    · rename_i hfresh
      simp only [Bool.or_eq_true, not_or, Bool.not_eq_true] at hfresh
      have hx : x ∉ c.keys := by
        intro hx
        have := I.eqv x
        simp [hx] at this
        simp [Tab.has, this] at hfresh
      have I1 : InitInv ⟨c.keys ++ [x], c.eq.set x [], c.wc.set x [], c.st.set x letter⟩ := by
        constructor
        · exact List.nodup_append.2 ⟨I.nodup, by simp, by
            intro a ha b hb; simp at hb; subst hb; exact fun e => hx (e ▸ ha)⟩
        · intro k
          simp only [Tab.get_set, List.mem_append, List.mem_singleton]
          by_cases hk : k = x
          · simp [hk]
          · simp [hk, I.eqv k]
        · intro k
          simp only [Tab.get_set, List.mem_append, List.mem_singleton]
          by_cases hk : k = x
          · simp [hk]
          · simp [hk, I.wcv k]
        · intro k hk
          simp only [Tab.get_set] at hk
          simp only [List.mem_append, List.mem_singleton]
          by_cases hkx : k = x
          · exact Or.inr hkx
          · simp only [hkx, if_false] at hk; exact Or.inl (I.stv k hk)
      obtain ⟨I2, hk2, hst2, hkeep2⟩ := ih I1 h
      refine ⟨I2, by simp [hk2], ?_, ?_⟩
      · intro p hp
        rcases List.mem_cons.1 hp with rfl | hp
        · rw [hkeep2 _ (by simp)]; simp [Tab.get_set]
        · exact hst2 p hp
      · intro k hk
        rw [hkeep2 k (by simp [hk])]
        simp only [Tab.get_set]
        have : k ≠ x := fun e => hx (e ▸ hk)
        simp [this]

theorem addLink_spec {t t' : Tab (List Nat)} {x y : Nat} (h : addLink t x y = .ok t') :
    (t.get x).isSome = true ∧ (t.get y).isSome = true ∧
    (∀ k, (t'.get k).isSome = (t.get k).isSome) ∧
    ∀ k z, z ∈ (t'.get k).getD [] ↔ z ∈ (t.get k).getD [] ∨ (k = x ∧ z = y) ∨ (k = y ∧ z = x) := by
  unfold addLink at h
  cases hx : t.get x with
  | none => simp [hx] at h
  | some lx =>
    simp only [hx] at h
    cases hy : (t.set x (lx ++ [y])).get y with
    | none => simp [hy] at h
    | some ly =>
      simp only [hy, Except.ok.injEq] at h
      subst h
      have hy0 : (t.get y).isSome = true := by
        rw [Tab.get_set] at hy
        split at hy
        · rename_i e; rw [e, hx]; rfl
        · rw [hy]; rfl
      refine ⟨rfl, hy0, ?_, ?_⟩
      · intro k
        simp only [Tab.get_set]
        by_cases h1 : k = y
        · subst h1; simp [hy0]
        · by_cases h2 : k = x
          · subst h2; simp [h1, hx]
          · simp [h1, h2]
      · intro k z
        simp only [Tab.get_set]
        rw [Tab.get_set] at hy
        by_cases h1 : k = y
        · subst h1
          by_cases h2 : k = x
          · subst h2
            simp only [if_true, Option.some.injEq] at hy
            subst hy
            simp [hx]
          · simp only [h2, if_false] at hy
            simp [hy, h2]
        · by_cases h2 : k = x
          · subst h2
            simp [h1, hx]
          · simp [h1, h2]

theorem addLinks_spec (edges : List (Nat × Nat)) {t t' : Tab (List Nat)} (h : addLinks edges t = .ok t') :
    (∀ e ∈ edges, (t.get e.1).isSome = true ∧ (t.get e.2).isSome = true) ∧
    (∀ k, (t'.get k).isSome = (t.get k).isSome) ∧
    ∀ k z, z ∈ (t'.get k).getD [] ↔ z ∈ (t.get k).getD [] ∨ (k, z) ∈ edges ∨ (z, k) ∈ edges := by
  induction edges generalizing t with
  | nil => simp [addLinks] at h; subst h; simp
  | cons a l ih =>
    obtain ⟨x, y⟩ := a
    simp only [addLinks] at h
    cases h1 : addLink t x y with
    | error e => simp [h1] at h
    | ok t1 =>
      simp only [h1] at h
      obtain ⟨hx, hy, hs1, hm1⟩ := addLink_spec h1
      obtain ⟨he2, hs2, hm2⟩ := ih h
      refine ⟨?_, fun k => by rw [hs2, hs1], ?_⟩
      · intro e he
        rcases List.mem_cons.1 he with rfl | he
        · exact ⟨hx, hy⟩
        · have := he2 e he
          rw [hs1, hs1] at this
          exact this
      · intro k z
        rw [hm2, hm1]
        simp only [List.mem_cons, Prod.mk.injEq]
        constructor
        · rintro ((h | h | h) | h | h)
          · exact Or.inl h
          · exact Or.inr (Or.inl (Or.inl h))
          · exact Or.inr (Or.inr (Or.inl ⟨h.2, h.1⟩))
          · exact Or.inr (Or.inl (Or.inr h))
          · exact Or.inr (Or.inr (Or.inr h))
        · rintro (h | (h | h) | (h | h))
          · exact Or.inl (Or.inl h)
          · exact Or.inl (Or.inr (Or.inl h))
          · exact Or.inr (Or.inl h)
          · exact Or.inl (Or.inr (Or.inr ⟨h.2, h.1⟩))
          · exact Or.inr (Or.inr h)

theorem nb_adjOf (ks : List Nat) (t : Tab (List Nat)) (x : Nat) :
    nb (adjOf ks t) x = if x ∈ ks then (t.get x).getD [] else [] := by
  unfold nb adjOf
  induction ks with
  | nil => simp
  | cons a ks ih =>
    simp only [List.map_cons, List.lookup_cons, List.mem_cons]
    by_cases h : x = a
    · subst h; simp
    · have : (x == a) = false := by simpa using h
      simp only [this, h, false_or]
      exact ih

/-- what `build` produces: keys, link sets and templates as seeded, and the precondition of `propagate` -/
theorem build_spec {tbl : CodeTable} {s : Seeds} {c : Cons} (h : build s = .ok c)
    (hcodes : ∀ p ∈ s.inits, tbl.isCode p.2 = true) :
    c.WF tbl ∧ c.keys = s.inits.map (·.1) ∧ c.keys.Nodup ∧
    (∀ p ∈ s.inits, c.st.get p.1 = some p.2) ∧
    (∀ x y, y ∈ nb (adjOf c.keys c.eq) x ↔ (x, y) ∈ s.eqE ∨ (y, x) ∈ s.eqE) ∧
    (∀ x y, y ∈ nb (adjOf c.keys c.wc) x ↔ (x, y) ∈ s.wcE ∨ (y, x) ∈ s.wcE) := by
  unfold build at h
  cases h0 : initAll s.inits ⟨[], Tab.empty, Tab.empty, Tab.empty⟩ with
  | error e => simp [h0] at h
  | ok c0 =>
    simp only [h0] at h
    have I0 : InitInv ⟨[], Tab.empty, Tab.empty, Tab.empty⟩ :=
      ⟨by simp, by simp [Tab.get_empty], by simp [Tab.get_empty], by simp [Tab.get_empty]⟩
    obtain ⟨I, hkeys, hst, _⟩ := initAll_spec s.inits I0 h0
    simp only [List.nil_append] at hkeys
    cases h1 : addLinks s.eqE c0.eq with
    | error e => simp [h1] at h
    | ok eq1 =>
      simp only [h1] at h
      cases h2 : addLinks s.wcE c0.wc with
      | error e => simp [h2] at h
      | ok wc1 =>
        simp only [h2, Except.ok.injEq] at h
        subst h
        obtain ⟨he1, hs1, hm1⟩ := addLinks_spec s.eqE h1
        obtain ⟨he2, hs2, hm2⟩ := addLinks_spec s.wcE h2
        have isKeyE : ∀ k, (c0.eq.get k).isSome = true → k ∈ c0.keys := by
          intro k hk; rw [I.eqv k] at hk; by_cases hm : k ∈ c0.keys; exact hm; simp [hm] at hk
        have isKeyW : ∀ k, (c0.wc.get k).isSome = true → k ∈ c0.keys := by
          intro k hk; rw [I.wcv k] at hk; by_cases hm : k ∈ c0.keys; exact hm; simp [hm] at hk
        have e0 : ∀ k, (c0.eq.get k).getD [] = [] := by
          intro k; rw [I.eqv k]; split <;> rfl
        have w0 : ∀ k, (c0.wc.get k).getD [] = [] := by
          intro k; rw [I.wcv k]; split <;> rfl
        have nbE : ∀ x y, y ∈ nb (adjOf c0.keys eq1) x ↔ (x, y) ∈ s.eqE ∨ (y, x) ∈ s.eqE := by
          intro x y
          rw [nb_adjOf]
          by_cases hx : x ∈ c0.keys
          · simp only [hx, if_true, hm1, e0]; simp
          · simp only [hx, if_false]
            constructor
            · intro hh; cases hh
            · rintro (hh | hh)
              · exact absurd (isKeyE x (he1 _ hh).1) hx
              · exact absurd (isKeyE x (he1 _ hh).2) hx
        have nbW : ∀ x y, y ∈ nb (adjOf c0.keys wc1) x ↔ (x, y) ∈ s.wcE ∨ (y, x) ∈ s.wcE := by
          intro x y
          rw [nb_adjOf]
          by_cases hx : x ∈ c0.keys
          · simp only [hx, if_true, hm2, w0]; simp
          · simp only [hx, if_false]
            constructor
            · intro hh; cases hh
            · rintro (hh | hh)
              · exact absurd (isKeyW x (he2 _ hh).1) hx
              · exact absurd (isKeyW x (he2 _ hh).2) hx
        refine ⟨⟨?_, ?_, I.stv⟩, hkeys, I.nodup, hst, nbE, nbW⟩
        · constructor
          · rw [keys_adjOf, keys_adjOf]
          · rw [keys_adjOf]; exact I.nodup
          · intro y z hz
            rw [keys_adjOf]
            rcases (nbE y z).1 hz with hh | hh
            · exact isKeyE z (he1 _ hh).2
            · exact isKeyE z (he1 _ hh).1
          · intro y z hz
            rw [keys_adjOf]
            rcases (nbW y z).1 hz with hh | hh
            · exact isKeyW z (he2 _ hh).2
            · exact isKeyW z (he2 _ hh).1
          · intro y z hz
            rw [nbE] at hz ⊢
            exact hz.symm
          · intro y z hz
            rw [nbW] at hz ⊢
            exact hz.symm
        · intro x hx
          rw [hkeys] at hx
          obtain ⟨p, hp, rfl⟩ := List.mem_map.1 hx
          exact ⟨p.2, hst p hp, hcodes p hp⟩

end Pepper.ConstraintGen
