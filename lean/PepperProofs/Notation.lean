import PepperModel.Notation
/-!
# Helper lemmas for the notation converters (C08)
-/
namespace Pepper.Notation

/-! ### flattening -/

@[simp] theorem flatL_nil : flatL [] = [] := by simp [flatL]
@[simp] theorem flatL_cons (t : T) (ts : List T) : flatL (t :: ts) = t.flat ++ flatL ts := by simp [flatL]
@[simp] theorem flat_dot : T.dot.flat = ['.'] := by simp [T.flat]
@[simp] theorem flat_brk : T.brk.flat = ['+'] := by simp [T.flat]
@[simp] theorem flat_pair (i : List T) : (T.pair i).flat = '(' :: (flatL i ++ [')']) := by simp [T.flat]

theorem flatL_append (a b : List T) : flatL (a ++ b) = flatL a ++ flatL b := by
  induction a with
  | nil => simp
  | cons t ts ih => simp [ih]

@[simp] theorem sizeL_nil : sizeL [] = 0 := by simp [sizeL]
@[simp] theorem sizeL_cons (t : T) (ts : List T) : sizeL (t :: ts) = t.size + sizeL ts := by simp [sizeL]
@[simp] theorem size_dot : T.dot.size = 1 := by simp [T.size]
@[simp] theorem size_brk : T.brk.size = 1 := by simp [T.size]
@[simp] theorem size_pair (i : List T) : (T.pair i).size = 1 + sizeL i := by simp [T.size]

/-! ### parser exactness -/

@[simp] theorem parseDPAux_dot (r cur stk) : parseDPAux ('.' :: r) cur stk = parseDPAux r (T.dot :: cur) stk := by
  simp [parseDPAux]
@[simp] theorem parseDPAux_plus (r cur stk) : parseDPAux ('+' :: r) cur stk = parseDPAux r (T.brk :: cur) stk := by
  simp [parseDPAux]
@[simp] theorem parseDPAux_open (r cur stk) : parseDPAux ('(' :: r) cur stk = parseDPAux r [] (cur :: stk) := by
  simp [parseDPAux]
@[simp] theorem parseDPAux_close (r cur up stk) :
    parseDPAux (')' :: r) cur (up :: stk) = parseDPAux r (T.pair cur.reverse :: up) stk := by
  simp [parseDPAux]
@[simp] theorem parseDPAux_close_nil (r cur) : parseDPAux (')' :: r) cur [] = none := by
  simp [parseDPAux]

mutual
theorem parseDPAux_flat : ∀ (t : T) (r : List Char) (cur : List T) (stk : List (List T)),
    parseDPAux (t.flat ++ r) cur stk = parseDPAux r (t :: cur) stk
  | .dot, r, cur, stk => by simp
  | .brk, r, cur, stk => by simp
  | .pair inner, r, cur, stk => by
    have := parseDPAux_flatL inner (')' :: r) [] (cur :: stk)
    simp [this]
theorem parseDPAux_flatL : ∀ (ts : List T) (r : List Char) (cur : List T) (stk : List (List T)),
    parseDPAux (flatL ts ++ r) cur stk = parseDPAux r (ts.reverse ++ cur) stk
  | [], r, cur, stk => by simp
  | t :: ts, r, cur, stk => by
    have h1 := parseDPAux_flat t (flatL ts ++ r) cur stk
    have h2 := parseDPAux_flatL ts r (t :: cur) stk
    simp [h1, h2]
end

theorem parseDP_flat (ts : List T) : parseDP (flatL ts) = some ts := by
  have := parseDPAux_flatL ts [] [] []
  simp at this
  simp [parseDP, this, parseDPAux]

/-- the text already consumed by `parseDPAux` in state `(cur, stk)` -/
def pre : List T → List (List T) → List Char
  | cur, [] => flatL cur.reverse
  | cur, up :: stk => pre up stk ++ '(' :: flatL cur.reverse

theorem pre_cons (x : T) (cur : List T) (stk : List (List T)) : pre (x :: cur) stk = pre cur stk ++ x.flat := by
  cases stk <;> simp [pre, flatL_append]

theorem parseDPAux_sound : ∀ (s : List Char) (cur : List T) (stk : List (List T)) (ts : List T),
    parseDPAux s cur stk = some ts → flatL ts = pre cur stk ++ s := by
  intro s
  induction s with
  | nil =>
    intro cur stk ts h
    cases stk with
    | nil => simp [parseDPAux] at h; subst h; simp [pre]
    | cons _ _ => simp [parseDPAux] at h
  | cons c r ih =>
    intro cur stk ts h
    by_cases h1 : c = '.'
    · subst h1; simp at h; rw [ih _ _ _ h, pre_cons]; simp
    by_cases h2 : c = '+'
    · subst h2; simp at h; rw [ih _ _ _ h, pre_cons]; simp
    by_cases h3 : c = '('
    · subst h3; simp at h; rw [ih _ _ _ h]; simp [pre]
    by_cases h4 : c = ')'
    · subst h4
      cases stk with
      | nil => simp at h
      | cons up stk => simp at h; rw [ih _ _ _ h, pre_cons]; simp [pre]
    · simp [parseDPAux, h4] at h

theorem flat_of_parseDP {s : List Char} {ts : List T} (h : parseDP s = some ts) : flatL ts = s := by
  have := parseDPAux_sound s [] [] ts h
  simpa [pre] using this

/-! ### depth counter = grammar -/

theorem balancedAux_eq : ∀ (s : List Char) (cur : List T) (stk : List (List T)),
    balancedAux s stk.length = (parseDPAux s cur stk).isSome := by
  intro s
  induction s with
  | nil => intro cur stk; cases stk <;> simp [balancedAux, parseDPAux]
  | cons c r ih =>
    intro cur stk
    by_cases h3 : c = '('
    · subst h3; simp [balancedAux]; exact ih [] (cur :: stk)
    by_cases h4 : c = ')'
    · subst h4
      cases stk with
      | nil => simp [balancedAux]
      | cons up stk => simp [balancedAux]; exact ih _ stk
    by_cases h1 : c = '.'
    · subst h1; simp [balancedAux]; exact ih _ stk
    by_cases h2 : c = '+'
    · subst h2; simp [balancedAux]; exact ih _ stk
    · simp [balancedAux, parseDPAux, h1, h2, h4]

theorem balanced_eq (s : List Char) : balanced s = (parseDP s).isSome := balancedAux_eq s [] []

theorem balanced_iff (s : List Char) : balanced s = true ↔ (parseDP s).isSome = true := by
  rw [balanced_eq]

theorem balanced_flatL (ts : List T) : balanced (flatL ts) = true := by
  rw [balanced_iff, parseDP_flat]; rfl

theorem exists_of_balanced {s : List Char} (h : balanced s = true) : ∃ ts, parseDP s = some ts ∧ flatL ts = s := by
  rw [balanced_iff] at h
  obtain ⟨ts, hts⟩ := Option.isSome_iff_exists.mp h
  exact ⟨ts, hts, flat_of_parseDP hts⟩

theorem isDPSym_of_balancedAux : ∀ (s : List Char) (d : Nat), balancedAux s d = true → ∀ c ∈ s, isDPSym c = true := by
  intro s
  induction s with
  | nil => simp
  | cons a r ih =>
    intro d h c hc
    by_cases h3 : a = '('
    · subst h3; simp [balancedAux] at h
      rcases List.mem_cons.mp hc with rfl | hc
      · decide
      · exact ih _ h c hc
    by_cases h4 : a = ')'
    · subst h4; simp [balancedAux] at h
      rcases List.mem_cons.mp hc with rfl | hc
      · decide
      · exact ih _ h.2 c hc
    · simp [balancedAux] at h
      rcases List.mem_cons.mp hc with rfl | hc
      · simp [isDPSym]; rcases h.1 with h | h <;> simp [h]
      · exact ih _ h.2 c hc

/-! ### `dotParen2HU` at tree level -/

theorem rep_comm (n : Nat) (a : Char) (x : List Char) :
    List.replicate n a ++ a :: x = a :: (List.replicate n a ++ x) := by
  induction n with
  | zero => simp
  | succ k ih => simp [List.replicate_succ, ih]

theorem spanDots_spec : ∀ (l : List T),
    flatL l = List.replicate (spanDots l).1 '.' ++ flatL (spanDots l).2 ∧ sizeL (spanDots l).2 ≤ sizeL l := by
  intro l
  induction l with
  | nil => simp [spanDots]
  | cons t r ih =>
    cases t with
    | dot => simp [spanDots, List.replicate_succ]; refine ⟨ih.1, by omega⟩
    | brk => simp [spanDots]
    | pair i => simp [spanDots]

theorem countParens_spec : ∀ (fuel : Nat) (l : List T),
    flatL l = List.replicate (countParens fuel l).1 '(' ++ flatL (countParens fuel l).2
        ++ List.replicate (countParens fuel l).1 ')' ∧ sizeL (countParens fuel l).2 ≤ sizeL l := by
  intro fuel
  induction fuel with
  | zero => intro l; simp [countParens]
  | succ f ih =>
    intro l
    match l with
    | [] => simp [countParens]
    | [T.dot] => simp [countParens]
    | [T.brk] => simp [countParens]
    | [T.pair inner] =>
      have := ih inner
      simp [countParens, List.replicate_succ']
      refine ⟨?_, by omega⟩
      conv => lhs; rw [this.1]
      simp [rep_comm]
    | _ :: _ :: _ => simp [countParens]

theorem expand_toHU_fuel : ∀ (fuel : Nat) (ts : List T), sizeL ts < fuel → expandL (toHU fuel ts) = flatL ts := by
  intro fuel
  induction fuel with
  | zero => intro ts h; omega
  | succ f ih =>
    intro ts h
    match ts with
    | [] => simp [toHU, expandL]
    | T.brk :: r =>
      simp at h
      simp [toHU, expandL, HU.expand, ih r (by omega)]
    | T.dot :: r =>
      simp at h
      have := spanDots_spec r
      simp [toHU, expandL, HU.expand, ih _ (by omega : sizeL (spanDots r).2 < f), List.replicate_succ]
      exact this.1.symm
    | T.pair inner :: r =>
      simp at h
      have := countParens_spec f inner
      simp [toHU, expandL, HU.expand, ih r (by omega), ih _ (by omega : sizeL (countParens f inner).2 < f)]
      rw [this.1]
      simp [List.replicate_succ, rep_comm]

theorem expand_toHU (ts : List T) : expandL (toHU (sizeL ts + 1) ts) = flatL ts :=
  expand_toHU_fuel _ ts (by omega)

/-! ### HU expansion is balanced -/

theorem balancedAux_open (n : Nat) (x : List Char) (d : Nat) :
    balancedAux (List.replicate n '(' ++ x) d = balancedAux x (d + n) := by
  induction n generalizing d with
  | zero => simp
  | succ k ih => simp [List.replicate_succ, balancedAux, ih]; congr 1; omega

theorem balancedAux_close (n : Nat) (x : List Char) (d : Nat) :
    balancedAux (List.replicate n ')' ++ x) (d + n) = balancedAux x d := by
  induction n generalizing d with
  | zero => simp
  | succ k ih =>
    have : d + (k + 1) - 1 = d + k := by omega
    simp [List.replicate_succ, balancedAux, ih, this]

theorem balancedAux_dots (n : Nat) (x : List Char) (d : Nat) :
    balancedAux (List.replicate n '.' ++ x) d = balancedAux x d := by
  induction n with
  | zero => simp
  | succ k ih => simp [List.replicate_succ, balancedAux, ih]

mutual
theorem balancedAux_expand : ∀ (h : HU) (x : List Char) (d : Nat), balancedAux (h.expand ++ x) d = balancedAux x d
  | .plus, x, d => by simp [HU.expand, balancedAux]
  | .U n, x, d => by simp [HU.expand, balancedAux_dots]
  | .H n inner, x, d => by
    have := balancedAux_expandL inner (List.replicate n ')' ++ x) (d + n)
    simp [HU.expand, balancedAux_open, this, balancedAux_close]
theorem balancedAux_expandL : ∀ (hs : List HU) (x : List Char) (d : Nat), balancedAux (expandL hs ++ x) d = balancedAux x d
  | [], x, d => by simp [expandL]
  | h :: hs, x, d => by
    have h1 := balancedAux_expand h (expandL hs ++ x) d
    have h2 := balancedAux_expandL hs x d
    simp [expandL, h1, h2]
end

theorem hu_balanced (h : List HU) : balanced (expandL h) = true := by
  have := balancedAux_expandL h [] 0
  simp at this
  simp [balanced, this, balancedAux]

/-! ### token-level agreement of the notations -/

theorem expandExt_ones (s : List Char) : expandExt (s.map (fun c => (1, c))) = s := by
  induction s with
  | nil => simp [expandExt]
  | cons c r ih => simp [expandExt, ih]

theorem parseExt_plain (s : List Char) (h : ∀ c ∈ s, isDPSym c = true) :
    parseExt (s.map Tok.ch) = some (s.map (fun c => (1, c))) := by
  induction s with
  | nil => simp [parseExt]
  | cons c r ih =>
    have hc := h c (by simp)
    have hr := ih (fun c hc => h c (by simp [hc]))
    simp [parseExt, hc, hr]

theorem parseExt_runlength (rl : List (Nat × Char)) (hs : ∀ p ∈ rl, isDPSym p.2 = true) :
    parseExt (rl.flatMap (fun p => [Tok.num p.1, Tok.ch p.2])) = some rl := by
  induction rl with
  | nil => simp [parseExt]
  | cons p r ih =>
    have hc := hs p (by simp)
    have hr := ih (fun c hc => hs c (by simp [hc]))
    simp [parseExt, hc, hr]

theorem compileToks_dp_of_parseExt {toks : List Tok} {p : List (Nat × Char)} (h : parseExt toks = some p) :
    compileToks false toks = if balanced (expandExt p) then some (expandExt p) else none := by
  simp [compileToks, h, balanced_eq]

theorem plain_compiles (ts : List T) : compileToks false ((flatL ts).map Tok.ch) = some (flatL ts) := by
  have hb := balanced_flatL ts
  rw [compileToks_dp_of_parseExt (parseExt_plain _ (isDPSym_of_balancedAux _ 0 hb))]
  simp [expandExt_ones, hb]

theorem runlength_compiles (rl : List (Nat × Char)) (ts : List T) (hs : ∀ p ∈ rl, isDPSym p.2 = true)
    (he : expandExt rl = flatL ts) :
    compileToks false (rl.flatMap (fun p => [Tok.num p.1, Tok.ch p.2])) = some (flatL ts) := by
  rw [compileToks_dp_of_parseExt (parseExt_runlength rl hs), he]
  simp [balanced_flatL]

theorem unbalanced_rejected (rl : List (Nat × Char)) (hs : ∀ p ∈ rl, isDPSym p.2 = true)
    (h : balanced (expandExt rl) = false) :
    compileToks false (rl.flatMap (fun p => [Tok.num p.1, Tok.ch p.2])) = none := by
  rw [compileToks_dp_of_parseExt (parseExt_runlength rl hs)]
  simp [h]

mutual
/-- the canonical token stream of an HU term -/
def HU.toks : HU → List Tok
  | .plus => [Tok.ch '+']
  | .U n => [Tok.ch 'U', Tok.num n]
  | .H n inner => [Tok.ch 'H', Tok.num n, Tok.ch '('] ++ toksOfHU inner ++ [Tok.ch ')']
/-- the canonical token stream of an HU expression -/
def toksOfHU : List HU → List Tok
  | [] => []
  | h :: hs => h.toks ++ toksOfHU hs
end

@[simp] theorem parseHUAux_plus (r cur stk) : parseHUAux (Tok.ch '+' :: r) cur stk = parseHUAux r (HU.plus :: cur) stk := by
  simp [parseHUAux]
@[simp] theorem parseHUAux_U (n r cur stk) :
    parseHUAux (Tok.ch 'U' :: Tok.num n :: r) cur stk = parseHUAux r (HU.U n :: cur) stk := by
  simp [parseHUAux]
@[simp] theorem parseHUAux_H (n r cur stk) :
    parseHUAux (Tok.ch 'H' :: Tok.num n :: Tok.ch '(' :: r) cur stk = parseHUAux r [] ((n, cur) :: stk) := by
  simp [parseHUAux]
@[simp] theorem parseHUAux_close (n r cur up stk) :
    parseHUAux (Tok.ch ')' :: r) cur ((n, up) :: stk) = parseHUAux r (HU.H n cur.reverse :: up) stk := by
  simp [parseHUAux]

mutual
theorem parseHUAux_toks : ∀ (h : HU) (r : List Tok) (cur : List HU) (stk : List (Nat × List HU)),
    parseHUAux (h.toks ++ r) cur stk = parseHUAux r (h :: cur) stk
  | .plus, r, cur, stk => by simp [HU.toks]
  | .U n, r, cur, stk => by simp [HU.toks]
  | .H n inner, r, cur, stk => by
    have := parseHUAux_toksL inner (Tok.ch ')' :: r) [] ((n, cur) :: stk)
    simp [HU.toks, this]
theorem parseHUAux_toksL : ∀ (hs : List HU) (r : List Tok) (cur : List HU) (stk : List (Nat × List HU)),
    parseHUAux (toksOfHU hs ++ r) cur stk = parseHUAux r (hs.reverse ++ cur) stk
  | [], r, cur, stk => by simp [toksOfHU]
  | h :: hs, r, cur, stk => by
    have h1 := parseHUAux_toks h (toksOfHU hs ++ r) cur stk
    have h2 := parseHUAux_toksL hs r (h :: cur) stk
    simp [toksOfHU, h1, h2]
end

theorem parseHU_toksOfHU (h : List HU) : parseHU (toksOfHU h) = some h := by
  have := parseHUAux_toksL h [] [] []
  simp at this
  simp [parseHU, this, parseHUAux]

theorem hu_compiles (h : List HU) : compileToks true (toksOfHU h) = some (expandL h) := by
  simp [compileToks, parseHU_toksOfHU]

/-! ### tokenizer -/

/-- value of a digit string read left to right onto an accumulator -/
def digVal : List Char → Nat → Nat
  | [], acc => acc
  | c :: r, acc => digVal r (acc * 10 + (c.toNat - 48))

/-- "does not start with a digit" -/
def ndh : List Char → Prop
  | [] => True
  | c :: _ => c.isDigit = false

theorem digit_ofNat (k : Nat) (h : k < 10) :
    (Char.ofNat (48 + k)).isDigit = true ∧ (Char.ofNat (48 + k)).toNat - 48 = k := by
  have : ∀ k, k < 10 → ((Char.ofNat (48 + k)).isDigit = true ∧ (Char.ofNat (48 + k)).toNat - 48 = k) := by decide
  exact this k h

theorem not_ws_of_digit {c : Char} (h : c.isDigit = true) : isWs c = false := by
  by_cases h1 : c = ' '
  · subst h1; revert h; decide
  by_cases h2 : c = '\t'
  · subst h2; revert h; decide
  simp [isWs, h1, h2]

theorem not_digit_of_ws {c : Char} (h : isWs c = true) : c.isDigit = false := by
  cases hd : c.isDigit with
  | false => rfl
  | true => rw [not_ws_of_digit hd] at h; cases h

theorem takeNum_stop (b : List Char) (acc : Nat) (hb : ndh b) : takeNum b acc = (acc, b) := by
  cases b with
  | nil => simp [takeNum]
  | cons c r => simp [ndh] at hb; simp [takeNum, hb]

theorem takeNum_digits (ds rest : List Char) (acc : Nat) (h : ∀ c ∈ ds, c.isDigit = true) :
    takeNum (ds ++ rest) acc = takeNum rest (digVal ds acc) := by
  induction ds generalizing acc with
  | nil => simp [digVal]
  | cons c r ih =>
    have hc := h c (by simp)
    simp [takeNum, hc, digVal]
    exact ih _ (fun c hc => h c (by simp [hc]))

theorem takeNum_append (r b : List Char) (acc : Nat) (hb : ndh b) :
    takeNum (r ++ b) acc = ((takeNum r acc).1, (takeNum r acc).2 ++ b) := by
  induction r generalizing acc with
  | nil => simp [takeNum, takeNum_stop b acc hb]
  | cons c r ih =>
    by_cases hc : c.isDigit = true
    · simp [takeNum, hc, ih]
    · simp [takeNum, hc]

theorem tokenize_ws_cons (c : Char) (r : List Char) (h : isWs c = true) : tokenize (c :: r) = tokenize r := by
  rw [tokenize]; simp [h]

theorem tokenize_ch_cons (c : Char) (r : List Char) (h1 : isWs c = false) (h2 : c.isDigit = false) :
    tokenize (c :: r) = Tok.ch c :: tokenize r := by
  rw [tokenize]; simp [h1, h2]

theorem tokenize_digit_cons (c : Char) (r : List Char) (h : c.isDigit = true) :
    tokenize (c :: r) = Tok.num (takeNum r (c.toNat - 48)).1 :: tokenize (takeNum r (c.toNat - 48)).2 := by
  rw [tokenize]; simp [h, not_ws_of_digit h]

theorem tokenize_append (a b : List Char) (hb : ndh b) : tokenize (a ++ b) = tokenize a ++ tokenize b := by
  fun_induction tokenize a with
  | case1 => simp
  | case2 c r h ih => simp [tokenize_ws_cons _ _ h, ih]
  | case3 c r h1 h2 _ ih =>
    simp at h1
    simp [tokenize_digit_cons _ _ h2, takeNum_append _ _ _ hb, ih]
  | case4 c r h1 h2 ih =>
    simp at h1 h2
    simp [tokenize_ch_cons _ _ h1 h2, ih]

theorem tokenize_all_ws (w : List Char) (h : ∀ c ∈ w, isWs c = true) : tokenize w = [] := by
  induction w with
  | nil => simp [tokenize]
  | cons c r ih => rw [tokenize_ws_cons _ _ (h c (by simp))]; exact ih (fun c hc => h c (by simp [hc]))

theorem ndh_all_ws (w : List Char) (h : ∀ c ∈ w, isWs c = true) : ndh w := by
  cases w with
  | nil => trivial
  | cons c r => exact not_digit_of_ws (h c (by simp))

theorem tokenize_dropWhile (s : List Char) : tokenize (s.dropWhile isWs) = tokenize s := by
  induction s with
  | nil => simp
  | cons c r ih =>
    by_cases hc : isWs c = true
    · simp [hc, ih, tokenize_ws_cons _ _ hc]
    · simp [hc]

theorem tokenize_stripWs (s : List Char) : tokenize (stripWs s) = tokenize s := by
  have hs : s = (s.reverse.dropWhile isWs).reverse ++ (s.reverse.takeWhile isWs).reverse := by
    rw [← List.reverse_append, List.takeWhile_append_dropWhile, List.reverse_reverse]
  have hw : ∀ c ∈ (s.reverse.takeWhile isWs).reverse, isWs c = true := by
    intro c hc
    exact List.all_eq_true.mp List.all_takeWhile c (List.mem_reverse.mp hc)
  unfold stripWs
  rw [tokenize_dropWhile]
  conv => rhs; rw [hs, tokenize_append _ _ (ndh_all_ws _ hw), tokenize_all_ws _ hw]
  simp

theorem digVal_snoc (a : List Char) (d : Char) (acc : Nat) :
    digVal (a ++ [d]) acc = digVal a acc * 10 + (d.toNat - 48) := by
  induction a generalizing acc with
  | nil => simp [digVal]
  | cons c r ih => simp [digVal, ih]

theorem natStr_spec (n : Nat) :
    (∀ c ∈ natStr n, c.isDigit = true) ∧ natStr n ≠ [] ∧ digVal (natStr n) 0 = n := by
  fun_induction natStr n with
  | case1 n h =>
    have := digit_ofNat n h
    simp [digVal, this]
  | case2 n h ih =>
    have := digit_ofNat (n % 10) (by omega)
    refine ⟨?_, by simp, ?_⟩
    · intro c hc
      rcases List.mem_append.mp hc with hc | hc
      · exact ih.1 c hc
      · simp at hc; subst hc; exact this.1
    · rw [digVal_snoc, ih.2.2, this.2]; omega

theorem tokenize_natStr (n : Nat) (rest : List Char) (hr : ndh rest) :
    tokenize (natStr n ++ rest) = Tok.num n :: tokenize rest := by
  obtain ⟨hd, hne, hv⟩ := natStr_spec n
  cases hn : natStr n with
  | nil => exact absurd hn hne
  | cons c ds =>
    rw [hn] at hd hv
    have hc := hd c (by simp)
    have hds : ∀ c ∈ ds, c.isDigit = true := fun c hc => hd c (by simp [hc])
    simp [digVal] at hv
    simp [tokenize_digit_cons _ _ hc, takeNum_digits _ _ _ hds, takeNum_stop _ _ hr, hv]

theorem tokenize_renderToks (ts : List Tok)
    (h : ∀ t ∈ ts, match t with | Tok.ch c => !c.isDigit && !isWs c | _ => true) :
    tokenize (renderToks ts) = ts := by
  induction ts with
  | nil => simp [renderToks, tokenize]
  | cons t r ih =>
    have hr := ih (fun t ht => h t (by simp [ht]))
    have ht := h t (by simp)
    cases t with
    | num n =>
      have : ndh (' ' :: renderToks r) := by simp [ndh]
      simp [renderToks, tokenize_natStr _ _ this, tokenize_ws_cons ' ' _ (by decide), hr]
    | ch c =>
      simp at ht
      simp [renderToks, tokenize_ch_cons _ _ ht.2 ht.1, tokenize_ws_cons ' ' _ (by decide), hr]

/-! ### the text printed by `dotParen2HU` tokenizes to the canonical HU tokens -/

mutual
theorem tokenize_render : ∀ (h : HU) (rest : List Char), tokenize (h.render ++ rest) = h.toks ++ tokenize rest
  | .plus, rest => by
    simp [HU.render, HU.toks, tokenize_ch_cons '+' _ (by decide) (by decide), tokenize_ws_cons ' ' _ (by decide)]
  | .U n, rest => by
    have : ndh (' ' :: rest) := by simp [ndh]
    simp [HU.render, HU.toks, tokenize_ch_cons 'U' _ (by decide) (by decide), tokenize_natStr _ _ this,
      tokenize_ws_cons ' ' _ (by decide)]
  | .H n inner, rest => by
    have ih := tokenize_renderL inner
    have h1 : ndh ('(' :: (stripWs (renderL inner) ++ ')' :: ' ' :: rest)) := by simp [ndh]
    have h2 : ndh (')' :: ' ' :: rest) := by simp [ndh]
    simp [HU.render, HU.toks, tokenize_ch_cons 'H' _ (by decide) (by decide), tokenize_natStr _ _ h1,
      tokenize_ch_cons '(' _ (by decide) (by decide), tokenize_append _ _ h2, tokenize_stripWs, ih,
      tokenize_ch_cons ')' _ (by decide) (by decide), tokenize_ws_cons ' ' _ (by decide)]
theorem tokenize_renderL : ∀ (hs : List HU), tokenize (renderL hs) = toksOfHU hs
  | [] => by simp [renderL, toksOfHU, tokenize]
  | h :: hs => by
    have h1 := tokenize_render h (renderL hs)
    have h2 := tokenize_renderL hs
    simp [renderL, toksOfHU, h1, h2]
end

theorem HU2dotParen_render (h : List HU) : HU2dotParen (stripWs (renderL h)) = some (expandL h) := by
  simp [HU2dotParen, tokenize_stripWs, tokenize_renderL, parseHU_toksOfHU]

theorem hu_roundtrip (s : List Char) (h : balanced s = true) : (dotParen2HU s).bind HU2dotParen = some s := by
  obtain ⟨ts, hp, hf⟩ := exists_of_balanced h
  simp [dotParen2HU, hp, HU2dotParen_render, expand_toHU, hf]

/-! ### domain-level expansion -/

theorem splitOn_ne_nil (c : Char) (s : List Char) : splitOn c s ≠ [] := by
  induction s with
  | nil => simp [splitOn]
  | cons d r ih =>
    simp only [splitOn]
    split
    · simp
    · split <;> simp

theorem splitOn_not_mem (c : Char) (s : List Char) : ∀ p ∈ splitOn c s, c ∉ p := by
  induction s with
  | nil => simp [splitOn]
  | cons d r ih =>
    simp only [splitOn]
    split
    · simp
    · rename_i h t heq
      rw [heq] at ih
      by_cases hd : d = c
      · subst hd; simp; exact ⟨ih h (by simp), fun a ha => ih a (by simp [ha])⟩
      · simp [hd]
        refine ⟨⟨fun e => hd e.symm, ih h (by simp)⟩, fun a ha => ih a (by simp [ha])⟩

theorem splitOn_of_not_mem (c : Char) (s : List Char) (h : c ∉ s) : splitOn c s = [s] := by
  induction s with
  | nil => simp [splitOn]
  | cons d r ih =>
    simp at h
    have hd : d ≠ c := fun e => h.1 e.symm
    simp [splitOn, ih h.2, hd]

theorem splitOn_append_sep (c : Char) (a r : List Char) (h : c ∉ a) :
    splitOn c (a ++ c :: r) = a :: splitOn c r := by
  induction a with
  | nil =>
    simp only [List.nil_append, splitOn]
    split
    · rename_i heq; exact absurd heq (splitOn_ne_nil c r)
    · rename_i heq; simp [heq]
  | cons d a ih =>
    simp at h
    have hd : d ≠ c := fun e => h.1 e.symm
    simp only [List.cons_append, splitOn, ih h.2]
    simp [hd]

theorem splitOn_joinPlus (segs : List (List Char)) (hne : segs ≠ []) (h : ∀ p ∈ segs, '+' ∉ p) :
    splitOn '+' (joinPlus segs) = segs := by
  induction segs with
  | nil => exact absurd rfl hne
  | cons a r ih =>
    cases r with
    | nil => simp [joinPlus, splitOn_of_not_mem _ _ (h a (by simp))]
    | cons b r =>
      have := ih (by simp) (fun p hp => h p (by simp [hp]))
      simp only [joinPlus]
      rw [splitOn_append_sep _ _ _ (h a (by simp)), this]

theorem mem_expandStrand : ∀ (s : List Char) (d : List Nat) (c : Char), c ∈ expandStrand s d → c ∈ s := by
  intro s
  induction s with
  | nil => intro d c h; simp [expandStrand] at h
  | cons a r ih =>
    intro d c h
    cases d with
    | nil => simp [expandStrand] at h
    | cons n ns =>
      simp [expandStrand] at h
      rcases h with h | h
      · simp [h.2]
      · simp [ih ns c h]

theorem length_expandStrand : ∀ (s : List Char) (d : List Nat), s.length = d.length →
    (expandStrand s d).length = d.sum := by
  intro s
  induction s with
  | nil => intro d h; cases d <;> simp_all [expandStrand]
  | cons a r ih =>
    intro d h
    cases d with
    | nil => simp at h
    | cons n ns => simp at h; simp [expandStrand, ih ns h]

/-- the per-strand expansions used by `domainExpand` -/
def segsOf (subs : List (List Char)) (doms : List (List Nat)) : List (List Char) :=
  (List.zip subs doms).map (fun (s, d) => expandStrand s d)

theorem segsOf_spec : ∀ (subs : List (List Char)) (doms : List (List Nat)), subs.length = doms.length →
    (List.zip subs doms).all (fun (s, d) => s.length == d.length) = true →
    (segsOf subs doms).length = doms.length ∧
    (List.zip (segsOf subs doms) (doms.map List.sum)).all (fun (s, n) => s.length == n) = true := by
  intro subs
  induction subs with
  | nil => intro doms h _; cases doms <;> simp_all [segsOf]
  | cons s subs ih =>
    intro doms h hall
    cases doms with
    | nil => simp at h
    | cons d doms =>
      simp at h hall
      have := ih doms h (by simpa using hall.2)
      simp [segsOf] at this ⊢
      exact ⟨this.1, length_expandStrand s d hall.1, this.2⟩

theorem segsOf_not_mem (subs : List (List Char)) (doms : List (List Nat)) (h : ∀ p ∈ subs, '+' ∉ p) :
    ∀ p ∈ segsOf subs doms, '+' ∉ p := by
  intro p hp hmem
  simp [segsOf] at hp
  obtain ⟨s, d, hz, rfl⟩ := hp
  exact h s (List.of_mem_zip hz).1 (mem_expandStrand s d _ hmem)

theorem domainExpand_eq (struct : List Char) (doms : List (List Nat)) :
    domainExpand struct doms =
      if (splitOn '+' struct).length = doms.length ∧
          (List.zip (splitOn '+' struct) doms).all (fun (s, d) => s.length == d.length) = true ∧
          balanced (joinPlus (segsOf (splitOn '+' struct) doms)) = true
      then some (joinPlus (segsOf (splitOn '+' struct) doms)) else none := by
  unfold domainExpand segsOf
  by_cases h1 : (splitOn '+' struct).length = doms.length
  · by_cases h2 : (List.zip (splitOn '+' struct) doms).all (fun (s, d) => s.length == d.length) = true
    · simp [h1, h2]
    · simp [h1, h2]
  · simp [h1]

theorem domainExpand_sound {struct : List Char} {doms : List (List Nat)} {full : List Char}
    (h : domainExpand struct doms = some full) :
    balanced full = true ∧ sizesOk full (doms.map List.sum) = true := by
  rw [domainExpand_eq] at h
  split at h
  · rename_i hc
    obtain ⟨h1, h2, h3⟩ := hc
    simp at h; subst h
    refine ⟨h3, ?_⟩
    have hspec := segsOf_spec _ _ h1 h2
    have hne : segsOf (splitOn '+' struct) doms ≠ [] := by
      intro e
      have hl := hspec.1
      rw [e] at hl
      have := splitOn_ne_nil '+' struct
      rw [← h1] at hl
      exact this (List.length_eq_zero_iff.mp hl.symm)
    have hsp := splitOn_joinPlus _ hne (segsOf_not_mem _ doms (splitOn_not_mem '+' struct))
    unfold sizesOk
    simp only [hsp]
    simp [hspec.1, hspec.2]
  · simp at h

end Pepper.Notation
