import PepperProofs.CompDenote
/-!
# C01: the compile path of one component preserves the design (assembly of the parts)

Parts: `CompBuild` (closed form of `buildSuper`), `CompReg` (normal form, `registerAnon`), `CompInv`
(inversion of `addStmt`), `CompWF` / `CompStep` (well-formedness invariant), `CompEmit` (the emitted PIL
loads and denotes `designOf`), `CompDenote` (lock step with the specification `Denote.denoteComp`).
-/
set_option linter.unusedSimpArgs false
namespace Pepper.Comp
open Pepper.Constraint Pepper.Denote

theorem mapM_ok_mem {α β ε} {f : α → Except ε β} {l : List α} {r : List β} (h : l.mapM f = .ok r) :
    ∀ a ∈ l, ∃ b, f a = .ok b := by
  intro a ha
  have hm := mapM_ok_inv h
  have : f a ∈ l.map f := List.mem_map.mpr ⟨a, ha, rfl⟩
  rw [hm] at this
  obtain ⟨b, _, hb⟩ := List.mem_map.mp this
  exact ⟨b, hb.symm⟩

def PortOk (s : St) (p : Port) : Prop :=
  (∃ e, s.findSeq p.seq = some e) ∧ ∀ sn, p.struct = some sn → (s.findStruct sn).isSome = true

theorem addIO_inv {s st : St} {ins outs : List Port} (h : addIO s ins outs = .ok st) :
    (st.pfx = s.pfx ∧ st.seqs = s.seqs ∧ st.strands = s.strands ∧ st.structs = s.structs ∧ st.kins = s.kins) ∧
    ∀ p ∈ ins ++ outs, PortOk s p := by
  unfold addIO at h
  simp only [bind, Except.bind] at h
  split at h
  · simp at h
  · rename_i vi hi
    split at h
    · simp at h
    · rename_i vo ho
      simp only [pure, Except.pure, Except.ok.injEq] at h
      subst h
      refine ⟨⟨rfl, rfl, rfl, rfl, rfl⟩, ?_⟩
      intro p hp
      rcases List.mem_append.mp hp with hp | hp
      · obtain ⟨b, hb⟩ := mapM_ok_mem hi p hp
        cases hf : s.findSeq p.seq with
        | none => simp [hf, throw, throwThe, MonadExceptOf.throw] at hb
        | some e =>
          refine ⟨⟨e, hf⟩, ?_⟩
          intro sn hsn
          simp only [hf, hsn] at hb
          cases hs : s.findStruct sn with
          | none => simp [hs, throw, throwThe, MonadExceptOf.throw] at hb
          | some x => rfl
      · obtain ⟨b, hb⟩ := mapM_ok_mem ho p hp
        cases hf : s.findSeq p.seq with
        | none => simp [hf, throw, throwThe, MonadExceptOf.throw] at hb
        | some e =>
          refine ⟨⟨e, hf⟩, ?_⟩
          intro sn hsn
          simp only [hf, hsn] at hb
          cases hs : s.findStruct sn with
          | none => simp [hs, throw, throwThe, MonadExceptOf.throw] at hb
          | some x => rfl

/-! ### hypotheses on the source -/

/-- no user-chosen sequence name (defined, mentioned in an item list or a port) has the reserved form
    `_Anon<digits>`, contains `*` or is empty -/
def UserNamesOk (src : Src) : Bool :=
  src.stmts.all stmtNamesOk && (src.inputs ++ src.outputs).all (fun p => okName p.seq)

/-- every code letter written in a quoted region of the source is a code of the table -/
def CodesOk (tbl : CodeTable) (src : Src) : Bool := src.stmts.all (stmtCodesOk tbl)

/-- equality of designs in everything a PIL statement list carries (all fields except `kinetics`).
    This is plain equality — stronger than equality up to a renaming of anonymous domains: the model and the
    specification number anonymous regions identically (the wildcard region of a statement last). -/
def DesignEquiv (d1 d2 : Design) : Prop :=
  d1.domains = d2.domains ∧ d1.seqs = d2.seqs ∧ d1.strands = d2.strands ∧ d1.structs = d2.structs ∧
    d1.equals = d2.equals

/-- the line `output_synthesis` writes for a kinetic reaction -/
def renderKin (k : KinD) : String :=
  "kinetic [" ++ k.low ++ " /M/s < k < " ++ k.high ++ " /M/s] " ++
    joinWith " + " k.inputs ++ " -> " ++ joinWith " + " k.outputs

theorem load_inv {src : Src} {n : Nat} {pfx : String} {a : Nat} {st : St} {a' : Nat}
    (h : load src n pfx a = .ok (st, a')) :
    ∃ s, addStmts { name := src.name, pfx := pfx, params := src.params } a src.stmts = .ok (s, a') ∧
      addIO s src.inputs src.outputs = .ok st := by
  unfold load at h
  by_cases hp : src.params.length = n
  · simp only [hp, bne_self_eq_false, Bool.false_eq_true, if_false, bind, Except.bind] at h
    split at h
    · simp at h
    · rename_i v hv
      obtain ⟨s, a1⟩ := v
      simp only at h
      split at h
      · simp at h
      · rename_i st' hst
        simp only [pure, Except.pure, Except.ok.injEq, Prod.mk.injEq] at h
        obtain ⟨rfl, rfl⟩ := h
        exact ⟨s, hv, hst⟩
  · simp [hp, bind, Except.bind, throw, throwThe, MonadExceptOf.throw] at h

theorem WF_init (name pfx : String) (params : List String) (a : Nat) :
    WF { name := name, pfx := pfx, params := params } a :=
  ⟨⟨by simp, by simp, by simp, by simp, by simp⟩, by simp, by simp, by simp, by simp⟩

theorem Agree_init (name pfx : String) (params : List String) (a : Nat) :
    Agree pfx { name := name, pfx := pfx, params := params } { anon := a } {} a :=
  ⟨rfl, by simp, by simp [findE], by simp, by simp [findT], rfl, rfl, rfl, rfl, rfl, rfl⟩

theorem kinLines (s : St) :
    (emitPil s).drop (Emit.compStmts s).length = (s.kins.map (kinD s.pfx)).map renderKin := by
  unfold emitPil Emit.compStmts
  simp only []
  rw [List.drop_left']
  · rw [List.map_map]; rfl
  · simp

/-- C01 for one component: the emitted PIL loads, the specification accepts the source, and both denote the
    same design; the kinetic lines of the emitted text are the denoted reactions -/
theorem compile_preserves (tbl : CodeTable) (src : Src) (n : Nat) (pfx : String) (a : Nat) (st : St) (a' : Nat)
    (hload : load src n pfx a = .ok (st, a')) (hnames : UserNamesOk src = true) (hcodes : CodesOk tbl src = true) :
    ∃ spec o ports, Pil.load tbl (Emit.compStmts st) {} = .ok spec ∧
      denoteComp src pfx a = .ok (o, ports, a') ∧ DesignEquiv (Pil.denote spec) (o.design []) ∧
      (emitPil st).drop (Emit.compStmts st).length = o.kinetics.map renderKin := by
  obtain ⟨s, hadd, hio⟩ := load_inv hload
  simp only [UserNamesOk, Bool.and_eq_true, List.all_eq_true] at hnames
  simp only [CodesOk, List.all_eq_true] at hcodes
  obtain ⟨env, o, hden, hw, hA, hpfx⟩ :=
    addStmts_agree (p := pfx) (WF_init src.name pfx src.params a) (Agree_init src.name pfx src.params a) hnames.1 hadd
  simp only at hpfx
  -- the alphabet invariant
  have hci : CodesInv tbl s := by
    have key : ∀ (stmts : List Stmt) (s0 : St) (a0 : Nat) (s1 : St) (a1 : Nat), WF s0 a0 → CodesInv tbl s0 →
        (∀ x ∈ stmts, stmtNamesOk x = true) → (∀ x ∈ stmts, stmtCodesOk tbl x = true) →
        addStmts s0 a0 stmts = .ok (s1, a1) → CodesInv tbl s1 := by
      intro stmts
      induction stmts with
      | nil =>
        intro s0 a0 s1 a1 _ hc _ _ h
        simp only [addStmts, Except.ok.injEq, Prod.mk.injEq] at h
        rw [← h.1]; exact hc
      | cons x r ih =>
        intro s0 a0 s1 a1 hw0 hc hn hco h
        simp only [addStmts] at h
        cases h1 : addStmt s0 a0 x with
        | error e => simp [h1] at h
        | ok v =>
          obtain ⟨s2, a2⟩ := v
          simp only [h1] at h
          exact ih s2 a2 s1 a1 (addStmt_WF hw0 (hn x (by simp)) h1).1
            (addStmt_codes hw0 hc (hn x (by simp)) (hco x (by simp)) h1)
            (fun y hy => hn y (by simp [hy])) (fun y hy => hco y (by simp [hy])) h
    exact key src.stmts _ a s a' (WF_init src.name pfx src.params a) (by intro e he; simp at he) hnames.1 hcodes hadd
  obtain ⟨⟨hsp, hss, hst, hsu, hsk⟩, hports⟩ := addIO_inv hio
  have hcomp : Emit.compStmts st = Emit.compStmts s := by
    simp only [Emit.compStmts, St.baseSeqs, St.supSeqs, hsp, hss, hst, hsu]
  have hemit : emitPil st = emitPil s := by
    simp only [emitPil, St.baseSeqs, St.supSeqs, hsp, hss, hst, hsu, hsk]
  obtain ⟨spec, hl, hd⟩ := emit_sound tbl hw hci
  -- ports
  have hpm : (src.inputs ++ src.outputs).mapM (fun (p : Comp.Port) =>
      match env.seqs.lookup p.seq with
      | none => (throw Denote.Err.undefined : Except Denote.Err (List Nuc × Bool))
      | some b =>
        match p.struct with
        | some sn => if o.structs.any (·.name == pfx ++ sn) then pure (b.nucs, p.star) else throw Denote.Err.undefined
        | none => pure (b.nucs, p.star)) =
      .ok ((src.inputs ++ src.outputs).map (fun p => (((env.seqs.lookup p.seq).map (·.nucs)).getD [], p.star))) := by
    apply mapM_ok_of_forall
    intro p hp
    obtain ⟨⟨e, he⟩, hstr⟩ := hports p hp
    have hok := hnames.2 p hp
    cases hlk : env.seqs.lookup p.seq with
    | none => rw [findSeq_eq, hA.seqsNone p.seq hok hlk] at he; simp at he
    | some b =>
      cases hps : p.struct with
      | none => rfl
      | some sn =>
        have := hstr sn hps
        have hany : o.structs.any (·.name == pfx ++ sn) = true := by
          rw [hA.structs, any_struct_name pfx s.structs sn _ (fun _ => rfl)]
          exact this
        simp only [hany, if_true]
        rfl
  refine ⟨spec, o, (src.inputs ++ src.outputs).map (fun p => (((env.seqs.lookup p.seq).map (·.nucs)).getD [], p.star)),
    by rw [hcomp]; exact hl, ?_, ?_, ?_⟩
  · unfold denoteComp
    simp only [hden, bind, Except.bind]
    generalize hm : List.mapM (m := Except Denote.Err) (β := List Nuc × Bool) _ (src.inputs ++ src.outputs) = m
    have hm' : m = .ok ((src.inputs ++ src.outputs).map (fun p => (((env.seqs.lookup p.seq).map (·.nucs)).getD [], p.star))) := by
      rw [← hm]; exact hpm
    subst hm'
    simp only [pure, Except.pure, hA.anon]
  · rw [hd]
    simp only [designOf, Out.design, DesignEquiv, hpfx, hA.domains, hA.baseSeqs, hA.supSeqs, hA.ostrands, hA.structs,
      List.map_append, and_self]
  · rw [hcomp, hemit, kinLines s, hpfx, hA.kinetics]

/-- a small component used by the non-vacuity examples of C01: two atomic sequences (one with a wildcard),
    a super-sequence with a quoted wildcard region and a starred item, a strand using `domains(s*)`, a structure
    in run-length notation with a fractional optimisation bound, a kinetic statement, two ports -/
def exampleSrc : Src :=
  { name := "c", params := [], inputs := [⟨"a", false, none⟩], outputs := [⟨"s", true, some "T"⟩],
    stmts := [
      .seq "a" [.nuc "3N".toList] none,
      .seq "b" [.nuc "2S ?W".toList] (some 4),
      .seq "s" [.ref "a" false, .nuc "2R ?Y".toList, .ref "b" true] (some 10),
      .strand false "X" [.ref "s" false, .domains "s" true] none,
      .struct (.value "2.50") "T" ["X"] false "10( 10)".toList,
      .kinetic none (some "100") ["T"] ["T"] ] }

end Pepper.Comp
