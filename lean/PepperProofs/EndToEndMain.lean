import PepperProofs.EndToEndLayout
import PepperProofs.EndToEndLayoutT
import PepperProofs.EndToEndMfe
import PepperProofs.EndToEndTree
import PepperProofs.EndToEndFinish
import PepperProofs.EndToEndNames
import PepperProofs.LoadInvDes
import PepperProps.C02
import PepperProps.C01
/-!
# C06 end to end: the composition

`end_to_end_spec` chains the stage lemmas on a loaded specification (strand layout, the default of
`pepper-design-spurious`): stage 1 `assignment_of_good` (EndToEndAsg: arrays + `ArraysGood` ↦ assignment),
layout `startOk_strand` (EndToEndLayout), stage 2 `processResults_ok` and stage 3 `output_ok` (EndToEndMfe),
stage 4 `finish_ok` (EndToEndFinish) over `treeIn_of_load` (EndToEndTree: the saved tree sits in the specification).
`end_to_end_comp` / `end_to_end_tree` put C01 / C02 in front: the conclusion is about the design the SOURCE denotes.

Stage 3 is stated on the record list (`mfeRecs`, with the lines `mfeLines` that carry the opaque `GC` token):
`Finish.apply` consumes the `(name, sequence)` list `mfeDesign`.  The text level is C17 `reader_roundtrip` /
C06 `through_the_file` with a genuine float in place of `GC`; it is not composed here (it needs the name alphabet).

`arraysGoodB` is the executable form of `ArraysGood` (used by the non-vacuity example).
-/
namespace Pepper.EndToEnd
open Pepper Pepper.Pil Pepper.ConstraintGen Pepper.LinkSpec


theorem pil_complBases : complBases Generated.pilTable = true := by decide
theorem dna_compl : Generated.dnaTable.compl = Generated.pilTable.compl := by decide

/-- the strings of the strands as `process_results` collects them -/
def strandSeqs (spec : Spec) (asg : Var → Base) : List (String × List Char) :=
  spec.strands.map (fun st => (st.name, spell asg (nucsOfBases st.bases)))

theorem letter_congr {t : CodeTable} {d d' : Design} (h1 : d.domains = d'.domains) (h3 : d.strands = d'.strands)
    (asg : Var → Base) (n : Nuc) : letter t d asg n = letter t d' asg n := by
  unfold letter onStrand templateOf
  rw [h1, h3]

theorem entries_congr {t : CodeTable} {d d' : Design} (h : Comp.DesignEquiv d d') {asg : Var → Base} {out : Finish.Out}
    (he : Entries t d asg out) : Entries t d' asg out := by
  obtain ⟨h1, h2, h3, h4, _⟩ := h
  refine ⟨?_, ?_, ?_⟩
  · intro x hx; exact he.strands x (h3 ▸ hx)
  · intro x hx str hm hne
    have := he.seqs x (h2 ▸ hx) str hm hne
    rw [this]
    unfold spellT
    exact List.map_congr_left (fun n _ => letter_congr h1 h3 asg n)
  · intro sd hsd str hm
    have := he.structs sd (h4 ▸ hsd) str hm
    rw [this]
    unfold strandNucs
    rw [h3]

theorem sat_congr' {t : CodeTable} {d d' : Design} (h : Comp.DesignEquiv d d') {asg : Var → Base}
    (hs : Sat t d asg) : Sat t d' asg := by
  obtain ⟨h1, _, h3, h4, h5⟩ := h
  exact LoadInv.sat_of_congr h1 h5 h3 (by rw [h4]) hs

/-- **The chain on a loaded specification, either layout**, relative to a non-raising seeding (`hs`, `hb`) and the
    layout fact `hstart` (`startOk_strand` / `startOk_struct`): for arrays `a` returned by `get_constraints` and any
    nucleotide string satisfying them, there is an assignment `asg` of bases to the domain positions that reads the
    string (`nts[i]` is the base of the nucleotide at every non-blank `i`) and satisfies the specification; loading the
    string (`process_results`) succeeds and collects the strands' letters; `output` writes exactly the records
    `mfeRecs`; `finish` on the saved tree accepts their `name ↦ sequence` list; and the finished entries spell the
    design of the specification. -/
theorem end_to_end_core {mode : Layout} {stmts : List Stmt} {spec : Spec}
    (hload : Pil.load Generated.nupackTable stmts {} = .ok spec) {s : Seeds} {c : Cons}
    (hs : seeds mode spec = .ok s) (hb : build s = .ok c) {inst : Sys.Inst} (hin : TreeIn spec inst)
    (hn : MfeNamesDistinct spec) {a : Arrays} (ha : getConstraints mode spec = .ok a) {nts : List Char}
    (hg : ArraysGood a nts)
    (hstart : ∀ asg : Var → Base, (∀ (i : Nat) (m : Nuc), denOf mode spec i = some m →
      (∃ ch, a.2.2[i]? = some (some ch)) → nts[i]? = some (val asg m).toChar) →
      StartOk spec (startOf mode spec) nts asg) :
    ∃ (asg : Var → Base) (assigned : Mfe.Assigned) (out : Finish.Out),
      (∀ (i : Nat) (m : Nuc), denOf mode spec i = some m → (∃ ch, a.2.2[i]? = some (some ch)) →
        nts[i]? = some (val asg m).toChar) ∧
      Sat Generated.pilTable (Pil.denote spec) asg ∧
      Mfe.processResults Generated.pilTable spec (startOf mode spec) nts = .ok (assigned, strandSeqs spec asg) ∧
      Mfe.output Generated.pilTable spec assigned (strandSeqs spec asg) = some (mfeLines Generated.pilTable spec asg) ∧
      Finish.apply Generated.dnaTable inst (mfeDesign Generated.pilTable spec asg) = .ok out ∧
      Entries Generated.pilTable (Pil.denote spec) asg out := by
  have wf := load_wf hload
  have ok := load_specCodes hload
  obtain ⟨asg, hsat, hasg⟩ := assignment_of_good hload hs hb ha hg
  have hst := hstart asg hasg
  obtain ⟨assigned, hpr, hgood⟩ := processResults_ok pil_complBases wf hst
  have hout := output_ok pilLawful pil_complBases wf ok hgood
  obtain ⟨out, hap, hent⟩ := finish_ok pilLawful pil_complBases dna_compl wf ok hn hin asg
  exact ⟨asg, assigned, out, hasg, hsat, hpr, hout, hap, hent⟩

/-- **The chain on a loaded specification, strand layout** (the default of `pepper-design-spurious`): no side condition -/
theorem end_to_end_spec {stmts : List Stmt} {spec : Spec}
    (hload : Pil.load Generated.nupackTable stmts {} = .ok spec) {inst : Sys.Inst} (hin : TreeIn spec inst)
    (hn : MfeNamesDistinct spec) {a : Arrays} (ha : getConstraints .strand spec = .ok a) {nts : List Char}
    (hg : ArraysGood a nts) :
    ∃ (asg : Var → Base) (assigned : Mfe.Assigned) (out : Finish.Out),
      (∀ (i : Nat) (m : Nuc), denOf .strand spec i = some m → (∃ ch, a.2.2[i]? = some (some ch)) →
        nts[i]? = some (val asg m).toChar) ∧
      Sat Generated.pilTable (Pil.denote spec) asg ∧
      Mfe.processResults Generated.pilTable spec (startOf .strand spec) nts = .ok (assigned, strandSeqs spec asg) ∧
      Mfe.output Generated.pilTable spec assigned (strandSeqs spec asg) = some (mfeLines Generated.pilTable spec asg) ∧
      Finish.apply Generated.dnaTable inst (mfeDesign Generated.pilTable spec asg) = .ok out ∧
      Entries Generated.pilTable (Pil.denote spec) asg out := by
  obtain ⟨s, c, hs, hb⟩ := seeding_total_strand (load_wf hload)
  exact end_to_end_core hload hs hb hin hn ha hg (fun _ hasg => startOk_strand hload ha hasg)

open Pepper.Sys Pepper.SysProofs in
/-- **End to end, systems (strand layout).** -/
theorem end_to_end_tree {b : Bundle} {fuel : Nat} {base : String} {args : Nat} {argKey pfx path : String}
    {includes : List String} {anon : Nat} {inst : Inst} {a' : Nat}
    (hfile : Sys.loadFile b fuel base args argKey pfx path includes anon = .ok (inst, a'))
    (hb : bundleOk Generated.nupackTable b = true) :
    ∃ spec d ports,
      Pil.load Generated.nupackTable (Emit.instStmts inst) {} = .ok spec ∧
      Denote.denoteFile b fuel base args argKey pfx path includes anon = .ok (d, ports, a') ∧
      ∀ (_ : MfeNamesDistinct spec) (a : Arrays) (_ : getConstraints .strand spec = .ok a) (nts : List Char)
        (_ : ArraysGood a nts),
        ∃ (asg : Var → Base) (assigned : Mfe.Assigned) (out : Finish.Out),
          Mfe.processResults Generated.pilTable spec (startOf .strand spec) nts = .ok (assigned, strandSeqs spec asg) ∧
          Mfe.output Generated.pilTable spec assigned (strandSeqs spec asg) =
            some (mfeLines Generated.pilTable spec asg) ∧
          Finish.apply Generated.dnaTable inst (mfeDesign Generated.pilTable spec asg) = .ok out ∧
          Sat Generated.pilTable d asg ∧ Entries Generated.pilTable d asg out := by
  obtain ⟨spec, d, ports, hload, hden, hequiv⟩ :=
    C02.system_preserves_design Generated.nupackTable b fuel base args argKey pfx path includes anon inst a' hfile hb
  refine ⟨spec, d, ports, hload, hden, ?_⟩
  intro hn a ha nts hg
  have hP : LoadInv.CompSrcsOk (fun c => LoadInv.StmtNamesOk c = true ∧ Comp.CodesOk Generated.nupackTable c = true) b :=
    fun k c hl => ⟨LoadInv.stmtNamesOk_of_user (bundleOk_comp hb hl).1, (bundleOk_comp hb hl).2⟩
  have hL := LoadInv.loadFile_loaded (Q := fun _ => True) hP (fun _ _ _ => trivial) _ _ _ _ _ _ _ _ _ _ hfile
  have hin := treeIn_of_load hL hload
  obtain ⟨asg, assigned, out, _, hsat, hpr, hout, hap, hent⟩ := end_to_end_spec hload hin hn ha hg
  exact ⟨asg, assigned, out, hpr, hout, hap, sat_congr' hequiv hsat, entries_congr hequiv hent⟩

open Pepper.Comp in
/-- **End to end, one component (strand layout).** -/
theorem end_to_end_comp {src : Comp.Src} {n : Nat} {pfx : String} {anon : Nat} {st : Comp.St} {a' : Nat}
    (hcomp : Comp.load src n pfx anon = .ok (st, a'))
    (hnames : UserNamesOk src = true) (hcodes : CodesOk Generated.nupackTable src = true) :
    ∃ spec o ports,
      Pil.load Generated.nupackTable (Emit.compStmts st) {} = .ok spec ∧
      Denote.denoteComp src pfx anon = .ok (o, ports, a') ∧
      ∀ (_ : MfeNamesDistinct spec) (a : Arrays) (_ : getConstraints .strand spec = .ok a) (nts : List Char)
        (_ : ArraysGood a nts),
        ∃ (asg : Var → Base) (assigned : Mfe.Assigned) (out : Finish.Out),
          Mfe.processResults Generated.pilTable spec (startOf .strand spec) nts = .ok (assigned, strandSeqs spec asg) ∧
          Mfe.output Generated.pilTable spec assigned (strandSeqs spec asg) =
            some (mfeLines Generated.pilTable spec asg) ∧
          Finish.apply Generated.dnaTable (.comp st) (mfeDesign Generated.pilTable spec asg) = .ok out ∧
          Sat Generated.pilTable (o.design []) asg ∧ Entries Generated.pilTable (o.design []) asg out := by
  obtain ⟨spec, o, ports, hload, hden, hequiv, _⟩ :=
    compile_preserves Generated.nupackTable src n pfx anon st a' hcomp hnames hcodes
  refine ⟨spec, o, ports, hload, hden, ?_⟩
  intro hn a ha nts hg
  have hL : LoadInv.Loaded (fun c => LoadInv.StmtNamesOk c = true ∧ Comp.CodesOk Generated.nupackTable c = true)
      (fun _ => True) pfx (.comp st) :=
    LoadInv.Loaded.comp ⟨LoadInv.stmtNamesOk_of_user hnames, hcodes⟩ hcomp
  have hload' : Pil.load Generated.nupackTable (Emit.instStmts (.comp st)) {} = .ok spec := by
    rw [SysProofs.instStmts_comp]; exact hload
  have hin := treeIn_of_load hL hload'
  obtain ⟨asg, assigned, out, _, hsat, hpr, hout, hap, hent⟩ := end_to_end_spec hload hin hn ha hg
  exact ⟨asg, assigned, out, hpr, hout, hap, sat_congr' hequiv hsat, entries_congr hequiv hent⟩

/-- **The chain on a loaded specification, structure layout**, when every strand is non-empty and occurs in some
    structure (otherwise `get_constraints` / `process_results` raise on `strand_start[..] = None`) -/
theorem end_to_end_spec_struct {stmts : List Stmt} {spec : Spec}
    (hload : Pil.load Generated.nupackTable stmts {} = .ok spec) (hp : Placed spec)
    (hne : ∀ o ∈ spec.strands, o.len ≠ 0) {inst : Sys.Inst} (hin : TreeIn spec inst)
    (hn : MfeNamesDistinct spec) {a : Arrays} (ha : getConstraints .struct spec = .ok a) {nts : List Char}
    (hg : ArraysGood a nts) :
    ∃ (asg : Var → Base) (assigned : Mfe.Assigned) (out : Finish.Out),
      (∀ (i : Nat) (m : Nuc), denOf .struct spec i = some m → (∃ ch, a.2.2[i]? = some (some ch)) →
        nts[i]? = some (val asg m).toChar) ∧
      Sat Generated.pilTable (Pil.denote spec) asg ∧
      Mfe.processResults Generated.pilTable spec (startOf .struct spec) nts = .ok (assigned, strandSeqs spec asg) ∧
      Mfe.output Generated.pilTable spec assigned (strandSeqs spec asg) = some (mfeLines Generated.pilTable spec asg) ∧
      Finish.apply Generated.dnaTable inst (mfeDesign Generated.pilTable spec asg) = .ok out ∧
      Entries Generated.pilTable (Pil.denote spec) asg out := by
  obtain ⟨s, c, hs, hb⟩ := seeding_total_struct (load_wf hload) hp
  exact end_to_end_core hload hs hb hin hn ha hg (fun _ hasg => startOk_struct hload hp hne ha hasg)

open Pepper.Sys Pepper.SysProofs in
/-- **End to end, systems (structure layout).** -/
theorem end_to_end_tree_struct {b : Bundle} {fuel : Nat} {base : String} {args : Nat} {argKey pfx path : String}
    {includes : List String} {anon : Nat} {inst : Inst} {a' : Nat}
    (hfile : Sys.loadFile b fuel base args argKey pfx path includes anon = .ok (inst, a'))
    (hb : bundleOk Generated.nupackTable b = true) :
    ∃ spec d ports,
      Pil.load Generated.nupackTable (Emit.instStmts inst) {} = .ok spec ∧
      Denote.denoteFile b fuel base args argKey pfx path includes anon = .ok (d, ports, a') ∧
      ∀ (_ : Placed spec) (_ : ∀ o ∈ spec.strands, o.len ≠ 0) (_ : MfeNamesDistinct spec) (a : Arrays)
        (_ : getConstraints .struct spec = .ok a) (nts : List Char) (_ : ArraysGood a nts),
        ∃ (asg : Var → Base) (assigned : Mfe.Assigned) (out : Finish.Out),
          Mfe.processResults Generated.pilTable spec (startOf .struct spec) nts = .ok (assigned, strandSeqs spec asg) ∧
          Mfe.output Generated.pilTable spec assigned (strandSeqs spec asg) =
            some (mfeLines Generated.pilTable spec asg) ∧
          Finish.apply Generated.dnaTable inst (mfeDesign Generated.pilTable spec asg) = .ok out ∧
          Sat Generated.pilTable d asg ∧ Entries Generated.pilTable d asg out := by
  obtain ⟨spec, d, ports, hload, hden, hequiv⟩ :=
    C02.system_preserves_design Generated.nupackTable b fuel base args argKey pfx path includes anon inst a' hfile hb
  refine ⟨spec, d, ports, hload, hden, ?_⟩
  intro hp hne hn a ha nts hg
  have hP : LoadInv.CompSrcsOk (fun c => LoadInv.StmtNamesOk c = true ∧ Comp.CodesOk Generated.nupackTable c = true) b :=
    fun k c hl => ⟨LoadInv.stmtNamesOk_of_user (bundleOk_comp hb hl).1, (bundleOk_comp hb hl).2⟩
  have hL := LoadInv.loadFile_loaded (Q := fun _ => True) hP (fun _ _ _ => trivial) _ _ _ _ _ _ _ _ _ _ hfile
  have hin := treeIn_of_load hL hload
  obtain ⟨asg, assigned, out, _, hsat, hpr, hout, hap, hent⟩ := end_to_end_spec_struct hload hp hne hin hn ha hg
  exact ⟨asg, assigned, out, hpr, hout, hap, sat_congr' hequiv hsat, entries_congr hequiv hent⟩

open Pepper.Sys Pepper.SysProofs in
/-- **`MfeNamesDistinct` for compiled trees** reduces to the genuine content of F13: under the bundle hypotheses, the
    names written into the `.mfe` file are pairwise distinct as soon as no structure is named like a sequence or a
    starred sequence (`StructSeqApart`). -/
theorem mfeNamesDistinct_of_compile {b : Bundle} {fuel : Nat} {base : String} {args : Nat} {argKey pfx path : String}
    {includes : List String} {anon : Nat} {inst : Inst} {a' : Nat}
    (hfile : Sys.loadFile b fuel base args argKey pfx path includes anon = .ok (inst, a'))
    (hb : bundleOk Generated.nupackTable b = true) {spec : Spec}
    (hload : Pil.load Generated.nupackTable (Emit.instStmts inst) {} = .ok spec) (h : StructSeqApart spec) :
    MfeNamesDistinct spec := by
  have hP : LoadInv.CompSrcsOk (fun c => LoadInv.StmtNamesOk c = true ∧ Comp.CodesOk Generated.nupackTable c = true) b :=
    fun k c hl => ⟨LoadInv.stmtNamesOk_of_user (bundleOk_comp hb hl).1, (bundleOk_comp hb hl).2⟩
  have hQ : LoadInv.SysSrcsOk (fun s => sysNamesOk s = true) b := fun k s hl => bundleOk_sys hb hl
  have hL := LoadInv.loadFile_loaded hP hQ _ _ _ _ _ _ _ _ _ _ hfile
  exact mfeNamesDistinct_of_tree hL hload h

/-! ### the text level, for records the reader can read -/

/-- the records with a float `g` in the GC-content field (the model writes the opaque token `GC` there) -/
def mfeRecsGC (t : CodeTable) (spec : Spec) (asg : Var → Base) (g : List Char) : List (List Char × Finish.Rec) :=
  (mfeRecs t spec asg).map (fun x => (x.1, { x.2 with fields := ["0.000000".toList, g, "0".toList] }))

theorem mfeRecsGC_design (t : CodeTable) (spec : Spec) (asg : Var → Base) (g : List Char) :
    (mfeRecsGC t spec asg g).map (fun x => (x.2.name, x.2.seq)) = mfeDesign t spec asg := by
  unfold mfeRecsGC mfeDesign
  rw [List.map_map]
  rfl

/-- **Through the file**: if the records are ones the `.mfe` reader can read (`wfRec`: names over the reader's name
    alphabet, non-empty sequences over its sequence alphabet — a decidable check), then finishing the rendered TEXT
    (with any valid float `g` where the model writes `GC`) is finishing the record list. -/
theorem finish_text_of_records {tF : CodeTable} {t : CodeTable} {spec : Spec} {asg : Var → Base} {g : List Char}
    (hg1 : Finish.okWord Finish.isNumChar g = true) (hg2 : Finish.validFloat g = true)
    (hwf : ∀ x ∈ mfeRecsGC t spec asg g, Finish.wfRec Generated.alphaMfeSeq x = true) (inst : Sys.Inst)
    (out : Finish.Out) :
    Finish.finishText tF Generated.alphaMfeSeq inst (Finish.render (mfeRecsGC t spec asg g) "0.000000".toList) = .ok out ↔
      Finish.apply tF inst (mfeDesign t spec asg) = .ok out := by
  rw [Finish.finishText_ok_iff, Finish.readDesign_render (by decide) (by decide) (by decide) _ hwf, mfeRecsGC_design]
  simp

/-! ### every target base pair is Watson–Crick -/

theorem toChar_ne_plus (b : Base) : b.toChar ≠ '+' := by cases b <;> decide

theorem filter_plus_spell (asg : Var → Base) (l : List Nuc) : (spell asg l).filter (· != '+') = spell asg l := by
  apply List.filter_eq_self.2
  intro c hc
  simp only [spell, List.mem_map] at hc
  obtain ⟨n, _, rfl⟩ := hc
  simpa using toChar_ne_plus _

/-- removing the strand breaks from a `+`-join of letter strings gives the letters of the concatenation -/
theorem filter_plus_joinPlus (asg : Var → Base) (ls : List (List Nuc)) :
    (Finish.joinPlus (ls.map (spell asg))).filter (· != '+') = spell asg ls.flatten := by
  induction ls with
  | nil => rfl
  | cons a r ih =>
    cases r with
    | nil => simp [Finish.joinPlus, filter_plus_spell]
    | cons b r' =>
      simp only [List.map_cons, Finish.joinPlus, List.filter_append, List.filter_cons, filter_plus_spell,
        List.flatten_cons, spell_append] at ih ⊢
      simp only [bne_self_eq_false, Bool.false_eq_true, if_false]
      rw [ih]

/-- **every target base pair is Watson–Crick**, read off the structure entry of the finished output: with the strand
    breaks removed, the letters at the two ends of every base pair of the structure's target are complementary bases -/
theorem target_pairs_wc {t : CodeTable} {d : Design} {asg : Var → Base} {out : Finish.Out} (hs : Sat t d asg)
    (he : Entries t d asg out) {sd : StructD} (hsd : sd ∈ d.structs) {str : List Char}
    (hm : (sd.name, str) ∈ out.structs) :
    ∀ ij ∈ pairs sd.struct, ∀ ci cj : Char, (str.filter (· != '+'))[ij.1]? = some ci →
      (str.filter (· != '+'))[ij.2]? = some cj → ∃ b : Base, ci = b.toChar ∧ cj = b.compl.toChar := by
  intro ij hij ci cj hi hj
  have hstr := he.structs sd hsd str hm
  have hflat : str.filter (· != '+') = spell asg (structNucs d sd) := by
    rw [hstr]
    have : sd.strands.map (fun sn => spell asg (strandNucs d sn)) = (sd.strands.map (strandNucs d)).map (spell asg) := by
      rw [List.map_map]; rfl
    rw [this, filter_plus_joinPlus]
    unfold structNucs
    rw [List.flatMap_def]
  rw [hflat] at hi hj
  simp only [spell, List.getElem?_map, Option.map_eq_some_iff] at hi hj
  obtain ⟨m, hm', rfl⟩ := hi
  obtain ⟨n, hn', rfl⟩ := hj
  have := hs.pair sd hsd ij hij m n hm' hn'
  exact ⟨val asg m, rfl, by rw [this, Base.compl_compl]⟩

/-! ### `ArraysGood`, executable -/

def baseOfChar : Char → Option Base
  | 'A' => some .A | 'C' => some .C | 'G' => some .G | 'T' => some .T | _ => none

theorem baseOfChar_toChar (b : Base) : baseOfChar b.toChar = some b := by cases b <;> rfl

/-- the executable form of `ArraysGood` -/
def arraysGoodB (a : Arrays) (nts : List Char) : Bool :=
  nts.length == a.1.length
  && (List.range a.2.2.length).all (fun i => match a.2.2[i]? with
      | some none => nts[i]? == some ' '
      | some (some ch) => (match (nts[i]?).bind baseOfChar with
          | some b => decide (allows Generated.pilTable ch b)
          | none => false)
      | none => true)
  && (List.range a.1.length).all (fun i => match a.1[i]? with
      | some (some r) => nts[i]? == nts[r]?
      | _ => true)
  && (List.range a.2.1.length).all (fun i => match a.2.1[i]? with
      | some (some w) => (match (nts[i]?).bind baseOfChar, (nts[w]?).bind baseOfChar with
          | some b, some b' => decide (b = b'.compl)
          | _, _ => true)
      | _ => true)

theorem arraysGood_of_check {a : Arrays} {nts : List Char} (h : arraysGoodB a nts = true) : ArraysGood a nts := by
  simp only [arraysGoodB, Bool.and_eq_true, beq_iff_eq, List.all_eq_true, List.mem_range] at h
  obtain ⟨⟨⟨h0, h1⟩, h2⟩, h3⟩ := h
  refine ⟨h0, ?_, ?_, ?_, ?_⟩
  · intro i hi
    have := h1 i (getElem?_lt hi)
    rw [hi] at this
    simpa using this
  · intro i ch hi
    have := h1 i (getElem?_lt hi)
    rw [hi] at this
    simp only at this
    cases hb : (nts[i]?).bind baseOfChar with
    | none => rw [hb] at this; cases this
    | some b =>
      rw [hb] at this
      simp only [decide_eq_true_eq] at this
      refine ⟨b, ?_, this⟩
      cases hn : nts[i]? with
      | none => rw [hn] at hb; cases hb
      | some c =>
        rw [hn] at hb
        simp only [Option.bind_some] at hb
        congr 1
        unfold baseOfChar at hb
        split at hb <;> first | cases hb; rfl | cases hb
  · intro i r hi
    have := h2 i (getElem?_lt hi)
    rw [hi] at this
    simpa using this
  · intro i w hi b b' hb hb'
    have := h3 i (getElem?_lt hi)
    rw [hi] at this
    simp only [hb, hb', Option.bind_some, baseOfChar_toChar, decide_eq_true_eq] at this
    exact this

end Pepper.EndToEnd
