import PepperProofs.ConstraintGenSim
/-!
# Soundness of the seeding in the structure layout

Same statement as for the strand layout (`ConstraintGenSim`): every seeded link joins nodes whose nucleotides the
design forces equal / complementary.  The extra work is the layout: `struct_start`, the walk of `get_index`
through the strands of a structure, and `strand_start` = the place of the first occurrence of a strand.
-/
namespace Pepper.ConstraintGen
open Pepper Pepper.Pil Pepper.Closure Pepper.LinkSpec

/-- offset of the `x`-th nucleotide of a structure from the structure's start: the strands before it, each with
    its blank(s), then the offset inside its strand (the loop of `get_index`) -/
def offT : List (Nat × StrandObj) → Nat → Nat
  | [], x => x
  | q :: r, x => if x ≥ q.2.len then q.2.len + Generated.structGapStrands + offT r (x - q.2.len) else x

theorem getIndexT_closed (l : List (Nat × StrandObj)) (x r : Nat) (hx : x < (l.map (fun q => q.2.len)).sum) :
    getIndexT l x r = .ok (r + offT l x) := by
  induction l generalizing x r with
  | nil => simp at hx
  | cons q l ih =>
    obtain ⟨k, o⟩ := q
    simp only [List.map_cons, List.sum_cons] at hx
    simp only [getIndexT, offT]
    by_cases h : x ≥ o.len
    · simp only [h, if_true]
      rw [ih (x - o.len) _ (by omega)]
      congr 1; omega
    · simp only [h, if_false]

theorem withOffsets_shift {α : Type} (len : α → Nat) (l : List α) (c : Nat) :
    withOffsets len l c = (withOffsets len l 0).map (fun p => (p.1 + c, p.2)) := by
  induction l generalizing c with
  | nil => rfl
  | cons a l ih =>
    simp only [withOffsets, List.map_cons, Nat.zero_add]
    rw [ih (c + len a), ih (len a), List.map_map]
    have : (List.map (fun p => (p.1 + (c + len a), p.2)) (withOffsets len l 0)) =
        List.map ((fun p => (p.1 + c, p.2)) ∘ fun p => (p.1 + len a, p.2)) (withOffsets len l 0) := by
      apply List.map_congr_left
      intro p _
      simp only [Function.comp]
      have : p.1 + (c + len a) = p.1 + len a + c := by omega
      rw [this]
    rw [this]

theorem getD_set' {α : Type} (l : List α) (i j : Nat) (a d : α) :
    (l.set i a).getD j d = if i = j ∧ i < l.length then a else l.getD j d := by
  simp only [List.getD_eq_getElem?_getD, List.getElem?_set]
  by_cases h : i = j
  · subst h
    by_cases h2 : i < l.length
    · simp [h2]
    · have : l[i]? = none := by simp; omega
      simp [h2, this]
  · simp [h]

/-- where `strand_start` entries come from while one structure is laid out -/
theorem layStructStrands_spec (l : List (Nat × StrandObj)) (ss : List (Option Nat)) (p : Nat) :
    (layStructStrands l ss p).1.length = ss.length ∧
    ∀ k p0, (layStructStrands l ss p).1.getD k none = some p0 →
      ss.getD k none = some p0 ∨
      ∃ off o, (off, (k, o)) ∈ withOffsets (fun (q : Nat × StrandObj) => q.2.len) l 0 ∧
        ∀ x, x < o.len → p + offT l (off + x) = p0 + x := by
  induction l generalizing ss p with
  | nil => exact ⟨rfl, fun k p0 h => Or.inl h⟩
  | cons q l ih =>
    obtain ⟨i, o⟩ := q
    simp only [layStructStrands]
    obtain ⟨hlen, hsp⟩ := ih (if (ss.getD i none).isNone then ss.set i (some p) else ss)
      (p + o.len + Generated.structGapStrands)
    constructor
    · rw [hlen]; split <;> simp
    · intro k p0 hk
      rcases hsp k p0 hk with h | ⟨off, o', hmem, hoff⟩
      · by_cases hnone : (ss.getD i none).isNone = true
        · simp only [hnone, if_true, getD_set'] at h
          by_cases hik : i = k ∧ i < ss.length
          · rw [if_pos hik] at h
            simp only [Option.some.injEq] at h
            right
            refine ⟨0, o, ?_, ?_⟩
            · simp [withOffsets, ← hik.1]
            · intro x hx
              simp only [Nat.zero_add, offT]
              have : ¬ x ≥ o.len := by omega
              simp only [this, if_false]; omega
          · simp only [hik, if_false] at h
            exact Or.inl h
        · simp only [hnone, Bool.false_eq_true, if_false] at h
          exact Or.inl h
      · right
        refine ⟨off + o.len, o', ?_, ?_⟩
        · simp only [withOffsets, List.mem_cons, Nat.zero_add]
          right
          rw [withOffsets_shift]
          exact List.mem_map.2 ⟨(off, (k, o')), hmem, rfl⟩
        · intro x hx
          have := hoff x hx
          simp only [offT]
          have hge : off + o.len + x ≥ o.len := by omega
          simp only [hge, if_true]
          have e : off + o.len + x - o.len = off + x := by omega
          rw [e]; omega

/-- `struct_start[j]` -/
def stStart (spec : Spec) (j : Nat) : Nat := (layStruct spec).structStart.getD j 0

/-- where `strand_start` entries come from: the first structure that lists the strand -/
theorem layStructAux_spec (spec : Spec) (l : List StructObj) (ss : List (Option Nat)) (p : Nat) :
    (layStructAux spec l ss p).2.1.length = ss.length ∧
    ∀ k p0, (layStructAux spec l ss p).2.1.getD k none = some p0 →
      ss.getD k none = some p0 ∨
      ∃ j so, l[j]? = some so ∧ ∃ off o,
        (off, (k, o)) ∈ withOffsets (fun (q : Nat × StrandObj) => q.2.len) (structStrands spec so) 0 ∧
        ∀ x, x < o.len → (layStructAux spec l ss p).1.getD j 0 + offT (structStrands spec so) (off + x) = p0 + x := by
  induction l generalizing ss p with
  | nil => exact ⟨rfl, fun k p0 h => Or.inl h⟩
  | cons so l ih =>
    simp only [layStructAux]
    obtain ⟨hl1, hs1⟩ := layStructStrands_spec (structStrands spec so) ss p
    obtain ⟨hl2, hs2⟩ := ih (layStructStrands (structStrands spec so) ss p).1
      ((layStructStrands (structStrands spec so) ss p).2 + (Generated.structGapStructs - Generated.structGapStrands))
    constructor
    · rw [hl2, hl1]
    · intro k p0 hk
      rcases hs2 k p0 hk with h | ⟨j, so', hj, off, o, hmem, hoff⟩
      · rcases hs1 k p0 h with h' | ⟨off, o, hmem, hoff⟩
        · exact Or.inl h'
        · right
          exact ⟨0, so, rfl, off, o, hmem, by simpa using hoff⟩
      · right
        exact ⟨j + 1, so', by simpa using hj, off, o, hmem, by simpa using hoff⟩

/-- **`strand_start` in the structure layout**: a strand starts where its first listing in a structure puts it -/
theorem strandStart_struct (spec : Spec) {k p0 : Nat} (h : (layStruct spec).strandStart.getD k none = some p0) :
    ∃ j so, spec.structs[j]? = some so ∧ ∃ off o,
      (off, (k, o)) ∈ withOffsets (fun (q : Nat × StrandObj) => q.2.len) (structStrands spec so) 0 ∧
      ∀ x, x < o.len → stStart spec j + offT (structStrands spec so) (off + x) = p0 + x := by
  have := (layStructAux_spec spec spec.structs (List.replicate spec.strands.length none) 0).2 k p0 h
  rcases this with h' | h'
  · exfalso
    simp only [List.getD_eq_getElem?_getD, List.getElem?_replicate] at h'
    split at h' <;> simp at h'
  · exact h'

/-! ## positions of the structure layout -/

/-- the nucleotides of a structure, strand after strand -/
def structNucsM (spec : Spec) (so : StructObj) : List Nuc :=
  (structStrands spec so).flatMap (fun q => nucsOfBases q.2.bases)

theorem structNucsM_length {spec : Spec} (wf : SpecWF spec) {so : StructObj} (hso : so ∈ spec.structs) :
    (structNucsM spec so).length = so.len := by
  unfold structNucsM
  rw [flatMap_length_sum, wf.structLen so hso]
  congr 1
  apply List.map_congr_left
  intro q hq
  exact wf.strandLen q.2 (mem_enum (structStrands_mem wf hq)).1

theorem getIndex_struct {spec : Spec} (wf : SpecWF spec) {j : Nat} {so : StructObj} (hso : so ∈ spec.structs)
    {x : Nat} (hx : x < so.len) :
    getIndex .struct spec (layStruct spec) j so x = .ok (stStart spec j + offT (structStrands spec so) x) := by
  unfold getIndex
  simp only [hx, if_true]
  exact getIndexT_closed _ _ _ (by rw [← wf.structLen so hso]; exact hx)

/-- the nucleotide at every position of the structure layout, in the order of the `init` calls -/
def posTabStruct (spec : Spec) : List (Nat × Nuc) :=
  (enum spec.structs).flatMap (fun (p : Nat × StructObj) =>
    (List.range p.2.len).map (fun x =>
      (stStart spec p.1 + offT (structStrands spec p.2) x, (structNucsM spec p.2).getD x dfltNuc)))

theorem layoutInits_struct {spec : Spec} (wf : SpecWF spec) :
    layoutInits .struct spec (layStruct spec) = .ok ((enum spec.structs).flatMap (fun (p : Nat × StructObj) =>
      (List.range p.2.len).map (fun x => (stStart spec p.1 + offT (structStrands spec p.2) x, 'N')))) := by
  unfold layoutInits
  simp only
  apply flatME_total
  intro p hp
  apply mapME_total
  intro x hx
  rw [getIndex_struct wf (mem_enum hp).1 (List.mem_range.1 hx)]

theorem posTabStruct_keys (spec : Spec) :
    (posTabStruct spec).map (·.1) = ((enum spec.structs).flatMap (fun (p : Nat × StructObj) =>
      (List.range p.2.len).map (fun x => (stStart spec p.1 + offT (structStrands spec p.2) x, 'N')))).map (·.1) := by
  unfold posTabStruct
  rw [List.map_flatMap, List.map_flatMap]
  congr 1
  funext p
  simp [List.map_map, Function.comp_def]

theorem posTabStruct_mem {spec : Spec} {j : Nat} {so : StructObj} (hso : (j, so) ∈ enum spec.structs) {y : Nat}
    (hy : y < so.len) {m : Nuc} (hm : (structNucsM spec so)[y]? = some m) :
    (stStart spec j + offT (structStrands spec so) y, m) ∈ posTabStruct spec := by
  unfold posTabStruct
  rw [List.mem_flatMap]
  refine ⟨(j, so), hso, ?_⟩
  rw [List.mem_map]
  refine ⟨y, List.mem_range.2 hy, ?_⟩
  simp [List.getD_eq_getElem?_getD, hm]

/-- the position `strand_start[k] + x` is the place of the `x`-th nucleotide of the first listing of strand `k` -/
theorem strandPos_struct {spec : Spec} (wf : SpecWF spec) {k : Nat} {o : StrandObj} (hko : (k, o) ∈ enum spec.strands)
    {x a : Nat} (h : getIndexStrand (layStruct spec) k o.len x = .ok a) :
    x < o.len ∧ ∃ m, (nucsOfBases o.bases)[x]? = some m ∧ (a, m) ∈ posTabStruct spec := by
  unfold getIndexStrand at h
  by_cases hx : x < o.len
  · rw [if_pos hx] at h
    cases hs : (layStruct spec).strandStart.getD k none with
    | none => rw [hs] at h; cases h
    | some p0 =>
      rw [hs] at h
      simp only [Except.ok.injEq] at h
      subst h
      obtain ⟨j, so, hj, off, o', hmem, hoff⟩ := strandStart_struct spec hs
      have hq := structStrands_mem wf (withOffsets_mem _ _ _ hmem)
      have ho : o' = o := by
        have h1 := enum_getElem? hq
        have h2 := enum_getElem? hko
        simp only at h1 h2
        rw [h1] at h2
        exact Option.some.inj h2
      subst ho
      have hso : so ∈ spec.structs := List.mem_of_getElem? hj
      have hjso : (j, so) ∈ enum spec.structs := mem_enum_of_getElem? hj
      have hl : ∀ q ∈ structStrands spec so, (nucsOfBases q.2.bases).length = q.2.len :=
        fun q hq => wf.strandLen q.2 (mem_enum (structStrands_mem wf hq)).1
      obtain ⟨hidx, _⟩ := flatMap_offset_getElem? (fun (q : Nat × StrandObj) => q.2.len)
        (fun q => nucsOfBases q.2.bases) (structStrands spec so) 0 hl hmem hx
      simp only [Nat.sub_zero] at hidx
      have hb := withOffsets_bound (fun (q : Nat × StrandObj) => q.2.len) (structStrands spec so) 0 hmem
      simp only [Nat.zero_add] at hb
      have hlt : off + x < so.len := by rw [wf.structLen so hso]; omega
      obtain ⟨m, hm⟩ := getElem?_some_of_lt (l := nucsOfBases o'.bases) (i := x)
        (by rw [wf.strandLen o' (mem_enum hko).1]; exact hx)
      refine ⟨hx, m, hm, ?_⟩
      rw [← hoff x hx]
      exact posTabStruct_mem hjso hlt (by unfold structNucsM; rw [hidx]; exact hm)
  · simp [hx] at h

/-! ## soundness of the layout-dependent links in the structure layout -/

theorem layOf_struct (spec : Spec) : layOf .struct spec = layStruct spec := rfl

/-- "strand constraints", structure layout -/
theorem strandEdges_sound_struct {spec : Spec} (wf : SpecWF spec)
    (D : DenOK (posTabStruct spec) spec (encOf spec (layStruct spec))) {te : List (Nat × Nat)}
    (h : strandEdges spec (layStruct spec) (encOf spec (layStruct spec)) = .ok te) :
    ∀ e ∈ te, EdgeSound (Pil.denote spec) (den (posTabStruct spec) spec (encOf spec (layStruct spec))) false e := by
  intro e he
  unfold strandEdges at h
  obtain ⟨⟨k, o⟩, hko, cs, hcs, hecs⟩ := (flatME_mem h e).1 he
  obtain ⟨⟨off, it⟩, hoff, cs', hcs', hecs'⟩ := (flatME_mem hcs e).1 hecs
  obtain ⟨x, hx, hxe⟩ := mapME_mem hcs' hecs'
  simp only at hxe
  have hxl : x < lenOf spec it := List.mem_range.1 hx
  have hmem : o ∈ spec.strands := (mem_enum hko).1
  have ok := wf.strand o hmem
  obtain ⟨hidx, hlt⟩ := items_index wf ok hoff hxl
  cases ha : getIndexStrand (layStruct spec) k o.len (off + x) with
  | error er => simp [ha] at hxe
  | ok a =>
    cases hb : sqOf spec (encOf spec (layStruct spec)) it x with
    | error er => simp [ha, hb] at hxe
    | ok b =>
      simp only [ha, hb, Except.ok.injEq] at hxe
      subst hxe
      obtain ⟨num, hn, rfl⟩ := sqOf_ok hb
      obtain ⟨_, m, hm, hpos⟩ := strandPos_struct wf hko ha
      refine ⟨m, m, den_pos D hpos, ?_, NucReach.refl _ m⟩
      simp only
      rw [den_item wf D hn hxl, ← hidx]; exact hm

/-- "constrain all instances of the same strand to be equal", structure layout -/
theorem copyEdges_sound_struct {spec : Spec} (wf : SpecWF spec)
    (D : DenOK (posTabStruct spec) spec (encOf spec (layStruct spec))) {ce : List (Nat × Nat)}
    (h : copyEdges .struct spec (layStruct spec) = .ok ce) :
    ∀ e ∈ ce, EdgeSound (Pil.denote spec) (den (posTabStruct spec) spec (encOf spec (layStruct spec))) false e := by
  intro e he
  unfold copyEdges at h
  simp only at h
  obtain ⟨⟨j, so⟩, hjso, cs, hcs, hecs⟩ := (flatME_mem h e).1 he
  obtain ⟨⟨off, k, o⟩, hoff, cs', hcs', hecs'⟩ := (flatME_mem hcs e).1 hecs
  obtain ⟨x, hx, hxe⟩ := mapME_mem hcs' hecs'
  simp only at hxe
  have hxl : x < o.len := List.mem_range.1 hx
  have hso : so ∈ spec.structs := (mem_enum hjso).1
  have hko : (k, o) ∈ enum spec.strands := structStrands_mem wf (withOffsets_mem _ _ _ hoff)
  cases ha : getIndexStrand (layStruct spec) k o.len x with
  | error er => simp [ha] at hxe
  | ok a =>
    cases hb : getIndex .struct spec (layStruct spec) j so (off + x) with
    | error er => simp [ha, hb] at hxe
    | ok b =>
      simp only [ha, hb, Except.ok.injEq] at hxe
      subst hxe
      obtain ⟨_, m, hm, hpos⟩ := strandPos_struct wf hko ha
      have hl : ∀ q ∈ structStrands spec so, (nucsOfBases q.2.bases).length = q.2.len :=
        fun q hq => wf.strandLen q.2 (mem_enum (structStrands_mem wf hq)).1
      obtain ⟨hidx, _⟩ := flatMap_offset_getElem? (fun (q : Nat × StrandObj) => q.2.len)
        (fun q => nucsOfBases q.2.bases) (structStrands spec so) 0 hl hoff hxl
      simp only [Nat.sub_zero] at hidx
      have hbd := withOffsets_bound (fun (q : Nat × StrandObj) => q.2.len) (structStrands spec so) 0 hoff
      simp only [Nat.zero_add] at hbd
      have hlt : off + x < so.len := by rw [wf.structLen so hso]; omega
      rw [getIndex_struct wf hso hlt] at hb
      simp only [Except.ok.injEq] at hb
      subst hb
      refine ⟨m, m, den_pos D hpos, ?_, NucReach.refl _ m⟩
      exact den_pos D (posTabStruct_mem hjso hlt (by unfold structNucsM; rw [hidx]; exact hm))

/-- "structural constraints", structure layout -/
theorem bondEdges_sound_struct {spec : Spec} (wf : SpecWF spec)
    (D : DenOK (posTabStruct spec) spec (encOf spec (layStruct spec))) {be : List (Nat × Nat)}
    (h : bondEdges .struct spec (layStruct spec) = .ok be) :
    ∀ e ∈ be, EdgeSound (Pil.denote spec) (den (posTabStruct spec) spec (encOf spec (layStruct spec))) true e := by
  intro e he
  unfold bondEdges at h
  obtain ⟨⟨j, so⟩, hjso, cs, hcs, hecs⟩ := (flatME_mem h e).1 he
  obtain ⟨⟨x, y⟩, hxy, hxe⟩ := mapME_mem hcs hecs
  simp only at hxe
  have hso : so ∈ spec.structs := (mem_enum hjso).1
  cases ha : getIndex .struct spec (layStruct spec) j so x with
  | error er => simp [ha] at hxe
  | ok a =>
    cases hb : getIndex .struct spec (layStruct spec) j so y with
    | error er => simp [ha, hb] at hxe
    | ok b =>
      simp only [ha, hb, Except.ok.injEq] at hxe
      subst hxe
      have lt_of_ok : ∀ z c, getIndex .struct spec (layStruct spec) j so z = .ok c → z < so.len := by
        intro z c hz
        unfold getIndex at hz
        by_cases hzl : z < so.len
        · exact hzl
        · simp [hzl] at hz
      have hxl := lt_of_ok x a ha
      have hyl := lt_of_ok y b hb
      rw [getIndex_struct wf hso hxl] at ha
      rw [getIndex_struct wf hso hyl] at hb
      simp only [Except.ok.injEq] at ha hb
      subst ha hb
      obtain ⟨m, hm⟩ := getElem?_some_of_lt (l := structNucsM spec so) (i := x) (by rw [structNucsM_length wf hso]; exact hxl)
      obtain ⟨n, hn⟩ := getElem?_some_of_lt (l := structNucsM spec so) (i := y) (by rw [structNucsM_length wf hso]; exact hyl)
      refine ⟨m, n, den_pos D (posTabStruct_mem hjso hxl hm), den_pos D (posTabStruct_mem hjso hyl hn), ?_⟩
      apply nucReach_of_pairLink
      apply List.mem_append_right
      simp only [pairLinks, List.mem_flatMap]
      refine ⟨⟨so.name, so.strands, so.struct, optOfParams so.params⟩, ?_, ?_⟩
      · simp only [Pil.denote, List.mem_map]
        exact ⟨so, hso, rfl⟩
      · rw [List.mem_filterMap]
        refine ⟨(x, y), ?_, ?_⟩
        · rw [← getBonds_pairs (wf.struct so hso).2]; exact hxy
        · simp only
          rw [structNucs_denote wf hso]
          unfold structNucsM at hm hn
          rw [hm, hn]

/-! ## both layouts, uniformly -/

/-- the table of positions of a layout -/
def posTabOf (mode : Layout) (spec : Spec) : List (Nat × Nuc) :=
  match mode with
  | .strand => posTabStrand spec
  | .struct => posTabStruct spec

/-- the nucleotide a node of the seeded graph stands for -/
def denOf (mode : Layout) (spec : Spec) : Nat → Option Nuc :=
  den (posTabOf mode spec) spec (encOf spec (layOf mode spec))

/-- what the soundness theorems need of a successful seeding -/
structure SeedSound (mode : Layout) (spec : Spec) (s : Seeds) (c : Cons) : Prop where
  D : DenOK (posTabOf mode spec) spec (encOf spec (layOf mode spec))
  keys : c.keys = (posTabOf mode spec).map (·.1) ++ (seqInits spec (encOf spec (layOf mode spec))).map (·.1)
  hE : ∀ e ∈ s.eqE, EdgeSound (Pil.denote spec) (denOf mode spec) false e
  hW : ∀ e ∈ s.wcE, EdgeSound (Pil.denote spec) (denOf mode spec) true e

theorem seedSound {tbl : CodeTable} {mode : Layout} {spec : Spec} (wf : SpecWF spec) (ok : SpecCodes tbl spec)
    {s : Seeds} {c : Cons} (hs : seeds mode spec = .ok s) (hb : build s = .ok c) : SeedSound mode spec s c := by
  cases mode with
  | strand =>
    obtain ⟨D, hE, hW⟩ := seeds_sound_strand wf ok hs hb
    obtain ⟨li, ce, be, ee, se, te, h1, _, _, _, _, _, rfl⟩ := seeds_ok hs
    obtain ⟨_, hkeys, _, _, _, _⟩ := build_spec (tbl := tbl) hb (seeds_codes ok hs)
    have hli := layoutInits_strand spec
    rw [layOf_strand] at h1
    rw [h1] at hli
    have hli := Except.ok.inj hli
    refine ⟨D, ?_, hE, hW⟩
    rw [hkeys, List.map_append, hli]
    show _ = (posTabStrand spec).map (·.1) ++ _
    rw [posTabStrand_keys]
  | struct =>
    obtain ⟨li, ce, be, ee, se, te, h1, h2, h3, h4, h5, h6, rfl⟩ := seeds_ok hs
    rw [layOf_struct] at h1 h2 h3 h4 h5 h6
    obtain ⟨_, hkeys, hnd, _, _, _⟩ := build_spec (tbl := tbl) hb (seeds_codes ok hs)
    have hli := layoutInits_struct wf
    rw [h1] at hli
    have hli := Except.ok.inj hli
    have hk : c.keys = (posTabStruct spec).map (·.1) ++ (seqInits spec (encOf spec (layStruct spec))).map (·.1) := by
      rw [hkeys, List.map_append, hli, posTabStruct_keys]; rfl
    have D : DenOK (posTabStruct spec) spec (encOf spec (layStruct spec)) := ⟨hk ▸ hnd⟩
    refine ⟨D, hk, ?_, ?_⟩
    · intro e he
      simp only [List.mem_append] at he
      rcases he with ((he | he) | he) | he
      · exact copyEdges_sound_struct wf D h2 e he
      · exact equalEdges_sound wf D h4 e he
      · exact supEdges_sound wf D h5 e he
      · exact strandEdges_sound_struct wf D h6 e he
    · intro e he
      simp only [List.mem_append] at he
      rcases he with he | he
      · exact bondEdges_sound_struct wf D h3 e he
      · exact viewEdges_sound wf D e he

/-- parity reachability in the seeded graph implies that the design forces the two nucleotides equal /
    complementary (both layouts) -/
theorem reach_sound_of {tbl : CodeTable} {mode : Layout} {spec : Spec} (wf : SpecWF spec) (ok : SpecCodes tbl spec)
    {s : Seeds} {c : Cons} (hs : seeds mode spec = .ok s) (hb : build s = .ok c)
    {x y : Nat} {p : Bool} (h : Reach (adjOf c.keys c.eq) (adjOf c.keys c.wc) x p y) {m : Nuc}
    (hm : denOf mode spec x = some m) : ∃ n, denOf mode spec y = some n ∧ NucReach (Pil.denote spec) m p n := by
  have SS := seedSound wf ok hs hb
  obtain ⟨_, _, _, _, nbE, nbW⟩ := build_spec (tbl := tbl) hb (seeds_codes ok hs)
  exact reach_sound nbE nbW SS.hE SS.hW h hm

/-- every key denotes a nucleotide, and the template stored with the key allows every base the design allows for
    that nucleotide (both layouts) -/
theorem key_den_of {tbl : CodeTable} {mode : Layout} {spec : Spec} (wf : SpecWF spec) (ok : SpecCodes tbl spec)
    (hN : tbl.maskC 'N' = 15) {s : Seeds} {c : Cons} (hs : seeds mode spec = .ok s) (hb : build s = .ok c)
    {y : Nat} (hy : y ∈ c.keys) :
    ∃ n, denOf mode spec y = some n ∧
      ∀ b, okVar tbl (Pil.denote spec) n.var (flipB b n.comp) → hasB (stMask tbl c.st y) b := by
  have SS := seedSound wf ok hs hb
  obtain ⟨li, ce, be, ee, se, te, h1, _, _, _, _, _, rfl⟩ := seeds_ok hs
  obtain ⟨_, hkeys, _, hst, _, _⟩ := build_spec (tbl := tbl) hb (seeds_codes ok hs)
  have hNall : ∀ b, hasB (tbl.maskC 'N') b := fun b => hN ▸ hasB_15 b
  have hliKeys : li.map (·.1) = (posTabOf mode spec).map (·.1) := by
    have := SS.keys
    rw [hkeys] at this
    simp only [List.map_append] at this
    exact List.append_cancel_right this
  rw [SS.keys] at hy
  rcases List.mem_append.1 hy with hy | hy
  · -- a layout position: its `init` carries the letter N
    obtain ⟨⟨p, m⟩, hpm, rfl⟩ := List.mem_map.1 hy
    have hin : p ∈ li.map (·.1) := by rw [hliKeys]; exact List.mem_map.2 ⟨(p, m), hpm, rfl⟩
    obtain ⟨q, hq, hqp⟩ := List.mem_map.1 hin
    have hletter := layoutInits_letters h1 q hq
    have hstq := hst q (List.mem_append_left _ hq)
    refine ⟨m, den_pos SS.D hpm, fun b _ => ?_⟩
    simp only at hqp ⊢
    have : stMask tbl c.st p = tbl.maskC 'N' := by
      rw [← hqp]; simp [stMask, hstq, hletter]
    rw [this]; exact hNall b
  · obtain ⟨p, hp, rfl⟩ := List.mem_map.1 hy
    have hstp : stMask tbl c.st p.1 = tbl.maskC p.2 := by
      simp [stMask, hst p (List.mem_append_right _ hp)]
    obtain ⟨num, o, x, hpx, ho, hmem, hx, hcase⟩ := seqInits_mem wf _ hp
    obtain ⟨n, hn⟩ := getElem?_some_of_lt (l := viewNucs o (revOfNum num)) (i := x)
      (by rw [viewNucs_length, wf.seqLen o hmem]; exact hx)
    have hden : denOf mode spec p.1 = some n := by
      unfold denOf
      rw [hpx, den_sq wf SS.D ho hx hmem]; exact hn
    refine ⟨n, hden, fun b hb' => ?_⟩
    rw [hstp]
    rcases hcase with hc | ⟨hr, hsup, hch⟩
    · rw [hc]; exact hNall b
    · rw [hr, (wf.base o hmem hsup).2, fwd_getElem? _ _ _ hx] at hn
      cases hn
      simp only [flipB, Bool.false_eq_true, if_false] at hb'
      have hdom : (o.name, o.template) ∈ (Pil.denote spec).domains := by
        simp only [Pil.denote, List.mem_map, List.mem_filter]
        refine ⟨o, ⟨?_, ?_⟩, rfl⟩
        · unfold Spec.baseSeqs
          rw [List.mem_filter]; exact ⟨hmem, by simp [hsup]⟩
        · simp; omega
      exact hb' (o.name, o.template) hdom rfl p.2 hch

/-- a satisfiable design never makes the seeded graph over-constrained (both layouts) -/
theorem graphSat_of_satisfiable {tbl : CodeTable} {mode : Layout} {spec : Spec} (wf : SpecWF spec)
    (ok : SpecCodes tbl spec) (hN : tbl.maskC 'N' = 15) {s : Seeds} {c : Cons} (hs : seeds mode spec = .ok s)
    (hb : build s = .ok c) (hsat : Satisfiable tbl (Pil.denote spec)) : GraphSat tbl c := by
  obtain ⟨a, ha⟩ := hsat
  obtain ⟨hokv, hreach⟩ := (sat_iff_asat tbl _ a).1 ha
  obtain ⟨wfc, _⟩ := build_spec (tbl := tbl) hb (seeds_codes ok hs)
  intro x hx
  obtain ⟨nx, hnx, _⟩ := key_den_of wf ok hN hs hb hx
  constructor
  · intro hself
    obtain ⟨n', hn', hr⟩ := reach_sound_of wf ok hs hb hself hnx
    rw [hnx] at hn'; cases hn'
    have := hreach _ _ _ hr
    have e : ((true != nx.comp) != nx.comp) = true := by cases nx.comp <;> rfl
    rw [e] at this
    exact flipB_true_ne _ this.symm
  · refine ⟨val a nx, ?_⟩
    intro y p hy
    have hyk : y ∈ c.keys := by
      have := hy.mem_keys wfc.pre.keyClosed (by rw [keys_adjOf]; exact hx)
      rwa [keys_adjOf] at this
    obtain ⟨ny, hny, htmpl⟩ := key_den_of wf ok hN hs hb hyk
    obtain ⟨n', hn', hr⟩ := reach_sound_of wf ok hs hb hy hnx
    rw [hny] at hn'; cases hn'
    apply htmpl
    have h1 := hreach _ _ _ hr
    have h2 : flipB (flipB (val a nx) p) ny.comp = a ny.var := by
      rw [h1, val_eq, flipB_flipB, flipB_flipB]
      congr 1
      cases p <;> cases nx.comp <;> cases ny.comp <;> rfl
    rw [h2]
    exact hokv ny.var

/-- exactness over the seeded graph read through the denotation (soundness half, both layouts) -/
theorem arrays_sound_aux {tbl : CodeTable} {mode : Layout} {spec : Spec} (wf : SpecWF spec) (ok : SpecCodes tbl spec)
    (hN : tbl.maskC 'N' = 15) {s : Seeds} {c : Cons} (hs : seeds mode spec = .ok s) (hb : build s = .ok c)
    {a : Arrays} (G : GraphExact tbl c s.P a) {i : Nat} (hi : i < a.1.length) (hk : i ∈ c.keys) :
    ∃ m, denOf mode spec i = some m ∧
      (∀ r, a.1[i]? = some (some r) → ∃ n, denOf mode spec r = some n ∧ NucReach (Pil.denote spec) m false n) ∧
      (∀ w, a.2.1[i]? = some (some w) → ∃ n, denOf mode spec w = some n ∧ NucReach (Pil.denote spec) m true n) ∧
      (∀ ch, a.2.2[i]? = some (some ch) → ∀ b,
        (∀ v q, ParityReach (Pil.denote spec) m.var q v →
          okVar tbl (Pil.denote spec) v (flipB (flipB b m.comp) q)) → hasB (tbl.maskC ch) b) := by
  obtain ⟨wfc, _⟩ := build_spec (tbl := tbl) hb (seeds_codes ok hs)
  obtain ⟨m, hm, _⟩ := key_den_of wf ok hN hs hb hk
  obtain ⟨⟨v, hv, hvmin⟩, ⟨w, hw, hwmin⟩, ch, hch, _, hbits⟩ := G.key i hi hk
  refine ⟨m, hm, ?_, ?_, ?_⟩
  · intro r hr
    rw [hv] at hr; cases hr
    exact reach_sound_of wf ok hs hb hvmin.1 hm
  · intro w' hw'
    rw [hw] at hw'; cases hw'
    exact reach_sound_of wf ok hs hb hwmin.1 hm
  · intro ch' hch' b hsem
    rw [hch] at hch'; cases hch'
    rw [hbits]
    intro y p hy
    have hyk : y ∈ c.keys := by
      have := hy.mem_keys wfc.pre.keyClosed (by rw [keys_adjOf]; exact hk)
      rwa [keys_adjOf] at this
    obtain ⟨ny, hny, htmpl⟩ := key_den_of wf ok hN hs hb hyk
    obtain ⟨n', hn', hr⟩ := reach_sound_of wf ok hs hb hy hm
    rw [hny] at hn'; cases hn'
    apply htmpl
    have := hsem ny.var _ hr
    have e : flipB (flipB b m.comp) ((p != m.comp) != ny.comp) = flipB (flipB b p) ny.comp := by
      rw [flipB_flipB, flipB_flipB]
      congr 1
      cases p <;> cases m.comp <;> cases ny.comp <;> rfl
    rwa [e] at this

end Pepper.ConstraintGen
