import PepperProofs.ConstraintGenSim
/-!
# `Pil.load` produces well-formed specifications (`SpecWF`)
-/
namespace Pepper.ConstraintGen
open Pepper Pepper.Pil

theorem resolveItem_ok {s : Spec} {raw : String} {i : ItemRef} {o : SeqObj} (h : resolveItem s raw = .ok (i, o)) :
    s.findSeq i.name = some o := by
  unfold resolveItem at h
  simp only at h
  split at h
  · rename_i o' ho'
    simp only [Except.ok.injEq, Prod.mk.injEq] at h
    obtain ⟨rfl, rfl⟩ := h
    exact ho'
  · cases h

theorem resolveItems_ok {s : Spec} {raws : List String} {its : List (ItemRef × SeqObj)}
    (h : resolveItems s raws = .ok its) : ∀ p ∈ its, s.findSeq p.1.name = some p.2 := by
  induction raws generalizing its with
  | nil => simp [resolveItems] at h; subst h; simp
  | cons r rs ih =>
    simp only [resolveItems, bind, Except.bind] at h
    cases h1 : resolveItem s r with
    | error e => simp [h1] at h
    | ok x =>
      simp only [h1] at h
      cases h2 : resolveItems s rs with
      | error e => simp [h2] at h
      | ok xs =>
        simp only [h2, pure, Except.pure, Except.ok.injEq] at h
        subst h
        intro p hp
        rcases List.mem_cons.1 hp with rfl | hp
        · exact resolveItem_ok (i := p.1) (o := p.2) (by rw [h1])
        · exact ih h2 p hp

/-! ### appending an object with a fresh name -/

theorem find?_append_fresh {α : Type} (p : α → Bool) (l : List α) (a : α) :
    (l ++ [a]).find? p = (l.find? p).or (if p a then some a else none) := by
  rw [List.find?_append]
  cases hp : p a <;> simp [List.find?_cons, hp]

theorem nucsOfItem_congr {s s' : Spec} (h : ∀ n, s'.findSeq n = s.findSeq n) (i : ItemRef) :
    nucsOfItem s' i = nucsOfItem s i := by
  unfold nucsOfItem; rw [h]

theorem nucsOfItem_mono {s s' : Spec} (h : ∀ n p, s.findSeq n = some p → s'.findSeq n = some p) {i : ItemRef}
    (hi : (s.findSeq i.name).isSome = true) : nucsOfItem s' i = nucsOfItem s i := by
  obtain ⟨o, ho⟩ := Option.isSome_iff_exists.1 hi
  unfold nucsOfItem; rw [ho, h _ _ ho]

theorem flatMap_congr_mem {α β : Type} {f g : α → List β} {l : List α} (h : ∀ a ∈ l, f a = g a) :
    l.flatMap f = l.flatMap g := by
  induction l with
  | nil => rfl
  | cons a l ih =>
    simp only [List.flatMap_cons, h a List.mem_cons_self, ih (fun a ha => h a (List.mem_cons_of_mem _ ha))]

theorem filterMap_congr_mem {α β : Type} {f g : α → Option β} {l : List α} (h : ∀ a ∈ l, f a = g a) :
    l.filterMap f = l.filterMap g := by
  induction l with
  | nil => rfl
  | cons a l ih =>
    simp only [List.filterMap_cons, h a List.mem_cons_self, ih (fun a ha => h a (List.mem_cons_of_mem _ ha))]

theorem ItemsOK.mono {s s' : Spec} (h : ∀ n p, s.findSeq n = some p → s'.findSeq n = some p)
    {items : List ItemRef} {bases : List BaseRef} (ok : ItemsOK s items bases) : ItemsOK s' items bases := by
  constructor
  · intro i hi
    obtain ⟨o, ho⟩ := Option.isSome_iff_exists.1 (ok.resolve i hi)
    rw [h _ _ ho]; rfl
  · rw [ok.nucs]
    exact flatMap_congr_mem (fun i hi => (nucsOfItem_mono h (ok.resolve i hi)).symm)

theorem nucsOfBases_append (a b : List BaseRef) : nucsOfBases (a ++ b) = nucsOfBases a ++ nucsOfBases b := by
  simp [nucsOfBases]

/-- the object `resolveItems` builds for a sup-sequence / strand right-hand side -/
theorem itemsOK_of_resolved {s : Spec} (wf : SpecWF s) {its : List (ItemRef × SeqObj)}
    (h : ∀ p ∈ its, s.findSeq p.1.name = some p.2) :
    ItemsOK s (its.map (·.1)) (its.flatMap (fun (i, o) => basesOfView o i.rev)) ∧
    (nucsOfBases (its.flatMap (fun (i, o) => basesOfView o i.rev))).length = (its.map (fun (_, o) => o.len)).sum := by
  induction its with
  | nil => exact ⟨⟨by simp, rfl⟩, rfl⟩
  | cons p its ih =>
    obtain ⟨i, o⟩ := p
    have hio := h (i, o) List.mem_cons_self
    simp only at hio
    obtain ⟨ok, hl⟩ := ih (fun p hp => h p (List.mem_cons_of_mem _ hp))
    have hn : nucsOfItem s i = nucsOfBases (basesOfView o i.rev) := by simp [nucsOfItem, hio, viewNucs]
    constructor
    · constructor
      · intro j hj
        simp only [List.map_cons, List.mem_cons] at hj
        rcases hj with rfl | hj
        · rw [hio]; rfl
        · exact ok.resolve j hj
      · simp only [List.flatMap_cons, List.map_cons, nucsOfBases_append, ok.nucs, hn]
    · simp only [List.flatMap_cons, List.map_cons, List.sum_cons, nucsOfBases_append, List.length_append, hl]
      congr 1
      have := wf.seqLen o (findSeq_mem hio).1
      rw [← this]
      exact viewNucs_length o i.rev

theorem lenOf_mono {s s' : Spec} (h : ∀ n p, s.findSeq n = some p → s'.findSeq n = some p) {i : ItemRef}
    (hi : (s.findSeq i.name).isSome = true) : lenOf s' i = lenOf s i := by
  obtain ⟨o, ho⟩ := Option.isSome_iff_exists.1 hi
  unfold lenOf; rw [ho, h _ _ ho]

theorem equalLen_mono {s s' : Spec} (h : ∀ n p, s.findSeq n = some p → s'.findSeq n = some p)
    {its : List ItemRef} (hres : ∀ i ∈ its, (s.findSeq i.name).isSome = true)
    (hl : its ≠ [] ∧ ∀ i ∈ its, ∀ j ∈ its, lenOf s i = lenOf s j) :
    its ≠ [] ∧ ∀ i ∈ its, ∀ j ∈ its, lenOf s' i = lenOf s' j :=
  ⟨hl.1, fun i hi j hj => by rw [lenOf_mono h (hres i hi), lenOf_mono h (hres j hj)]; exact hl.2 i hi j hj⟩

theorem wf_addSeq {s : Spec} (wf : SpecWF s) (o : SeqObj) (hfresh : s.findSeq o.name = none)
    (hlen : (viewNucs o false).length = o.len)
    (hbase : o.isSup = false → o.template.length = o.len ∧ viewNucs o false = fwd o.name o.len)
    (hsup : o.isSup = true → ItemsOK s o.items o.bases) :
    SpecWF { s with seqs := s.seqs ++ [o] } := by
  have hsupE : ∀ (i : Nat) (o' : SeqObj), (s.seqs ++ [o])[i]? = some o' → o'.isSup = true →
      ∀ it ∈ o'.items, ∃ j o'', j < i ∧ (s.seqs ++ [o])[j]? = some o'' ∧
        ({ s with seqs := s.seqs ++ [o] } : Spec).findSeq it.name = some o'' := by
    have mono' : ∀ n p, s.findSeq n = some p → ({ s with seqs := s.seqs ++ [o] } : Spec).findSeq n = some p := by
      intro n p hp
      show (s.seqs ++ [o]).find? (·.name == n) = some p
      rw [find?_append_fresh]
      have : s.seqs.find? (·.name == n) = some p := hp
      rw [this]; rfl
    intro i o' hi hs' it hit
    by_cases hlt : i < s.seqs.length
    · rw [List.getElem?_append_left hlt] at hi
      obtain ⟨j, o'', hj, hjo, hf⟩ := wf.supEarlier i o' hi hs' it hit
      have hjl : j < s.seqs.length := by omega
      exact ⟨j, o'', hj, by rw [List.getElem?_append_left hjl]; exact hjo, mono' _ _ hf⟩
    · rw [List.getElem?_append_right (by omega)] at hi
      have hi0 : i - s.seqs.length = 0 := by
        cases h : i - s.seqs.length with
        | zero => rfl
        | succ k => rw [h] at hi; simp at hi
      rw [hi0] at hi
      simp only [List.getElem?_cons_zero, Option.some.injEq] at hi
      subst hi
      obtain ⟨p, hp⟩ := Option.isSome_iff_exists.1 ((hsup hs').resolve it hit)
      obtain ⟨j, hj, hje⟩ := List.getElem_of_mem (findSeq_mem hp).1
      exact ⟨j, p, by omega, by rw [List.getElem?_append_left hj, List.getElem?_eq_getElem hj, hje], mono' _ _ hp⟩
  have mono : ∀ n p, s.findSeq n = some p → ({ s with seqs := s.seqs ++ [o] } : Spec).findSeq n = some p := by
    intro n p hp
    show (s.seqs ++ [o]).find? (·.name == n) = some p
    rw [find?_append_fresh]
    have : s.seqs.find? (·.name == n) = some p := hp
    rw [this]; rfl
  have hnew : ({ s with seqs := s.seqs ++ [o] } : Spec).findSeq o.name = some o := by
    show (s.seqs ++ [o]).find? (·.name == o.name) = some o
    rw [find?_append_fresh]
    have : s.seqs.find? (·.name == o.name) = none := hfresh
    rw [this]; simp
  constructor
  · intro o' ho'
    rcases List.mem_append.1 ho' with h | h
    · exact mono _ _ (wf.seqFind o' h)
    · simp at h; subst h; exact hnew
  · exact wf.strandFind
  · intro o' ho'
    rcases List.mem_append.1 ho' with h | h
    · exact wf.seqLen o' h
    · simp at h; subst h; exact hlen
  · intro o' ho'
    rcases List.mem_append.1 ho' with h | h
    · exact wf.base o' h
    · simp at h; subst h; exact hbase
  · intro o' ho' hs
    rcases List.mem_append.1 ho' with h | h
    · exact (wf.sup o' h hs).mono mono
    · simp at h; subst h; exact (hsup hs).mono mono
  · exact wf.strandLen
  · intro o' ho'; exact (wf.strand o' ho').mono mono
  · exact wf.struct
  · exact wf.structLen
  · intro its hits i hi
    obtain ⟨p, hp⟩ := Option.isSome_iff_exists.1 (wf.equal its hits i hi)
    rw [mono _ _ hp]; rfl
  · show ((s.seqs ++ [o]).map (·.name)).Nodup
    rw [List.map_append]
    refine List.nodup_append.2 ⟨wf.seqNames, by simp, ?_⟩
    intro a ha b hb
    simp at hb
    subst hb
    obtain ⟨o', ho', rfl⟩ := List.mem_map.1 ha
    intro e
    have := List.find?_eq_none.1 hfresh o' ho'
    simp [e] at this
  · exact wf.strandNames
  · exact wf.bondsLt
  · intro its hits
    exact equalLen_mono mono (wf.equal its hits) (wf.equalLen its hits)
  · exact hsupE

theorem wf_addStrand {s : Spec} (wf : SpecWF s) (o : StrandObj) (hfresh : s.findStrand o.name = none)
    (hlen : (nucsOfBases o.bases).length = o.len) (ok : ItemsOK s o.items o.bases) :
    SpecWF { s with strands := s.strands ++ [o] } := by
  have monoS : ∀ n p, s.findStrand n = some p → ({ s with strands := s.strands ++ [o] } : Spec).findStrand n = some p := by
    intro n p hp
    show (s.strands ++ [o]).find? (·.name == n) = some p
    rw [find?_append_fresh]
    have : s.strands.find? (·.name == n) = some p := hp
    rw [this]; rfl
  have hnew : ({ s with strands := s.strands ++ [o] } : Spec).findStrand o.name = some o := by
    show (s.strands ++ [o]).find? (·.name == o.name) = some o
    rw [find?_append_fresh]
    have : s.strands.find? (·.name == o.name) = none := hfresh
    rw [this]; simp
  have same : ∀ n p, s.findSeq n = some p → ({ s with strands := s.strands ++ [o] } : Spec).findSeq n = some p :=
    fun _ _ h => h
  constructor
  · exact wf.seqFind
  · intro o' ho'
    rcases List.mem_append.1 ho' with h | h
    · exact monoS _ _ (wf.strandFind o' h)
    · simp at h; subst h; exact hnew
  · exact wf.seqLen
  · exact wf.base
  · intro o' ho' hs; exact (wf.sup o' ho' hs).mono same
  · intro o' ho'
    rcases List.mem_append.1 ho' with h | h
    · exact wf.strandLen o' h
    · simp at h; subst h; exact hlen
  · intro o' ho'
    rcases List.mem_append.1 ho' with h | h
    · exact (wf.strand o' h).mono same
    · simp at h; subst h; exact ok.mono same
  · intro so hso
    obtain ⟨h1, h2⟩ := wf.struct so hso
    refine ⟨fun n hn => ?_, h2⟩
    obtain ⟨p, hp⟩ := Option.isSome_iff_exists.1 (h1 n hn)
    rw [monoS _ _ hp]; rfl
  · intro so hso
    rw [wf.structLen so hso]
    have hres := (wf.struct so hso).1
    have : structStrands { s with strands := s.strands ++ [o] } so = structStrands s so := by
      unfold structStrands
      apply filterMap_congr_mem
      intro n hn
      obtain ⟨p, hp⟩ := Option.isSome_iff_exists.1 (hres n hn)
      have hidx : ∃ k, strandIdx s n = some k := by
        cases hi : strandIdx s n with
        | some k => exact ⟨k, rfl⟩
        | none =>
          have := List.findIdx?_eq_none_iff.1 hi p (findStrand_mem hp).1
          simp [(findStrand_mem hp).2] at this
      obtain ⟨k, hk⟩ := hidx
      have hk' : strandIdx { s with strands := s.strands ++ [o] } n = some k := by
        show (s.strands ++ [o]).findIdx? (·.name == n) = some k
        rw [List.findIdx?_append]
        have : s.strands.findIdx? (·.name == n) = some k := hk
        rw [this]; rfl
      rw [hk', monoS _ _ hp, hk, hp]
    rw [this]
  · exact wf.equal
  · exact wf.seqNames
  · show ((s.strands ++ [o]).map (·.name)).Nodup
    rw [List.map_append]
    refine List.nodup_append.2 ⟨wf.strandNames, by simp, ?_⟩
    intro a ha b hb
    simp at hb
    subst hb
    obtain ⟨o', ho', rfl⟩ := List.mem_map.1 ha
    intro e
    have := List.find?_eq_none.1 hfresh o' ho'
    simp [e] at this
  · exact wf.bondsLt
  · intro its hits
    exact equalLen_mono same (wf.equal its hits) (wf.equalLen its hits)
  · exact wf.supEarlier

theorem wf_addStruct {s : Spec} (wf : SpecWF s) (so : StructObj)
    (hres : ∀ n ∈ so.strands, (s.findStrand n).isSome = true) (hb : getBonds so.struct = .ok so.bonds)
    (hlen : so.len = ((structStrands s so).map (fun q => q.2.len)).sum)
    (hbl : ∀ b ∈ so.bonds, b.1 < so.len ∧ b.2 < so.len) :
    SpecWF { s with structs := s.structs ++ [so] } := by
  have same : ∀ n p, s.findSeq n = some p → ({ s with structs := s.structs ++ [so] } : Spec).findSeq n = some p :=
    fun _ _ h => h
  constructor
  · exact wf.seqFind
  · exact wf.strandFind
  · exact wf.seqLen
  · exact wf.base
  · intro o ho hs; exact (wf.sup o ho hs).mono same
  · exact wf.strandLen
  · intro o ho; exact (wf.strand o ho).mono same
  · intro so' hso'
    rcases List.mem_append.1 hso' with h | h
    · exact wf.struct so' h
    · simp at h; subst h; exact ⟨hres, hb⟩
  · intro so' hso'
    rcases List.mem_append.1 hso' with h | h
    · exact wf.structLen so' h
    · simp at h; subst h; exact hlen
  · exact wf.equal
  · exact wf.seqNames
  · exact wf.strandNames
  · intro so' hso'
    rcases List.mem_append.1 hso' with h | h
    · exact wf.bondsLt so' h
    · simp at h; subst h; exact hbl
  · intro its hits
    exact equalLen_mono same (wf.equal its hits) (wf.equalLen its hits)
  · exact wf.supEarlier

theorem wf_addEqual {s : Spec} (wf : SpecWF s) (its : List ItemRef)
    (hres : ∀ i ∈ its, (s.findSeq i.name).isSome = true)
    (hel : its ≠ [] ∧ ∀ i ∈ its, ∀ j ∈ its, lenOf s i = lenOf s j) :
    SpecWF { s with equals := s.equals ++ [its] } := by
  have same : ∀ n p, s.findSeq n = some p → ({ s with equals := s.equals ++ [its] } : Spec).findSeq n = some p :=
    fun _ _ h => h
  constructor
  · exact wf.seqFind
  · exact wf.strandFind
  · exact wf.seqLen
  · exact wf.base
  · intro o ho hs; exact (wf.sup o ho hs).mono same
  · exact wf.strandLen
  · intro o ho; exact (wf.strand o ho).mono same
  · exact wf.struct
  · exact wf.structLen
  · intro its' hits'
    rcases List.mem_append.1 hits' with h | h
    · exact wf.equal its' h
    · simp at h; subst h; exact hres
  · exact wf.seqNames
  · exact wf.strandNames
  · exact wf.bondsLt
  · intro its' hits'
    rcases List.mem_append.1 hits' with h | h
    · exact equalLen_mono same (wf.equal its' h) (wf.equalLen its' h)
    · simp at h; subst h; exact hel
  · exact wf.supEarlier

theorem specWF_empty : SpecWF {} := by
  constructor
  · intro _ h; simp at h
  · intro _ h; simp at h
  · intro _ h; simp at h
  · intro _ h; simp at h
  · intro _ h; simp at h
  · intro _ h; simp at h
  · intro _ h; simp at h
  · intro _ h; simp at h
  · intro _ h; simp at h
  · intro _ h; simp at h
  · simp
  · simp
  · intro _ h; simp at h
  · intro _ h; simp at h
  · intro i o h; simp at h

theorem mapM_except_ok {α β ε : Type} (f : α → Except ε β) (l : List α) {bs : List β} (h : l.mapM f = .ok bs) :
    ∀ a ∈ l, ∃ b, f a = .ok b := by
  induction l generalizing bs with
  | nil => simp
  | cons a l ih =>
    rw [List.mapM_cons] at h
    simp only [bind, Except.bind] at h
    cases ha : f a with
    | error e => simp [ha] at h
    | ok b =>
      simp only [ha] at h
      cases hl : l.mapM f with
      | error e => simp [hl] at h
      | ok bs' =>
        intro a' ha'
        rcases List.mem_cons.1 ha' with rfl | ha'
        · exact ⟨b, ha⟩
        · exact ih hl a' ha'

theorem isSome_false_eq_none {α : Type} {o : Option α} (h : ¬ o.isSome = true) : o = none := by
  cases o with
  | none => rfl
  | some a => simp at h

/-- number of positions of a dot-paren string (`+` does not count) -/
def nonplus (s : List Char) : Nat := (s.filter (· != '+')).length

theorem splitPlus_spec (s : List Char) :
    splitPlus s ≠ [] ∧ ((splitPlus s).map List.length).sum = nonplus s := by
  induction s with
  | nil => simp [splitPlus, nonplus]
  | cons d r ih =>
    obtain ⟨hne, hsum⟩ := ih
    unfold splitPlus
    cases hsp : splitPlus r with
    | nil => exact absurd hsp hne
    | cons h t =>
      rw [hsp] at hsum
      simp only
      by_cases hd : (d == '+') = true
      · simp only [hd, if_true]
        refine ⟨by simp, ?_⟩
        have : d = '+' := by simpa using hd
        subst this
        simpa [nonplus] using hsum
      · simp only [hd, Bool.false_eq_true, if_false]
        refine ⟨by simp, ?_⟩
        have hd' : (d != '+') = true := by simpa using hd
        simp only [List.map_cons, List.sum_cons, List.length_cons] at hsum ⊢
        unfold nonplus at hsum ⊢
        have : (List.filter (fun x => x != '+') (d :: r)) = d :: List.filter (fun x => x != '+') r := by
          simp [List.filter_cons, hd']
        rw [this]
        simp only [List.length_cons]
        omega

theorem zip_all_len (objs : List StrandObj) (subs : List (List Char)) (hl : subs.length = objs.length)
    (h : (objs.zip subs).all (fun x => x.1.len == x.2.length) = true) :
    (objs.map (fun x => x.len)).sum = (subs.map List.length).sum := by
  induction objs generalizing subs with
  | nil => cases subs with
    | nil => rfl
    | cons a t => simp at hl
  | cons o objs ih =>
    cases subs with
    | nil => simp at hl
    | cons a t =>
      simp only [List.zip_cons_cons, List.all_cons, Bool.and_eq_true, beq_iff_eq] at h
      simp only [List.length_cons, Nat.add_right_cancel_iff] at hl
      simp only [List.map_cons, List.sum_cons, h.1, ih t hl h.2]

theorem getBondsAux_bound (s : List Char) (pos : Nat) (stk : List Nat) (acc bs : List (Nat × Nat))
    (h : getBondsAux s pos stk acc = .ok bs) (hacc : ∀ b ∈ acc, b.1 < pos ∧ b.2 < pos) (hstk : ∀ o ∈ stk, o < pos) :
    ∀ b ∈ bs, b.1 < pos + nonplus s ∧ b.2 < pos + nonplus s := by
  induction s generalizing pos stk acc with
  | nil =>
    simp [getBondsAux] at h
    subst h
    intro b hb
    simpa [nonplus] using hacc b (List.mem_reverse.1 hb)
  | cons c r ih =>
    unfold getBondsAux at h
    split at h
    · cases ‹(c :: r) = []›
    · rename_i r' pos' stk' acc' heq
      cases heq
      have := ih _ _ _ h hacc hstk
      simpa [nonplus] using this
    · rename_i r' pos' stk' acc' heq
      cases heq
      have := ih _ _ _ h (fun b hb => ⟨Nat.lt_succ_of_lt (hacc b hb).1, Nat.lt_succ_of_lt (hacc b hb).2⟩)
        (fun o ho => by
          rcases List.mem_cons.1 ho with rfl | ho
          · exact Nat.lt_succ_self _
          · exact Nat.lt_succ_of_lt (hstk o ho))
      intro b hb
      have := this b hb
      simp only [nonplus] at this ⊢
      rw [List.filter_cons_of_pos (by decide)]
      simp only [List.length_cons]
      omega
    · rename_i r' pos' stk' acc' heq
      cases heq
      split at h
      · cases h
      · rename_i o stk''
        have := ih _ _ _ h (fun b hb => by
            rcases List.mem_cons.1 hb with rfl | hb
            · exact ⟨Nat.lt_succ_of_lt (hstk o List.mem_cons_self), Nat.lt_succ_self _⟩
            · exact ⟨Nat.lt_succ_of_lt (hacc b hb).1, Nat.lt_succ_of_lt (hacc b hb).2⟩)
          (fun o' ho' => Nat.lt_succ_of_lt (hstk o' (List.mem_cons_of_mem _ ho')))
        intro b hb
        have := this b hb
        simp only [nonplus] at this ⊢
        rw [List.filter_cons_of_pos (by decide)]
        simp only [List.length_cons]
        omega
    · rename_i r' pos' stk' acc' heq
      cases heq
      have := ih _ _ _ h (fun b hb => ⟨Nat.lt_succ_of_lt (hacc b hb).1, Nat.lt_succ_of_lt (hacc b hb).2⟩)
        (fun o ho => Nat.lt_succ_of_lt (hstk o ho))
      intro b hb
      have := this b hb
      simp only [nonplus] at this ⊢
      rw [List.filter_cons_of_pos (by decide)]
      simp only [List.length_cons]
      omega
    · cases h

/-- the strands a structure statement resolved are the ones `struct.strands` yields later -/
theorem structStrands_objs {s : Spec} {name : String} {params : Option String} {strands : List String}
    {struct : List Char} {len : Nat} {bonds : List (Nat × Nat)} {objs : List StrandObj}
    (hm : List.mapM (fun n => match s.findStrand n with
          | some o => Except.ok o
          | none => Except.error Err.undefinedStrand) strands = .ok objs) :
    (structStrands s ⟨name, params, strands, struct, len, bonds⟩).map (fun q => q.2.len) = objs.map (fun x => x.len) := by
  unfold structStrands
  simp only
  induction strands generalizing objs with
  | nil =>
    simp only [List.mapM_nil, pure, Except.pure, Except.ok.injEq] at hm
    subst hm; rfl
  | cons n ns ih =>
    rw [List.mapM_cons] at hm
    simp only [bind, Except.bind] at hm
    cases hf : s.findStrand n with
    | none => simp [hf] at hm
    | some o =>
      simp only [hf] at hm
      cases hr : List.mapM (fun n => match s.findStrand n with
          | some o => Except.ok o
          | none => Except.error Err.undefinedStrand) ns with
      | error e => simp [hr] at hm
      | ok os =>
        simp only [hr, pure, Except.pure, Except.ok.injEq] at hm
        subst hm
        have hidx : ∃ k, strandIdx s n = some k := by
          cases hi : strandIdx s n with
          | some k => exact ⟨k, rfl⟩
          | none =>
            have := List.findIdx?_eq_none_iff.1 hi o (findStrand_mem hf).1
            simp [(findStrand_mem hf).2] at this
        obtain ⟨k, hk⟩ := hidx
        simp only [List.filterMap_cons, hk, hf, List.map_cons, ih hr]

/-- `Spec.add_*` preserves well-formedness -/
theorem add_wf {tbl : CodeTable} {s s' : Spec} (wf : SpecWF s) (st : Stmt) (h : s.add tbl st = .ok s') : SpecWF s' := by
  cases st with
  | seq name template =>
    simp only [Spec.add] at h
    split at h
    · cases h
    · split at h
      · cases h
      · rename_i hfresh _
        cases h
        apply wf_addSeq wf _ (isSome_false_eq_none hfresh)
        · simp [viewNucs, basesOfView, nucsOfBases, nucsOfBase, fwd]
        · intro _
          exact ⟨rfl, by simp [viewNucs, basesOfView, nucsOfBases, nucsOfBase]⟩
        · intro hs; cases hs
  | sup name items =>
    simp only [Spec.add, bind, Except.bind, pure, Except.pure, throw, throwThe, MonadExceptOf.throw] at h
    split at h
    · cases h
    · rename_i hfresh
      cases hr : resolveItems s items with
      | error e => simp [hr] at h
      | ok its =>
        simp only [hr, Except.ok.injEq] at h
        subst h
        obtain ⟨ok, hl⟩ := itemsOK_of_resolved wf (resolveItems_ok hr)
        apply wf_addSeq wf _ (isSome_false_eq_none hfresh)
        · simp only [viewNucs, basesOfView, Bool.false_eq_true, if_false]
          exact hl
        · intro hs; cases hs
        · intro _; exact ok
  | strand name dummy items =>
    simp only [Spec.add, bind, Except.bind, pure, Except.pure, throw, throwThe, MonadExceptOf.throw] at h
    split at h
    · cases h
    · rename_i hfresh
      cases hr : resolveItems s items with
      | error e => simp [hr] at h
      | ok its =>
        simp only [hr, Except.ok.injEq] at h
        subst h
        obtain ⟨ok, hl⟩ := itemsOK_of_resolved wf (resolveItems_ok hr)
        exact wf_addStrand wf _ (isSome_false_eq_none hfresh) hl ok
  | struct name params strands struct =>
    simp only [Spec.add, bind, Except.bind, pure, Except.pure, throw, throwThe, MonadExceptOf.throw] at h
    split at h
    · cases h
    · split at h
      · cases h
      · rename_i objs hm
        split at h
        · cases h
        · split at h
          · cases h
          · rename_i bonds hb
            split at h
            · cases h
            · rename_i hcount
              split at h
              · cases h
              · rename_i hzip
                cases h
                apply wf_addStruct wf
                · intro n hn
                  obtain ⟨b, hb'⟩ := mapM_except_ok _ _ hm n hn
                  simp only at hn
                  cases hf : s.findStrand n with
                  | none => simp [hf] at hb'
                  | some o => rfl
                · exact hb
                · simp only
                  rw [structStrands_objs hm]
                · simp only
                  have hlenEq : (splitPlus struct).length = objs.length := by simpa using hcount
                  have hall : (objs.zip (splitPlus struct)).all (fun x => x.1.len == x.2.length) = true := by
                    simpa using hzip
                  rw [zip_all_len objs _ hlenEq hall, (splitPlus_spec struct).2]
                  have := getBondsAux_bound struct 0 [] [] bonds hb (by simp) (by simp)
                  simpa using this
  | equal items =>
    simp only [Spec.add, bind, Except.bind, pure, Except.pure, throw, throwThe, MonadExceptOf.throw] at h
    cases hr : resolveItems s items with
    | error e => simp [hr] at h
    | ok its =>
      simp only [hr] at h
      cases its with
      | nil => simp at h
      | cons p its =>
        simp only at h
        split at h
        · cases h
        · rename_i hall
          cases h
          have hres := resolveItems_ok hr
          have hlenAll : ∀ q ∈ p :: its, lenOf s q.1 = p.2.len := by
            intro q hq
            have h1 : q.2.len = p.2.len := by
              have hall' : (List.all (p :: its) fun x => x.2.len == p.2.len) = true := by
                cases hb : (List.all (p :: its) fun x => x.2.len == p.2.len) with
                | true => rfl
                | false => simp [hb] at hall
              have := List.all_eq_true.1 hall' q hq
              simpa using this
            unfold lenOf
            rw [hres q hq]; exact h1
          apply wf_addEqual wf
          · intro i hi
            obtain ⟨q, hq, rfl⟩ := List.mem_map.1 hi
            rw [hres q hq]; rfl
          · refine ⟨by simp, ?_⟩
            intro i hi j hj
            obtain ⟨q, hq, rfl⟩ := List.mem_map.1 hi
            obtain ⟨q', hq', rfl⟩ := List.mem_map.1 hj
            rw [hlenAll q hq, hlenAll q' hq']
  | kinetic =>
    simp only [Spec.add, pure, Except.pure, Except.ok.injEq] at h
    subst h; exact wf

theorem load_wf_aux {tbl : CodeTable} (stmts : List Stmt) {s s' : Spec} (wf : SpecWF s)
    (h : Pil.load tbl stmts s = .ok s') : SpecWF s' := by
  induction stmts generalizing s with
  | nil => simp [Pil.load] at h; subst h; exact wf
  | cons st rest ih =>
    simp only [Pil.load] at h
    cases ha : s.add tbl st with
    | error e => simp [ha] at h
    | ok s1 =>
      simp only [ha] at h
      exact ih (add_wf wf st ha) h

/-- **Every specification `Pil.load` accepts is well formed.** -/
theorem load_wf {tbl : CodeTable} {stmts : List Stmt} {spec : Spec} (h : Pil.load tbl stmts {} = .ok spec) :
    SpecWF spec := load_wf_aux stmts specWF_empty h

/-- the templates of a loaded specification consist of codes of the loading table -/
theorem load_codes_aux {tbl : CodeTable} (stmts : List Stmt) {s s' : Spec}
    (hs : ∀ o ∈ s.seqs, ∀ ch ∈ o.template, tbl.isCode ch = true)
    (h : Pil.load tbl stmts s = .ok s') : ∀ o ∈ s'.seqs, ∀ ch ∈ o.template, tbl.isCode ch = true := by
  induction stmts generalizing s with
  | nil => simp [Pil.load] at h; subst h; exact hs
  | cons st rest ih =>
    simp only [Pil.load] at h
    cases ha : s.add tbl st with
    | error e => simp [ha] at h
    | ok s1 =>
      simp only [ha] at h
      refine ih ?_ h
      cases st with
      | seq name template =>
        simp only [Spec.add] at ha
        split at ha
        · cases ha
        · split at ha
          · cases ha
          · rename_i _ hall
            cases ha
            intro o ho ch hch
            rcases List.mem_append.1 ho with ho | ho
            · exact hs o ho ch hch
            · simp at ho; subst ho
              simp only [Bool.not_eq_true', Bool.not_eq_false] at hall
              exact List.all_eq_true.1 hall ch hch
      | sup name items =>
        simp only [Spec.add, bind, Except.bind, pure, Except.pure, throw, throwThe, MonadExceptOf.throw] at ha
        split at ha
        · cases ha
        · cases hr : resolveItems s items with
          | error e => simp [hr] at ha
          | ok its =>
            simp only [hr, Except.ok.injEq] at ha
            subst ha
            intro o ho ch hch
            rcases List.mem_append.1 ho with ho | ho
            · exact hs o ho ch hch
            · simp at ho; subst ho; simp at hch
      | strand name dummy items =>
        simp only [Spec.add, bind, Except.bind, pure, Except.pure, throw, throwThe, MonadExceptOf.throw] at ha
        split at ha
        · cases ha
        · cases hr : resolveItems s items with
          | error e => simp [hr] at ha
          | ok its =>
            simp only [hr, Except.ok.injEq] at ha
            subst ha
            exact hs
      | struct name params strands struct =>
        simp only [Spec.add, bind, Except.bind, pure, Except.pure, throw, throwThe, MonadExceptOf.throw] at ha
        split at ha
        · cases ha
        · split at ha
          · cases ha
          · split at ha
            · cases ha
            · split at ha
              · cases ha
              · split at ha
                · cases ha
                · split at ha
                  · cases ha
                  · cases ha; exact hs
      | equal items =>
        simp only [Spec.add, bind, Except.bind, pure, Except.pure, throw, throwThe, MonadExceptOf.throw] at ha
        cases hr : resolveItems s items with
        | error e => simp [hr] at ha
        | ok its =>
          simp only [hr] at ha
          cases its with
          | nil => simp at ha
          | cons p its =>
            simp only at ha
            split at ha
            · cases ha
            · cases ha; exact hs
      | kinetic =>
        simp only [Spec.add, pure, Except.pure, Except.ok.injEq] at ha
        subst ha; exact hs

theorem pilLawful : Generated.pilTable.lawful = true := by decide
theorem nupack_sub_pil : ∀ p ∈ Generated.nupackTable.group, Generated.pilTable.isCode p.1 = true := by decide
theorem pil_N : Generated.pilTable.isCode 'N' = true ∧ Generated.pilTable.maskC 'N' = 15 := by decide

/-- a document read by the PIL reader (whose alphabet is the table of `DNA_nupack_classes.py`) only carries codes
    of the table `constraint_load.py` works with -/
theorem load_specCodes {stmts : List Stmt} {spec : Spec} (h : Pil.load Generated.nupackTable stmts {} = .ok spec) :
    SpecCodes Generated.pilTable spec := by
  refine ⟨pil_N.1, ?_⟩
  intro o ho ch hch
  have := load_codes_aux stmts (s := {}) (by intro o ho; simp at ho) h o (mem_baseSeqs ho).1 ch hch
  obtain ⟨g, hg⟩ := CodeTable.isCode_iff.1 this
  exact nupack_sub_pil (ch, g) (CodeTable.groupOf_mem hg)

end Pepper.ConstraintGen
