import PepperProofs.ConstraintGenSeeds
/-!
# Simulation between the seeded graph and the semantic link graph (soundness half)

Every node of the graph `get_constraints` seeds denotes a nucleotide (`den`): a layout position denotes the
nucleotide of the strand that sits there, `(num, x)` the `x`-th nucleotide of the view numbered `num`.  Every
seeded `eq` link joins nodes whose nucleotides are forced equal by the design, every `wc` link nodes forced
complementary (`edge soundness`); hence parity reachability in the seeded graph implies `NucReach` in the
semantic link graph of `Pil.denote spec`.
-/
namespace Pepper.ConstraintGen
open Pepper Pepper.Pil Pepper.Closure Pepper.LinkSpec

/-! ## lists -/

theorem rc_getElem? (l : List Nuc) (x : Nat) (hx : x < l.length) :
    (rc l)[x]? = (l[l.length - 1 - x]?).map Nuc.flip := by
  unfold rc
  rw [List.getElem?_map, List.getElem?_reverse hx]

theorem rc_length' (l : List Nuc) : (rc l).length = l.length := by simp [rc]

theorem flip_flip' (n : Nuc) : n.flip.flip = n := by cases n; simp [Nuc.flip]

theorem rc_rc' (l : List Nuc) : rc (rc l) = l := by
  simp [rc, List.map_reverse, Function.comp_def, flip_flip']

theorem rc_append' (a b : List Nuc) : rc (a ++ b) = rc b ++ rc a := by simp [rc]

theorem rc_flatMap' {α : Type} (f : α → List Nuc) (l : List α) :
    rc (l.flatMap f) = l.reverse.flatMap (fun a => rc (f a)) := by
  induction l with
  | nil => rfl
  | cons a l ih => simp [rc_append', ih]

/-- indexing into a concatenation through the running offsets -/
theorem flatMap_offset_getElem? {α β : Type} (len : α → Nat) (f : α → List β) (l : List α) (off0 : Nat)
    (hlen : ∀ a ∈ l, (f a).length = len a) {off : Nat} {a : α} (h : (off, a) ∈ withOffsets len l off0)
    {x : Nat} (hx : x < len a) : (l.flatMap f)[off - off0 + x]? = (f a)[x]? ∧ off0 ≤ off := by
  induction l generalizing off0 with
  | nil => simp [withOffsets] at h
  | cons b l ih =>
    simp only [withOffsets, List.mem_cons, Prod.mk.injEq] at h
    rcases h with ⟨rfl, rfl⟩ | h
    · simp only [Nat.sub_self, Nat.zero_add, List.flatMap_cons]
      have hb : x < (f a).length := by rw [hlen a List.mem_cons_self]; exact hx
      exact ⟨by rw [List.getElem?_append_left hb], Nat.le_refl _⟩
    · obtain ⟨h1, h2⟩ := ih (off0 + len b) (fun a ha => hlen a (List.mem_cons_of_mem _ ha)) h
      refine ⟨?_, by omega⟩
      simp only [List.flatMap_cons]
      have hlb : (f b).length = len b := hlen b List.mem_cons_self
      rw [List.getElem?_append_right (by omega)]
      rw [← h1]
      congr 1
      omega

theorem withOffsets_mem {α : Type} (len : α → Nat) (l : List α) (off0 : Nat) {off : Nat} {a : α}
    (h : (off, a) ∈ withOffsets len l off0) : a ∈ l := by
  induction l generalizing off0 with
  | nil => simp [withOffsets] at h
  | cons b l ih =>
    simp only [withOffsets, List.mem_cons, Prod.mk.injEq] at h
    rcases h with ⟨_, rfl⟩ | h
    · exact List.mem_cons_self
    · exact List.mem_cons_of_mem _ (ih _ h)

theorem withOffsets_bound {α : Type} (len : α → Nat) (l : List α) (off0 : Nat) {off : Nat} {a : α}
    (h : (off, a) ∈ withOffsets len l off0) : off + len a ≤ off0 + (l.map len).sum := by
  induction l generalizing off0 with
  | nil => simp [withOffsets] at h
  | cons b l ih =>
    simp only [withOffsets, List.mem_cons, Prod.mk.injEq] at h
    rcases h with ⟨rfl, rfl⟩ | h
    · simp
    · have := ih _ h
      simp only [List.map_cons, List.sum_cons]
      omega

/-! ## nucleotides of views -/

theorem nucsOfBase_length (b : BaseRef) : (nucsOfBase b).length = b.len := by
  unfold nucsOfBase
  split
  · rw [rc_length']; simp [fwd]
  · simp [fwd]

theorem nucsOfBase_inv (b : BaseRef) : nucsOfBase b.inv = rc (nucsOfBase b) := by
  unfold nucsOfBase BaseRef.inv
  cases hb : b.rev
  · simp
  · simp [rc_rc']

theorem nucsOfBases_rev (bs : List BaseRef) :
    nucsOfBases (bs.reverse.map BaseRef.inv) = rc (nucsOfBases bs) := by
  unfold nucsOfBases
  rw [rc_flatMap', List.flatMap_map]
  induction bs.reverse with
  | nil => rfl
  | cons b r ih => simp only [List.flatMap_cons, ih, nucsOfBase_inv]

/-- the nucleotides of a view of a sequence object -/
def viewNucs (o : SeqObj) (rev : Bool) : List Nuc := nucsOfBases (basesOfView o rev)

theorem viewNucs_true (o : SeqObj) : viewNucs o true = rc (viewNucs o false) := by
  unfold viewNucs basesOfView
  simp only [if_true, Bool.false_eq_true, if_false]
  exact nucsOfBases_rev _

theorem viewNucs_length (o : SeqObj) (rev : Bool) : (viewNucs o rev).length = (viewNucs o false).length := by
  cases rev
  · rfl
  · rw [viewNucs_true, rc_length']

/-- the nucleotides an item of a sup-sequence / strand / `equal` line stands for -/
def nucsOfItem (spec : Spec) (i : ItemRef) : List Nuc :=
  match spec.findSeq i.name with
  | some o => viewNucs o i.rev
  | none => []

/-! ## well-formed specifications -/

/-- the items of a super-sequence / strand resolve, and its nucleotides are those of the items in order -/
structure ItemsOK (spec : Spec) (items : List ItemRef) (bases : List BaseRef) : Prop where
  resolve : ∀ i ∈ items, (spec.findSeq i.name).isSome = true
  nucs : nucsOfBases bases = items.flatMap (nucsOfItem spec)

/-- what `Pil.load` guarantees about the object model (`Pil.wfB` is the executable form) -/
structure SpecWF (spec : Spec) : Prop where
  seqFind : ∀ o ∈ spec.seqs, spec.findSeq o.name = some o
  strandFind : ∀ o ∈ spec.strands, spec.findStrand o.name = some o
  seqLen : ∀ o ∈ spec.seqs, (viewNucs o false).length = o.len
  base : ∀ o ∈ spec.seqs, o.isSup = false → o.template.length = o.len ∧ viewNucs o false = fwd o.name o.len
  sup : ∀ o ∈ spec.seqs, o.isSup = true → ItemsOK spec o.items o.bases
  strandLen : ∀ o ∈ spec.strands, (nucsOfBases o.bases).length = o.len
  strand : ∀ o ∈ spec.strands, ItemsOK spec o.items o.bases
  struct : ∀ so ∈ spec.structs, (∀ n ∈ so.strands, (spec.findStrand n).isSome = true) ∧
    getBonds so.struct = .ok so.bonds
  structLen : ∀ so ∈ spec.structs, so.len = ((structStrands spec so).map (fun q => q.2.len)).sum
  equal : ∀ its ∈ spec.equals, ∀ i ∈ its, (spec.findSeq i.name).isSome = true
  seqNames : (spec.seqs.map (·.name)).Nodup
  strandNames : (spec.strands.map (·.name)).Nodup
  bondsLt : ∀ so ∈ spec.structs, ∀ b ∈ so.bonds, b.1 < so.len ∧ b.2 < so.len
  equalLen : ∀ its ∈ spec.equals, its ≠ [] ∧ ∀ i ∈ its, ∀ j ∈ its, lenOf spec i = lenOf spec j
  supEarlier : ∀ (i : Nat) (o : SeqObj), spec.seqs[i]? = some o → o.isSup = true →
    ∀ it ∈ o.items, ∃ j o', j < i ∧ spec.seqs[j]? = some o' ∧ spec.findSeq it.name = some o'

theorem find?_mem' {α : Type} {p : α → Bool} {l : List α} {a : α} (h : l.find? p = some a) : a ∈ l ∧ p a = true :=
  ⟨List.mem_of_find?_eq_some h, List.find?_some h⟩

theorem findSeq_mem {spec : Spec} {n : String} {o : SeqObj} (h : spec.findSeq n = some o) :
    o ∈ spec.seqs ∧ o.name = n := by
  obtain ⟨h1, h2⟩ := find?_mem' h
  exact ⟨h1, by simpa using h2⟩

theorem findStrand_mem {spec : Spec} {n : String} {o : StrandObj} (h : spec.findStrand n = some o) :
    o ∈ spec.strands ∧ o.name = n := by
  obtain ⟨h1, h2⟩ := find?_mem' h
  exact ⟨h1, by simpa using h2⟩

theorem nucsOfItem_length {spec : Spec} (wf : SpecWF spec) (i : ItemRef) :
    (nucsOfItem spec i).length = lenOf spec i := by
  unfold nucsOfItem lenOf
  cases h : spec.findSeq i.name with
  | none => rfl
  | some o => simp only; rw [viewNucs_length]; exact wf.seqLen o (findSeq_mem h).1

theorem foldl_max_le {α : Type} (f : α → Nat) (l : List α) (m : Nat) :
    m ≤ l.foldl (fun m o => max m (f o)) m ∧ ∀ a ∈ l, f a ≤ l.foldl (fun m o => max m (f o)) m := by
  induction l generalizing m with
  | nil => simp
  | cons b l ih =>
    simp only [List.foldl_cons]
    obtain ⟨h1, h2⟩ := ih (max m (f b))
    refine ⟨Nat.le_trans (Nat.le_max_left _ _) h1, ?_⟩
    intro a ha
    rcases List.mem_cons.1 ha with rfl | ha
    · exact Nat.le_trans (Nat.le_max_right _ _) h1
    · exact h2 a ha

theorem len_lt_M {spec : Spec} {o : SeqObj} (h : o ∈ spec.seqs) (lay : Lay) : o.len < (encOf spec lay).M := by
  have := (foldl_max_le (fun (o : SeqObj) => o.len) spec.seqs 0).2 o h
  show o.len < maxLen spec + 1
  unfold maxLen
  omega

/-! ## numbering of views -/

/-- the sequence object whose views carry the numbers `num` (even) and `num + 1` -/
def objOfNum (spec : Spec) (num : Nat) : Option SeqObj :=
  if num / 2 < spec.baseSeqs.length then spec.baseSeqs[num / 2]? else spec.supSeqs[num / 2 - spec.baseSeqs.length]?

def revOfNum (num : Nat) : Bool := num % 2 == 1

theorem findIdx?_spec {α : Type} {p : α → Bool} {l : List α} {k : Nat} (h : l.findIdx? p = some k) :
    ∃ a, l[k]? = some a ∧ p a = true := by
  rw [List.findIdx?_eq_some_iff_getElem] at h
  obtain ⟨hk, hp, _⟩ := h
  exact ⟨l[k], List.getElem?_eq_getElem hk, hp⟩

theorem mem_baseSeqs {spec : Spec} {o : SeqObj} (h : o ∈ spec.baseSeqs) : o ∈ spec.seqs ∧ o.isSup = false := by
  unfold Spec.baseSeqs at h
  obtain ⟨h1, h2⟩ := List.mem_filter.1 h
  exact ⟨h1, by simpa using h2⟩

theorem mem_supSeqs {spec : Spec} {o : SeqObj} (h : o ∈ spec.supSeqs) : o ∈ spec.seqs ∧ o.isSup = true := by
  unfold Spec.supSeqs at h
  obtain ⟨h1, h2⟩ := List.mem_filter.1 h
  exact ⟨h1, h2⟩

/-- `seq.num` of a view names the object the view belongs to and its orientation -/
theorem numOf_spec {spec : Spec} (wf : SpecWF spec) {it : ItemRef} {num : Nat} (h : numOf spec it = some num) :
    ∃ o, objOfNum spec num = some o ∧ revOfNum num = it.rev ∧ spec.findSeq it.name = some o := by
  unfold numOf at h
  cases hb : spec.baseSeqs.findIdx? (·.name == it.name) with
  | some k =>
    simp only [hb, Option.some.injEq] at h
    obtain ⟨o, hk, hp⟩ := findIdx?_spec hb
    have hkl : k < spec.baseSeqs.length := (List.getElem?_eq_some_iff.1 hk).1
    have hmem := mem_baseSeqs (List.mem_of_getElem? hk)
    have hname : o.name = it.name := by simpa using hp
    refine ⟨o, ?_, ?_, ?_⟩
    · unfold objOfNum
      subst h
      have : (2 * k + if it.rev = true then 1 else 0) / 2 = k := by split <;> omega
      rw [this]; simp only [hkl, if_true]; exact hk
    · unfold revOfNum
      subst h
      cases it.rev <;> simp <;> omega
    · rw [← hname]; exact wf.seqFind o hmem.1
  | none =>
    simp only [hb] at h
    cases hs : spec.supSeqs.findIdx? (·.name == it.name) with
    | none => simp [hs] at h
    | some k =>
      simp only [hs, Option.some.injEq] at h
      obtain ⟨o, hk, hp⟩ := findIdx?_spec hs
      have hmem := mem_supSeqs (List.mem_of_getElem? hk)
      have hname : o.name = it.name := by simpa using hp
      refine ⟨o, ?_, ?_, ?_⟩
      · unfold objOfNum
        subst h
        have : (2 * spec.baseSeqs.length + 2 * k + if it.rev = true then 1 else 0) / 2 = spec.baseSeqs.length + k := by
          split <;> omega
        rw [this]
        have h1 : ¬ (spec.baseSeqs.length + k < spec.baseSeqs.length) := by omega
        simp only [h1, if_false]
        have h2 : spec.baseSeqs.length + k - spec.baseSeqs.length = k := by omega
        rw [h2, hk]
      · unfold revOfNum
        subst h
        cases it.rev <;> simp <;> omega
      · rw [← hname]; exact wf.seqFind o hmem.1

/-- the nucleotide a sequence node `(num, x)` stands for, read off the node's code -/
def denSq (spec : Spec) (e : Enc) (node : Nat) : Option Nuc :=
  match objOfNum spec ((node - e.P) / e.M) with
  | some o => (viewNucs o (revOfNum ((node - e.P) / e.M)))[(node - e.P) % e.M]?
  | none => none

theorem denSq_sq (spec : Spec) (e : Enc) {num x : Nat} (hx : x < e.M) {o : SeqObj} (ho : objOfNum spec num = some o) :
    denSq spec e (e.sq num x) = (viewNucs o (revOfNum num))[x]? := by
  unfold denSq Enc.sq
  have h1 : e.P + num * e.M + x - e.P = num * e.M + x := by omega
  have hM : 0 < e.M := by omega
  have h2 : (num * e.M + x) / e.M = num := by
    rw [Nat.mul_comm, Nat.mul_add_div hM, Nat.div_eq_of_lt hx]; simp
  have h3 : (num * e.M + x) % e.M = x := by
    rw [Nat.mul_comm, Nat.mul_add_mod, Nat.mod_eq_of_lt hx]
  rw [h1, h2, h3, ho]

/-! ## the strand layout -/

theorem layStrandAux_spec (l : List StrandObj) (p : Nat) :
    (layStrandAux l p).1.length = l.length ∧ ∀ k, k < l.length → ∃ s, (layStrandAux l p).1[k]? = some (some s) := by
  induction l generalizing p with
  | nil => simp [layStrandAux]
  | cons a l ih =>
    obtain ⟨h1, h2⟩ := ih (p + a.len + Generated.strandGap)
    simp only [layStrandAux, List.length_cons]
    refine ⟨by rw [h1], ?_⟩
    intro k hk
    cases k with
    | zero => exact ⟨p, rfl⟩
    | succ k =>
      obtain ⟨s, hs⟩ := h2 k (by omega)
      exact ⟨s, by simpa using hs⟩

/-- `strand_start[k]` in the strand layout -/
def startS (spec : Spec) (k : Nat) : Nat := ((layStrand spec).strandStart.getD k none).getD 0

theorem getIndexStrand_strand (spec : Spec) {k : Nat} (hk : k < spec.strands.length) {len x : Nat} (hx : x < len) :
    getIndexStrand (layStrand spec) k len x = .ok (startS spec k + x) := by
  unfold getIndexStrand startS
  obtain ⟨s, hs⟩ := (layStrandAux_spec spec.strands 0).2 k hk
  have : (layStrand spec).strandStart = (layStrandAux spec.strands 0).1 := rfl
  simp only [hx, if_true, this, List.getD_eq_getElem?_getD, hs]
  rfl

theorem mem_enum_lt {α : Type} {l : List α} {p : Nat × α} (h : p ∈ enum l) : p.1 < l.length :=
  (List.getElem?_eq_some_iff.1 (mem_enum h).2).1

def dfltNuc : Nuc := ⟨⟨"", 0⟩, false⟩

/-- the nucleotide at every position of the strand layout, in the order of the `init` calls -/
def posTabStrand (spec : Spec) : List (Nat × Nuc) :=
  (enum spec.strands).flatMap (fun (p : Nat × StrandObj) =>
    (List.range p.2.len).map (fun x => (startS spec p.1 + x, (nucsOfBases p.2.bases).getD x dfltNuc)))

theorem layoutInits_strand (spec : Spec) :
    layoutInits .strand spec (layStrand spec) = .ok ((enum spec.strands).flatMap (fun (p : Nat × StrandObj) =>
      (List.range p.2.len).map (fun x => (startS spec p.1 + x, 'N')))) := by
  unfold layoutInits
  simp only
  apply flatME_total
  intro p hp
  apply mapME_total
  intro x hx
  rw [getIndexStrand_strand spec (mem_enum_lt hp) (List.mem_range.1 hx)]

theorem posTabStrand_keys (spec : Spec) :
    (posTabStrand spec).map (·.1) = ((enum spec.strands).flatMap (fun (p : Nat × StrandObj) =>
      (List.range p.2.len).map (fun x => (startS spec p.1 + x, 'N')))).map (·.1) := by
  unfold posTabStrand
  rw [List.map_flatMap, List.map_flatMap]
  congr 1
  funext p
  simp [List.map_map, Function.comp_def]

/-! ## denotation of nodes -/

/-- the nucleotide a node stands for: a layout position through the table of positions, a sequence node
    through its number -/
def den (posTab : List (Nat × Nuc)) (spec : Spec) (e : Enc) (node : Nat) : Option Nuc :=
  match posTab.lookup node with
  | some m => some m
  | none => denSq spec e node

theorem lookup_eq_none_of_not_mem {β : Type} {l : List (Nat × β)} {x : Nat} (h : x ∉ l.map (·.1)) :
    l.lookup x = none := by
  cases hl : l.lookup x with
  | none => rfl
  | some v => exact absurd ((lookup_isSome_iff l x).1 (by rw [hl]; rfl)) h

/-- keys of the sequence nodes: every `(num, x)` with `x` inside the view -/
theorem sq_mem_seqInits {spec : Spec} (wf : SpecWF spec) (e : Enc) {num x : Nat} {o : SeqObj}
    (ho : objOfNum spec num = some o) (hx : x < o.len) : e.sq num x ∈ (seqInits spec e).map (·.1) := by
  unfold objOfNum at ho
  unfold seqInits
  rw [List.map_append, List.mem_append]
  have hcase : num = 2 * (num / 2) ∨ num = 2 * (num / 2) + 1 := by omega
  by_cases hb : num / 2 < spec.baseSeqs.length
  · left
    simp only [hb, if_true] at ho
    have hmem : (num / 2, o) ∈ enum spec.baseSeqs := by
      unfold enum
      have hk := (List.getElem?_eq_some_iff.1 ho).1
      have : ((List.range spec.baseSeqs.length).zip spec.baseSeqs)[num / 2]'(by simp [List.length_zip]; exact hk)
          = (num / 2, o) := by
        rw [List.getElem_zip]; simp [(List.getElem?_eq_some_iff.1 ho).2]
      exact this ▸ List.getElem_mem _
    have hbase := (wf.base o (mem_baseSeqs (List.mem_of_getElem? ho)).1 (mem_baseSeqs (List.mem_of_getElem? ho)).2).1
    rw [List.map_flatMap, List.mem_flatMap]
    refine ⟨(num / 2, o), hmem, ?_⟩
    simp only [List.map_append, List.map_map, List.mem_append, List.mem_map, Function.comp]
    rcases hcase with h | h
    · left
      have hxt : x < o.template.length := by rw [hbase]; exact hx
      refine ⟨(x, o.template[x]), ?_, by rw [← h]⟩
      unfold enum
      have : ((List.range o.template.length).zip o.template)[x]'(by simp [List.length_zip]; exact hxt)
          = (x, o.template[x]) := by rw [List.getElem_zip]; simp
      exact this ▸ List.getElem_mem _
    · right
      exact ⟨x, List.mem_range.2 hx, by rw [← h]⟩
  · right
    simp only [hb, if_false] at ho
    have hmem : (num / 2 - spec.baseSeqs.length, o) ∈ enum spec.supSeqs := by
      unfold enum
      have hk := (List.getElem?_eq_some_iff.1 ho).1
      have : ((List.range spec.supSeqs.length).zip spec.supSeqs)[num / 2 - spec.baseSeqs.length]'(by
            simp [List.length_zip]; exact hk) = (num / 2 - spec.baseSeqs.length, o) := by
        rw [List.getElem_zip]; simp [(List.getElem?_eq_some_iff.1 ho).2]
      exact this ▸ List.getElem_mem _
    rw [List.map_flatMap, List.mem_flatMap]
    refine ⟨(num / 2 - spec.baseSeqs.length, o), hmem, ?_⟩
    simp only [List.map_append, List.map_map, List.mem_append, List.mem_map, Function.comp]
    have hn : 2 * spec.baseSeqs.length + 2 * (num / 2 - spec.baseSeqs.length) = 2 * (num / 2) := by omega
    rcases hcase with h | h
    · left
      exact ⟨x, List.mem_range.2 hx, by rw [hn, ← h]⟩
    · right
      exact ⟨x, List.mem_range.2 hx, by rw [hn, ← h]⟩

/-- with distinct keys, positions and sequence nodes denote what their descriptions say -/
structure DenOK (posTab : List (Nat × Nuc)) (spec : Spec) (e : Enc) : Prop where
  nodup : (posTab.map (·.1) ++ (seqInits spec e).map (·.1)).Nodup

theorem den_pos {posTab : List (Nat × Nuc)} {spec : Spec} {e : Enc} (D : DenOK posTab spec e) {p : Nat} {m : Nuc}
    (h : (p, m) ∈ posTab) : den posTab spec e p = some m := by
  unfold den
  rw [lookup_of_mem_nodup (List.nodup_append.1 D.nodup).1 h]

theorem den_sq {posTab : List (Nat × Nuc)} {spec : Spec} (wf : SpecWF spec) {lay : Lay}
    (D : DenOK posTab spec (encOf spec lay)) {num x : Nat} {o : SeqObj} (ho : objOfNum spec num = some o)
    (hx : x < o.len) (hmem : o ∈ spec.seqs) :
    den posTab spec (encOf spec lay) ((encOf spec lay).sq num x) = (viewNucs o (revOfNum num))[x]? := by
  unfold den
  have hk := sq_mem_seqInits wf (encOf spec lay) ho hx
  have hnot : (encOf spec lay).sq num x ∉ posTab.map (·.1) := by
    intro hin
    exact (List.nodup_append.1 D.nodup).2.2 _ hin _ hk rfl
  rw [lookup_eq_none_of_not_mem hnot]
  exact denSq_sq spec _ (Nat.lt_trans hx (len_lt_M hmem lay)) ho

/-! ## forced equal / complementary nucleotides -/

theorem NucReach.refl (d : Design) (m : Nuc) : NucReach d m false m := by
  unfold NucReach
  have : ((false != m.comp) != m.comp) = false := by cases m.comp <;> rfl
  rw [this]; exact ParityReach.refl

theorem NucReach.trans {d : Design} {m n l : Nuc} {p q : Bool} (h1 : NucReach d m p n) (h2 : NucReach d n q l) :
    NucReach d m (p ^^ q) l := by
  unfold NucReach at *
  have := ParityReach.trans h1 h2
  have e : (((p != m.comp) != n.comp) ^^ ((q != n.comp) != l.comp)) = (((p ^^ q) != m.comp) != l.comp) := by
    cases p <;> cases q <;> cases m.comp <;> cases n.comp <;> cases l.comp <;> rfl
  rwa [e] at this

theorem NucReach.symm {d : Design} {m n : Nuc} {p : Bool} (h : NucReach d m p n) : NucReach d n p m := by
  unfold NucReach at *
  have := ParityReach.symm h
  have e : ((p != m.comp) != n.comp) = ((p != n.comp) != m.comp) := by
    cases p <;> cases m.comp <;> cases n.comp <;> rfl
  rwa [e] at this

theorem nucReach_flip (d : Design) (n : Nuc) : NucReach d n.flip true n := by
  unfold NucReach Nuc.flip
  have : ((true != !n.comp) != n.comp) = false := by cases n.comp <;> rfl
  simp only [this]; exact ParityReach.refl

theorem nucReach_of_equalLink {d : Design} {m n : Nuc}
    (h : (⟨m.var, n.var, m.comp != n.comp⟩ : Link) ∈ links d) : NucReach d m false n := by
  unfold NucReach
  have := ParityReach.fwd (v := m.var) _ ParityReach.refl h rfl
  have e : (false != (m.comp != n.comp)) = ((false != m.comp) != n.comp) := by
    cases m.comp <;> cases n.comp <;> rfl
  simpa [e] using this

theorem nucReach_of_pairLink {d : Design} {m n : Nuc}
    (h : (⟨m.var, n.var, m.comp == n.comp⟩ : Link) ∈ links d) : NucReach d m true n := by
  unfold NucReach
  have := ParityReach.fwd (v := m.var) _ ParityReach.refl h rfl
  have e : (false != (m.comp == n.comp)) = ((true != m.comp) != n.comp) := by
    cases m.comp <;> cases n.comp <;> rfl
  simp only at this
  rw [e] at this
  exact this

/-- a seeded link joins two nodes whose nucleotides are forced equal (`p = false`) / complementary -/
def EdgeSound (d : Design) (dn : Nat → Option Nuc) (p : Bool) (e : Nat × Nat) : Prop :=
  ∃ m n, dn e.1 = some m ∧ dn e.2 = some n ∧ NucReach d m p n

/-- **Soundness of the seeding**: if every seeded link is sound, parity reachability in the seeded graph implies
    that the nucleotides of the two nodes are forced equal / complementary by the design. -/
theorem reach_sound {d : Design} {dn : Nat → Option Nuc} {eq wc : Adj} {eqE wcE : List (Nat × Nat)}
    (nbE : ∀ x y, y ∈ nb eq x ↔ (x, y) ∈ eqE ∨ (y, x) ∈ eqE)
    (nbW : ∀ x y, y ∈ nb wc x ↔ (x, y) ∈ wcE ∨ (y, x) ∈ wcE)
    (hE : ∀ e ∈ eqE, EdgeSound d dn false e) (hW : ∀ e ∈ wcE, EdgeSound d dn true e)
    {x y : Nat} {p : Bool} (h : Reach eq wc x p y) {m : Nuc} (hm : dn x = some m) :
    ∃ n, dn y = some n ∧ NucReach d m p n := by
  induction h with
  | refl => exact ⟨m, hm, NucReach.refl d m⟩
  | @eqStep p y z _ hz ih =>
    obtain ⟨n, hn, hr⟩ := ih
    rcases (nbE y z).1 hz with he | he
    · obtain ⟨a, b, ha, hb, hab⟩ := hE _ he
      simp only at ha hb
      rw [hn] at ha; cases ha
      exact ⟨b, hb, by have := NucReach.trans hr hab; rwa [Bool.xor_false] at this⟩
    · obtain ⟨a, b, ha, hb, hab⟩ := hE _ he
      simp only at ha hb
      rw [hn] at hb; cases hb
      exact ⟨a, ha, by have := NucReach.trans hr (NucReach.symm hab); rwa [Bool.xor_false] at this⟩
  | @wcStep p y z _ hz ih =>
    obtain ⟨n, hn, hr⟩ := ih
    have e : (p ^^ true) = !p := by cases p <;> rfl
    rcases (nbW y z).1 hz with he | he
    · obtain ⟨a, b, ha, hb, hab⟩ := hW _ he
      simp only at ha hb
      rw [hn] at ha; cases ha
      exact ⟨b, hb, e ▸ NucReach.trans hr hab⟩
    · obtain ⟨a, b, ha, hb, hab⟩ := hW _ he
      simp only at ha hb
      rw [hn] at hb; cases hb
      exact ⟨a, ha, e ▸ NucReach.trans hr (NucReach.symm hab)⟩

/-! ## soundness of each group of links -/

theorem enum_getElem? {α : Type} {l : List α} {p : Nat × α} (h : p ∈ enum l) : l[p.1]? = some p.2 := (mem_enum h).2

theorem objOfNum_base {spec : Spec} {k : Nat} {o : SeqObj} (h : (k, o) ∈ enum spec.baseSeqs) :
    objOfNum spec (2 * k) = some o ∧ objOfNum spec (2 * k + 1) = some o ∧
    revOfNum (2 * k) = false ∧ revOfNum (2 * k + 1) = true := by
  have hk := enum_getElem? h
  have hlt : k < spec.baseSeqs.length := mem_enum_lt h
  simp only at hk hlt
  unfold objOfNum revOfNum
  have h1 : 2 * k / 2 = k := by omega
  have h2 : (2 * k + 1) / 2 = k := by omega
  have h3 : 2 * k % 2 = 0 := by omega
  have h4 : (2 * k + 1) % 2 = 1 := by omega
  simp only [h1, h2, h3, h4, hlt, if_true, hk]
  simp

theorem objOfNum_sup {spec : Spec} {k : Nat} {o : SeqObj} (h : (k, o) ∈ enum spec.supSeqs) :
    objOfNum spec (2 * spec.baseSeqs.length + 2 * k) = some o ∧
    objOfNum spec (2 * spec.baseSeqs.length + 2 * k + 1) = some o ∧
    revOfNum (2 * spec.baseSeqs.length + 2 * k) = false ∧ revOfNum (2 * spec.baseSeqs.length + 2 * k + 1) = true := by
  have hk := enum_getElem? h
  simp only at hk
  unfold objOfNum revOfNum
  have h1 : (2 * spec.baseSeqs.length + 2 * k) / 2 = spec.baseSeqs.length + k := by omega
  have h2 : (2 * spec.baseSeqs.length + 2 * k + 1) / 2 = spec.baseSeqs.length + k := by omega
  have h3 : (2 * spec.baseSeqs.length + 2 * k) % 2 = 0 := by omega
  have h4 : (2 * spec.baseSeqs.length + 2 * k + 1) % 2 = 1 := by omega
  have h5 : ¬ (spec.baseSeqs.length + k < spec.baseSeqs.length) := by omega
  have h6 : spec.baseSeqs.length + k - spec.baseSeqs.length = k := by omega
  simp [h1, h2, h3, h4, h5, h6, hk]

theorem sqOf_ok {spec : Spec} {e : Enc} {it : ItemRef} {x b : Nat} (h : sqOf spec e it x = .ok b) :
    ∃ num, numOf spec it = some num ∧ b = e.sq num x := by
  unfold sqOf at h
  cases hn : numOf spec it with
  | none => simp [hn] at h
  | some num => simp only [hn, Except.ok.injEq] at h; exact ⟨num, rfl, h.symm⟩

section Groups
variable {spec : Spec} {lay : Lay} {posTab : List (Nat × Nuc)}

/-- a sequence node of an item denotes the item's nucleotide -/
theorem den_item (wf : SpecWF spec) (D : DenOK posTab spec (encOf spec lay)) {it : ItemRef} {num x : Nat}
    (hn : numOf spec it = some num) (hx : x < lenOf spec it) :
    den posTab spec (encOf spec lay) ((encOf spec lay).sq num x) = (nucsOfItem spec it)[x]? := by
  obtain ⟨o, ho, hrev, hf⟩ := numOf_spec wf hn
  have hlen : lenOf spec it = o.len := by simp [lenOf, hf]
  rw [den_sq wf D ho (hlen ▸ hx) (findSeq_mem hf).1, hrev]
  simp [nucsOfItem, hf]

theorem flatMap_length_sum {α β : Type} (f : α → List β) (l : List α) :
    (l.flatMap f).length = (l.map (fun a => (f a).length)).sum := by
  induction l with
  | nil => rfl
  | cons a l ih => simp [ih]

/-- indexing the nucleotides of a super-sequence / strand through the running offset of the Python loop -/
theorem items_index (wf : SpecWF spec) {items : List ItemRef} {bases : List BaseRef} (ok : ItemsOK spec items bases)
    {off : Nat} {it : ItemRef} (h : (off, it) ∈ withOffsets (lenOf spec) items 0) {x : Nat} (hx : x < lenOf spec it) :
    (nucsOfBases bases)[off + x]? = (nucsOfItem spec it)[x]? ∧ off + x < (nucsOfBases bases).length := by
  rw [ok.nucs]
  have hl : ∀ a ∈ items, (nucsOfItem spec a).length = lenOf spec a := fun a _ => nucsOfItem_length wf a
  obtain ⟨h1, _⟩ := flatMap_offset_getElem? (lenOf spec) (nucsOfItem spec) items 0 hl h hx
  simp only [Nat.sub_zero] at h1
  refine ⟨h1, ?_⟩
  have hb := withOffsets_bound (lenOf spec) items 0 h
  rw [flatMap_length_sum]
  have : (items.map (fun a => (nucsOfItem spec a).length)) = items.map (lenOf spec) := by
    apply List.map_congr_left; intro a ha; exact hl a ha
  rw [this]; omega

theorem getElem?_some_of_lt {α : Type} {l : List α} {i : Nat} (h : i < l.length) : ∃ a, l[i]? = some a :=
  ⟨l[i], List.getElem?_eq_getElem h⟩

/-- "super-sequence constraints" join nodes with the same nucleotide -/
theorem supEdges_sound (wf : SpecWF spec) (D : DenOK posTab spec (encOf spec lay)) {se : List (Nat × Nat)}
    (h : supEdges spec (encOf spec lay) = .ok se) :
    ∀ e ∈ se, EdgeSound (Pil.denote spec) (den posTab spec (encOf spec lay)) false e := by
  intro e he
  unfold supEdges at h
  obtain ⟨⟨k, o⟩, hko, cs, hcs, hecs⟩ := (flatME_mem h e).1 he
  obtain ⟨⟨off, it⟩, hoff, cs', hcs', hecs'⟩ := (flatME_mem hcs e).1 hecs
  obtain ⟨x, hx, hxe⟩ := mapME_mem hcs' hecs'
  simp only at hxe
  have hxl : x < lenOf spec it := List.mem_range.1 hx
  cases hb : sqOf spec (encOf spec lay) it x with
  | error er => simp [hb] at hxe
  | ok b =>
    simp only [hb, Except.ok.injEq] at hxe
    subst hxe
    obtain ⟨num, hn, rfl⟩ := sqOf_ok hb
    obtain ⟨ho1, _, hr1, _⟩ := objOfNum_sup hko
    have hmem := mem_supSeqs (mem_enum hko).1
    simp only at hmem
    have ok := wf.sup o hmem.1 hmem.2
    obtain ⟨hidx, hlt⟩ := items_index wf ok hoff hxl
    have hv : viewNucs o false = nucsOfBases o.bases := by simp [viewNucs, basesOfView]
    have hlen : off + x < o.len := by rw [← wf.seqLen o hmem.1, hv]; exact hlt
    obtain ⟨m, hm⟩ := getElem?_some_of_lt hlt
    refine ⟨m, m, ?_, ?_, NucReach.refl _ m⟩
    · simp only
      rw [den_sq wf D ho1 hlen hmem.1, hr1, hv]; exact hm
    · simp only
      rw [den_item wf D hn hxl, ← hidx]; exact hm

/-- the complement view of a sequence is linked position by position to the complemented nucleotide -/
theorem viewEdges_sound (wf : SpecWF spec) (D : DenOK posTab spec (encOf spec lay)) :
    ∀ e ∈ viewEdges spec (encOf spec lay), EdgeSound (Pil.denote spec) (den posTab spec (encOf spec lay)) true e := by
  intro e he
  unfold viewEdges at he
  have main : ∀ (o : SeqObj) (n0 : Nat) (x : Nat), o ∈ spec.seqs → objOfNum spec n0 = some o →
      objOfNum spec (n0 + 1) = some o → revOfNum n0 = false → revOfNum (n0 + 1) = true → x < o.len →
      EdgeSound (Pil.denote spec) (den posTab spec (encOf spec lay)) true
        ((encOf spec lay).sq (n0 + 1) x, (encOf spec lay).sq n0 (o.len - x - 1)) := by
    intro o n0 x hmem h0 h1 r0 r1 hx
    have hl := wf.seqLen o hmem
    have hx' : o.len - x - 1 < (viewNucs o false).length := by omega
    obtain ⟨n, hn⟩ := getElem?_some_of_lt hx'
    refine ⟨n.flip, n, ?_, ?_, nucReach_flip _ n⟩
    · simp only
      have e2 : o.len - 1 - x = o.len - x - 1 := by omega
      rw [den_sq wf D h1 hx hmem, r1, viewNucs_true, rc_getElem? _ _ (by omega), hl, e2, hn]; rfl
    · simp only
      rw [den_sq wf D h0 (by omega) hmem, r0]; exact hn
  rcases List.mem_append.1 he with he | he
  · obtain ⟨⟨k, o⟩, hko, he⟩ := List.mem_flatMap.1 he
    obtain ⟨x, hx, rfl⟩ := List.mem_map.1 he
    obtain ⟨h0, h1, r0, r1⟩ := objOfNum_base hko
    exact main o (2 * k) x (mem_baseSeqs (mem_enum hko).1).1 h0 h1 r0 r1 (List.mem_range.1 hx)
  · obtain ⟨⟨k, o⟩, hko, he⟩ := List.mem_flatMap.1 he
    obtain ⟨x, hx, rfl⟩ := List.mem_map.1 he
    obtain ⟨h0, h1, r0, r1⟩ := objOfNum_sup hko
    exact main o (2 * spec.baseSeqs.length + 2 * k) x (mem_supSeqs (mem_enum hko).1).1 h0 h1 r0 r1
      (List.mem_range.1 hx)

/-- the region an `equal` entry holds for an item that resolves -/
theorem equal_region_mem (its : List ItemRef) {i : ItemRef} (hi : i ∈ its) (hr : (spec.findSeq i.name).isSome = true) :
    nucsOfItem spec i ∈ its.filterMap (fun i =>
      (spec.findSeq i.name).map (fun o => nucsOfBases (basesOfView o i.rev))) := by
  rw [List.mem_filterMap]
  refine ⟨i, hi, ?_⟩
  obtain ⟨o, ho⟩ := Option.isSome_iff_exists.1 hr
  simp [nucsOfItem, ho, viewNucs]

/-- "equality constraints" join nodes whose nucleotides an `equal` line identifies -/
theorem equalEdges_sound (wf : SpecWF spec) (D : DenOK posTab spec (encOf spec lay)) {ee : List (Nat × Nat)}
    (h : equalEdges spec (encOf spec lay) = .ok ee) :
    ∀ e ∈ ee, EdgeSound (Pil.denote spec) (den posTab spec (encOf spec lay)) false e := by
  intro e he
  unfold equalEdges at h
  obtain ⟨its, hits, cs, hcs, hecs⟩ := (flatME_mem h e).1 he
  cases its with
  | nil => simp at hcs
  | cons first rest =>
    simp only at hcs
    obtain ⟨it, hit, cs', hcs', hecs'⟩ := (flatME_mem hcs e).1 hecs
    by_cases hlen : (lenOf spec it != lenOf spec first) = true
    · simp [hlen] at hcs'
    · simp only [hlen, Bool.false_eq_true, if_false] at hcs'
      have hlen' : lenOf spec it = lenOf spec first := by simpa using hlen
      obtain ⟨x, hx, hxe⟩ := mapME_mem hcs' hecs'
      have hxl : x < lenOf spec it := List.mem_range.1 hx
      cases ha : sqOf spec (encOf spec lay) first x with
      | error er => simp [ha] at hxe
      | ok a =>
        cases hb : sqOf spec (encOf spec lay) it x with
        | error er => simp [ha, hb] at hxe
        | ok b =>
          simp only [ha, hb, Except.ok.injEq] at hxe
          subst hxe
          obtain ⟨na, hna, rfl⟩ := sqOf_ok ha
          obtain ⟨nb, hnb, rfl⟩ := sqOf_ok hb
          obtain ⟨m, hm⟩ := getElem?_some_of_lt (l := nucsOfItem spec first) (i := x)
            (by rw [nucsOfItem_length wf]; omega)
          obtain ⟨n, hn⟩ := getElem?_some_of_lt (l := nucsOfItem spec it) (i := x)
            (by rw [nucsOfItem_length wf]; exact hxl)
          refine ⟨m, n, ?_, ?_, ?_⟩
          · simp only; rw [den_item wf D hna (by omega)]; exact hm
          · simp only; rw [den_item wf D hnb hxl]; exact hn
          · apply nucReach_of_equalLink
            apply List.mem_append_left
            simp only [equalLinks, Pil.denote, List.mem_flatMap, List.mem_map]
            have hres := wf.equal _ hits
            refine ⟨_, ⟨first :: rest, hits, rfl⟩, nucsOfItem spec first,
              equal_region_mem _ List.mem_cons_self (hres first List.mem_cons_self),
              nucsOfItem spec it, equal_region_mem _ (List.mem_cons_of_mem _ hit) (hres it (List.mem_cons_of_mem _ hit)), ?_⟩
            simp only [regionLinks, List.mem_map]
            exact ⟨(m, n), getElem?_mem_zip hm hn, rfl⟩

end Groups

/-! ### strand layout: strands and bonds -/

theorem posTabStrand_mem {spec : Spec} {k : Nat} {o : StrandObj} (hko : (k, o) ∈ enum spec.strands) {y : Nat}
    (hy : y < o.len) {m : Nuc} (hm : (nucsOfBases o.bases)[y]? = some m) : (startS spec k + y, m) ∈ posTabStrand spec := by
  unfold posTabStrand
  rw [List.mem_flatMap]
  refine ⟨(k, o), hko, ?_⟩
  rw [List.mem_map]
  refine ⟨y, List.mem_range.2 hy, ?_⟩
  simp [List.getD_eq_getElem?_getD, hm]

/-- "strand constraints" join a layout position and the sequence node carrying the same nucleotide -/
theorem strandEdges_sound_strand {spec : Spec} (wf : SpecWF spec)
    (D : DenOK (posTabStrand spec) spec (encOf spec (layStrand spec))) {te : List (Nat × Nat)}
    (h : strandEdges spec (layStrand spec) (encOf spec (layStrand spec)) = .ok te) :
    ∀ e ∈ te, EdgeSound (Pil.denote spec) (den (posTabStrand spec) spec (encOf spec (layStrand spec))) false e := by
  intro e he
  unfold strandEdges at h
  obtain ⟨⟨k, o⟩, hko, cs, hcs, hecs⟩ := (flatME_mem h e).1 he
  obtain ⟨⟨off, it⟩, hoff, cs', hcs', hecs'⟩ := (flatME_mem hcs e).1 hecs
  obtain ⟨x, hx, hxe⟩ := mapME_mem hcs' hecs'
  simp only at hxe
  have hxl : x < lenOf spec it := List.mem_range.1 hx
  have hmem : o ∈ spec.strands := (mem_enum hko).1
  have ok := wf.strand o hmem
  obtain ⟨hidx, hlt⟩ := items_index wf ok hoff hxl
  have hlen : off + x < o.len := by rw [← wf.strandLen o hmem]; exact hlt
  rw [getIndexStrand_strand spec (mem_enum_lt hko) hlen] at hxe
  cases hb : sqOf spec (encOf spec (layStrand spec)) it x with
  | error er => simp [hb] at hxe
  | ok b =>
    simp only [hb, Except.ok.injEq] at hxe
    subst hxe
    obtain ⟨num, hn, rfl⟩ := sqOf_ok hb
    obtain ⟨m, hm⟩ := getElem?_some_of_lt hlt
    refine ⟨m, m, ?_, ?_, NucReach.refl _ m⟩
    · simp only
      exact den_pos D (posTabStrand_mem hko hlen hm)
    · simp only
      rw [den_item wf D hn hxl, ← hidx]; exact hm

theorem mem_enum_of_getElem? {α : Type} {l : List α} {k : Nat} {a : α} (h : l[k]? = some a) : (k, a) ∈ enum l := by
  unfold enum
  obtain ⟨hk, he⟩ := List.getElem?_eq_some_iff.1 h
  have : ((List.range l.length).zip l)[k]'(by simp [List.length_zip]; exact hk) = (k, a) := by
    rw [List.getElem_zip]; simp [he]
  exact this ▸ List.getElem_mem _

/-- `struct.strands`: every entry is a strand of the specification with its number -/
theorem structStrands_mem {spec : Spec} (wf : SpecWF spec) {so : StructObj} {q : Nat × StrandObj}
    (h : q ∈ structStrands spec so) : q ∈ enum spec.strands := by
  unfold structStrands at h
  obtain ⟨n, _, hq⟩ := List.mem_filterMap.1 h
  cases hi : strandIdx spec n with
  | none => simp [hi] at hq
  | some k =>
    cases hf : spec.findStrand n with
    | none => simp [hi, hf] at hq
    | some o =>
      simp only [hi, hf, Option.some.injEq] at hq
      subst hq
      obtain ⟨o', hk, hp⟩ := findIdx?_spec hi
      have hname : o'.name = n := by simpa using hp
      have := wf.strandFind o' (List.mem_of_getElem? hk)
      rw [hname, hf] at this
      cases this
      exact mem_enum_of_getElem? hk

/-- `get_index` in the strand layout lands in the strand that carries the nucleotide -/
theorem getIndexS_spec {spec : Spec} (l : List (Nat × StrandObj)) (hl : ∀ q ∈ l, q ∈ enum spec.strands)
    (hlen : ∀ q ∈ l, (nucsOfBases q.2.bases).length = q.2.len) {x a : Nat}
    (h : getIndexS (layStrand spec) l x = .ok a) :
    ∃ q ∈ l, ∃ y, y < q.2.len ∧ a = startS spec q.1 + y ∧
      (l.flatMap (fun q => nucsOfBases q.2.bases))[x]? = (nucsOfBases q.2.bases)[y]? := by
  induction l generalizing x with
  | nil => simp [getIndexS] at h
  | cons q l ih =>
    obtain ⟨k, o⟩ := q
    simp only [getIndexS] at h
    have hql := hlen (k, o) List.mem_cons_self
    simp only at hql
    by_cases hge : x ≥ o.len
    · simp only [hge, if_true] at h
      obtain ⟨q', hq', y, hy, ha, hidx⟩ := ih (fun q hq => hl q (List.mem_cons_of_mem _ hq))
        (fun q hq => hlen q (List.mem_cons_of_mem _ hq)) h
      refine ⟨q', List.mem_cons_of_mem _ hq', y, hy, ha, ?_⟩
      simp only [List.flatMap_cons]
      rw [List.getElem?_append_right (by omega), hql]
      exact hidx
    · simp only [hge, if_false] at h
      have hx : x < o.len := by omega
      rw [getIndexStrand_strand spec (mem_enum_lt (hl (k, o) List.mem_cons_self)) hx] at h
      simp only [Except.ok.injEq] at h
      refine ⟨(k, o), List.mem_cons_self, x, hx, h.symm, ?_⟩
      simp only [List.flatMap_cons]
      rw [List.getElem?_append_left (by omega)]

/-- the nucleotides of a structure as the design has them are those of `struct.strands` in order -/
theorem structNucs_denote {spec : Spec} (wf : SpecWF spec) {so : StructObj} (hso : so ∈ spec.structs) (opt : Opt) :
    structNucs (Pil.denote spec) ⟨so.name, so.strands, so.struct, opt⟩ =
      (structStrands spec so).flatMap (fun q => nucsOfBases q.2.bases) := by
  have hres := (wf.struct so hso).1
  unfold structNucs structStrands
  simp only
  generalize so.strands = names at hres
  induction names with
  | nil => rfl
  | cons n names ih =>
    obtain ⟨o, ho⟩ := Option.isSome_iff_exists.1 (hres n List.mem_cons_self)
    have hidx : ∃ k, strandIdx spec n = some k := by
      cases hi : strandIdx spec n with
      | some k => exact ⟨k, rfl⟩
      | none =>
        have := List.findIdx?_eq_none_iff.1 hi o (findStrand_mem ho).1
        simp [(findStrand_mem ho).2] at this
    obtain ⟨k, hk⟩ := hidx
    have hsn : strandNucs (Pil.denote spec) n = nucsOfBases o.bases := by
      unfold strandNucs Pil.denote
      simp only
      rw [List.find?_map]
      have : (spec.strands.find? ((fun (x : String × Bool × List Nuc) => x.1 == n) ∘
          fun o => (o.name, o.dummy, nucsOfBases o.bases))) = spec.findStrand n := rfl
      rw [this, ho]
      rfl
    simp only [List.flatMap_cons, List.filterMap_cons, hk, ho, hsn]
    rw [ih (fun n' hn' => hres n' (List.mem_cons_of_mem _ hn'))]

theorem getBondsAux_pairs (s : List Char) (pos : Nat) (stk : List Nat) (acc bs : List (Nat × Nat))
    (h : getBondsAux s pos stk acc = .ok bs) : bs = acc.reverse ++ pairsAux s pos stk := by
  induction s generalizing pos stk acc with
  | nil => simp [getBondsAux] at h; simp [pairsAux, h]
  | cons c r ih =>
    unfold getBondsAux at h
    split at h
    · cases ‹(c :: r) = []›
    · rename_i r' pos' stk' acc' heq
      cases heq
      have := ih _ _ _ h
      simp [pairsAux, this]
    · rename_i r' pos' stk' acc' heq
      cases heq
      have := ih _ _ _ h
      simp [pairsAux, this]
    · rename_i r' pos' stk' acc' heq
      cases heq
      split at h
      · cases h
      · rename_i o stk''
        have := ih _ _ _ h
        simp [pairsAux, this]
    · rename_i r' pos' stk' acc' heq
      cases heq
      have := ih _ _ _ h
      simp [pairsAux, this]
    · cases h

theorem getBonds_pairs {s : List Char} {bs : List (Nat × Nat)} (h : getBonds s = .ok bs) : bs = pairs s := by
  have := getBondsAux_pairs s 0 [] [] bs h
  simpa [pairs] using this

/-- "structural constraints" join the positions of a base pair -/
theorem bondEdges_sound_strand {spec : Spec} (wf : SpecWF spec)
    (D : DenOK (posTabStrand spec) spec (encOf spec (layStrand spec))) {be : List (Nat × Nat)}
    (h : bondEdges .strand spec (layStrand spec) = .ok be) :
    ∀ e ∈ be, EdgeSound (Pil.denote spec) (den (posTabStrand spec) spec (encOf spec (layStrand spec))) true e := by
  intro e he
  unfold bondEdges at h
  obtain ⟨⟨sidx, so⟩, hso, cs, hcs, hecs⟩ := (flatME_mem h e).1 he
  obtain ⟨⟨x, y⟩, hxy, hxe⟩ := mapME_mem hcs hecs
  simp only at hxe
  have hsom : so ∈ spec.structs := (mem_enum hso).1
  cases ha : getIndex .strand spec (layStrand spec) sidx so x with
  | error er => simp [ha] at hxe
  | ok a =>
    cases hb : getIndex .strand spec (layStrand spec) sidx so y with
    | error er => simp [ha, hb] at hxe
    | ok b =>
      simp only [ha, hb, Except.ok.injEq] at hxe
      subst hxe
      have hl : ∀ q ∈ structStrands spec so, q ∈ enum spec.strands := fun q hq => structStrands_mem wf hq
      have hlen : ∀ q ∈ structStrands spec so, (nucsOfBases q.2.bases).length = q.2.len :=
        fun q hq => wf.strandLen q.2 (mem_enum (hl q hq)).1
      have unf : ∀ z c, getIndex .strand spec (layStrand spec) sidx so z = .ok c →
          getIndexS (layStrand spec) (structStrands spec so) z = .ok c := by
        intro z c hz
        unfold getIndex at hz
        split at hz
        · exact hz
        · cases hz
      obtain ⟨q1, hq1, y1, hy1, rfl, hi1⟩ := getIndexS_spec _ hl hlen (unf x a ha)
      obtain ⟨q2, hq2, y2, hy2, rfl, hi2⟩ := getIndexS_spec _ hl hlen (unf y b hb)
      obtain ⟨m, hm⟩ := getElem?_some_of_lt (l := nucsOfBases q1.2.bases) (i := y1) (by rw [hlen q1 hq1]; exact hy1)
      obtain ⟨n, hn⟩ := getElem?_some_of_lt (l := nucsOfBases q2.2.bases) (i := y2) (by rw [hlen q2 hq2]; exact hy2)
      refine ⟨m, n, ?_, ?_, ?_⟩
      · simp only
        exact den_pos D (posTabStrand_mem (hl q1 hq1) hy1 hm)
      · simp only
        exact den_pos D (posTabStrand_mem (hl q2 hq2) hy2 hn)
      · apply nucReach_of_pairLink
        apply List.mem_append_right
        simp only [pairLinks, List.mem_flatMap]
        refine ⟨⟨so.name, so.strands, so.struct, optOfParams so.params⟩, ?_, ?_⟩
        · simp only [Pil.denote, List.mem_map]
          exact ⟨so, hsom, rfl⟩
        · rw [List.mem_filterMap]
          refine ⟨(x, y), ?_, ?_⟩
          · rw [← getBonds_pairs (wf.struct so hsom).2]; exact hxy
          · simp only
            rw [structNucs_denote wf hsom, hi1, hi2, hm, hn]

/-! ## the strand layout: everything together -/

/-- the denotation used for the strand layout -/
def denS (spec : Spec) : Nat → Option Nuc := den (posTabStrand spec) spec (encOf spec (layStrand spec))

theorem layOf_strand (spec : Spec) : layOf .strand spec = layStrand spec := rfl

/-- after a successful seeding in the strand layout: distinct keys (hence a well-defined denotation) and every
    seeded link is sound -/
theorem seeds_sound_strand {tbl : CodeTable} {spec : Spec} (wf : SpecWF spec) (ok : SpecCodes tbl spec)
    {s : Seeds} {c : Cons} (hs : seeds .strand spec = .ok s) (hb : build s = .ok c) :
    DenOK (posTabStrand spec) spec (encOf spec (layStrand spec)) ∧
    (∀ e ∈ s.eqE, EdgeSound (Pil.denote spec) (denS spec) false e) ∧
    (∀ e ∈ s.wcE, EdgeSound (Pil.denote spec) (denS spec) true e) := by
  obtain ⟨li, ce, be, ee, se, te, h1, h2, h3, h4, h5, h6, rfl⟩ := seeds_ok hs
  rw [layOf_strand] at h1 h2 h3 h4 h5 h6
  obtain ⟨_, hkeys, hnd, _, _, _⟩ := build_spec (tbl := tbl) hb (seeds_codes ok hs)
  have hli : li = (enum spec.strands).flatMap (fun (p : Nat × StrandObj) =>
      (List.range p.2.len).map (fun x => (startS spec p.1 + x, 'N'))) := by
    have := layoutInits_strand spec
    rw [h1] at this
    exact (Except.ok.inj this)
  have D : DenOK (posTabStrand spec) spec (encOf spec (layStrand spec)) := by
    constructor
    rw [posTabStrand_keys, ← hli, ← List.map_append]
    rw [hkeys] at hnd
    exact hnd
  have hce : ce = [] := by
    unfold copyEdges at h2
    simp only at h2
    exact (Except.ok.inj h2).symm
  refine ⟨D, ?_, ?_⟩
  · intro e he
    simp only [List.mem_append] at he
    rcases he with ((he | he) | he) | he
    · rw [hce] at he; cases he
    · exact equalEdges_sound wf D h4 e he
    · exact supEdges_sound wf D h5 e he
    · exact strandEdges_sound_strand wf D h6 e he
  · intro e he
    simp only [List.mem_append] at he
    rcases he with he | he
    · exact bondEdges_sound_strand wf D h3 e he
    · exact viewEdges_sound wf D e he

/-! ## templates of nodes -/

/-- every `init` of a sequence node: which view, which index, which letter -/
theorem seqInits_mem {spec : Spec} (wf : SpecWF spec) (e : Enc) {p : Nat × Char} (h : p ∈ seqInits spec e) :
    ∃ num o x, p.1 = e.sq num x ∧ objOfNum spec num = some o ∧ o ∈ spec.seqs ∧ x < o.len ∧
      (p.2 = 'N' ∨ (revOfNum num = false ∧ o.isSup = false ∧ o.template[x]? = some p.2)) := by
  unfold seqInits at h
  rcases List.mem_append.1 h with h | h
  · obtain ⟨⟨k, o⟩, hko, h⟩ := List.mem_flatMap.1 h
    simp only at h
    obtain ⟨h0, h1, r0, r1⟩ := objOfNum_base hko
    have hmem := mem_baseSeqs (mem_enum hko).1
    simp only at hmem
    have hb := wf.base o hmem.1 hmem.2
    rcases List.mem_append.1 h with h | h
    · obtain ⟨⟨x, ch⟩, hxc, rfl⟩ := List.mem_map.1 h
      have hx : x < o.template.length := mem_enum_lt hxc
      exact ⟨2 * k, o, x, rfl, h0, hmem.1, by rw [← hb.1]; exact hx, Or.inr ⟨r0, hmem.2, enum_getElem? hxc⟩⟩
    · obtain ⟨x, hx, rfl⟩ := List.mem_map.1 h
      exact ⟨2 * k + 1, o, x, rfl, h1, hmem.1, List.mem_range.1 hx, Or.inl rfl⟩
  · obtain ⟨⟨k, o⟩, hko, h⟩ := List.mem_flatMap.1 h
    simp only at h
    obtain ⟨h0, h1, r0, r1⟩ := objOfNum_sup hko
    have hmem := mem_supSeqs (mem_enum hko).1
    simp only at hmem
    rcases List.mem_append.1 h with h | h
    · obtain ⟨x, hx, rfl⟩ := List.mem_map.1 h
      exact ⟨_, o, x, rfl, h0, hmem.1, List.mem_range.1 hx, Or.inl rfl⟩
    · obtain ⟨x, hx, rfl⟩ := List.mem_map.1 h
      exact ⟨_, o, x, rfl, h1, hmem.1, List.mem_range.1 hx, Or.inl rfl⟩

theorem fwd_getElem? (name : String) (len x : Nat) (hx : x < len) : (fwd name len)[x]? = some ⟨⟨name, x⟩, false⟩ := by
  unfold fwd
  rw [List.getElem?_map, List.getElem?_range hx]; rfl

/-- every key of the strand layout denotes a nucleotide, and the template stored with the key allows every base
    the design allows for that nucleotide -/
theorem key_den_strand {tbl : CodeTable} {spec : Spec} (wf : SpecWF spec) (ok : SpecCodes tbl spec)
    (hN : tbl.maskC 'N' = 15) {s : Seeds} {c : Cons} (hs : seeds .strand spec = .ok s) (hb : build s = .ok c)
    {y : Nat} (hy : y ∈ c.keys) :
    ∃ n, denS spec y = some n ∧
      ∀ b, okVar tbl (Pil.denote spec) n.var (flipB b n.comp) → hasB (stMask tbl c.st y) b := by
  obtain ⟨D, _, _⟩ := seeds_sound_strand wf ok hs hb
  obtain ⟨li, ce, be, ee, se, te, h1, _, _, _, _, _, rfl⟩ := seeds_ok hs
  rw [layOf_strand] at h1
  obtain ⟨_, hkeys, _, hst, _, _⟩ := build_spec (tbl := tbl) hb (seeds_codes ok hs)
  rw [hkeys] at hy
  obtain ⟨p, hp, rfl⟩ := List.mem_map.1 hy
  have hstp : stMask tbl c.st p.1 = tbl.maskC p.2 := by simp [stMask, hst p hp]
  have hNall : ∀ b, hasB (tbl.maskC 'N') b := fun b => hN ▸ hasB_15 b
  simp only at hp
  rcases List.mem_append.1 hp with hp | hp
  · -- a layout position
    have hletter := layoutInits_letters h1 p hp
    have hli := layoutInits_strand spec
    rw [h1] at hli
    have hli := Except.ok.inj hli
    rw [hli] at hp
    obtain ⟨⟨k, o⟩, hko, hp⟩ := List.mem_flatMap.1 hp
    obtain ⟨x, hx, rfl⟩ := List.mem_map.1 hp
    have hxl := List.mem_range.1 hx
    obtain ⟨m, hm⟩ := getElem?_some_of_lt (l := nucsOfBases o.bases) (i := x)
      (by rw [wf.strandLen o (mem_enum hko).1]; exact hxl)
    refine ⟨m, den_pos D (posTabStrand_mem hko hxl hm), fun b _ => ?_⟩
    rw [hstp]; exact hNall b
  · obtain ⟨num, o, x, hpx, ho, hmem, hx, hcase⟩ := seqInits_mem wf _ hp
    obtain ⟨n, hn⟩ := getElem?_some_of_lt (l := viewNucs o (revOfNum num)) (i := x)
      (by rw [viewNucs_length, wf.seqLen o hmem]; exact hx)
    have hden : denS spec p.1 = some n := by
      unfold denS
      rw [hpx]
      show den (posTabStrand spec) spec (encOf spec (layStrand spec)) ((encOf spec (layStrand spec)).sq num x) = some n
      rw [den_sq wf D ho hx hmem]; exact hn
    refine ⟨n, hden, fun b hb' => ?_⟩
    rw [hstp]
    rcases hcase with hc | ⟨hr, hsup, hch⟩
    · rw [hc]; exact hNall b
    · rw [hr, (wf.base o hmem hsup).2, fwd_getElem? _ _ _ hx] at hn
      cases hn
      simp only [flipB, Bool.false_eq_true, if_false] at hb'
      have hdom : (o.name, o.template) ∈ (Pil.denote spec).domains := by
        simp only [Pil.denote, List.mem_map, List.mem_filter]
        refine ⟨o, ⟨?_, ?_⟩, rfl⟩
        · unfold Spec.baseSeqs
          rw [List.mem_filter]; exact ⟨hmem, by simp [hsup]⟩
        · simp; omega
      exact hb' (o.name, o.template) hdom rfl p.2 hch

/-! ## strand layout: the soundness theorems -/

/-- parity reachability in the seeded graph implies that the design forces the two nucleotides equal / complementary -/
theorem reach_sound_strand {tbl : CodeTable} {spec : Spec} (wf : SpecWF spec) (ok : SpecCodes tbl spec)
    {s : Seeds} {c : Cons} (hs : seeds .strand spec = .ok s) (hb : build s = .ok c)
    {x y : Nat} {p : Bool} (h : Reach (adjOf c.keys c.eq) (adjOf c.keys c.wc) x p y) {m : Nuc}
    (hm : denS spec x = some m) : ∃ n, denS spec y = some n ∧ NucReach (Pil.denote spec) m p n := by
  obtain ⟨_, hE, hW⟩ := seeds_sound_strand wf ok hs hb
  obtain ⟨_, _, _, _, nbE, nbW⟩ := build_spec (tbl := tbl) hb (seeds_codes ok hs)
  exact reach_sound nbE nbW hE hW h hm

theorem flipB_false (b : Base) : flipB b false = b := rfl

/-- a satisfiable design never makes the seeded graph over-constrained (strand layout) -/
theorem graphSat_of_satisfiable_strand {tbl : CodeTable} {spec : Spec} (wf : SpecWF spec) (ok : SpecCodes tbl spec)
    (hN : tbl.maskC 'N' = 15) {s : Seeds} {c : Cons} (hs : seeds .strand spec = .ok s) (hb : build s = .ok c)
    (hsat : Satisfiable tbl (Pil.denote spec)) : GraphSat tbl c := by
  obtain ⟨a, ha⟩ := hsat
  obtain ⟨hokv, hreach⟩ := (sat_iff_asat tbl _ a).1 ha
  obtain ⟨wfc, _⟩ := build_spec (tbl := tbl) hb (seeds_codes ok hs)
  intro x hx
  obtain ⟨nx, hnx, _⟩ := key_den_strand wf ok hN hs hb hx
  constructor
  · intro hself
    obtain ⟨n', hn', hr⟩ := reach_sound_strand wf ok hs hb hself hnx
    rw [hnx] at hn'; cases hn'
    have := hreach _ _ _ hr
    have e : ((true != nx.comp) != nx.comp) = true := by cases nx.comp <;> rfl
    rw [e] at this
    exact flipB_true_ne _ this.symm
  · refine ⟨val a nx, ?_⟩
    intro y p hy
    have hyk : y ∈ c.keys := by
      have := hy.mem_keys wfc.pre.keyClosed (by rw [keys_adjOf]; exact hx)
      rwa [keys_adjOf] at this
    obtain ⟨ny, hny, htmpl⟩ := key_den_strand wf ok hN hs hb hyk
    obtain ⟨n', hn', hr⟩ := reach_sound_strand wf ok hs hb hy hnx
    rw [hny] at hn'; cases hn'
    apply htmpl
    have h1 := hreach _ _ _ hr
    have h2 : flipB (flipB (val a nx) p) ny.comp = a ny.var := by
      rw [h1, val_eq, flipB_flipB, flipB_flipB]
      congr 1
      cases p <;> cases nx.comp <;> cases ny.comp <;> rfl
    rw [h2]
    exact hokv ny.var

/-- what exactness over the seeded graph means for the design (strand layout, soundness half): the position
    `eq[i]` and the position `wc[i]` carry nucleotides the design forces equal / complementary to the one at `i`,
    and `st[i]` allows every base that the design allows there -/
theorem arrays_sound_strand_aux {tbl : CodeTable} {spec : Spec} (wf : SpecWF spec) (ok : SpecCodes tbl spec)
    (hN : tbl.maskC 'N' = 15) {s : Seeds} {c : Cons} (hs : seeds .strand spec = .ok s) (hb : build s = .ok c)
    {a : Arrays} (G : GraphExact tbl c s.P a) {i : Nat} (hi : i < a.1.length) (hk : i ∈ c.keys) :
    ∃ m, denS spec i = some m ∧
      (∀ r, a.1[i]? = some (some r) → ∃ n, denS spec r = some n ∧ NucReach (Pil.denote spec) m false n) ∧
      (∀ w, a.2.1[i]? = some (some w) → ∃ n, denS spec w = some n ∧ NucReach (Pil.denote spec) m true n) ∧
      (∀ ch, a.2.2[i]? = some (some ch) → ∀ b,
        (∀ v q, ParityReach (Pil.denote spec) m.var q v →
          okVar tbl (Pil.denote spec) v (flipB (flipB b m.comp) q)) → hasB (tbl.maskC ch) b) := by
  obtain ⟨wfc, _⟩ := build_spec (tbl := tbl) hb (seeds_codes ok hs)
  obtain ⟨m, hm, _⟩ := key_den_strand wf ok hN hs hb hk
  obtain ⟨⟨v, hv, hvmin⟩, ⟨w, hw, hwmin⟩, ch, hch, _, hbits⟩ := G.key i hi hk
  refine ⟨m, hm, ?_, ?_, ?_⟩
  · intro r hr
    rw [hv] at hr; cases hr
    exact reach_sound_strand wf ok hs hb hvmin.1 hm
  · intro w' hw'
    rw [hw] at hw'; cases hw'
    exact reach_sound_strand wf ok hs hb hwmin.1 hm
  · intro ch' hch' b hsem
    rw [hch] at hch'; cases hch'
    rw [hbits]
    intro y p hy
    have hyk : y ∈ c.keys := by
      have := hy.mem_keys wfc.pre.keyClosed (by rw [keys_adjOf]; exact hk)
      rwa [keys_adjOf] at this
    obtain ⟨ny, hny, htmpl⟩ := key_den_strand wf ok hN hs hb hyk
    obtain ⟨n', hn', hr⟩ := reach_sound_strand wf ok hs hb hy hm
    rw [hny] at hn'; cases hn'
    apply htmpl
    have := hsem ny.var _ hr
    have e : flipB (flipB b m.comp) ((p != m.comp) != ny.comp) = flipB (flipB b p) ny.comp := by
      rw [flipB_flipB, flipB_flipB]
      congr 1
      cases p <;> cases m.comp <;> cases ny.comp <;> rfl
    rwa [e] at this

/-! ## strand layout: where the strands sit -/

theorem layStrandAux_closed (l : List StrandObj) (p k : Nat) (hk : k < l.length) :
    (layStrandAux l p).1[k]? = some (some (p + ((l.take k).map (fun o => o.len + Generated.strandGap)).sum)) := by
  induction l generalizing p k with
  | nil => simp at hk
  | cons a l ih =>
    simp only [layStrandAux]
    cases k with
    | zero => simp
    | succ k =>
      simp only [List.length_cons] at hk
      have := ih (p + a.len + Generated.strandGap) k (by omega)
      simp only [List.getElem?_cons_succ, List.take_succ_cons, List.map_cons, List.sum_cons]
      rw [this]
      congr 2
      omega

theorem layStrandAux_total (l : List StrandObj) (p k : Nat) (o : StrandObj) (h : l[k]? = some o) :
    p + ((l.take k).map (fun o => o.len + Generated.strandGap)).sum + o.len + Generated.strandGap
      ≤ (layStrandAux l p).2 := by
  induction l generalizing p k with
  | nil => simp at h
  | cons a l ih =>
    simp only [layStrandAux]
    cases k with
    | zero =>
      simp only [List.getElem?_cons_zero, Option.some.injEq] at h
      subst h
      simp only [List.take_zero, List.map_nil, List.sum_nil, Nat.add_zero]
      -- the total only grows
      have mono : ∀ (l : List StrandObj) (p : Nat), p ≤ (layStrandAux l p).2 := by
        intro l
        induction l with
        | nil => intro p; simp [layStrandAux]
        | cons b l ih2 =>
          intro p
          simp only [layStrandAux]
          exact Nat.le_trans (by omega) (ih2 (p + b.len + Generated.strandGap))
      exact mono l _
    | succ k =>
      simp only [List.getElem?_cons_succ] at h
      have := ih (p + a.len + Generated.strandGap) k h
      simp only [List.take_succ_cons, List.map_cons, List.sum_cons]
      omega

/-- **Strand layout**: strand `k` starts after all earlier strands, each followed by `strandGap` blanks. -/
theorem startS_closed (spec : Spec) {k : Nat} (hk : k < spec.strands.length) :
    startS spec k = ((spec.strands.take k).map (fun o => o.len + Generated.strandGap)).sum := by
  unfold startS
  have : (layStrand spec).strandStart = (layStrandAux spec.strands 0).1 := rfl
  rw [this, List.getD_eq_getElem?_getD, layStrandAux_closed _ _ _ hk]
  simp

theorem mem_seqInits_ge {spec : Spec} (wf : SpecWF spec) (e : Enc) {y : Nat}
    (h : y ∈ (seqInits spec e).map (·.1)) : e.P ≤ y := by
  obtain ⟨p, hp, rfl⟩ := List.mem_map.1 h
  obtain ⟨num, o, x, hpx, _⟩ := seqInits_mem wf e hp
  rw [hpx]; unfold Enc.sq; omega

/-- the keys below `P` are exactly the strand positions -/
theorem key_iff_pos_strand {tbl : CodeTable} {spec : Spec} (wf : SpecWF spec) (ok : SpecCodes tbl spec)
    {s : Seeds} {c : Cons} (hs : seeds .strand spec = .ok s) (hb : build s = .ok c) {i : Nat} (hi : i < s.P) :
    i ∈ c.keys ↔ ∃ q ∈ enum spec.strands, ∃ x, x < q.2.len ∧ i = startS spec q.1 + x := by
  obtain ⟨li, ce, be, ee, se, te, h1, _, _, _, _, _, rfl⟩ := seeds_ok hs
  rw [layOf_strand] at h1
  obtain ⟨_, hkeys, _, _, _, _⟩ := build_spec (tbl := tbl) hb (seeds_codes ok hs)
  have hli := layoutInits_strand spec
  rw [h1] at hli
  have hli := Except.ok.inj hli
  rw [hkeys]
  simp only [List.map_append, List.mem_append]
  constructor
  · rintro (h | h)
    · rw [hli] at h
      obtain ⟨p, hp, rfl⟩ := List.mem_map.1 h
      obtain ⟨q, hq, hp⟩ := List.mem_flatMap.1 hp
      obtain ⟨x, hx, rfl⟩ := List.mem_map.1 hp
      exact ⟨q, hq, x, List.mem_range.1 hx, rfl⟩
    · have := mem_seqInits_ge wf _ h
      simp only [encOf] at this
      rw [layOf_strand] at hi this
      simp only at hi
      omega
  · rintro ⟨q, hq, x, hx, rfl⟩
    left
    rw [hli]
    exact List.mem_map.2 ⟨(startS spec q.1 + x, 'N'),
      List.mem_flatMap.2 ⟨q, hq, List.mem_map.2 ⟨x, List.mem_range.2 hx, rfl⟩⟩, rfl⟩

/-- a strand position denotes the strand's nucleotide -/
theorem denS_pos {tbl : CodeTable} {spec : Spec} (wf : SpecWF spec) (ok : SpecCodes tbl spec)
    {s : Seeds} {c : Cons} (hs : seeds .strand spec = .ok s) (hb : build s = .ok c)
    {q : Nat × StrandObj} (hq : q ∈ enum spec.strands) {x : Nat} (hx : x < q.2.len) :
    denS spec (startS spec q.1 + x) = (nucsOfBases q.2.bases)[x]? := by
  obtain ⟨D, _, _⟩ := seeds_sound_strand wf ok hs hb
  obtain ⟨m, hm⟩ := getElem?_some_of_lt (l := nucsOfBases q.2.bases) (i := x)
    (by rw [wf.strandLen q.2 (mem_enum hq).1]; exact hx)
  rw [hm]
  exact den_pos D (posTabStrand_mem (k := q.1) (o := q.2) hq hx hm)

end Pepper.ConstraintGen
